(* C08 — documented isometries and inverses really invert.
   FFT family: for every ring with conjugation and every principal N-th root
   of unity w (laws = premises, see [principal_root]); engines modelled
   separately in Ops/DFTEngines.v.  DCT / DWT / MatrixMult.inv / explicit '/'
   are external oracles: checked on the implementation only (harness/c08.py,
   Gram matrix and round trips evaluated in Coq). *)
From PV Require Import DFTEngines IndexOps.
From Coq Require Import ZArith.
From PV Require Import GaussQc GaussField.
Local Open Scope R_scope.

(* adjoint of the (rectangular, zero-padding) transform: ANY w, any lengths *)
Theorem C08_dft_adjoint :
  forall (S : StarRing) (w : S) (m : nat) (x y : list S), length y = m ->
    dot S (dft S w m x) y = dot S x (dft S (conj S w) (length x) y).
Proof. exact dft_adjoint. Qed.
Print Assumptions C08_dft_adjoint.

(* zero-padded round trip: truncate (conjDFT_N (DFT_N (pad x))) = N . x  for length x <= N *)
Theorem C08_dft_inversion_padded :
  forall (S : StarRing) (w : S) (N : nat), principal_root S w N ->
    forall x : list S, (length x <= N)%nat ->
      trunc S (length x) (dft S (conj S w) N (dft S w N (pad S N x))) = vscale S (of_nat S N) x.
Proof. intros S w N (_ & Hu & Ho). exact (dft_inversion_pad S w N Hu Ho). Qed.
Print Assumptions C08_dft_inversion_padded.

(* norm='ortho' (s*s*N = 1): the adjoint is the inverse, also with zero padding *)
Theorem C08_dft_unitary_ortho :
  forall (S : StarRing) (w : S) (N : nat), principal_root S w N ->
    forall (s : S) (x : list S), (length x <= N)%nat -> s * s * of_nat S N = 1 ->
      vscale S s (dft S (conj S w) (length x) (vscale S s (dft S w N x))) = x.
Proof. intros S w N (_ & Hu & Ho). exact (dft_unitary_ortho S w N Hu Ho). Qed.
Print Assumptions C08_dft_unitary_ortho.

(* any placement of scale factors with a*b*N = 1 inverts (norm none: a=1,b=1/N; 1/n: a=1/N,b=1) *)
Theorem C08_dft_scaled_inverse :
  forall (S : StarRing) (w : S) (N : nat), principal_root S w N ->
    forall (a b : S) (x : list S), (length x <= N)%nat -> a * b * of_nat S N = 1 ->
      vscale S b (dft S (conj S w) (length x) (vscale S a (dft S w N x))) = x.
Proof. intros S w N (_ & Hu & Ho). exact (dft_scaled_inverse S w N Hu Ho). Qed.
Print Assumptions C08_dft_scaled_inverse.

(* '/' inverts for EVERY norm, both shifts, every engine model, n <= nfft *)
Theorem C08_fft_div_inverts :
  forall (F : FieldS) (w : F) (N : nat) (sq : F), fft_setting F w N sq ->
    forall (c : fcfg) (x : list F), length x = c_n c -> (c_n c <= N)%nat ->
      div_numpy F w N sq c (fwd_numpy F w N sq c x) = x /\
      div_scipy F w N sq c (fwd_scipy F w N sq c x) = x /\
      div_fftw F w N sq c (fwd_fftw F w N sq c x) = x.
Proof. exact fft_div_inverts_all. Qed.
Print Assumptions C08_fft_div_inverts.

(* Op^H Op = id for norm='ortho', both shifts, every engine model, n <= nfft *)
Theorem C08_fft_unitary_ortho :
  forall (F : FieldS) (w : F) (N : nat) (sq : F), fft_setting F w N sq ->
    forall (c : fcfg) (x : list F), c_norm c = Ortho -> length x = c_n c -> (c_n c <= N)%nat ->
      adj_numpy F w N sq c (fwd_numpy F w N sq c x) = x /\
      adj_scipy F w N sq c (fwd_scipy F w N sq c x) = x /\
      adj_fftw F w N sq c (fwd_fftw F w N sq c x) = x.
Proof. exact fft_unitary_ortho_all. Qed.
Print Assumptions C08_fft_unitary_ortho.

(* ... and adj really is the adjoint of fwd in each engine (so "isometry" is about Op^H) *)
Theorem C08_fft_adjoint_pair :
  forall (F : FieldS) (w : F) (N : nat) (sq : F), fft_setting F w N sq ->
    forall (c : fcfg) (x y : list F), length x = c_n c -> (c_n c <= N)%nat -> length y = N ->
      dot F (fwd_numpy F w N sq c x) y = dot F x (adj_numpy F w N sq c y) /\
      dot F (fwd_scipy F w N sq c x) y = dot F x (adj_scipy F w N sq c y) /\
      dot F (fwd_fftw F w N sq c x) y = dot F x (adj_fftw F w N sq c y).
Proof. exact fft_adjoint_all. Qed.
Print Assumptions C08_fft_adjoint_pair.

(* the three engines are the same operator: forward, adjoint and '/' (C05 for the FFT) *)
Theorem C08_fft_engines_agree :
  forall (F : FieldS) (w : F) (N : nat) (sq : F), fft_setting F w N sq ->
    forall (c : fcfg) (x y : list F), length x = c_n c ->
      (fwd_numpy F w N sq c x = fwd_scipy F w N sq c x /\ fwd_scipy F w N sq c x = fwd_fftw F w N sq c x) /\
      (adj_numpy F w N sq c y = adj_scipy F w N sq c y /\ adj_scipy F w N sq c y = adj_fftw F w N sq c y) /\
      (div_numpy F w N sq c y = div_scipy F w N sq c y /\ div_scipy F w N sq c y = div_fftw F w N sq c y).
Proof. exact fft_engines_agree. Qed.
Print Assumptions C08_fft_engines_agree.

(* the hypotheses are satisfiable: exact Gaussian-rational roots for N = 1, 2, 4 *)
Example C08_roots_nonvacuous :
  principal_root GF w1 1 /\ principal_root GF w2 2 /\ principal_root GF w4 4 /\
  fft_setting GF w1 1 w1 /\ fft_setting GF w4 4 half.
Proof. exact (Logic.conj root1 (Logic.conj root2 (Logic.conj root4 (Logic.conj setting1 setting4)))). Qed.
Print Assumptions C08_roots_nonvacuous.

(* a non-trivial object: N = 4, w = -i, n = 3 (zero padded), both shifts, each norm:
   the fftw model gives exactly what pylops returns ([6+1j, 1-2j, 1j, 1+4j]), and '/' (and H for ortho) bring x back *)
Definition ex_x : list GF := [gi 1 0; gi 2 1; gi (-3) 0].
Example C08_fft_example :
  let c nm := {| c_norm := nm; c_n := 3; c_sb := true; c_sa := true |} in
  gveqb (fwd_fftw GF w4 4 half (c NoneN) ex_x) [gi 6 1; gi 1 (-2); gi 0 1; gi 1 4] = true /\
  gveqb (div_fftw GF w4 4 half (c NoneN) (fwd_numpy GF w4 4 half (c NoneN) ex_x)) ex_x = true /\
  gveqb (div_numpy GF w4 4 half (c OneOverN) (fwd_scipy GF w4 4 half (c OneOverN) ex_x)) ex_x = true /\
  gveqb (adj_scipy GF w4 4 half (c Ortho) (fwd_fftw GF w4 4 half (c Ortho) ex_x)) ex_x = true.
Proof. vm_compute. repeat split. Qed.
Print Assumptions C08_fft_example.

(* real=True: half spectrum with sqrt(2) on bins 1..(nfft-1)/2; forward and
   adjoint models (fft.py, real branch; C2R ignores Im of the zero / Nyquist
   bins) are an adjoint pair for the REAL inner product, for every w and N.
   _partial: only the adjoint identity is proved; the real-input isometry
   radj (rfwd x) = x (needs the Hermitian-symmetry reindexing of the full
   spectrum) is NOT proved here - it is covered by the round trips run on the
   implementation.  s2*s2 = 2 has no exact instance among the executable
   rings (sqrt 2 is irrational): the hypothesis is met in the real numbers. *)
Theorem C08_rfft_adjoint_partial :
  forall (F : FieldS) (w : F) (N : nat) (s2 : F),
    s2 * s2 = 1 + 1 -> conj F s2 = s2 -> (1 + 1 : F) <> 0 ->
    forall x y : list F, (forall j, conj F (nth j x 0) = nth j x 0) -> length y = (N / 2 + 1)%nat ->
      1 / (1 + 1) * re2 F (dot F (rfwd F w N s2 x) y) = dotu F x (radj F w N s2 (length x) y).
Proof. exact rfft_adjoint. Qed.
Print Assumptions C08_rfft_adjoint_partial.

(* shifts: inverse and adjoint pairs *)
Theorem C08_shift_inverse :
  forall (S : StarRing) (x : list S), fftshift S (ifftshift S x) = x /\ ifftshift S (fftshift S x) = x.
Proof. intros; split; [apply fftshift_ifftshift | apply ifftshift_fftshift]. Qed.
Print Assumptions C08_shift_inverse.
Theorem C08_shift_adjoint :
  forall (S : StarRing) (x y : list S), length x = length y ->
    dot S (fftshift S x) y = dot S x (ifftshift S y) /\ dot S (ifftshift S x) y = dot S x (fftshift S y).
Proof. intros; split; [apply fftshift_adjoint | apply ifftshift_adjoint]; auto. Qed.
Print Assumptions C08_shift_adjoint.

(* index-map isometries (models of Ops/IndexOps.v): Flip, Roll, square Identity *)
Theorem C08_flip_invol : forall (R : CRing) (x : list R), flip_fwd R (flip_fwd R x) = x.
Proof. exact flip_invol. Qed.
Print Assumptions C08_flip_invol.
Theorem C08_roll_inverse : forall (R : CRing) s (x : list R), roll_adj R s (roll_fwd R s x) = x.
Proof. exact roll_inverse. Qed.
Print Assumptions C08_roll_inverse.
Theorem C08_identity_square : forall (R : CRing) N (x : list R), length x = N -> ident_adj R N N (ident_fwd R N N x) = x.
Proof. exact ident_square. Qed.
Print Assumptions C08_identity_square.
