(* C08 — documented isometries and inverses really invert.
   FFT family: for every ring with conjugation and every principal N-th root
   of unity w (laws = premises, see [principal_root]); engines modelled
   separately in Ops/DFTEngines.v.  DCT / DWT / MatrixMult.inv / explicit '/'
   are external oracles: checked on the implementation only (harness/c08.py,
   Gram matrix and round trips evaluated in Coq). *)
From PV Require Import DFTEngines IndexOps MatT.
From Coq Require Import ZArith.
From PV Require Import GaussQc GaussField.
Local Open Scope R_scope.

(* adjoint of the (rectangular, zero-padding) transform: ANY w, any lengths *)
Theorem C08_dft_adjoint :
  forall (S : StarRing) (w : S) (m : nat) (x y : list S), length y = m ->
    dot S (dft S w m x) y = dot S x (dft S (conj S w) (length x) y).
Proof. exact dft_adjoint. Qed.
Print Assumptions C08_dft_adjoint.

(* zero-padded round trip: truncate (conjDFT_N (DFT_N (pad x))) = N . x  for length x <= N *)
Theorem C08_dft_inversion_padded :
  forall (S : StarRing) (w : S) (N : nat), principal_root S w N ->
    forall x : list S, (length x <= N)%nat ->
      trunc S (length x) (dft S (conj S w) N (dft S w N (pad S N x))) = vscale S (of_nat S N) x.
Proof. intros S w N (_ & Hu & Ho). exact (dft_inversion_pad S w N Hu Ho). Qed.
Print Assumptions C08_dft_inversion_padded.

(* norm='ortho' (s*s*N = 1): the adjoint is the inverse, also with zero padding *)
Theorem C08_dft_unitary_ortho :
  forall (S : StarRing) (w : S) (N : nat), principal_root S w N ->
    forall (s : S) (x : list S), (length x <= N)%nat -> s * s * of_nat S N = 1 ->
      vscale S s (dft S (conj S w) (length x) (vscale S s (dft S w N x))) = x.
Proof. intros S w N (_ & Hu & Ho). exact (dft_unitary_ortho S w N Hu Ho). Qed.
Print Assumptions C08_dft_unitary_ortho.

(* any placement of scale factors with a*b*N = 1 inverts (norm none: a=1,b=1/N; 1/n: a=1/N,b=1) *)
Theorem C08_dft_scaled_inverse :
  forall (S : StarRing) (w : S) (N : nat), principal_root S w N ->
    forall (a b : S) (x : list S), (length x <= N)%nat -> a * b * of_nat S N = 1 ->
      vscale S b (dft S (conj S w) (length x) (vscale S a (dft S w N x))) = x.
Proof. intros S w N (_ & Hu & Ho). exact (dft_scaled_inverse S w N Hu Ho). Qed.
Print Assumptions C08_dft_scaled_inverse.

(* '/' inverts for EVERY norm, both shifts, every engine model, n <= nfft *)
Theorem C08_fft_div_inverts :
  forall (F : FieldS) (w : F) (N : nat) (sq : F), fft_setting F w N sq ->
    forall (c : fcfg) (x : list F), length x = c_n c -> (c_n c <= N)%nat ->
      div_numpy F w N sq c (fwd_numpy F w N sq c x) = x /\
      div_scipy F w N sq c (fwd_scipy F w N sq c x) = x /\
      div_fftw F w N sq c (fwd_fftw F w N sq c x) = x.
Proof. exact fft_div_inverts_all. Qed.
Print Assumptions C08_fft_div_inverts.

(* Op^H Op = id for norm='ortho', both shifts, every engine model, n <= nfft *)
Theorem C08_fft_unitary_ortho :
  forall (F : FieldS) (w : F) (N : nat) (sq : F), fft_setting F w N sq ->
    forall (c : fcfg) (x : list F), c_norm c = Ortho -> length x = c_n c -> (c_n c <= N)%nat ->
      adj_numpy F w N sq c (fwd_numpy F w N sq c x) = x /\
      adj_scipy F w N sq c (fwd_scipy F w N sq c x) = x /\
      adj_fftw F w N sq c (fwd_fftw F w N sq c x) = x.
Proof. exact fft_unitary_ortho_all. Qed.
Print Assumptions C08_fft_unitary_ortho.

(* ... and adj really is the adjoint of fwd in each engine (so "isometry" is about Op^H) *)
Theorem C08_fft_adjoint_pair :
  forall (F : FieldS) (w : F) (N : nat) (sq : F), fft_setting F w N sq ->
    forall (c : fcfg) (x y : list F), length x = c_n c -> (c_n c <= N)%nat -> length y = N ->
      dot F (fwd_numpy F w N sq c x) y = dot F x (adj_numpy F w N sq c y) /\
      dot F (fwd_scipy F w N sq c x) y = dot F x (adj_scipy F w N sq c y) /\
      dot F (fwd_fftw F w N sq c x) y = dot F x (adj_fftw F w N sq c y).
Proof. exact fft_adjoint_all. Qed.
Print Assumptions C08_fft_adjoint_pair.

(* the three engines are the same operator: forward, adjoint and '/' (C05 for the FFT) *)
Theorem C08_fft_engines_agree :
  forall (F : FieldS) (w : F) (N : nat) (sq : F), fft_setting F w N sq ->
    forall (c : fcfg) (x y : list F), length x = c_n c ->
      (fwd_numpy F w N sq c x = fwd_scipy F w N sq c x /\ fwd_scipy F w N sq c x = fwd_fftw F w N sq c x) /\
      (adj_numpy F w N sq c y = adj_scipy F w N sq c y /\ adj_scipy F w N sq c y = adj_fftw F w N sq c y) /\
      (div_numpy F w N sq c y = div_scipy F w N sq c y /\ div_scipy F w N sq c y = div_fftw F w N sq c y).
Proof. exact fft_engines_agree. Qed.
Print Assumptions C08_fft_engines_agree.

(* the hypotheses are satisfiable: exact Gaussian-rational roots for N = 1, 2, 4 *)
Example C08_roots_nonvacuous :
  principal_root GF w1 1 /\ principal_root GF w2 2 /\ principal_root GF w4 4 /\
  fft_setting GF w1 1 w1 /\ fft_setting GF w4 4 half.
Proof. exact (Logic.conj root1 (Logic.conj root2 (Logic.conj root4 (Logic.conj setting1 setting4)))). Qed.
Print Assumptions C08_roots_nonvacuous.

(* a non-trivial object: N = 4, w = -i, n = 3 (zero padded), both shifts, each norm:
   the fftw model gives exactly what pylops returns ([6+1j, 1-2j, 1j, 1+4j]), and '/' (and H for ortho) bring x back *)
Definition ex_x : list GF := [gi 1 0; gi 2 1; gi (-3) 0].
Example C08_fft_example :
  let c nm := {| c_norm := nm; c_n := 3; c_sb := true; c_sa := true |} in
  gveqb (fwd_fftw GF w4 4 half (c NoneN) ex_x) [gi 6 1; gi 1 (-2); gi 0 1; gi 1 4] = true /\
  gveqb (div_fftw GF w4 4 half (c NoneN) (fwd_numpy GF w4 4 half (c NoneN) ex_x)) ex_x = true /\
  gveqb (div_numpy GF w4 4 half (c OneOverN) (fwd_scipy GF w4 4 half (c OneOverN) ex_x)) ex_x = true /\
  gveqb (adj_scipy GF w4 4 half (c Ortho) (fwd_fftw GF w4 4 half (c Ortho) ex_x)) ex_x = true.
Proof. vm_compute. repeat split. Qed.
Print Assumptions C08_fft_example.

(* real=True: half spectrum with sqrt(2) on bins 1..(nfft-1)/2; forward and
   adjoint models (fft.py, real branch; C2R ignores Im of the zero / Nyquist
   bins) are an adjoint pair for the REAL inner product, for every w and N.
   _partial in name only for continuity: the real-input inversion / isometry is
   proved below (C08_rfft_inversion, C08_rfft_div_inverts, C08_rfft_unitary_ortho).
   s2*s2 = 2 has no exact instance among the executable rings (sqrt 2 is
   irrational): the hypothesis is met in the real numbers. *)
Theorem C08_rfft_adjoint_partial :
  forall (F : FieldS) (w : F) (N : nat) (s2 : F),
    s2 * s2 = 1 + 1 -> conj F s2 = s2 -> (1 + 1 : F) <> 0 ->
    forall x y : list F, (forall j, conj F (nth j x 0) = nth j x 0) -> length y = (N / 2 + 1)%nat ->
      1 / (1 + 1) * re2 F (dot F (rfwd F w N s2 x) y) = dotu F x (radj F w N s2 (length x) y).
Proof. exact rfft_adjoint. Qed.
Print Assumptions C08_rfft_adjoint_partial.

(* real=True, REAL input (vconj x = x), zero padding: the C2R model applied to the rescaled
   half spectrum returns N . x — Hermitian symmetry of the spectrum of a real vector, even and
   odd N, s2*s2 = 2 *)
Theorem C08_rfft_inversion :
  forall (F : FieldS) (w : F) (N : nat) (s2 : F),
    s2 * s2 = 1 + 1 -> (1 + 1 : F) <> 0 -> principal_root F w N ->
    forall x : list F, vconj F x = x -> (length x <= N)%nat -> 0 < N ->
      radj F w N s2 (length x) (rfwd F w N s2 x) = vscale F (of_nat F N) x.
Proof. intros F w N s2 H1 H2 (Hp & Hu & Ho). exact (rfft_inversion F w N s2 H1 H2 Hp Hu Ho). Qed.
Print Assumptions C08_rfft_inversion.

(* the real=True branch of _FFT_numpy / _FFT_scipy with norms and both shifts: '/' inverts for
   EVERY norm and Op^H Op = id for 'ortho', real input, n <= nfft *)
Theorem C08_rfft_div_inverts :
  forall (F : FieldS) (w : F) (N : nat) (s2 sq : F),
    s2 * s2 = 1 + 1 -> (1 + 1 : F) <> 0 -> fft_setting F w N sq ->
    forall (c : fcfg) (x : list F), vconj F x = x -> length x = c_n c -> (c_n c <= N)%nat -> 0 < N ->
      rdiv_np F w N s2 sq c (rfwd_np F w N s2 sq c x) = x.
Proof. intros F w N s2 sq H1 H2 ((Hp & Hu & Ho) & Hn & Hs & Hr).
  exact (rfft_np_div_inverts F w N s2 sq H1 H2 Hp Hu Ho Hn Hs Hr). Qed.
Print Assumptions C08_rfft_div_inverts.
Theorem C08_rfft_unitary_ortho :
  forall (F : FieldS) (w : F) (N : nat) (s2 sq : F),
    s2 * s2 = 1 + 1 -> (1 + 1 : F) <> 0 -> fft_setting F w N sq ->
    forall (c : fcfg) (x : list F), c_norm c = Ortho -> vconj F x = x -> length x = c_n c -> (c_n c <= N)%nat -> 0 < N ->
      radj_np F w N s2 sq c (rfwd_np F w N s2 sq c x) = x.
Proof. intros F w N s2 sq H1 H2 ((Hp & Hu & Ho) & Hn & Hs & Hr).
  exact (rfft_np_unitary_ortho F w N s2 sq H1 H2 Hp Hu Ho Hn Hs Hr). Qed.
Print Assumptions C08_rfft_unitary_ortho.

(* ---- FFT2D / FFTND with two transformed axes (fft2d.py; fftnd.py places scale, crop and
   shifts identically): 1-D model lifted along the columns (axis 0) and the rows (axis 1) of an
   n0 x n1 array; scale np.prod(nffts); crop after the full inverse transform; shifts on either
   axis before / after.  '/' inverts for every norm, Op^H Op = id for ortho, nffts >= dims on
   both axes; numpy and scipy engines agree (C05). ---- *)
Theorem C08_fft2d_div_inverts :
  forall (F : FieldS) (w0 w1 : F) (N0 N1 : nat) (sqP : F),
    principal_root F w0 N0 -> principal_root F w1 N1 ->
    of_nat F (N0 * N1) <> 0 -> sqP * sqP = 1 / of_nat F (N0 * N1) ->
    forall (c : cfg2) (X : list (list F)), wfM F (d_n1 c) X -> length X = d_n0 c ->
      (d_n0 c <= N0)%nat -> (d_n1 c <= N1)%nat ->
      div2_numpy F w0 w1 N0 N1 sqP c (fwd2_numpy F w0 w1 N0 N1 sqP c X) = X /\
      div2_scipy F w0 w1 N0 N1 sqP c (fwd2_scipy F w0 w1 N0 N1 sqP c X) = X.
Proof. intros F w0 w1 N0 N1 sqP (_ & Hu0 & Ho0) (_ & Hu1 & Ho1) Hn Hs.
  exact (fft2_div_inverts F w0 w1 N0 N1 Hu0 Ho0 Hu1 Ho1 Hn sqP Hs). Qed.
Print Assumptions C08_fft2d_div_inverts.
Theorem C08_fft2d_unitary_ortho :
  forall (F : FieldS) (w0 w1 : F) (N0 N1 : nat) (sqP : F),
    principal_root F w0 N0 -> principal_root F w1 N1 ->
    of_nat F (N0 * N1) <> 0 -> sqP * sqP = 1 / of_nat F (N0 * N1) ->
    forall (c : cfg2) (X : list (list F)), d_norm c = Ortho -> wfM F (d_n1 c) X -> length X = d_n0 c ->
      (d_n0 c <= N0)%nat -> (d_n1 c <= N1)%nat ->
      adj2_numpy F w0 w1 N0 N1 sqP c (fwd2_numpy F w0 w1 N0 N1 sqP c X) = X /\
      adj2_scipy F w0 w1 N0 N1 sqP c (fwd2_scipy F w0 w1 N0 N1 sqP c X) = X.
Proof. intros F w0 w1 N0 N1 sqP (_ & Hu0 & Ho0) (_ & Hu1 & Ho1) Hn Hs.
  exact (fft2_unitary_ortho F w0 w1 N0 N1 Hu0 Ho0 Hu1 Ho1 Hn sqP Hs). Qed.
Print Assumptions C08_fft2d_unitary_ortho.
(* C05: numpy and scipy 2-D engines are the same operator (forward, adjoint, '/') *)
Theorem C08_fft2d_engines_agree :
  forall (F : FieldS) (w0 w1 : F) (N0 N1 : nat) (sqP : F), of_nat F (N0 * N1) <> 0 ->
    forall (c : cfg2) (X Y : list (list F)),
      fwd2_numpy F w0 w1 N0 N1 sqP c X = fwd2_scipy F w0 w1 N0 N1 sqP c X /\
      adj2_numpy F w0 w1 N0 N1 sqP c Y = adj2_scipy F w0 w1 N0 N1 sqP c Y /\
      div2_numpy F w0 w1 N0 N1 sqP c Y = div2_scipy F w0 w1 N0 N1 sqP c Y.
Proof. intros F w0 w1 N0 N1 sqP Hn. exact (fft2_engines_agree F w0 w1 N0 N1 Hn sqP). Qed.
Print Assumptions C08_fft2d_engines_agree.
(* FFTND on a 3-D array with axes = (1, 2): the leading axis is a batch axis *)
Theorem C08_fftnd_batch_div_inverts :
  forall (F : FieldS) (w0 w1 : F) (N0 N1 : nat) (sqP : F),
    principal_root F w0 N0 -> principal_root F w1 N1 ->
    of_nat F (N0 * N1) <> 0 -> sqP * sqP = 1 / of_nat F (N0 * N1) ->
    forall (c : cfg2) (Xs : list (list (list F))),
      Forall (fun X => wfM F (d_n1 c) X /\ length X = d_n0 c) Xs -> (d_n0 c <= N0)%nat -> (d_n1 c <= N1)%nat ->
      map (div2_numpy F w0 w1 N0 N1 sqP c) (map (fwd2_numpy F w0 w1 N0 N1 sqP c) Xs) = Xs /\
      map (div2_scipy F w0 w1 N0 N1 sqP c) (map (fwd2_scipy F w0 w1 N0 N1 sqP c) Xs) = Xs.
Proof. intros F w0 w1 N0 N1 sqP (_ & Hu0 & Ho0) (_ & Hu1 & Ho1) Hn Hs.
  exact (fft2_batch_div_inverts F w0 w1 N0 N1 Hu0 Ho0 Hu1 Ho1 Hn sqP Hs). Qed.
Print Assumptions C08_fftnd_batch_div_inverts.
(* non-vacuity: N0 = 4 (w = -i), N1 = 2 (w = -1): sqrt(1/8) is irrational, so ortho is witnessed
   with N0 = N1 = 4, sqP = 1/4; a 3 x 2 Gaussian-integer array, zero padded to 4 x 4, shifts on *)
Definition ex_X : list (list GF) := [[gi 1 0; gi 2 1]; [gi 0 (-1); gi 3 0]; [gi (-2) 2; gi 1 1]].
Definition quarter : G := (Qcanon.Q2Qc (QArith_base.Qmake 1 4), Qcanon.Q2Qc (QArith_base.Qmake 0 1)).
Example C08_fft2d_example :
  principal_root GF w4 4 /\ of_nat GF (4 * 4) <> g0 /\ geqb (gmul quarter quarter) (gdiv g1 (of_nat GF (4 * 4))) = true /\
  let c nm := {| d_norm := nm; d_n0 := 3; d_n1 := 2; d_sb0 := true; d_sb1 := false; d_sa0 := false; d_sa1 := true |} in
  forallb (fun nm => forallb (fun p => gveqb (fst p) (snd p))
     (combine (div2_scipy GF w4 w4 4 4 quarter (c nm) (fwd2_numpy GF w4 w4 4 4 quarter (c nm) ex_X)) ex_X))
     [Ortho; NoneN; OneOverN] = true /\
  (* exactly what pylops FFT2D((3,2), nffts=(4,4), norm='none', ifftshift_before=(True,False),
     fftshift_after=(False,True)) returns on this array *)
  forallb (fun p => gveqb (fst p) (snd p)) (combine (fwd2_numpy GF w4 w4 4 4 quarter (c NoneN) ex_X)
    [[gi (-7) (-1); gi (-3) 7; gi 5 3; gi 1 (-5)]; [gi (-1) 3; gi 3 3; gi 3 (-1); gi (-1) (-1)];
     [gi (-1) (-3); gi 3 1; gi 7 (-3); gi 3 (-7)]; [gi (-3) (-3); gi (-3) (-3); gi (-3) (-3); gi (-3) (-3)]]) = true /\
  length (fwd2_numpy GF w4 w4 4 4 quarter (c NoneN) ex_X) = 4%nat.
Proof. split; [exact root4|]. split.
  - intros E; apply (f_equal (fun a => geqb a g0)) in E; vm_compute in E; discriminate.
  - vm_compute. repeat split. Qed.
Print Assumptions C08_fft2d_example.
(* Transpose of a 2-D array: the adjoint (transpose back) is the inverse *)
Theorem C08_transpose2d_inverse :
  forall (R : CRing) n (M : list (list R)), wfM R n M -> transpose R (length M) (transpose R n M) = M.
Proof. exact MatT.transpose_involutive. Qed.
Print Assumptions C08_transpose2d_inverse.

(* shifts: inverse and adjoint pairs *)
Theorem C08_shift_inverse :
  forall (S : StarRing) (x : list S), fftshift S (ifftshift S x) = x /\ ifftshift S (fftshift S x) = x.
Proof. intros; split; [apply fftshift_ifftshift | apply ifftshift_fftshift]. Qed.
Print Assumptions C08_shift_inverse.
Theorem C08_shift_adjoint :
  forall (S : StarRing) (x y : list S), length x = length y ->
    dot S (fftshift S x) y = dot S x (ifftshift S y) /\ dot S (ifftshift S x) y = dot S x (fftshift S y).
Proof. intros; split; [apply fftshift_adjoint | apply ifftshift_adjoint]; auto. Qed.
Print Assumptions C08_shift_adjoint.

(* index-map isometries (models of Ops/IndexOps.v): Flip, Roll, square Identity *)
Theorem C08_flip_invol : forall (R : CRing) (x : list R), flip_fwd R (flip_fwd R x) = x.
Proof. exact flip_invol. Qed.
Print Assumptions C08_flip_invol.
Theorem C08_roll_inverse : forall (R : CRing) s (x : list R), roll_adj R s (roll_fwd R s x) = x.
Proof. exact roll_inverse. Qed.
Print Assumptions C08_roll_inverse.
Theorem C08_identity_square : forall (R : CRing) N (x : list R), length x = N -> ident_adj R N N (ident_fwd R N N x) = x.
Proof. exact ident_square. Qed.
Print Assumptions C08_identity_square.

(* ---- Haar DWT as pylops.signalprocessing.DWT(wavelet='haar') computes it (Ops/Haar.v):
   c = 1/sqrt 2 is a parameter with c*c*(1+1) = 1, conj c = c.  All lengths 2^L * m, all levels. ---- *)
From PV Require Import Haar.
Theorem C08_haar_inverse :
  forall (K : StarRing) (c : K), c * c * (1 + 1) = 1 ->
    forall L m (x : list K), length x = (2 ^ L * m)%nat ->
      hinv K c L (hfwd K c L x) = x /\ hfwd K c L (hinv K c L x) = x.
Proof. intros K c Hc L m x H. split; [apply (hinv_hfwd K c Hc L m) | apply (hfwd_hinv K c Hc L m)]; auto. Qed.
Print Assumptions C08_haar_inverse.
Theorem C08_haar_adjoint_is_inverse :
  forall (K : StarRing) (c : K), conj K c = c ->
    forall L m (x y : list K), length x = (2 ^ L * m)%nat -> length y = (2 ^ L * m)%nat ->
      dot K (hfwd K c L x) y = dot K x (hinv K c L y).
Proof. intros K c Hr. exact (hfwd_adjoint K c Hr). Qed.
Print Assumptions C08_haar_adjoint_is_inverse.
Theorem C08_haar_isometry :
  forall (K : StarRing) (c : K), c * c * (1 + 1) = 1 -> conj K c = c ->
    forall L m (x x' : list K), length x = (2 ^ L * m)%nat -> length x' = (2 ^ L * m)%nat ->
      dot K (hfwd K c L x) (hfwd K c L x') = dot K x x'.
Proof. exact hfwd_isometry. Qed.
Print Assumptions C08_haar_isometry.
(* the operator with pylops' padding to max(2^ceil(log2 n), 2^level) and crop: for EVERY n and level
   Op^H Op x = x, (Op, Op^H) is an adjoint pair, Op is an isometry *)
Theorem C08_haar_dwt_isometry :
  forall (K : StarRing) (c : K), c * c * (1 + 1) = 1 -> conj K c = c ->
    forall L (x x' y : list K),
      dwt_adj K c L (length x) (dwt_fwd K c L x) = x /\
      (length y = padlen (length x) L -> dot K (dwt_fwd K c L x) y = dot K x (dwt_adj K c L (length x) y)) /\
      (length x = length x' -> dot K (dwt_fwd K c L x) (dwt_fwd K c L x') = dot K x x').
Proof. intros K c Hc Hr L x x' y. split; [apply dwt_adj_fwd; auto|]. split; intros; [apply dwt_adjoint | apply dwt_isometry]; auto. Qed.
Print Assumptions C08_haar_dwt_isometry.
(* Op Op^H is an idempotent (projector onto the range of Op); it is the identity when no padding was
   needed, and NOT the identity otherwise (witness below) *)
Theorem C08_haar_dwt_projector :
  forall (K : StarRing) (c : K), c * c * (1 + 1) = 1 ->
    forall L n (y : list K), length y = padlen n L ->
      dwt_fwd K c L (dwt_adj K c L n (dwt_fwd K c L (dwt_adj K c L n y))) = dwt_fwd K c L (dwt_adj K c L n y) /\
      (padlen n L = n -> dwt_fwd K c L (dwt_adj K c L n y) = y).
Proof. intros K c Hc L n y H. split; [apply dwt_fwd_adj_idempotent; auto|]. intros Hp. apply dwt_fwd_adj_nopad; auto. lia. Qed.
Print Assumptions C08_haar_dwt_projector.
(* non-vacuity and the refutation of "Op Op^H = id" for n = 3, level 1 (padded to 4), in the exact
   field Q(sqrt 2), c = sqrt2 / 2; the model row [1/2 1/2 1/2 1/2] of level 2 on n = 4 is exact *)
Example C08_haar_example :
  rmul Q2S (rmul Q2S q2c q2c) (radd Q2S (r1 Q2S) (r1 Q2S)) = r1 Q2S /\ conj Q2S q2c = q2c /\
  (exists y : list Q2S, length y = padlen 3 1 /\ dwt_fwd Q2S q2c 1 (dwt_adj Q2S q2c 1 3 y) <> y) /\
  q2veqb (hfwd Q2S q2c 2 [q2h 2 0; q2h 4 0; q2h 6 0; q2h 8 0]) [q2h 10 0; q2h (-4) 0; q2h 0 (-1); q2h 0 (-1)] = true.
Proof. split; [exact q2c_sq|]. split; [exact q2c_real|]. split.
  - exists [q2h 0 0; q2h 2 0; q2h 0 0; q2h 0 0]. split; [reflexivity|].
    intros E. apply (f_equal (fun v => q2veqb v [q2h 0 0; q2h 2 0; q2h 0 0; q2h 0 0])) in E. vm_compute in E. discriminate.
  - vm_compute. reflexivity. Qed.
Print Assumptions C08_haar_example.

(* ---- Haar DWT along an arbitrary axis of a C-ordered N-d array (DWT(dims, axis, 'haar', level)):
   the fibre operator of Ops/Haar.v lifted by Ops/Axis.v.  For EVERY outer, n, inner, level:
   Op^H Op = id, (Op, Op^H) adjoint pair and isometry for the bilinear pairing (real operator). ---- *)
From PV Require Import Haar2D.
Theorem C08_haar_axis_isometry :
  forall (K : StarRing) (c : K), c * c * (1 + 1) = 1 ->
    forall outer n inner L (x x' : list K) (y : list K),
      length x = (outer * n * inner)%nat -> length x' = (outer * n * inner)%nat ->
      haar_axis_adj K c outer n inner L (haar_axis_fwd K c outer n inner L x) = x /\
      (length y = (outer * padlen n L * inner)%nat ->
         dotu K (haar_axis_fwd K c outer n inner L x) y = dotu K x (haar_axis_adj K c outer n inner L y)) /\
      dotu K (haar_axis_fwd K c outer n inner L x) (haar_axis_fwd K c outer n inner L x') = dotu K x x'.
Proof. intros K c Hc outer n inner L x x' y Hx Hx'. split; [apply haar_axis_adj_fwd; auto|]. split.
  - intros Hy. apply haar_axis_adjoint; auto.
  - apply haar_axis_isometry; auto. Qed.
Print Assumptions C08_haar_axis_isometry.

(* ---- DWT2D(wavelet='haar'): pywt.wavedec2 + coeffs_to_array, model Ops/Haar2D.v (hfwd2 / hinv2:
   one step on both axes of the current approximation block per level, [[aa, ad],[da, dd]] nested in
   the top-left corner; pad2 / crop as pylops).  LEVEL 1, every even-sized array: the 2-D step IS the
   tensor product of the 1-D one-level transforms (rows by hfwd 1, then the same step on whole rows
   along axis 0), and the inverse step undoes it. ---- *)
Theorem C08_haar2d_level1_is_tensor :
  forall (K : StarRing) (c : K) w (X : list (list K)), wfM K w X ->
    step2 K c X = cappA K c (map (hfwd K c 1) X) ++ cdetA K c (map (hfwd K c 1) X).
Proof. intros K c w X W. exact (step2_rows_then_cols K c w X W). Qed.
Print Assumptions C08_haar2d_level1_is_tensor.
(* _partial: proved for level = 1 (all sizes, with pylops' padding of both axes to
   max(2^ceil(log2 n), 2) and the crop).  NOT proved: levels >= 2 (needs shape preservation of
   hfwd2 on the nested block and the block re-assembly lemmas) and the adjoint / isometry identity
   for the matrix pairing.  The multi-level model itself is executable and is compared with the
   implementation (forward and adjoint, levels 0-3, padded, batch axis) in Coq by harness/c08.py. *)
Theorem C08_haar2d_isometry_partial :
  forall (K : StarRing) (c : K), c * c * (1 + 1) = 1 ->
    (forall k j (X : list (list K)), wfM K (2 * j) X -> length X = (2 * k)%nat ->
       hinv2 K c 1 (hfwd2 K c 1 X) = X) /\
    (forall cc (X : list (list K)), wfM K cc X ->
       dwt2_adj K c 1 (length X) cc (dwt2_fwd K c 1 (length X) cc X) = X).
Proof. intros K c Hc. split.
  - intros k j X W H. apply (hinv2_hfwd2_level1 K c Hc k j); auto.
  - intros cc X W. apply dwt2_adj_fwd_level1; auto. Qed.
Print Assumptions C08_haar2d_isometry_partial.
(* exact instance: 3 x 2 integer array, level 2 (padded to 4 x 4), Q(sqrt 2): the multi-level model
   inverts on this array and its top-left coefficient is (sum of entries) / 4 *)
Example C08_haar2d_example :
  let X := [[q2h 4 0; q2h 8 0]; [q2h 12 0; q2h 16 0]; [q2h 20 0; q2h 24 0]] in
  forallb (fun p => q2veqb (fst p) (snd p)) (combine (dwt2_adj Q2S q2c 2 3 2 (dwt2_fwd Q2S q2c 2 3 2 X)) X) = true /\
  q2eqb (nth 0 (nth 0 (dwt2_fwd Q2S q2c 2 3 2 X) []) q2_0) (q2h 21 0) = true.
Proof. vm_compute. split; reflexivity. Qed.
Print Assumptions C08_haar2d_example.
