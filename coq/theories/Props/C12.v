(* C12 — regularised, normal-equation and preconditioned inversions solve the
   problem they document.  Final statements only; models and proofs are in
   Solvers/LeastSquares.v. *)
From Coq Require Import QArith Qcanon.
From PV Require Import Mat QcInst GaussQc Check LeastSquares CheckC12.

(* N x = rhs  ->  x minimises the documented functional
   J(x) = (y-Ax)^T W (y-Ax) + sum eps_i^2 ||R_i x - d_i||^2 + sum epsN_i^2 x^T N_i x + epsI^2 ||x||^2
   for all problems of all sizes with W = Wr^T Wr, N_i = M_i^T M_i. *)
Theorem C12_normal_eq_minimises :
  forall (F : OrdField) (P : lsq F) (Wr : list (list F)) (NM : list (nreg F * list (list F))) (x : list F),
    wfP F P -> Wfac F P Wr -> Nfac F P NM -> length x = p_n F P ->
    mv F (Nmat F P) x = rhs F P ->
    forall z, length z = p_n F P -> rle F (Jdoc F P x) (Jdoc F P z).
Proof. exact normal_eq_minimises. Qed.
Print Assumptions C12_normal_eq_minimises.

(* the ring identity behind it: J(x+h) = J x + SQ h + 2 <h, N x - rhs>, SQ h >= 0 *)
Theorem C12_Jdoc_expand :
  forall (F : OrdField) (P : lsq F) Wr NM (x h : list F),
    wfP F P -> Wfac F P Wr -> Nfac F P NM -> length x = p_n F P -> length h = p_n F P ->
    Jdoc F P (vadd F x h) = radd F (radd F (Jdoc F P x) (SQb F (blocks F P Wr NM) h))
       (rmul F (radd F (r1 F) (r1 F)) (rsub F (dotu F h (mv F (Nmat F P) x)) (dotu F h (rhs F P))))
    /\ rle F (r0 F) (SQb F (blocks F P Wr NM) h).
Proof. exact Jdoc_expand. Qed.
Print Assumptions C12_Jdoc_expand.

(* hypotheses are satisfiable: a 2x2 problem with dense-factor weight, one
   regulariser with data, one normal regulariser and epsI, and the
   non-zero solution of its normal equations *)
Definition exA : list (list Qc) := [[qz 1; z0]; [qz 1; qz 1]].
Definition exWr : list (list Qc) := [[qz 1; z0]; [z0; qz 2]].
Definition exM : list (list Qc) := [[z0; qz 1]].
Definition exP : lsq QcO :=
  Build_lsq QcO 2 2 exA [qz 1; qz 2] (Some (mm QcR 2 (transpose QcR 2 exWr) exWr))
    [Build_reg QcO (qz 1) [[qz 1; qz (-1)]] [z0]]
    [Build_nreg QcO (qz 1) (mm QcR 2 (transpose QcR 2 exM) exM)] (qz 1).
Definition exx : list Qc := [q 39 40; q 29 40].
Example C12_normal_eq_minimises_nonvacuous :
  wfP QcO exP /\ Wfac QcO exP exWr /\ Nfac QcO exP [(Build_nreg QcO (qz 1) (mm QcR 2 (transpose QcR 2 exM) exM), exM)]
  /\ length exx = p_n QcO exP /\ mv QcO (Nmat QcO exP) exx = rhs QcO exP /\ exx <> zeros QcR 2.
Proof. repeat split.
  - unfold wfM; repeat constructor.
  - unfold wfM; repeat constructor.
  - unfold wfP, wfreg, wfM; simpl; repeat constructor.
  - unfold wfnreg, wfM; simpl; repeat constructor.
  - unfold wfM; repeat constructor.
  - intros v Hv. simpl in Hv. destruct (factors_gram QcO 2 exWr) as (_ & H); [unfold wfM; repeat constructor|]. apply H; auto.
  - constructor; [|constructor]. apply (factors_gram QcO 2 exM). unfold wfM; repeat constructor.
  - apply all2_eqQ_eq. vm_compute. reflexivity.
  - intros H. apply (f_equal (fun v => all2 eqQ v (zeros QcR 2))) in H. vm_compute in H. discriminate.
Qed.

(* NormalEquationsInversion.setup: the operator / data it assembles are the
   documented N and rhs, for every problem and every epsI (the code adds
   epsI^2 I `if epsI != 0`; nzb is that test, sound in the sense that it only
   answers false on 0). *)
Theorem C12_assembly_normal_correct :
  forall (S : StarRing) (nzb : S -> bool), (forall a, nzb a = false -> a = r0 S) ->
  forall (P : lsq S) (x : list S), wfP S P -> length x = p_n S P ->
    op_normal_code S nzb P x = mv S (Nmat S P) x /\ y_normal_code S P = rhs S P.
Proof. exact assembly_normal_correct. Qed.
Print Assumptions C12_assembly_normal_correct.
Theorem C12_assembly_normal_columns :
  forall (S : StarRing) (nzb : S -> bool), (forall a, nzb a = false -> a = r0 S) ->
  forall (P : lsq S) j, wfP S P -> (j < p_n S P)%nat ->
    op_normal_code S nzb P (unit S (p_n S P) j) = col S j (Nmat S P).
Proof. exact assembly_normal_columns. Qed.
Print Assumptions C12_assembly_normal_columns.
(* the hypotheses are met by the executed instances (Qc, Gaussian Qc), also
   with a negative epsI *)
Definition exPneg : lsq QcS := Build_lsq QcS 1 1 [[qz 1]] [qz 1] None [] [] (qz (-1)).
Example C12_assembly_nonvacuous :
  (forall a, nzQ a = false -> a = r0 QcS) /\ (forall a, nzG a = false -> a = r0 GS) /\
  wfP QcS exP /\ wfP QcS exPneg /\
  all2 (all2 eqQ) (op_normal_dense QcS nzQ exP) (Nmat QcS exP) = true /\
  all2 (all2 eqQ) (op_normal_dense QcS nzQ exPneg) [[qz 2]] = true.
Proof. split; [exact nzQ_sound|]. split; [exact nzG_sound|]. split; [|split; [|split]].
  - unfold wfP, wfreg, wfnreg, wfM; simpl; repeat constructor.
  - unfold wfP, wfM; simpl; repeat constructor.
  - vm_compute; reflexivity.
  - vm_compute; reflexivity. Qed.

(* RegularizedOperator / RegularizedInversion.setup: the dense VStack acts as
   the coded matvec, and its normal equations are the documented ones with
   W = Weight^H Weight (Weight is the square root), for real dampings *)
Theorem C12_regop_dense_fwd :
  forall (S : StarRing) (P : lsq S) x, wfP S P -> length x = p_n S P -> mv S (regop_dense S P) x = regop_fwd S P x.
Proof. exact regop_dense_fwd. Qed.
Print Assumptions C12_regop_dense_fwd.
Theorem C12_stack_normal_eq :
  forall (S : StarRing) (P : lsq S) x, wfP S P -> Forall (fun t => conj S (g_eps S t) = g_eps S t) (p_regs S P) ->
    length x = p_n S P ->
    mvH S (p_n S P) (regop_dense S P) (mv S (regop_dense S P) x) = mv S (Nmat S (normal_of_reg S P)) x
    /\ mvH S (p_n S P) (regop_dense S P) (datatot S P) = rhs S (normal_of_reg S P).
Proof. exact stack_normal_eq. Qed.
Print Assumptions C12_stack_normal_eq.
Definition exPr : lsq GS :=
  Build_lsq GS 2 2 [[(qz 1, qz 1); (z0, z0)]; [(qz 1, z0); (z0, qz (-1))]] [(qz 1, z0); (z0, qz 2)]
    (Some [[(qz 1, z0); (z0, qz 1)]; [(z0, z0); (qz 2, z0)]])
    [Build_reg GS (q 1 2, z0) [[(qz 1, z0); (qz (-1), qz 1)]] [(qz 3, z0)]] [] (z0, z0).
Example C12_stack_normal_eq_nonvacuous :
  wfP GS exPr /\ Forall (fun t => conj GS (g_eps GS t) = g_eps GS t) (p_regs GS exPr).
Proof. split.
  - unfold wfP, wfreg, wfM; simpl; repeat constructor.
  - constructor; [|constructor]. simpl. unfold gconj; simpl. apply f_equal. apply Qc_is_canon. reflexivity. Qed.

(* x0: solving for the update with the residual data and adding x0 back *)
Theorem C12_x0_shift_normal :
  forall (S : StarRing) n (M : list (list S)) b x0 dx, wfM S n M -> length x0 = n -> length dx = n ->
    length b = length M -> mv S M dx = vsub S b (mv S M x0) -> mv S M (vadd S x0 dx) = b.
Proof. exact x0_shift_normal. Qed.
Print Assumptions C12_x0_shift_normal.
Theorem C12_x0_shift_stack :
  forall (S : StarRing) n (M : list (list S)) b x0 dx, wfM S n M -> length x0 = n -> length dx = n ->
    length b = length M ->
    mvH S n M (mv S M dx) = mvH S n M (vsub S b (mv S M x0)) ->
    mvH S n M (mv S M (vadd S x0 dx)) = mvH S n M b.
Proof. exact x0_shift_stack. Qed.
Print Assumptions C12_x0_shift_stack.
Theorem C12_x0_shift_invariant :
  forall (S : StarRing) n (M : list (list S)) b x0 dx x0' dx', wfM S n M -> injective S n M ->
    length x0 = n -> length dx = n -> length x0' = n -> length dx' = n -> length b = length M ->
    mv S M dx = vsub S b (mv S M x0) -> mv S M dx' = vsub S b (mv S M x0') ->
    vadd S x0 dx = vadd S x0' dx'.
Proof. exact x0_shift_invariant. Qed.
Print Assumptions C12_x0_shift_invariant.
Lemma ex_inj : injective QcS 2 [[1; 1]; [0; 1]]%Qc.
Proof. intros [|a [|b [|c h]]] Hh H; try discriminate.
  cbv [mv map dotu radd rmul r0 sring QcS QcR car zeros repeat length] in *.
  pose proof (f_equal (fun v => nth 0 v 0%Qc) H) as H1. pose proof (f_equal (fun v => nth 1 v 0%Qc) H) as H2.
  cbv beta iota delta [nth] in H1, H2.
  assert (Eb : b = 0%Qc). { rewrite <- H2. ring. }
  assert (Ea : a = 0%Qc). { rewrite <- H1. rewrite Eb. ring. }
  subst; reflexivity. Qed.
Example C12_x0_shift_nonvacuous :
  let M := [[1; 1]; [0; 1]]%Qc in
  wfM QcS 2 M /\ injective QcS 2 M /\
  mv QcS M [qz 1; qz (-1)] = vsub QcS [qz 3; qz 1] (mv QcS M [qz 1; qz 2]) /\
  mv QcS M [qz (-3); z0] = vsub QcS [qz 3; qz 1] (mv QcS M [qz 5; qz 1]).
Proof. cbv zeta. split; [|split; [|split]].
  - unfold wfM; repeat constructor.
  - apply ex_inj.
  - apply all2_eqQ_eq; vm_compute; reflexivity.
  - apply all2_eqQ_eq; vm_compute; reflexivity. Qed.

(* preconditioning: x = x0 + P p with p a least-squares solution of Op P p = y - Op x0 *)
Theorem C12_precond_change_of_variables :
  forall (S : StarRing) n (A Pm : list (list S)) y x0 p,
    wfM S n A -> wfM S n Pm -> length Pm = n -> length y = length A -> length x0 = n -> length p = n ->
    (forall v, length v = n -> mvH S n Pm v = zeros S n -> v = zeros S n) ->
    mvH S n (mm S n A Pm) (mv S (mm S n A Pm) p) = mvH S n (mm S n A Pm) (vsub S y (mv S A x0)) ->
    mvH S n A (mv S A (vadd S x0 (mv S Pm p))) = mvH S n A y.
Proof. exact precond_change_of_variables. Qed.
Print Assumptions C12_precond_change_of_variables.
Example C12_precond_nonvacuous :
  let A := [[qz 1; z0]; [z0; qz 1]; [qz 1; qz 1]] in let Pm := [[1; 0]; [1; 1]]%Qc in
  wfM QcS 2 A /\ wfM QcS 2 Pm /\
  (forall v, length v = 2%nat -> mvH QcS 2 Pm v = zeros QcS 2 -> v = zeros QcS 2) /\
  mvH QcS 2 (mm QcS 2 A Pm) (mv QcS (mm QcS 2 A Pm) [qz 1; z0])
   = mvH QcS 2 (mm QcS 2 A Pm) (vsub QcS [qz 1; qz 1; qz 2] (mv QcS A [z0; z0])).
Proof. cbv zeta. split; [|split; [|split]].
  - unfold wfM; repeat constructor.
  - unfold wfM; repeat constructor.
  - intros [|a [|b [|c h]]] Hh H; try discriminate.
    cbv [mvH mvT mconj vconj conj vadd vscale map2 mv map dotu radd rmul r0 sring QcS QcR car zeros repeat length] in *.
    pose proof (f_equal (fun v => nth 0 v 0%Qc) H) as H1. pose proof (f_equal (fun v => nth 1 v 0%Qc) H) as H2.
    cbv beta iota delta [nth] in H1, H2.
    assert (Eb : b = 0%Qc). { rewrite <- H2. ring. }
    assert (Ea : a = 0%Qc). { rewrite <- H1. rewrite Eb. ring. }
    subst; reflexivity.
  - apply all2_eqQ_eq; vm_compute; reflexivity. Qed.

(* where the formulations coincide the results agree *)
Theorem C12_three_agree :
  forall (S : StarRing) (P : lsq S) xn xr, wfP S P -> Forall (fun t => conj S (g_eps S t) = g_eps S t) (p_regs S P) ->
    injective S (p_n S P) (Nmat S (normal_of_reg S P)) -> length xn = p_n S P -> length xr = p_n S P ->
    mv S (Nmat S (normal_of_reg S P)) xn = rhs S (normal_of_reg S P) ->
    mvH S (p_n S P) (regop_dense S P) (mv S (regop_dense S P) xr) = mvH S (p_n S P) (regop_dense S P) (datatot S P) ->
    xn = xr.
Proof. exact three_agree. Qed.
Print Assumptions C12_three_agree.
