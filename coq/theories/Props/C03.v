(* C03 — operator algebra mirrors matrix algebra.
   expr = Leaf | Add | Sub | Mul | Scale | Neg | Pow | AdjW | TranspW | ConjE |
          Cols | VStack | HStack | BlockDiag   (Block = VStack of HStacks).
   Not in the model (oracle-checked only by the harness): Kronecker,
   _RealImagLinearOperator. *)
From Coq Require Import QArith Qcanon.
From PV Require Import MatAlg Expr QcInst GaussQc.

(* forward mode = the dense matrix of the expression, every depth and mix *)
Theorem C03_ap_fwd_dense : forall (S : StarRing) (e : expr S) x, wf S e -> length x = cols S e ->
  ap S Fwd e x = mv S (dense S e) x.
Proof. exact ap_fwd_dense. Qed.
Print Assumptions C03_ap_fwd_dense.

(* adjoint mode = conjugate transpose of the dense matrix *)
Theorem C03_ap_adj_dense : forall (S : StarRing) (e : expr S) y, wf S e -> length y = rows S e ->
  ap S Adj e y = mv S (ctranspose S (cols S e) (dense S e)) y.
Proof. exact ap_adj_dense. Qed.
Print Assumptions C03_ap_adj_dense.

(* matmat / rmatmat = column-wise matvec / rmatvec *)
Theorem C03_apmat_columns : forall (S : StarRing) (e : expr S) d X, apmat S d e X = map (ap S d e) X.
Proof. exact apmat_columns. Qed.
Print Assumptions C03_apmat_columns.

(* every expression passes the dot test *)
Theorem C03_dot_test : forall (S : StarRing) (e : expr S) x y, wf S e -> length x = cols S e -> length y = rows S e ->
  dot S (ap S Fwd e x) y = dot S x (ap S Adj e y).
Proof. exact ap_dot_test. Qed.
Print Assumptions C03_dot_test.

(* .H : acts as the adjoint (all expressions), has the swapped shape, is
   again well-formed, its dense matrix is the conjugate transpose *)
Theorem C03_H_acts_as_adjoint : forall (S : StarRing) (e : expr S) d x, ap S d (H S e) x = ap S (flip d) e x.
Proof. exact ap_H. Qed.
Print Assumptions C03_H_acts_as_adjoint.
Theorem C03_H_shape : forall (S : StarRing) (e : expr S), shape S (H S e) = (snd (shape S e), fst (shape S e)).
Proof. exact H_shape. Qed.
Print Assumptions C03_H_shape.
Theorem C03_H_wf : forall (S : StarRing) (e : expr S), wf S e -> wf S (H S e).
Proof. exact H_wf. Qed.
Print Assumptions C03_H_wf.
Theorem C03_H_dense : forall (S : StarRing) (e : expr S), wf S e -> dense S (H S e) = ctranspose S (cols S e) (dense S e).
Proof. exact H_dense. Qed.
Print Assumptions C03_H_dense.
Theorem C03_T_dense : forall (S : StarRing) (e : expr S), dense S (T S e) = transpose S (cols S e) (dense S e).
Proof. exact T_dense. Qed.
Print Assumptions C03_T_dense.
Theorem C03_conj_dense : forall (S : StarRing) (e : expr S), dense S (Cj S e) = mconj S (dense S e).
Proof. exact Cj_dense. Qed.
Print Assumptions C03_conj_dense.

(* involutions *)
Theorem C03_H_involutive : forall (S : StarRing) (e : expr S) d x, ap S d (H S (H S e)) x = ap S d e x.
Proof. exact H_involutive. Qed.
Print Assumptions C03_H_involutive.
Theorem C03_T_involutive : forall (S : StarRing) (e : expr S) d x, ap S d (T S (T S e)) x = ap S d e x.
Proof. exact T_involutive. Qed.
Print Assumptions C03_T_involutive.
Theorem C03_H_H_dense : forall (S : StarRing) (e : expr S), wf S e -> dense S (H S (H S e)) = dense S e.
Proof. exact H_H_dense. Qed.
Print Assumptions C03_H_H_dense.
Theorem C03_T_T_dense : forall (S : StarRing) (e : expr S), wf S e -> dense S (T S (T S e)) = dense S e.
Proof. exact T_T_dense. Qed.
Print Assumptions C03_T_T_dense.

(* non-vacuity: a well-formed, non-trivial complex tree mixing the
   constructors:  ((i*A) @ B.H + C)**2 stacked on a column selection *)
Local Open Scope Qc_scope.
Definition i_ : GS := (0, 1) : G.
Definition g (a b : Z) : GS := (Q2Qc (a # 1), Q2Qc (b # 1)) : G.
Definition exA : expr GS := Leaf 2 3 [[g 1 0; g 2 1; g 0 0]; [g 0 (-1); g 3 0; g 1 1]].
Definition exB : expr GS := Leaf 2 3 [[g 1 1; g 0 0; g 2 0]; [g 0 0; g 1 0; g 0 3]].
Definition exC : expr GS := Leaf 2 2 [[g 1 0; g 0 1]; [g 2 0; g (-1) 0]].
Definition exE : expr GS :=
  VStack [Pow (Add (Mul (Scale i_ exA) (AdjW exB)) exC) 2;
          Cols [1%nat; 0%nat] (Sub (Mul (ConjE (TranspW (HStack [exC; exC]))) (HStack [exC; exC])) (BlockDiag [Neg exC; exC]))].
Example C03_example_wf : wf GS exE /\ wf GS (H GS exE).
Proof. split; [| apply H_wf]; cbn; repeat split; repeat constructor; cbn; auto; try lia;
  try (intros [Q|Q]; try discriminate; try destruct Q; fail). Qed.
Example C03_example_nontrivial :
  ap GS Fwd exE [g 1 0; g 0 1] = mv GS (dense GS exE) [g 1 0; g 0 1] /\
  ap GS Fwd exE [g 1 0; g 0 1] <> zeros GS 6.
Proof. split; [vm_compute; reflexivity | vm_compute; discriminate]. Qed.
