(* C03 — operator algebra mirrors matrix algebra.
   expr = Leaf | Add | Sub | Mul | Scale | Neg | Pow | AdjW | TranspW | ConjE |
          Cols | VStack | HStack | BlockDiag | Kron | RealImag (Block = VStack of HStacks).
   RealImag (toreal/toimag) is only R-linear: [wf] (C-linear level) excludes
   it and the C03_real_* theorems ([rwf], real inputs) cover it. *)
From Coq Require Import QArith Qcanon.
From PV Require Import MatAlg Expr QcInst GaussQc CheckC03.

(* forward mode = the dense matrix of the expression, every depth and mix *)
Theorem C03_ap_fwd_dense : forall (S : StarRing) (RI : ReIm S) (e : expr S) x, wf S e -> length x = cols S e ->
  ap S RI Fwd e x = mv S (dense S RI e) x.
Proof. exact ap_fwd_dense. Qed.
Print Assumptions C03_ap_fwd_dense.

(* adjoint mode = conjugate transpose of the dense matrix *)
Theorem C03_ap_adj_dense : forall (S : StarRing) (RI : ReIm S) (e : expr S) y, wf S e -> length y = rows S e ->
  ap S RI Adj e y = mv S (ctranspose S (cols S e) (dense S RI e)) y.
Proof. exact ap_adj_dense. Qed.
Print Assumptions C03_ap_adj_dense.

(* matmat / rmatmat = column-wise matvec / rmatvec *)
Theorem C03_apmat_columns : forall (S : StarRing) (RI : ReIm S) (e : expr S) d X, apmat S RI d e X = map (ap S RI d e) X.
Proof. exact apmat_columns. Qed.
Print Assumptions C03_apmat_columns.

(* every expression passes the dot test *)
Theorem C03_dot_test : forall (S : StarRing) (RI : ReIm S) (e : expr S) x y, wf S e -> length x = cols S e -> length y = rows S e ->
  dot S (ap S RI Fwd e x) y = dot S x (ap S RI Adj e y).
Proof. exact ap_dot_test. Qed.
Print Assumptions C03_dot_test.

(* .H : acts as the adjoint (all expressions), has the swapped shape, is
   again well-formed, its dense matrix is the conjugate transpose *)
Theorem C03_H_acts_as_adjoint : forall (S : StarRing) (RI : ReIm S) (e : expr S) d x, ap S RI d (H S e) x = ap S RI (flip d) e x.
Proof. exact ap_H. Qed.
Print Assumptions C03_H_acts_as_adjoint.
Theorem C03_H_shape : forall (S : StarRing) (e : expr S), shape S (H S e) = (snd (shape S e), fst (shape S e)).
Proof. exact H_shape. Qed.
Print Assumptions C03_H_shape.
Theorem C03_H_wf : forall (S : StarRing) (e : expr S), wf S e -> wf S (H S e).
Proof. exact H_wf. Qed.
Print Assumptions C03_H_wf.
Theorem C03_H_dense : forall (S : StarRing) (RI : ReIm S) (e : expr S), wf S e -> dense S RI (H S e) = ctranspose S (cols S e) (dense S RI e).
Proof. exact H_dense. Qed.
Print Assumptions C03_H_dense.
Theorem C03_T_dense : forall (S : StarRing) (RI : ReIm S) (e : expr S), dense S RI (T S e) = transpose S (cols S e) (dense S RI e).
Proof. exact T_dense. Qed.
Print Assumptions C03_T_dense.
Theorem C03_conj_dense : forall (S : StarRing) (RI : ReIm S) (e : expr S), dense S RI (Cj S e) = mconj S (dense S RI e).
Proof. exact Cj_dense. Qed.
Print Assumptions C03_conj_dense.

(* involutions *)
Theorem C03_H_involutive : forall (S : StarRing) (RI : ReIm S) (e : expr S) d x, ap S RI d (H S (H S e)) x = ap S RI d e x.
Proof. exact H_involutive. Qed.
Print Assumptions C03_H_involutive.
Theorem C03_T_involutive : forall (S : StarRing) (RI : ReIm S) (e : expr S) d x, ap S RI d (T S (T S e)) x = ap S RI d e x.
Proof. exact T_involutive. Qed.
Print Assumptions C03_T_involutive.
Theorem C03_H_H_dense : forall (S : StarRing) (RI : ReIm S) (e : expr S), wf S e -> dense S RI (H S (H S e)) = dense S RI e.
Proof. exact H_H_dense. Qed.
Print Assumptions C03_H_H_dense.
Theorem C03_T_T_dense : forall (S : StarRing) (RI : ReIm S) (e : expr S), wf S e -> dense S RI (T S (T S e)) = dense S RI e.
Proof. exact T_T_dense. Qed.
Print Assumptions C03_T_T_dense.

(* non-vacuity: a well-formed, non-trivial complex tree mixing the
   constructors:  ((i*A) @ B.H + C)**2 stacked on a column selection *)
Local Open Scope Qc_scope.
Definition i_ : GS := (0, 1) : G.
Definition g (a b : Z) : GS := (Q2Qc (a # 1), Q2Qc (b # 1)) : G.
Definition exA : expr GS := Leaf 2 3 [[g 1 0; g 2 1; g 0 0]; [g 0 (-1); g 3 0; g 1 1]].
Definition exB : expr GS := Leaf 2 3 [[g 1 1; g 0 0; g 2 0]; [g 0 0; g 1 0; g 0 3]].
Definition exC : expr GS := Leaf 2 2 [[g 1 0; g 0 1]; [g 2 0; g (-1) 0]].
Definition exE : expr GS :=
  VStack [Pow (Add (Mul (Scale i_ exA) (AdjW exB)) exC) 2;
          Cols [1%nat; 0%nat] (Sub (Mul (ConjE (TranspW (HStack [exC; exC]))) (HStack [exC; exC])) (BlockDiag [Neg exC; exC]))].
Example C03_example_wf : wf GS exE /\ wf GS (H GS exE).
Proof. split; [| apply H_wf]; cbn; repeat split; repeat constructor; cbn; auto; try lia;
  try (intros [Q|Q]; try discriminate; try destruct Q; fail). Qed.
Example C03_example_nontrivial :
  ap GS GRI Fwd exE [g 1 0; g 0 1] = mv GS (dense GS GRI exE) [g 1 0; g 0 1] /\
  ap GS GRI Fwd exE [g 1 0; g 0 1] <> zeros GS 6.
Proof. split; [vm_compute; reflexivity | vm_compute; discriminate]. Qed.

(* ---- Kronecker: the dense matrix of Kron is the Kronecker product and the
   two-pass code computes it (instance of C03_ap_fwd_dense / C03_ap_adj_dense;
   the underlying identity (A (x) B) vec(X) = vec(A X B^T): *)
Theorem C03_kron_vec : forall (R : CRing) n1 n2 (A B : list (list R)) x,
  wfM R n1 A -> wfM R n2 B -> length x = (n1 * n2)%nat ->
  mv R (kron R A B) x = kron_ap R n1 n2 (length B) (length A) (mv R A) (mv R B) x.
Proof. exact mv_kron. Qed.
Print Assumptions C03_kron_vec.
Theorem C03_kron_transpose : forall (R : CRing) n1 n2 (A B : list (list R)) y,
  wfM R n1 A -> wfM R n2 B -> length y = (length A * length B)%nat ->
  mvT R (n1 * n2) (kron R A B) y = mv R (kron R (transpose R n1 A) (transpose R n2 B)) y.
Proof. exact mvT_kron. Qed.
Print Assumptions C03_kron_transpose.
Definition exK : expr GS := Kron (Add exC (Scale i_ exC)) (AdjW exA).
Example C03_example_kron : wf GS exK /\ shape GS exK = (6%nat, 4%nat) /\
  ap GS GRI Adj exK [g 1 0; g 0 1; g 2 0; g 0 0; g 1 1; g 3 0] =
  mv GS (ctranspose GS 4 (dense GS GRI exK)) [g 1 0; g 0 1; g 2 0; g 0 0; g 1 1; g 3 0] /\
  ap GS GRI Adj exK [g 1 0; g 0 1; g 2 0; g 0 0; g 1 1; g 3 0] <> zeros GS 4.
Proof. split; [cbn; repeat split; repeat constructor | split; [reflexivity | split; [vm_compute; reflexivity | vm_compute; discriminate]]]. Qed.

(* ---- toreal / toimag (R-linear level): real-coefficient trees whose
   toreal()/toimag() nodes wrap arbitrary complex C-linear subtrees act on
   REAL vectors like the dense matrix (Re / Im of the wrapped dense matrix),
   in both modes, return real vectors and pass the real dot test ---- *)
Theorem C03_real_fwd_dense : forall (S : StarRing) (RI : ReIm S) (e : expr S) x,
  rwf S e -> vreal S x -> length x = cols S e -> ap S RI Fwd e x = mv S (dense S RI e) x.
Proof. exact rap_fwd_dense. Qed.
Print Assumptions C03_real_fwd_dense.
Theorem C03_real_adj_dense : forall (S : StarRing) (RI : ReIm S) (e : expr S) y,
  rwf S e -> vreal S y -> length y = rows S e ->
  ap S RI Adj e y = mv S (ctranspose S (cols S e) (dense S RI e)) y.
Proof. exact rap_adj_dense. Qed.
Print Assumptions C03_real_adj_dense.
Theorem C03_real_output_real : forall (S : StarRing) (RI : ReIm S) (e : expr S) d x,
  rwf S e -> vreal S x -> length x = inlen S d e -> vreal S (ap S RI d e x).
Proof. exact rap_real. Qed.
Print Assumptions C03_real_output_real.
Theorem C03_real_dot_test : forall (S : StarRing) (RI : ReIm S) (e : expr S) x y,
  rwf S e -> vreal S x -> vreal S y -> length x = cols S e -> length y = rows S e ->
  dotu S (ap S RI Fwd e x) y = dotu S x (ap S RI Adj e y).
Proof. exact rap_dot_test. Qed.
Print Assumptions C03_real_dot_test.
(* any forw/adj flags, at the root of a C-linear tree, any (complex) input *)
Theorem C03_realimag_fwd : forall (S : StarRing) (RI : ReIm S) fw aj rl (e : expr S) x, wf S e -> length x = cols S e ->
  ap S RI Fwd (RealImag fw aj rl e) x =
  (if fw then (if rl then vre S RI else vim S RI) else (fun y => y)) (mv S (dense S RI e) x).
Proof. exact realimag_fwd. Qed.
Print Assumptions C03_realimag_fwd.
Theorem C03_realimag_adj : forall (S : StarRing) (RI : ReIm S) fw aj rl (e : expr S) y, wf S e -> length y = rows S e ->
  ap S RI Adj (RealImag fw aj rl e) y =
  (if aj then (if rl then vre S RI else (fun v => vneg S (vim S RI v))) else (fun v => v))
    (mv S (ctranspose S (cols S e) (dense S RI e)) y).
Proof. exact realimag_adj. Qed.
Print Assumptions C03_realimag_adj.
(* non-vacuity: toimag of a complex product inside a real sum, squared *)
Definition exR : expr GS :=
  Pow (Add (RealImag true true false (Mul (Scale i_ exA) (AdjW exB))) (Scale (g 2 0) (RealImag true true true exC))) 2.
Example C03_example_real : rwf GS exR /\ vreal GS [g 1 0; g (-2) 0] /\
  ap GS GRI Adj exR [g 1 0; g (-2) 0] = mv GS (ctranspose GS 2 (dense GS GRI exR)) [g 1 0; g (-2) 0] /\
  ap GS GRI Adj exR [g 1 0; g (-2) 0] <> zeros GS 2.
Proof. split; [| split; [reflexivity | split; [vm_compute; reflexivity | vm_compute; discriminate]]].
  cbn. repeat split; auto; try (left; cbn; repeat split; repeat constructor); reflexivity. Qed.

(* ---- toreal/toimag BELOW stacks, apply_columns and Kronecker: [rwf] (and
   with it C03_real_fwd_dense / C03_real_adj_dense / C03_real_output_real /
   C03_real_dot_test above) covers VStack, HStack, BlockDiag, Block, Cols and
   Kron nodes above a RealImag node.  Their statements are those theorems;
   the link to the C-linear level is the erasure: ---- *)
Theorem C03_real_erase : forall (S : StarRing) (RI : ReIm S) (e : expr S), rwf S e ->
  wf S (erase S RI e) /\ dense S RI (erase S RI e) = dense S RI e /\
  forall d x, vreal S x -> length x = inlen S d e -> ap S RI d e x = ap S RI d (erase S RI e) x.
Proof. intros S RI e R. destruct (rwf_erase S RI e R). repeat split; auto. intros; apply ap_erase; auto. Qed.
Print Assumptions C03_real_erase.
(* non-vacuity: toimag / toreal of complex operators below a Block, a column
   selection and a Kronecker product *)
Definition exRS : expr GS :=
  Cols [2%nat; 0%nat]
    (Kron (Leaf 1 2 [[g 1 0; g (-1) 0]])
          (Block GS [[RealImag true true false (Mul (Scale i_ exA) (AdjW exB)); Scale (g 2 0) (RealImag true true true exC)];
                     [BlockDiag [Leaf 1 1 [[g 3 0]]; RealImag true true false (Leaf 1 1 [[g 1 2]])]; TranspW (RealImag true true true exC)]])).
Example C03_example_real_stacks : rwf GS exRS /\ shape GS exRS = (4%nat, 2%nat) /\
  ap GS GRI Adj exRS [g 1 0; g (-2) 0; g 0 0; g 3 0] =
    mv GS (ctranspose GS 2 (dense GS GRI exRS)) [g 1 0; g (-2) 0; g 0 0; g 3 0] /\
  ap GS GRI Adj exRS [g 1 0; g (-2) 0; g 0 0; g 3 0] <> zeros GS 2 /\
  ap GS GRI Fwd exRS [g 1 0; g 5 0] = mv GS (dense GS GRI exRS) [g 1 0; g 5 0].
Proof. split; [| split; [reflexivity | split; [vm_compute; reflexivity | split; [vm_compute; discriminate | vm_compute; reflexivity]]]].
  cbn. repeat split; auto; repeat constructor; cbn; auto; try lia;
    try (left; cbn; repeat split; repeat constructor);
    try (intros [Q|Q]; try discriminate; try destruct Q; fail). Qed.

(* The side condition "real scalars" ([isreal] in [rwf] for Scale) is
   necessary: with a complex scalar above toreal the tree no longer acts like
   its dense matrix, even on real inputs:  (i * toreal([[1]]))**2 maps x = 1
   to i*Re(i*Re(1)) = 0 whereas the dense matrix is (i)^2 = -1. *)
Theorem C03_real_complex_scalar_refuted : exists (e : expr GS) x,
  e = Pow (Scale i_ (RealImag true true true (Leaf 1 1 [[g 1 0]]))) 2 /\
  vreal GS x /\ length x = cols GS e /\ ap GS GRI Fwd e x <> mv GS (dense GS GRI e) x.
Proof. exists (Pow (Scale i_ (RealImag true true true (Leaf 1 1 [[g 1 0]]))) 2), [g 1 0].
  repeat split; try reflexivity. vm_compute; discriminate. Qed.
Print Assumptions C03_real_complex_scalar_refuted.
