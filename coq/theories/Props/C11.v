(* C11 — all ways of driving a solver agree and leave the inputs intact. *)
From Coq Require Import QArith Qcanon List Arith.
From PV Require Import Drivers DriversInst.
From PV Require Heap.
Import ListNotations.
Local Open Scope nat_scope.

(* ---- instalments of run: niter is a cumulative bound on self.iiter.  For
   every solver whose whole state is on self / in the returned iterate
   (CG, CGLS, LSQR, OMP: locals type = unit) *)
Theorem C11_run_split : forall (P : Type) (S0 : solver P unit) j k p,
  run S0 (j + k) (run S0 j p) = run S0 (j + k) p.
Proof. exact run_split. Qed.
Print Assumptions C11_run_split.

Theorem C11_run_split_le : forall (P : Type) (S0 : solver P unit) j n p, j <= n ->
  run S0 n (run S0 j p) = run S0 n p.
Proof. exact run_split_le. Qed.
Print Assumptions C11_run_split_le.
(* hypothesis j <= n and the record's law are met by the CG model over Qc *)
Example C11_run_split_nonvacuous :
  let S0 := cg_solver A2 (Q2Qc (1 # 1000)) in let p := cg_setup A2 y2 x02 in
  obs_cg (run S0 2 (run S0 1 p)) = obs_cg (run S0 2 p) /\ ci (run S0 2 p) = 2 /\ qv (cx (run S0 2 p)) = [4 # 5; 7 # 5]%Q.
Proof. exact cg_split_example. Qed.

(* ---- run k = step^k while the stopping test does not fire; in general
   run = step^m for the first m at which the code's guard is false *)
Theorem C11_run_is_step_pow : forall (P L : Type) (S0 : solver P L) n p,
  (forall i, i < n - iiter S0 p -> ok S0 (iter S0 i (enter S0 p)) = true) ->
  run S0 n p = fst (iter S0 (n - iiter S0 p) (enter S0 p)).
Proof. exact run_is_step_pow. Qed.
Print Assumptions C11_run_is_step_pow.

Theorem C11_run_is_some_step_pow : forall (P L : Type) (S0 : solver P L) n p,
  exists m, m <= n - iiter S0 p /\ run S0 n p = fst (iter S0 m (enter S0 p)) /\
    guard S0 n (iter S0 m (enter S0 p)) = false /\ forall i, i < m -> guard S0 n (iter S0 i (enter S0 p)) = true.
Proof. exact run_is_some_step_pow. Qed.
Print Assumptions C11_run_is_some_step_pow.

(* ---- ALL driving programs (Step | Run k)* that stay inside what the single
   run would do are prefixes of it *)
Theorem C11_prog_then_run : forall (P : Type) (S0 : solver P unit) N prog p,
  safe S0 N prog p -> run S0 N (exec S0 prog p) = run S0 N p.
Proof. exact prog_then_run. Qed.
Print Assumptions C11_prog_then_run.

Theorem C11_progs_equivalent : forall (P : Type) (S0 : solver P unit) N pa pb p,
  safe S0 N pa p -> safe S0 N pb p -> exec S0 (pa ++ [Run N]) p = exec S0 (pb ++ [Run N]) p.
Proof. exact progs_equivalent. Qed.
Print Assumptions C11_progs_equivalent.
Example C11_safe_nonvacuous :
  let S0 := cg_solver A2 (Q2Qc (1 # 1000)) in safe S0 2 [Step; Run 2] (cg_setup A2 y2 x02).
Proof. vm_compute. repeat split; auto. Qed.

Theorem C11_steps_are_run : forall (P : Type) (S0 : solver P unit) k p, iiter S0 p = 0 ->
  (forall i, i < k -> ok S0 (iter S0 i (p, tt)) = true) -> exec S0 (repeat Step k) p = run S0 k p.
Proof. exact steps_are_run. Qed.
Print Assumptions C11_steps_are_run.

Theorem C11_stepsL_are_run : forall (P L : Type) (S0 : solver P L) k p, iiter S0 p = 0 ->
  (forall i, i < k -> ok S0 (iter S0 i (enter S0 p)) = true) ->
  fst (execL S0 (repeat Step k) (enter S0 p)) = run S0 k p.
Proof. exact stepsL_are_run. Qed.
Print Assumptions C11_stepsL_are_run.

(* ---- function wrapper = class solve = setup ; run niter ; finalize *)
Theorem C11_solve_is_setup_run_finalize :
  forall (P : Type) (S0 : solver P unit) (Args Out : Type) (setup : Args -> P) (finalize : P -> Out) N a,
  solve S0 setup finalize N a = manual S0 setup finalize N [] a.
Proof. exact solve_is_setup_run_finalize. Qed.
Print Assumptions C11_solve_is_setup_run_finalize.

Theorem C11_manual_is_solve :
  forall (P : Type) (S0 : solver P unit) (Args Out : Type) (setup : Args -> P) (finalize : P -> Out) N prog a,
  safe S0 N prog (setup a) -> manual S0 setup finalize N prog a = solve S0 setup finalize N a.
Proof. exact manual_is_solve. Qed.
Print Assumptions C11_manual_is_solve.

(* ---- solvers with locals of run.  Positive form: step blind to the
   locals + stopping quantity re-initialised at entry (ISTA) *)
Theorem C11_run_split_local : forall (P L : Type) (S0 : solver P L),
  (forall p l l', step S0 (p, l) = step S0 (p, l')) -> (forall p, ok S0 (enter S0 p) = true) ->
  forall j n p, j <= n -> ok S0 (runL S0 j (enter S0 p)) = true -> run S0 n (run S0 j p) = run S0 n p.
Proof. exact run_split_local. Qed.
Print Assumptions C11_run_split_local.

Theorem C11_ista_run_split_partial : forall A ncols y alpha eps tol j n p, j <= n ->
  ok (ista_solver A ncols y alpha eps tol) (runL (ista_solver A ncols y alpha eps tol) j (enter (ista_solver A ncols y alpha eps tol) p)) = true ->
  run (ista_solver A ncols y alpha eps tol) n (run (ista_solver A ncols y alpha eps tol) j p) = run (ista_solver A ncols y alpha eps tol) n p.
Proof. exact ista_run_split. Qed.
Print Assumptions C11_ista_run_split_partial.
(* partial: only when the earlier instalment was ended by its budget; after a
   tolerance stop re-entering run performs one more step (xupdate = inf) *)
Example C11_ista_run_split_nonvacuous :
  ok (iS 0) (runL (iS 0) 2 (enter (iS 0) ip0)) = true /\ obs_is (run (iS 0) 4 (run (iS 0) 2 ip0)) = obs_is (run (iS 0) 4 ip0) /\
  ii (run (iS 0) 4 ip0) = 4.
Proof. exact ista_split_example. Qed.
Theorem C11_ista_resume_after_tol_stop_refuted :
  let S0 := iS (Q2Qc 10) in ii (run S0 4 ip0) = 1 /\ ii (run S0 4 (run S0 3 ip0)) = 2.
Proof. exact ista_resume_after_tol_stop_refuted. Qed.
Print Assumptions C11_ista_resume_after_tol_stop_refuted.

(* ---- resumable solvers in general, and FISTA (step stores self.z; run
   restarts from self.z; only xupdate is re-created) *)
Theorem C11_run_split_resume : forall (P L : Type) (S0 : solver P L) (Inv : P * L -> Prop),
  (forall p, Inv (enter S0 p)) -> (forall pl, Inv pl -> Inv (step S0 pl)) ->
  (forall pl, Inv pl -> step S0 pl = step S0 (enter S0 (fst pl))) -> (forall p, ok S0 (enter S0 p) = true) ->
  forall j n p, j <= n -> ok S0 (runL S0 j (enter S0 p)) = true -> run S0 n (run S0 j p) = run S0 n p.
Proof. exact run_split_resume. Qed.
Print Assumptions C11_run_split_resume.

Theorem C11_progL_then_run : forall (P L : Type) (S0 : solver P L) (Inv : P * L -> Prop),
  (forall p, Inv (enter S0 p)) -> (forall pl, Inv pl -> Inv (step S0 pl)) ->
  (forall pl, Inv pl -> step S0 pl = step S0 (enter S0 (fst pl))) -> (forall p, ok S0 (enter S0 p) = true) ->
  forall N prog pl, Inv pl -> ok S0 pl = true -> safeL S0 N prog pl ->
  run S0 N (fst (execL S0 prog pl)) = run S0 N (fst pl).
Proof. exact progL_then_run. Qed.
Print Assumptions C11_progL_then_run.

Theorem C11_fista_run_split : forall A ncols y alpha eps tol sq j n p, j <= n ->
  ok (fista_solver A ncols y alpha eps tol sq) (runL (fista_solver A ncols y alpha eps tol sq) j (enter (fista_solver A ncols y alpha eps tol sq) p)) = true ->
  run (fista_solver A ncols y alpha eps tol sq) n (run (fista_solver A ncols y alpha eps tol sq) j p) =
  run (fista_solver A ncols y alpha eps tol sq) n p.
Proof. exact fista_run_split. Qed.
Print Assumptions C11_fista_run_split.
Example C11_fista_run_split_nonvacuous :
  ok fS (runL fS 2 (enter fS fp0)) = true /\ obs_f (run fS (2 + 1) (run fS 2 fp0)) = obs_f (run fS (2 + 1) fp0) /\
  pi (run fS 3 fp0) = 3 /\ qv (px (run fS 3 fp0)) <> qv (px (run fS 2 fp0)).
Proof. exact fista_split_example. Qed.

(* every mixed Step / Run driving of FISTA that stays inside the single run *)
Theorem C11_fista_prog_then_run : forall A ncols y alpha eps tol sq N prog p,
  safeL (fista_solver A ncols y alpha eps tol sq) N prog (enter (fista_solver A ncols y alpha eps tol sq) p) ->
  run (fista_solver A ncols y alpha eps tol sq) N
      (fst (execL (fista_solver A ncols y alpha eps tol sq) prog (enter (fista_solver A ncols y alpha eps tol sq) p))) =
  run (fista_solver A ncols y alpha eps tol sq) N p.
Proof. exact fista_prog_then_run. Qed.
Print Assumptions C11_fista_prog_then_run.
Example C11_fista_mixed_nonvacuous :
  safeL fS 4 [Step; Step; Run 3; Step] (enter fS fp0) /\
  obs_f (fst (execL fS [Step; Step; Run 3; Step] (enter fS fp0))) = obs_f (run fS 4 fp0).
Proof. exact fista_mixed_example. Qed.

(* ---- inputs intact: ownership analysis is sound for every statement
   sequence and every initial aliasing of the caller's arrays *)
Theorem C11_no_caller_write : forall p O', Heap.analyse p [] = Some O' ->
  forall (e : Heap.env) (n0 : Heap.loc), (forall v l, e v = Some l -> l < n0) ->
  forall v l, e v = Some l -> ~ In l (Heap.hwritten (Heap.exec p (Heap.caller_heap e n0))).
Proof. exact Heap.no_caller_write_var. Qed.
Print Assumptions C11_no_caller_write.

Theorem C11_cg_no_caller_write : forall x0given view k (e : Heap.env) n0 l,
  In l (Heap.hwritten (Heap.exec ((Heap.cg_setup x0given view ++ Heap.cg_step view) ++ concat (repeat (Heap.cg_step view) k)) (Heap.caller_heap e n0))) -> n0 <= l.
Proof. exact Heap.cg_no_caller_write. Qed.
Print Assumptions C11_cg_no_caller_write.
Theorem C11_cgls_no_caller_write : forall x0given view k (e : Heap.env) n0 l,
  In l (Heap.hwritten (Heap.exec ((Heap.cgls_setup x0given view ++ Heap.cgls_step view) ++ concat (repeat (Heap.cgls_step view) k)) (Heap.caller_heap e n0))) -> n0 <= l.
Proof. exact Heap.cgls_no_caller_write. Qed.
Print Assumptions C11_cgls_no_caller_write.
Theorem C11_lsqr_no_caller_write : forall x0given view k (e : Heap.env) n0 l,
  In l (Heap.hwritten (Heap.exec ((Heap.lsqr_setup x0given view ++ Heap.lsqr_step view) ++ concat (repeat (Heap.lsqr_step view) k)) (Heap.caller_heap e n0))) -> n0 <= l.
Proof. exact Heap.lsqr_no_caller_write. Qed.
Print Assumptions C11_lsqr_no_caller_write.
Theorem C11_ista_no_caller_write : forall x0given view k (e : Heap.env) n0 l,
  In l (Heap.hwritten (Heap.exec ((Heap.ista_setup x0given ++ Heap.ista_step view) ++ concat (repeat (Heap.ista_step view) k)) (Heap.caller_heap e n0))) -> n0 <= l.
Proof. exact Heap.ista_no_caller_write. Qed.
Print Assumptions C11_ista_no_caller_write.
Theorem C11_fista_no_caller_write : forall x0given view k (e : Heap.env) n0 l,
  In l (Heap.hwritten (Heap.exec ((Heap.ista_setup x0given ++ Heap.fista_enter ++ Heap.fista_step view) ++ concat (repeat (Heap.fista_step view) k)) (Heap.caller_heap e n0))) -> n0 <= l.
Proof. exact Heap.fista_no_caller_write. Qed.
Print Assumptions C11_fista_no_caller_write.
Theorem C11_omp_no_caller_write : forall view k (e : Heap.env) n0 l,
  In l (Heap.hwritten (Heap.exec ((Heap.omp_setup ++ Heap.omp_step view) ++ concat (repeat (Heap.omp_step view) k)) (Heap.caller_heap e n0))) -> n0 <= l.
Proof. exact Heap.omp_no_caller_write. Qed.
Print Assumptions C11_omp_no_caller_write.
Theorem C11_regularized_no_caller_write : forall (e : Heap.env) n0 l,
  In l (Heap.hwritten (Heap.exec Heap.regularized_setup (Heap.caller_heap e n0))) -> n0 <= l.
Proof. exact Heap.regularized_no_caller_write. Qed.
Print Assumptions C11_regularized_no_caller_write.

(* normal equations (one regularisation term, x0 given), also for operators that return their input *)
Theorem C11_normal_eq_no_caller_write : forall view (e : Heap.env) n0 l,
  In l (Heap.hwritten (Heap.exec (Heap.normal_eq_setup view) (Heap.caller_heap e n0))) -> n0 <= l.
Proof. exact Heap.normal_eq_no_caller_write. Qed.
Print Assumptions C11_normal_eq_no_caller_write.

(* ---- the global N-d switch is restored on the normal and exceptional path *)
Theorem C11_flag_restored : forall (Out : Type) (b : body Out) flag, snd (with_disabled b flag) = flag.
Proof. exact flag_restored. Qed.
Print Assumptions C11_flag_restored.
Theorem C11_flag_restored_raise : forall (Out : Type) (b : body Out) flag e,
  fst (b false) = Raise Out e -> with_disabled b flag = (Raise Out e, flag).
Proof. exact flag_restored_raise. Qed.
Print Assumptions C11_flag_restored_raise.
Example C11_flag_raise_nonvacuous : with_disabled (fun f => (Raise nat 7, negb f)) true = (Raise nat 7, true).
Proof. reflexivity. Qed.

Theorem C11_solver_wrap_shape : forall dims, wrap_shape dims false false = dims /\
  fold_right Nat.mul 1 (wrap_shape dims true false) = fold_right Nat.mul 1 dims.
Proof. exact solver_wrap_shape. Qed.
Print Assumptions C11_solver_wrap_shape.

(* ------------------------------------------------------------------ *)
(* Complex data: the driver theorems at the Gaussian-rational field GF for
   the statement-level models of CG (Hermitian positive definite systems)
   and CGLS (complex rectangular systems) of Solvers/CG.v, CGLS.v. *)
From PV Require Import Dict Mat GaussQc GaussField CG CGLS DriversGauss.

(* the run loop of CG.v / CGLS.v (the one the C09/C10 theorems are about) is
   the driver machine's run, for every field with conjugation *)
Theorem C11_cg_run_is_driver_run : forall (F : FieldS) absf gtb Aop niter tol st log,
  fst (cg_run F absf gtb Aop niter niter tol st log) = run (cg_drv F absf gtb Aop tol) niter st.
Proof. exact cg_run_is_driver_run. Qed.
Print Assumptions C11_cg_run_is_driver_run.
Theorem C11_cgls_run_is_driver_run : forall (F : FieldS) absf gtb n A niter tol st log,
  fst (cgls_run F absf gtb n A niter niter tol st log) = run (cgls_drv F absf gtb n A tol) niter st.
Proof. exact cgls_run_is_driver_run. Qed.
Print Assumptions C11_cgls_run_is_driver_run.

Theorem C11_cgG_run_split : forall A tol j k st,
  run (cgG A tol) (j + k) (run (cgG A tol) j st) = run (cgG A tol) (j + k) st.
Proof. exact cgG_run_split. Qed.
Print Assumptions C11_cgG_run_split.
Theorem C11_cglsG_run_split : forall n A tol j k st,
  run (cglsG n A tol) (j + k) (run (cglsG n A tol) j st) = run (cglsG n A tol) (j + k) st.
Proof. exact cglsG_run_split. Qed.
Print Assumptions C11_cglsG_run_split.

Theorem C11_cgG_run_is_step_pow : forall A tol n st,
  (forall i, i < n - cg_iiter GF st -> gtGd (cg_kold GF (fst (iter (cgG A tol) i (st, tt)))) (ofQc tol) = true) ->
  run (cgG A tol) n st = fst (iter (cgG A tol) (n - cg_iiter GF st) (st, tt)).
Proof. exact cgG_run_is_step_pow. Qed.
Print Assumptions C11_cgG_run_is_step_pow.
Theorem C11_cglsG_run_is_step_pow : forall m A tol n st,
  (forall i, i < n - cl_iiter GF st -> gtGd (cl_kold GF (fst (iter (cglsG m A tol) i (st, tt)))) (ofQc tol) = true) ->
  run (cglsG m A tol) n st = fst (iter (cglsG m A tol) (n - cl_iiter GF st) (st, tt)).
Proof. exact cglsG_run_is_step_pow. Qed.
Print Assumptions C11_cglsG_run_is_step_pow.

Theorem C11_cgG_progs_equivalent : forall A tol N pa pb st, safe (cgG A tol) N pa st -> safe (cgG A tol) N pb st ->
  exec (cgG A tol) (pa ++ [Run N]) st = exec (cgG A tol) (pb ++ [Run N]) st.
Proof. exact cgG_progs_equivalent. Qed.
Print Assumptions C11_cgG_progs_equivalent.
Theorem C11_cglsG_progs_equivalent : forall n A tol N pa pb st,
  safe (cglsG n A tol) N pa st -> safe (cglsG n A tol) N pb st ->
  exec (cglsG n A tol) (pa ++ [Run N]) st = exec (cglsG n A tol) (pb ++ [Run N]) st.
Proof. exact cglsG_progs_equivalent. Qed.
Print Assumptions C11_cglsG_progs_equivalent.

(* CG.solve / CGLS.solve as modelled in CG.v / CGLS.v = setup ; any safe
   driving program ; run niter ; finalize *)
Theorem C11_cgG_solve_is_setup_run_finalize : forall A n y x0 niter tol prog,
  safe (cgG A tol) niter prog (cgG_setup A n y x0) ->
  fst (cg_solve GF absGd gtGd (mv GF A) n y x0 niter (ofQc tol)) =
  manual (cgG A tol) (fun a : Datatypes.unit => cgG_setup A n y x0) (cg_out GF) niter prog tt.
Proof. exact cgG_solve_is_setup_run_finalize. Qed.
Print Assumptions C11_cgG_solve_is_setup_run_finalize.
Theorem C11_cglsG_solve_is_setup_run_finalize : forall n A y x0 niter damp tol prog,
  safe (cglsG n A tol) niter prog (cglsG_setup n A y x0 damp) ->
  fst (cgls_solve GF absGd gtGd n A y x0 niter (ofQc damp) (ofQc tol)) =
  manual (cglsG n A tol) (fun a : Datatypes.unit => cglsG_setup n A y x0 damp) (cgls_out GF gtGd (ofQc tol)) niter prog tt.
Proof. exact cglsG_solve_is_setup_run_finalize. Qed.
Print Assumptions C11_cglsG_solve_is_setup_run_finalize.

(* non-vacuity on a Hermitian positive definite 2x2 Gaussian-integer system
   (split = one run, a safe mixed program, CG solves it exactly in 2 steps) *)
Example C11_cgG_nonvacuous :
  let S0 := cgG AH 0%Qc in let p := cgG_setup AH 2 yH None in
  obs_cgG (run S0 (1 + 1) (run S0 1 p)) = obs_cgG (run S0 (1 + 1) p) /\ cg_iiter GF (run S0 2 p) = 2 /\
  safe S0 2 [Step; Run 2] p /\
  gqv (cg_x GF (exec S0 [Step; Run 2] p)) = gqv (cg_x GF (run S0 2 p)) /\
  gqv (mv GF AH (cg_x GF (run S0 2 p))) = gqv yH.
Proof. exact cgG_split_example. Qed.
(* and on a complex 3x2 system (CGLS reaches the normal equations exactly) *)
Example C11_cglsG_nonvacuous :
  let S0 := cglsG 2 AR 0%Qc in let p := cglsG_setup 2 AR yR None 0%Qc in
  obs_clG (run S0 (1 + 1) (run S0 1 p)) = obs_clG (run S0 (1 + 1) p) /\ cl_iiter GF (run S0 2 p) = 2 /\
  safe S0 2 [Step; Run 2] p /\
  gqv (cl_x GF (exec S0 [Step; Run 2] p)) = gqv (cl_x GF (run S0 2 p)) /\
  gqv (mvH GF 2 AR (vsub GF yR (mv GF AR (cl_x GF (run S0 2 p))))) = [(0%Q, 0%Q); (0%Q, 0%Q)].
Proof. exact cglsG_split_example. Qed.

(* inputs intact: the ownership theorems above (C11_cg_no_caller_write,
   C11_cgls_no_caller_write) quantify over statement sequences and buffers,
   not over the scalar type, so they hold verbatim for complex128 arrays;
   restated for the x0-given complex driving used by the correspondence *)
Theorem C11_cgG_no_caller_write : forall view k (e : Heap.env) n0 l,
  In l (Heap.hwritten (Heap.exec ((Heap.cg_setup true view ++ Heap.cg_step view) ++ concat (repeat (Heap.cg_step view) k)) (Heap.caller_heap e n0))) -> n0 <= l.
Proof. exact (Heap.cg_no_caller_write true). Qed.
Print Assumptions C11_cgG_no_caller_write.
Theorem C11_cglsG_no_caller_write : forall view k (e : Heap.env) n0 l,
  In l (Heap.hwritten (Heap.exec ((Heap.cgls_setup true view ++ Heap.cgls_step view) ++ concat (repeat (Heap.cgls_step view) k)) (Heap.caller_heap e n0))) -> n0 <= l.
Proof. exact (Heap.cgls_no_caller_write true). Qed.
Print Assumptions C11_cglsG_no_caller_write.
