(* C07 (c) — FFT operators equal the DFT matrix with the stated scaling,
   zero-padding / truncation and shifts.  The documented operator is
       y = scale(norm) . fftshift? ( DFT_N ( first N samples of ifftshift? x, zero padded ) )
   with DFT_N row k = sum_j w^(j k) x_j; every engine model of
   Ops/DFTEngines.v (numpy, scipy, fftw: own placement of scale / pad / shift)
   is proved equal to it for ALL sizes, norms and shift flags.  The
   correspondence (harness/c07c.py) compares the implementation's dense matrix
   with this specification evaluated with a twiddle table
   ([dft_tab], tied to [dft] by C07c_twiddle_table). *)
From PV Require Import DFTEngines.
Local Open Scope R_scope.

Theorem C07c_fft_engines_meet_spec :
  forall (F : FieldS) (w : F) (N : nat) (sq : F) (c : fcfg) (x : list F), length x = c_n c ->
    fwd_numpy F w N sq c x = vscale F (fscale F N sq c) (core_fwd F w N c x) /\
    fwd_scipy F w N sq c x = vscale F (fscale F N sq c) (core_fwd F w N c x) /\
    fwd_fftw F w N sq c x = vscale F (fscale F N sq c) (core_fwd F w N c x).
Proof. exact engines_fwd_spec. Qed.
Print Assumptions C07c_fft_engines_meet_spec.

(* the pieces of the specification as index formulas *)
Theorem C07c_dft_row :
  forall (S : StarRing) (w : S) N (x : list S) k, k < N ->
    nth k (dft S w N (firstn N x)) 0 = bsum (fun j => rpow w (j * k) * nth j x 0) (Nat.min N (length x)).
Proof. exact dft_truncated_entry. Qed.
Print Assumptions C07c_dft_row.
Theorem C07c_zero_padding :
  forall (S : StarRing) (w : S) m m' (x : list S), (length x <= m')%nat -> dft S w m (pad S m' x) = dft S w m x.
Proof. exact dft_pad. Qed.
Print Assumptions C07c_zero_padding.
Theorem C07c_fftshift_index :
  forall (S : StarRing) (x : list S) i, i < length x ->
    nth i (fftshift S x) 0 = nth ((i + (length x - length x / 2)) mod length x) x 0 /\
    nth i (ifftshift S x) 0 = nth ((i + length x / 2) mod length x) x 0.
Proof. intros; split; [apply nth_fftshift | apply nth_ifftshift]; auto. Qed.
Print Assumptions C07c_fftshift_index.
(* the executed twiddle-table form is the transform with root w *)
Theorem C07c_twiddle_table :
  forall (S : StarRing) (w : S) (N m : nat) (x : list S), 0 < N -> rpow w N = 1 ->
    dft_tab S (tab (rpow w) N) N m x = dft S w m x.
Proof. exact dft_tab_correct. Qed.
Print Assumptions C07c_twiddle_table.
(* orthogonality for every offset not divisible by N follows from the three laws *)
Theorem C07c_orthogonality_any_offset :
  forall (S : StarRing) (w : S) (N : nat), principal_root S w N ->
    forall d, d mod N <> 0%nat -> bsum (fun k => rpow w (d * k)) N = 0.
Proof. intros S w N (Hp & _ & Ho). exact (w_orth_any S w N Hp Ho). Qed.
Print Assumptions C07c_orthogonality_any_offset.
Example C07c_nonvacuous : principal_root GaussField.GF w4 4 /\ rpow (w4 : GaussField.GF) 4 = r1 GaussField.GF.
Proof. split; [exact root4 | exact (proj1 root4)]. Qed.
Print Assumptions C07c_nonvacuous.
