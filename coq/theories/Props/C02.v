(* C02 — matvec and rmatvec are linear maps. *)
From PV Require Import Mat.

Theorem C02_mv_linear :
  forall (R : CRing) (M : list (list R)) a b x y, length x = length y ->
    mv R M (vadd R (vscale R a x) (vscale R b y)) = vadd R (vscale R a (mv R M x)) (vscale R b (mv R M y)).
Proof. exact mv_linear. Qed.
Print Assumptions C02_mv_linear.

Theorem C02_mv_zero : forall (R : CRing) (M : list (list R)) n, mv R M (zeros R n) = zeros R (length M).
Proof. exact mv_zeros. Qed.
Print Assumptions C02_mv_zero.

Theorem C02_mv_unit : forall (R : CRing) n (M : list (list R)) j, wfM R n M -> j < n -> mv R M (unit R n j) = col R j M.
Proof. exact mv_unit. Qed.
Print Assumptions C02_mv_unit.
