(* C04 — shape, dims/dimsd and the N-d application contract.
   Models: State/DotDispatch.v (dot / matvec / matmat checks, reshaped
   decorator, attribute setters and constructions), State/ConfigFlag.v (global
   flag and its two context managers). *)
From Coq Require Import Bool Arith List.
From PV Require Import ConfigFlag DotDispatch.
Import ListNotations.

(* ---- global flag: restored on normal exit and on exception, any nesting ---- *)
Theorem C04_flag_restored :
  forall (p : prog) (f : bool), final (WithDisabled p) f = f /\ final (WithEnabled p) f = f.
Proof. exact flag_restored. Qed.
Print Assumptions C04_flag_restored.

Theorem C04_flag_exception_propagates :
  forall p f, outcome_of (WithDisabled p) f = outcome_of p false /\ outcome_of (WithEnabled p) f = outcome_of p true.
Proof. exact with_propagates. Qed.
Print Assumptions C04_flag_exception_propagates.

Theorem C04_flag_body_sees_forced_value :
  forall p f, trace (WithDisabled (Seq Obs p)) f = false :: trace p false
           /\ trace (WithEnabled (Seq Obs p)) f = true :: trace p true.
Proof. exact body_sees_forced_flag. Qed.
Print Assumptions C04_flag_body_sees_forced_value.

Theorem C04_flag_setfree_program_preserves :
  forall p f, set_free p = true -> final p f = f.
Proof. exact set_free_preserves. Qed.
Print Assumptions C04_flag_setfree_program_preserves.
Example C04_flag_setfree_nonvacuous :
  let p := Seq (WithDisabled (Seq (SetFlag true) (Catch (WithEnabled Raise)))) (WithEnabled (Seq (SetFlag false) Raise)) in
  set_free p = true /\ run p false = (false, Raised).
Proof. split; reflexivity. Qed.
Example C04_flag_restored_nonvacuous :
  run (WithDisabled (Seq (SetFlag true) (Seq (WithEnabled Raise) (SetFlag false)))) true = (true, Raised)
  /\ run (WithEnabled (SetFlag false)) true = (true, Normal).
Proof. split; reflexivity. Qed.

(* ---- dot on arrays ---- *)
Theorem C04_dispatch_dims :
  forall dims dimsd ff, ff <> Some true -> dot_dispatch dims dimsd ff true dims = Ok RMatvec dimsd.
Proof. exact dispatch_dims. Qed.
Print Assumptions C04_dispatch_dims.
Example C04_dispatch_dims_ex : dot_dispatch [2; 3; 4] [2; 4] None true [2; 3; 4] = Ok RMatvec [2; 4].
Proof. reflexivity. Qed.

Theorem C04_dispatch_cols :
  forall dims dimsd ff k, ff <> Some true -> dims <> [] -> k <> 0 -> prod dimsd <> 0 ->
    dot_dispatch dims dimsd ff true (dims ++ [k]) = Ok RMatmat (dimsd ++ [k]).
Proof. exact dispatch_cols. Qed.
Print Assumptions C04_dispatch_cols.
Example C04_dispatch_cols_ex : dot_dispatch [2; 3] [5] (Some false) true [2; 3; 7] = Ok RMatmat [5; 7].
Proof. reflexivity. Qed.

Theorem C04_dispatch_cols_forceflat :
  forall dims dimsd k f,
    dot_dispatch dims dimsd (Some true) f (dims ++ [k]) =
      match dims with
      | [_] => Ok RMatmat [prod dimsd; k]
      | [] => dot_dispatch [] dimsd (Some true) f [k]
      | _ => Error EValue
      end.
Proof. exact dispatch_cols_forceflat. Qed.
Print Assumptions C04_dispatch_cols_forceflat.

Theorem C04_dispatch_flat :
  forall dims dimsd ff f, dims <> [prod dims] ->
    dot_dispatch dims dimsd ff f [prod dims] = Ok RMatvec [prod dimsd].
Proof. exact dispatch_flat. Qed.
Print Assumptions C04_dispatch_flat.
Example C04_dispatch_flat_ex : [2; 3] <> [prod [2; 3]] /\ dot_dispatch [2; 3] [4; 3] None true [6] = Ok RMatvec [12].
Proof. split; [discriminate|reflexivity]. Qed.
(* 1-d dims: the flat input is dims-shaped, the output is dimsd-shaped (HStack of N-d operators) *)
Theorem C04_dispatch_flat_1d :
  forall n dimsd ff f,
    dot_dispatch [n] dimsd ff f [n] = Ok RMatvec (if negb (truthy ff) && f then dimsd else [prod dimsd]).
Proof. exact dispatch_flat_1d. Qed.
Print Assumptions C04_dispatch_flat_1d.

Theorem C04_dispatch_matrix :
  forall dims dimsd ff f k, length dims <> 1 -> [prod dims; k] <> dims ->
    dot_dispatch dims dimsd ff f [prod dims; k] = Ok RMatmat [prod dimsd; k].
Proof. exact dispatch_matrix. Qed.
Print Assumptions C04_dispatch_matrix.
Example C04_dispatch_matrix_ex : dot_dispatch [2; 3] [4] None false [6; 5] = Ok RMatmat [4; 5].
Proof. reflexivity. Qed.

Theorem C04_dispatch_rejects :
  forall dims dimsd ff f xs r s,
    dot_dispatch dims dimsd ff f xs = Ok r s ->
    prod xs = prod dims \/ exists k s', xs = s' ++ [k] /\ prod s' = prod dims.
Proof. exact dispatch_rejects. Qed.
Print Assumptions C04_dispatch_rejects.
Theorem C04_dispatch_out_size :
  forall dims dimsd ff f xs r s,
    dot_dispatch dims dimsd ff f xs = Ok r s ->
    match r with
    | RMatvec => prod xs = prod dims /\ prod s = prod dimsd
    | RMatmat => exists k, prod xs = prod dims * k /\ prod s = prod dimsd * k
    end.
Proof. exact dispatch_out_size. Qed.
Print Assumptions C04_dispatch_out_size.
Example C04_dispatch_rejects_ex :
  dot_dispatch [2; 3] [4] None true [3; 2] = Error EValue /\ dot_dispatch [2; 3] [4] None true [7] = Error EValue
  /\ dot_dispatch [2; 3] [4] None true [1; 2; 3] = Error EValue /\ dot_dispatch [2; 3] [4] None true [6; 2] = Ok RMatmat [4; 2].
Proof. repeat split; reflexivity. Qed.

Theorem C04_dispatch_flag_off :
  forall dims dimsd ff xs,
    2 < length xs \/ (length xs = 2 /\ hd 0 xs <> prod dims) ->
    dot_dispatch dims dimsd ff false xs = Error EValue.
Proof. exact dispatch_flag_off. Qed.
Print Assumptions C04_dispatch_flag_off.
Theorem C04_dispatch_flag_off_flat :
  forall dims dimsd ff, dot_dispatch dims dimsd ff false [prod dims] = Ok RMatvec [prod dimsd].
Proof. exact dispatch_flag_off_flat. Qed.
Print Assumptions C04_dispatch_flag_off_flat.
Example C04_dispatch_flag_off_ex :
  dot_dispatch [2; 3] [2; 3] None false [2; 3] = Error EValue /\ dot_dispatch [2; 3] [2; 3] None true [2; 3] = Ok RMatvec [2; 3].
Proof. split; reflexivity. Qed.

Theorem C04_reshaped_after_check :
  forall dims dimsd xs r s, matvec_shape (prod dimsd) (prod dims) xs = Ok r s -> reshaped_in dims (prod xs) = Some dims.
Proof. exact reshaped_after_check. Qed.
Print Assumptions C04_reshaped_after_check.
Theorem C04_reshaped_rejects : forall dims n, reshaped_in dims n <> None -> n = prod dims.
Proof. exact reshaped_rejects. Qed.
Print Assumptions C04_reshaped_rejects.

(* ---- attributes ---- *)
Theorem C04_init_shape_prod :
  forall shape dims dimsd ff st a, init shape dims dimsd ff = Some st -> view st = Some a ->
    a_shape a = (prod (a_dimsd a), prod (a_dims a)).
Proof. exact init_wf. Qed.
Print Assumptions C04_init_shape_prod.
Example C04_init_ex :
  (exists st, init None (Some [2; 3]) (Some [4]) None = Some st /\ view st = Some (mk [2; 3] [4] None))
  /\ init (Some (4, 6)) (Some [2; 2]) None None = None.
Proof. split; [eexists; split; reflexivity|reflexivity]. Qed.

Theorem C04_constructions_shape_prod :
  forall a b c, adjoint a = Some c \/ product a b = Some c \/ sum a b = Some c \/ scaled a = Some c ->
    a_shape c = (prod (a_dimsd c), prod (a_dims c)).
Proof. exact constructions_wf. Qed.
Print Assumptions C04_constructions_shape_prod.

Theorem C04_adjoint_swaps :
  forall a, wf a -> adjoint a = Some (mk (a_dimsd a) (a_dims a) (a_ff a)).
Proof. exact adjoint_swaps. Qed.
Print Assumptions C04_adjoint_swaps.
Theorem C04_product_takes :
  forall a b f, wf a -> wf b -> prod (a_dims a) = prod (a_dimsd b) -> merge_ff (a_ff a) (a_ff b) = Some f ->
    product a b = Some (mk (a_dims b) (a_dimsd a) f).
Proof. exact product_takes. Qed.
Print Assumptions C04_product_takes.
Theorem C04_product_shape_mismatch :
  forall a b, snd (a_shape a) <> fst (a_shape b) -> product a b = None.
Proof. exact product_shape_mismatch. Qed.
Print Assumptions C04_product_shape_mismatch.
Theorem C04_sum_takes :
  forall a b f, wf a -> wf b -> a_shape a = a_shape b -> merge_ff (a_ff a) (a_ff b) = Some f ->
    sum a b = Some (mk (if length (a_dims a) =? 1 then a_dims b else a_dims a)
                       (if length (a_dimsd a) =? 1 then a_dimsd b else a_dimsd a) f).
Proof. exact sum_takes. Qed.
Print Assumptions C04_sum_takes.
Theorem C04_scaled_keeps : forall a, wf a -> scaled a = Some a.
Proof. exact scaled_keeps. Qed.
Print Assumptions C04_scaled_keeps.
Example C04_constructions_ex :
  let a := mk [2; 3] [4] None in let b := mk [3; 2] [6] (Some false) in
  wf a /\ wf b /\ product a b = Some (mk [3; 2] [4] (Some false)) /\ adjoint a = Some (mk [4] [2; 3] None)
  /\ sum b (mk [6] [3; 2] None) = Some (mk [3; 2] [3; 2] (Some false))
  /\ product (mk [6] [6] (Some true)) b = None.
Proof. repeat split; reflexivity. Qed.

Corollary C04_adjoint_dispatch :
  forall a a', wf a -> a_ff a <> Some true -> adjoint a = Some a' ->
    dot_attrs a' true (a_dimsd a) = Ok RMatvec (a_dims a).
Proof. exact adjoint_dispatch. Qed.
Print Assumptions C04_adjoint_dispatch.
Corollary C04_product_dispatch :
  forall a b c, wf a -> wf b -> product a b = Some c -> a_ff c <> Some true ->
    dot_attrs c true (a_dims b) = Ok RMatvec (a_dimsd a).
Proof. exact product_dispatch. Qed.
Print Assumptions C04_product_dispatch.

(* any non-raising sequence of assignments to shape / dims / dimsd, in any
   order, leaves shape = (prod dimsd, prod dims) (shape setter as fixed by 55eb95e) *)
Theorem C04_setters_any_order_shape_prod :
  forall l st a, run_sops l empty = Some st -> view st = Some a ->
    a_shape a = (prod (a_dimsd a), prod (a_dims a)).
Proof. exact setters_any_order_wf. Qed.
Print Assumptions C04_setters_any_order_shape_prod.
Example C04_setters_any_order_ex :
  (exists st, run_sops [SDimsd [2; 3]; SShape 6 4; SDims [2; 2]] empty = Some st /\ view st = Some (mk [2; 2] [2; 3] None))
  /\ run_sops [SDims [5]; SShape 3 4] empty = None /\ run_sops [SDimsd [4]; SShape 3 4] empty = None.
Proof. split; [eexists; split; reflexivity|split; reflexivity]. Qed.
(* legacy guard (both dims and dimsd had to be set before shape was validated): witness of the old hole *)
Theorem C04_legacy_setter_order_hole :
  exists st a, bind (set_dims [5] empty) (Legacy.set_shape_legacy (3, 4)) = Some st /\ view st = Some a /\ wfb a = false.
Proof. exact Legacy.setter_order_hole. Qed.
Print Assumptions C04_legacy_setter_order_hole.

(* solver wrapper: the result keeps N elements and is dims-shaped unless x0 was flat or forceflat = True *)
Theorem C04_solver_wrap_size : forall dims ff x0, prod (solver_wrap_shape dims ff x0) = prod dims.
Proof. exact solver_wrap_size. Qed.
Print Assumptions C04_solver_wrap_size.
Example C04_solver_wrap_ex :
  solver_wrap_shape [2; 3] None None = [2; 3] /\ solver_wrap_shape [2; 3] None (Some [6]) = [6]
  /\ solver_wrap_shape [2; 3] (Some true) (Some [2; 3]) = [6].
Proof. repeat split; reflexivity. Qed.
