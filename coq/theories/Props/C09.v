(* C09 — Krylov solvers converge to the documented minimiser.
   Models: Solvers/CG.v, Solvers/CGLS.v (transcriptions of cls_basic.py CG / CGLS;
   [fixed = false] is the code as delivered).  LSQR is not modelled (no square
   root on Qc): its tie to SciPy is the harness comparison (oracle).
   NOT proved here: finite termination of CG in n steps for every HPD matrix
   (cg_finite_termination): kold_n = 0 is established per generated system by
   exact evaluation of the model in the check; from kold = 0 the theorems
   C09_cgls_kold_zero_normal_equations / C09_normal_equations_minimise give
   "x_n is the minimiser" for every system over an ordered field. *)
From Coq Require Import QArith Qcanon.
From PV Require Import Dict Vec Dot Mat QcInst Check CG CGLS CGLSFacts CGLSMono LSQR.
Import ListNotations.

(* CG: r_k = y - A x_k for all inputs, all k (any linear Aop, any abs, any field with conjugation) *)
Theorem C09_cg_residual_inv :
  forall (F : FieldS) (absf : F -> F) (Aop : list F -> list F) n, linop F n n Aop ->
  forall y, length y = n -> forall x0 k, (forall v, x0 = Some v -> length v = n) ->
    let st := cg_iter F absf Aop k (cg_setup F absf Aop n y x0) in
    cg_r F st = vsub F y (Aop (cg_x F st)).
Proof. exact cg_residual_inv. Qed.
Print Assumptions C09_cg_residual_inv.

(* multiplication by any matrix is such an operator *)
Theorem C09_mv_linop : forall (R : CRing) n (M : list (list R)), linop R n (length M) (mv R M).
Proof. exact mv_linop. Qed.
Print Assumptions C09_mv_linop.

(* CGLS: s_k = y - A x_k, q_k = A c_k, r_k = A^H s_k - damp^2 x_k, for ALL inputs (x0, damp) and all k *)
Theorem C09_cgls_invariants :
  forall (F : FieldS) (absf : F -> F) n (A : list (list F)), wfM F n A ->
  forall y, length y = length A -> forall damp x0 k, x0_ok F n x0 ->
    let st := cgls_iter F absf n A k (cgls_setup F absf n A y x0 damp) in
    cl_s F st = vsub F y (mv F A (cl_x F st)) /\ cl_q F st = mv F A (cl_c F st) /\
    cl_r F st = vsub F (mvH F n A (cl_s F st)) (vscale F (rmul F damp damp) (cl_x F st)).
Proof. exact cgls_invariants. Qed.
Print Assumptions C09_cgls_invariants.

(* CGLS on (A, y, damp, x0) and CG on (A^H A + damp^2 I, A^H y, x0) have the same x_k, c_k, r_k, kold_k, iiter_k
   for ALL k and all x0 (hypotheses: numpy abs is the identity on Hermitian squares r.r^bar; damp is real) *)
Theorem C09_cgls_simulates_cg :
  forall (F : FieldS) (absf : F -> F) n (A : list (list F)), wfM F n A ->
  forall y, length y = length A -> forall damp, conj F damp = damp ->
  (forall v : list F, absf (dot F v v) = dot F v v) ->
  forall x0 k, x0_ok F n x0 ->
    sim F (cgls_iter F absf n A k (cgls_setup F absf n A y x0 damp))
          (cg_iter F absf (normal_op F n A damp) k (cg_setup F absf (normal_op F n A damp) n (normal_rhs F n A y) x0)).
Proof. exact cgls_simulates_cg. Qed.
Print Assumptions C09_cgls_simulates_cg.

(* a stationary point of the iteration solves the damped normal equations, and every solution of the damped
   normal equations minimises J(x) = ||y - A x||^2 + damp^2 ||x||^2 (ordered field) *)
Theorem C09_cgls_kold_zero_normal_equations :
  forall (O : OrdField) (absf : O -> O) n (A : list (list O)), wfM O n A ->
  forall y, length y = length A -> forall damp, (forall v : list O, absf (dot O v v) = dot O v v) ->
  forall x0 k, x0_ok O n x0 ->
    let st := cgls_iter O absf n A k (cgls_setup O absf n A y x0 damp) in
    cl_kold O st = r0 O ->
    vsub O (mvH O n A (vsub O y (mv O A (cl_x O st)))) (vscale O (rmul O damp damp) (cl_x O st)) = zeros O n.
Proof. exact cgls_kold_zero_normal_eq. Qed.
Print Assumptions C09_cgls_kold_zero_normal_equations.

Theorem C09_normal_equations_minimise :
  forall (O : OrdField) n (A : list (list O)), wfM O n A -> forall y, length y = length A -> forall damp x z,
    length x = n -> length z = n ->
    vsub O (mvH O n A (vsub O y (mv O A x))) (vscale O (rmul O damp damp) x) = zeros O n ->
    rle O (lsfun O A y damp x) (lsfun O A y damp z).
Proof. exact normal_eq_minimises. Qed.
Print Assumptions C09_normal_equations_minimise.

(* the normal-equation operator is linear, so C09_cg_residual_inv applies to it *)
Theorem C09_normal_op_linop :
  forall (F : FieldS) n (A : list (list F)), wfM F n A -> forall damp, linop F n n (normal_op F n A damp).
Proof. exact normal_op_linop. Qed.
Print Assumptions C09_normal_op_linop.

(* LSQR (model Solvers/LSQR.v; the norms the code takes are supplied and assumed exact: m*m = v, 0 <= m).
   One coded step performs one Golub-Kahan step, for every state, matrix, size and damp:
   beta' u' = A v - alfa u, |u'| = 1 (beta' > 0), alfa' v' = A^T u' - beta' v, |v'| = 1 (alfa' > 0);
   on an exact breakdown (beta' = 0) the relation still holds with u' = 0. *)
Theorem C09_lsqr_bidiag_step :
  forall (O : OrdField) n (A : list (list O)) damp (st : lstate O) (rt : roots O),
  let u0 := vsub O (mv O A (l_v O st)) (vscale O (l_alfa O st) (l_u O st)) in
  let st' := lsqr_step O n A damp st rt in
  exact O (rt_beta O rt) (dot O u0 u0) ->
  l_beta O st' = rt_beta O rt /\
  vscale O (l_beta O st') (l_u O st') = u0 /\
  (gt0 O (rt_beta O rt) = true -> dot O (l_u O st') (l_u O st') = r1 O /\
     let v0 := vsub O (mvH O n A (l_u O st')) (vscale O (l_beta O st') (l_v O st)) in
     exact O (rt_alfa O rt) (dot O v0 v0) ->
     l_alfa O st' = rt_alfa O rt /\ vscale O (l_alfa O st') (l_v O st') = v0 /\
     (gt0 O (rt_alfa O rt) = true -> dot O (l_v O st') (l_v O st') = r1 O)).
Proof. exact lsqr_bidiag_step. Qed.
Print Assumptions C09_lsqr_bidiag_step.

(* the hypotheses above are satisfiable by a concrete non-trivial system (3x2 over Qc, damp = 1/2, x0 <> 0,
   numpy abs): two iterations reach kold = 0 exactly, one does not *)
Example C09_hypotheses_satisfiable :
  wfM QcF 2 eA /\ length ey = length eA /\ conj QcF ed = ed /\ (forall v : list QcF, absR (dot QcF v v) = dot QcF v v) /\
  x0_ok QcF 2 (Some [qz 1; qz (-1)]) /\
  cl_kold QcF (cgls_iter QcF absR 2 eA 2 (cgls_setup QcF absR 2 eA ey (Some [qz 1; qz (-1)]) ed)) = 0%Qc /\
  cl_kold QcF (cgls_iter QcF absR 2 eA 1 (cgls_setup QcF absR 2 eA ey (Some [qz 1; qz (-1)]) ed)) <> 0%Qc.
Proof. exact example_hyps. Qed.
Print Assumptions C09_hypotheses_satisfiable.
