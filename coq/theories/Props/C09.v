(* C09 — Krylov solvers converge to the documented minimiser.
   Models: Solvers/CG.v, Solvers/CGLS.v (transcriptions of cls_basic.py CG / CGLS;
   [fixed = false] is the code as delivered).  LSQR is not modelled (no square
   root on Qc): its tie to SciPy is the harness comparison (oracle).
   NOT proved here: finite termination of CG in n steps for every HPD matrix
   (cg_finite_termination): it is established per generated system by exact
   evaluation of the model in the check (kold_n = 0 and normal equations = 0). *)
From Coq Require Import QArith Qcanon.
From PV Require Import Dict Vec Dot Mat QcInst Check CG CGLS CGLSFacts.
Import ListNotations.

(* CG: r_k = y - A x_k for all inputs, all k (any linear Aop, any abs, any field with conjugation) *)
Theorem C09_cg_residual_inv :
  forall (F : FieldS) (absf : F -> F) (Aop : list F -> list F) n, linop F n n Aop ->
  forall y, length y = n -> forall x0 k, (forall v, x0 = Some v -> length v = n) ->
    let st := cg_iter F absf Aop k (cg_setup F absf Aop n y x0) in
    cg_r F st = vsub F y (Aop (cg_x F st)).
Proof. exact cg_residual_inv. Qed.
Print Assumptions C09_cg_residual_inv.

(* multiplication by any matrix is such an operator *)
Theorem C09_mv_linop : forall (R : CRing) n (M : list (list R)), linop R n (length M) (mv R M).
Proof. exact mv_linop. Qed.
Print Assumptions C09_mv_linop.

(* CGLS: s_k = y - A x_k, q_k = A c_k, r_k = A^H s_k - damp^2 x_k, for all k, under exactly the
   guard the setup needs: no x0, or damp * x0 = damp^2 * x0 (x0 = 0 or damp in {0,1}); no guard
   at all for the repaired setup (fixed = true makes cgls_guard trivially true) *)
Theorem C09_cgls_invariants_partial :
  forall (F : FieldS) (absf : F -> F) n (A : list (list F)) (fixed : bool), wfM F n A ->
  forall y, length y = length A -> forall damp x0 k, x0_ok F n x0 -> cgls_guard F fixed damp x0 ->
    let st := cgls_iter F absf n A k (cgls_setup F absf n A fixed y x0 damp) in
    cl_s F st = vsub F y (mv F A (cl_x F st)) /\ cl_q F st = mv F A (cl_c F st) /\
    cl_r F st = vsub F (mvH F n A (cl_s F st)) (vscale F (rmul F damp damp) (cl_x F st)).
Proof. exact cgls_invariants. Qed.
Print Assumptions C09_cgls_invariants_partial.

(* the data-residual and q invariants need no guard; the r invariant holds from k = 1 on for all inputs *)
Theorem C09_cgls_inv_all_inputs :
  forall (F : FieldS) (absf : F -> F) n (A : list (list F)) (fixed : bool), wfM F n A ->
  forall y, length y = length A -> forall damp x0 k, x0_ok F n x0 ->
    cl_inv F n A y damp (cgls_iter F absf n A k (cgls_setup F absf n A fixed y x0 damp)).
Proof. exact cgls_inv_iter. Qed.
Print Assumptions C09_cgls_inv_all_inputs.

Theorem C09_cgls_setup_refuted :
  exists (A : list (list QcF)) (y x0 : list QcF) (damp : QcF),
    wfM QcF 1 A /\ length y = length A /\ length x0 = 1%nat /\
    ~ cl_rinv QcF 1 A damp (cgls_setup QcF absR 1 A false y (Some x0) damp).
Proof. exact cgls_setup_refuted. Qed.
Print Assumptions C09_cgls_setup_refuted.

(* the code as delivered misses the minimiser (k = 1, 2, 3 on a 1-unknown system); the repaired setup hits it at k = 1 *)
Theorem C09_cgls_minimiser_refuted :
  exists (A : list (list QcF)) (y x0 : list QcF) (damp : QcF),
    wfM QcF 1 A /\ length y = length A /\ length x0 = 1%nat /\
    (forall k, (1 <= k <= 3)%nat ->
       let x := cl_x QcF (cgls_iter QcF absR 1 A k (cgls_setup QcF absR 1 A false y (Some x0) damp)) in
       vsub QcF (mvH QcF 1 A (vsub QcF y (mv QcF A x))) (vscale QcF (damp * damp)%Qc x) <> [0%Qc]) /\
    (let x := cl_x QcF (cgls_iter QcF absR 1 A 1 (cgls_setup QcF absR 1 A true y (Some x0) damp)) in
       vsub QcF (mvH QcF 1 A (vsub QcF y (mv QcF A x))) (vscale QcF (damp * damp)%Qc x) = [0%Qc]).
Proof. exact cgls_minimiser_refuted. Qed.
Print Assumptions C09_cgls_minimiser_refuted.

(* CGLS on (A, y, damp, x0) and CG on (A^H A + damp^2 I, A^H y, x0) have the same x_k, c_k, r_k, kold_k, iiter_k
   for ALL k (abs = identity on Hermitian squares, damp real) *)
Theorem C09_cgls_simulates_cg_partial :
  forall (F : FieldS) (absf : F -> F) n (A : list (list F)) (fixed : bool), wfM F n A ->
  forall y, length y = length A -> forall damp, conj F damp = damp ->
  (forall v : list F, absf (dot F v v) = dot F v v) ->
  forall x0 k, x0_ok F n x0 -> cgls_guard F fixed damp x0 ->
    sim F (cgls_iter F absf n A k (cgls_setup F absf n A fixed y x0 damp))
          (cg_iter F absf (normal_op F n A damp) k (cg_setup F absf (normal_op F n A damp) n (normal_rhs F n A y) x0)).
Proof. exact cgls_simulates_cg. Qed.
Print Assumptions C09_cgls_simulates_cg_partial.

(* the normal-equation operator is linear, so C09_cg_residual_inv applies to it *)
Theorem C09_normal_op_linop :
  forall (F : FieldS) n (A : list (list F)), wfM F n A -> forall damp, linop F n n (normal_op F n A damp).
Proof. exact normal_op_linop. Qed.
Print Assumptions C09_normal_op_linop.

(* the hypotheses above are satisfiable by a concrete non-trivial system (3x2 over Qc, damp = 1/2, numpy abs) *)
Example C09_hypotheses_satisfiable :
  wfM QcF 2 eA /\ length ey = length eA /\ conj QcF ed = ed /\ (forall v : list QcF, absR (dot QcF v v) = dot QcF v v) /\
  x0_ok QcF 2 (Some [qz 1; qz (-1)]) /\ cgls_guard QcF true ed (Some [qz 1; qz (-1)]) /\ cgls_guard QcF false ed None /\
  cgls_guard QcF false (qz 1) (Some [qz 1; qz (-1)]) /\
  cl_kold QcF (cgls_iter QcF absR 2 eA 2 (cgls_setup QcF absR 2 eA true ey (Some [qz 1; qz (-1)]) ed)) = 0%Qc /\
  cl_kold QcF (cgls_iter QcF absR 2 eA 1 (cgls_setup QcF absR 2 eA true ey (Some [qz 1; qz (-1)]) ed)) <> 0%Qc.
Proof. exact example_hyps. Qed.
Print Assumptions C09_hypotheses_satisfiable.
