(* C05 (Spread family) — the numpy engine and the numba kernels of
   pylops.Spread are the same linear map, for EVERY index table (any NaN
   pattern, any indices), every interpolation-weight table, all sizes and all
   inputs; both equal the documented scatter / gather formulas; forward and
   adjoint form an adjoint pair on well-formed tables (C01); both are linear
   (C02).  Models and proofs: Ops/SpreadOp.v (code-shaped: numpy loop order
   `for it: for ix0:` with NaN mask and buffered fancy `+=`, numba loop order
   `for ix0: for it: for i:` with scalar `+=`).  T = table (None = NaN) or
   fh (on-the-fly), D = dtable. *)
From Coq Require Import QArith Qcanon.
From PV Require Import Mat QcInst GaussQc Check SpreadOp.
Local Open Scope nat_scope.

(* (b) engine equivalence — the C05 claim for Spread *)
Theorem C05_spread_engines_forward :
  forall (R : CRing) nx0 nt0 nx nt interp (T : nat -> nat -> nat -> option nat) (D : nat -> nat -> nat -> R) u,
    spread_matvec_numpy R nx0 nt0 nx nt interp T D u = spread_matvec_numba R nx0 nt0 nx nt interp T D u.
Proof. exact spread_matvec_engines. Qed.
Print Assumptions C05_spread_engines_forward.

Theorem C05_spread_engines_adjoint :
  forall (R : CRing) nx0 nt0 nx nt interp (T : nat -> nat -> nat -> option nat) (D : nat -> nat -> nat -> R) v,
    spread_rmatvec_numpy R nx0 nt0 nx nt interp T D v = spread_rmatvec_numba R nx0 nt0 nx nt interp T D v.
Proof. exact spread_rmatvec_engines. Qed.
Print Assumptions C05_spread_engines_adjoint.

(* the same on the reshaped (2-D) views, for any accessor of the input *)
Theorem C05_spread_engines_forward_2d :
  forall (R : CRing) nx0 nt0 nx nt interp T (D : nat -> nat -> nat -> R) xg,
    spread_numpy_fwd R nx0 nt0 nx nt interp T D xg = spread_numba_fwd R nx0 nt0 nx nt interp T D xg.
Proof. exact spread_engines_fwd. Qed.
Print Assumptions C05_spread_engines_forward_2d.
Theorem C05_spread_engines_adjoint_2d :
  forall (R : CRing) nx0 nt0 nx interp T (D : nat -> nat -> nat -> R) yg,
    spread_numpy_adj R nx0 nt0 nx interp T D yg = spread_numba_adj R nx0 nt0 nx interp T D yg.
Proof. exact spread_engines_adj. Qed.
Print Assumptions C05_spread_engines_adjoint_2d.

(* (d) documented formulas.  Without interpolation
     data[ix, table[ix0, it0, ix]] += model[ix0, it0]
   i.e. entry (ix, j) collects the model samples whose table entry is j. *)
Theorem C05_spread_forward_formula_nointerp :
  forall (R : CRing) nx0 nt0 nx nt T (D : nat -> nat -> nat -> R) xg ix j, ix < nx -> j < nt ->
    get R (spread_numpy_fwd R nx0 nt0 nx nt false T D xg) ix j =
    sumf R (seq 0 nx0) (fun ix0 => sumf R (seq 0 nt0) (fun it =>
      match T ix0 it ix with Some k => if Nat.eqb j k then xg ix0 it else r0 R | None => r0 R end)).
Proof. intros R nx0 nt0 nx nt T D xg ix j. exact (spread_fwd_entry_nointerp R nx0 nt0 nx nt false T D xg ix j eq_refl). Qed.
Print Assumptions C05_spread_forward_formula_nointerp.
(* with interpolation: weights (1 - d) on index and d on index + 1 *)
Theorem C05_spread_forward_formula_interp :
  forall (R : CRing) nx0 nt0 nx nt T (D : nat -> nat -> nat -> R) xg ix j, ix < nx -> j < nt ->
    get R (spread_numpy_fwd R nx0 nt0 nx nt true T D xg) ix j =
    sumf R (seq 0 nx0) (fun ix0 => sumf R (seq 0 nt0) (fun it =>
      match T ix0 it ix with
      | Some k => radd R (if Nat.eqb j k then rmul R (rsub R (r1 R) (D ix0 it ix)) (xg ix0 it) else r0 R)
                         (if Nat.eqb j (S k) then rmul R (D ix0 it ix) (xg ix0 it) else r0 R)
      | None => r0 R end)).
Proof. intros R nx0 nt0 nx nt T D xg ix j. exact (spread_fwd_entry_interp R nx0 nt0 nx nt true T D xg ix j eq_refl). Qed.
Print Assumptions C05_spread_forward_formula_interp.
(* adjoint: m(x0, t0) = sum_x d(x, f(x0, x, t0)) (two-point weights with interp) *)
Theorem C05_spread_adjoint_formula :
  forall (R : CRing) nx0 nt0 nx interp T (D : nat -> nat -> nat -> R) yg ix0 it, ix0 < nx0 -> it < nt0 ->
    get R (spread_numpy_adj R nx0 nt0 nx interp T D yg) ix0 it =
    sumf R (seq 0 nx) (fun ix => gterm R interp T D yg ix0 it ix).
Proof. exact spread_adj_entry. Qed.
Print Assumptions C05_spread_adjoint_formula.

(* (a) adjoint pair, both engines; wf_tab = documented contract of the class
   (indices < nt, or < nt - 1 with interpolation) *)
Theorem C05_spread_adjoint_pair_numpy :
  forall (R : CRing) nx0 nt0 nx nt interp T (D : nat -> nat -> nat -> R) u v,
    wf_tab nx0 nt0 nx nt interp T -> length u = nx0 * nt0 -> length v = nx * nt ->
    dotu R (spread_matvec_numpy R nx0 nt0 nx nt interp T D u) v =
    dotu R u (spread_rmatvec_numpy R nx0 nt0 nx nt interp T D v).
Proof. exact spread_adjoint_pair_numpy. Qed.
Print Assumptions C05_spread_adjoint_pair_numpy.
Theorem C05_spread_adjoint_pair_numba :
  forall (R : CRing) nx0 nt0 nx nt interp T (D : nat -> nat -> nat -> R) u v,
    wf_tab nx0 nt0 nx nt interp T -> length u = nx0 * nt0 -> length v = nx * nt ->
    dotu R (spread_matvec_numba R nx0 nt0 nx nt interp T D u) v =
    dotu R u (spread_rmatvec_numba R nx0 nt0 nx nt interp T D v).
Proof. exact spread_adjoint_pair_numba. Qed.
Print Assumptions C05_spread_adjoint_pair_numba.
(* the same with the conjugate-linear inner product (complex data, real
   interpolation weights): the gather is the ADJOINT of the scatter *)
Theorem C05_spread_adjoint_pair_sesquilinear :
  forall (K : StarRing) nx0 nt0 nx nt interp T (D : nat -> nat -> nat -> K),
    (forall a b c, conj K (D a b c) = D a b c) -> forall u v,
    wf_tab nx0 nt0 nx nt interp T -> length u = nx0 * nt0 -> length v = nx * nt ->
    dot K (spread_matvec_numpy K nx0 nt0 nx nt interp T D u) v =
    dot K u (spread_rmatvec_numpy K nx0 nt0 nx nt interp T D v).
Proof. exact spread_adjoint_pair_dot. Qed.
Print Assumptions C05_spread_adjoint_pair_sesquilinear.
Theorem C05_spread_wf_checker_sound :
  forall nx0 nt0 nx nt interp T, wf_tabb nx0 nt0 nx nt interp T = true -> wf_tab nx0 nt0 nx nt interp T.
Proof. exact wf_tabb_sound. Qed.
Print Assumptions C05_spread_wf_checker_sound.

(* (c) linearity *)
Theorem C05_spread_matvec_linear :
  forall (R : CRing) nx0 nt0 nx nt interp T (D : nat -> nat -> nat -> R) a b u w, length u = length w ->
    spread_matvec_numpy R nx0 nt0 nx nt interp T D (vadd R (vscale R a u) (vscale R b w)) =
    vadd R (vscale R a (spread_matvec_numpy R nx0 nt0 nx nt interp T D u))
           (vscale R b (spread_matvec_numpy R nx0 nt0 nx nt interp T D w)).
Proof. exact spread_matvec_linear. Qed.
Print Assumptions C05_spread_matvec_linear.
Theorem C05_spread_rmatvec_linear :
  forall (R : CRing) nx0 nt0 nx nt interp T (D : nat -> nat -> nat -> R) a b v w, length v = length w ->
    spread_rmatvec_numpy R nx0 nt0 nx nt interp T D (vadd R (vscale R a v) (vscale R b w)) =
    vadd R (vscale R a (spread_rmatvec_numpy R nx0 nt0 nx nt interp T D v))
           (vscale R b (spread_rmatvec_numpy R nx0 nt0 nx nt interp T D w)).
Proof. exact spread_rmatvec_linear. Qed.
Print Assumptions C05_spread_rmatvec_linear.

(* ---- non-vacuity: a concrete table, dims (2,2) -> dimsd (2,3), with a NaN
   entry, two model samples landing on one data sample, interpolation. *)
Definition ex_tbl : list (list (list (option nat))) :=
  [[[Some 0; Some 1]; [Some 1; None]]; [[Some 1; Some 0]; [Some 0; Some 1]]]%nat.
Definition ex_dtbl : list (list (list Qc)) :=
  [[[q 1 4; z0]; [q 1 2; z0]]; [[q 3 4; q 1 4]; [z0; q 1 2]]].
Example C05_spread_example_wf :
  wf_tab 2 2 2 3 true (tabT ex_tbl) /\ wf_tab 2 2 2 3 false (tabT ex_tbl).
Proof. split; apply wf_tabb_sound; vm_compute; reflexivity. Qed.
Example C05_spread_example_values :      (* vclose z0 = exact equality of rationals, decided *)
  let u := [qz 1; qz 2; qz 3; qz 4] in let v := [qz 1; qz (-1); qz 2; qz 3; z0; qz 5] in
  vclose z0 (spread_matvec_numpy QcR 2 2 2 3 false (tabT ex_tbl) (tabD QcR ex_dtbl) u) [qz 5; qz 5; z0; qz 3; qz 5; z0] = true /\
  vclose z0 (spread_matvec_numba QcR 2 2 2 3 true (tabT ex_tbl) (tabD QcR ex_dtbl) u) [q 19 4; qz 2; q 13 4; q 9 4; q 15 4; qz 2] = true /\
  vclose z0 (spread_rmatvec_numpy QcR 2 2 2 3 true (tabT ex_tbl) (tabD QcR ex_dtbl) v) [q 1 2; q 1 2; q 7 2; q 7 2] = true /\
  close z0 (dotu QcR (spread_matvec_numpy QcR 2 2 2 3 true (tabT ex_tbl) (tabD QcR ex_dtbl) u) v) (qz 26) = true /\
  close z0 (dotu QcR u (spread_rmatvec_numba QcR 2 2 2 3 true (tabT ex_tbl) (tabD QcR ex_dtbl) v)) (qz 26) = true.
Proof. vm_compute. repeat split; reflexivity. Qed.   (* expected values = output of pylops.Spread on this table, both engines *)
Example C05_spread_example_real_weights : forall a b c, conj QcS (tabD QcS ex_dtbl a b c) = tabD QcS ex_dtbl a b c.
Proof. intros; reflexivity. Qed.
(* the well-formedness hypothesis of the adjoint pair is needed: an entry
   equal to nt is dropped by the forward model but read (from the next row of
   the flat buffer, like the numba kernel) by the adjoint. *)
Example C05_spread_wf_needed :
  let T := tabT [[[Some 2; None]]]%nat in let D := tabD QcR [] in
  wf_tabb 1 1 2 2 false T = false /\
  dotu QcR (spread_matvec_numba QcR 1 1 2 2 false T D [qz 1]) [z0; z0; qz 1; z0] <>
  dotu QcR [qz 1] (spread_rmatvec_numba QcR 1 1 2 2 false T D [z0; z0; qz 1; z0]).
Proof. split; [vm_compute; reflexivity | vm_compute; discriminate]. Qed.
