(* C19 — autodiff wrappers differentiate to the adjoint. *)
From Coq Require Import QArith Qcanon List Arith.
From PV Require Import Mat QcInst Check Autodiff.
Import ListNotations.
Local Open Scope nat_scope.

(* ---- (i) gradient of 0.5||A x - y||^2 and vector-Jacobian product ---- *)
(* 2x the expansion, no division: the t-linear coefficient, i.e. the
   directional derivative along every d, is <d, A^T (A x - y)> *)
Theorem C19_grad_sq_expand :
  forall (R : CRing) n (A : list (list R)) (x d y : list R) (t : R),
    wfM R n A -> length x = n -> length d = n -> length y = length A ->
    nrm2 R (vsub R (mv R A (vadd R x (vscale R t d))) y) =
    radd R (radd R (nrm2 R (vsub R (mv R A x) y))
                   (rmul R (rmul R (radd R (r1 R) (r1 R)) t) (dotu R d (mvT R n A (vsub R (mv R A x) y)))))
           (rmul R (rmul R t t) (nrm2 R (mv R A d))).
Proof. exact grad_sq_expand. Qed.
Print Assumptions C19_grad_sq_expand.

(* with the factor 1/2 (any h with h + h = 1) *)
Theorem C19_grad_half_sq :
  forall (R : CRing) n (A : list (list R)) (x d y : list R) (t h : R), radd R h h = r1 R ->
    wfM R n A -> length x = n -> length d = n -> length y = length A ->
    rmul R h (nrm2 R (vsub R (mv R A (vadd R x (vscale R t d))) y)) =
    radd R (radd R (rmul R h (nrm2 R (vsub R (mv R A x) y)))
                   (rmul R t (dotu R d (mvT R n A (vsub R (mv R A x) y)))))
           (rmul R (rmul R t t) (rmul R h (nrm2 R (mv R A d)))).
Proof. exact grad_half_sq. Qed.
Print Assumptions C19_grad_half_sq.
Example C19_grad_half_sq_example :
  let A : list (list QcR) := [[qz 1; qz 2]; [qz 0; qz 3]; [qz (-1); qz 1]] in
  let h : QcR := q 1 2 in let x := [qz 1; qz (-2)] in let d := [qz 3; qz 1] in let y := [qz 1; qz 1; qz 4] in
  radd QcR h h = r1 QcR /\ wfM QcR 2 A /\
  map this (mvT QcR 2 A (vsub QcR (mv QcR A x) y)) = [3 # 1; (-36) # 1]%Q /\
  this (dotu QcR d (mvT QcR 2 A (vsub QcR (mv QcR A x) y))) = ((-27) # 1)%Q.
Proof. split; [apply Qc_is_canon; reflexivity | split; [repeat constructor | split; vm_compute; reflexivity]]. Qed.

Theorem C19_vjp_is_adjoint :
  forall (R : CRing) n (A : list (list R)) (g d : list R),
    wfM R n A -> length d = n -> length g = length A ->
    dotu R g (mv R A d) = dotu R (mvT R n A g) d.
Proof. exact vjp_is_adjoint. Qed.
Print Assumptions C19_vjp_is_adjoint.

(* the gradient is the only vector with these directional derivatives *)
Theorem C19_grad_unique :
  forall (R : CRing) n (g1 g2 : list R), length g1 = n -> length g2 = n ->
    (forall d, length d = n -> dotu R d g1 = dotu R d g2) -> g1 = g2.
Proof. exact grad_unique. Qed.
Print Assumptions C19_grad_unique.

(* ---- (ii) TorchOperator layout ---- *)
Theorem C19_transp_inverse_shape :
  forall k sh, length sh = k -> perm_list (roll_p1 k) (perm_list (roll_m1 k) sh) = sh.
Proof. exact transp_inverse_shape. Qed.
Print Assumptions C19_transp_inverse_shape.

Theorem C19_transp_inverse :
  forall (T : Type) (d0 : T) k (a : nd T), length (shp a) = k -> k <> 0 -> length (dat a) = prod (shp a) ->
    match np_transpose T d0 (roll_m1 k) a with Some a1 => np_transpose T d0 (roll_p1 k) a1 | None => None end = Some a.
Proof. exact transp_inverse. Qed.
Print Assumptions C19_transp_inverse.
Example C19_transp_example :
  roll_m1 3 = [1; 2; 0] /\ roll_p1 3 = [2; 0; 1] /\
  np_transpose nat 0 (roll_m1 3) (mk_nd [2; 3; 2] (seq 0 12)) = Some (mk_nd [3; 2; 2] [0; 6; 1; 7; 2; 8; 3; 9; 4; 10; 5; 11]).
Proof. repeat split; vm_compute; reflexivity. Qed.

(* batch=True, flatten=True: out[b, :] = f(in[b, :]) (f = matvec of Op, or of
   Op.H in the backward pass) for ALL ranks of dims / dimsd.  _partial: the
   degenerate coincidence dims = (N, B) (dims = (N,1) with a batch of ONE) is
   excluded: there LinearOperator.dot takes the (N,B) operand for one
   dims-shaped model and the result has the wrong shape. *)
Theorem C19_batch_rows_partial :
  forall (T : Type) (d0 : T) (f : list T -> list T) (M : nat), (forall v, length (f v) = M) ->
  forall dims dimsd B N X,
    prod dims = N -> prod dimsd = M -> dims <> [N; B] -> length X = B * N ->
    torch_batched T d0 f M true dims dimsd (mk_nd [B; N] X) = Some (mk_nd [B; M] (concat (map f (rows T B N X)))).
Proof. exact batch_rows. Qed.
Print Assumptions C19_batch_rows_partial.

(* batch=True, flatten=False, ALL ranks: out[b, ...] = reshape(f(ravel in[b, ...])) *)
Theorem C19_batch_nd :
  forall (T : Type) (d0 : T) (f : list T -> list T) (M : nat), (forall v, length (f v) = M) ->
  forall dims dimsd B X,
    dims <> [] -> prod dimsd = M -> length X = B * prod dims ->
    torch_batched T d0 f M false dims dimsd (mk_nd (B :: dims) X)
    = Some (mk_nd (B :: dimsd) (concat (map f (rows T B (prod dims) X)))).
Proof. exact batch_nd. Qed.
Print Assumptions C19_batch_nd.
Example C19_batch_example :   (* f = multiplication by [[1 2 3];[0 1 0]], dims = (3,), dimsd = (2,), batch of 2 *)
  let A : list (list QcR) := [[qz 1; qz 2; qz 3]; [qz 0; qz 1; qz 0]] in
  option_map (fun a => (shp a, map this (dat a)))
    (torch_batched Qc z0 (mv QcR A) 2 true [3] [2] (mk_nd [2; 3] [qz 1; qz 0; qz 1; qz 2; qz 5; qz 0]))
  = Some ([2; 2], [4 # 1; 0 # 1; 12 # 1; 5 # 1]%Q).
Proof. vm_compute; reflexivity. Qed.
(* ranks differ: Sum(dims=(3,2), axis=0), batch of 2, forward (both flatten values)
   and backward (Op.H : (2,) -> (3,2)) all produce values *)
Example C19_batch_rank_example :
  let A : list (list QcR) := [[qz 1; qz 0; qz 1; qz 0; qz 1; qz 0]; [qz 0; qz 1; qz 0; qz 1; qz 0; qz 1]] in
  let X := map qz [1; 2; 3; 4; 5; 6; 7; 8; 9; 10; 11; 12]%Z in let G := map qz [1; 2; 3; 4]%Z in
  let show := option_map (fun a : nd Qc => (shp a, map this (dat a))) in
  show (torch_batched Qc z0 (mv QcR A) 2 false [3; 2] [2] (mk_nd [2; 3; 2] X)) = Some ([2; 2], [9 # 1; 12 # 1; 27 # 1; 30 # 1]%Q) /\
  show (torch_batched Qc z0 (mvT QcR 6 A) 6 false [2] [3; 2] (mk_nd [2; 2] G))
    = Some ([2; 3; 2], [1 # 1; 2 # 1; 1 # 1; 2 # 1; 1 # 1; 2 # 1; 3 # 1; 4 # 1; 3 # 1; 4 # 1; 3 # 1; 4 # 1]%Q) /\
  show (torch_batched Qc z0 (mvT QcR 6 A) 6 true [2] [3; 2] (mk_nd [2; 2] G))
    = Some ([2; 6], [1 # 1; 2 # 1; 1 # 1; 2 # 1; 1 # 1; 2 # 1; 3 # 1; 4 # 1; 3 # 1; 4 # 1; 3 # 1; 4 # 1]%Q).
Proof. repeat split; vm_compute; reflexivity. Qed.

(* batch=False: dims-shaped input and dimsd-shaped cotangent are reshaped; the gradient has the input's shape *)
Theorem C19_nonbatch_nd :
  forall (T : Type) (d0 : T) (f fH : list T -> list T) (M N : nat) dims dimsd x g, prod dims = N ->
    lop_dot T d0 f M dims dimsd (mk_nd dims x) = Some (mk_nd dimsd (f x)) /\
    grad_reshape T dims (lop_dot T d0 fH N dimsd dims (mk_nd dimsd g)) = Some (mk_nd dims (fH g)).
Proof. exact nonbatch_nd. Qed.
Print Assumptions C19_nonbatch_nd.
(* batch=False, flat input on an operator with N-d dims: flat value ... *)
Theorem C19_flat_forward :
  forall (T : Type) (d0 : T) (f : list T -> list T) (M N : nat) dims dimsd x, prod dims = N -> 1 < length dims ->
    lop_dot T d0 f M dims dimsd (mk_nd [N] x) = Some (mk_nd [M] (f x)).
Proof. exact flat_forward. Qed.
Print Assumptions C19_flat_forward.
(* ... and the gradient of a flat cotangent comes back with the input's shape (N,), whatever the ranks *)
Theorem C19_flat_backward_input_shape :
  forall (T : Type) (d0 : T) (fH : list T -> list T) (M N : nat) dims dimsd g, prod dims = N -> prod dimsd = M ->
    grad_reshape T [N] (lop_dot T d0 fH N dimsd dims (mk_nd [M] g)) = Some (mk_nd [N] (fH g)).
Proof. exact flat_backward_input_shape. Qed.
Print Assumptions C19_flat_backward_input_shape.

(* ---- (iii) JaxOperator.rmatvecad's shape test: accepts exactly (N,) and (N,1) ---- *)
Theorem C19_jax_check_exact :
  forall N xshape, jax_check_accepts N xshape = true <-> jax_valid_primal N xshape.
Proof. exact jax_check_exact. Qed.
Print Assumptions C19_jax_check_exact.
Example C19_jax_check_example : jax_check_accepts 2 [2] = true /\ jax_check_accepts 2 [3] = false.
Proof. split; reflexivity. Qed.

(* ---- (iv) PyTensorOperator.grad: Op.H applied to the output gradient, shaped like the input ---- *)
Theorem C19_pytensor_grad :
  forall (R : CRing) n (A : list (list R)) (g d : list R),
    wfM R n A -> length d = n -> length g = length A ->
    length (pytensor_grad R n A g) = n /\ dotu R g (mv R A d) = dotu R (pytensor_grad R n A g) d.
Proof. intros; split; [apply pytensor_grad_length; auto | apply vjp_is_adjoint; auto]. Qed.
Print Assumptions C19_pytensor_grad.

(* PyTensorOperator's forward Op and the gradient Op it builds belong to different
   classes, so PyTensor's graph merge can never identify Op(v) with Op^H(v) *)
Theorem C19_pytensor_forward_gradient_distinct :
  forall (R : Type) dims dimsd id idH (A AH : list (list R)),
    pt_eqb (pt_wrap dims dimsd id A) (pt_gradient_op dims dimsd idH AH) = false.
Proof. exact @pt_forward_gradient_distinct. Qed.
Print Assumptions C19_pytensor_forward_gradient_distinct.
(* __props__ includes the wrapped operator (compared by identity): wrappers of
   different operators are different Ops, whatever their dims/dimsd/shape ... *)
Theorem C19_pytensor_different_operators_distinct :
  forall (R : Type) (a b : pt_op R), pt_obj a <> pt_obj b -> pt_eqb a b = false.
Proof. exact @pt_different_operators_distinct. Qed.
Print Assumptions C19_pytensor_different_operators_distinct.
(* ... so Ops that compare equal (and may be merged) compute the same map *)
Theorem C19_pytensor_equal_ops_same_operator :
  forall (R : Type) (heap : nat -> list (list R)) (a b : pt_op R),
    pt_mat a = heap (pt_obj a) -> pt_mat b = heap (pt_obj b) -> pt_eqb a b = true -> pt_mat a = pt_mat b.
Proof. exact @pt_equal_ops_same_operator. Qed.
Print Assumptions C19_pytensor_equal_ops_same_operator.
Example C19_pytensor_identity_example :   (* same dims/dimsd/shape, two operator objects; and one object wrapped twice *)
  pt_eqb (pt_wrap [2] [2] 1 [[1; 2]; [3; 4]]) (pt_wrap [2] [2] 2 [[0; 1]; [5; 2]]) = false /\
  pt_eqb (pt_wrap [2] [2] 1 [[1; 2]; [3; 4]]) (pt_wrap [2] [2] 1 [[1; 2]; [3; 4]]) = true.
Proof. split; reflexivity. Qed.
