(* C20 — explicit and matrix-free seismic modelling paths agree.
   Final statements only (proofs in Ops/Seismic.v).  R is ANY commutative ring, [half] any
   element (0.5 in the code), wavelets / AVO tables / models arbitrary lists over R.
   NOT CLAIMED: the last clause of the property (akirichards/fatti/ps tend to the exact Zoeppritz
   coefficient as contrasts tend to zero) — a limit statement on Snell-coupled trigonometric
   expressions with no exact executable model; the check only reports a numerical sanity figure.
   NOT MODELLED in Coq: MDC (FFT is an oracle); it is checked against an independent numpy
   frequency-by-frequency reference by the correspondence only. *)
From Coq Require Import QArith Qcanon List Lia.
From PV Require Import Dict Vec Dot Mat QcInst Check Seismic CheckC20.
Import ListNotations.
Local Open Scope nat_scope.

(* which slice of the full Toeplitz matrix convmtx keeps: C[i,j] = h[i+offset-j] *)
Theorem C20_convmtx_entry : forall (R : CRing) (h : list R) n off i j,
  1 <= length h -> off < length h -> i < length h + n - 1 -> j < n ->
  ent R (convmtx_model R h n off) i j = tap R h (i + off) j.
Proof. exact convmtx_entry. Qed.
Print Assumptions C20_convmtx_entry.

(* Toeplitz-times-vector = 'same' convolution centred on nh//2, for odd AND even lengths *)
Theorem C20_convmtx_is_convolve1d : forall (R : CRing) (w z : list R),
  1 <= length w -> 1 <= length z -> mv R (Cmat R w (length z)) z = conv_same R w (length w / 2) z.
Proof. exact Cmat_mv_conv. Qed.
Print Assumptions C20_convmtx_is_convolve1d.

(* the dense D assembled by poststack.py / prestack.py (boundary rows as coded) = FirstDerivative stencil *)
Theorem C20_dense_D_is_stencil : forall (R : CRing) (half : R) kd (x : list R),
  mv R (D_coded R half kd (length x)) x = deriv R half kd x.
Proof. exact D_mv_deriv. Qed.
Print Assumptions C20_dense_D_is_stencil.

(* POST-STACK, stationary: for EVERY wavelet (length >= 1, odd/even, any taps), nt0 >= 1, kind, model *)
Theorem C20_poststack_explicit_eq_lop : forall (R : CRing) (half : R) (w : list R) kd (x : list R),
  1 <= length w -> 1 <= length x ->
  mv R (post_explicit R half w (length x) kd) x = post_lop R half w kd x.
Proof. exact poststack_explicit_eq_lop. Qed.
Print Assumptions C20_poststack_explicit_eq_lop.
Example C20_poststack_nonvacuous :
  let w := [qz 1; qz (-2); qz 3; qz 4] in let x := [qz 1; qz 5; qz (-2); qz 7; qz 3] in
  mv QcR (post_explicit QcR qhalf w 5 Forward) x = post_lop QcR qhalf w Forward x /\
  post_lop QcR qhalf w Forward x = [qz 35; qz (-27); qz 7; qz 24; qz (-16)] (* = output of the real PoststackLinearModelling on this input *).
Proof. vm_compute. split; reflexivity. Qed.

(* ... and with any number of spatial columns (MatrixMult(otherdims) vs dims (nt0,)+spatdims) *)
Theorem C20_poststack_spat_eq : forall (R : CRing) (half : R) (w : list R) kd ncol nt0 (x : list R),
  1 <= length w -> 1 <= nt0 ->
  along0 R ncol nt0 nt0 (mv R (post_explicit R half w nt0 kd)) x = along0 R ncol nt0 nt0 (post_lop R half w kd) x.
Proof. exact poststack_spat_eq. Qed.
Print Assumptions C20_poststack_spat_eq.

(* With Convolve1D's DISPATCH modelled (filter longer than the model -> _Convolve1Dlong, output of the
   filter's size) the statement "for every wavelet" is FALSE of the code; it holds for nh <= nt0. *)
Theorem C20_poststack_coded_eq_partial : forall (R : CRing) (half : R) (w : list R) kd (x : list R),
  1 <= length w -> length w <= length x ->
  mv R (post_explicit R half w (length x) kd) x = post_lop_coded R half w kd x.
Proof. exact poststack_coded_eq_partial. Qed.
Print Assumptions C20_poststack_coded_eq_partial.
Theorem C20_poststack_every_wavelet_refuted : exists (w x : list Qc) kd,
  1 <= length w /\ 1 <= length x /\
  mv QcR (post_explicit QcR qhalf w (length x) kd) x <> post_lop_coded QcR qhalf w kd x.
Proof. exists [qz 1; qz 1; qz 1; qz 1; qz 1; qz 1], [qz 1; qz 2; qz 3; qz 4; qz 5], Centered.
  split; [simpl; lia|]. split; [simpl; lia|]. intros H. apply (f_equal (@length Qc)) in H. vm_compute in H. discriminate. Qed.
Print Assumptions C20_poststack_every_wavelet_refuted.

(* POST-STACK, non-stationary: both paths use the same dense C; for EVERY well-formed C *)
Theorem C20_poststack_nonstat_eq : forall (R : CRing) (half : R) (C : list (list R)) kd ncol nt0 (x : list R),
  wfM R nt0 C ->
  along0 R ncol nt0 nt0 (mv R (mm R nt0 C (D_coded R half kd nt0))) x =
  along0 R ncol nt0 nt0 (fun z => mv R C (deriv R half kd z)) x.
Proof. exact poststack_nonstat_spat_eq. Qed.
Print Assumptions C20_poststack_nonstat_eq.
Example C20_nonstat_nonvacuous : wfM QcR 3 (nsconvmtx_model QcR [[qz 1; qz 2; qz 3]; [qz 4; qz 5; qz 6]; [qz 7; qz 8; qz 9]] 3 1).
Proof. apply mkmat_wf. Qed.

(* PRE-STACK building blocks: block_diag acts blockwise; the layout rearrangement is a bijection *)
Theorem C20_block_diag_blockwise : forall (R : CRing) n (M : list (list R)) k (xs : list (list R)),
  wfM R n M -> length xs = k -> Forall (fun x => length x = n) xs ->
  mv R (bdiag R n (repeat M k)) (concat xs) = concat (map (mv R M) xs).
Proof. exact mv_bdiag_repeat. Qed.
Print Assumptions C20_block_diag_blockwise.
Theorem C20_rearrangement_bijection : forall n np ns i, i < n * np * ns ->
  perm_tm2pm n np ns i < np * n * ns /\ perm_tm2pm np n ns (perm_tm2pm n np ns i) = i.
Proof. exact perm_bijection. Qed.
Print Assumptions C20_rearrangement_bijection.

(* EXPLICIT PRE-STACK MATRIX (block_diag(C) . Gbig . block_diag(D), assembled as coded) acts on the
   parameter-major model (npar traces ms) as the per-angle chain
   Convolve1D( sum_k G_k[theta] . FirstDerivative(m_k) ): every wavelet, kind, table set, ntheta, npar, nt0 *)
Theorem C20_prestack_explicit_is_chain_blockwise : forall (R : CRing) (half : R) (w : list R) n kd (G : list (list (list R))) ntheta (ms : list (list R)),
  1 <= length w -> 1 <= n -> length ms = length G -> Forall (fun m => length m = n) ms ->
  mv R (pre_explicit R half w n kd G ntheta) (concat ms) =
  concat (map (fun th => conv_same R w (length w / 2) (map (avo_row R G th (map (deriv R half kd) ms)) (seq 0 n))) (seq 0 ntheta)).
Proof. exact prestack_explicit_blockwise. Qed.
Print Assumptions C20_prestack_explicit_is_chain_blockwise.

(* PRE-STACK, PARTIAL: the two index formulas agree entrywise — the chain conv o AVO o deriv applied to
   any model m(t',k) equals the sum over (k,t') of  E[(th,t),(k,t')] = sum_s C[t,s] G_k[th][s] D[s,t'].
   MISSING for the full statement "explicit == matrix-free up to the rearrangement, for all sizes": that the
   flat time-major chain pre_lop (along0 / avo_flat index arithmetic) is the transposed-layout image of the
   per-angle chain proved above for the explicit matrix; that last link is only EXECUTED
   (code 5 of CheckC20.check_pre, exact equality over Qc, every generated configuration). *)
Theorem C20_prestack_entry_agree_partial : forall (R : CRing) (half : R) (w : list R) kd (G : list (list (list R))) n m t th,
  pre_chain_fn R half w kd G n m t th =
  bsum R (length G) (fun k => bsum R n (fun t' => rmul R (pre_entry R half w kd G n th t k t') (m t' k))).
Proof. exact prestack_entry_agree. Qed.
Print Assumptions C20_prestack_entry_agree_partial.
Example C20_prestack_models_agree :
  let w := [qz 1; qz 2; qz (-1)] in
  let G := [[[qz 1; qz 2; qz 3; qz 4]; [qz 2; qz 0; qz 1; qz 5]]; [[qz 3; qz 1; qz 4; qz 1]; [qz 5; qz 9; qz 2; qz 6]];
            [[qz 5; qz 3; qz 5; qz 8]; [qz 9; qz 7; qz 9; qz 3]]] in
  let cE := cols_of (3 * 4 * 2) (pre_explicit_apply QcR qhalf w Centered G 4 2 2) in
  let cL := cols_of (4 * 3 * 2) (pre_lop QcR qhalf w Centered G 4 2 2) in
  meqb cL (rearrange 4 3 2 2 cE) = true /\ existsb (existsb (fun a => negb (Qc_eq_bool a 0%Qc))) cL = true.
Proof. vm_compute. split; reflexivity. Qed.

(* ====================================================================================== *)
(* Fredholm1 and MDC (Ops/Fredholm.v, Ops/MDCOp.v).  A 3-d array is a list of row-major slices;
   tdot is the Frobenius pairing (= dot of the C-order flattenings, C20_fredholm_pairing_is_flat_dot). *)
From PV Require Import Axis DFT DFTEngines Fredholm MDCOp CheckC20b GaussQc GaussField.

(* usematmul=False (loop of np.dot with in-place set) computes the same array as np.matmul: all sizes *)
Theorem C20_fredholm_forward_paths_equal : forall (S : StarRing) nx nz (G X : list (list (list S))),
  length X = length G -> fr_fwd_loop S nx nz G X = fr_fwd_matmul S nz G X.
Proof. exact fr_fwd_paths_equal. Qed.
Print Assumptions C20_fredholm_forward_paths_equal.

(* the four adjoint paths (saveGt True/False x usematmul True/False) are equal: (x^H G)^H = G^H x *)
Theorem C20_fredholm_adjoint_paths_equal : forall (S : StarRing) nx ny nz (G Y : list (list (list S))),
  length Y = length G -> wfT S nx ny G -> wfT S nx nz Y ->
  fr_adj_saved_loop S ny nz G Y = fr_adj_saved_matmul S ny nz G Y /\
  fr_adj_fly_matmul S ny nz G Y = fr_adj_saved_matmul S ny nz G Y /\
  fr_adj_fly_loop S ny nz G Y = fr_adj_saved_matmul S ny nz G Y.
Proof. exact fr_adj_paths_equal. Qed.
Print Assumptions C20_fredholm_adjoint_paths_equal.

(* adjoint pair for every kernel and all sizes *)
Theorem C20_fredholm_adjoint_pair : forall (S : StarRing) nx ny nz (G X Y : list (list (list S))),
  length X = length G -> length Y = length G -> wfT S nx ny G -> wfT S ny nz X -> wfT S nx nz Y ->
  tdot S (fr_fwd_matmul S nz G X) Y = tdot S X (fr_adj_saved_matmul S ny nz G Y).
Proof. exact fredholm_adjoint. Qed.
Print Assumptions C20_fredholm_adjoint_pair.
Theorem C20_fredholm_pairing_is_flat_dot : forall (S : StarRing) r c (A B : list (list (list S))),
  length A = length B -> wfT S r c A -> wfT S r c B -> dot S (flat3 S A) (flat3 S B) = tdot S A B.
Proof. exact tdot_flat. Qed.
Print Assumptions C20_fredholm_pairing_is_flat_dot.
Example C20_fredholm_nonvacuous :
  let G := [[[gz 1 2; gz 0 (-1)]; [gz 3 0; gz 1 1]; [gz (-2) 1; gz 0 0]]; [[gz 1 0; gz 2 2]; [gz 0 1; gz 1 (-3)]; [gz 4 0; gz 1 1]]] in
  let Y := [[[gz 1 0]; [gz 0 2]; [gz 1 1]]; [[gz 2 0]; [gz 1 (-1)]; [gz 0 3]]] in
  wfT GS 3 2 G /\ wfT GS 3 1 Y /\ fr_adj_fly_loop GS 2 1 G Y = fr_adj_saved_matmul GS 2 1 G Y /\
  fr_adj_saved_matmul GS 2 1 G Y <> [[[g0]; [g0]]; [[g0]; [g0]]].
Proof. repeat split; try (repeat constructor; fail); try (vm_compute; reflexivity). vm_compute. discriminate. Qed.

(* linearity *)
Theorem C20_fredholm_linear : forall (S : StarRing) ny nz a (G X X' : list (list (list S))),
  length X = length X' -> wfT S ny nz X -> wfT S ny nz X' ->
  fr_fwd_matmul S nz G (tadd S X X') = tadd S (fr_fwd_matmul S nz G X) (fr_fwd_matmul S nz G X') /\
  fr_fwd_matmul S nz G (tscale S a X) = tscale S a (fr_fwd_matmul S nz G X).
Proof. intros. split; [apply (fredholm_additive S ny nz); auto | apply fredholm_homogeneous]. Qed.
Print Assumptions C20_fredholm_linear.

(* the 1-D real FFT pair used by MDC (norm ortho, nfft = nt, ifftshift_before = tw) is an adjoint pair for the
   real inner product: Re <F x, y> = <x, F^H y> for real x.  No law on the root of unity is needed.
   (s2*s2 = 2 has no exact instance among the executable rings; it is met in the real numbers — as in C08.) *)
Theorem C20_mdc_fft_mixed_adjoint : forall (F : FieldS) (w : F) (N : nat) (s2 sq : F),
  rmul F s2 s2 = radd F (r1 F) (r1 F) -> conj F s2 = s2 -> radd F (r1 F) (r1 F) <> r0 F -> of_nat F N <> r0 F -> conj F sq = sq ->
  forall tw, MixedAdj F N (N / 2 + 1) (F1d F w N s2 sq tw) (F1dH F w N s2 sq tw).
Proof. exact rfft1_mixed_adjoint. Qed.
Print Assumptions C20_mdc_fft_mixed_adjoint.

(* MDC = F1^H . I1^H . Fredholm1 . I . F: the adjoint of the chain is the chain of the adjoints in reverse
   order, for all sizes, one-/two-sided, every kernel actually given to Fredholm1 (scaled / conjugated) *)
Theorem C20_mdc_adjoint_pair : forall (F : FieldS) (w : F) (N : nat) (s2 sq : F),
  rmul F s2 s2 = radd F (r1 F) (r1 F) -> conj F s2 = s2 -> radd F (r1 F) (r1 F) <> r0 F -> of_nat F N <> r0 F -> conj F sq = sq ->
  forall ns nr nv nfmax tw (Gk : list (list (list F))) x z,
  wfT F ns nr Gk -> length Gk = nfmax -> nfmax <= N / 2 + 1 ->
  vconj F x = x -> vconj F z = z -> length x = N * (nr * nv) -> length z = N * (ns * nv) ->
  dotu F (mdc_fwd F w N s2 sq ns nr nv nfmax tw true Gk x) z = dotu F x (mdc_adj F w N s2 sq ns nr nv nfmax tw true true Gk z).
Proof. exact mdc_adjoint. Qed.
Print Assumptions C20_mdc_adjoint_pair.

(* usematmul / saveGt variants of MDC are equal maps (forward and adjoint) *)
Theorem C20_mdc_variants_equal : forall (F : FieldS) (w : F) (N : nat) (s2 sq : F) ns nr nv nfmax tw um sg (Gk : list (list (list F))) x z,
  wfT F ns nr Gk -> length Gk = nfmax -> nfmax <= N / 2 + 1 -> length x = N * (nr * nv) -> length z = N * (ns * nv) ->
  mdc_fwd F w N s2 sq ns nr nv nfmax tw false Gk x = mdc_fwd F w N s2 sq ns nr nv nfmax tw true Gk x /\
  mdc_adj F w N s2 sq ns nr nv nfmax tw um sg Gk z = mdc_adj F w N s2 sq ns nr nv nfmax tw true true Gk z.
Proof. intros. split; [apply mdc_fwd_variants; auto | apply mdc_adj_variants; auto]. Qed.
Print Assumptions C20_mdc_variants_equal.

(* conj=True (Frop.conj() = conj . Frop . conj) is Fredholm1 with the conjugated kernel *)
Theorem C20_mdc_conj_is_conjugated_kernel : forall (F : FieldS) nv ny (G X : list (list (list F))),
  wfT F ny nv X -> tconj F (fr_fwd_matmul F nv G (tconj F X)) = fr_fwd_matmul F nv (tconj F G) X.
Proof. exact fr_conj_kernel. Qed.
Print Assumptions C20_mdc_conj_is_conjugated_kernel.

(* a computed instance of the adjoint identity (nt = 4: w = -i, 1/sqrt 4 = 1/2 exact; sqrt 2 cancels in the
   chain, any non-zero value gives the same map), non-trivial values on both sides *)
Example C20_mdc_instance :
  let G := [[[gz 1 2; gz 0 (-1)]; [gz 3 0; gz 1 1]]; [[gz 1 0; gz 2 2]; [gz 0 1; gz 1 (-3)]]; [[gz 2 0; gz 0 1]; [gz 1 1]; [gz 0 0]]] in
  let x := map gre [qz 1; qz 2; qz 0; qz (-1); qz 3; qz 1; qz 2; qz (-2)] in
  let z := map gre [qz 2; qz 0; qz 1; qz 1; qz (-1); qz 3; qz 0; qz 2] in
  let fw := mdc_fwd GF (gz 0 (-1)) 4 (gz 3 0) (gsc 549755813888 0) 2 2 1 2 false true (firstn 2 G) in
  let ad := mdc_adj GF (gz 0 (-1)) 4 (gz 3 0) (gsc 549755813888 0) 2 2 1 2 false false false (firstn 2 G) in
  dotu GF (fw x) z = dotu GF x (ad z) /\ dotu GF (fw x) z <> g0.
Proof. vm_compute. split; [reflexivity | discriminate]. Qed.
