(* C06 — parallel kernels are schedule-independent (race-free).
   Model: State/Par.v (shared memory, iteration bodies of accumulate /
   assign statements, each accumulate = two atomic events read ; write,
   threads = concatenated bodies, schedule = any partition of the iterations
   into threads + any interleaving). *)
From Coq Require Import List Arith Permutation QArith Qcanon.
From PV Require Import Dict QcInst Check Par.
Import ListNotations.

(* Disjoint write/update footprints => EVERY partition of the iterations into
   any number of threads and EVERY interleaving gives the sequential result. *)
Theorem C06_disjoint_footprints_deterministic :
  forall (R : CRing) (bodies : list (list (op R))),
    (forall i j a, i <> j -> In a (fp R (body R bodies i)) -> In a (fp R (body R bodies j)) -> False) ->
    forall (P : list (list nat)) (tr : list (nat * ev R)),
      Permutation (concat P) (seq 0 (length bodies)) ->
      interleave (map (thread_prog R bodies) P) tr ->
      forall m a, exec_sched R tr m a = exec_seq R bodies m a.
Proof. exact deterministic_spelled_out. Qed.
Print Assumptions C06_disjoint_footprints_deterministic.

(* the sequential result is the plain for loop  for i: for op in body i: apply op *)
Theorem C06_sequential_is_the_for_loop :
  forall (R : CRing) (bodies : list (list (op R))) m,
    exec_seq R bodies m = run_loop R bodies (seq 0 (length bodies)) m.
Proof. exact exec_seq_is_loop. Qed.
Print Assumptions C06_sequential_is_the_for_loop.

(* mechanism "the parallel loop variable is the leading index of every written element" *)
Theorem C06_leading_index_disjoint :
  forall (R : CRing) (bodies : list (list (op R))) (row : nat -> nat),
    (forall i a, In a (fp R (body R bodies i)) -> row a = i) ->
    forall i j a, i <> j -> In a (fp R (body R bodies i)) -> In a (fp R (body R bodies j)) -> False.
Proof. exact leading_index_disjoint. Qed.
Print Assumptions C06_leading_index_disjoint.

(* soundness of the executable check run on the MEASURED footprints *)
Theorem C06_footprints_disjointb_sound :
  forall fps, footprints_disjointb fps = true ->
    forall i j a, i <> j -> In a (nth i fps []) -> In a (nth j fps []) -> False.
Proof. exact footprints_disjointb_sound. Qed.
Print Assumptions C06_footprints_disjointb_sound.

Theorem C06_checked_footprints_schedule_independent :
  forall (R : CRing) (bodies : list (list (op R))),
    footprints_disjointb (map (fp R) bodies) = true ->
    forall P tr, schedule R bodies P tr -> forall m a, exec_sched R tr m a = exec_seq R bodies m a.
Proof. exact checked_footprints_schedule_independent. Qed.
Print Assumptions C06_checked_footprints_schedule_independent.

Theorem C06_rows_owned_schedule_independent :
  forall (R : CRing) (bodies : list (list (op R))) row,
    rows_ownedb row (map (fp R) bodies) = true ->
    forall P tr, schedule R bodies P tr -> forall m a, exec_sched R tr m a = exec_seq R bodies m a.
Proof. exact rows_owned_schedule_independent. Qed.
Print Assumptions C06_rows_owned_schedule_independent.

(* Overlap => a schedule with a lost update exists (the reason the scatter
   y[window] += ... under prange is wrong). *)
Theorem C06_overlap_lost_update :
  forall (R : CRing) (bodies : list (list (op R))) i j a d,
    i <> j -> (i < length bodies)%nat -> (j < length bodies)%nat ->
    (forall k, asg_free R a (body R bodies k)) ->
    In (Acc R a d) (body R bodies i) -> delta_on R a (body R bodies j) <> r0 R ->
    exists P tr, schedule R bodies P tr /\ forall m, exec_sched R tr m a <> exec_seq R bodies m a.
Proof. exact overlap_lost_update. Qed.
Print Assumptions C06_overlap_lost_update.

(* multi-process stacks: the slot list does not depend on completion order *)
Theorem C06_starmap_order_independent :
  forall (A : Type) n order1 order2 (f : nat -> A) slots,
    Permutation order1 (seq 0 n) -> Permutation order2 (seq 0 n) ->
    map (gather A order1 f slots) (seq 0 n) = map (gather A order2 f slots) (seq 0 n) /\
    map (gather A order1 f slots) (seq 0 n) = map f (seq 0 n).
Proof. exact starmap_order_independent. Qed.
Print Assumptions C06_starmap_order_independent.

(* ---- non-vacuity: a gather loop over 3 rows of width 2 (iteration i does
   y[2i] = .., y[2i+1] += .. twice), run by 2 threads {0,2} and {1},
   genuinely interleaved. *)
Definition ex_bodies : list (list (op QcR)) :=
  [ [Asg QcR 0 (qz 3); Acc QcR 1 (qz 1); Acc QcR 1 (qz 2)];
    [Asg QcR 2 (qz 5); Acc QcR 3 (qz 1); Acc QcR 3 (qz 1)];
    [Asg QcR 4 (qz 7); Acc QcR 5 (qz 4); Acc QcR 5 (qz 4)] ].
Definition ex_P : list (list nat) := [[0; 2]; [1]]%nat.
Definition ex_tr : list (nat * ev QcR) :=
  [(0, St QcR 0 (qz 3)); (1, St QcR 2 (qz 5)); (0, Rd QcR 1); (1, Rd QcR 3); (1, Wr QcR 3 (qz 1));
   (0, Wr QcR 1 (qz 1)); (0, Rd QcR 1); (1, Rd QcR 3); (0, Wr QcR 1 (qz 2)); (2, St QcR 4 (qz 7));
   (2, Rd QcR 5); (1, Wr QcR 3 (qz 1)); (2, Wr QcR 5 (qz 4)); (2, Rd QcR 5); (2, Wr QcR 5 (qz 4))]%nat.

Example C06_ex_hyps_satisfiable :
  footprints_disjointb (map (fp QcR) ex_bodies) = true /\
  rows_ownedb (fun a => Nat.div a 2) (map (fp QcR) ex_bodies) = true /\
  schedule QcR ex_bodies ex_P ex_tr.
Proof.
  split; [vm_compute; reflexivity|]. split; [vm_compute; reflexivity|].
  split.
  - unfold partition, ex_P. cbn. apply perm_skip, perm_swap.
  - unfold ex_P, ex_tr. cbn. econstructor.
    + econstructor; [constructor | apply merge_nil_r].
    + repeat (first [apply merge_nil | apply merge_l | apply merge_r]).
Qed.

Example C06_ex_schedule_agrees :
  map (exec_sched QcR ex_tr (fun _ => (qz 1))) (seq 0 7) = map (exec_seq QcR ex_bodies (fun _ => (qz 1))) (seq 0 7)
  /\ map (exec_seq QcR ex_bodies (fun _ => (qz 1))) (seq 0 7) = [qz 3; qz 4; qz 5; qz 3; qz 7; qz 9; qz 1].
Proof. split; vm_compute; reflexivity. Qed.

(* ---- the scatter y[window] += x[i] with windows {i, i+1}: iterations 0 and
   1 both update cell 1; hypotheses of C06_overlap_lost_update hold, and the
   concrete schedule "0 reads y[1]; 1 runs; 0 writes y[1]" loses one update. *)
Definition sc_bodies : list (list (op QcR)) :=
  [ [Acc QcR 0 (qz 1); Acc QcR 1 (qz 1)]; [Acc QcR 1 (qz 1); Acc QcR 2 (qz 1)] ].
Definition sc_tr : list (nat * ev QcR) :=
  [(0, Rd QcR 0); (0, Wr QcR 0 (qz 1)); (0, Rd QcR 1);
   (1, Rd QcR 1); (1, Wr QcR 1 (qz 1)); (1, Rd QcR 2); (1, Wr QcR 2 (qz 1));
   (0, Wr QcR 1 (qz 1))]%nat.

Example C06_scatter_hyps_satisfiable :
  footprints_disjointb (map (fp QcR) sc_bodies) = false /\
  (forall k, asg_free QcR 1 (body QcR sc_bodies k)) /\
  In (Acc QcR 1 (qz 1)) (body QcR sc_bodies 0) /\ delta_on QcR 1 (body QcR sc_bodies 1) <> r0 QcR.
Proof.
  split; [vm_compute; reflexivity|]. split.
  - intros k v H. destruct k as [|[|k]]; cbn in H; [| |destruct k; cbn in H]; intuition discriminate.
  - split; [cbn; auto|]. vm_compute. discriminate.
Qed.

Example C06_scatter_lost_update_refuted :
  exists P tr, schedule QcR sc_bodies P tr /\
    exec_sched QcR tr (fun _ => (qz 0)) 1%nat <> exec_seq QcR sc_bodies (fun _ => (qz 0)) 1%nat.
Proof.
  exists [[0]; [1]]%nat, sc_tr. split.
  - split; [unfold partition; cbn; reflexivity|].
    unfold sc_tr. cbn. econstructor.
    + econstructor; [constructor | apply merge_nil_r].
    + repeat (first [apply merge_nil | apply merge_l | apply merge_r]).
  - vm_compute. discriminate.
Qed.
