(* C16 — MemoizeOperator is transparent.
   memo2 = run2/call2/init2/store2 : THE CURRENT CODE of
   pylops/basicoperators/memoizeoperator.py (direction-tagged store entries,
   copies returned).  All theorems of the first part are about it and hold for
   EVERY history (calls in both directions, caller mutations Mut k w of arrays
   returned earlier), every wrapped operator op and every max_neval >= 1.
   close stored query : abstract; only reflexivity is assumed where needed.
   Module Legacy documents the code BEFORE the fix (memo1 = run/call/init/store:
   one store, stored arrays returned without copy), of which the property is
   false. *)
From Coq Require Import List Arith ZArith.
From PV Require Import Dict Memoize.
Import ListNotations.

(* ================= the current code (memo2) ================= *)
(* every call returns Op_d x' for some x' with close x' x (x' = x on a miss), the store
   never exceeds max_neval, neval = number of misses, every entry (d,a,b) has b = Op_d a *)
Theorem C16_memo_transparent :
  forall (V : Type) (op : dir -> V -> V) (close : V -> V -> bool),
    (forall v, close v v = true) ->
    forall (h : list (hop V)) (m : nat), 1 <= m ->
      Forall2 (fun (c : dir * V) (o : obs V) =>
                 (exists x', close x' (snd c) = true /\ o_res o = op (fst c) x' /\
                             (o_hit o = false -> x' = snd c)) /\ o_len o <= m)
              (calls h) (fst (run2 V op close h (init2 V m))) /\
      length (store2 V (snd (run2 V op close h (init2 V m)))) <= m /\
      neval2 V (snd (run2 V op close h (init2 V m))) = misses (fst (run2 V op close h (init2 V m))) /\
      Forall (fun e => eb V e = op (ed V e) (ea V e)) (store2 V (snd (run2 V op close h (init2 V m)))).
Proof. exact memo_transparent. Qed.
Print Assumptions C16_memo_transparent.

(* the hypothesis is met by the executed closeness predicates (numpy's allclose, rtol 1e-5, atol 1e-8) *)
Example C16_close_refl_real : forall v, allclose_q v v = true.
Proof. exact allclose_q_refl. Qed.
Example C16_close_refl_complex : forall v, allclose_g v v = true.
Proof. exact allclose_g_refl. Qed.
(* ... and the predicate is not trivially true *)
Example C16_close_discriminates :
  allclose_q [qi 1; qi 2] [qi 1; qi 3] = false /\
  allclose_g [(qi 1, qi 2)] [(qi 1, qi 3)] = false /\
  allclose_q [Qcanon.Q2Qc (QArith_base.Qmake 1000000001%Z 1000000000%positive)] [qi 1] = true.
Proof. vm_compute. repeat split; reflexivity. Qed.

(* at most one evaluation per stored input: while (d, a, _) is stored, a call in
   direction d on any input close to a (in particular a) is a hit that leaves the
   whole state, hence neval, unchanged *)
Theorem C16_memo_no_reevaluation :
  forall (V : Type) (op : dir -> V -> V) (close : V -> V -> bool) d v (s : st2 V) (e : entry2 V),
    In e (store2 V s) -> ed V e = d -> close (ea V e) v = true ->
    fst (fst (call2 V op close d v s)) = s /\ snd (call2 V op close d v s) = true.
Proof. exact memo2_no_reevaluation. Qed.
Print Assumptions C16_memo_no_reevaluation.

(* a call is a hit exactly when an entry of the SAME direction with a close input is stored *)
Theorem C16_memo_hit_iff :
  forall (V : Type) (op : dir -> V -> V) (close : V -> V -> bool) d v (s : st2 V),
    snd (call2 V op close d v s) = true <->
    exists e, In e (store2 V s) /\ ed V e = d /\ close (ea V e) v = true.
Proof. exact call2_hit_iff. Qed.
Print Assumptions C16_memo_hit_iff.

(* store bound, after the history and after every call in it (no hypothesis on close) *)
Theorem C16_memo_store_bounded :
  forall (V : Type) (op : dir -> V -> V) (close : V -> V -> bool) (h : list (hop V)) (m : nat),
    1 <= m ->
    length (store2 V (snd (run2 V op close h (init2 V m)))) <= m /\
    Forall (fun o => o_len o <= m) (fst (run2 V op close h (init2 V m))).
Proof. exact memo2_store_bounded. Qed.
Print Assumptions C16_memo_store_bounded.

Theorem C16_memo_neval_counts_misses :
  forall (V : Type) (op : dir -> V -> V) (close : V -> V -> bool) (h : list (hop V)) (m : nat),
    neval2 V (snd (run2 V op close h (init2 V m))) = misses (fst (run2 V op close h (init2 V m))).
Proof. exact memo2_neval_counts_misses. Qed.
Print Assumptions C16_memo_neval_counts_misses.

(* whatever the caller writes into arrays returned earlier (Mut) or into its own arrays
   that it passed as inputs and passes again as the same objects (MutIn) is invisible:
   the run of a history is the run of its calls alone *)
Theorem C16_memo_mutation_invisible :
  forall (V : Type) (op : dir -> V -> V) (close : V -> V -> bool) (h : list (hop V)) (s : st2 V),
    run2 V op close h s = run2 V op close (map (fun c => Call (fst c) (snd c)) (calls h)) s.
Proof. exact memo2_mutation_invisible. Qed.
Print Assumptions C16_memo_mutation_invisible.

(* the two histories that refuted the pre-fix code are transparent (executed over Qc,
   A = [[1,2],[3,4],[0,1]], not unitary) *)
Example C16_memo_mixed_ok :
  map o_res (fst (run2 _ (opQ 2 A32) allclose_q [Call Adj y3; Call Fwd (opQ 2 A32 Adj y3)] (init2 _ 3)))
  = [[qi 7; qi 13]; [qi 33; qi 73; qi 13]].
Proof. exact memo2_mixed_ok. Qed.
Example C16_memo_alias_ok :
  map o_res (fst (run2 _ (opQ 2 A32) allclose_q
     [Call Fwd x2; Call Fwd x2; Mut 1 [qi 103; qi 107; qi 101]; Call Fwd x2] (init2 _ 3)))
  = [[qi 3; qi 7; qi 1]; [qi 3; qi 7; qi 1]; [qi 3; qi 7; qi 1]].
Proof. exact memo2_alias_ok. Qed.

(* caller rewrites, in place, an array it passed as input and passes it again: a miss, fresh result *)
Example C16_memo_inkey_ok :
  map (fun o => (o_res o, o_neval o)) (fst (run2 _ (opQ 2 A32) allclose_q
     [Call Fwd x2; MutIn 0 [qi 2; qi 5]; Call Fwd [qi 2; qi 5]] (init2 _ 3)))
  = [([qi 3; qi 7; qi 1], 1); ([qi 12; qi 26; qi 5], 2)].
Proof. exact memo2_inkey_ok. Qed.
(* square operator: the same vector as model and as data is evaluated once per direction *)
Example C16_memo_square_ok :
  map (fun o => (o_res o, o_neval o)) (fst (run2 _ (opQ 2 A22) allclose_q
     [Call Fwd x2; Call Adj x2; Call Fwd x2] (init2 _ 3)))
  = [([qi 3; qi 7], 1); ([qi 4; qi 6], 2); ([qi 3; qi 7], 2)].
Proof. exact memo2_square_ok. Qed.

(* ================= LEGACY: the code before the fix (memo1) =================
   Not statements about the current implementation.  They document why the fix
   was needed and define the behaviour whose reappearance the check reports as
   a violation. *)
Module Legacy.

Theorem C16_legacy_store_bounded :
  forall (V : Type) (op : dir -> V -> V) (close : V -> V -> bool) (h : list (hop V)) (m : nat),
    1 <= m ->
    length (store V (snd (run V op close h (init V m) []))) <= m /\
    Forall (fun o => o_len o <= m) (fst (run V op close h (init V m) [])).
Proof. exact memo_store_bounded. Qed.
Print Assumptions C16_legacy_store_bounded.

Theorem C16_legacy_neval_counts_misses :
  forall (V : Type) (op : dir -> V -> V) (close : V -> V -> bool) (h : list (hop V)) (m : nat),
    neval V (snd (run V op close h (init V m) [])) = misses (fst (run V op close h (init V m) [])).
Proof. exact memo_neval_counts_misses. Qed.
Print Assumptions C16_legacy_neval_counts_misses.

Theorem C16_legacy_miss_iff :
  forall (V : Type) (op : dir -> V -> V) (close : V -> V -> bool) d v (s : st V),
    snd (call V op close d v s) = None <-> (forall e, In e (store V s) -> close (key V d e) v = false).
Proof. exact call_miss_iff. Qed.
Print Assumptions C16_legacy_miss_iff.

(* partial: the old code was transparent only on histories using ONE direction and
   containing no caller mutation *)
Theorem C16_legacy_single_direction_partial :
  forall (V : Type) (op : dir -> V -> V) (close : V -> V -> bool),
    (forall v, close v v = true) ->
    forall (d0 : dir) (vs : list V) (m : nat),
      Forall2 (fun v o => exists x', close x' v = true /\ o_res o = op d0 x' /\ (o_hit o = false -> x' = v))
              vs (fst (run V op close (map (Call d0) vs) (init V m) [])).
Proof. exact memo_single_direction. Qed.
Print Assumptions C16_legacy_single_direction_partial.

(* old defect 1, for EVERY wrapped operator and every max_neval: after rmatvec y, the
   call matvec (Op^H y) returned y itself without evaluating Op *)
Theorem C16_legacy_mixed_returns_y :
  forall (V : Type) (op : dir -> V -> V) (close : V -> V -> bool),
    (forall v, close v v = true) ->
    forall (y : V) (m : nat),
      map (fun o => (o_res o, o_neval o))
          (fst (run V op close [Call Adj y; Call Fwd (op Adj y)] (init V m) []))
      = [(op Adj y, 1); (y, 1)].
Proof. exact memo_mixed_returns_y. Qed.
Print Assumptions C16_legacy_mixed_returns_y.

(* old defect 2: a caller overwriting the array returned by a hit decided what later
   calls returned *)
Theorem C16_legacy_alias_returns_w :
  forall (V : Type) (op : dir -> V -> V) (close : V -> V -> bool),
    (forall v, close v v = true) ->
    forall (x w : V) (m : nat),
      map o_res (fst (run V op close [Call Fwd x; Call Fwd x; Mut 1 w; Call Fwd x] (init V m) []))
      = [op Fwd x; op Fwd x; w].
Proof. exact memo_alias_returns_w. Qed.
Print Assumptions C16_legacy_alias_returns_w.

(* concrete refutations of transparency for the old code over Qc *)
Theorem C16_legacy_mixed_refuted :
  exists (n : nat) (A : list (list Qcanon.Qc)) (m : nat) (h : list (hop (list Qcanon.Qc))) (d : dir)
         (x r : list Qcanon.Qc),
    1 <= m /\ nth_error (calls h) 1 = Some (d, x) /\
    nth_error (map o_res (fst (run _ (opQ n A) allclose_q h (init _ m) []))) 1 = Some r /\
    opQ n A d x = [qi 33; qi 73; qi 13] /\ r = y3 /\
    allclose_q r (opQ n A d x) = false /\ allclose_q (opQ n A d x) r = false.
Proof. exact memo_mixed_refuted. Qed.
Print Assumptions C16_legacy_mixed_refuted.

Theorem C16_legacy_alias_refuted :
  exists (n : nat) (A : list (list Qcanon.Qc)) (m : nat) (h : list (hop (list Qcanon.Qc))) (d : dir)
         (x r : list Qcanon.Qc),
    1 <= m /\ nth_error (calls h) 2 = Some (d, x) /\
    nth_error (map o_res (fst (run _ (opQ n A) allclose_q h (init _ m) []))) 2 = Some r /\
    opQ n A d x = [qi 3; qi 7; qi 1] /\ r = [qi 103; qi 107; qi 101] /\
    allclose_q r (opQ n A d x) = false /\ allclose_q (opQ n A d x) r = false.
Proof. exact memo_alias_refuted. Qed.
Print Assumptions C16_legacy_alias_refuted.

End Legacy.
