(* C17 — dense, sparse and explicit views agree with the operator. *)
From Coq Require Import QArith Qcanon.
From PV Require Import MatT QcInst GaussQc Check.

(* tall/square path of todense(): the matrix whose columns are Op e_j *)
Theorem C17_dense_of_columns :
  forall (R : CRing) n (M : list (list R)), wfM R n M ->
    transpose R (length M) (cols_of R (mv R M) n) = M.
Proof. exact dense_of_columns. Qed.
Print Assumptions C17_dense_of_columns.

(* wide path of todense(): (Op.H @ I).conj().T — correct exactly because the
   adjoint is the conjugate transpose (C01) *)
Theorem C17_dense_of_adjoint_columns :
  forall (S : StarRing) n (M : list (list S)), wfM S n M ->
    mconj S (cols_of S (mv S (ctranspose S n M)) (length M)) = M.
Proof. exact dense_of_adjoint_columns. Qed.
Print Assumptions C17_dense_of_adjoint_columns.

Theorem C17_ctranspose_involutive :
  forall (S : StarRing) n (M : list (list S)), wfM S n M -> ctranspose S (length M) (ctranspose S n M) = M.
Proof. exact ctranspose_involutive. Qed.
Print Assumptions C17_ctranspose_involutive.

Example C17_example :
  let M : list (list QcR) := [[qz 1; qz 2; qz 3]; [qz 4; qz 5; qz 6]] in
  wfM QcR 3 M /\ transpose QcR 2 (cols_of QcR (mv QcR M) 3) = M.
Proof. split; [repeat constructor | vm_compute; reflexivity]. Qed.
