(* C15 — operators are pure: same input, same output, nothing else changes. *)
From PV Require Import Buffered.

(* One call of a buffered operator (input copied into the plan buffer, plan
   executed, COPY of the output buffer post-processed and returned): the
   result is a fresh array holding f(dir, input) and no caller-owned array
   is written. *)
Theorem C15_call_result :
  forall V prep plan post (s : st V) d src, 2 <= next V s -> 2 <= src < next V s ->
  let (s', r) := call V prep plan post true s d src in
  r = next V s /\ next V s' = S (next V s) /\ hp V s' r = f V prep plan post d (hp V s src) /\
  (forall l, 2 <= l -> l <> r -> hp V s' l = hp V s l).
Proof. exact call_result. Qed.
Print Assumptions C15_call_result.

(* For EVERY history of calls and caller writes: an array the caller holds
   (an input, or a result returned earlier) and did not itself overwrite
   still has its value at the end. *)
Theorem C15_results_persist :
  forall V prep plan post es (s : st V), 2 <= next V s -> hist_ok V (next V s) es ->
  forall l, 2 <= l < next V s -> ~ written V l es -> hp V (fst (run V prep plan post true s es)) l = hp V s l.
Proof. exact results_persist. Qed.
Print Assumptions C15_results_persist.

(* history independence: whatever happened before, a call returns f of its
   current input in a fresh array *)
Theorem C15_call_after_history :
  forall V prep plan post es (s : st V) d src, 2 <= next V s -> hist_ok V (next V s) es ->
  let s1 := fst (run V prep plan post true s es) in 2 <= src < next V s1 ->
  let (s', r) := call V prep plan post true s1 d src in hp V s' r = f V prep plan post d (hp V s1 src) /\ r = next V s1.
Proof. exact call_after_history. Qed.
Print Assumptions C15_call_after_history.

Theorem C15_input_intact :
  forall V prep plan post es (s : st V) d src, 2 <= next V s -> 2 <= src < next V s -> hist_ok V (S (next V s)) es ->
  ~ written V src es -> hp V (fst (run V prep plan post true s (Call V d src :: es))) src = hp V s src.
Proof. exact input_intact. Qed.
Print Assumptions C15_input_intact.

(* returning the plan's buffer without a copy is refuted: *)
Example C15_nocopy_refuted :
  let s0 := {| hp := fun l => if Nat.eqb l 2 then 5 else if Nat.eqb l 3 then 7 else 0; next := 4 |} in
  let id2 := fun (_ : bool) (x : nat) => x in
  let '(s1, r1) := call nat id2 (fun _ x => 2 * x) id2 false s0 true 2 in
  let v1 := hp nat s1 r1 in
  let '(s2, _) := call nat id2 (fun _ x => 2 * x) id2 false s1 true 3 in
  v1 = 10 /\ hp nat s2 r1 = 14.
Proof. exact nocopy_refuted. Qed.
