(* C01 — forward and adjoint satisfy the dot-test identity. *)
From PV Require Import Mat.

(* For EVERY matrix A (any ring with conjugation) and all u, v:
   <A u, v> = <u, A^H v>.  The per-configuration obligation evaluated by the
   check (B_impl = ctranspose A_impl) therefore gives the identity for all
   vectors at once. *)
Theorem C01_adjoint_of_matrix :
  forall (S : StarRing) n (A : list (list S)) u v,
    wfM S n A -> length u = n -> length v = length A ->
    dot S (mv S A u) v = dot S u (mvH S n A v).
Proof. exact dot_mv_mvH. Qed.
Print Assumptions C01_adjoint_of_matrix.
