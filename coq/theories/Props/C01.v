(* C01 — forward and adjoint satisfy the dot-test identity. *)
From Coq Require Import QArith Qcanon.
From PV Require Import MatT QcInst GaussQc Check OrdLemmas Tol.

(* For EVERY matrix A (any commutative ring with conjugation) and all u, v:
   <A u, v> = <u, A^H v>.  The per-configuration obligation evaluated by the
   check (B_impl = ctranspose A_impl) therefore gives the identity for all
   vectors at once. *)
Theorem C01_adjoint_of_matrix :
  forall (S : StarRing) n (A : list (list S)) u v,
    wfM S n A -> length u = n -> length v = length A ->
    dot S (mv S A u) v = dot S u (mv S (ctranspose S n A) v).
Proof. intros. rewrite <- mvH_as_mv by auto. apply dot_mv_mvH; auto. Qed.
Print Assumptions C01_adjoint_of_matrix.

(* Converse ("equivalently, ... equals the conjugate transpose entry by
   entry"): a map that passes the dot test against A for all u, v IS
   multiplication by the conjugate transpose. *)
Theorem C01_adjoint_unique :
  forall (S : StarRing) n m (A B : list (list S)),
    wfM S n A -> length A = m -> wfM S m B -> length B = n ->
    (forall u v, length u = n -> length v = m -> dot S (mv S A u) v = dot S u (mv S B v)) ->
    forall v, length v = m -> mv S B v = mv S (ctranspose S n A) v.
Proof. exact adjoint_unique. Qed.
Print Assumptions C01_adjoint_unique.

(* non-vacuity: a concrete complex 2x2 matrix and vectors *)
Example C01_example :
  let i : GS := (qz 0, qz 1) in let A : list (list GS) := [[i; (qz 2, qz 0)]; [(qz 0, qz 0); (qz 1, qz 1)]] in
  wfM GS 2 A /\ dot GS (mv GS A [i; (qz 1, qz 0)]) [(qz 1, qz 0); i] = dot GS [i; (qz 1, qz 0)] (mv GS (ctranspose GS 2 A) [(qz 1, qz 0); i]).
Proof. split; [repeat constructor | vm_compute; reflexivity]. Qed.

(* Meaning of the tolerance: if the extracted adjoint matrix B agrees with
   A^T entrywise within eps (what the check evaluates), the dot-test defect is
   bounded by eps |u|_1 |v|_1 for ALL u, v (real case, any ordered field). *)
Theorem C01_dot_defect_bound :
  forall (F : OrdField) n m (A B : list (list F)) eps u v,
    wfM F n A -> length A = m -> wfM F m B -> length B = n -> length u = n -> length v = m ->
    rle F (r0 F) eps -> Forall (Tol.bounded F eps) (Tol.msub F (transpose F n A) B) ->
    rle F (OrdLemmas.rabs F (rsub F (dotu F (mv F A u) v) (dotu F u (mv F B v))))
          (rmul F (rmul F eps (OrdLemmas.l1 F u)) (OrdLemmas.l1 F v)).
Proof. exact Tol.dot_defect_bound. Qed.
Print Assumptions C01_dot_defect_bound.
