(* C18 — dottest accepts exactly the adjoint pairs.
   Model: State/DotTest.v.  xx = vdot(u, B v), yy = vdot(A u, v) (A forward
   matrix, B the matrix of the adjoint, chosen independently);
   verdict = isclose(xx, yy, rtol, atol) = (|xx - yy| <= atol + rtol*|yy|).
   Real statements: any ordered field, boolean verdict.  Complex statements:
   Gaussian numbers over any ordered field, |z| characterised by
   0 <= m /\ m*m = re^2 + im^2 (no square-root function assumed). *)
From Coq Require Import QArith Qcanon.
From PV Require Import Mat QcInst DotTest.
Local Open Scope R_scope.

(* ---------- acceptance of every exact adjoint pair ---------- *)
Theorem C18_dottest_accepts_adjoint :
  forall (F : OrdField) n (A B : list (list F)) (u v : list F) (rtol atol : F),
    wfM F n A -> length u = n -> length v = length A -> B = ctranspose F n A ->
    rle F 0 rtol -> rle F 0 atol -> dottest_real F A B u v rtol atol = true.
Proof. exact dottest_accepts_adjoint_real. Qed.
Print Assumptions C18_dottest_accepts_adjoint.

(* complex operators and/or complex u, v (all four complexflags: u, v are arbitrary Gaussian vectors) *)
Theorem C18_dottest_accepts_adjoint_complex :
  forall (F : OrdField) n (A B : list (list (CPS F))) (u v : list (CPS F)) (rtol atol : F),
    wfM (CPS F) n A -> length u = n -> length v = length A -> B = ctranspose (CPS F) n A ->
    rle F 0 rtol -> rle F 0 atol ->
    forall D Y, isModC F (dt_xx (CPS F) B u v - dt_yy (CPS F) A u v) D -> isModC F (dt_yy (CPS F) A u v) Y ->
      rle F D (atol + rtol * Y).
Proof. exact dottest_accepts_adjoint_cplx. Qed.
Print Assumptions C18_dottest_accepts_adjoint_complex.

(* operators that are only R-linear (clinear = False): real matrix on re ++ im, real inner product *)
Theorem C18_dottest_accepts_adjoint_rlinear :
  forall (F : OrdField) (M N : list (list F)) nr nc (u v : list (F * F)) (rtol atol : F),
    wfM F (nc + nc) M -> length M = (nr + nr)%nat -> N = transpose F (nc + nc) M ->
    length u = nc -> length v = nr -> rle F 0 rtol -> rle F 0 atol ->
    dottest_rlin F M N nr nc u v rtol atol = true.
Proof. exact dottest_accepts_adjoint_rlin. Qed.
Print Assumptions C18_dottest_accepts_adjoint_rlinear.

(* ---------- rejection of mis-scaled adjoints ---------- *)
Theorem C18_dottest_rejects_scaled :
  forall (F : OrdField) n (A B : list (list F)) (u v : list F) (d rtol atol : F),
    wfM F n A -> length u = n -> length v = length A -> B = mscale F (1 + d) (ctranspose F n A) ->
    ~ rle F (fabs F d * fabs F (dt_yy F A u v)) (atol + rtol * fabs F (dt_yy F A u v)) ->
    dottest_real F A B u v rtol atol = false.
Proof. exact dottest_rejects_scaled_real. Qed.
Print Assumptions C18_dottest_rejects_scaled.

(* "for every d above the tolerance": atol = 0, <Au,v> <> 0, |d| > rtol *)
Theorem C18_dottest_rejects_scaled_relative :
  forall (F : OrdField) n (A B : list (list F)) (u v : list F) (d rtol : F),
    wfM F n A -> length u = n -> length v = length A -> B = mscale F (1 + d) (ctranspose F n A) ->
    dt_yy F A u v <> 0 -> ~ rle F (fabs F d) rtol ->
    dottest_real F A B u v rtol 0 = false.
Proof. exact dottest_rejects_scaled_rel_real. Qed.
Print Assumptions C18_dottest_rejects_scaled_relative.

Theorem C18_dottest_rejects_scaled_complex :
  forall (F : OrdField) n (A B : list (list (CPS F))) (u v : list (CPS F)) (d : CPS F) (dm Y rtol atol : F),
    wfM (CPS F) n A -> length u = n -> length v = length A -> B = mscale (CPS F) (1 + d) (ctranspose (CPS F) n A) ->
    isModC F d dm -> isModC F (dt_yy (CPS F) A u v) Y -> ~ rle F (dm * Y) (atol + rtol * Y) ->
    forall D Y', isModC F (dt_xx (CPS F) B u v - dt_yy (CPS F) A u v) D -> isModC F (dt_yy (CPS F) A u v) Y' ->
      ~ rle F D (atol + rtol * Y').
Proof. exact dottest_rejects_scaled_cplx. Qed.
Print Assumptions C18_dottest_rejects_scaled_complex.

Theorem C18_dottest_rejects_scaled_rlinear :
  forall (F : OrdField) (M N : list (list F)) nr nc (u v : list (F * F)) (d rtol atol : F),
    wfM F (nc + nc) M -> length M = (nr + nr)%nat -> N = mscale F (1 + d) (transpose F (nc + nc) M) ->
    length u = nc -> length v = nr ->
    ~ rle F (fabs F d * fabs F (rl_yy F M nr u v)) (atol + rtol * fabs F (rl_yy F M nr u v)) ->
    dottest_rlin F M N nr nc u v rtol atol = false.
Proof. exact dottest_rejects_scaled_rlin. Qed.
Print Assumptions C18_dottest_rejects_scaled_rlinear.

(* wrong sign B = -A^H *)
Theorem C18_dottest_rejects_sign :
  forall (F : OrdField) n (A B : list (list F)) (u v : list F) (rtol atol : F),
    wfM F n A -> length u = n -> length v = length A -> B = mscale F (- (1)) (ctranspose F n A) ->
    ~ rle F ((1 + 1) * fabs F (dt_yy F A u v)) (atol + rtol * fabs F (dt_yy F A u v)) ->
    dottest_real F A B u v rtol atol = false.
Proof. exact dottest_rejects_sign_real. Qed.
Print Assumptions C18_dottest_rejects_sign.

(* ANY candidate adjoint B (plain transpose of a complex A, wrong conjugation,
   single-entry errors, ...): the quantity compared with the tolerance is the
   defect u^H (B - A^H) v; real case as an iff on the boolean verdict *)
Theorem C18_dottest_defect :
  forall (F : OrdField) n (A B : list (list F)) (u v : list F) (rtol atol : F),
    wfM F n A -> length u = n -> length v = length A -> wfM F (length A) B -> length B = n ->
    (dottest_real F A B u v rtol atol = true <->
     rle F (fabs F (dot F u (mv F (msub F B (ctranspose F n A)) v))) (atol + rtol * fabs F (dt_yy F A u v))).
Proof. exact dottest_defect_real. Qed.
Print Assumptions C18_dottest_defect.

Theorem C18_dottest_defect_complex :
  forall (F : OrdField) n (A B : list (list (CPS F))) (u v : list (CPS F)),
    wfM (CPS F) n A -> length u = n -> length v = length A -> wfM (CPS F) (length A) B -> length B = n ->
    dt_xx (CPS F) B u v - dt_yy (CPS F) A u v = dot (CPS F) u (mv (CPS F) (msub (CPS F) B (ctranspose (CPS F) n A)) v).
Proof. exact dottest_defect_cplx. Qed.
Print Assumptions C18_dottest_defect_complex.

(* ---------- the verdict is the tolerance predicate on the drawn vectors ---------- *)
Theorem C18_verdict_is_predicate :
  forall (F : OrdField) (A B : list (list F)) (u v : list F) (rtol atol : F),
    dottest_real F A B u v rtol atol = true <->
    rle F (fabs F (dot F u (mv F B v) - dot F (mv F A u) v)) (atol + rtol * fabs F (dot F (mv F A u) v)).
Proof. exact verdict_is_predicate_real. Qed.
Print Assumptions C18_verdict_is_predicate.

Theorem C18_verdict_is_predicate_rlinear :
  forall (F : OrdField) (M N : list (list F)) nr nc (u v : list (F * F)) (rtol atol : F),
    dottest_rlin F M N nr nc u v rtol atol = true <->
    rle F (fabs F (rl_xx F N nc u v - rl_yy F M nr u v)) (atol + rtol * fabs F (rl_yy F M nr u v)).
Proof. exact verdict_is_predicate_rlin. Qed.
Print Assumptions C18_verdict_is_predicate_rlinear.

(* the executed three-valued evaluation (checked enclosures of the moduli, noise margin) is sound *)
Theorem C18_three_valued_sound :
  forall (F : OrdField) noise (A B : list (list (CPS F))) (u v : list (CPS F)) rtol atol eD eY,
    rle F 0 noise -> rle F 0 rtol ->
    (dottest3_cplx F noise A B u v rtol atol eD eY = VTrue -> dottest_cplx_passes F A B u v rtol atol) /\
    (dottest3_cplx F noise A B u v rtol atol eD eY = VFalse -> dottest_cplx_fails F A B u v rtol atol).
Proof. exact dottest3_cplx_sound. Qed.
Print Assumptions C18_three_valued_sound.

Theorem C18_three_valued_sound_real :
  forall (F : OrdField) noise rtol atol xx yy, rle F 0 noise -> rle F 0 rtol ->
    (decide3_real F noise rtol atol xx yy = VTrue -> isclose F rtol atol xx yy = true) /\
    (decide3_real F noise rtol atol xx yy = VFalse -> isclose F rtol atol xx yy = false).
Proof. exact decide3_real_sound. Qed.
Print Assumptions C18_three_valued_sound_real.

(* return value / AssertionError *)
Theorem C18_outcome_true : forall r p, outcome_of r p = RetTrue <-> p = true.
Proof. exact outcome_true. Qed.
Print Assumptions C18_outcome_true.
Theorem C18_outcome_false : forall r p, outcome_of r p = RetFalse <-> (p = false /\ r = false).
Proof. exact outcome_false. Qed.
Print Assumptions C18_outcome_false.
Theorem C18_outcome_raise : forall r p, outcome_of r p = RaiseAssert <-> (p = false /\ r = true).
Proof. exact outcome_raise. Qed.
Print Assumptions C18_outcome_raise.

(* ---------- the hypotheses are satisfiable by concrete non-trivial objects (Qc) ---------- *)
Local Open Scope Qc_scope.
Definition q_ (n : Z) (d : positive) : Qc := Q2Qc (n # d).
Definition exA : list (list Qc) := [[q_ 1 1; q_ 2 1; q_ (-3) 1]; [q_ 4 1; q_ 0 1; q_ 5 2]].
Definition exu : list Qc := [q_ 1 2; q_ (-7) 3; q_ 2 1].
Definition exv : list Qc := [q_ 3 1; q_ (-1) 4].
Definition exd : Qc := q_ 1 1000.
Definition exrtol : Qc := q_ 1 10000.
Definition exatol : Qc := q_ 1 1000000000.

Example C18_ex_accept : wfM QcO 3 exA /\ rleb QcO 0 exrtol = true /\
  dottest_real QcO exA (ctranspose QcO 3 exA) exu exv exrtol exatol = true /\ dt_yy QcO exA exu exv <> 0.
Proof. repeat split; try (repeat constructor); vm_compute; try reflexivity; discriminate. Qed.
Example C18_ex_reject_scaled :
  rleb QcO (fabs QcO exd * fabs QcO (dt_yy QcO exA exu exv)) (exatol + exrtol * fabs QcO (dt_yy QcO exA exu exv)) = false /\
  dottest_real QcO exA (mscale QcO (1 + exd) (ctranspose QcO 3 exA)) exu exv exrtol exatol = false /\
  rleb QcO (fabs QcO exd) exrtol = false.
Proof. vm_compute; repeat split; reflexivity. Qed.
Example C18_ex_reject_sign :
  dottest_real QcO exA (mscale QcO (- (1)) (ctranspose QcO 3 exA)) exu exv exrtol exatol = false.
Proof. vm_compute; reflexivity. Qed.

(* R-linear: z |-> conj z on C^1 as the real matrix diag(1,-1) plus a mixing row *)
Definition exM : list (list Qc) := [[q_ 1 1; q_ 2 1]; [q_ 3 1; q_ (-1) 1]].
Example C18_ex_rlin :
  dottest_rlin QcO exM (transpose QcO 2 exM) 1 1 [(q_ 1 2, q_ 3 1)] [(q_ 2 1, q_ (-5) 7)] exrtol exatol = true /\
  dottest_rlin QcO exM (mscale QcO (1 + exd) (transpose QcO 2 exM)) 1 1 [(q_ 1 2, q_ 3 1)] [(q_ 2 1, q_ (-5) 7)] exrtol exatol = false.
Proof. vm_compute; split; reflexivity. Qed.

(* complex: yy = 3 - 4i has the rational modulus 5; d = i has modulus 1 *)
Definition exAc : list (list (CPS QcO)) := [[(q_ 3 1, q_ 4 1); (q_ 1 1, q_ 1 1)]; [(q_ 0 1, q_ 2 1); (q_ 1 1, q_ 0 1)]].
Definition exuc : list (CPS QcO) := [(q_ 1 1, q_ 0 1); (q_ 0 1, q_ 0 1)].
Definition exvc : list (CPS QcO) := [(q_ 1 1, q_ 0 1); (q_ 0 1, q_ 0 1)].
Definition exdc : CPS QcO := (q_ 0 1, q_ 1 1).
Example C18_ex_complex_moduli :
  isModC QcO exdc (q_ 1 1) /\ isModC QcO (dt_yy (CPS QcO) exAc exuc exvc) (q_ 5 1) /\
  isModC QcO (rsub (CPS QcO) (dt_xx (CPS QcO) (mscale (CPS QcO) (radd (CPS QcO) (r1 (CPS QcO)) exdc) (ctranspose (CPS QcO) 2 exAc)) exuc exvc)
                             (dt_yy (CPS QcO) exAc exuc exvc)) (q_ 5 1) /\
  rleb QcO (q_ 1 1 * q_ 5 1) (exatol + q_ 1 2 * q_ 5 1) = false.
Proof. unfold isModC; repeat split; try (apply (proj1 (rleb_spec QcO _ _))); vm_compute; reflexivity. Qed.
Example C18_ex_three_valued :
  dottest3_cplx QcO (q_ 1 1000000) exAc (mscale (CPS QcO) (radd (CPS QcO) (r1 (CPS QcO)) exdc) (ctranspose (CPS QcO) 2 exAc)) exuc exvc
     (q_ 1 2) exatol (q_ 5 1, q_ 5 1) (q_ 49 10, q_ 51 10) = VFalse /\
  dottest3_cplx QcO (q_ 1 1000000) exAc (ctranspose (CPS QcO) 2 exAc) exuc exvc (q_ 1 2) exatol (q_ 0 1, q_ 0 1) (q_ 49 10, q_ 51 10) = VTrue /\
  dottest3_cplx QcO (q_ 1 1000000) exAc (mscale (CPS QcO) (radd (CPS QcO) (r1 (CPS QcO)) exdc) (ctranspose (CPS QcO) 2 exAc)) exuc exvc
     (q_ 1 1) (q_ 0 1) (q_ 5 1, q_ 5 1) (q_ 49 10, q_ 51 10) = VBorder.
Proof. vm_compute; repeat split; reflexivity. Qed.
