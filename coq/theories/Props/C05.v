(* C05 — alternative engines / implementations are equivalent. *)
From Coq Require Import QArith Qcanon.
From PV Require Import MatT QcInst Check.

(* Two variants whose extracted matrices are equal act identically on ALL
   inputs, forward and adjoint: the per-pair obligation evaluated by the
   check (A_1 ~ A_0, B_1 ~ B_0 entrywise) decides the property for every
   input at once. *)
Theorem C05_equal_matrices_equal_maps :
  forall (S : StarRing) n (A A' : list (list S)), A = A' ->
    (forall x, mv S A x = mv S A' x) /\ (forall y, mvH S n A y = mvH S n A' y).
Proof. intros S n A A' ->; split; reflexivity. Qed.
Print Assumptions C05_equal_matrices_equal_maps.

(* and conversely the matrix is determined by the map (so comparing matrices
   loses nothing): *)
Theorem C05_matrix_determined_by_map :
  forall (R : CRing) n (A A' : list (list R)), wfM R n A -> wfM R n A' -> length A = length A' ->
    (forall x, length x = n -> mv R A x = mv R A' x) -> A = A'.
Proof.
  intros R n A A' W W' L H.
  rewrite <- (dense_of_columns R n A W), <- (dense_of_columns R n A' W'), L.
  f_equal. unfold cols_of. apply map_ext. intros j. apply H. apply unit_length.
Qed.
Print Assumptions C05_matrix_determined_by_map.

Example C05_example : let A := [[qz 1; qz 2]; [qz 3; qz 4]] in
  wfM QcR 2 A /\ mv QcR A [qz 1; qz 1] = [qz 3; qz 7].
Proof. split; [repeat constructor | vm_compute; reflexivity]. Qed.
