(* C07 part (b) — index, convolution and interpolation operators compute the
   documented operation (C07), are linear (C02), and their coded adjoints are
   the adjoints (family-level theorems for C01); involutions/inverses for C08.
   All statements quantify over every ring, size and parameter value. *)
From Coq Require Import ZArith QArith Qcanon.
From PV Require Import Dict Vec Dot QcInst GaussQc Check IndexOps Conv InterpOps ConvND BilinearOp.
Close Scope Qc_scope. Close Scope Q_scope. Close Scope Z_scope. Open Scope nat_scope.
(* literals for the Examples *)
Definition ql (l : list Z) : list Qc := map qz l.
Definition gl (l : list (Z * Z)) : list G := map (fun p => (qz (fst p), qz (snd p))) l.

(* ---------------- Pad ---------------- *)
Theorem C07b_pad_meets_spec : forall (R : CRing) b a (x : list R) i,
  nth i (pad_fwd R b a x) (r0 R) = pad_spec R b (length x) i x.
Proof. exact pad_meets_spec. Qed.
Print Assumptions C07b_pad_meets_spec.
Theorem C07b_pad_adj_meets_spec : forall (R : CRing) b n (y : list R) i, i < n -> b + n <= length y ->
  nth i (pad_adj R b n y) (r0 R) = nth (b + i) y (r0 R).
Proof. exact pad_adj_meets_spec. Qed.
Print Assumptions C07b_pad_adj_meets_spec.
Theorem C01b_pad_adjoint : forall (S : StarRing) b a (x y : list S), length y = b + length x + a ->
  dot S (pad_fwd S b a x) y = dot S x (pad_adj S b (length x) y).
Proof. exact pad_adjoint_c. Qed.
Print Assumptions C01b_pad_adjoint.
Example C01b_pad_adjoint_nonvacuous :
  dot GS (pad_fwd GS 1 2 (gl [(1, 2); (3, -1)]%Z)) (gl [(1, 1); (2, 0); (0, 5); (7, 7); (1, 0)]%Z)
  = dot GS (gl [(1, 2); (3, -1)]%Z) (pad_adj GS 1 2 (gl [(1, 1); (2, 0); (0, 5); (7, 7); (1, 0)]%Z))
  /\ dot GS (pad_fwd GS 1 2 (gl [(1, 2); (3, -1)]%Z)) (gl [(1, 1); (2, 0); (0, 5); (7, 7); (1, 0)]%Z) <> g0.
Proof. split; [vm_compute; reflexivity | vm_compute; discriminate]. Qed.
Theorem C02b_pad_linear : forall (R : CRing) b a, Linear R (pad_fwd R b a).
Proof. exact pad_linear. Qed.
Print Assumptions C02b_pad_linear.
Theorem C08b_pad_adj_fwd : forall (R : CRing) b a (x : list R), pad_adj R b (length x) (pad_fwd R b a x) = x.
Proof. exact pad_adj_fwd. Qed.
Print Assumptions C08b_pad_adj_fwd.

(* ---------------- Restriction ---------------- *)
Theorem C07b_restr_meets_spec : forall (R : CRing) iava (x : list R) i, i < length iava ->
  nth i (restr_fwd R iava x) (r0 R) = restr_spec R iava i x.
Proof. exact restr_meets_spec. Qed.
Print Assumptions C07b_restr_meets_spec.
(* gather and scatter-ADD are transposes for every index list *)
Theorem C01b_restr_scatter_add_adjoint : forall (R : CRing) iava (x y : list R), length y = length iava ->
  dotu R (restr_fwd R iava x) y = dotu R x (scatter_add R (length x) iava y).
Proof. exact restr_scatter_add_adjoint. Qed.
Print Assumptions C01b_restr_scatter_add_adjoint.
(* the coded pair (np.take / np.add.at) is adjoint for EVERY index list *)
Theorem C01b_restr_adjoint : forall (S : StarRing) iava (x y : list S), length y = length iava ->
  dot S (restr_fwd S iava x) y = dot S x (restr_adj S (length x) iava y).
Proof. exact restr_adjoint_c. Qed.
Print Assumptions C01b_restr_adjoint.
Example C01b_restr_adjoint_nonvacuous :
  dotu QcR (restr_fwd QcR [1; 1; 3] (ql [1; 2; 3; 4; 5]%Z)) (ql [5; 6; 7]%Z) = qz (5 * 2 + 6 * 2 + 7 * 4) /\
  restr_adj QcR 5 [1; 1; 3] (ql [5; 6; 7]%Z) = ql [0; 11; 0; 7; 0]%Z.
Proof. split; vm_compute; reflexivity. Qed.
(* Legacy (before fix 1a499ab the adjoint assigned with put_along_axis): that
   model is NOT the adjoint when an index is repeated *)
Theorem C01b_restr_legacy_refuted : exists iava (x y : list QcR), length y = length iava /\
  dotu QcR (restr_fwd QcR iava x) y <> dotu QcR x (restr_adj_legacy QcR (length x) iava y).
Proof. exists [1; 1; 3], (ql [1; 1; 1; 1; 1]%Z), (ql [1; 1; 1]%Z). split; [reflexivity | vm_compute; discriminate]. Qed.
Print Assumptions C01b_restr_legacy_refuted.
Theorem C02b_restr_linear : forall (R : CRing) iava, Linear R (restr_fwd R iava).
Proof. exact restr_linear. Qed.
Print Assumptions C02b_restr_linear.

(* ---------------- Flip ---------------- *)
Theorem C07b_flip_meets_spec : forall (R : CRing) (x : list R) i, i < length x ->
  nth i (flip_fwd R x) (r0 R) = flip_spec R (length x) i x.
Proof. exact flip_meets_spec. Qed.
Print Assumptions C07b_flip_meets_spec.
Theorem C01b_flip_adjoint : forall (S : StarRing) (x y : list S), length x = length y ->
  dot S (flip_fwd S x) y = dot S x (flip_fwd S y).
Proof. exact flip_adjoint_c. Qed.
Print Assumptions C01b_flip_adjoint.
Theorem C08b_flip_invol : forall (R : CRing) (x : list R), flip_fwd R (flip_fwd R x) = x.
Proof. exact flip_invol. Qed.
Print Assumptions C08b_flip_invol.
Theorem C02b_flip_linear : forall (R : CRing), Linear R (flip_fwd R).
Proof. exact flip_linear. Qed.
Print Assumptions C02b_flip_linear.

(* ---------------- Roll (every integer shift) ---------------- *)
Theorem C07b_roll_meets_spec : forall (R : CRing) (s : Z) (x : list R) i, i < length x ->
  nth i (roll_fwd R s x) (r0 R) = roll_spec R s (length x) i x.
Proof. exact roll_meets_spec. Qed.
Print Assumptions C07b_roll_meets_spec.
Theorem C01b_roll_adjoint : forall (S : StarRing) (s : Z) (x y : list S), length x = length y ->
  dot S (roll_fwd S s x) y = dot S x (roll_adj S s y).
Proof. exact roll_adjoint_c. Qed.
Print Assumptions C01b_roll_adjoint.
Theorem C08b_roll_inverse : forall (R : CRing) (s : Z) (x : list R), roll_adj R s (roll_fwd R s x) = x.
Proof. exact roll_inverse. Qed.
Print Assumptions C08b_roll_inverse.
Theorem C08b_roll_inverse' : forall (R : CRing) (s : Z) (x : list R), roll_fwd R s (roll_adj R s x) = x.
Proof. exact roll_inverse'. Qed.
Print Assumptions C08b_roll_inverse'.
Example C07b_roll_example : roll_fwd QcR (-7)%Z (ql [1; 2; 3; 4; 5]%Z) = (ql [3; 4; 5; 1; 2]%Z)
  /\ roll_fwd QcR 1%Z (ql [1; 2; 3; 4; 5]%Z) = (ql [5; 1; 2; 3; 4]%Z).
Proof. split; vm_compute; reflexivity. Qed.
Theorem C02b_roll_linear : forall (R : CRing) s, Linear R (roll_fwd R s).
Proof. exact roll_linear. Qed.
Print Assumptions C02b_roll_linear.

(* ---------------- Symmetrize (output length 2n-1) ---------------- *)
Theorem C07b_symm_meets_spec : forall (R : CRing) (x : list R) i, i < 2 * length x - 1 ->
  nth i (symm_fwd R x) (r0 R) = symm_spec R (length x) i x.
Proof. exact symm_meets_spec. Qed.
Print Assumptions C07b_symm_meets_spec.
Theorem C01b_symm_adjoint : forall (S : StarRing) (x y : list S), 0 < length x -> length y = 2 * length x - 1 ->
  dot S (symm_fwd S x) y = dot S x (symm_adj S (length x) y).
Proof. exact symm_adjoint_c. Qed.
Print Assumptions C01b_symm_adjoint.
Example C07b_symm_example : symm_fwd QcR (ql [1; 2; 3]%Z) = (ql [3; 2; 1; 2; 3]%Z)
  /\ symm_adj QcR 3 (ql [1; 2; 3; 4; 5]%Z) = (ql [3; 6; 6]%Z).
Proof. split; vm_compute; reflexivity. Qed.
Theorem C02b_symm_linear : forall (R : CRing), Linear R (symm_fwd R).
Proof. exact symm_linear. Qed.
Print Assumptions C02b_symm_linear.

(* ---------------- Sum (one fibre), Identity, Zero ---------------- *)
Theorem C07b_sum_meets_spec : forall (R : CRing) (x : list R), nth 0 (sum_fwd R x) (r0 R) = sum_spec R x.
Proof. exact sum_meets_spec. Qed.
Print Assumptions C07b_sum_meets_spec.
Theorem C01b_sum_adjoint : forall (R : CRing) (x y : list R), length y = 1 ->
  dotu R (sum_fwd R x) y = dotu R x (sum_adj R (length x) y).
Proof. exact sum_adjoint. Qed.
Print Assumptions C01b_sum_adjoint.
Theorem C02b_sum_linear : forall (R : CRing), Linear R (sum_fwd R).
Proof. exact sum_linear. Qed.
Print Assumptions C02b_sum_linear.
Theorem C07b_ident_meets_spec : forall (R : CRing) N M (x : list R) i, length x = M -> i < N ->
  nth i (ident_fwd R N M x) (r0 R) = ident_spec R M i x.
Proof. exact ident_meets_spec. Qed.
Print Assumptions C07b_ident_meets_spec.
Theorem C01b_ident_adjoint : forall (R : CRing) N M (x y : list R), length x = M -> length y = N ->
  dotu R (ident_fwd R N M x) y = dotu R x (ident_adj R N M y).
Proof. exact ident_adjoint. Qed.
Print Assumptions C01b_ident_adjoint.
Example C07b_ident_example : ident_fwd QcR 2 4 (ql [1; 2; 3; 4]%Z) = (ql [1; 2]%Z) /\ ident_fwd QcR 4 2 (ql [1; 2]%Z) = (ql [1; 2; 0; 0]%Z).
Proof. split; vm_compute; reflexivity. Qed.
Theorem C02b_ident_linear : forall (R : CRing) N, Linear R (fun x => ident_fwd R N (length x) x).
Proof. exact ident_linear. Qed.
Print Assumptions C02b_ident_linear.
Theorem C08b_identity_square : forall (R : CRing) N (x : list R), length x = N -> ident_adj R N N (ident_fwd R N N x) = x.
Proof. exact ident_square. Qed.
Print Assumptions C08b_identity_square.
Theorem C07b_zero_meets_spec : forall (R : CRing) N (x : list R) i, nth i (zero_fwd R N x) (r0 R) = r0 R.
Proof. exact zero_meets_spec. Qed.
Print Assumptions C07b_zero_meets_spec.
Theorem C01b_zero_adjoint : forall (R : CRing) N M (x y : list R), dotu R (zero_fwd R N x) y = dotu R x (zero_adj R M y).
Proof. exact zero_adjoint. Qed.
Print Assumptions C01b_zero_adjoint.

(* ---------------- Diagonal (complex: adjoint uses conj(diag)) ---------------- *)
Theorem C07b_diag_meets_spec : forall (S : StarRing) (d x : list S) i,
  nth i (diag_fwd S d x) (r0 S) = diag_spec S d i x.
Proof. exact diag_meets_spec. Qed.
Print Assumptions C07b_diag_meets_spec.
Theorem C01b_diag_adjoint : forall (S : StarRing) (d x y : list S), dot S (diag_fwd S d x) y = dot S x (diag_adj S d y).
Proof. exact diag_adjoint. Qed.
Print Assumptions C01b_diag_adjoint.
Theorem C02b_diag_linear : forall (S : StarRing) (d : list S), Linear S (diag_fwd S d).
Proof. exact diag_linear. Qed.
Print Assumptions C02b_diag_linear.

(* ---------------- Transpose (2-D) ---------------- *)
Theorem C07b_transp2_meets_spec : forall (R : CRing) n1 n2 (x : list R) i j, i < n1 -> j < n2 ->
  nth (j * n1 + i) (transp2_fwd R n1 n2 x) (r0 R) = nth (i * n2 + j) x (r0 R).
Proof. exact transp2_meets_spec. Qed.
Print Assumptions C07b_transp2_meets_spec.
Theorem C01b_transp2_adjoint : forall (R : CRing) n1 n2 (x y : list R), length x = n1 * n2 -> length y = n1 * n2 ->
  dotu R (transp2_fwd R n1 n2 x) y = dotu R x (transp2_adj R n1 n2 y).
Proof. exact transp2_adjoint. Qed.
Print Assumptions C01b_transp2_adjoint.
Theorem C08b_transpose_inverse : forall (R : CRing) n1 n2 (x : list R), length x = n1 * n2 ->
  transp2_adj R n1 n2 (transp2_fwd R n1 n2 x) = x.
Proof. exact transp2_inverse. Qed.
Print Assumptions C08b_transpose_inverse.
Example C07b_transp2_example : transp2_fwd QcR 2 3 (ql [1; 2; 3; 4; 5; 6]%Z) = (ql [1; 4; 2; 5; 3; 6]%Z).
Proof. vm_compute; reflexivity. Qed.
Theorem C02b_transp2_linear : forall (R : CRing) n1 n2, Linear R (transp2_fwd R n1 n2).
Proof. exact transp2_linear. Qed.
Print Assumptions C02b_transp2_linear.

(* ---------------- Convolve1D / Smoothing1D ---------------- *)
(* zero-padding the filter by |2(nh/2 - offset) - [nh even]| samples on the
   coded side and taking scipy's 'same' window centres tap [offset]:
   every nh (odd or even), every 0 <= offset < nh, every signal length *)
Theorem C07b_conv_meets_spec : forall (R : CRing) (h : list R) offset (x : list R) i,
  offset < length h -> i < length x ->
  nth i (conv_same_model R h offset x) (r0 R) = conv_spec R h offset i x.
Proof. exact conv_meets_spec. Qed.
Print Assumptions C07b_conv_meets_spec.
Example C07b_conv_example :
  conv_same_model QcR (ql [1; 2; 3; 4]%Z) 3 (ql [1; 0; 0; 0; 1]%Z) = (ql [4; 1; 2; 3; 4]%Z) /\
  conv_same_model QcR (ql [1; 2; 3]%Z) 0 (ql [0; 1; 0; 0]%Z) = (ql [0; 1; 2; 3]%Z).
Proof. split; vm_compute; reflexivity. Qed.
Theorem C01b_conv_adjoint : forall (S : StarRing) (h : list S) offset (x y : list S),
  offset < length h -> length x = length y ->
  dot S (conv_same_model S h offset x) y = dot S x (conv_adj_model S h offset y).
Proof. exact conv_adjoint. Qed.
Print Assumptions C01b_conv_adjoint.
Example C01b_conv_adjoint_nonvacuous :
  let h := (gl [(1, 2); (0, -1); (3, 0); (1, 1)]%Z) in let x := (gl [(1, 0); (2, 1); (0, 3)]%Z) in let y := (gl [(0, 1); (1, 1); (2, -1)]%Z) in
  dot GS (conv_same_model GS h 1 x) y = dot GS x (conv_adj_model GS h 1 y) /\ dot GS (conv_same_model GS h 1 x) y <> g0.
Proof. split; [vm_compute; reflexivity | vm_compute; discriminate]. Qed.
Theorem C01b_conv_same_adjoint : forall (S : StarRing) (v x y : list S), length v mod 2 = 1 -> length x = length y ->
  dot S (conv_same S x v) y = dot S x (conv_same S y (vconj S (rev v))).
Proof. exact conv_same_adjoint. Qed.
Print Assumptions C01b_conv_same_adjoint.
Theorem C07b_conv_adj_meets_spec : forall (S : StarRing) (h : list S) offset (y : list S) j,
  offset < length h -> j < length y ->
  nth j (conv_adj_model S h offset y) (r0 S) =
  bigsum S (length y) (fun i => rmul S (conj S (xz S h (Z.of_nat i - Z.of_nat j + Z.of_nat offset))) (nth i y (r0 S))).
Proof. exact conv_adj_meets_spec. Qed.
Print Assumptions C07b_conv_adj_meets_spec.
Theorem C02b_conv_linear : forall (R : CRing) (h : list R) offset, offset < length h -> Linear R (conv_same_model R h offset).
Proof. exact conv_linear. Qed.
Print Assumptions C02b_conv_linear.
Theorem C07b_smooth_meets_spec : forall (R : CRing) ns (inv : R) (x : list R) i, 0 < ns -> i < length x ->
  nth i (smooth_model R ns inv x) (r0 R) = smooth_spec R ns inv i x.
Proof. exact smooth_meets_spec. Qed.
Print Assumptions C07b_smooth_meets_spec.

(* ---------------- Interp (linear) / Bilinear ---------------- *)
Theorem C07b_interp_meets_spec : forall (R : CRing) ls (ws x : list R) i, length ws = length ls -> i < length ls ->
  nth i (interp_fwd R ls ws x) (r0 R) = interp_spec R ls ws i x.
Proof. exact interp_meets_spec. Qed.
Print Assumptions C07b_interp_meets_spec.
(* the coded pair is adjoint for EVERY position list (shared cells included) *)
Theorem C01b_interp_adjoint : forall (R : CRing) ls (ws x y : list R), length ws = length ls -> length y = length ls ->
  dotu R (interp_fwd R ls ws x) y = dotu R x (interp_adj R (length x) ls ws y).
Proof. exact interp_adjoint. Qed.
Print Assumptions C01b_interp_adjoint.
Example C01b_interp_adjoint_nonvacuous :
  interp_adj QcR 5 [0; 0; 2] [q 1 4; q 1 2; z0] (ql [4; 4; 1]%Z) = ql [5; 3; 1; 0; 0]%Z.
Proof. vm_compute; reflexivity. Qed.
(* Legacy (assigning Restriction adjoints): not the adjoint when two positions share a cell *)
Theorem C01b_interp_legacy_refuted : exists ls (ws x y : list QcR), length ws = length ls /\ length y = length ls /\
  dotu QcR (interp_fwd QcR ls ws x) y <> dotu QcR x (interp_adj_legacy QcR (length x) ls ws y).
Proof. exists [0; 0; 2], [q 1 4; q 1 2; z0], (ql [1; 1; 1; 1; 1]%Z), (ql [1; 1; 1]%Z).
  split; [reflexivity | split; [reflexivity | vm_compute; discriminate]]. Qed.
Print Assumptions C01b_interp_legacy_refuted.
Theorem C02b_interp_linear : forall (R : CRing) ls (ws : list R), length ws = length ls -> Linear R (interp_fwd R ls ws).
Proof. exact interp_linear. Qed.
Print Assumptions C02b_interp_linear.
Theorem C01b_bilinear_adjoint : forall (R : CRing) n2 ts ls (wts wls x y : list R),
  length ts = length ls -> length wts = length ls -> length wls = length ls -> length y = length ls ->
  dotu R (bilin_code_fwd R n2 ts ls wts wls x) y = dotu R x (bilin_code_adj R (length x) n2 ts ls wts wls y).
Proof. exact bilin_adjoint. Qed.
Print Assumptions C01b_bilinear_adjoint.

(* ---------------- Convolve2D / ConvolveND on a 2-D C-order array ---------------- *)
(* per-axis zero-padding of the filter from (o1, o2) as coded + scipy 'same'
   window gives y[i,j] = sum_{p,q} h[p,q] x[i-p+o1, j-q+o2] (zero outside):
   every filter shape k1 x k2 (odd or even), every offset inside it, every n1 x n2 *)
Theorem C07b_convolve2d_meets_spec : forall (R : CRing) (H : list (list R)) k2 o1 o2 n1 n2 (x : list R) i j,
  wfm R k2 H -> o1 < length H -> o2 < k2 -> i < n1 -> j < n2 ->
  nth (i * n2 + j) (conv2_model R H k2 o1 o2 n1 n2 x) (r0 R) = conv2_spec R H k2 o1 o2 n1 n2 i j x.
Proof. exact conv2_meets_spec. Qed.
Print Assumptions C07b_convolve2d_meets_spec.
Example C07b_convolve2d_example :
  conv2_model QcR [ql [1; 2]%Z; ql [3; 4]%Z] 2 1 0 2 3 (ql [1; 0; 0; 0; 0; 1]%Z) = ql [3; 4; 1; 0; 0; 3]%Z
  /\ wfm QcR 2 [ql [1; 2]%Z; ql [3; 4]%Z].
Proof. split; [vm_compute; reflexivity | repeat constructor]. Qed.
(* correlation with the padded filter = 'same' convolution with conj(flip(h)): adjoint pair, all sizes *)
Theorem C01b_convolve2d_adjoint : forall (S : StarRing) (H : list (list S)) k2 o1 o2 n1 n2 (x y : list S),
  wfm S k2 H -> o1 < length H -> o2 < k2 -> length x = n1 * n2 -> length y = n1 * n2 ->
  dot S (conv2_model S H k2 o1 o2 n1 n2 x) y = dot S x (conv2_adj_model S H k2 o1 o2 n1 n2 y).
Proof. exact conv2_adjoint. Qed.
Print Assumptions C01b_convolve2d_adjoint.
Example C01b_convolve2d_adjoint_nonvacuous :
  let H := [gl [(1, 2); (0, -1)]%Z; gl [(3, 0); (1, 1)]%Z; gl [(0, 1); (2, 0)]%Z] in
  let x := gl [(1, 0); (2, 1); (0, 3); (1, 1)]%Z in let y := gl [(0, 1); (1, 1); (2, -1); (1, 0)]%Z in
  dot GS (conv2_model GS H 2 2 0 2 2 x) y = dot GS x (conv2_adj_model GS H 2 2 0 2 2 y)
  /\ dot GS (conv2_model GS H 2 2 0 2 2 x) y <> g0.
Proof. split; [vm_compute; reflexivity | vm_compute; discriminate]. Qed.
Theorem C01b_conv2_same_adjoint : forall (S : StarRing) (Hp : list (list S)) K2 n1 n2 (x y : list S),
  wfm S K2 Hp -> length Hp mod 2 = 1 -> K2 mod 2 = 1 -> length x = n1 * n2 -> length y = n1 * n2 ->
  dot S (conv2_same S n1 n2 x Hp) y = dot S x (conv2_same S n1 n2 y (rev2c S Hp)).
Proof. exact conv2_same_adjoint. Qed.
Print Assumptions C01b_conv2_same_adjoint.

(* ---------------- Bilinear: documented four-term formula, batch axes ---------------- *)
Theorem C07b_bilinear_meets_spec : forall (R : CRing) n2 ts ls (wts wls x : list R) i,
  length ts = length ls -> length wts = length ls -> length wls = length ls -> i < length ls ->
  nth i (bilin_code_fwd R n2 ts ls wts wls x) (r0 R) = bilinear_spec R n2 ts ls wts wls i x.
Proof. exact bilin_meets_spec. Qed.
Print Assumptions C07b_bilinear_meets_spec.
Example C07b_bilinear_example :
  bilin_code_fwd QcR 3 [0; 0] [1; 1] [q 1 2; q 1 4] [q 1 4; q 1 2] (ql [0; 8; 16; 0; 24; 32]%Z) = ql [18; 16]%Z
  /\ bilin_code_adj QcR 6 3 [0; 0] [1; 1] [q 1 2; q 1 4] [q 1 4; q 1 2] (ql [8; 8]%Z) = ql [0; 6; 4; 0; 4; 2]%Z.
Proof. split; vm_compute; reflexivity. Qed.
Theorem C02b_bilinear_linear : forall (R : CRing) n2 ts ls (wts wls : list R),
  length ts = length ls -> length wts = length ls -> length wls = length ls ->
  Linear R (bilin_code_fwd R n2 ts ls wts wls).
Proof. exact bilin_linear. Qed.
Print Assumptions C02b_bilinear_linear.
Theorem C07b_bilinear_batch_meets_spec : forall (R : CRing) n2 inner ts ls (wts wls x : list R) i k,
  length ts = length ls -> length wts = length ls -> length wls = length ls -> i < length ls -> k < inner ->
  nth (i * inner + k) (bilin_batch_fwd R n2 inner ts ls wts wls x) (r0 R) =
  let t := nth i ts 0 in let l := nth i ls 0 in let wt := nth i wts (r0 R) in let wl := nth i wls (r0 R) in
  radd R (radd R (radd R
    (rmul R (rmul R (rsub R (r1 R) wt) (rsub R (r1 R) wl)) (x3 R n2 inner x t l k))
    (rmul R (rmul R wt (rsub R (r1 R) wl)) (x3 R n2 inner x (S t) l k)))
    (rmul R (rmul R (rsub R (r1 R) wt) wl) (x3 R n2 inner x t (S l) k)))
    (rmul R (rmul R wt wl) (x3 R n2 inner x (S t) (S l) k)).
Proof. exact bilin_batch_meets_spec. Qed.
Print Assumptions C07b_bilinear_batch_meets_spec.
(* four accumulating scatters (np.add.at) are the transpose of the four gathers:
   every position list (positions sharing a cell included), every batch size *)
Theorem C01b_bilinear_batch_adjoint : forall (R : CRing) n2 inner ts ls (wts wls x y : list R),
  length ts = length ls -> length wts = length ls -> length wls = length ls -> length y = length ls * inner ->
  dotu R (bilin_batch_fwd R n2 inner ts ls wts wls x) y = dotu R x (bilin_batch_adj R (length x) n2 inner ts ls wts wls y).
Proof. exact bilin_batch_adjoint. Qed.
Print Assumptions C01b_bilinear_batch_adjoint.
(* separable kernel h = a (x) b: the 2-D operator is the 1-D Convolve1D model along the
   rows (b, o2) followed by the 1-D model along every column (a, o1) *)
Theorem C07b_convolve2d_separable : forall (R : CRing) (a b : list R) o1 o2 n1 n2 (x : list R) i j,
  o1 < length a -> o2 < length b -> i < n1 -> j < n2 -> length x = n1 * n2 ->
  nth (i * n2 + j) (conv2_model R (outer R a b) (length b) o1 o2 n1 n2 x) (r0 R) = rows_then_col R a b o1 o2 n1 n2 x i j.
Proof. exact conv2_separable. Qed.
Print Assumptions C07b_convolve2d_separable.
