(* C13 — ISTA/FISTA descend and stop at an L1-optimal point; soft / hard
   thresholding are proximal maps (real and complex).  Final statements only;
   models and proofs are in Solvers/{OrdLemmas,Thresh,ISTA,PSD}.v. *)
From Coq Require Import QArith Qcanon.
From PV Require Import Dict Vec Dot Mat QcInst OrdLemmas Thresh ISTA PSD.
Local Open Scope R_scope.

(* ---- soft thresholding is the proximal map of t|.|  (all u, t >= 0, z) *)
Theorem C13_soft_is_prox : forall (F : OrdField) (u t : F), rle F 0 t -> forall z : F,
  rle F ((soft F u t - u) * (soft F u t - u) * half F + t * rabs F (soft F u t))
        ((z - u) * (z - u) * half F + t * rabs F z).
Proof. exact soft_is_prox. Qed.
Print Assumptions C13_soft_is_prox.
Example C13_soft_is_prox_ex : soft QcO (Q2Qc (7#2)) (Q2Qc (3#2)) = Q2Qc 2 /\ soft QcO (Q2Qc (-7#2)) (Q2Qc (3#2)) = Q2Qc (-2#1)
  /\ soft QcO (Q2Qc 1) (Q2Qc (3#2)) = Q2Qc 0 /\ rle QcO 0 (Q2Qc (3#2)).
Proof. vm_compute. repeat split; try reflexivity. discriminate. Qed.

(* ---- hard thresholding (|x| <= sqrt(2 thresh) zeroed) is the proximal map of t|.|_0 *)
Theorem C13_hard_is_prox_l0 : forall (F : OrdField) (u t : F), rle F 0 t -> forall z : F,
  rle F ((hard F u t - u) * (hard F u t - u) * half F + t * nz F (hard F u t))
        ((z - u) * (z - u) * half F + t * nz F z).
Proof. exact hard_is_prox_l0. Qed.
Print Assumptions C13_hard_is_prox_l0.
Example C13_hard_ex : hard QcO (Q2Qc 2) (Q2Qc 2) = Q2Qc 0 /\ hard QcO (Q2Qc (5#2)) (Q2Qc 2) = Q2Qc (5#2).
Proof. vm_compute. split; reflexivity. Qed.

(* ---- complex soft thresholding: only the modulus is shrunk, and the result is the prox of t|.| on C *)
Theorem C13_soft_c_shrinks_modulus : forall (F : OrdField) (re im m t : F), rle F 0 m -> m * m = re * re + im * im ->
  let s := soft_c F re im m t in let k := rmax F (m - t) 0 in
  rle F 0 k /\ fst s * fst s + snd s * snd s = k * k /\ fst s * m = k * re /\ snd s * m = k * im.
Proof. exact soft_c_shrinks_modulus. Qed.
Print Assumptions C13_soft_c_shrinks_modulus.
Theorem C13_soft_c_is_prox : forall (F : OrdField) (re im m t : F), rle F 0 t -> rle F 0 m -> m * m = re * re + im * im ->
  forall zr zi mz : F, rle F 0 mz -> mz * mz = zr * zr + zi * zi ->
  let s := soft_c F re im m t in
  rle F ((fst s - re) * (fst s - re) + (snd s - im) * (snd s - im) + two F * t * rmax F (m - t) 0)
        ((zr - re) * (zr - re) + (zi - im) * (zi - im) + two F * t * mz).
Proof. exact soft_c_is_prox. Qed.
Print Assumptions C13_soft_c_is_prox.
(* 3+4i, modulus 5, thresh 2  ->  (3/5)(3+4i) *)
Example C13_soft_c_ex : soft_c QcO (Q2Qc 3) (Q2Qc 4) (Q2Qc 5) (Q2Qc 2) = (Q2Qc (9#5), Q2Qc (12#5))
  /\ (Q2Qc 5 * Q2Qc 5 = Q2Qc 3 * Q2Qc 3 + Q2Qc 4 * Q2Qc 4)%Qc.
Proof. vm_compute. split; reflexivity. Qed.

(* ---- half threshold: ONLY the zeroing rule is decided (32|u|^3 <= 27 thresh^2, c = (54^(1/3)/4) thresh^(2/3));
   MISSING: that the kept value (2/3)x(1+cos(2pi/3 - (2/3)arccos(..))) minimises the L_{1/2} prox objective
   (no arccos/cos on an ordered field) — the L_{1/2} prox claim is NOT decided here. *)
Theorem C13_half_partial : forall (F : OrdField) (u t c v k32 k27 : F), rle F 0 c -> rle F 0 k32 ->
  k32 * (c * c * c) = k27 * (t * t) ->
  (rle F (rabs F u) c -> half_thr F u c v = 0 /\ rle F (k32 * (rabs F u * rabs F u * rabs F u)) (k27 * (t * t))) /\
  (~ rle F (rabs F u) c -> half_thr F u c v = v /\ rle F (k27 * (t * t)) (k32 * (rabs F u * rabs F u * rabs F u))).
Proof. exact half_partial. Qed.
Print Assumptions C13_half_partial.
(* thresh = 2: c = 3/2 exactly *)
Example C13_half_partial_ex : (Q2Qc 32 * (Q2Qc (3#2) * Q2Qc (3#2) * Q2Qc (3#2)) = Q2Qc 27 * (Q2Qc 2 * Q2Qc 2))%Qc.
Proof. apply Qc_is_canon. vm_compute. reflexivity. Qed.

(* ---- ISTA: every step from ANY x does not increase ||y - A x||^2 + eps ||x||_1 when alpha <= 1/lambda_max *)
Theorem C13_ista_descent : forall (F : OrdField) (n : nat) (A : list (list F)) (y : list F),
  wfM F n A -> length y = length A -> forall (alpha eps : F) (x : list F),
  length x = n -> rle F 0 eps -> rlt F 0 alpha ->
  (forall d, length d = n -> rle F (alpha * nrm2 F (mv F A d)) (nrm2 F d)) ->
  rle F (obj F A y eps (step F n A y alpha eps x)) (obj F A y eps x).
Proof. exact ista_descent. Qed.
Print Assumptions C13_ista_descent.

Theorem C13_ista_run_monotone : forall (F : OrdField) (n : nat) (A : list (list F)) (y : list F),
  wfM F n A -> length y = length A -> forall (alpha eps : F), rle F 0 eps -> rlt F 0 alpha ->
  (forall d, length d = n -> rle F (alpha * nrm2 F (mv F A d)) (nrm2 F d)) ->
  forall k x, length x = n -> forall xk, In xk (ista_run F n k A y alpha eps x) -> rle F (obj F A y eps xk) (obj F A y eps x).
Proof. exact ista_run_monotone. Qed.
Print Assumptions C13_ista_run_monotone.

(* the step-size premise is decided exactly: symmetric elimination (LDL^T) of I - alpha A^T A *)
Theorem C13_psd_sound : forall (F : OrdField) (n : nat) (M : list (list F)), psd F n M = true ->
  forall d, length d = n -> rle F 0 (quad F M d).
Proof. exact psd_sound. Qed.
Print Assumptions C13_psd_sound.
Theorem C13_premise_of_psd : forall (F : OrdField) (n : nat) (alpha : F) (A : list (list F)),
  wfM F n A -> psd F n (stepmat F n alpha A) = true ->
  forall d, length d = n -> rle F (alpha * nrm2 F (mv F A d)) (nrm2 F d).
Proof. exact premise_of_psd. Qed.
Print Assumptions C13_premise_of_psd.
(* non-vacuity of ista_descent / ista_run_monotone: a concrete 3x2 problem over Qc with lambda_max(A^T A) ~ 6.85,
   alpha = 1/8, whose premise is established by the certificate (this is what the check evaluates per problem) *)
Example C13_ista_descent_ex :
  let A : list (list QcO) := [[Q2Qc 1; Q2Qc 2]; [Q2Qc 0; Q2Qc 1]; [Q2Qc (-1); Q2Qc 0]] in
  let alpha : QcO := Q2Qc (1#8) in
  wfM QcO 2 A /\ rlt QcO 0 alpha /\ (forall d, length d = 2%nat -> rle QcO (alpha * nrm2 QcO (mv QcO A d)) (nrm2 QcO d)).
Proof. intros A alpha. assert (W : wfM QcO 2 A) by (repeat constructor). split; [exact W|]. split.
  - split; [vm_compute; discriminate | intro E; discriminate E].
  - apply premise_of_psd; [exact W | vm_compute; reflexivity]. Qed.

(* ---- fixed points of the ISTA step are exactly the KKT points *)
Theorem C13_ista_fixed_point_kkt : forall (F : OrdField) (n : nat) (A : list (list F)) (y : list F),
  wfM F n A -> forall (alpha eps : F) (x : list F),
  length x = n -> rle F 0 eps -> rlt F 0 alpha ->
  (step F n A y alpha eps x = x <->
   Forall2 (fun xi gi => (xi = 0 -> rle F (rabs F gi) (eps * half F)) /\ (xi <> 0 -> gi = eps * half F * rsgn F xi))
           x (mvT F n A (vsub F y (mv F A x)))).
Proof. exact ista_fixed_point_kkt. Qed.
Print Assumptions C13_ista_fixed_point_kkt.

Theorem C13_fista_stationary_kkt : forall (F : OrdField) (n : nat) (A : list (list F)) (y : list F),
  wfM F n A -> forall (alpha eps beta : F) (x : list F),
  length x = n -> rle F 0 eps -> rlt F 0 alpha ->
  (fista_step F n A y alpha eps beta (x, x) = (x, x) <-> kkt F n A y eps x).
Proof. exact fista_stationary_kkt. Qed.
Print Assumptions C13_fista_stationary_kkt.

(* ---- a KKT point is a global minimiser; two KKT points (ISTA's and FISTA's limits) have the same objective *)
Theorem C13_kkt_global_min : forall (F : OrdField) (n : nat) (A : list (list F)) (y : list F),
  wfM F n A -> length y = length A -> forall (eps : F) (x : list F),
  length x = n -> rle F 0 eps -> kkt F n A y eps x ->
  forall z, length z = n -> rle F (obj F A y eps x) (obj F A y eps z).
Proof. exact kkt_global_min. Qed.
Print Assumptions C13_kkt_global_min.
Theorem C13_kkt_same_objective : forall (F : OrdField) (n : nat) (A : list (list F)) (y : list F),
  wfM F n A -> length y = length A -> forall (eps : F) (x x' : list F),
  length x = n -> length x' = n -> rle F 0 eps -> kkt F n A y eps x -> kkt F n A y eps x' ->
  obj F A y eps x = obj F A y eps x'.
Proof. exact kkt_same_objective. Qed.
Print Assumptions C13_kkt_same_objective.

(* non-vacuity of the KKT theorems: A = I_2, y = (3, 1/2), eps = 2: x = (2, 0) is a KKT point
   (g = (1, 1/2): g_1 = eps/2 on the non-zero entry, |g_2| <= eps/2 on the zero entry) and a fixed point of the step *)
Example C13_kkt_ex :
  let A : list (list QcO) := [[Q2Qc 1; Q2Qc 0]; [Q2Qc 0; Q2Qc 1]] in
  let y : list QcO := [Q2Qc 3; Q2Qc (1#2)] in let x : list QcO := [Q2Qc 2; Q2Qc 0] in
  kkt QcO 2 A y (Q2Qc 2) x /\ step QcO 2 A y (Q2Qc (1#2)) (Q2Qc 2) x = x /\ wfM QcO 2 A /\ rlt QcO 0 (Q2Qc (1#2) : QcO).
Proof. intros A y x. assert (W : wfM QcO 2 A) by (repeat constructor).
  assert (P : rlt QcO 0 (Q2Qc (1#2) : QcO)) by (split; [vm_compute; discriminate | intro E; discriminate E]).
  assert (S : step QcO 2 A y (Q2Qc (1#2)) (Q2Qc 2) x = x).
  { unfold x. vm_compute. repeat f_equal; apply Qc_is_canon; reflexivity. }
  split; [|split; [exact S|split; assumption]].
  apply (ista_fixed_point_kkt QcO 2 A y W (Q2Qc (1#2)) (Q2Qc 2) x); auto. vm_compute; discriminate. Qed.

(* ======================= ISTA on COMPLEX data (Solvers/ISTAComplex.v) =======================
   complex numbers = pairs over the ordered field; the moduli |u_i| of the vector that is thresholded and |x_i|
   of the current iterate are supplied values constrained by  m >= 0, m*m = re^2+im^2  (predicate [moduli]);
   the new iterate has moduli max(m - thresh, 0).  Objective as documented: ||y - A x||^2 + eps sum|x_i|
   (= 2 * (1/2 ||y - A x||^2 + (eps/2) sum|x_i|), thresh = eps*alpha/2 as in ISTA.setup). *)
From PV Require Import ISTAComplex.

(* quadratic majoriser (no modulus involved), every p, every size *)
Theorem C13_ista_c_majoriser : forall (F : OrdField) (n : nat) (A : list (list (CPR F))) (y : list (CPR F)),
  wfM (CPR F) n A -> length y = length A -> forall (alpha : F) (x p : list (CPR F)), length x = n -> length p = n ->
  (forall d, length d = n -> rle F (alpha * nrm2c F (mv (CPR F) A d)) (nrm2c F d)) ->
  rle F (alpha * nrm2c F (vsub (CPR F) y (mv (CPR F) A p)))
        (alpha * nrm2c F (vsub (CPR F) y (mv (CPR F) A x)) - alpha * alpha * nrm2c F (gradc F n A y x)
         + nrm2c F (vsub (CPR F) p (pre F n A y alpha x))).
Proof. exact ista_c_majoriser. Qed.
Print Assumptions C13_ista_c_majoriser.

(* one complex ISTA step from ANY x does not increase the objective *)
Theorem C13_ista_c_descent : forall (F : OrdField) (n : nat) (A : list (list (CPR F))) (y : list (CPR F)),
  wfM (CPR F) n A -> length y = length A -> forall (alpha eps : F) (x : list (CPR F)) (mx mu : list F),
  length x = n -> rle F 0 eps -> rlt F 0 alpha ->
  (forall d, length d = n -> rle F (alpha * nrm2c F (mv (CPR F) A d)) (nrm2c F d)) ->
  moduli F x mx -> moduli F (pre F n A y alpha x) mu ->
  rle F (obj_c F A y eps (step_c F n A y alpha eps x mu) (map (kmod F (thresh F eps alpha)) mu)) (obj_c F A y eps x mx).
Proof. exact ista_c_descent. Qed.
Print Assumptions C13_ista_c_descent.

(* the whole run is monotone (moduli supplied and correct at every iteration), from any starting point *)
Theorem C13_ista_c_run_monotone : forall (F : OrdField) (n : nat) (A : list (list (CPR F))) (y : list (CPR F)),
  wfM (CPR F) n A -> length y = length A -> forall (alpha eps : F), rle F 0 eps -> rlt F 0 alpha ->
  (forall d, length d = n -> rle F (alpha * nrm2c F (mv (CPR F) A d)) (nrm2c F d)) ->
  forall mus x mx, length x = n -> moduli F x mx -> good_mus F n mus A y alpha eps x ->
  forall xm, In xm (run_c F n mus A y alpha eps x) ->
  moduli F (fst xm) (snd xm) /\ rle F (obj_c F A y eps (fst xm) (snd xm)) (obj_c F A y eps x mx).
Proof. exact ista_c_run_monotone. Qed.
Print Assumptions C13_ista_c_run_monotone.

(* Hermitian step-size certificate: alpha A^H A <= I decided exactly on the real embedding [[Re,-Im],[Im,Re]] *)
Theorem C13_premise_c_of_psd : forall (F : OrdField) (n : nat) (alpha : F) (A : list (list (CPR F))),
  wfM (CPR F) n A -> psd F (n + n) (stepmat F (n + n) alpha (emb F A)) = true ->
  forall d : list (CPR F), length d = n -> rle F (alpha * nrm2c F (mv (CPR F) A d)) (nrm2c F d).
Proof. exact premise_c_of_psd. Qed.
Print Assumptions C13_premise_c_of_psd.

(* non-vacuity: a 2x2 complex problem over Qc (lambda_max(A^H A) < 8, alpha = 1/8) with the premise from the
   certificate, and Pythagorean moduli: x = (3+4i, 0), |x| = (5, 0) *)
Example C13_ista_c_ex :
  let A : list (list (CPR QcO)) := [[(Q2Qc 1, Q2Qc 1); (Q2Qc 2, Q2Qc 0)]; [(Q2Qc 0, Q2Qc (-1)); (Q2Qc 1, Q2Qc 0)]] in
  let alpha : QcO := Q2Qc (1#8) in
  wfM (CPR QcO) 2 A /\ rlt QcO 0 alpha /\
  (forall d, length d = 2%nat -> rle QcO (alpha * nrm2c QcO (mv (CPR QcO) A d)) (nrm2c QcO d)) /\
  moduli QcO [(Q2Qc 3, Q2Qc 4); (Q2Qc 0, Q2Qc 0)] [Q2Qc 5; Q2Qc 0].
Proof. intros A alpha. assert (W : wfM (CPR QcO) 2 A) by (repeat constructor). split; [exact W|]. split; [|split].
  - split; [vm_compute; discriminate | intro E; discriminate E].
  - apply (premise_c_of_psd QcO 2 alpha A W). vm_compute; reflexivity.
  - repeat constructor; try (vm_compute; discriminate); apply Qc_is_canon; vm_compute; reflexivity.
Qed.
