(* C14 — OMP returns a least-squares fit on the support it reports.
   Model: Solvers/OMP.v (state, setup/step/run/finalize of cls_sparsity.OMP,
   both paths of _ColumnLinearOperator), real case over any ordered field.
   Oracles: nrm = numpy.linalg.norm; inner = lsqr/cgls on the restricted
   operator, assumed to return a solution of the restricted normal equations.
   Histories are lists of states, newest first; [trace] = everything run()
   can produce with ANY argmax tie-break. *)
From Coq Require Import QArith Qcanon Lia.
From PV Require Import OMP QcInst.
Local Open Scope R_scope.
Definition qn (z : Z) : Qc := Q2Qc (z # 1).

Definition omp_oracle (F : OrdField) n (A : list (list F)) (y : list F) (inner : list nat -> list F) : Prop :=
  (forall cs, length (inner cs) = length cs) /\
  (forall cs, NoDup cs -> Forall (fun j => j < n)%nat cs -> forall j, In j cs ->
     dotu F (col F j A) (vsub F y (mv F (cols_mat A cs) (inner cs))) = 0).

(* both code paths of _ColumnLinearOperator._matvec agree; also A (finalize x) = A[:,cols] x *)
Theorem C14_colop_paths_agree : forall (F : OrdField) n (A : list (list F)) cs x,
  wfM F n A -> NoDup cs -> Forall (fun j => j < n)%nat cs -> mv F A (scatter n cs x) = mv F (cols_mat A cs) x.
Proof. exact mv_scatter. Qed.
Print Assumptions C14_colop_paths_agree.

(* non-zeros of the returned vector lie on the selected columns *)
Theorem C14_omp_support : forall (F : OrdField) nrm n A y nc nout sigma inner (s : state F),
  reach F nrm n A y nc nout sigma (step_omp F nrm A y inner) s ->
  forall k, nth k (finalize F n s) 0 <> 0 -> In k (cols F s).
Proof. exact omp_support. Qed.
Print Assumptions C14_omp_support.
Theorem C14_mp_support : forall (F : OrdField) n (s : state F) k, nth k (finalize F n s) 0 <> 0 -> In k (cols F s).
Proof. exact omp_support_any. Qed.
Print Assumptions C14_mp_support.

(* least squares: normal equations => minimal residual over the span *)
Theorem C14_ls_minimal : forall (F : OrdField) (B : list (list F)) (y x z : list F),
  length y = length B -> length x = length z ->
  (forall d, dotu F (vsub F y (mv F B x)) (mv F B d) = 0) ->
  rle F (sqn (vsub F y (mv F B x))) (sqn (vsub F y (mv F B z))).
Proof. exact ls_minimal. Qed.
Print Assumptions C14_ls_minimal.

Theorem C14_omp_residual_orthogonal : forall (F : OrdField) nrm n A y nc nout sigma inner,
  wfM F n A -> length y = length A -> omp_oracle F n A y inner ->
  forall s, reach F nrm n A y nc nout sigma (step_omp F nrm A y inner) s ->
  forall j, In j (cols F s) -> dotu F (col F j A) (resid F A y (finalize F n s)) = 0.
Proof. intros F nrm n A y nc nout sigma inner W L [H1 H2]. exact (omp_residual_orthogonal F nrm n A y nc nout sigma inner W L H1 H2). Qed.
Print Assumptions C14_omp_residual_orthogonal.

(* the cost history IS the list of true residual norms of the successive iterates *)
Theorem C14_omp_cost_truthful : forall (F : OrdField) nrm n A y nc nout sigma inner,
  wfM F n A -> length y = length A -> omp_oracle F n A y inner ->
  forall s tr, trace F nrm n A y nc nout sigma (step_omp F nrm A y inner) (s :: tr) ->
  cost F s = rev (map (fun t => nrm (resid F A y (finalize F n t))) (s :: tr)) /\ iiter F s = length tr.
Proof. intros F nrm n A y nc nout sigma inner W L [H1 H2]. exact (omp_cost_truthful F nrm n A y nc nout sigma inner W L H1 H2). Qed.
Print Assumptions C14_omp_cost_truthful.

(* squared residuals never increase along a run (newest first => chain ascending) *)
Theorem C14_omp_cost_monotone_sq : forall (F : OrdField) nrm n A y nc nout sigma inner,
  wfM F n A -> length y = length A -> omp_oracle F n A y inner ->
  forall tr, trace F nrm n A y nc nout sigma (step_omp F nrm A y inner) tr ->
  chain F (map (fun t => sqn (resid F A y (finalize F n t))) tr).
Proof. intros F nrm n A y nc nout sigma inner W L [H1 H2]. exact (omp_cost_monotone_sq F nrm n A y nc nout sigma inner W L H1 H2). Qed.
Print Assumptions C14_omp_cost_monotone_sq.

(* ... and so does the recorded cost list, for any norm oracle monotone in the squared norm *)
Theorem C14_omp_cost_monotone : forall (F : OrdField) nrm n A y nc nout sigma inner,
  wfM F n A -> length y = length A -> omp_oracle F n A y inner ->
  (forall u v, rle F (sqn u) (sqn v) -> rle F (nrm u) (nrm v)) ->
  forall s tr, trace F nrm n A y nc nout sigma (step_omp F nrm A y inner) (s :: tr) -> chain F (rev (cost F s)).
Proof. intros F nrm n A y nc nout sigma inner W L [H1 H2]. exact (omp_cost_monotone F nrm n A y nc nout sigma inner W L H1 H2). Qed.
Print Assumptions C14_omp_cost_monotone.

(* matching pursuit (niter_inner = 0): exact change of the squared residual in one coded step *)
Theorem C14_mp_step_identity : forall (F : OrdField) nrm A (s : state F) i, length (res F s) = length A ->
  sqn (res F (step_mp F nrm A s i)) = sqn (res F s) - cres F A s i * cres F A s i * (1 + 1 - sqn (col F i A)).
Proof. exact mp_step_identity. Qed.
Print Assumptions C14_mp_step_identity.

Theorem C14_mp_cost_truthful : forall (F : OrdField) nrm n A y nc nout sigma,
  wfM F n A -> length y = length A ->
  forall s tr, trace F nrm n A y nc nout sigma (step_mp F nrm A) (s :: tr) ->
  cost F s = rev (map (fun t => nrm (resid F A y (finalize F n t))) (s :: tr)) /\ iiter F s = length tr.
Proof. exact mp_cost_truthful. Qed.
Print Assumptions C14_mp_cost_truthful.

(* MP is monotone under the condition the coded update needs: squared column norms <= 2
   (in particular unit-norm columns).  normalizecols plays no role in the update. *)
Theorem C14_mp_monotone_partial : forall (F : OrdField) nrm n A y nc nout sigma,
  wfM F n A -> length y = length A ->
  forall tr, (forall j, (j < n)%nat -> rle F (sqn (col F j A)) (1 + 1)) ->
  trace F nrm n A y nc nout sigma (step_mp F nrm A) tr ->
  chain F (map (fun t => sqn (resid F A y (finalize F n t))) tr).
Proof. exact mp_monotone. Qed.
Print Assumptions C14_mp_monotone_partial.

(* without that condition the residual GROWS, with normalizecols on or off:
   A = one column (1,1,1)^T (squared norm 3), y = (1,1,1): ||res||^2 goes 3 -> 12 *)
Definition Aw : list (list QcO) := [[(qn 1)]; [(qn 1)]; [(qn 1)]].
Definition yw : list QcO := [(qn 1); (qn 1); (qn 1)].
Theorem C14_mp_monotone_refuted : forall nc : bool, exists i,
  let s := setup QcO (@sqn QcO) yw in
  wfM QcO 1 Aw /\ length yw = length Aw /\ is_argmax QcO (@sqn QcO) 1 Aw nc s i /\
  ~ rle QcO (sqn (res QcO (step_mp QcO (@sqn QcO) Aw s i))) (sqn (res QcO s)).
Proof. intros nc. exists 0%nat. cbv zeta. split; [repeat constructor|]. split; [reflexivity|]. split.
  - split; [lia|]. intros j Hj. assert (j = 0)%nat by lia. subst. apply rle_refl.
  - vm_compute. intros H. apply H. reflexivity.
Qed.
Print Assumptions C14_mp_monotone_refuted.

(* ---- the hypotheses are satisfiable by a concrete non-trivial object ---- *)
Definition Ae : list (list QcO) := [[(qn 1)]; [(qn 2)]].
Definition ye : list QcO := [(qn 3); (qn 1)].
Definition inner_e (cs : list nat) : list QcO := map (fun _ => (qn 1)) cs.
Example C14_oracle_satisfiable : wfM QcO 1 Ae /\ length ye = length Ae /\ omp_oracle QcO 1 Ae ye inner_e.
Proof. split; [repeat constructor|]. split; [reflexivity|]. split.
  - intros cs. apply map_length.
  - intros cs Hn Hf j Hj. destruct cs as [|a [|b cs]].
    + destruct Hj.
    + inversion Hf; subst. assert (a = 0)%nat by lia. subst. destruct Hj as [<-|[]]. vm_compute. reflexivity.
    + exfalso. inversion Hf as [|? ? Ha Hf1]; inversion Hf1 as [|? ? Hb _]; subst.
      inversion Hn as [|? ? N1 _]; subst. apply N1. left. lia.
Qed.
(* a genuine one-step run: guard holds (cost[0]^2 = 10 > sigma), column 0 is the argmax,
   the residual (2,-1) is non-zero and orthogonal to the column *)
Example C14_trace_nonempty :
  trace QcO (@sqn QcO) 1 Ae ye false 3 ((qn 1)) (step_omp QcO (@sqn QcO) Ae ye inner_e)
    [step_omp QcO (@sqn QcO) Ae ye inner_e (setup QcO (@sqn QcO) ye) 0; setup QcO (@sqn QcO) ye]
  /\ res QcO (step_omp QcO (@sqn QcO) Ae ye inner_e (setup QcO (@sqn QcO) ye) 0) = [(qn 2); (qn (-1))].
Proof. split.
  - apply trace_step; [apply trace_setup | split; [cbn; lia | vm_compute; reflexivity] | ].
    split; [lia|]. intros j Hj. assert (j = 0)%nat by lia. subst. apply rle_refl.
  - vm_compute. reflexivity.
Qed.
Example C14_mp_small_columns : forall j, (j < 2)%nat ->
  rle QcO (sqn (col QcO j ([[(qn 1); (qn 0)]; [(qn 1); (qn (-1))]] : list (list QcO)))) (1 + 1).
Proof. intros j Hj. destruct j as [|[|j]]; [vm_compute; discriminate | vm_compute; discriminate | lia]. Qed.

(* ================================================================== *)
(* exact recovery for dictionaries with orthonormal columns (Solvers/OMPExact.v).
   Real case; the modulus is the real absolute value [rabs] (no square root
   needed); the selection ranges over EVERY index of maximal score. *)
From PV Require Import OMPExact.

Definition ortho_setting (F : OrdField) (nrm : list F -> F) n (A : list (list F)) (xs : list F)
    (S : list nat) (sigma : F) (inner : list nat -> list F) : Prop :=
  wfM F n A /\ length xs = n /\
  (forall i j, (i < n)%nat -> (j < n)%nat -> dotu F (col F i A) (col F j A) = if Nat.eqb i j then 1 else 0) /\
  (forall j, In j S <-> (j < n)%nat /\ nth j xs 0 <> 0) /\ NoDup S /\
  omp_oracle F n A (mv F A xs) inner /\
  (forall u, sqn u = 0 -> nrm u = 0) /\ (forall u, sqn u = 1 -> nrm u = 1) /\ rle F 0 sigma.

(* correlation formula / coefficients / residual, for every state satisfying the local invariant *)
Theorem C14_omp_orthonormal_corr : forall (F : OrdField) n (A : list (list F)) (xs : list F),
  wfM F n A -> length xs = n ->
  (forall i j, (i < n)%nat -> (j < n)%nat -> dotu F (col F i A) (col F j A) = if Nat.eqb i j then 1 else 0) ->
  forall s, Inv F n A (mv F A xs) s ->
  (forall j, (j < n)%nat -> cres F A s j = if in_dec Nat.eq_dec j (cols F s) then 0 else nth j xs 0) /\
  (forall j, (j < n)%nat -> nth j (finalize F n s) 0 = if in_dec Nat.eq_dec j (cols F s) then nth j xs 0 else 0) /\
  res F s = mv F A (vsub F xs (finalize F n s)).
Proof. exact omp_orthonormal_corr. Qed.
Print Assumptions C14_omp_orthonormal_corr.

(* every admissible selection along a run is a NEW column of the support, of maximal |xs_j| among the remaining *)
Theorem C14_omp_orthonormal_step : forall (F : OrdField) nrm n A xs S sigma inner nc nout,
  ortho_setting F nrm n A xs S sigma inner ->
  forall s tr i, trace F nrm n A (mv F A xs) nc nout sigma (step_omp F nrm A (mv F A xs) inner) (s :: tr) ->
  guard F nout sigma s -> is_argmax F nrm n A nc s i ->
  In i S /\ ~ In i (cols F s) /\
  (forall j, (j < n)%nat -> ~ In j (cols F s) -> rle F (rabs F (nth j xs 0)) (rabs F (nth i xs 0))).
Proof. intros F nrm n A xs S sigma inner nc nout (H1 & H2 & H3 & H4 & _ & [H6 H7] & H8 & H9 & H10).
  exact (omp_orthonormal_select F nrm n A xs nc nout sigma inner S H1 H2 H3 H4 H6 H7 H8 H9 H10). Qed.
Print Assumptions C14_omp_orthonormal_step.

(* along every run: cols is a duplicate-free sublist of S with |cols| = iiter (invariant J) *)
Theorem C14_omp_orthonormal_invariant : forall (F : OrdField) nrm n A xs S sigma inner nc nout,
  ortho_setting F nrm n A xs S sigma inner ->
  forall tr, trace F nrm n A (mv F A xs) nc nout sigma (step_omp F nrm A (mv F A xs) inner) tr ->
  Forall (fun s => Inv F n A (mv F A xs) s /\ incl (cols F s) S /\ length (cols F s) = iiter F s) tr.
Proof. intros F nrm n A xs S sigma inner nc nout (H1 & H2 & H3 & H4 & _ & [H6 H7] & H8 & H9 & H10) tr Ht.
  eapply Forall_impl; [|exact (omp_orthonormal_invariant F nrm n A xs nc nout sigma inner S H1 H2 H3 H4 H6 H7 H8 H9 H10 tr Ht)].
  intros s (Ha & _ & Hb & Hc). auto. Qed.
Print Assumptions C14_omp_orthonormal_invariant.

(* at most k = |S| steps; after k steps the returned vector IS xs and the residual is 0 *)
Theorem C14_omp_orthonormal_exact : forall (F : OrdField) nrm n A xs S sigma inner nc nout,
  ortho_setting F nrm n A xs S sigma inner ->
  forall s tr, trace F nrm n A (mv F A xs) nc nout sigma (step_omp F nrm A (mv F A xs) inner) (s :: tr) ->
  iiter F s = length tr /\ (iiter F s <= length S)%nat /\
  (iiter F s = length S -> finalize F n s = xs /\ res F s = zeros F (length A)).
Proof. intros F nrm n A xs S sigma inner nc nout (H1 & H2 & H3 & H4 & _ & [H6 H7] & H8 & H9 & H10).
  exact (omp_orthonormal_exact F nrm n A xs nc nout sigma inner S H1 H2 H3 H4 H6 H7 H8 H9 H10). Qed.
Print Assumptions C14_omp_orthonormal_exact.

(* sigma = 0, niter_outer >= k, norm oracle definite: a run that has stopped made EXACTLY k steps and returns xs *)
Theorem C14_omp_orthonormal_terminates : forall (F : OrdField) nrm n A xs S inner nc nout,
  ortho_setting F nrm n A xs S 0 inner -> (forall u, rle F (nrm u) 0 -> sqn u = 0) -> (length S <= nout)%nat ->
  forall s tr, trace F nrm n A (mv F A xs) nc nout 0 (step_omp F nrm A (mv F A xs) inner) (s :: tr) ->
  ~ guard F nout 0 s ->
  iiter F s = length S /\ length tr = length S /\ finalize F n s = xs /\ res F s = zeros F (length A).
Proof. intros F nrm n A xs S inner nc nout (H1 & H2 & H3 & H4 & H5 & [H6 H7] & H8 & H9 & H10) Hd Hk s tr.
  exact (omp_orthonormal_terminates F nrm n A xs nc nout 0 inner S H1 H2 H3 H4 H5 H6 H7 H8 H9 H10 Hd s tr eq_refl Hk). Qed.
Print Assumptions C14_omp_orthonormal_terminates.

(* ---- satisfiable: a signed permutation dictionary, xs = (2, 0, -3), S = {0, 2}; nrm := squared norm
   (sends 0 to 0, 1 to 1, and is definite); inner := the explicit least-squares oracle [ortho_inner],
   which solves the restricted normal equations for EVERY orthonormal dictionary ---- *)
Definition Ao : list (list QcO) := [[qn 0; qn 1; qn 0]; [qn (-1); qn 0; qn 0]; [qn 0; qn 0; qn 1]].
Definition xo : list QcO := [qn 2; qn 0; qn (-3)].
Lemma Ao_orth : forall i j, (i < 3)%nat -> (j < 3)%nat ->
  dotu QcO (col QcO i Ao) (col QcO j Ao) = if Nat.eqb i j then 1 else 0.
Proof. intros i j Hi Hj. destruct i as [|[|[|i]]]; destruct j as [|[|[|j]]]; try lia; vm_compute; reflexivity. Qed.
Example C14_ortho_setting_satisfiable :
  ortho_setting QcO (@sqn QcO) 3 Ao xo [0; 2]%nat 0 (ortho_inner QcO Ao xo) /\
  (forall u : list QcO, rle QcO (sqn u) 0 -> sqn u = 0).
Proof. split.
  - split; [repeat constructor|]. split; [reflexivity|]. split; [exact Ao_orth|]. split.
    { intros j; split.
      - intros [<-|[<-|[]]]; (split; [lia | vm_compute; discriminate]).
      - intros [Hj Hn]. destruct j as [|[|[|j]]]; [left; auto | exfalso; apply Hn; vm_compute; reflexivity | right; left; auto | lia]. }
    split; [repeat constructor; simpl; intuition lia|]. split.
    { split; [apply ortho_inner_length | apply (ortho_inner_normal QcO 3 Ao xo Ao_orth)]. }
    split; [auto|]. split; [auto|]. apply rle_refl.
  - intros u H. apply rle_antisym; auto. apply sqn_nonneg.
Qed.
(* a complete run on it: two steps (column 2 first: |-3| > |2|), then the guard fails; x = xs *)
Definition so0 := setup QcO (@sqn QcO) (mv QcO Ao xo).
Definition stepo' := step_omp QcO (@sqn QcO) Ao (mv QcO Ao xo) (ortho_inner QcO Ao xo).
Example C14_ortho_run :
  trace QcO (@sqn QcO) 3 Ao (mv QcO Ao xo) false 5 0 stepo' [stepo' (stepo' so0 2) 0; stepo' so0 2; so0] /\
  ~ guard QcO 5 0 (stepo' (stepo' so0 2) 0) /\ finalize QcO 3 (stepo' (stepo' so0 2) 0) = xo.
Proof. split; [|split].
  - apply trace_step; [apply trace_step; [apply trace_setup | |] | |].
    + split; [cbn; lia | vm_compute; reflexivity].
    + split; [lia|]. intros j Hj. destruct j as [|[|[|j]]]; try lia; vm_compute; discriminate.
    + split; [cbn; lia | vm_compute; reflexivity].
    + split; [lia|]. intros j Hj. destruct j as [|[|[|j]]]; try lia; vm_compute; discriminate.
  - intros [_ H]. vm_compute in H. discriminate.
  - vm_compute. reflexivity.
Qed.
