(* C14 — OMP returns a least-squares fit on the support it reports.
   Model: Solvers/OMP.v (state, setup/step/run/finalize of cls_sparsity.OMP,
   both paths of _ColumnLinearOperator), real case over any ordered field.
   Oracles: nrm = numpy.linalg.norm; inner = lsqr/cgls on the restricted
   operator, assumed to return a solution of the restricted normal equations.
   Histories are lists of states, newest first; [trace] = everything run()
   can produce with ANY argmax tie-break. *)
From Coq Require Import QArith Qcanon Lia.
From PV Require Import OMP QcInst.
Local Open Scope R_scope.
Definition qn (z : Z) : Qc := Q2Qc (z # 1).

Definition omp_oracle (F : OrdField) n (A : list (list F)) (y : list F) (inner : list nat -> list F) : Prop :=
  (forall cs, length (inner cs) = length cs) /\
  (forall cs, NoDup cs -> Forall (fun j => j < n)%nat cs -> forall j, In j cs ->
     dotu F (col F j A) (vsub F y (mv F (cols_mat A cs) (inner cs))) = 0).

(* both code paths of _ColumnLinearOperator._matvec agree; also A (finalize x) = A[:,cols] x *)
Theorem C14_colop_paths_agree : forall (F : OrdField) n (A : list (list F)) cs x,
  wfM F n A -> NoDup cs -> Forall (fun j => j < n)%nat cs -> mv F A (scatter n cs x) = mv F (cols_mat A cs) x.
Proof. exact mv_scatter. Qed.
Print Assumptions C14_colop_paths_agree.

(* non-zeros of the returned vector lie on the selected columns *)
Theorem C14_omp_support : forall (F : OrdField) nrm n A y nc nout sigma inner (s : state F),
  reach F nrm n A y nc nout sigma (step_omp F nrm A y inner) s ->
  forall k, nth k (finalize F n s) 0 <> 0 -> In k (cols F s).
Proof. exact omp_support. Qed.
Print Assumptions C14_omp_support.
Theorem C14_mp_support : forall (F : OrdField) n (s : state F) k, nth k (finalize F n s) 0 <> 0 -> In k (cols F s).
Proof. exact omp_support_any. Qed.
Print Assumptions C14_mp_support.

(* least squares: normal equations => minimal residual over the span *)
Theorem C14_ls_minimal : forall (F : OrdField) (B : list (list F)) (y x z : list F),
  length y = length B -> length x = length z ->
  (forall d, dotu F (vsub F y (mv F B x)) (mv F B d) = 0) ->
  rle F (sqn (vsub F y (mv F B x))) (sqn (vsub F y (mv F B z))).
Proof. exact ls_minimal. Qed.
Print Assumptions C14_ls_minimal.

Theorem C14_omp_residual_orthogonal : forall (F : OrdField) nrm n A y nc nout sigma inner,
  wfM F n A -> length y = length A -> omp_oracle F n A y inner ->
  forall s, reach F nrm n A y nc nout sigma (step_omp F nrm A y inner) s ->
  forall j, In j (cols F s) -> dotu F (col F j A) (resid F A y (finalize F n s)) = 0.
Proof. intros F nrm n A y nc nout sigma inner W L [H1 H2]. exact (omp_residual_orthogonal F nrm n A y nc nout sigma inner W L H1 H2). Qed.
Print Assumptions C14_omp_residual_orthogonal.

(* the cost history IS the list of true residual norms of the successive iterates *)
Theorem C14_omp_cost_truthful : forall (F : OrdField) nrm n A y nc nout sigma inner,
  wfM F n A -> length y = length A -> omp_oracle F n A y inner ->
  forall s tr, trace F nrm n A y nc nout sigma (step_omp F nrm A y inner) (s :: tr) ->
  cost F s = rev (map (fun t => nrm (resid F A y (finalize F n t))) (s :: tr)) /\ iiter F s = length tr.
Proof. intros F nrm n A y nc nout sigma inner W L [H1 H2]. exact (omp_cost_truthful F nrm n A y nc nout sigma inner W L H1 H2). Qed.
Print Assumptions C14_omp_cost_truthful.

(* squared residuals never increase along a run (newest first => chain ascending) *)
Theorem C14_omp_cost_monotone_sq : forall (F : OrdField) nrm n A y nc nout sigma inner,
  wfM F n A -> length y = length A -> omp_oracle F n A y inner ->
  forall tr, trace F nrm n A y nc nout sigma (step_omp F nrm A y inner) tr ->
  chain F (map (fun t => sqn (resid F A y (finalize F n t))) tr).
Proof. intros F nrm n A y nc nout sigma inner W L [H1 H2]. exact (omp_cost_monotone_sq F nrm n A y nc nout sigma inner W L H1 H2). Qed.
Print Assumptions C14_omp_cost_monotone_sq.

(* ... and so does the recorded cost list, for any norm oracle monotone in the squared norm *)
Theorem C14_omp_cost_monotone : forall (F : OrdField) nrm n A y nc nout sigma inner,
  wfM F n A -> length y = length A -> omp_oracle F n A y inner ->
  (forall u v, rle F (sqn u) (sqn v) -> rle F (nrm u) (nrm v)) ->
  forall s tr, trace F nrm n A y nc nout sigma (step_omp F nrm A y inner) (s :: tr) -> chain F (rev (cost F s)).
Proof. intros F nrm n A y nc nout sigma inner W L [H1 H2]. exact (omp_cost_monotone F nrm n A y nc nout sigma inner W L H1 H2). Qed.
Print Assumptions C14_omp_cost_monotone.

(* matching pursuit (niter_inner = 0): exact change of the squared residual in one coded step *)
Theorem C14_mp_step_identity : forall (F : OrdField) nrm A (s : state F) i, length (res F s) = length A ->
  sqn (res F (step_mp F nrm A s i)) = sqn (res F s) - cres F A s i * cres F A s i * (1 + 1 - sqn (col F i A)).
Proof. exact mp_step_identity. Qed.
Print Assumptions C14_mp_step_identity.

Theorem C14_mp_cost_truthful : forall (F : OrdField) nrm n A y nc nout sigma,
  wfM F n A -> length y = length A ->
  forall s tr, trace F nrm n A y nc nout sigma (step_mp F nrm A) (s :: tr) ->
  cost F s = rev (map (fun t => nrm (resid F A y (finalize F n t))) (s :: tr)) /\ iiter F s = length tr.
Proof. exact mp_cost_truthful. Qed.
Print Assumptions C14_mp_cost_truthful.

(* MP is monotone under the condition the coded update needs: squared column norms <= 2
   (in particular unit-norm columns).  normalizecols plays no role in the update. *)
Theorem C14_mp_monotone_partial : forall (F : OrdField) nrm n A y nc nout sigma,
  wfM F n A -> length y = length A ->
  forall tr, (forall j, (j < n)%nat -> rle F (sqn (col F j A)) (1 + 1)) ->
  trace F nrm n A y nc nout sigma (step_mp F nrm A) tr ->
  chain F (map (fun t => sqn (resid F A y (finalize F n t))) tr).
Proof. exact mp_monotone. Qed.
Print Assumptions C14_mp_monotone_partial.

(* without that condition the residual GROWS, with normalizecols on or off:
   A = one column (1,1,1)^T (squared norm 3), y = (1,1,1): ||res||^2 goes 3 -> 12 *)
Definition Aw : list (list QcO) := [[(qn 1)]; [(qn 1)]; [(qn 1)]].
Definition yw : list QcO := [(qn 1); (qn 1); (qn 1)].
Theorem C14_mp_monotone_refuted : forall nc : bool, exists i,
  let s := setup QcO (@sqn QcO) yw in
  wfM QcO 1 Aw /\ length yw = length Aw /\ is_argmax QcO (@sqn QcO) 1 Aw nc s i /\
  ~ rle QcO (sqn (res QcO (step_mp QcO (@sqn QcO) Aw s i))) (sqn (res QcO s)).
Proof. intros nc. exists 0%nat. cbv zeta. split; [repeat constructor|]. split; [reflexivity|]. split.
  - split; [lia|]. intros j Hj. assert (j = 0)%nat by lia. subst. apply rle_refl.
  - vm_compute. intros H. apply H. reflexivity.
Qed.
Print Assumptions C14_mp_monotone_refuted.

(* ---- the hypotheses are satisfiable by a concrete non-trivial object ---- *)
Definition Ae : list (list QcO) := [[(qn 1)]; [(qn 2)]].
Definition ye : list QcO := [(qn 3); (qn 1)].
Definition inner_e (cs : list nat) : list QcO := map (fun _ => (qn 1)) cs.
Example C14_oracle_satisfiable : wfM QcO 1 Ae /\ length ye = length Ae /\ omp_oracle QcO 1 Ae ye inner_e.
Proof. split; [repeat constructor|]. split; [reflexivity|]. split.
  - intros cs. apply map_length.
  - intros cs Hn Hf j Hj. destruct cs as [|a [|b cs]].
    + destruct Hj.
    + inversion Hf; subst. assert (a = 0)%nat by lia. subst. destruct Hj as [<-|[]]. vm_compute. reflexivity.
    + exfalso. inversion Hf as [|? ? Ha Hf1]; inversion Hf1 as [|? ? Hb _]; subst.
      inversion Hn as [|? ? N1 _]; subst. apply N1. left. lia.
Qed.
(* a genuine one-step run: guard holds (cost[0]^2 = 10 > sigma), column 0 is the argmax,
   the residual (2,-1) is non-zero and orthogonal to the column *)
Example C14_trace_nonempty :
  trace QcO (@sqn QcO) 1 Ae ye false 3 ((qn 1)) (step_omp QcO (@sqn QcO) Ae ye inner_e)
    [step_omp QcO (@sqn QcO) Ae ye inner_e (setup QcO (@sqn QcO) ye) 0; setup QcO (@sqn QcO) ye]
  /\ res QcO (step_omp QcO (@sqn QcO) Ae ye inner_e (setup QcO (@sqn QcO) ye) 0) = [(qn 2); (qn (-1))].
Proof. split.
  - apply trace_step; [apply trace_setup | split; [cbn; lia | vm_compute; reflexivity] | ].
    split; [lia|]. intros j Hj. assert (j = 0)%nat by lia. subst. apply rle_refl.
  - vm_compute. reflexivity.
Qed.
Example C14_mp_small_columns : forall j, (j < 2)%nat ->
  rle QcO (sqn (col QcO j ([[(qn 1); (qn 0)]; [(qn 1); (qn (-1))]] : list (list QcO)))) (1 + 1).
Proof. intros j Hj. destruct j as [|[|j]]; [vm_compute; discriminate | vm_compute; discriminate | lia]. Qed.
