(* C10 — solver diagnostics are truthful (cg, cgls; lsqr and omp are covered by
   the harness / C14).  The model keeps the SQUARES of the cost entries.
   lsqr monotonicity and lsqr's cost = SciPy r1norm are harness comparisons
   (LSQR is not modelled). *)
From Coq Require Import QArith Qcanon.
From PV Require Import Dict Vec Dot Mat QcInst Check CG CGLS CGLSFacts CGLSMono OMP LSQR LSQRRes.
Import ListNotations.

(* cg: |cost| = 1 + iiter, iiter <= niter, the callback receives exactly x_1..x_iiter in order,
   on_step_begin receives x_0..x_{iiter-1}, on_step_end is called iiter times — all inputs, all niter, tol *)
Theorem C10_cg_solve_diagnostics :
  forall (F : FieldS) absf gtb Aop n y x0 niter tol,
  let st0 := cg_setup F absf Aop n y x0 in
  let '(x, iiter, cost2, log) := cg_solve F absf gtb Aop n y x0 niter tol in
  length cost2 = S iiter /\ (iiter <= niter)%nat /\
  x = cg_x F (cg_iter F absf Aop iiter st0) /\ cost2 = cg_cost2 F (cg_iter F absf Aop iiter st0) /\
  callbacks_of log = map (fun i => cg_x F (cg_iter F absf Aop i st0)) (seq 1 iiter) /\
  begins_of log = map (fun i => cg_x F (cg_iter F absf Aop i st0)) (seq 0 iiter) /\
  length (ends_of log) = iiter.
Proof. exact cg_solve_diagnostics. Qed.
Print Assumptions C10_cg_solve_diagnostics.

(* the fuel used by the model's loop is adequate: on exit the while-condition is false *)
Theorem C10_cg_run_exits :
  forall (F : FieldS) absf gtb Aop n y x0 niter tol,
  let st := fst (cg_run F absf gtb Aop niter niter tol (cg_setup F absf Aop n y x0) []) in
  Nat.ltb (cg_iiter F st) niter && gtb (cg_kold F st) tol = false.
Proof. exact cg_run_exits. Qed.
Print Assumptions C10_cg_run_exits.

(* cg: entry j of cost, squared, is ||y - A x_j||^2 *)
Theorem C10_cg_cost_truthful :
  forall (F : FieldS) (absf : F -> F) (Aop : list F -> list F) n, linop F n n Aop ->
  forall y, length y = n -> (forall v : list F, absf (dot F v v) = dot F v v) ->
  forall x0 k, (forall v, x0 = Some v -> length v = n) ->
    let st0 := cg_setup F absf Aop n y x0 in
    cg_cost2 F (cg_iter F absf Aop k st0) = map (fun j => res2 F Aop y (cg_x F (cg_iter F absf Aop j st0))) (seq 0 (S k)).
Proof. exact cg_cost_truthful. Qed.
Print Assumptions C10_cg_cost_truthful.

Theorem C10_cgls_solve_diagnostics :
  forall (F : FieldS) absf gtb n A y x0 niter damp tol,
  let st0 := cgls_setup F absf n A y x0 damp in
  let '(x, istop, iiter, r1sq, r2sq, cost2, log) := cgls_solve F absf gtb n A y x0 niter damp tol in
  length cost2 = S iiter /\ (iiter <= niter)%nat /\
  x = cl_x F (cgls_iter F absf n A iiter st0) /\ cost2 = cl_cost2 F (cgls_iter F absf n A iiter st0) /\
  r1sq = nth iiter (cl_cost2 F (cgls_iter F absf n A iiter st0)) (r0 F) /\
  r2sq = nth iiter (cl_cost1_2 F (cgls_iter F absf n A iiter st0)) (r0 F) /\
  callbacks_of log = map (fun i => cl_x F (cgls_iter F absf n A i st0)) (seq 1 iiter) /\
  begins_of log = map (fun i => cl_x F (cgls_iter F absf n A i st0)) (seq 0 iiter) /\
  length (ends_of log) = iiter.
Proof. exact cgls_solve_diagnostics. Qed.
Print Assumptions C10_cgls_solve_diagnostics.

Theorem C10_cgls_run_exits :
  forall (F : FieldS) absf gtb n A y x0 damp niter tol,
  let st := fst (cgls_run F absf gtb n A niter niter tol (cgls_setup F absf n A y x0 damp) []) in
  Nat.ltb (cl_iiter F st) niter && gtb (cl_kold F st) tol = false.
Proof. exact cgls_run_exits. Qed.
Print Assumptions C10_cgls_run_exits.

(* cgls: entry j of cost, squared, is ||y - A x_j||^2 — ALL inputs *)
Theorem C10_cgls_cost_truthful :
  forall (F : FieldS) (absf : F -> F) n (A : list (list F)), wfM F n A ->
  forall y, length y = length A -> forall damp x0 k, x0_ok F n x0 ->
    let st0 := cgls_setup F absf n A y x0 damp in
    cl_cost2 F (cgls_iter F absf n A k st0) = map (fun j => lsres2 F A y (cl_x F (cgls_iter F absf n A j st0))) (seq 0 (S k)).
Proof. exact cgls_cost_truthful. Qed.
Print Assumptions C10_cgls_cost_truthful.

(* cgls: r1norm^2 = ||y - A x||^2 of the returned iterate — ALL inputs, all k (including 0 iterations) *)
Theorem C10_cgls_r1norm_truthful :
  forall (F : FieldS) (absf : F -> F) n (A : list (list F)), wfM F n A ->
  forall y, length y = length A -> forall damp x0 k, x0_ok F n x0 ->
    let st := cgls_iter F absf n A k (cgls_setup F absf n A y x0 damp) in
    cgls_r1norm2 F st = lsres2 F A y (cl_x F st).
Proof. exact cgls_r1norm_truthful. Qed.
Print Assumptions C10_cgls_r1norm_truthful.

(* cgls: r2norm^2 = ||y - A x||^2 + damp^2 ||x||^2 of the returned iterate — ALL inputs, all k *)
Theorem C10_cgls_r2norm_truthful :
  forall (F : FieldS) (absf : F -> F) n (A : list (list F)), wfM F n A ->
  forall y, length y = length A -> forall damp, (forall v : list F, absf (dot F v v) = dot F v v) ->
  forall x0 k, x0_ok F n x0 ->
    let st := cgls_iter F absf n A k (cgls_setup F absf n A y x0 damp) in
    cgls_r2norm2 F st = lsfun F A y damp (cl_x F st).
Proof. exact cgls_r2norm_truthful. Qed.
Print Assumptions C10_cgls_r2norm_truthful.

(* cgls: the functional J(x) = ||y - A x||^2 + damp^2 ||x||^2 never increases from one iteration to the next:
   ALL systems, x0, damp, k (ordered field; by induction carrying <c_k, r_k> = kold_k = <r_k, r_k>;
   J(x_k) - J(x_{k+1}) = a_k^2 delta_k >= 0, and x does not move in the degenerate case delta_k = 0) *)
Theorem C10_cgls_functional_monotone :
  forall (O : OrdField) (absf : O -> O) n (A : list (list O)), wfM O n A ->
  forall y, length y = length A -> forall damp, (forall v : list O, absf (dot O v v) = dot O v v) ->
  forall x0 k, x0_ok O n x0 ->
    rle O (lsfun O A y damp (cl_x O (cgls_iter O absf n A (S k) (cgls_setup O absf n A y x0 damp))))
          (lsfun O A y damp (cl_x O (cgls_iter O absf n A k (cgls_setup O absf n A y x0 damp)))).
Proof. exact cgls_functional_monotone. Qed.
Print Assumptions C10_cgls_functional_monotone.

(* omp / mp (model Solvers/OMP.v, shared with C14): along every run of the coded loop the cost history IS the list of
   residual norms of the successive iterates (one entry for the start + one per step) and iiter counts the steps —
   also when a column is selected more than once (the trace relation allows any maximiser, [cols] grows only on new columns) *)
Theorem C10_omp_cost_truthful : forall (F : OrdField) nrm n A y nc nout sigma inner,
  wfM F n A -> length y = length A ->
  (forall cs, length (inner cs) = length cs) ->       (* oracle: lsqr / cgls on the restricted operator ... *)
  (forall cs, NoDup cs -> Forall (fun j => j < n)%nat cs -> forall j, In j cs ->
     dotu F (col F j A) (vsub F y (mv F (cols_mat A cs) (inner cs))) = r0 F) ->   (* ... solves the restricted normal equations *)
  forall s tr, trace F nrm n A y nc nout sigma (step_omp F nrm A y inner) (s :: tr) ->
  cost F s = rev (map (fun t => nrm (resid F A y (finalize F n t))) (s :: tr)) /\ iiter F s = length tr.
Proof. exact omp_cost_truthful. Qed.
Print Assumptions C10_omp_cost_truthful.

Theorem C10_mp_cost_truthful : forall (F : OrdField) nrm n A y nc nout sigma,
  wfM F n A -> length y = length A ->
  forall s tr, trace F nrm n A y nc nout sigma (step_mp F nrm A) (s :: tr) ->
  cost F s = rev (map (fun t => nrm (resid F A y (finalize F n t))) (s :: tr)) /\ iiter F s = length tr.
Proof. exact mp_cost_truthful. Qed.
Print Assumptions C10_mp_cost_truthful.

(* LSQR (model Solvers/LSQR.v, supplied exact roots): the cost history has one entry for the start plus one per
   step, whatever roots are supplied *)
Theorem C10_lsqr_cost_length :
  forall (O : OrdField) n (A : list (list O)) damp (st : lstate O) (rts : list (roots O)),
  length (l_cost O st) = S (l_iiter O st) ->
  length (l_cost O (lsqr_iter O n A damp st rts)) = S (l_iiter O (lsqr_iter O n A damp st rts)).
Proof. exact lsqr_cost_length. Qed.
Print Assumptions C10_lsqr_cost_length.

(* LSQR: the running estimate rnorm (returned as r2norm) never increases, for every damp:
   rnorm_k^2 - rnorm_{k+1}^2 = phi_{k+1}^2 >= 0, and the invariant rnorm^2 = phibar^2 + res2 is preserved
   (hypotheses: the two rotation norms and rnorm are exact roots, rhobar1 <> 0, rho <> 0) *)
Theorem C10_lsqr_rnorm_monotone_step :
  forall (O : OrdField) n (A : list (list O)) damp (st : lstate O) (rt : roots O),
  rn_inv O st ->
  exact O (rt_rhobar1 O rt) (radd O (rmul O (l_rhobar O st) (l_rhobar O st)) (rmul O damp damp)) -> rt_rhobar1 O rt <> r0 O ->
  exact O (rt_rho O rt) (radd O (rmul O (rt_rhobar1 O rt) (rt_rhobar1 O rt)) (rmul O (rt_beta O rt) (rt_beta O rt))) -> rt_rho O rt <> r0 O ->
  let st' := lsqr_step O n A damp st rt in
  let phi := rmul O (rdiv O (rt_rhobar1 O rt) (rt_rho O rt)) (rmul O (rdiv O (l_rhobar O st) (rt_rhobar1 O rt)) (l_phibar O st)) in
  exact O (rt_rnorm O rt) (radd O (rmul O (l_phibar O st') (l_phibar O st')) (l_res2 O st')) ->
  rn_inv O st' /\ l_r2norm O st' = l_rnorm O st' /\
  radd O (rmul O (l_rnorm O st') (l_rnorm O st')) (rmul O phi phi) = rmul O (l_rnorm O st) (l_rnorm O st) /\
  rle O (rmul O (l_rnorm O st') (l_rnorm O st')) (rmul O (l_rnorm O st) (l_rnorm O st)).
Proof. exact lsqr_rnorm_step. Qed.
Print Assumptions C10_lsqr_rnorm_monotone_step.

(* LSQR, damp = 0, ALL k and all sizes: the true residual of the k-th iterate is phibar_k times the vector
   u~_k (u~_1 = u_1, u~_{k+1} = cs1 sn u~_k - cs u_{k+1}); hypotheses along the run: no breakdown (beta_k > 0) and the two
   rotation norms rhobar1_k, rho_k exact and non-zero.  (Local induction, no orthogonality needed.) *)
Theorem C10_lsqr_residual_direction :
  forall (O : OrdField) n (A : list (list O)), wfM O n A -> forall y, length y = length A ->
  forall x0 sb sa rts, x0_ok O n x0 -> gt0 O sb = true ->
  all_good O n A (lsqr_setup O n A y x0 sb sa) rts ->
  let st := lsqr_iter O n A (r0 O) (lsqr_setup O n A y x0 sb sa) rts in
  vsub O y (mv O A (l_x O st)) = vscale O (l_phibar O st) (l_ut O st).
Proof. exact lsqr_residual_direction. Qed.
Print Assumptions C10_lsqr_residual_direction.

(* ... hence cost_k^2 = r1norm_k^2 = phibar_k^2 = ||y - A x_k||^2 as soon as u~_k is a unit vector.
   PARTIAL: ||u~_k|| = 1 needs the mutual orthogonality of the Lanczos vectors u_1..u_{k+1} (not proved; hypothesis here).
   The harness checks the conclusion on every generated run (cost[k] vs ||y - Op x_k|| for damp = 0). *)
Theorem C10_lsqr_phibar_is_residual_norm_partial :
  forall (O : OrdField) n (A : list (list O)), wfM O n A -> forall y, length y = length A ->
  forall x0 sb sa rts, x0_ok O n x0 -> gt0 O sb = true ->
  all_good O n A (lsqr_setup O n A y x0 sb sa) rts ->
  let st := lsqr_iter O n A (r0 O) (lsqr_setup O n A y x0 sb sa) rts in
  dot O (l_ut O st) (l_ut O st) = r1 O ->
  lsres2 O A y (l_x O st) = rmul O (l_phibar O st) (l_phibar O st).
Proof. exact lsqr_phibar_is_residual_norm_partial. Qed.
Print Assumptions C10_lsqr_phibar_is_residual_norm_partial.

Example C10_lsqr_hypotheses_satisfiable :
  wfM QcO 1 exA /\ length exy = length exA /\ gt0 QcO (qz 1) = true /\
  all_good QcO 1 exA (lsqr_setup QcO 1 exA exy None (qz 1) (qz 3)) [exrt] /\
  l_phibar QcO (lsqr_iter QcO 1 exA z0 (lsqr_setup QcO 1 exA exy None (qz 1) (qz 3)) [exrt]) <> 0%Qc.
Proof. exact example_lsqr_good. Qed.
Print Assumptions C10_lsqr_hypotheses_satisfiable.

Example C10_hypotheses_satisfiable :
  wfM QcF 2 eA /\ length ey = length eA /\ (forall v : list QcF, absR (dot QcF v v) = dot QcF v v) /\
  x0_ok QcF 2 (Some [qz 1; qz (-1)]) /\ linop QcF 2 2 (normal_op QcF 2 eA ed).
Proof. exact example_hyps10. Qed.
Print Assumptions C10_hypotheses_satisfiable.
