(* C10 — solver diagnostics are truthful (cg, cgls; lsqr and omp are covered by
   the harness / C14).  The model keeps the SQUARES of the cost entries.
   NOT proved: cgls_functional_monotone (J(x_{k+1}) <= J(x_k)) — it is
   evaluated exactly on the model iterates and on the implementation's
   iterates of every generated run by the check (codes 9 / 14); lsqr
   monotonicity and lsqr's cost = SciPy r1norm are harness comparisons. *)
From Coq Require Import QArith Qcanon.
From PV Require Import Dict Vec Dot Mat QcInst Check CG CGLS CGLSFacts CGLSMono.
Import ListNotations.

(* cg: |cost| = 1 + iiter, iiter <= niter, the callback receives exactly x_1..x_iiter in order,
   on_step_begin receives x_0..x_{iiter-1}, on_step_end is called iiter times — all inputs, all niter, tol *)
Theorem C10_cg_solve_diagnostics :
  forall (F : FieldS) absf gtb Aop n y x0 niter tol,
  let st0 := cg_setup F absf Aop n y x0 in
  let '(x, iiter, cost2, log) := cg_solve F absf gtb Aop n y x0 niter tol in
  length cost2 = S iiter /\ (iiter <= niter)%nat /\
  x = cg_x F (cg_iter F absf Aop iiter st0) /\ cost2 = cg_cost2 F (cg_iter F absf Aop iiter st0) /\
  callbacks_of log = map (fun i => cg_x F (cg_iter F absf Aop i st0)) (seq 1 iiter) /\
  begins_of log = map (fun i => cg_x F (cg_iter F absf Aop i st0)) (seq 0 iiter) /\
  length (ends_of log) = iiter.
Proof. exact cg_solve_diagnostics. Qed.
Print Assumptions C10_cg_solve_diagnostics.

(* the fuel used by the model's loop is adequate: on exit the while-condition is false *)
Theorem C10_cg_run_exits :
  forall (F : FieldS) absf gtb Aop n y x0 niter tol,
  let st := fst (cg_run F absf gtb Aop niter niter tol (cg_setup F absf Aop n y x0) []) in
  Nat.ltb (cg_iiter F st) niter && gtb (cg_kold F st) tol = false.
Proof. exact cg_run_exits. Qed.
Print Assumptions C10_cg_run_exits.

(* cg: entry j of cost, squared, is ||y - A x_j||^2 *)
Theorem C10_cg_cost_truthful :
  forall (F : FieldS) (absf : F -> F) (Aop : list F -> list F) n, linop F n n Aop ->
  forall y, length y = n -> (forall v : list F, absf (dot F v v) = dot F v v) ->
  forall x0 k, (forall v, x0 = Some v -> length v = n) ->
    let st0 := cg_setup F absf Aop n y x0 in
    cg_cost2 F (cg_iter F absf Aop k st0) = map (fun j => res2 F Aop y (cg_x F (cg_iter F absf Aop j st0))) (seq 0 (S k)).
Proof. exact cg_cost_truthful. Qed.
Print Assumptions C10_cg_cost_truthful.

Theorem C10_cgls_solve_diagnostics :
  forall (F : FieldS) absf gtb n A fixed y x0 niter damp tol,
  let st0 := cgls_setup F absf n A fixed y x0 damp in
  let '(x, istop, iiter, r1, r2sq, cost2, log) := cgls_solve F absf gtb n A fixed y x0 niter damp tol in
  length cost2 = S iiter /\ (iiter <= niter)%nat /\
  x = cl_x F (cgls_iter F absf n A iiter st0) /\ cost2 = cl_cost2 F (cgls_iter F absf n A iiter st0) /\
  r1 = cl_kold F (cgls_iter F absf n A iiter st0) /\ r2sq = nth iiter (cl_cost1_2 F (cgls_iter F absf n A iiter st0)) (r0 F) /\
  callbacks_of log = map (fun i => cl_x F (cgls_iter F absf n A i st0)) (seq 1 iiter) /\
  begins_of log = map (fun i => cl_x F (cgls_iter F absf n A i st0)) (seq 0 iiter) /\
  length (ends_of log) = iiter.
Proof. exact cgls_solve_diagnostics. Qed.
Print Assumptions C10_cgls_solve_diagnostics.

Theorem C10_cgls_run_exits :
  forall (F : FieldS) absf gtb n A fixed y x0 damp niter tol,
  let st := fst (cgls_run F absf gtb n A niter niter tol (cgls_setup F absf n A fixed y x0 damp) []) in
  Nat.ltb (cl_iiter F st) niter && gtb (cl_kold F st) tol = false.
Proof. exact cgls_run_exits. Qed.
Print Assumptions C10_cgls_run_exits.

(* cgls: entry j of cost, squared, is ||y - A x_j||^2 — ALL inputs (x0, damp, fixed or not) *)
Theorem C10_cgls_cost_truthful :
  forall (F : FieldS) (absf : F -> F) n (A : list (list F)) (fixed : bool), wfM F n A ->
  forall y, length y = length A -> forall damp x0 k, x0_ok F n x0 ->
    let st0 := cgls_setup F absf n A fixed y x0 damp in
    cl_cost2 F (cgls_iter F absf n A k st0) = map (fun j => lsres2 F A y (cl_x F (cgls_iter F absf n A j st0))) (seq 0 (S k)).
Proof. exact cgls_cost_truthful. Qed.
Print Assumptions C10_cgls_cost_truthful.

(* cgls: r2norm^2 = ||y - A x||^2 + damp^2 ||x||^2 of the returned iterate when at least one iteration was
   performed, or when the setup guard holds (no x0 / damp * ||x0||^2 = damp^2 * ||x0||^2 / repaired setup) *)
Theorem C10_cgls_r2norm_truthful_partial :
  forall (F : FieldS) (absf : F -> F) n (A : list (list F)) (fixed : bool), wfM F n A ->
  forall y, length y = length A -> forall damp, (forall v : list F, absf (dot F v v) = dot F v v) ->
  forall x0 k, x0_ok F n x0 -> cost1_guard F fixed damp x0 \/ (1 <= k)%nat ->
    let st := cgls_iter F absf n A k (cgls_setup F absf n A fixed y x0 damp) in
    cgls_r2norm2 F st = lsfun F A y damp (cl_x F st).
Proof. exact cgls_r2norm_truthful. Qed.
Print Assumptions C10_cgls_r2norm_truthful_partial.

Theorem C10_cgls_cost1_setup_refuted :
  exists (A : list (list QcF)) (y x0 : list QcF) (damp : QcF),
    wfM QcF 1 A /\ length y = length A /\ length x0 = 1%nat /\
    let st := cgls_setup QcF absR 1 A false y (Some x0) damp in
    cgls_r2norm2 QcF st <> lsfun QcF A y damp (cl_x QcF st).
Proof. exact cgls_cost1_setup_refuted. Qed.
Print Assumptions C10_cgls_cost1_setup_refuted.

(* cgls: the returned r1norm (= kold, the squared norm of the normal-equation residual) is not ||y - A x|| *)
Theorem C10_cgls_r1norm_refuted :
  exists (A : list (list QcF)) (y : list QcF),
    wfM QcF 1 A /\ length y = length A /\
    let '(x, _, iiter, r1, _, _, _) := cgls_solve QcF absR gtR 1 A false y None 5 0%Qc 0%Qc in
    iiter = 1%nat /\ (r1 * r1)%Qc <> lsres2 QcF A y x.
Proof. exact cgls_r1norm_refuted. Qed.
Print Assumptions C10_cgls_r1norm_refuted.

(* cgls: ONE step does not increase J(x) = ||y - A x||^2 + damp^2 ||x||^2 (ordered field): J(x_k) - J(x_{k+1}) = a_k^2 delta_k >= 0.
   PARTIAL: one step from a state satisfying the invariants and <c, r> = kold (exact previous line search), delta <> 0;
   the induction carrying <c_k, r_k> = kold_k along the whole run (and the degenerate case delta = 0) is not done. *)
Theorem C10_cgls_step_descent_partial :
  forall (O : OrdField) (absf : O -> O) n (A : list (list O)), wfM O n A ->
  forall y, length y = length A -> forall damp (st : clst O),
  cl_inv O n A y damp st -> cl_rinv O n A damp st ->
  dot O (cl_c O st) (cl_r O st) = cl_kold O st ->
  radd O (dot O (cl_q O st) (cl_q O st)) (rmul O (rmul O damp damp) (dot O (cl_c O st) (cl_c O st))) <> r0 O ->
  let delta := radd O (dot O (cl_q O st) (cl_q O st)) (rmul O (rmul O damp damp) (dot O (cl_c O st) (cl_c O st))) in
  let a := rdiv O (cl_kold O st) delta in
  radd O (lsfun O A y damp (cl_x O (cgls_step O absf n A st))) (rmul O (rmul O a a) delta) = lsfun O A y damp (cl_x O st)
  /\ rle O (lsfun O A y damp (cl_x O (cgls_step O absf n A st))) (lsfun O A y damp (cl_x O st)).
Proof. exact cgls_step_descent. Qed.
Print Assumptions C10_cgls_step_descent_partial.

Example C10_hypotheses_satisfiable :
  wfM QcF 2 eA /\ length ey = length eA /\ (forall v : list QcF, absR (dot QcF v v) = dot QcF v v) /\
  x0_ok QcF 2 (Some [qz 1; qz (-1)]) /\ linop QcF 2 2 (normal_op QcF 2 eA ed).
Proof. exact example_hyps10. Qed.
Print Assumptions C10_hypotheses_satisfiable.

Example C10_descent_hypotheses_satisfiable :
  let st := cgls_setup QcF absR 2 eA true ey (Some [qz 1; qz (-1)]) ed in
  dot QcF (cl_c QcF st) (cl_r QcF st) = cl_kold QcF st /\
  (dot QcF (cl_q QcF st) (cl_q QcF st) + ed * ed * dot QcF (cl_c QcF st) (cl_c QcF st))%Qc <> 0%Qc.
Proof. exact example_descent_hyps. Qed.
Print Assumptions C10_descent_hypotheses_satisfiable.
