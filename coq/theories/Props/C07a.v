(* C07 part (a) (+ family-level C01/C02 statements for the derivative family):
   FirstDerivative / SecondDerivative compute the documented stencils; their
   hand-written forward / adjoint pairs are adjoint and linear, for every size.
   Final statements only. *)
From Coq Require Import QArith Qcanon List.
From PV Require Import Dict Vec Dot QcInst Slice Deriv Deriv2 DerivSpec DerivStencil DerivND Causal.
Import ListNotations.
Open Scope nat_scope.

(* --- documented stencil, row by row (all sizes n >= the size the code needs, all rows, all inputs) --- *)
Theorem C07a_sd_meets_spec : forall (F : FieldS) k e s (x : list F) i, i < length x -> sd_minsize k e <= length x ->
  nth i (sd_fwd F k e s x) (r0 F) = sd_spec F k e s (length x) i x.
Proof. exact sd_meets_spec. Qed.
Print Assumptions C07a_sd_meets_spec.
Theorem C07a_fd_meets_spec : forall (F : FieldS) k o e s (x : list F) i, i < length x -> fd_minsize k o e <= length x ->
  nth i (fd_fwd F k o e s x) (r0 F) = fd_spec F k o e s (length x) i x.
Proof. exact fd_meets_spec. Qed.
Print Assumptions C07a_fd_meets_spec.
(* hypotheses are satisfiable by non-trivial objects: 5 quadratic samples, 5-point stencil with edges *)
Example C07a_fd_centered5_example : map this (fd_fwd QcF Centered true true q1 xsq) = [1#1; 2#1; 4#1; 6#1; 7#1]%Q.
Proof. exact fd_example. Qed.
Example C07a_sd_example : map this (sd_fwd QcF Centered true q1 xsq) = [2#1; 2#1; 2#1; 2#1; 2#1]%Q.
Proof. exact sd_example. Qed.

(* --- C01 at family level: the hand-written pairs are adjoint for every size --- *)
Theorem C01_fd_adjoint : forall (F : FieldS) k o e s (x y : list F), length x = length y -> fd_minsize k o e <= length x ->
  dotu F (fd_fwd F k o e s x) y = dotu F x (fd_adj F k o e s y).
Proof. exact fd_adjoint. Qed.
Print Assumptions C01_fd_adjoint.
Theorem C01_sd_adjoint : forall (F : FieldS) k e s (x y : list F), length x = length y -> sd_minsize k e <= length x ->
  dotu F (sd_fwd F k e s x) y = dotu F x (sd_adj F k e s y).
Proof. exact sd_adjoint. Qed.
Print Assumptions C01_sd_adjoint.
(* the guard 4 <= n of kind='centered', order=5, edge=True is sharp: at n = 3 the code runs and is NOT adjoint *)
Theorem C01_fd_c5_edge_n3_refuted : exists x y : list Qc, length x = 3 /\ length y = 3 /\
  dotu QcR (fd_fwd QcF Centered true true q1 x) y <> dotu QcR x (fd_adj QcF Centered true true q1 y).
Proof. exact fd_c5_edge_n3_refuted. Qed.
Print Assumptions C01_fd_c5_edge_n3_refuted.

(* --- C02 at family level --- *)
Theorem C02_fd_fwd_linear : forall (F : FieldS) k o e s n, fd_minsize k o e <= n -> LinearOn F n (fd_fwd F k o e s).
Proof. exact fd_fwd_linear. Qed.
Print Assumptions C02_fd_fwd_linear.
Theorem C02_fd_adj_linear : forall (F : FieldS) k o e s n, fd_minsize k o e <= n -> LinearOn F n (fd_adj F k o e s).
Proof. exact fd_adj_linear. Qed.
Print Assumptions C02_fd_adj_linear.
Theorem C02_sd_fwd_linear : forall (F : FieldS) k e s n, sd_minsize k e <= n -> LinearOn F n (sd_fwd F k e s).
Proof. exact sd_fwd_linear. Qed.
Print Assumptions C02_sd_fwd_linear.
Theorem C02_sd_adj_linear : forall (F : FieldS) k e s n, sd_minsize k e <= n -> LinearOn F n (sd_adj F k e s).
Proof. exact sd_adj_linear. Qed.
Print Assumptions C02_sd_adj_linear.
(* any map with an adjoint (w.r.t. the bilinear pairing) is linear *)
Theorem C02_adjoint_pair_linear : forall (R : CRing) n m f g, AdjPair R n m f g ->
  (forall y, length y = m -> length (g y) = n) -> LinearOn R m g.
Proof. exact adjpair_linear_r. Qed.
Print Assumptions C02_adjoint_pair_linear.

(* --- slicing primitives --- *)
Theorem C01_embed_slice_adj : forall (R : CRing) n a (v w : list R), length w = n -> a + length v <= n ->
  dotu R (embed R n a v) w = dotu R v (slice R a (a + length v) w).
Proof. exact embed_slice_adj. Qed.
Print Assumptions C01_embed_slice_adj.

(* --- Laplacian (2-D): the composition as coded (kind and edge forwarded to every axis) computes the
   documented Laplacian, for every kind / edge / weights / samplings and every large-enough n0 x n1 array --- *)
Theorem C07a_laplacian_meets_doc : forall (F : FieldS) k e w0 w1 s0 s1 n0 n1 (X : list (list F)),
  length X = n0 -> Forall (fun r => length r = n1) X -> sd_minsize k e <= n0 -> sd_minsize k e <= n1 ->
  lap2_coded F k e w0 w1 s0 s1 n0 n1 X = lap2_doc F k e w0 w1 s0 s1 n0 n1 X.
Proof. exact lap2_meets_doc. Qed.
Print Assumptions C07a_laplacian_meets_doc.
Example C07a_laplacian_example :
  map (map this) (lap2_coded QcF Forward false q1 q1 q1 q1 3 3 X33) = [[2#1; 0#1; 0#1]; [0#1; 0#1; 0#1]; [0#1; 0#1; 0#1]]%Q.
Proof. exact lap2_example. Qed.

(* --- CausalIntegration: kind full / half / trapezoidal, removefirst; all sizes. The hypothesis
   1 + 1 <> 0 (the code divides by 2.0) holds in Qc: C07a_two_nonzero_Qc. --- *)
Theorem C07a_ci_meets_spec : forall (F : FieldS) k (rf : bool) s (x : list F) i, radd F (r1 F) (r1 F) <> r0 F ->
  (if rf then S i else i) < length x ->
  nth i (ci_mv F k rf s x) (r0 F) = ci_spec F k rf s i x.
Proof. exact ci_meets_spec. Qed.
Print Assumptions C07a_ci_meets_spec.
Theorem C01_ci_adjoint : forall (F : FieldS) k (rf : bool) s (x y : list F), radd F (r1 F) (r1 F) <> r0 F ->
  length y = (if rf then length x - 1 else length x) -> (if rf then 1 else 0) <= length x ->
  dotu F (ci_mv F k rf s x) y = dotu F x (ci_rmv F k rf s y).
Proof. exact ci_adjoint. Qed.
Print Assumptions C01_ci_adjoint.
Theorem C02_ci_fwd_linear : forall (F : FieldS) k (rf : bool) s n, radd F (r1 F) (r1 F) <> r0 F ->
  (if rf then 1 else 0) <= n -> LinearOn F n (ci_mv F k rf s).
Proof. exact ci_fwd_linear. Qed.
Print Assumptions C02_ci_fwd_linear.
Theorem C02_ci_adj_linear : forall (F : FieldS) k (rf : bool) s n, radd F (r1 F) (r1 F) <> r0 F ->
  (if rf then 1 else 0) <= n -> LinearOn F (if rf then n - 1 else n) (ci_rmv F k rf s).
Proof. exact ci_adj_linear. Qed.
Print Assumptions C02_ci_adj_linear.
Example C07a_two_nonzero_Qc : radd QcF (r1 QcF) (r1 QcF) <> r0 QcF.
Proof. intro H. apply (f_equal this) in H. vm_compute in H. discriminate. Qed.
Example C07a_ci_example : map this (ci_mv QcF Trapezoidal true q1 xsq) = [1#2; 3#1; 19#2; 22#1]%Q.
Proof. vm_compute. reflexivity. Qed.
