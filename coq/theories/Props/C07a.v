(* C07 part (a) (+ family-level C01/C02 statements for the derivative family):
   FirstDerivative / SecondDerivative compute the documented stencils; their
   hand-written forward / adjoint pairs are adjoint and linear, for every size.
   Final statements only. *)
From Coq Require Import QArith Qcanon List.
From PV Require Import Dict Vec Dot QcInst Slice Deriv Deriv2 DerivSpec DerivStencil DerivND Causal Axis AxisOps.
Import ListNotations.
Open Scope nat_scope.

(* --- documented stencil, row by row (all sizes n >= the size the code needs, all rows, all inputs) --- *)
Theorem C07a_sd_meets_spec : forall (F : FieldS) k e s (x : list F) i, i < length x -> sd_minsize k e <= length x ->
  nth i (sd_fwd F k e s x) (r0 F) = sd_spec F k e s (length x) i x.
Proof. exact sd_meets_spec. Qed.
Print Assumptions C07a_sd_meets_spec.
Theorem C07a_fd_meets_spec : forall (F : FieldS) k o e s (x : list F) i, i < length x -> fd_minsize k o e <= length x ->
  nth i (fd_fwd F k o e s x) (r0 F) = fd_spec F k o e s (length x) i x.
Proof. exact fd_meets_spec. Qed.
Print Assumptions C07a_fd_meets_spec.
(* hypotheses are satisfiable by non-trivial objects: 5 quadratic samples, 5-point stencil with edges *)
Example C07a_fd_centered5_example : map this (fd_fwd QcF Centered true true q1 xsq) = [1#1; 2#1; 4#1; 6#1; 7#1]%Q.
Proof. exact fd_example. Qed.
Example C07a_sd_example : map this (sd_fwd QcF Centered true q1 xsq) = [2#1; 2#1; 2#1; 2#1; 2#1]%Q.
Proof. exact sd_example. Qed.

(* --- C01 at family level: the hand-written pairs are adjoint for every size --- *)
Theorem C01_fd_adjoint : forall (F : FieldS) k o e s (x y : list F), length x = length y -> fd_minsize k o e <= length x ->
  dotu F (fd_fwd F k o e s x) y = dotu F x (fd_adj F k o e s y).
Proof. exact fd_adjoint. Qed.
Print Assumptions C01_fd_adjoint.
Theorem C01_sd_adjoint : forall (F : FieldS) k e s (x y : list F), length x = length y -> sd_minsize k e <= length x ->
  dotu F (sd_fwd F k e s x) y = dotu F x (sd_adj F k e s y).
Proof. exact sd_adjoint. Qed.
Print Assumptions C01_sd_adjoint.
(* the guard 4 <= n of kind='centered', order=5, edge=True is sharp: at n = 3 the code runs and is NOT adjoint *)
Theorem C01_fd_c5_edge_n3_refuted : exists x y : list Qc, length x = 3 /\ length y = 3 /\
  dotu QcR (fd_fwd QcF Centered true true q1 x) y <> dotu QcR x (fd_adj QcF Centered true true q1 y).
Proof. exact fd_c5_edge_n3_refuted. Qed.
Print Assumptions C01_fd_c5_edge_n3_refuted.

(* --- C02 at family level --- *)
Theorem C02_fd_fwd_linear : forall (F : FieldS) k o e s n, fd_minsize k o e <= n -> LinearOn F n (fd_fwd F k o e s).
Proof. exact fd_fwd_linear. Qed.
Print Assumptions C02_fd_fwd_linear.
Theorem C02_fd_adj_linear : forall (F : FieldS) k o e s n, fd_minsize k o e <= n -> LinearOn F n (fd_adj F k o e s).
Proof. exact fd_adj_linear. Qed.
Print Assumptions C02_fd_adj_linear.
Theorem C02_sd_fwd_linear : forall (F : FieldS) k e s n, sd_minsize k e <= n -> LinearOn F n (sd_fwd F k e s).
Proof. exact sd_fwd_linear. Qed.
Print Assumptions C02_sd_fwd_linear.
Theorem C02_sd_adj_linear : forall (F : FieldS) k e s n, sd_minsize k e <= n -> LinearOn F n (sd_adj F k e s).
Proof. exact sd_adj_linear. Qed.
Print Assumptions C02_sd_adj_linear.
(* any map with an adjoint (w.r.t. the bilinear pairing) is linear *)
Theorem C02_adjoint_pair_linear : forall (R : CRing) n m f g, AdjPair R n m f g ->
  (forall y, length y = m -> length (g y) = n) -> LinearOn R m g.
Proof. exact adjpair_linear_r. Qed.
Print Assumptions C02_adjoint_pair_linear.

(* --- slicing primitives --- *)
Theorem C01_embed_slice_adj : forall (R : CRing) n a (v w : list R), length w = n -> a + length v <= n ->
  dotu R (embed R n a v) w = dotu R v (slice R a (a + length v) w).
Proof. exact embed_slice_adj. Qed.
Print Assumptions C01_embed_slice_adj.

(* --- Laplacian (2-D): the composition as coded (kind and edge forwarded to every axis) computes the
   documented Laplacian, for every kind / edge / weights / samplings and every large-enough n0 x n1 array --- *)
Theorem C07a_laplacian_meets_doc : forall (F : FieldS) k e w0 w1 s0 s1 n0 n1 (X : list (list F)),
  length X = n0 -> Forall (fun r => length r = n1) X -> sd_minsize k e <= n0 -> sd_minsize k e <= n1 ->
  lap2_coded F k e w0 w1 s0 s1 n0 n1 X = lap2_doc F k e w0 w1 s0 s1 n0 n1 X.
Proof. exact lap2_meets_doc. Qed.
Print Assumptions C07a_laplacian_meets_doc.
Example C07a_laplacian_example :
  map (map this) (lap2_coded QcF Forward false q1 q1 q1 q1 3 3 X33) = [[2#1; 0#1; 0#1]; [0#1; 0#1; 0#1]; [0#1; 0#1; 0#1]]%Q.
Proof. exact lap2_example. Qed.

(* --- CausalIntegration: kind full / half / trapezoidal, removefirst; all sizes. The hypothesis
   1 + 1 <> 0 (the code divides by 2.0) holds in Qc: C07a_two_nonzero_Qc. --- *)
Theorem C07a_ci_meets_spec : forall (F : FieldS) k (rf : bool) s (x : list F) i, radd F (r1 F) (r1 F) <> r0 F ->
  (if rf then S i else i) < length x ->
  nth i (ci_mv F k rf s x) (r0 F) = ci_spec F k rf s i x.
Proof. exact ci_meets_spec. Qed.
Print Assumptions C07a_ci_meets_spec.
Theorem C01_ci_adjoint : forall (F : FieldS) k (rf : bool) s (x y : list F), radd F (r1 F) (r1 F) <> r0 F ->
  length y = (if rf then length x - 1 else length x) -> (if rf then 1 else 0) <= length x ->
  dotu F (ci_mv F k rf s x) y = dotu F x (ci_rmv F k rf s y).
Proof. exact ci_adjoint. Qed.
Print Assumptions C01_ci_adjoint.
Theorem C02_ci_fwd_linear : forall (F : FieldS) k (rf : bool) s n, radd F (r1 F) (r1 F) <> r0 F ->
  (if rf then 1 else 0) <= n -> LinearOn F n (ci_mv F k rf s).
Proof. exact ci_fwd_linear. Qed.
Print Assumptions C02_ci_fwd_linear.
Theorem C02_ci_adj_linear : forall (F : FieldS) k (rf : bool) s n, radd F (r1 F) (r1 F) <> r0 F ->
  (if rf then 1 else 0) <= n -> LinearOn F (if rf then n - 1 else n) (ci_rmv F k rf s).
Proof. exact ci_adj_linear. Qed.
Print Assumptions C02_ci_adj_linear.
Example C07a_two_nonzero_Qc : radd QcF (r1 QcF) (r1 QcF) <> r0 QcF.
Proof. intro H. apply (f_equal this) in H. vm_compute in H. discriminate. Qed.
Example C07a_ci_example : map this (ci_mv QcF Trapezoidal true q1 xsq) = [1#2; 3#1; 19#2; 22#1]%Q.
Proof. vm_compute. reflexivity. Qed.

(* ================= any axis of any N-d C-ordered array (Ops/Axis.v, Ops/AxisOps.v) =================
   dims = outer x n x inner seen from the axis; flat index i <-> (o, j, k) = (i/inner/n', (i/inner) mod n', i mod inner) *)
Theorem C01_along_axis_adjoint : forall (R : CRing) outer n n' inner f g, AdjPair R n n' f g ->
  (forall a, length a = n -> length (f a) = n') -> (forall b, length b = n' -> length (g b) = n) ->
  AdjPair R (outer * n * inner) (outer * n' * inner) (along_axis_gen R outer n n' inner f) (along_axis_gen R outer n' n inner g).
Proof. exact along_axis_gen_adjoint. Qed.
Print Assumptions C01_along_axis_adjoint.
Theorem C02_along_axis_linear : forall (R : CRing) outer n n' inner f, LinearOn R n f ->
  (forall a, length a = n -> length (f a) = n') -> LinearOn R (outer * n * inner) (along_axis_gen R outer n n' inner f).
Proof. exact along_axis_gen_linear. Qed.
Print Assumptions C02_along_axis_linear.
Theorem C07a_along_axis_entry : forall (R : CRing) outer n n' inner f (x : list R) o j k,
  (forall a, length a = n -> length (f a) = n') -> length x = outer * n * inner -> o < outer -> j < n' -> k < inner ->
  nth ((o * n' + j) * inner + k) (along_axis_gen R outer n n' inner f x) (r0 R) = nth j (f (fibre R n inner o k x)) (r0 R).
Proof. exact nth_along_axis_gen. Qed.
Print Assumptions C07a_along_axis_entry.
Theorem C07a_along_axis_wrapper : forall (R : CRing) outer n n' inner f, (forall a, length a = n -> length (f a) = n') ->
  along_axis R outer n inner f = along_axis_gen R outer n n' inner f.
Proof. exact along_axis_eq. Qed.

(* FirstDerivative / SecondDerivative / CausalIntegration along any axis *)
Theorem C07a_fd_nd_meets_spec : forall (F : FieldS) outer n inner k o e s (x : list F) i,
  fd_minsize k o e <= n -> length x = outer * n * inner -> i < outer * n * inner ->
  nth i (fd_nd F outer n inner k o e s x) (r0 F) =
  fd_spec F k o e s n ((i / inner) mod n) (fibre F n inner (i / inner / n) (i mod inner) x).
Proof. exact fd_nd_meets_spec. Qed.
Print Assumptions C07a_fd_nd_meets_spec.
Theorem C01_fd_nd_adjoint : forall (F : FieldS) outer n inner k o e s, fd_minsize k o e <= n ->
  AdjPair F (outer * n * inner) (outer * n * inner) (fd_nd F outer n inner k o e s) (fd_nd_adj F outer n inner k o e s).
Proof. exact fd_nd_adjoint. Qed.
Print Assumptions C01_fd_nd_adjoint.
Theorem C02_fd_nd_linear : forall (F : FieldS) outer n inner k o e s, fd_minsize k o e <= n ->
  LinearOn F (outer * n * inner) (fd_nd F outer n inner k o e s).
Proof. exact fd_nd_linear. Qed.
Theorem C07a_sd_nd_meets_spec : forall (F : FieldS) outer n inner k e s (x : list F) i,
  sd_minsize k e <= n -> length x = outer * n * inner -> i < outer * n * inner ->
  nth i (sd_nd F outer n inner k e s x) (r0 F) =
  sd_spec F k e s n ((i / inner) mod n) (fibre F n inner (i / inner / n) (i mod inner) x).
Proof. exact sd_nd_meets_spec. Qed.
Print Assumptions C07a_sd_nd_meets_spec.
Theorem C01_sd_nd_adjoint : forall (F : FieldS) outer n inner k e s, sd_minsize k e <= n ->
  AdjPair F (outer * n * inner) (outer * n * inner) (sd_nd F outer n inner k e s) (sd_nd_adj F outer n inner k e s).
Proof. exact sd_nd_adjoint. Qed.
Print Assumptions C01_sd_nd_adjoint.
Theorem C02_sd_nd_linear : forall (F : FieldS) outer n inner k e s, sd_minsize k e <= n ->
  LinearOn F (outer * n * inner) (sd_nd F outer n inner k e s).
Proof. exact sd_nd_linear. Qed.
Theorem C07a_ci_nd_meets_spec : forall (F : FieldS) outer n inner k (rf : bool) s (x : list F) i,
  radd F (r1 F) (r1 F) <> r0 F -> (if rf then 1 else 0) <= n ->
  length x = outer * n * inner -> i < outer * rfn rf n * inner ->
  nth i (ci_nd F outer n inner k rf s x) (r0 F) =
  ci_spec F k rf s ((i / inner) mod rfn rf n) (fibre F n inner (i / inner / rfn rf n) (i mod inner) x).
Proof. exact ci_nd_meets_spec. Qed.
Print Assumptions C07a_ci_nd_meets_spec.
Theorem C01_ci_nd_adjoint : forall (F : FieldS) outer n inner k (rf : bool) s,
  radd F (r1 F) (r1 F) <> r0 F -> (if rf then 1 else 0) <= n ->
  AdjPair F (outer * n * inner) (outer * rfn rf n * inner) (ci_nd F outer n inner k rf s) (ci_nd_adj F outer n inner k rf s).
Proof. exact ci_nd_adjoint. Qed.
Print Assumptions C01_ci_nd_adjoint.
Theorem C02_ci_nd_linear : forall (F : FieldS) outer n inner k (rf : bool) s,
  radd F (r1 F) (r1 F) <> r0 F -> (if rf then 1 else 0) <= n -> LinearOn F (outer * n * inner) (ci_nd F outer n inner k rf s).
Proof. exact ci_nd_linear. Qed.

(* Laplacian over any number of axes of an N-d array (each axis = a factorisation outer*n*inner of N) *)
Theorem C07a_laplacian_nd_meets_spec : forall (F : FieldS) N k e (axes : list (axis F)) (x : list F) i,
  axes_ok F N (sd_minsize k e) axes -> length x = N -> i < N ->
  nth i (lap_nd F N k e axes x) (r0 F) =
  fold_right (fun a acc => radd F (rmul F (a_w F a)
       (sd_spec F k e (a_s F a) (a_n F a) ((i / a_inner F a) mod a_n F a)
          (fibre F (a_n F a) (a_inner F a) (i / a_inner F a / a_n F a) (i mod a_inner F a) x))) acc) (r0 F) axes.
Proof. exact lap_nd_meets_spec. Qed.
Print Assumptions C07a_laplacian_nd_meets_spec.
Theorem C01_laplacian_nd_adjoint : forall (F : FieldS) N k e (axes : list (axis F)),
  axes_ok F N (sd_minsize k e) axes -> AdjPair F N N (lap_nd F N k e axes) (lap_nd_adj F N k e axes).
Proof. exact lap_nd_adjoint. Qed.
Print Assumptions C01_laplacian_nd_adjoint.
(* Gradient = vertical stack of the per-axis first derivatives; adjoint = sum of the per-axis adjoints *)
Theorem C07a_gradient_nd_meets_spec : forall (F : FieldS) N k e (axes : list (axis F)) (x : list F) b i a,
  axes_ok F N (fd_minsize k false e) axes -> length x = N -> i < N -> nth_error axes b = Some a ->
  nth (b * N + i) (grad_nd F k e axes x) (r0 F) =
  fd_spec F k false e (a_s F a) (a_n F a) ((i / a_inner F a) mod a_n F a)
    (fibre F (a_n F a) (a_inner F a) (i / a_inner F a / a_n F a) (i mod a_inner F a) x).
Proof. exact grad_nd_meets_spec. Qed.
Print Assumptions C07a_gradient_nd_meets_spec.
Theorem C01_gradient_nd_adjoint : forall (F : FieldS) N k e (axes : list (axis F)),
  axes_ok F N (fd_minsize k false e) axes -> AdjPair F N (N * length axes) (grad_nd F k e axes) (grad_nd_adj F N k e axes).
Proof. exact grad_nd_adjoint. Qed.
Print Assumptions C01_gradient_nd_adjoint.
(* FirstDirectionalDerivative = sum_a v_a .* D_a ; SecondDirectionalDerivative = - D_v^T D_v *)
Theorem C07a_fdd_nd_meets_spec : forall (F : FieldS) N k e (axes : list (axis F * list F)) (x : list F) i,
  vaxes_ok F N (fd_minsize k false e) axes -> length x = N -> i < N ->
  nth i (fdd_nd F N k e axes x) (r0 F) =
  fold_right (fun av acc => radd F (rmul F (nth i (snd av) (r0 F))
       (fd_spec F k false e (a_s F (fst av)) (a_n F (fst av)) ((i / a_inner F (fst av)) mod a_n F (fst av))
          (fibre F (a_n F (fst av)) (a_inner F (fst av)) (i / a_inner F (fst av) / a_n F (fst av)) (i mod a_inner F (fst av)) x))) acc)
     (r0 F) axes.
Proof. exact fdd_nd_meets_spec. Qed.
Print Assumptions C07a_fdd_nd_meets_spec.
Theorem C01_fdd_nd_adjoint : forall (F : FieldS) N k e (axes : list (axis F * list F)),
  vaxes_ok F N (fd_minsize k false e) axes -> AdjPair F N N (fdd_nd F N k e axes) (fdd_nd_adj F N k e axes).
Proof. exact fdd_nd_adjoint. Qed.
Print Assumptions C01_fdd_nd_adjoint.
Theorem C01_sdd_nd_selfadjoint : forall (F : FieldS) N e (axes : list (axis F * list F)),
  vaxes_ok F N (fd_minsize Centered false e) axes -> AdjPair F N N (sdd_nd F N e axes) (sdd_nd F N e axes).
Proof. exact sdd_nd_selfadjoint. Qed.
Print Assumptions C01_sdd_nd_selfadjoint.

(* non-vacuity: a 2 x 3 array, both axes, edges on *)
Definition ax23 : list (axis QcF) := [Build_axis QcF 1 2 3 q1 q1; Build_axis QcF 2 3 1 q1 q1].
Example C07a_axes_ok_example : axes_ok QcF 6 (fd_minsize Centered false true) ax23.
Proof. repeat constructor. Qed.
Example C07a_gradient_nd_example :
  map this (grad_nd QcF Centered true ax23 (map (fun k => Q2Qc (Z.of_nat (k * k) # 1)) (seq 0 6))) =
  [9#1; 15#1; 21#1; 9#1; 15#1; 21#1;  1#1; 2#1; 3#1; 7#1; 8#1; 9#1]%Q.
Proof. vm_compute. reflexivity. Qed.
