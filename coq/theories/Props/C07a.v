(* C07 part (a) — placeholder until the theorem list is final *)
From PV Require Import DerivSpec.
