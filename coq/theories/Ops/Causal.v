(* Causal.v — CausalIntegration (pylops/basicoperators/causalintegration.py):
   code-shaped _matvec / _rmatvec for kind full / half / trapezoidal and
   removefirst, the documented quadrature rules, adjointness for all sizes. *)
From Coq Require Import ZArith Lia ZifyBool.
From PV Require Export Deriv DerivSpec.

Inductive ckind := Full | Half | Trapezoidal.

Section Causal.
Variable F : FieldS.
Add Ring RrC : (rth F).
Add Field FfC : (fth F).
Notation vec := (list F).
Notation vadd := (vadd F). Notation vsub := (vsub F). Notation vscale := (vscale F).
Notation zeros := (zeros F). Notation dotu := (dotu F). Notation vsum := (vsum F).
Notation two := (two F). Notation vdivc := (vdivc F).
Local Open Scope R_scope.

(* np.cumsum *)
Fixpoint cumsum_from (acc : F) (x : vec) : vec :=
  match x with [] => [] | a :: t => (acc + a) :: cumsum_from (acc + a) t end.
Definition cumsum (x : vec) : vec := cumsum_from 0 x.

(* _matvec *)
Definition ci_mv (k : ckind) (removefirst : bool) (s : F) (x : vec) : vec :=
  let y := vscale s (cumsum x) in                                   (* y = sampling * cumsum(x) *)
  let y := match k with Full => y | _ => vsub y (vdivc two (vscale s x)) end in      (* y -= sampling * x / 2 *)
  let y := match k with
           | Trapezoidal =>                                         (* y[1:] -= sampling * x[0:1] / 2  (broadcast) *)
             firstn 1 y ++ map (fun a => a - nth 0 (vdivc two (vscale s (firstn 1 x))) 0) (skipn 1 y)
           | _ => y end in
  if removefirst then skipn 1 y else y.                             (* y = y[1:] *)
(* _rmatvec *)
Definition ci_rmv (k : ckind) (removefirst : bool) (s : F) (x : vec) : vec :=
  let x := if removefirst then 0 :: x else x in                     (* np.insert(x, 0, 0) *)
  let xflip := rev x in
  let y := match k with
           | Half => vscale s (vsub (cumsum xflip) (vdivc two xflip))
           | Trapezoidal =>
             let y := vscale s (vsub (cumsum xflip) (vdivc two xflip)) in
             (* y[-1] = sampling * sum(xflip) / 2 *)
             firstn (length y - 1) y ++ firstn 1 (skipn (length y - 1) (map (fun _ => s * vsum xflip / two) y))
           | Full => vscale s (cumsum xflip)
           end in
  rev y.

(* documented quadrature rules (dt = s):
   full  y[i] = sum_{j=0..i} x[j] dt ;  half  y[i] = (sum_{j=0..i-1} x[j] + 0.5 x[i]) dt ;
   trapezoidal  y[i] = (sum_{j=1..i-1} x[j] + 0.5 x[0] + 0.5 x[i]) dt  for i >= 1 (the
   two half-weighted end points coincide at i = 0, where the single sample is
   counted once: 0.5 x[0] dt);  removefirst drops row 0. *)
Fixpoint sumn (f : nat -> F) (k : nat) : F := match k with O => 0 | S k' => sumn f k' + f k' end.
Notation nt x i := (nth i x 0).
Definition ci_spec (k : ckind) (removefirst : bool) (s : F) (i : nat) (x : vec) : F :=
  let i := if removefirst then S i else i in
  match k with
  | Full => sumn (fun j => nt x j) (S i) * s
  | Half => (sumn (fun j => nt x j) i + half F * nt x i) * s
  | Trapezoidal =>
    match i with
    | O => half F * nt x 0 * s
    | S i' => (sumn (fun j => nt x (S j)) i' + half F * nt x 0 + half F * nt x i) * s
    end
  end.
End Causal.

(* ================= proofs: adjointness, documented quadrature, lengths, linearity ================= *)
Section CausalProofs.
Variable F : FieldS.
Add Ring RrCP : (rth F).
Add Field FfCP : (fth F).
Notation vec := (list F).
Notation vadd := (vadd F). Notation vsub := (vsub F). Notation vscale := (vscale F).
Notation dotu := (dotu F). Notation vsum := (vsum F).
Notation two := (two F). Notation vdivc := (vdivc F).
Notation cumsum_from := (cumsum_from F). Notation cumsum := (cumsum F).
Local Open Scope R_scope.

(* suffix sums: the transpose of cumsum *)
Fixpoint sufsum (y : vec) : vec := match y with [] => [] | a :: t => (a + vsum t) :: sufsum t end.

Lemma cumsum_from_length acc x : length (cumsum_from acc x) = length x.
Proof. revert acc; induction x as [|a t IH]; intros; simpl; auto. Qed.
Lemma sufsum_length y : length (sufsum y) = length y.
Proof. induction y; simpl; auto. Qed.
Lemma cumsum_from_app acc l a : cumsum_from acc (l ++ [a]) = cumsum_from acc l ++ [acc + vsum l + a].
Proof. revert acc; induction l as [|b l IH]; intros acc; simpl.
  - f_equal. ring.
  - rewrite IH. do 3 f_equal. ring. Qed.
Lemma vsum_rev l : vsum (rev l) = vsum l.
Proof. induction l as [|a l IH]; simpl; auto. rewrite vsum_app, IH. simpl. ring. Qed.
Lemma rev_cumsum_rev y : rev (cumsum (rev y)) = sufsum y.
Proof. unfold Causal.cumsum. induction y as [|a t IH]; simpl; auto.
  rewrite cumsum_from_app, rev_app_distr. simpl. rewrite IH, vsum_rev. f_equal. ring. Qed.
Lemma dotu_cumsum_from acc x y : length x = length y ->
  dotu (cumsum_from acc x) y = acc * vsum y + dotu x (sufsum y).
Proof. revert acc y; induction x as [|a t IH]; intros acc [|b u] H; simpl in *; try discriminate; try ring.
  rewrite IH by lia. ring. Qed.
Lemma rev_map2 (f : F -> F -> F) u v : length u = length v -> rev (map2 f u v) = map2 f (rev u) (rev v).
Proof. revert v; induction u as [|a u IH]; intros [|b v] H; simpl in *; try discriminate; auto.
  rewrite IH by lia. clear IH. assert (L : length (rev u) = length (rev v)) by (rewrite !rev_length; lia).
  revert L. generalize (rev u) (rev v). intros p; induction p as [|c p IHp]; intros [|d q] L; simpl in *; try discriminate; auto.
  rewrite IHp by lia. reflexivity. Qed.
Lemma rev_vdivc c u : rev (vdivc c u) = vdivc c (rev u).
Proof. unfold Deriv.vdivc. symmetry. apply map_rev. Qed.
Lemma rev_vscale c u : rev (vscale c u) = vscale c (rev u).
Proof. unfold Vec.vscale. symmetry. apply map_rev. Qed.

(* closed forms of the adjoint as coded (no flips) *)
Definition half_adj (s : F) (y : vec) : vec := vscale s (vsub (sufsum y) (vdivc two y)).
Lemma rmv_full s y : ci_rmv F Full false s y = vscale s (sufsum y).
Proof. unfold ci_rmv. rewrite rev_vscale, rev_cumsum_rev. reflexivity. Qed.
Lemma rmv_half s y : ci_rmv F Half false s y = half_adj s y.
Proof. unfold ci_rmv, half_adj, Vec.vsub. rewrite rev_vscale, rev_map2 by (unfold Causal.cumsum; rewrite cumsum_from_length, vdivc_length; auto).
  rewrite rev_cumsum_rev, rev_vdivc, rev_involutive. reflexivity. Qed.
Lemma firstn_last {A} (l : list A) a : firstn (length (l ++ [a]) - 1) (l ++ [a]) = l.
Proof. rewrite app_length. simpl. replace (length l + 1 - 1)%nat with (length l) by lia.
  induction l; simpl; auto. f_equal; auto. Qed.
Lemma skipn_last {A B} (f : A -> B) (l : list A) a : skipn (length (l ++ [a]) - 1) (map f (l ++ [a])) = [f a].
Proof. rewrite app_length. simpl. replace (length l + 1 - 1)%nat with (length l) by lia.
  induction l; simpl; auto. Qed.
Lemma rmv_trap s y : (1 <= length y)%nat ->
  ci_rmv F Trapezoidal false s y = (s * vsum y / two) :: tl (half_adj s y).
Proof. intros Hn. unfold ci_rmv.
  assert (E : vscale s (vsub (cumsum (rev y)) (vdivc two (rev y))) = rev (half_adj s y)).
  { rewrite <- rmv_half. unfold ci_rmv. rewrite rev_involutive. reflexivity. }
  rewrite E. assert (Lh : length (half_adj s y) = length y).
  { unfold half_adj. rewrite vscale_length, vsub_length, sufsum_length, vdivc_length. lia. }
  destruct (half_adj s y) as [|h T]; [simpl in Lh; lia|]. simpl rev. simpl tl.
  rewrite firstn_last, skipn_last. simpl firstn. rewrite rev_app_distr. simpl. rewrite rev_involutive, vsum_rev. reflexivity. Qed.

Lemma mv_full_adj s x y : length x = length y -> dotu (ci_mv F Full false s x) y = dotu x (ci_rmv F Full false s y).
Proof. intros H. rewrite rmv_full. unfold ci_mv, Causal.cumsum. rewrite dotu_vscale_l, dotu_vscale_r, dotu_cumsum_from by auto. ring. Qed.
Lemma dotu_half s x y : length x = length y ->
  dotu (vsub (vscale s (cumsum x)) (vdivc two (vscale s x))) y = dotu x (half_adj s y).
Proof. intros H. unfold half_adj, Causal.cumsum.
  rewrite dotu_vsub_l by (rewrite vscale_length, cumsum_from_length, vdivc_length, vscale_length; auto).
  rewrite dotu_vscale_r, dotu_vsub_r by (rewrite sufsum_length, vdivc_length; auto).
  rewrite !vdivc_vscale, !dotu_vscale_l, dotu_vscale_r, dotu_cumsum_from by auto. ring. Qed.
Lemma mv_half_adj s x y : length x = length y -> dotu (ci_mv F Half false s x) y = dotu x (ci_rmv F Half false s y).
Proof. intros H. rewrite rmv_half. unfold ci_mv. apply dotu_half; auto. Qed.
Lemma dotu_map_sub c (u v : vec) : length u = length v -> dotu (map (fun a => a - c) u) v = dotu u v - c * vsum v.
Proof. revert v; induction u as [|a u IH]; intros [|b v] H; simpl in *; try discriminate; try ring. rewrite IH by lia. ring. Qed.
Lemma mv_trap_adj s x y : 1 + 1 <> (0 : F) -> length x = length y ->
  dotu (ci_mv F Trapezoidal false s x) y = dotu x (ci_rmv F Trapezoidal false s y).
Proof. intros H2 H. destruct x as [|a t]; destruct y as [|b u]; simpl in H; try discriminate; [reflexivity|].
  rewrite rmv_trap by (simpl; lia). pose proof (dotu_half s (a :: t) (b :: u)) as D. specialize (D ltac:(simpl; lia)).
  unfold ci_mv. remember (vsub (vscale s (cumsum (a :: t))) (vdivc two (vscale s (a :: t)))) as y0 eqn:E0.
  assert (L0 : length y0 = S (length t)).
  { subst y0. unfold Causal.cumsum. rewrite vsub_length, vscale_length, cumsum_from_length, vdivc_length, vscale_length. simpl. lia. }
  destruct y0 as [|h0 ht]; [simpl in L0; lia|]. simpl in L0.
  assert (Lh : length (half_adj s (b :: u)) = S (length u)).
  { unfold half_adj. rewrite vscale_length, vsub_length, sufsum_length, vdivc_length. simpl. lia. }
  remember (half_adj s (b :: u)) as HA eqn:EA. destruct HA as [|h T]; [simpl in Lh; lia|].
  assert (Eh : h = s * ((b + vsum u) - b / two)).
  { unfold half_adj in EA. simpl in EA. inversion EA. reflexivity. }
  cbn [firstn skipn app tl Vec.vscale map Deriv.vdivc nth]. cbn [Dot.dotu] in *.
  rewrite dotu_map_sub by lia. cbn [Vec.vsum]. subst h.
  unfold Deriv.two in *. rewrite !div_def in *.
  assert (K : (1 + 1) * rinv F (1 + 1) = (1 : F)) by (field; auto).
  replace (dotu ht u) with (a * (s * (b + vsum u - b * rinv F (1 + 1))) + dotu t T - h0 * b) by (rewrite <- D; ring).
  match goal with |- ?L = ?R => transitivity (R + a * s * (b + vsum u) * (1 - (1 + 1) * rinv F (1 + 1))); [ring | rewrite K; ring] end.
Qed.

(* removefirst: forward drops row 0, adjoint prepends a zero sample *)
Lemma dotu_skipn1 (v y : vec) : dotu (skipn 1 v) y = dotu v (0 :: y).
Proof. destruct v; simpl; [destruct y; reflexivity | ring]. Qed.
Lemma ci_mv_rf k s x : ci_mv F k true s x = skipn 1 (ci_mv F k false s x).
Proof. reflexivity. Qed.
Lemma ci_rmv_rf k s y : ci_rmv F k true s y = ci_rmv F k false s (0 :: y).
Proof. reflexivity. Qed.
Lemma ci_adjoint_norf k s x y : 1 + 1 <> (0 : F) -> length x = length y ->
  dotu (ci_mv F k false s x) y = dotu x (ci_rmv F k false s y).
Proof. intros; destruct k; [apply mv_full_adj | apply mv_half_adj | apply mv_trap_adj]; auto. Qed.
Theorem ci_adjoint k (rf : bool) s x y : 1 + 1 <> (0 : F) ->
  length y = (if rf then length x - 1 else length x)%nat -> ((if rf then 1 else 0) <= length x)%nat ->
  dotu (ci_mv F k rf s x) y = dotu x (ci_rmv F k rf s y).
Proof. intros H2 Hy Hn. destruct rf.
  - rewrite ci_mv_rf, ci_rmv_rf, dotu_skipn1. apply ci_adjoint_norf; auto. simpl. lia.
  - apply ci_adjoint_norf; auto. Qed.

(* ---------------- model = documented quadrature ---------------- *)
Notation sumn := (sumn F).
Lemma sumn_shift f k : sumn f (S k) = f O + sumn (fun j => f (S j)) k.
Proof. induction k as [|k IH]; simpl in *; [ring|]. rewrite IH. ring. Qed.
Lemma nth_cumsum_from acc x i : (i < length x)%nat ->
  nth i (cumsum_from acc x) 0 = acc + sumn (fun j => nth j x 0) (S i).
Proof. revert acc i; induction x as [|a t IH]; intros acc i Hi; simpl in Hi; [lia|].
  destruct i as [|i].
  - simpl. ring.
  - rewrite (sumn_shift (fun j => nth j (a :: t) 0) (S i)).
    change (fun j => nth (S j) (a :: t) 0) with (fun j => nth j t 0).
    change (nth (S i) (cumsum_from acc (a :: t)) 0) with (nth i (cumsum_from (acc + a) t) 0).
    rewrite IH by lia. cbn [nth]. ring. Qed.
Lemma nth_half s x i : 1 + 1 <> (0 : F) -> (i < length x)%nat ->
  nth i (vsub (vscale s (cumsum x)) (vdivc two (vscale s x))) 0 = (sumn (fun j => nth j x 0) i + half F * nth i x 0) * s.
Proof. intros H2 Hi. unfold Causal.cumsum.
  rewrite nth_vsub by (rewrite vscale_length, cumsum_from_length, vdivc_length, vscale_length; auto).
  rewrite vdivc_vscale, !nth_vscale, nth_cumsum_from by auto. cbn [Causal.sumn]. unfold half, Deriv.two. field; auto. Qed.
Lemma ci_meets_spec_norf k s x i : 1 + 1 <> (0 : F) -> (i < length x)%nat ->
  nth i (ci_mv F k false s x) 0 = ci_spec F k false s i x.
Proof. intros H2 Hi. destruct k; unfold ci_mv, ci_spec.
  - unfold Causal.cumsum. rewrite nth_vscale, nth_cumsum_from by auto. ring.
  - apply nth_half; auto.
  - pose proof (nth_half s x) as NH.
    remember (vsub (vscale s (cumsum x)) (vdivc two (vscale s x))) as y0 eqn:E0.
    assert (L0 : length y0 = length x).
    { subst y0. unfold Causal.cumsum. rewrite vsub_length, vscale_length, cumsum_from_length, vdivc_length, vscale_length. lia. }
    destruct x as [|a t]; [simpl in Hi; lia|]. destruct y0 as [|h0 ht]; [simpl in L0; lia|]. simpl in L0.
    cbn [firstn skipn app Vec.vscale map Deriv.vdivc].
    destruct i as [|i].
    + cbn [nth]. specialize (NH O H2 ltac:(simpl; lia)). cbn [nth Causal.sumn] in NH. rewrite NH. ring.
    + cbn [nth]. simpl in Hi.
      rewrite (nth_indep _ 0 ((fun v => v - s * a / two) 0)) by (rewrite map_length; lia).
      rewrite (map_nth (fun v => v - s * a / two)).
      specialize (NH (S i) H2 ltac:(simpl; lia)).
      change (nth i ht 0) with (nth (S i) (h0 :: ht) 0). rewrite NH.
      rewrite (sumn_shift (fun j => nth j (a :: t) 0) i). cbn [nth].
      unfold half, Deriv.two. field; auto. Qed.
Theorem ci_meets_spec k (rf : bool) s x i : 1 + 1 <> (0 : F) -> ((if rf then S i else i) < length x)%nat ->
  nth i (ci_mv F k rf s x) 0 = ci_spec F k rf s i x.
Proof. intros H2 Hi. destruct rf.
  - rewrite ci_mv_rf, nth_skipn. change (1 + i)%nat with (S i). rewrite ci_meets_spec_norf by auto. reflexivity.
  - apply ci_meets_spec_norf; auto. Qed.

(* ---------------- lengths and linearity ---------------- *)
Lemma ci_mv_length k (rf : bool) s x : length (ci_mv F k rf s x) = (if rf then length x - 1 else length x)%nat.
Proof. unfold ci_mv, Causal.cumsum; destruct k, rf;
  repeat (rewrite ?app_length, ?firstn_length, ?skipn_length, ?map_length, ?rev_length, ?vscale_length, ?vsub_length,
          ?cumsum_from_length, ?vdivc_length; cbn [length]); lia. Qed.
Lemma ci_rmv_length k (rf : bool) s y : length (ci_rmv F k rf s y) = (if rf then S (length y) else length y)%nat.
Proof. unfold ci_rmv, Causal.cumsum; destruct k, rf;
  repeat (rewrite ?app_length, ?firstn_length, ?skipn_length, ?map_length, ?rev_length, ?vscale_length, ?vsub_length,
          ?cumsum_from_length, ?vdivc_length; cbn [length]); lia. Qed.
Theorem ci_fwd_linear k (rf : bool) s n : 1 + 1 <> (0 : F) -> ((if rf then 1 else 0) <= n)%nat -> LinearOn F n (ci_mv F k rf s).
Proof. intros H2 Hn. apply (adjpair_linear_l F n (if rf then n - 1 else n)%nat _ (ci_rmv F k rf s)).
  - intros x y Hx Hy. apply ci_adjoint; auto; rewrite Hx; auto.
  - intros x Hx. rewrite ci_mv_length, Hx. reflexivity. Qed.
Theorem ci_adj_linear k (rf : bool) s n : 1 + 1 <> (0 : F) -> ((if rf then 1 else 0) <= n)%nat ->
  LinearOn F (if rf then n - 1 else n)%nat (ci_rmv F k rf s).
Proof. intros H2 Hn. apply (adjpair_linear_r F n (if rf then n - 1 else n)%nat (ci_mv F k rf s)).
  - intros x y Hx Hy. apply ci_adjoint; auto; rewrite Hx; auto.
  - intros y Hy. rewrite ci_rmv_length, Hy. destruct rf; lia. Qed.
End CausalProofs.
