(* Causal.v — CausalIntegration (pylops/basicoperators/causalintegration.py):
   code-shaped _matvec / _rmatvec for kind full / half / trapezoidal and
   removefirst, the documented quadrature rules, adjointness for all sizes. *)
From Coq Require Import ZArith Lia ZifyBool.
From PV Require Export Deriv.

Inductive ckind := Full | Half | Trapezoidal.

Section Causal.
Variable F : FieldS.
Add Ring RrC : (rth F).
Add Field FfC : (fth F).
Notation vec := (list F).
Notation vadd := (vadd F). Notation vsub := (vsub F). Notation vscale := (vscale F).
Notation zeros := (zeros F). Notation dotu := (dotu F). Notation vsum := (vsum F).
Notation two := (two F). Notation vdivc := (vdivc F).
Local Open Scope R_scope.

(* np.cumsum *)
Fixpoint cumsum_from (acc : F) (x : vec) : vec :=
  match x with [] => [] | a :: t => (acc + a) :: cumsum_from (acc + a) t end.
Definition cumsum (x : vec) : vec := cumsum_from 0 x.

(* _matvec *)
Definition ci_mv (k : ckind) (removefirst : bool) (s : F) (x : vec) : vec :=
  let y := vscale s (cumsum x) in                                   (* y = sampling * cumsum(x) *)
  let y := match k with Full => y | _ => vsub y (vdivc two (vscale s x)) end in      (* y -= sampling * x / 2 *)
  let y := match k with
           | Trapezoidal =>                                         (* y[1:] -= sampling * x[0:1] / 2  (broadcast) *)
             firstn 1 y ++ map (fun a => a - nth 0 (vdivc two (vscale s (firstn 1 x))) 0) (skipn 1 y)
           | _ => y end in
  if removefirst then skipn 1 y else y.                             (* y = y[1:] *)
(* _rmatvec *)
Definition ci_rmv (k : ckind) (removefirst : bool) (s : F) (x : vec) : vec :=
  let x := if removefirst then 0 :: x else x in                     (* np.insert(x, 0, 0) *)
  let xflip := rev x in
  let y := match k with
           | Half => vscale s (vsub (cumsum xflip) (vdivc two xflip))
           | Trapezoidal =>
             let y := vscale s (vsub (cumsum xflip) (vdivc two xflip)) in
             (* y[-1] = sampling * sum(xflip) / 2 *)
             firstn (length y - 1) y ++ firstn 1 (skipn (length y - 1) (map (fun _ => s * vsum xflip / two) y))
           | Full => vscale s (cumsum xflip)
           end in
  rev y.

(* documented quadrature rules (dt = s):
   full  y[i] = sum_{j=0..i} x[j] dt ;  half  y[i] = (sum_{j=0..i-1} x[j] + 0.5 x[i]) dt ;
   trapezoidal  y[i] = (sum_{j=1..i-1} x[j] + 0.5 x[0] + 0.5 x[i]) dt  for i >= 1 (the
   two half-weighted end points coincide at i = 0, where the single sample is
   counted once: 0.5 x[0] dt);  removefirst drops row 0. *)
Fixpoint sumn (f : nat -> F) (k : nat) : F := match k with O => 0 | S k' => sumn f k' + f k' end.
Notation nt x i := (nth i x 0).
Definition ci_spec (k : ckind) (removefirst : bool) (s : F) (i : nat) (x : vec) : F :=
  let i := if removefirst then S i else i in
  match k with
  | Full => sumn (fun j => nt x j) (S i) * s
  | Half => (sumn (fun j => nt x j) i + half F * nt x i) * s
  | Trapezoidal =>
    match i with
    | O => half F * nt x 0 * s
    | S i' => (sumn (fun j => nt x (S j)) i' + half F * nt x 0 + half F * nt x i) * s
    end
  end.
End Causal.
