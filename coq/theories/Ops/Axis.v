(* Axis.v — applying a 1-D map along one axis of a C-order flattened N-d array
   (the @reshaped(swapaxis=True) decorator of pylops/utils/decorators.py).
   A flat vector of length outer*n*inner is cut into [outer] chunks; each chunk
   is an n x inner row-major matrix whose COLUMNS are the fibres along the
   axis; [f] is applied to every fibre and the n' x inner result is flattened
   again.  Theorems for all outer, n, n', inner: adjoint pairs lift to adjoint
   pairs, linear maps lift to linear maps, and the entry at flat index
   (o*n' + j)*inner + k of the lift is entry j of f applied to fibre (o, k). *)
From Coq Require Import ZArith Lia ZifyBool.
From PV Require Export Slice Mat DerivSpec.

Section Axis.
Variable R : CRing.
Add Ring RrAx : (rth R).
Notation vec := (list R).
Notation mat := (list (list R)).
Notation dotu := (dotu R).
Notation transpose := (transpose R).
Notation z := (r0 R).

(* cut x into k pieces of length m *)
Fixpoint chunks (m k : nat) (x : vec) : mat :=
  match k with O => [] | S k' => firstn m x :: chunks m k' (skipn m x) end.

(* one chunk (length n*inner) -> rows -> columns (fibres) -> f -> rows -> flat (length n'*inner) *)
Definition along_chunk (n n' inner : nat) (f : vec -> vec) (c : vec) : vec :=
  concat (transpose n' (map f (transpose inner (chunks inner n c)))).
Definition along_axis_gen (outer n n' inner : nat) (f : vec -> vec) (x : vec) : vec :=
  concat (map (along_chunk n n' inner f) (chunks (n * inner) outer x)).
(* output fibre length read off f itself *)
Definition along_axis (outer n inner : nat) (f : vec -> vec) (x : vec) : vec :=
  along_axis_gen outer n (length (f (zeros R n))) inner f x.
(* fibre (o, k): samples (o*n + j)*inner + k, j < n *)
Definition fibre (n inner o k : nat) (x : vec) : vec :=
  map (fun j => nth ((o * n + j) * inner + k) x z) (seq 0 n).

(* ---------------- chunks ---------------- *)
Lemma chunks_length m k x : length (chunks m k x) = k.
Proof. revert x; induction k; intros; simpl; auto. Qed.
Lemma chunks_wf m k x : m * k <= length x -> wfM R m (chunks m k x).
Proof. revert x; induction k as [|k IH]; intros x H; simpl; constructor.
  - rewrite firstn_length. lia.
  - apply IH. rewrite skipn_length. lia. Qed.
Lemma concat_chunks m k x : length x = m * k -> concat (chunks m k x) = x.
Proof. revert x; induction k as [|k IH]; intros x H; simpl.
  - destruct x; auto. simpl in H; lia.
  - rewrite IH by (rewrite skipn_length; lia). apply firstn_skipn. Qed.
Lemma concat_wf_length m (A : mat) : wfM R m A -> length (concat A) = length A * m.
Proof. induction 1 as [|r A Hr W IH]; simpl; auto. rewrite app_length, IH, Hr. lia. Qed.
Lemma nth_chunks m k x a b : a < k -> b < m ->
  nth b (nth a (chunks m k x) []) z = nth (a * m + b) x z.
Proof. revert x a; induction k as [|k IH]; intros x a Ha Hb; [lia|]. destruct a as [|a]; simpl.
  - rewrite nth_firstn. destruct (Nat.ltb_spec b m); auto; lia.
  - rewrite IH by lia. rewrite nth_skipn. f_equal. lia. Qed.
Lemma nth_concat_wf m (A : mat) a b : wfM R m A -> b < m ->
  nth (a * m + b) (concat A) z = nth b (nth a A []) z.
Proof. intros W Hb. revert a; induction W as [|r A Hr W IH]; intros a; simpl.
  - transitivity (r0 R); [destruct (a * m + b); reflexivity | destruct a; destruct b; reflexivity].
  - destruct a as [|a]; simpl.
    + rewrite app_nth1 by lia. reflexivity.
    + rewrite app_nth2 by lia. rewrite <- IH. f_equal. lia. Qed.

(* ---------------- transpose ---------------- *)
Lemma wfM_map (f : vec -> vec) n n' (A : mat) : (forall a, length a = n -> length (f a) = n') -> wfM R n A -> wfM R n' (map f A).
Proof. intros H W. induction W; simpl; constructor; auto. Qed.
Lemma transpose_length n (A : mat) : wfM R n A -> length (transpose n A) = n.
Proof. induction 1 as [|r A Hr W IH]; simpl; [apply repeat_length|]. rewrite map2_length, IH, Hr. lia. Qed.
Lemma Forall_map2_cons m (r : vec) (T : mat) : Forall (fun c => length c = m) T ->
  Forall (fun c => length c = S m) (map2 cons r T).
Proof. intros H. revert r. induction H as [|c T Hc W IH]; intros [|a r]; simpl; constructor; simpl; auto. Qed.
Lemma transpose_wf n (A : mat) : wfM R (length A) (transpose n A).
Proof. unfold wfM. induction A as [|r A IH]; simpl.
  - apply Forall_forall. intros c Hc. apply repeat_spec in Hc. subst; reflexivity.
  - apply Forall_map2_cons; auto. Qed.
Lemma nth_repeat_nil k n : nth k (repeat (@nil R) n) [] = [].
Proof. revert k; induction n; intros [|k]; simpl; auto. Qed.
Lemma nth_map2_cons (r : vec) (T : mat) k : length r = length T -> k < length r ->
  nth k (map2 cons r T) [] = nth k r z :: nth k T [].
Proof. revert T k; induction r as [|a r IH]; intros [|t T] k H Hk; simpl in *; try lia.
  destruct k; auto. apply IH; lia. Qed.
Lemma nth_transpose n (A : mat) j k : wfM R n A -> k < n ->
  nth j (nth k (transpose n A) []) z = nth k (nth j A []) z.
Proof. intros W Hk. revert j; induction W as [|r A Hr W IH]; intros j; simpl.
  - rewrite nth_repeat_nil. destruct j, k; reflexivity.
  - rewrite nth_map2_cons by (rewrite ?transpose_length; auto; lia).
    destruct j; simpl; auto. Qed.
Lemma mat_ext n (A B : mat) : length A = length B -> wfM R n A -> wfM R n B ->
  (forall j k, j < length A -> k < n -> nth k (nth j A []) z = nth k (nth j B []) z) -> A = B.
Proof. intros L WA WB H. apply (nth_ext A B [] []); auto. intros j Hj.
  assert (LA : length (nth j A []) = n) by (eapply Forall_forall in WA; [apply WA | apply nth_In; auto]).
  assert (LB : length (nth j B []) = n) by (eapply Forall_forall in WB; [apply WB | apply nth_In; lia]).
  apply (nth_ext _ _ z z); [lia|]. intros k Hk. apply H; lia. Qed.
Lemma transpose_invol n m (A : mat) : length A = n -> wfM R m A -> transpose n (transpose m A) = A.
Proof. intros L W. apply (mat_ext m).
  - rewrite transpose_length; auto. rewrite <- L. apply transpose_wf.
  - pose proof (transpose_wf n (transpose m A)) as H. rewrite transpose_length in H by auto. exact H.
  - exact W.
  - intros j k Hj Hk. rewrite transpose_length in Hj by (rewrite <- L; apply transpose_wf).
    rewrite nth_transpose by (rewrite <- L; try apply transpose_wf; lia).
    apply nth_transpose; auto. Qed.

(* ---------------- entrywise pairing of two matrices ---------------- *)
Fixpoint mdot (A B : mat) : R :=
  match A, B with r :: A', s :: B' => radd R (dotu r s) (mdot A' B') | _, _ => z end.
Lemma dotu_concat m (A B : mat) : length A = length B -> wfM R m A -> wfM R m B ->
  dotu (concat A) (concat B) = mdot A B.
Proof. intros L WA; revert B L; induction WA as [|r A Hr WA IH]; intros [|s B] L WB; simpl in *; try discriminate; auto.
  inversion WB; subst. rewrite dotu_app by lia. rewrite IH by (auto; lia). reflexivity. Qed.
Lemma mdot_repeat_nil n : mdot (repeat [] n) (repeat [] n) = z.
Proof. induction n; simpl; auto. rewrite IHn. ring. Qed.
Lemma mdot_map2_cons (r s : vec) (T U : mat) : length r = length T -> length s = length U -> length r = length s ->
  mdot (map2 cons r T) (map2 cons s U) = radd R (dotu r s) (mdot T U).
Proof. revert s T U; induction r as [|a r IH]; intros [|b s] [|t T] [|u U] H1 H2 H3; simpl in *; try lia; try ring.
  rewrite IH by lia. ring. Qed.
Lemma mdot_transpose n (A B : mat) : length A = length B -> wfM R n A -> wfM R n B ->
  mdot (transpose n A) (transpose n B) = mdot A B.
Proof. intros L WA; revert B L; induction WA as [|r A Hr WA IH]; intros [|s B] L WB; simpl in *; try discriminate.
  - apply mdot_repeat_nil.
  - inversion WB; subst. rewrite mdot_map2_cons by (rewrite ?transpose_length; auto; lia).
    rewrite IH by (auto; lia). reflexivity. Qed.
Lemma mdot_map_adj n n' (f g : vec -> vec) (A B : mat) : AdjPair R n n' f g -> length A = length B ->
  wfM R n A -> wfM R n' B -> mdot (map f A) B = mdot A (map g B).
Proof. intros H L WA; revert B L; induction WA as [|r A Hr WA IH]; intros [|s B] L WB; simpl in *; try discriminate; auto.
  inversion WB; subst. rewrite H, IH by (auto; lia). reflexivity. Qed.

(* ---------------- lengths ---------------- *)
Lemma along_chunk_length n n' inner f c : (forall a, length a = n -> length (f a) = n') -> length c = n * inner ->
  length (along_chunk n n' inner f c) = n' * inner.
Proof. intros Hf Hc. unfold along_chunk.
  assert (W1 : wfM R inner (chunks inner n c)) by (apply chunks_wf; lia).
  pose proof (transpose_wf inner (chunks inner n c)) as W2. rewrite chunks_length in W2.
  pose proof (wfM_map f n n' _ Hf W2) as W3.
  pose proof (transpose_wf n' (map f (transpose inner (chunks inner n c)))) as W4.
  rewrite map_length, transpose_length in W4 by auto.
  rewrite (concat_wf_length inner) by auto. rewrite transpose_length by auto. reflexivity. Qed.
Lemma along_axis_gen_length outer n n' inner f x : (forall a, length a = n -> length (f a) = n') ->
  length x = outer * n * inner -> length (along_axis_gen outer n n' inner f x) = outer * n' * inner.
Proof. intros Hf Hx. unfold along_axis_gen. rewrite (concat_wf_length (n' * inner)).
  - rewrite map_length, chunks_length. lia.
  - assert (W : wfM R (n * inner) (chunks (n * inner) outer x)) by (apply chunks_wf; lia).
    unfold wfM in *. apply Forall_map. eapply Forall_impl; [|exact W]. intros c Hc. apply along_chunk_length; auto. Qed.

(* ---------------- adjoint pairs lift ---------------- *)
Lemma along_chunk_adjoint n n' inner f g : AdjPair R n n' f g ->
  (forall a, length a = n -> length (f a) = n') -> (forall b, length b = n' -> length (g b) = n) ->
  AdjPair R (n * inner) (n' * inner) (along_chunk n n' inner f) (along_chunk n' n inner g).
Proof. intros H Lf Lg c d Hc Hd. unfold along_chunk.
  set (Rc := chunks inner n c). set (Rd := chunks inner n' d).
  assert (Wc : wfM R inner Rc) by (apply chunks_wf; lia).
  assert (Wd : wfM R inner Rd) by (apply chunks_wf; lia).
  assert (Lc : length Rc = n) by apply chunks_length. assert (Ld : length Rd = n') by apply chunks_length.
  pose proof (transpose_wf inner Rc) as WTc. rewrite Lc in WTc.
  pose proof (transpose_wf inner Rd) as WTd. rewrite Ld in WTd.
  pose proof (wfM_map f n n' _ Lf WTc) as WfT. pose proof (wfM_map g n' n _ Lg WTd) as WgT.
  assert (LTc : length (transpose inner Rc) = inner) by (apply transpose_length; auto).
  assert (LTd : length (transpose inner Rd) = inner) by (apply transpose_length; auto).
  (* left: <concat (T (map f (T Rc))), d> with d = concat Rd = concat (T (T Rd)) *)
  rewrite <- (concat_chunks inner n' d) at 1 by lia. fold Rd.
  rewrite (dotu_concat inner); [ | rewrite transpose_length; auto; lia
    | pose proof (transpose_wf n' (map f (transpose inner Rc))) as W; rewrite map_length, LTc in W; exact W | exact Wd ].
  rewrite <- (transpose_invol n' inner Rd) at 1 by auto.
  rewrite mdot_transpose by (rewrite ?map_length; auto; lia).
  rewrite (mdot_map_adj n n' f g) by (auto; lia).
  (* right *)
  rewrite <- (concat_chunks inner n c) at 1 by lia. fold Rc.
  rewrite (dotu_concat inner); [ | rewrite transpose_length; auto; lia | exact Wc
    | pose proof (transpose_wf n (map g (transpose inner Rd))) as W; rewrite map_length, LTd in W; exact W ].
  rewrite <- (transpose_invol n inner Rc) at 2 by auto.
  rewrite mdot_transpose by (rewrite ?map_length; auto; lia). reflexivity. Qed.

Theorem along_axis_gen_adjoint outer n n' inner f g : AdjPair R n n' f g ->
  (forall a, length a = n -> length (f a) = n') -> (forall b, length b = n' -> length (g b) = n) ->
  AdjPair R (outer * n * inner) (outer * n' * inner) (along_axis_gen outer n n' inner f) (along_axis_gen outer n' n inner g).
Proof. intros H Lf Lg x y Hx Hy. unfold along_axis_gen.
  set (X := chunks (n * inner) outer x). set (Y := chunks (n' * inner) outer y).
  assert (WX : wfM R (n * inner) X) by (apply chunks_wf; lia).
  assert (WY : wfM R (n' * inner) Y) by (apply chunks_wf; lia).
  assert (LX : length X = outer) by apply chunks_length. assert (LY : length Y = outer) by apply chunks_length.
  pose proof (along_chunk_adjoint n n' inner f g H Lf Lg) as HC.
  rewrite <- (concat_chunks (n' * inner) outer y) at 1 by lia. fold Y.
  rewrite (dotu_concat (n' * inner)); [ | rewrite map_length; lia
    | apply (wfM_map _ (n * inner)); auto; intros; apply along_chunk_length; auto | exact WY ].
  rewrite (mdot_map_adj (n * inner) (n' * inner) _ (along_chunk n' n inner g)) by (auto; lia).
  rewrite <- (concat_chunks (n * inner) outer x) at 1 by lia. fold X.
  rewrite (dotu_concat (n * inner)); [ reflexivity | rewrite map_length; lia | exact WX
    | apply (wfM_map _ (n' * inner)); auto; intros; apply along_chunk_length; auto ]. Qed.

(* ---------------- entry formula: the lift acts fibre by fibre ---------------- *)
Lemma fibre_length n inner o k x : length (fibre n inner o k x) = n.
Proof. unfold fibre. rewrite map_length, seq_length. reflexivity. Qed.
Lemma nth_fibre n inner o k x j : j < n -> nth j (fibre n inner o k x) z = nth ((o * n + j) * inner + k) x z.
Proof. intros H. unfold fibre.
  rewrite (nth_indep _ z ((fun j => nth ((o * n + j) * inner + k) x z) 0%nat)) by (rewrite map_length, seq_length; auto).
  rewrite (map_nth (fun j => nth ((o * n + j) * inner + k) x z)). rewrite seq_nth by auto. reflexivity. Qed.
Lemma column_is_fibre outer n inner o k x : o < outer -> k < inner -> length x = outer * n * inner ->
  nth k (transpose inner (chunks inner n (nth o (chunks (n * inner) outer x) []))) [] = fibre n inner o k x.
Proof. intros Ho Hk Hx. set (c := nth o (chunks (n * inner) outer x) []).
  assert (Wc : wfM R inner (chunks inner n c)).
  { apply chunks_wf. assert (W : wfM R (n * inner) (chunks (n * inner) outer x)) by (apply chunks_wf; lia).
    eapply Forall_forall in W; [rewrite W; lia | apply nth_In; rewrite chunks_length; auto]. }
  pose proof (transpose_wf inner (chunks inner n c)) as WT. rewrite chunks_length in WT.
  assert (LT : length (transpose inner (chunks inner n c)) = inner) by (apply transpose_length; auto).
  apply (nth_ext _ _ z z).
  - rewrite fibre_length. eapply Forall_forall in WT; [apply WT | apply nth_In; lia].
  - intros j Hj. assert (Hj' : j < n) by (eapply Forall_forall in WT; [rewrite WT in Hj; exact Hj | apply nth_In; lia]).
    rewrite nth_transpose by auto. rewrite nth_chunks by auto. unfold c.
    assert (Hb : j * inner + k < n * inner) by nia.
    rewrite nth_chunks by auto. rewrite nth_fibre by auto. f_equal. nia. Qed.
Theorem nth_along_axis_gen outer n n' inner f x o j k :
  (forall a, length a = n -> length (f a) = n') -> length x = outer * n * inner ->
  o < outer -> j < n' -> k < inner ->
  nth ((o * n' + j) * inner + k) (along_axis_gen outer n n' inner f x) z = nth j (f (fibre n inner o k x)) z.
Proof. intros Hf Hx Ho Hj Hk. unfold along_axis_gen.
  set (X := chunks (n * inner) outer x).
  assert (WX : wfM R (n * inner) X) by (apply chunks_wf; lia).
  assert (LX : length X = outer) by apply chunks_length.
  assert (WM : wfM R (n' * inner) (map (along_chunk n n' inner f) X)).
  { apply (wfM_map _ (n * inner)); auto. intros; apply along_chunk_length; auto. }
  replace ((o * n' + j) * inner + k) with (o * (n' * inner) + (j * inner + k)) by nia.
  rewrite nth_concat_wf by (auto; nia).
  rewrite (nth_indep _ [] (along_chunk n n' inner f [])) by (rewrite map_length; lia).
  rewrite (map_nth (along_chunk n n' inner f)). unfold along_chunk.
  set (c := nth o X []).
  assert (Lc : length c = n * inner) by (eapply Forall_forall in WX; [apply WX | apply nth_In; lia]).
  assert (Wc : wfM R inner (chunks inner n c)) by (apply chunks_wf; lia).
  pose proof (transpose_wf inner (chunks inner n c)) as WT. rewrite chunks_length in WT.
  assert (LT : length (transpose inner (chunks inner n c)) = inner) by (apply transpose_length; auto).
  pose proof (wfM_map f n n' _ Hf WT) as WfT.
  pose proof (transpose_wf n' (map f (transpose inner (chunks inner n c)))) as W4. rewrite map_length, LT in W4.
  rewrite nth_concat_wf by auto. rewrite nth_transpose by auto.
  rewrite (nth_indep _ [] (f [])) by (rewrite map_length; lia). rewrite (map_nth f).
  unfold c, X. rewrite (column_is_fibre outer) by auto. reflexivity. Qed.

(* flat index <-> (o, j, k) *)
Lemma index_decomp outer n' inner i : i < outer * n' * inner ->
  exists o j k, o < outer /\ j < n' /\ k < inner /\ i = (o * n' + j) * inner + k.
Proof. intros H. assert (inner <> 0) by nia. assert (n' <> 0) by nia.
  exists (i / inner / n'), ((i / inner) mod n'), (i mod inner).
  pose proof (Nat.div_mod i inner ltac:(auto)). pose proof (Nat.div_mod (i / inner) n' ltac:(auto)).
  pose proof (Nat.mod_upper_bound i inner ltac:(auto)). pose proof (Nat.mod_upper_bound (i / inner) n' ltac:(auto)).
  assert (i / inner < outer * n') by (apply Nat.div_lt_upper_bound; auto; nia).
  assert (i / inner / n' < outer) by (apply Nat.div_lt_upper_bound; auto; nia).
  repeat split; auto. nia. Qed.

(* the same with the flat index: o = i / inner / n', j = (i / inner) mod n', k = i mod inner *)
Theorem nth_along_axis_gen_flat outer n n' inner f x i :
  (forall a, length a = n -> length (f a) = n') -> length x = outer * n * inner -> i < outer * n' * inner ->
  nth i (along_axis_gen outer n n' inner f x) z =
  nth ((i / inner) mod n') (f (fibre n inner (i / inner / n') (i mod inner) x)) z.
Proof. intros Hf Hx Hi. assert (inner <> 0) by nia. assert (n' <> 0) by nia.
  pose proof (Nat.div_mod i inner ltac:(auto)). pose proof (Nat.div_mod (i / inner) n' ltac:(auto)).
  pose proof (Nat.mod_upper_bound i inner ltac:(auto)). pose proof (Nat.mod_upper_bound (i / inner) n' ltac:(auto)).
  assert (i / inner < outer * n') by (apply Nat.div_lt_upper_bound; auto; nia).
  assert (i / inner / n' < outer) by (apply Nat.div_lt_upper_bound; auto; nia).
  rewrite <- (nth_along_axis_gen outer n n' inner f x) by auto. f_equal. nia. Qed.

(* ---------------- linear maps lift ---------------- *)
Lemma fibre_linear n inner o k a b x y : length x = length y ->
  fibre n inner o k (vadd R (vscale R a x) (vscale R b y)) = vadd R (vscale R a (fibre n inner o k x)) (vscale R b (fibre n inner o k y)).
Proof. intros H. unfold fibre. generalize (seq 0 n) as l. induction l as [|j l IH]; simpl; auto.
  unfold vadd in *; simpl. rewrite <- IH. f_equal.
  fold (vadd R (vscale R a x) (vscale R b y)). rewrite nth_vadd by (rewrite !vscale_length; auto). rewrite !nth_vscale. reflexivity. Qed.
Theorem along_axis_gen_linear outer n n' inner f : LinearOn R n f ->
  (forall a, length a = n -> length (f a) = n') ->
  LinearOn R (outer * n * inner) (along_axis_gen outer n n' inner f).
Proof. intros Lf Hf a b x y Hx Hy.
  assert (Lxy : length (vadd R (vscale R a x) (vscale R b y)) = outer * n * inner) by (rewrite vadd_length, !vscale_length; lia).
  apply vec_ext.
  - rewrite vadd_length, !vscale_length, !(along_axis_gen_length outer n n') by auto. lia.
  - intros i Hi. rewrite (along_axis_gen_length outer n n') in Hi by auto.
    destruct (index_decomp outer n' inner i Hi) as (o & j & k & Ho & Hj & Hk & ->).
    rewrite nth_vadd by (rewrite !vscale_length, !(along_axis_gen_length outer n n'); auto).
    rewrite !nth_vscale, !nth_along_axis_gen by auto.
    rewrite fibre_linear by lia. rewrite Lf by apply fibre_length.
    rewrite nth_vadd by (rewrite !vscale_length, !Hf; auto using fibre_length). rewrite !nth_vscale. reflexivity. Qed.

(* ---------------- the wrapper that reads n' off f ---------------- *)
Lemma along_axis_eq outer n n' inner f : (forall a, length a = n -> length (f a) = n') ->
  along_axis outer n inner f = along_axis_gen outer n n' inner f.
Proof. intros H. unfold along_axis. rewrite H by apply zeros_length. reflexivity. Qed.
End Axis.
