(* AxisOps.v — operator combinators (sum, scaling, pointwise weight, vertical
   stack, composition) closed under "adjoint pair", and the derivative family
   on ANY axis of ANY N-d C-ordered array: FirstDerivative / SecondDerivative /
   CausalIntegration lifted with Axis.along_axis_gen; Gradient (vertical stack
   of per-axis FirstDerivative), Laplacian (weighted sum over any number of
   axes of SecondDerivative with the same kind / edge), FirstDirectionalDerivative
   (sum_k v_k * D_k) and SecondDirectionalDerivative (- D_v^T D_v). *)
From Coq Require Import ZArith Lia ZifyBool.
From PV Require Export Axis DerivStencil Causal.

Section Combinators.
Variable R : CRing.
Add Ring RrAO : (rth R).
Notation vec := (list R).
Notation op := (list R -> list R).
Notation dotu := (dotu R).
Notation z := (r0 R).

Definition Len (n m : nat) (f : op) : Prop := forall x, length x = n -> length (f x) = m.

(* sum of operators n -> m *)
Definition lsum (m : nat) (fs : list op) (x : vec) : vec := fold_right (fun f acc => vadd R (f x) acc) (zeros R m) fs.
(* vertical stack: concatenated outputs; its adjoint sums the adjoints of the blocks *)
Definition vstack (fs : list op) (x : vec) : vec := concat (map (fun f => f x) fs).
Fixpoint hsum (n m : nat) (gs : list op) (y : vec) : vec :=
  match gs with [] => zeros R n | g :: gs' => vadd R (g (firstn m y)) (hsum n m gs' (skipn m y)) end.

Lemma lsum_length n m fs : Forall (Len n m) fs -> Len n m (lsum m fs).
Proof. intros H x Hx. induction H as [|f fs Hf H IH]; simpl; [apply zeros_length|]. rewrite vadd_length, Hf, IH by auto. lia. Qed.
Lemma dotu_vmul_l (v u y : vec) : dotu (vmul R v u) y = dotu u (vmul R v y).
Proof. revert u y; induction v as [|a v IH]; intros [|b u] [|c y]; cbn; try reflexivity.
  fold (vmul R v u) (vmul R v y). rewrite IH. ring. Qed.

Lemma adj_scale n m w f g : AdjPair R n m f g -> AdjPair R n m (fun x => vscale R w (f x)) (fun y => vscale R w (g y)).
Proof. intros H x y Hx Hy. rewrite dotu_vscale_l, dotu_vscale_r, H by auto. reflexivity. Qed.
Lemma adj_vmul n m v f g : AdjPair R n m f g -> length v = m ->
  AdjPair R n m (fun x => vmul R v (f x)) (fun y => g (vmul R v y)).
Proof. intros H Hv x y Hx Hy. rewrite dotu_vmul_l, H; auto. rewrite vmul_length. lia. Qed.
Lemma adj_neg n m f g : AdjPair R n m f g -> AdjPair R n m (fun x => vneg R (f x)) (fun y => vneg R (g y)).
Proof. intros H x y Hx Hy. rewrite dotu_vneg_l, dotu_vneg_r, H by auto. reflexivity. Qed.
Lemma adj_comp n m p f1 g1 f2 g2 : AdjPair R n m f1 g1 -> AdjPair R m p f2 g2 -> Len n m f1 -> Len p m g2 ->
  AdjPair R n p (fun x => f2 (f1 x)) (fun y => g1 (g2 y)).
Proof. intros H1 H2 L1 L2 x y Hx Hy. rewrite H2, H1; auto. Qed.
Lemma adj_lsum n m fs gs : Forall2 (AdjPair R n m) fs gs -> Forall (Len n m) fs -> Forall (Len m n) gs ->
  AdjPair R n m (lsum m fs) (lsum n gs).
Proof. intros H. induction H as [|f g fs gs Hfg H IH]; intros Lf Lg x y Hx Hy; simpl.
  - rewrite dotu_zeros_l, dotu_zeros_r. reflexivity.
  - pose proof (Forall_inv Lf) as Hf; pose proof (Forall_inv_tail Lf) as Lf'.
    pose proof (Forall_inv Lg) as Hg; pose proof (Forall_inv_tail Lg) as Lg'.
    rewrite dotu_vadd_l by (rewrite Hf, (lsum_length n m); auto).
    rewrite dotu_vadd_r by (rewrite Hg, (lsum_length m n); auto).
    rewrite Hfg, IH by auto. reflexivity. Qed.
Lemma F2_length {A B} (P : A -> B -> Prop) l l' : Forall2 P l l' -> length l = length l'.
Proof. induction 1; simpl; auto. Qed.
Lemma hsum_length n m gs : Forall (Len m n) gs -> forall y, length y = m * length gs -> length (hsum n m gs y) = n.
Proof. induction 1 as [|g gs Hg H IH]; intros y Hy; simpl in *; [apply zeros_length|].
  rewrite vadd_length, Hg, IH; rewrite ?firstn_length, ?skipn_length; lia. Qed.
Lemma adj_vstack n m fs gs : Forall2 (AdjPair R n m) fs gs -> Forall (Len n m) fs -> Forall (Len m n) gs ->
  AdjPair R n (m * length fs) (vstack fs) (hsum n m gs).
Proof. intros H. induction H as [|f g fs gs Hfg H IH]; intros Lf Lg x y Hx Hy; unfold vstack in *; simpl in *.
  - rewrite dotu_zeros_r. destruct y; reflexivity.
  - pose proof (Forall_inv Lf) as Hf; pose proof (Forall_inv_tail Lf) as Lf'.
    pose proof (Forall_inv Lg) as Hg; pose proof (Forall_inv_tail Lg) as Lg'.
    assert (L2 : length gs = length fs) by (symmetry; eapply F2_length; eauto).
    rewrite <- (firstn_skipn m y) at 1. rewrite dotu_app by (rewrite firstn_length, Hf; auto; lia).
    rewrite dotu_vadd_r by (rewrite Hg, hsum_length; auto; rewrite ?firstn_length, ?skipn_length; lia).
    rewrite Hfg by (auto; rewrite firstn_length; lia). rewrite IH by (auto; rewrite skipn_length; lia). reflexivity. Qed.
Lemma nth_lsum n m fs x i : Forall (Len n m) fs -> length x = n ->
  nth i (lsum m fs x) z = fold_right (fun f acc => radd R (nth i (f x) z) acc) z fs.
Proof. intros H Hx. induction H as [|f fs Hf H IH]; simpl; [apply nth_zeros|].
  rewrite nth_vadd by (rewrite Hf, (lsum_length n m); auto). rewrite IH. reflexivity. Qed.
Lemma vstack_length n m fs : Forall (Len n m) fs -> Len n (m * length fs) (vstack fs).
Proof. intros H x Hx. unfold vstack. induction H as [|f fs Hf H IH]; simpl; [lia|]. rewrite app_length, Hf, IH by auto. lia. Qed.
(* block b of the stack is operator b *)
Lemma nth_vstack n m fs x b i : Forall (Len n m) fs -> length x = n -> i < m ->
  nth (b * m + i) (vstack fs x) z = nth i (nth b fs (fun _ => []) x) z.
Proof. intros H Hx Hi. unfold vstack. revert b; induction H as [|f fs Hf H IH]; intros b; simpl.
  - transitivity (r0 R); [destruct (b * m + i); reflexivity | destruct b; destruct i; reflexivity].
  - destruct b as [|b]; simpl.
    + rewrite app_nth1 by (rewrite Hf; auto). reflexivity.
    + rewrite app_nth2 by (rewrite Hf; auto; lia). rewrite Hf by auto. rewrite <- IH. f_equal. lia. Qed.
End Combinators.

(* ======================= the derivative family on any axis ======================= *)
Section ND.
Variable F : FieldS.
Add Ring RrND : (rth F).
Notation vec := (list F).
Notation z := (r0 F).
Notation lift := (along_axis_gen F).

Definition fd_nd (outer n inner : nat) k o e s : vec -> vec := lift outer n n inner (fd_fwd F k o e s).
Definition fd_nd_adj (outer n inner : nat) k o e s : vec -> vec := lift outer n n inner (fd_adj F k o e s).
Definition sd_nd (outer n inner : nat) k e s : vec -> vec := lift outer n n inner (sd_fwd F k e s).
Definition sd_nd_adj (outer n inner : nat) k e s : vec -> vec := lift outer n n inner (sd_adj F k e s).
Definition rfn (rf : bool) (n : nat) : nat := if rf then n - 1 else n.
Definition ci_nd (outer n inner : nat) k rf s : vec -> vec := lift outer n (rfn rf n) inner (ci_mv F k rf s).
Definition ci_nd_adj (outer n inner : nat) k rf s : vec -> vec := lift outer (rfn rf n) n inner (ci_rmv F k rf s).

Section One.
Variables outer n inner : nat.
Notation N := (outer * n * inner).

(* ---- FirstDerivative ---- *)
Theorem fd_nd_adjoint k o e s : fd_minsize k o e <= n -> AdjPair F N N (fd_nd outer n inner k o e s) (fd_nd_adj outer n inner k o e s).
Proof. intros H. apply along_axis_gen_adjoint.
  - intros x y Hx Hy. apply fd_adjoint; lia.
  - intros a Ha. rewrite fd_fwd_length; lia.
  - intros a Ha. rewrite fd_adj_length; lia. Qed.
Theorem fd_nd_meets_spec k o e s x i : fd_minsize k o e <= n -> length x = N -> i < N ->
  nth i (fd_nd outer n inner k o e s x) z =
  fd_spec F k o e s n ((i / inner) mod n) (fibre F n inner (i / inner / n) (i mod inner) x).
Proof. intros H Hx Hi. unfold fd_nd. rewrite nth_along_axis_gen_flat by (auto; intros a Ha; rewrite fd_fwd_length; lia).
  assert (n <> 0) by nia.
  rewrite fd_meets_spec by (rewrite fibre_length; auto; apply Nat.mod_upper_bound; auto). rewrite fibre_length. reflexivity. Qed.
Theorem fd_nd_linear k o e s : fd_minsize k o e <= n -> LinearOn F N (fd_nd outer n inner k o e s).
Proof. intros H. apply along_axis_gen_linear; [apply fd_fwd_linear; auto | intros a Ha; rewrite fd_fwd_length; lia]. Qed.
Theorem fd_nd_adj_linear k o e s : fd_minsize k o e <= n -> LinearOn F N (fd_nd_adj outer n inner k o e s).
Proof. intros H. apply along_axis_gen_linear; [apply fd_adj_linear; auto | intros a Ha; rewrite fd_adj_length; lia]. Qed.
Lemma fd_nd_len k o e s : fd_minsize k o e <= n -> Len F N N (fd_nd outer n inner k o e s).
Proof. intros H x Hx. apply along_axis_gen_length; auto. intros a Ha; rewrite fd_fwd_length; lia. Qed.
Lemma fd_nd_adj_len k o e s : fd_minsize k o e <= n -> Len F N N (fd_nd_adj outer n inner k o e s).
Proof. intros H x Hx. apply along_axis_gen_length; auto. intros a Ha; rewrite fd_adj_length; lia. Qed.

(* ---- SecondDerivative ---- *)
Theorem sd_nd_adjoint k e s : sd_minsize k e <= n -> AdjPair F N N (sd_nd outer n inner k e s) (sd_nd_adj outer n inner k e s).
Proof. intros H. apply along_axis_gen_adjoint.
  - intros x y Hx Hy. apply sd_adjoint; lia.
  - intros a Ha. rewrite sd_fwd_length; lia.
  - intros a Ha. rewrite sd_adj_length; lia. Qed.
Theorem sd_nd_meets_spec k e s x i : sd_minsize k e <= n -> length x = N -> i < N ->
  nth i (sd_nd outer n inner k e s x) z =
  sd_spec F k e s n ((i / inner) mod n) (fibre F n inner (i / inner / n) (i mod inner) x).
Proof. intros H Hx Hi. unfold sd_nd. rewrite nth_along_axis_gen_flat by (auto; intros a Ha; rewrite sd_fwd_length; lia).
  assert (n <> 0) by nia.
  rewrite sd_meets_spec by (rewrite fibre_length; auto; apply Nat.mod_upper_bound; auto). rewrite fibre_length. reflexivity. Qed.
Theorem sd_nd_linear k e s : sd_minsize k e <= n -> LinearOn F N (sd_nd outer n inner k e s).
Proof. intros H. apply along_axis_gen_linear; [apply sd_fwd_linear; auto | intros a Ha; rewrite sd_fwd_length; lia]. Qed.
Lemma sd_nd_len k e s : sd_minsize k e <= n -> Len F N N (sd_nd outer n inner k e s).
Proof. intros H x Hx. apply along_axis_gen_length; auto. intros a Ha; rewrite sd_fwd_length; lia. Qed.
Lemma sd_nd_adj_len k e s : sd_minsize k e <= n -> Len F N N (sd_nd_adj outer n inner k e s).
Proof. intros H x Hx. apply along_axis_gen_length; auto. intros a Ha; rewrite sd_adj_length; lia. Qed.

(* ---- CausalIntegration (output axis length n or n-1) ---- *)
Theorem ci_nd_adjoint k (rf : bool) s : radd F (r1 F) (r1 F) <> r0 F -> (if rf then 1 else 0) <= n ->
  AdjPair F N (outer * rfn rf n * inner) (ci_nd outer n inner k rf s) (ci_nd_adj outer n inner k rf s).
Proof. intros H2 H. apply along_axis_gen_adjoint.
  - intros x y Hx Hy. apply ci_adjoint; auto; unfold rfn in *; destruct rf; lia.
  - intros a Ha. rewrite ci_mv_length. unfold rfn; destruct rf; lia.
  - intros a Ha. rewrite ci_rmv_length. unfold rfn in *; destruct rf; lia. Qed.
Theorem ci_nd_meets_spec k (rf : bool) s x i : radd F (r1 F) (r1 F) <> r0 F -> (if rf then 1 else 0) <= n ->
  length x = N -> i < outer * rfn rf n * inner ->
  nth i (ci_nd outer n inner k rf s x) z =
  ci_spec F k rf s ((i / inner) mod rfn rf n) (fibre F n inner (i / inner / rfn rf n) (i mod inner) x).
Proof. intros H2 H Hx Hi. unfold ci_nd.
  rewrite nth_along_axis_gen_flat by (auto; intros a Ha; rewrite ci_mv_length; unfold rfn; destruct rf; lia).
  assert (rfn rf n <> 0) by nia. pose proof (Nat.mod_upper_bound (i / inner) (rfn rf n) ltac:(auto)).
  apply ci_meets_spec; auto. rewrite fibre_length. unfold rfn in *; destruct rf; lia. Qed.
Theorem ci_nd_linear k (rf : bool) s : radd F (r1 F) (r1 F) <> r0 F -> (if rf then 1 else 0) <= n ->
  LinearOn F N (ci_nd outer n inner k rf s).
Proof. intros H2 H. apply along_axis_gen_linear; [apply ci_fwd_linear; auto | intros a Ha; rewrite ci_mv_length; unfold rfn; destruct rf; lia]. Qed.
End One.

(* ---- composites over a list of axes of one N-d array: each axis is given by its
   (outer, n, inner) factorisation of the same total size N ---- *)
Record axis := { a_outer : nat; a_n : nat; a_inner : nat; a_w : F; a_s : F }.
Notation axN a := (a_outer a * a_n a * a_inner a).

(* Gradient(dims, sampling, edge, kind): VStack of FirstDerivative (order 3) along every axis *)
Definition grad_nd (k : dkind) (e : bool) (axes : list axis) : vec -> vec :=
  vstack F (map (fun a => fd_nd (a_outer a) (a_n a) (a_inner a) k false e (a_s a)) axes).
Definition grad_nd_adj (N : nat) (k : dkind) (e : bool) (axes : list axis) : vec -> vec :=
  hsum F N N (map (fun a => fd_nd_adj (a_outer a) (a_n a) (a_inner a) k false e (a_s a)) axes).
(* Laplacian(dims, axes, weights, sampling, edge, kind): sum_a w_a * SecondDerivative_a, same kind and edge *)
Definition lap_nd (N : nat) (k : dkind) (e : bool) (axes : list axis) : vec -> vec :=
  lsum F N (map (fun a x => vscale F (a_w a) (sd_nd (a_outer a) (a_n a) (a_inner a) k e (a_s a) x)) axes).
Definition lap_nd_adj (N : nat) (k : dkind) (e : bool) (axes : list axis) : vec -> vec :=
  lsum F N (map (fun a y => vscale F (a_w a) (sd_nd_adj (a_outer a) (a_n a) (a_inner a) k e (a_s a) y)) axes).
(* FirstDirectionalDerivative: Sum(axis 0) * Diagonal(v) * Gradient = sum_a v_a .* D_a x *)
Definition fdd_nd (N : nat) (k : dkind) (e : bool) (axes : list (axis * vec)) : vec -> vec :=
  lsum F N (map (fun av x => vmul F (snd av) (fd_nd (a_outer (fst av)) (a_n (fst av)) (a_inner (fst av)) k false e (a_s (fst av)) x)) axes).
Definition fdd_nd_adj (N : nat) (k : dkind) (e : bool) (axes : list (axis * vec)) : vec -> vec :=
  lsum F N (map (fun av y => fd_nd_adj (a_outer (fst av)) (a_n (fst av)) (a_inner (fst av)) k false e (a_s (fst av)) (vmul F (snd av) y)) axes).
(* SecondDirectionalDerivative: - D_v^H D_v (centred D_v) *)
Definition sdd_nd (N : nat) (e : bool) (axes : list (axis * vec)) : vec -> vec :=
  fun x => vneg F (fdd_nd_adj N Centered e axes (fdd_nd N Centered e axes x)).

Definition axes_ok (N : nat) (minsize : nat) (axes : list axis) : Prop := Forall (fun a => axN a = N /\ minsize <= a_n a) axes.

Theorem lap_nd_adjoint N k e axes : axes_ok N (sd_minsize k e) axes -> AdjPair F N N (lap_nd N k e axes) (lap_nd_adj N k e axes).
Proof. intros H. unfold lap_nd, lap_nd_adj. apply adj_lsum.
  - induction H as [|a axes [Ha Hm] H IH]; simpl; constructor; auto.
    apply adj_scale. rewrite <- Ha. apply sd_nd_adjoint; auto.
  - induction H as [|a axes [Ha Hm] H IH]; simpl; constructor; auto.
    intros x Hx. rewrite vscale_length. rewrite <- Ha in *. apply sd_nd_len; auto.
  - induction H as [|a axes [Ha Hm] H IH]; simpl; constructor; auto.
    intros x Hx. rewrite vscale_length. rewrite <- Ha in *. apply sd_nd_adj_len; auto. Qed.
(* documented N-d Laplacian: at every flat index, the weighted sum over the axes of the documented
   1-D stencil evaluated on the fibre through that index *)
Theorem lap_nd_meets_spec N k e axes x i : axes_ok N (sd_minsize k e) axes -> length x = N -> i < N ->
  nth i (lap_nd N k e axes x) z =
  fold_right (fun a acc => radd F (rmul F (a_w a)
       (sd_spec F k e (a_s a) (a_n a) ((i / a_inner a) mod a_n a) (fibre F (a_n a) (a_inner a) (i / a_inner a / a_n a) (i mod a_inner a) x))) acc)
     z axes.
Proof. intros H Hx Hi. unfold lap_nd. rewrite (nth_lsum F N N).
  - induction H as [|a axes [Ha Hm] H IH]; simpl; auto. rewrite IH. f_equal.
    rewrite nth_vscale. f_equal. rewrite <- Ha in *. apply sd_nd_meets_spec; auto.
  - induction H as [|a axes [Ha Hm] H IH]; simpl; constructor; auto.
    intros y Hy. rewrite vscale_length. rewrite <- Ha in *. apply sd_nd_len; auto.
  - auto. Qed.

Theorem grad_nd_adjoint N k e axes : axes_ok N (fd_minsize k false e) axes ->
  AdjPair F N (N * length axes) (grad_nd k e axes) (grad_nd_adj N k e axes).
Proof. intros H. unfold grad_nd, grad_nd_adj.
  rewrite <- (map_length (fun a => fd_nd (a_outer a) (a_n a) (a_inner a) k false e (a_s a)) axes).
  apply adj_vstack.
  - induction H as [|a axes [Ha Hm] H IH]; simpl; constructor; auto. rewrite <- Ha. apply fd_nd_adjoint; auto.
  - induction H as [|a axes [Ha Hm] H IH]; simpl; constructor; auto. rewrite <- Ha. apply fd_nd_len; auto.
  - induction H as [|a axes [Ha Hm] H IH]; simpl; constructor; auto. rewrite <- Ha. apply fd_nd_adj_len; auto. Qed.
(* block b of the gradient is the documented first derivative along axis b *)
Theorem grad_nd_meets_spec N k e axes x b i a : axes_ok N (fd_minsize k false e) axes -> length x = N -> i < N ->
  nth_error axes b = Some a ->
  nth (b * N + i) (grad_nd k e axes x) z =
  fd_spec F k false e (a_s a) (a_n a) ((i / a_inner a) mod a_n a) (fibre F (a_n a) (a_inner a) (i / a_inner a / a_n a) (i mod a_inner a) x).
Proof. intros H Hx Hi Hb. unfold grad_nd. rewrite (nth_vstack F N N) by
    (auto; clear Hb; induction H as [|a' axes [Ha Hm] H IH]; simpl; constructor; auto; rewrite <- Ha; apply fd_nd_len; auto).
  assert (Ia : In a axes) by (eapply nth_error_In; eauto).
  unfold axes_ok in H. rewrite Forall_forall in H. destruct (H a Ia) as [Ha Hm].
  erewrite (nth_error_nth (map _ axes)) by (rewrite nth_error_map, Hb; reflexivity).
  rewrite <- Ha in *. apply fd_nd_meets_spec; auto. Qed.

Definition vaxes_ok (N : nat) (minsize : nat) (axes : list (axis * vec)) : Prop :=
  Forall (fun av => axN (fst av) = N /\ minsize <= a_n (fst av) /\ length (snd av) = N) axes.
Theorem fdd_nd_adjoint N k e axes : vaxes_ok N (fd_minsize k false e) axes -> AdjPair F N N (fdd_nd N k e axes) (fdd_nd_adj N k e axes).
Proof. intros H. unfold fdd_nd, fdd_nd_adj. apply adj_lsum.
  - induction H as [|a axes (Ha & Hm & Hv) H IH]; simpl; constructor; auto.
    apply (adj_vmul F N N); auto. rewrite <- Ha. apply fd_nd_adjoint; auto.
  - induction H as [|a axes (Ha & Hm & Hv) H IH]; simpl; constructor; auto.
    intros x Hx. rewrite vmul_length, Hv. rewrite <- Ha in Hx. rewrite (fd_nd_len _ _ _ _ _ _ _ Hm x Hx). lia.
  - induction H as [|a axes (Ha & Hm & Hv) H IH]; simpl; constructor; auto.
    intros x Hx. rewrite <- Ha in *. apply fd_nd_adj_len; auto. rewrite vmul_length. lia. Qed.
Theorem fdd_nd_meets_spec N k e axes x i : vaxes_ok N (fd_minsize k false e) axes -> length x = N -> i < N ->
  nth i (fdd_nd N k e axes x) z =
  fold_right (fun av acc => radd F (rmul F (nth i (snd av) z)
       (fd_spec F k false e (a_s (fst av)) (a_n (fst av)) ((i / a_inner (fst av)) mod a_n (fst av))
          (fibre F (a_n (fst av)) (a_inner (fst av)) (i / a_inner (fst av) / a_n (fst av)) (i mod a_inner (fst av)) x))) acc)
     z axes.
Proof. intros H Hx Hi. unfold fdd_nd.
  assert (L : Forall (Len F N N) (map (fun av x => vmul F (snd av) (fd_nd (a_outer (fst av)) (a_n (fst av)) (a_inner (fst av)) k false e (a_s (fst av)) x)) axes)).
  { induction H as [|a axes (Ha & Hm & Hv) H IH]; simpl; constructor; auto.
    intros y Hy. rewrite vmul_length, Hv. rewrite <- Ha in Hy. rewrite (fd_nd_len _ _ _ _ _ _ _ Hm y Hy). lia. }
  rewrite (nth_lsum F N N) by auto. clear L.
  induction H as [|a axes (Ha & Hm & Hv) H IH]; simpl; auto. rewrite IH. f_equal.
  assert (LL : length (fd_nd (a_outer (fst a)) (a_n (fst a)) (a_inner (fst a)) k false e (a_s (fst a)) x) = N)
    by (rewrite <- Ha in *; apply fd_nd_len; auto).
  assert (NV : forall (u v : vec), length u = length v -> nth i (vmul F u v) z = rmul F (nth i u z) (nth i v z)).
  { clear. intros u; revert i; induction u as [|p u IHu]; intros [|i] [|q v] Hl; simpl in *; try discriminate; try ring; auto.
    unfold vmul in *. apply IHu. lia. }
  rewrite NV by lia. f_equal. rewrite <- Ha in *. apply fd_nd_meets_spec; auto. Qed.
Lemma fdd_nd_len N k e axes : vaxes_ok N (fd_minsize k false e) axes -> Len F N N (fdd_nd N k e axes).
Proof. intros H. unfold fdd_nd. apply (lsum_length F N N).
  induction H as [|a axes' (Ha & Hm & Hv) H IH]; simpl; constructor; auto.
  intros y Hy. rewrite vmul_length, Hv. rewrite <- Ha in Hy. rewrite (fd_nd_len _ _ _ _ _ _ _ Hm y Hy). lia. Qed.
(* - D^T D is self-adjoint *)
Theorem sdd_nd_selfadjoint N e axes : vaxes_ok N (fd_minsize Centered false e) axes -> AdjPair F N N (sdd_nd N e axes) (sdd_nd N e axes).
Proof. intros H. unfold sdd_nd. apply adj_neg.
  pose proof (fdd_nd_adjoint N Centered e axes H) as A.
  apply (adj_comp F N N N _ _ _ _ A (adjpair_sym F N N _ _ A)); apply fdd_nd_len; auto. Qed.
End ND.
