(* Deriv2.v — SecondDerivative (pylops/basicoperators/secondderivative.py):
   code-shaped models of _matvec_* / _rmatvec_* (forward, centered with edge,
   backward), documented 3-point stencils, adjointness and model = spec for
   all sizes. *)
From Coq Require Import ZArith Lia ZifyBool.
From PV Require Export Deriv.

Section Deriv2.
Variable F : FieldS.
Add Ring RrD3 : (rth F).
Notation vec := (list F).
Notation vadd := (vadd F). Notation vsub := (vsub F). Notation vscale := (vscale F).
Notation vneg := (vneg F). Notation zeros := (zeros F). Notation dotu := (dotu F).
Notation sl := (sl F). Notation smp := (smp F). Notation iset := (iset F). Notation iadd := (iadd F).
Notation iset_at := (iset_at F). Notation iadd_at := (iadd_at F).
Notation two := (two F). Notation vdivc := (vdivc F).
Local Open Scope R_scope.

(* x[2:] - 2 * x[1:-1] + x[:-2] *)
Definition sd_core (x : vec) : vec :=
  vadd (vsub (sl (P 2) E x) (vscale two (sl (P 1) (M 1) x))) (sl E (M 2) x).

Definition sd_mv_forward (s : F) (x : vec) : vec :=
  let n := length x in
  let y := zeros n in
  let y := iset n E (M 2) (sd_core x) y in                     (* y[:-2] = x[2:] - 2*x[1:-1] + x[:-2] *)
  vdivc (s * s) y.                                             (* y /= sampling**2 *)
Definition sd_rmv_forward (s : F) (x : vec) : vec :=
  let n := length x in
  let y := zeros n in
  let y := iadd n E (M 2) (sl E (M 2) x) y in                          (* y[:-2] += x[:-2] *)
  let y := iadd n (P 1) (M 1) (vscale (- two) (sl E (M 2) x)) y in     (* y[1:-1] -= 2*x[:-2] *)
  let y := iadd n (P 2) E (sl E (M 2) x) y in                          (* y[2:] += x[:-2] *)
  vdivc (s * s) y.
Definition sd_mv_centered (edge : bool) (s : F) (x : vec) : vec :=
  let n := length x in
  let y := zeros n in
  let y := iset n (P 1) (M 1) (sd_core x) y in                 (* y[1:-1] = x[2:] - 2*x[1:-1] + x[:-2] *)
  let y := if edge then
      (* y[0] = x[0] - 2*x[1] + x[2] *)
      let y := iset_at n (P 0) (vadd (vsub (smp (P 0) x) (vscale two (smp (P 1) x))) (smp (P 2) x)) y in
      (* y[-1] = x[-3] - 2*x[-2] + x[-1] *)
      let y := iset_at n (M 1) (vadd (vsub (smp (M 3) x) (vscale two (smp (M 2) x))) (smp (M 1) x)) y in
      y else y in
  vdivc (s * s) y.
Definition sd_rmv_centered (edge : bool) (s : F) (x : vec) : vec :=
  let n := length x in
  let y := zeros n in
  let y := iadd n E (M 2) (sl (P 1) (M 1) x) y in                          (* y[:-2] += x[1:-1] *)
  let y := iadd n (P 1) (M 1) (vscale (- two) (sl (P 1) (M 1) x)) y in     (* y[1:-1] -= 2*x[1:-1] *)
  let y := iadd n (P 2) E (sl (P 1) (M 1) x) y in                          (* y[2:] += x[1:-1] *)
  let y := if edge then
      let y := iadd_at n (P 0) (smp (P 0) x) y in                          (* y[0] += x[0] *)
      let y := iadd_at n (P 1) (vscale (- two) (smp (P 0) x)) y in         (* y[1] -= 2*x[0] *)
      let y := iadd_at n (P 2) (smp (P 0) x) y in                          (* y[2] += x[0] *)
      let y := iadd_at n (M 3) (smp (M 1) x) y in                          (* y[-3] += x[-1] *)
      let y := iadd_at n (M 2) (vscale (- two) (smp (M 1) x)) y in         (* y[-2] -= 2*x[-1] *)
      let y := iadd_at n (M 1) (smp (M 1) x) y in                          (* y[-1] += x[-1] *)
      y else y in
  vdivc (s * s) y.
Definition sd_mv_backward (s : F) (x : vec) : vec :=
  let n := length x in
  let y := zeros n in
  let y := iset n (P 2) E (sd_core x) y in                     (* y[2:] = x[2:] - 2*x[1:-1] + x[:-2] *)
  vdivc (s * s) y.
Definition sd_rmv_backward (s : F) (x : vec) : vec :=
  let n := length x in
  let y := zeros n in
  let y := iadd n E (M 2) (sl (P 2) E x) y in                          (* y[:-2] += x[2:] *)
  let y := iadd n (P 1) (M 1) (vscale (- two) (sl (P 2) E x)) y in     (* y[1:-1] -= 2*x[2:] *)
  let y := iadd n (P 2) E (sl (P 2) E x) y in                          (* y[2:] += x[2:] *)
  vdivc (s * s) y.

Definition sd_fwd (k : dkind) (edge : bool) (s : F) (x : vec) : vec :=
  match k with Forward => sd_mv_forward s x | Centered => sd_mv_centered edge s x | Backward => sd_mv_backward s x end.
Definition sd_adj (k : dkind) (edge : bool) (s : F) (x : vec) : vec :=
  match k with Forward => sd_rmv_forward s x | Centered => sd_rmv_centered edge s x | Backward => sd_rmv_backward s x end.
Definition sd_minsize (k : dkind) (edge : bool) : nat :=
  match k with Centered => if edge then 3 else 0 | _ => 0 end.

(* documented: centered y[i] = (x[i+1] - 2x[i] + x[i-1]) / dx^2, forward
   y[i] = (x[i+2] - 2x[i+1] + x[i]) / dx^2, backward y[i] = (x[i] - 2x[i-1] + x[i-2]) / dx^2;
   rows where the stencil does not fit are zero; edge=True (centered): the
   shifted (forward / backward) stencil on the first / last sample. *)
Notation nt x i := (nth i x 0).
Definition st2_c s (x : vec) i := (nt x (i+1) - two * nt x i + nt x (i-1)) / (s * s).
Definition st2_f s (x : vec) i := (nt x (i+2) - two * nt x (i+1) + nt x i) / (s * s).
Definition st2_b s (x : vec) i := (nt x i - two * nt x (i-1) + nt x (i-2)) / (s * s).
Definition sd_spec (k : dkind) (edge : bool) (s : F) (n i : nat) (x : vec) : F :=
  match k with
  | Forward => if i + 2 <? n then st2_f s x i else 0
  | Backward => if 2 <=? i then st2_b s x i else 0
  | Centered => if (1 <=? i) && (i + 1 <? n) then st2_c s x i
                else if edge then (if i =? 0 then st2_f s x i else st2_b s x i) else 0
  end.

(* ---------------- adjointness ---------------- *)
Lemma sd_forward_adjoint s x y : length x = length y ->
  dotu (sd_mv_forward s x) y = dotu x (sd_rmv_forward s y).
Proof. intros H. unfold sd_mv_forward, sd_rmv_forward, sd_core. unf. setn x y H n Hx Hy.
  destruct n as [|[|m]]; [small x y H .. |]. cbn [Nat.min Nat.sub Nat.add].
  rewrite put_zeros by len. adj_finish (S (S m)). Qed.
Lemma sd_backward_adjoint s x y : length x = length y ->
  dotu (sd_mv_backward s x) y = dotu x (sd_rmv_backward s y).
Proof. intros H. unfold sd_mv_backward, sd_rmv_backward, sd_core. unf. setn x y H n Hx Hy.
  destruct n as [|[|m]]; [small x y H .. |]. cbn [Nat.min Nat.sub Nat.add].
  rewrite put_zeros by len. adj_finish (S (S m)). Qed.
Lemma sd_centered_adjoint (edge : bool) s x y : length x = length y -> ((if edge then 3 else 0) <= length x)%nat ->
  dotu (sd_mv_centered edge s x) y = dotu x (sd_rmv_centered edge s y).
Proof. intros H Hn. unfold sd_mv_centered, sd_rmv_centered, sd_core. unf. setn x y H n Hx Hy.
  destruct n as [|[|[|m]]]; [destruct edge; [lia|small x y H] .. |]. cbn [Nat.min Nat.sub Nat.add].
  rewrite put_zeros by len. destruct edge.
  - do 2 put2add (S (S (S m))). adj_finish (S (S (S m))).
  - adj_finish (S (S (S m))).
Qed.
Theorem sd_adjoint k edge s x y : length x = length y -> (sd_minsize k edge <= length x)%nat ->
  dotu (sd_fwd k edge s x) y = dotu x (sd_adj k edge s y).
Proof. destruct k; cbn [sd_fwd sd_adj sd_minsize]; intros.
  - apply sd_forward_adjoint; auto. - apply sd_centered_adjoint; auto. - apply sd_backward_adjoint; auto. Qed.
End Deriv2.
