(* DerivStencil.v — the code-shaped First/SecondDerivative models compute the documented
   stencils, row by row, for every size. *)
From Coq Require Import ZArith Lia ZifyBool.
From PV Require Export DerivSpec.

Section DerivStencil.
Variable F : FieldS.
Add Ring RrD5 : (rth F).
Notation vec := (list F).
Local Open Scope R_scope.

Lemma nth_put' n i a v (y : vec) : length y = n -> (a <= n)%nat ->
  nth i (put F a v y) 0 = if (a <=? i) && (i <? a + length v) then nth (i - a) v 0 else nth i y 0.
Proof. intros <- H. apply nth_put; auto. Qed.
Ltac nths' n := repeat (first [ rewrite (nth_vadd' _ n) by lf | rewrite nth_vadd by len | rewrite nth_vsub by len
  | rewrite (nth_put' n) by lf | rewrite nth_embed | rewrite nth_zeros | rewrite nth_vscale | rewrite nth_vneg | rewrite nth_slice ]).

(* ---------------- model = documented stencil, row by row ---------------- *)
Lemma fd_forward_spec o e s x i : (i < length x)%nat ->
  nth i (fd_mv_forward F s x) 0 = fd_spec F Forward o e s (length x) i x.
Proof. intros Hi. unfold fd_mv_forward, fd_spec. unf. setn1 x n Hx. destruct n as [|m]; [lia|].
  rewrite put_zeros by len. nths (S m). lens. split_ifs; fin. Qed.
Lemma fd_backward_spec o e s x i : (i < length x)%nat ->
  nth i (fd_mv_backward F s x) 0 = fd_spec F Backward o e s (length x) i x.
Proof. intros Hi. unfold fd_mv_backward, fd_spec. unf. setn1 x n Hx. destruct n as [|m]; [lia|].
  rewrite put_zeros by len. nths (S m). lens. split_ifs; fin. Qed.
Lemma fd_c3_spec (e : bool) s x i : (i < length x)%nat -> ((if e then 2 else 0) <= length x)%nat ->
  nth i (fd_mv_c3 F e s x) 0 = fd_spec F Centered false e s (length x) i x.
Proof. intros Hi Hn. unfold fd_mv_c3, fd_spec. unf. setn1 x n Hx.
  destruct n as [|[|m]]; [destruct e; [lia|smallspec x i] .. |].
  rewrite put_zeros by len. destruct e; nths' (S (S m)); lens; split_ifs; fin. Qed.
Lemma fd_c5_spec (e : bool) s x i : (i < length x)%nat -> ((if e then 4 else 0) <= length x)%nat ->
  nth i (fd_mv_c5 F e s x) 0 = fd_spec F Centered true e s (length x) i x.
Proof. intros Hi Hn. unfold fd_mv_c5, fd_spec. unf. setn1 x n Hx.
  destruct n as [|[|[|[|m]]]]; [destruct e; [lia|smallspec x i] .. |].
  rewrite put_zeros by len. destruct e; nths' (S (S (S (S m)))); lens; split_ifs; fin. Qed.
Theorem fd_meets_spec k o e s x i : (i < length x)%nat -> (fd_minsize k o e <= length x)%nat ->
  nth i (fd_fwd F k o e s x) 0 = fd_spec F k o e s (length x) i x.
Proof. destruct k; cbn [fd_fwd fd_minsize]; intros.
  - apply fd_forward_spec; auto.
  - destruct o; [apply fd_c5_spec | apply fd_c3_spec]; auto; destruct e; lia.
  - apply fd_backward_spec; auto. Qed.

Lemma sd_forward_spec e s x i : (i < length x)%nat ->
  nth i (sd_mv_forward F s x) 0 = sd_spec F Forward e s (length x) i x.
Proof. intros Hi. unfold sd_mv_forward, sd_core, sd_spec. unf. setn1 x n Hx.
  destruct n as [|[|m]]; [smallspec x i .. |].
  rewrite put_zeros by len. nths (S (S m)). lens. split_ifs; fin. Qed.
Lemma sd_backward_spec e s x i : (i < length x)%nat ->
  nth i (sd_mv_backward F s x) 0 = sd_spec F Backward e s (length x) i x.
Proof. intros Hi. unfold sd_mv_backward, sd_core, sd_spec. unf. setn1 x n Hx.
  destruct n as [|[|m]]; [smallspec x i .. |].
  rewrite put_zeros by len. nths (S (S m)). lens. split_ifs; fin. Qed.
Lemma sd_centered_spec (e : bool) s x i : (i < length x)%nat -> ((if e then 3 else 0) <= length x)%nat ->
  nth i (sd_mv_centered F e s x) 0 = sd_spec F Centered e s (length x) i x.
Proof. intros Hi Hn. unfold sd_mv_centered, sd_core, sd_spec. unf. setn1 x n Hx.
  destruct n as [|[|[|m]]]; [destruct e; [lia|smallspec x i] .. |].
  rewrite put_zeros by len. destruct e; nths' (S (S (S m))); lens; split_ifs; fin. Qed.
Theorem sd_meets_spec k e s x i : (i < length x)%nat -> (sd_minsize k e <= length x)%nat ->
  nth i (sd_fwd F k e s x) 0 = sd_spec F k e s (length x) i x.
Proof. destruct k; cbn [sd_fwd sd_minsize]; intros.
  - apply sd_forward_spec; auto. - apply sd_centered_spec; auto. - apply sd_backward_spec; auto. Qed.
End DerivStencil.
