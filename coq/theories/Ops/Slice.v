(* Slice.v — list-vector primitives mirroring numpy slicing:
   [slice a b x] = x[a:b] (0 <= a, b already normalised), [embed n a v] = zero
   vector of length n with v written at offset a, [put a v y] = y with
   y[a:a+|v|] overwritten by v (inplace_set), numpy index normalisation
   ([idx], [rstart], [rstop], [rsamp]) and the numpy-shaped helpers
   [sl], [smp], [iset], [iadd], [iset_at], [iadd_at] used by the code-shaped
   operator models.  Adjoint lemmas (embed/slice), nth lemmas, linearity. *)
From Coq Require Import ZArith Lia ZifyBool.
From PV Require Export Dot.

(* numpy index: P k = k, M k = -k (k >= 1), E = None *)
Inductive idx := P (k : nat) | M (k : nat) | E.
Definition rstart (i : idx) (n : nat) : nat := match i with P k => Nat.min k n | M k => n - k | E => 0 end.
Definition rstop (i : idx) (n : nat) : nat := match i with P k => Nat.min k n | M k => n - k | E => n end.
Definition rsamp (i : idx) (n : nat) : nat := match i with P k => k | M k => n - k | E => 0 end.

Section Slice.
Variable R : CRing.
Add Ring RrS : (rth R).
Notation vec := (list R).

Definition slice (a b : nat) (x : vec) : vec := firstn (b - a) (skipn a x).
Definition embed (n a : nat) (v : vec) : vec := zeros R a ++ v ++ zeros R (n - a - length v).
Definition put (a : nat) (v y : vec) : vec := firstn a y ++ v ++ skipn (a + length v) y.


(* x[a:b] *)
Definition sl (a b : idx) (x : vec) : vec := slice (rstart a (length x)) (rstop b (length x)) x.
(* x[..., k] kept as a 1-sample vector *)
Definition smp (k : idx) (x : vec) : vec := slice (rsamp k (length x)) (rsamp k (length x) + 1) x.
(* y[a:b] = v ; y[a:b] += v ; y[k] = v ; y[k] += v   (n = length of y) *)
Definition iset (n : nat) (a b : idx) (v y : vec) : vec := put (rstart a n) v y.
Definition iadd (n : nat) (a b : idx) (v y : vec) : vec := vadd R y (embed n (rstart a n) v).
Definition iset_at (n : nat) (k : idx) (v y : vec) : vec := put (rsamp k n) v y.
Definition iadd_at (n : nat) (k : idx) (v y : vec) : vec := vadd R y (embed n (rsamp k n) v).

(* ---------------- lengths (all unconditional) ---------------- *)
Lemma slice_length a b x : length (slice a b x) = Nat.min (b - a) (length x - a).
Proof. unfold slice. rewrite firstn_length, skipn_length. reflexivity. Qed.
Lemma embed_length n a v : length (embed n a v) = a + length v + (n - a - length v).
Proof. unfold embed. rewrite !app_length, !zeros_length. lia. Qed.
Lemma put_length a v y : length (put a v y) = Nat.min a (length y) + length v + (length y - (a + length v)).
Proof. unfold put. rewrite !app_length, firstn_length, skipn_length. lia. Qed.

(* ---------------- nth (default 0) ---------------- *)
Lemma nth_zeros i n : nth i (zeros R n) 0%R = 0%R.
Proof. unfold zeros. revert i; induction n; intros [|i]; simpl; auto. Qed.
Lemma nth_vscale i c u : nth i (vscale R c u) 0%R = (c * nth i u 0)%R.
Proof. revert i; induction u as [|a u IH]; intros [|i]; simpl; try ring; auto. Qed.
Lemma nth_vneg i u : nth i (vneg R u) 0%R = (- nth i u 0)%R.
Proof. revert i; induction u as [|a u IH]; intros [|i]; simpl; try ring; auto. Qed.
Lemma nth_vadd i u v : length u = length v -> nth i (vadd R u v) 0%R = (nth i u 0 + nth i v 0)%R.
Proof. revert i v; induction u as [|a u IH]; intros [|i] [|b v] H; simpl in *; try discriminate; try ring.
  apply IH; lia. Qed.
Lemma nth_vsub i u v : length u = length v -> nth i (vsub R u v) 0%R = (nth i u 0 - nth i v 0)%R.
Proof. revert i v; induction u as [|a u IH]; intros [|i] [|b v] H; simpl in *; try discriminate; try ring.
  apply IH; lia. Qed.
Lemma nth_skipn i a (x : vec) : nth i (skipn a x) 0%R = nth (a + i) x 0%R.
Proof. revert x; induction a as [|a IH]; intros [|b x]; simpl; auto. destruct i; auto. Qed.
Lemma nth_firstn i k (x : vec) : nth i (firstn k x) 0%R = if i <? k then nth i x 0%R else 0%R.
Proof. revert i x; induction k as [|k IH]; intros i x; simpl.
  - destruct i; reflexivity.
  - destruct x as [|b x]; [destruct (i <? S k); destruct i; reflexivity|].
    destruct i as [|i]; cbn [nth firstn]; [reflexivity|]. rewrite IH. reflexivity. Qed.
Lemma nth_slice i a b x : nth i (slice a b x) 0%R = if i <? b - a then nth (a + i) x 0%R else 0%R.
Proof. unfold slice. rewrite nth_firstn, nth_skipn. reflexivity. Qed.
Lemma nth_embed i n a v : nth i (embed n a v) 0%R = if a <=? i then nth (i - a) v 0%R else 0%R.
Proof. unfold embed. destruct (Nat.leb_spec a i).
  - rewrite app_nth2 by (rewrite zeros_length; lia). rewrite zeros_length.
    destruct (Nat.lt_ge_cases (i - a) (length v)).
    + rewrite app_nth1 by lia. reflexivity.
    + rewrite app_nth2 by lia. rewrite nth_zeros. symmetry. apply nth_overflow. lia.
  - rewrite app_nth1 by (rewrite zeros_length; lia). apply nth_zeros. Qed.
Lemma nth_put i a v y : a <= length y ->
  nth i (put a v y) 0%R = if (a <=? i) && (i <? a + length v) then nth (i - a) v 0%R else nth i y 0%R.
Proof. intros H. unfold put.
  assert (L : length (firstn a y) = a) by (rewrite firstn_length; lia).
  destruct (Nat.leb_spec a i); cbn [andb].
  - rewrite app_nth2 by lia. rewrite L. destruct (Nat.ltb_spec i (a + length v)).
    + rewrite app_nth1 by lia. reflexivity.
    + rewrite app_nth2 by lia. rewrite nth_skipn. f_equal. lia.
  - rewrite app_nth1 by lia. rewrite nth_firstn. destruct (Nat.ltb_spec i a); auto; lia. Qed.

(* extensionality through nth with default 0 *)
Lemma vec_ext (u v : vec) : length u = length v -> (forall i, i < length u -> nth i u 0%R = nth i v 0%R) -> u = v.
Proof. intros H1 H2. apply (nth_ext u v 0%R 0%R); auto. Qed.

(* ---------------- put on a zero range is an addition ---------------- *)
Lemma put_zeros n a v : a + length v <= n -> put a v (zeros R n) = embed n a v.
Proof. intros H. apply vec_ext.
  - rewrite put_length, embed_length, zeros_length. lia.
  - intros i _. rewrite nth_put by (rewrite zeros_length; lia). rewrite nth_embed, nth_zeros.
    destruct (Nat.leb_spec a i); cbn [andb]; auto.
    destruct (Nat.ltb_spec i (a + length v)); auto. symmetry; apply nth_overflow; lia. Qed.
Lemma vadd_zeros_l' n u : length u = n -> vadd R (zeros R n) u = u.
Proof. intros <-. apply vadd_zeros_l. Qed.
Lemma put_as_add a v y : a + length v <= length y ->
  (forall i, a <= i -> i < a + length v -> nth i y 0%R = 0%R) ->
  put a v y = vadd R y (embed (length y) a v).
Proof. intros H Z. apply vec_ext.
  - rewrite put_length, vadd_length, embed_length. lia.
  - intros i _. rewrite nth_put by lia. rewrite nth_vadd by (rewrite embed_length; lia). rewrite nth_embed.
    destruct (Nat.leb_spec a i); cbn [andb].
    + destruct (Nat.ltb_spec i (a + length v)).
      * rewrite Z by lia. ring.
      * rewrite (nth_overflow v) by lia. ring.
    + ring. Qed.

(* ---------------- embed / slice are adjoint ---------------- *)
Lemma skipn_skipn' a l (w : vec) : skipn l (skipn a w) = skipn (a + l) w.
Proof. revert w; induction a as [|a IH]; intros w; simpl; auto. destruct w; auto. destruct l; auto. Qed.
Lemma split3 a l (w : vec) : a + l <= length w ->
  w = firstn a w ++ slice a (a + l) w ++ skipn (a + l) w.
Proof. intros H. unfold slice. replace (a + l - a) with l by lia.
  rewrite <- (firstn_skipn a w) at 1. f_equal.
  rewrite <- (firstn_skipn l (skipn a w)) at 1. f_equal. rewrite skipn_skipn'. reflexivity. Qed.
Theorem dotu_embed_l n a v w : length w = n -> a + length v <= n ->
  dotu R (embed n a v) w = dotu R v (slice a (a + length v) w).
Proof. intros Hw H. rewrite (split3 a (length v) w) at 1 by lia. unfold embed.
  rewrite dotu_app by (rewrite zeros_length, firstn_length; lia).
  rewrite dotu_app by (rewrite slice_length; lia).
  rewrite !dotu_zeros_l. ring. Qed.
Theorem dotu_embed_r n a v w : length w = n -> a + length v <= n ->
  dotu R w (embed n a v) = dotu R (slice a (a + length v) w) v.
Proof. intros; rewrite dotu_comm, dotu_embed_l by auto. apply dotu_comm. Qed.
(* the two named forms of DESIGN §C01 *)
Theorem embed_slice_adj n a v w : length w = n -> a + length v <= n ->
  dotu R (embed n a v) w = dotu R v (slice a (a + length v) w).
Proof. exact (dotu_embed_l n a v w). Qed.
Theorem slice_embed_adj n a b x v : length x = n -> a <= b -> b <= n -> length v = b - a ->
  dotu R (slice a b x) v = dotu R x (embed n a v).
Proof. intros. rewrite dotu_embed_r by lia. do 2 f_equal. lia. Qed.

Lemma dotu_vneg_r u v : dotu R u (vneg R v) = (- dotu R u v)%R.
Proof. rewrite dotu_comm, dotu_vneg_l, dotu_comm. ring. Qed.

(* ---------------- linearity of slice / embed ---------------- *)
Lemma firstn_vadd k (u v : vec) : firstn k (vadd R u v) = vadd R (firstn k u) (firstn k v).
Proof. revert u v; induction k as [|k IH]; intros [|a u] [|b v]; simpl; auto.
  unfold vadd in *; simpl; rewrite IH; auto. Qed.
Lemma skipn_vadd k (u v : vec) : length u = length v -> skipn k (vadd R u v) = vadd R (skipn k u) (skipn k v).
Proof. revert u v; induction k as [|k IH]; intros [|a u] [|b v] H; simpl in *; try discriminate; auto. apply IH; lia. Qed.
Lemma slice_vadd a b u v : length u = length v -> slice a b (vadd R u v) = vadd R (slice a b u) (slice a b v).
Proof. intros; unfold slice. rewrite skipn_vadd, firstn_vadd; auto. Qed.
Lemma slice_vscale a b c u : slice a b (vscale R c u) = vscale R c (slice a b u).
Proof. unfold slice, vscale. rewrite skipn_map, firstn_map. reflexivity. Qed.
Lemma embed_vadd n a u v : length u = length v -> embed n a (vadd R u v) = vadd R (embed n a u) (embed n a v).
Proof. intros H. apply vec_ext.
  - rewrite vadd_length, !embed_length, vadd_length. lia.
  - intros i _. rewrite nth_vadd by (rewrite !embed_length; lia). rewrite !nth_embed.
    destruct (a <=? i); [apply nth_vadd; auto | ring]. Qed.
Lemma embed_vscale n a c u : embed n a (vscale R c u) = vscale R c (embed n a u).
Proof. unfold embed. rewrite !vscale_app, !vscale_zeros, vscale_length. reflexivity. Qed.
Lemma sl_length_eq a b u v : length u = length v -> length (sl a b u) = length (sl a b v).
Proof. intros H; unfold sl; rewrite !slice_length, H; reflexivity. Qed.
Lemma sl_vadd a b u v : length u = length v -> sl a b (vadd R u v) = vadd R (sl a b u) (sl a b v).
Proof. intros H; unfold sl. rewrite vadd_length, <- H, Nat.min_id. apply slice_vadd; auto. Qed.
Lemma sl_vscale a b c u : sl a b (vscale R c u) = vscale R c (sl a b u).
Proof. unfold sl. rewrite vscale_length. apply slice_vscale. Qed.
Lemma smp_vadd k u v : length u = length v -> smp k (vadd R u v) = vadd R (smp k u) (smp k v).
Proof. intros H; unfold smp. rewrite vadd_length, <- H, Nat.min_id. apply slice_vadd; auto. Qed.
Lemma smp_vscale k c u : smp k (vscale R c u) = vscale R c (smp k u).
Proof. unfold smp. rewrite vscale_length. apply slice_vscale. Qed.

(* ---------------- full-length bookkeeping (apply-style) ---------------- *)
Lemma L_vadd n u v : length u = n -> length v = n -> length (vadd R u v) = n.
Proof. intros; rewrite vadd_length; lia. Qed.
Lemma L_vsub n u v : length u = n -> length v = n -> length (vsub R u v) = n.
Proof. intros; rewrite vsub_length; lia. Qed.
Lemma L_vscale n c u : length u = n -> length (vscale R c u) = n.
Proof. intros; rewrite vscale_length; lia. Qed.
Lemma L_vneg n u : length u = n -> length (vneg R u) = n.
Proof. intros; rewrite vneg_length; lia. Qed.
Lemma L_embed n a v : a + length v <= n -> length (embed n a v) = n.
Proof. intros; rewrite embed_length; lia. Qed.
Lemma L_put n a v y : length y = n -> a + length v <= n -> length (put a v y) = n.
Proof. intros; rewrite put_length; lia. Qed.
Lemma dotu_vadd_l' n u1 u2 v : length u1 = n -> length u2 = n ->
  dotu R (vadd R u1 u2) v = (dotu R u1 v + dotu R u2 v)%R.
Proof. intros; apply dotu_vadd_l; lia. Qed.
Lemma dotu_vadd_r' n u v1 v2 : length v1 = n -> length v2 = n ->
  dotu R u (vadd R v1 v2) = (dotu R u v1 + dotu R u v2)%R.
Proof. intros; apply dotu_vadd_r; lia. Qed.
Lemma nth_vadd' n i u v : length u = n -> length v = n -> nth i (vadd R u v) 0%R = (nth i u 0 + nth i v 0)%R.
Proof. intros; apply nth_vadd; lia. Qed.
Lemma put_as_add' n a v y : length y = n -> a + length v <= n ->
  (forall i, a <= i -> i < a + length v -> nth i y 0%R = 0%R) ->
  put a v y = vadd R y (embed n a v).
Proof. intros <- H Z. apply put_as_add; auto. Qed.
End Slice.

(* length normalisation and the side-condition solvers used by the operator files.
   [len]: short vectors (a few slices), unconditional length rewriting + lia.
   [lf]: goals  length T = n  /  a + length v <= n  for full-length accumulators. *)
Ltac lenhyp := repeat match goal with H : length ?x = _ |- context [length ?x] => is_var x; rewrite H end.
Ltac lens := repeat (progress (rewrite ?vadd_length, ?vsub_length, ?vscale_length, ?vneg_length, ?embed_length,
                      ?slice_length, ?zeros_length, ?put_length, ?map_length; lenhyp; cbn [length];
                      rewrite ?Nat.min_id, ?Nat.sub_0_r, ?Nat.add_0_r)).
Ltac len := lens; cbn [rstart rstop rsamp]; lia.
Ltac lf := solve [ repeat (first [ apply L_vadd | apply L_vsub | apply L_vscale | apply L_vneg | apply L_embed
                                 | apply L_put | apply zeros_length | assumption | symmetry; assumption | reflexivity ]);
                   len ].
