(* BilinearOp.v — Bilinear (signalprocessing/bilinear.py): four-weight gather at
   fractional positions (iava[0], iava[1]) on the first two axes of a C-order
   array, with optional trailing (batch) axes; adjoint = four np.add.at scatters.
   The code-shaped model [bilin_code_fwd]/[bilin_code_adj] is in InterpOps.v
   (weighted gathers on flat indices); here: the documented four-term formula,
   the batch version and the all-sizes theorems. *)
From Coq Require Import ZArith Lia ZifyBool.
From PV Require Import Dict Vec Dot IndexOps Conv InterpOps.

Section Bilinear.
Variable R : CRing.
Add Ring RrBil : (rth R).
Notation vec := (list R).
Notation "0r" := (r0 R).
Notation "1r" := (r1 R).
Notation "a *r b" := (rmul R a b) (at level 40, left associativity).
Notation "a +r b" := (radd R a b) (at level 50, left associativity).
Notation "a -r b" := (rsub R a b) (at level 50, left associativity).

(* x[a, b] of an (n1, n2) C-order array *)
Definition x2 (n2 : nat) (x : vec) (a b : nat) : R := nth (a * n2 + b) x 0r.
(* documentation: (1-w0)(1-w1) x[l0,l1] + w0 (1-w1) x[l0+1,l1] + (1-w0) w1 x[l0,l1+1] + w0 w1 x[l0+1,l1+1] *)
Definition bilinear_spec (n2 : nat) (ts ls : list nat) (wts wls : vec) (i : nat) (x : vec) : R :=
  let t := nth i ts 0 in let l := nth i ls 0 in
  let wt := nth i wts 0r in let wl := nth i wls 0r in
  (1r -r wt) *r (1r -r wl) *r x2 n2 x t l +r wt *r (1r -r wl) *r x2 n2 x (S t) l
  +r (1r -r wt) *r wl *r x2 n2 x t (S l) +r wt *r wl *r x2 n2 x (S t) (S l).

Lemma nth_map2 {A B C} (f : A -> B -> C) u v i dA dB dC : i < length u -> i < length v ->
  nth i (map2 f u v) dC = f (nth i u dA) (nth i v dB).
Proof. revert v i; induction u as [|a u IH]; intros [|b v] i Hu Hv; simpl in *; try lia.
  destruct i; auto. apply IH; lia. Qed.
Lemma nth_om (w : vec) i : i < length w -> nth i (om R w) 0r = 1r -r nth i w 0r.
Proof. intros H; unfold om. apply nth_map' with (d' := 0r); auto. Qed.
Lemma nth_flat2 n2 ts ls i : i < length ts -> i < length ls ->
  nth i (flat2 n2 ts ls) 0 = nth i ts 0 * n2 + nth i ls 0.
Proof. intros; unfold flat2. rewrite (nth_map2 (fun t l => t * n2 + l) ts ls i 0 0 0) by auto. reflexivity. Qed.
Lemma bilin_code_fwd_length n2 ts ls wts wls x :
  length ts = length ls -> length wts = length ls -> length wls = length ls ->
  length (bilin_code_fwd R n2 ts ls wts wls x) = length ls.
Proof. intros H1 H2 H3. unfold bilin_code_fwd.
  assert (Lo : forall w, length (om R w) = length w) by (intros; unfold om; apply map_length).
  assert (L : forall w1 w2 t l, length w1 = length ls -> length w2 = length ls -> length t = length ls -> length l = length ls ->
     length (wg R (vmul R w1 w2) (flat2 n2 t l) x) = length ls).
  { intros. rewrite wg_length; rewrite ?flat2_length, ?vmul_length; lia. }
  rewrite !vadd_length, !L by (rewrite ?Lo, ?map_length; lia). lia. Qed.

(* every output entry is the documented four-term combination: all grid sizes,
   all position lists *)
Theorem bilin_meets_spec n2 ts ls wts wls x i :
  length ts = length ls -> length wts = length ls -> length wls = length ls -> i < length ls ->
  nth i (bilin_code_fwd R n2 ts ls wts wls x) 0r = bilinear_spec n2 ts ls wts wls i x.
Proof. intros H1 H2 H3 Hi. unfold bilin_code_fwd.
  assert (L : forall w1 w2 t l, length w1 = length ls -> length w2 = length ls -> length t = length ls -> length l = length ls ->
     length (wg R (vmul R w1 w2) (flat2 n2 t l) x) = length ls).
  { intros. rewrite wg_length; rewrite ?flat2_length, ?vmul_length; lia. }
  assert (Lo : forall w, length (om R w) = length w) by (intros; unfold om; apply map_length).
  rewrite !nth_vadd by (rewrite ?vadd_length, ?L; rewrite ?Lo, ?map_length; lia).
  rewrite !nth_wg by (rewrite flat2_length; rewrite ?map_length; lia).
  rewrite !nth_vmul. rewrite !nth_om by lia.
  rewrite !(nth_indep (flat2 _ _ _) (length x) 0) by (rewrite flat2_length; rewrite ?map_length; lia).
  rewrite !nth_flat2 by (rewrite ?map_length; lia).
  rewrite !(nth_map' S _ i 0 0) by lia.
  unfold bilinear_spec, x2. cbv zeta.
  replace (S (nth i ts 0) * n2 + S (nth i ls 0)) with (S (S (nth i ts 0) * n2 + nth i ls 0)) by lia.
  replace (nth i ts 0 * n2 + S (nth i ls 0)) with (S (nth i ts 0 * n2 + nth i ls 0)) by lia.
  ring. Qed.

Theorem bilin_linear n2 ts ls wts wls :
  length ts = length ls -> length wts = length ls -> length wls = length ls ->
  Linear R (bilin_code_fwd R n2 ts ls wts wls).
Proof. intros H1 H2 H3. apply linear_of_entries with (len := fun _ => length ls) (spec := bilinear_spec n2 ts ls wts wls).
  - intros; apply bilin_code_fwd_length; auto.
  - intros; apply bilin_meets_spec; auto.
  - intros i a b x y H. unfold bilinear_spec, x2. cbv zeta. rewrite !nth_lincomb by auto. ring. Qed.

(* ---------------- trailing (batch) axes: dims = (n1, n2, inner) ---------------- *)
(* x[t, l, k] is the flat element (t*n2 + l)*inner + k; y[i, k] the flat element i*inner + k *)
Definition expand_w (inner : nat) (w : vec) : vec := flat_map (fun a => repeat a inner) w.
Definition expand_idx (inner : nat) (idx : list nat) : list nat :=
  flat_map (fun f => map (fun k => f * inner + k) (seq 0 inner)) idx.
Definition bwg (inner : nat) (w : vec) (idx : list nat) (x : vec) : vec := wg R (expand_w inner w) (expand_idx inner idx) x.
Definition bwsc (n inner : nat) (w : vec) (idx : list nat) (y : vec) : vec := wsc R n (expand_w inner w) (expand_idx inner idx) y.
Definition bilin_batch_fwd (n2 inner : nat) (ts ls : list nat) (wts wls : vec) (x : vec) : vec :=
  vadd R (vadd R (vadd R
    (bwg inner (vmul R (om R wts) (om R wls)) (flat2 n2 ts ls) x)
    (bwg inner (vmul R (om R wts) wls) (flat2 n2 ts (map S ls)) x))
    (bwg inner (vmul R wts (om R wls)) (flat2 n2 (map S ts) ls) x))
    (bwg inner (vmul R wts wls) (flat2 n2 (map S ts) (map S ls)) x).
Definition bilin_batch_adj (n n2 inner : nat) (ts ls : list nat) (wts wls : vec) (y : vec) : vec :=
  vadd R (vadd R (vadd R
    (bwsc n inner (vmul R (om R wts) (om R wls)) (flat2 n2 ts ls) y)
    (bwsc n inner (vmul R (om R wts) wls) (flat2 n2 ts (map S ls)) y))
    (bwsc n inner (vmul R wts (om R wls)) (flat2 n2 (map S ts) ls) y))
    (bwsc n inner (vmul R wts wls) (flat2 n2 (map S ts) (map S ls)) y).

Lemma flat_map_length_uniform {A B} (f : A -> list B) (l : list A) m :
  (forall a, length (f a) = m) -> length (flat_map f l) = length l * m.
Proof. intros H. induction l as [|a l IH]; simpl; auto. rewrite app_length, H, IH. reflexivity. Qed.
Lemma nth_flat_map_uniform {A B} (f : A -> list B) (l : list A) m i k dA dB :
  (forall a, length (f a) = m) -> i < length l -> k < m ->
  nth (i * m + k) (flat_map f l) dB = nth k (f (nth i l dA)) dB.
Proof. intros H. revert i; induction l as [|a l IH]; intros i Hi Hk; simpl in *; [lia|].
  destruct i.
  - simpl. apply app_nth1. rewrite H; auto.
  - rewrite app_nth2 by (rewrite H; simpl; lia). rewrite H. replace (S i * m + k - m) with (i * m + k) by (simpl; lia).
    apply IH; lia. Qed.
Lemma expand_w_length inner w : length (expand_w inner w) = length w * inner.
Proof. apply flat_map_length_uniform. intros; apply repeat_length. Qed.
Lemma expand_idx_length inner idx : length (expand_idx inner idx) = length idx * inner.
Proof. apply flat_map_length_uniform. intros; rewrite map_length, seq_length; auto. Qed.
Lemma nth_expand_w inner w i k : i < length w -> k < inner -> nth (i * inner + k) (expand_w inner w) 0r = nth i w 0r.
Proof. intros Hi Hk. unfold expand_w. rewrite nth_flat_map_uniform with (m := inner) (dA := 0r) by (auto; intros; apply repeat_length).
  rewrite nth_indep with (d' := nth i w 0r) by (rewrite repeat_length; auto). apply nth_repeat. Qed.
Lemma nth_expand_idx inner idx i k d : i < length idx -> k < inner ->
  nth (i * inner + k) (expand_idx inner idx) d = nth i idx 0 * inner + k.
Proof. intros Hi Hk. unfold expand_idx.
  rewrite nth_flat_map_uniform with (m := inner) (dA := 0) by (auto; intros; rewrite map_length, seq_length; auto).
  rewrite nth_map' with (d' := 0) by (rewrite seq_length; auto). rewrite seq_nth by auto. reflexivity. Qed.
Lemma nth_bwg inner w idx x i k : length w = length idx -> i < length idx -> k < inner ->
  nth (i * inner + k) (bwg inner w idx x) 0r = nth i w 0r *r nth (nth i idx 0 * inner + k) x 0r.
Proof. intros Hw Hi Hk. unfold bwg. rewrite nth_wg by (rewrite expand_idx_length; nia).
  rewrite nth_expand_w by lia. rewrite nth_expand_idx by auto. reflexivity. Qed.
Lemma bwg_length inner w idx x : length w = length idx -> length (bwg inner w idx x) = length idx * inner.
Proof. intros H. unfold bwg. rewrite wg_length; rewrite ?expand_w_length, ?expand_idx_length; auto. Qed.

Definition x3 (n2 inner : nat) (x : vec) (a b k : nat) : R := nth ((a * n2 + b) * inner + k) x 0r.
Theorem bilin_batch_meets_spec n2 inner ts ls wts wls x i k :
  length ts = length ls -> length wts = length ls -> length wls = length ls -> i < length ls -> k < inner ->
  nth (i * inner + k) (bilin_batch_fwd n2 inner ts ls wts wls x) 0r =
  let t := nth i ts 0 in let l := nth i ls 0 in let wt := nth i wts 0r in let wl := nth i wls 0r in
  (1r -r wt) *r (1r -r wl) *r x3 n2 inner x t l k +r wt *r (1r -r wl) *r x3 n2 inner x (S t) l k
  +r (1r -r wt) *r wl *r x3 n2 inner x t (S l) k +r wt *r wl *r x3 n2 inner x (S t) (S l) k.
Proof. intros H1 H2 H3 Hi Hk. unfold bilin_batch_fwd.
  assert (Lo : forall w, length (om R w) = length w) by (intros; unfold om; apply map_length).
  assert (L : forall w1 w2 t l, length w1 = length ls -> length w2 = length ls -> length t = length ls -> length l = length ls ->
     length (bwg inner (vmul R w1 w2) (flat2 n2 t l) x) = length ls * inner).
  { intros. rewrite bwg_length; rewrite ?flat2_length, ?vmul_length; lia. }
  rewrite !nth_vadd by (rewrite ?vadd_length, ?L; rewrite ?Lo, ?map_length; lia).
  rewrite !nth_bwg by (rewrite ?flat2_length, ?vmul_length; rewrite ?Lo, ?map_length; lia).
  rewrite !nth_vmul. rewrite !nth_om by lia.
  rewrite !nth_flat2 by (rewrite ?map_length; lia).
  rewrite !(nth_map' S _ i 0 0) by lia.
  unfold x3. cbv zeta. ring. Qed.
(* forward / accumulating adjoint are transposes for every position list
   (positions sharing cells included) and every batch size *)
Theorem bilin_batch_adjoint n2 inner ts ls wts wls x y :
  length ts = length ls -> length wts = length ls -> length wls = length ls -> length y = length ls * inner ->
  dotu R (bilin_batch_fwd n2 inner ts ls wts wls x) y = dotu R x (bilin_batch_adj (length x) n2 inner ts ls wts wls y).
Proof. intros H1 H2 H3 H4. unfold bilin_batch_fwd, bilin_batch_adj.
  assert (Lo : forall w, length (om R w) = length w) by (intros; unfold om; apply map_length).
  assert (L : forall w1 w2 t l, length w1 = length ls -> length w2 = length ls -> length t = length ls -> length l = length ls ->
     length (bwg inner (vmul R w1 w2) (flat2 n2 t l) x) = length ls * inner).
  { intros. rewrite bwg_length; rewrite ?flat2_length, ?vmul_length; lia. }
  assert (A : forall w1 w2 t l, length w1 = length ls -> length w2 = length ls -> length t = length ls -> length l = length ls ->
     dotu R (bwg inner (vmul R w1 w2) (flat2 n2 t l) x) y = dotu R x (bwsc (length x) inner (vmul R w1 w2) (flat2 n2 t l) y)).
  { intros. unfold bwg, bwsc. apply wg_adjoint; rewrite ?expand_w_length, ?expand_idx_length, ?flat2_length, ?vmul_length; lia. }
  rewrite !dotu_vadd_l by (rewrite ?vadd_length, ?L; rewrite ?Lo, ?map_length; lia).
  rewrite !dotu_vadd_r by (rewrite ?vadd_length; unfold bwsc; rewrite ?wsc_length; lia).
  rewrite !A by (rewrite ?Lo, ?map_length; lia). reflexivity. Qed.
End Bilinear.
