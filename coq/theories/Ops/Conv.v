(* Conv.v — Convolve1D (convolve1d.py) over a commutative ring.
   [conv_same_model h offset x] mirrors _Convolve1Dshort: the filter is
   zero-padded on one side by |2*(nh/2 - offset) - [nh even]| samples and
   convolved with x in scipy's mode='same' (the centred window of the full
   convolution); [conv_spec] is the documented Toeplitz formula
   y_i = sum_j h_j x_{i-j+offset} with zero extension. *)
From Coq Require Import ZArith Lia ZifyBool.
From PV Require Import Dict Vec Dot IndexOps.

Section Conv.
Variable R : CRing.
Add Ring RrConv : (rth R).
Notation vec := (list R).
Notation "0r" := (r0 R).
Notation "a *r b" := (rmul R a b) (at level 40, left associativity).
Notation "a +r b" := (radd R a b) (at level 50, left associativity).

(* sum_{k < n} f k *)
Fixpoint bigsum (n : nat) (f : nat -> R) : R :=
  match n with O => 0r | S m => bigsum m f +r f m end.
(* zero extension of a vector to all integer indices *)
Definition xz (x : vec) (k : Z) : R := if (k <? 0)%Z then 0r else nth (Z.to_nat k) x 0r.

(* documentation (design C07): y_i = sum_j h_j x_{i - j + offset} *)
Definition conv_spec (h : vec) (offset : nat) (i : nat) (x : vec) : R :=
  bigsum (length h) (fun j => nth j h 0r *r xz x (Z.of_nat i - Z.of_nat j + Z.of_nat offset)).

(* ---------------- finite sums ---------------- *)
Lemma bigsum_ext n f g : (forall k, k < n -> f k = g k) -> bigsum n f = bigsum n g.
Proof. induction n as [|n IH]; intros H; simpl; auto. rewrite IH, H by (auto; intros; apply H; lia). auto. Qed.
Lemma bigsum_zero n f : (forall k, k < n -> f k = 0r) -> bigsum n f = 0r.
Proof. induction n as [|n IH]; intros H; simpl; auto. rewrite IH, H by (auto; intros; apply H; lia). ring. Qed.
Lemma bigsum_add n f g : bigsum n (fun k => f k +r g k) = bigsum n f +r bigsum n g.
Proof. induction n as [|n IH]; simpl; [ring | rewrite IH; ring]. Qed.
Lemma bigsum_scale n a f : bigsum n (fun k => a *r f k) = a *r bigsum n f.
Proof. induction n as [|n IH]; simpl; [ring | rewrite IH; ring]. Qed.
Lemma bigsum_split n m f : bigsum (n + m) f = bigsum n f +r bigsum m (fun k => f (n + k)).
Proof. induction m as [|m IH]; simpl.
  - rewrite Nat.add_0_r. ring.
  - rewrite Nat.add_succ_r. simpl. rewrite IH. ring. Qed.
Lemma bigsum_shift n f : bigsum (S n) f = f 0 +r bigsum n (fun k => f (S k)).
Proof. change (S n) with (1 + n). rewrite bigsum_split. simpl. ring. Qed.
Lemma bigsum_exchange n m (f : nat -> nat -> R) :
  bigsum n (fun i => bigsum m (fun j => f i j)) = bigsum m (fun j => bigsum n (fun i => f i j)).
Proof. induction n as [|n IH]; simpl.
  - symmetry; apply bigsum_zero; auto.
  - rewrite IH, <- bigsum_add. auto. Qed.
(* sum_j [s = j] g j *)
Lemma bigsum_delta n (s : Z) (g : nat -> R) :
  bigsum n (fun j => if (s =? Z.of_nat j)%Z then g j else 0r) =
  if ((0 <=? s) && (s <? Z.of_nat n))%Z then g (Z.to_nat s) else 0r.
Proof. induction n as [|n IH]; simpl bigsum.
  - destruct ((0 <=? s)%Z && (s <? Z.of_nat 0)%Z) eqn:E; auto. lia.
  - rewrite IH. destruct (Z.eqb_spec s (Z.of_nat n)) as [->|N].
    + rewrite Nat2Z.id. replace ((0 <=? Z.of_nat n)%Z && (Z.of_nat n <? Z.of_nat n)%Z) with false by lia.
      replace ((0 <=? Z.of_nat n)%Z && (Z.of_nat n <? Z.of_nat (S n))%Z) with true by lia. ring.
    + destruct ((0 <=? s)%Z && (s <? Z.of_nat n)%Z) eqn:E1, ((0 <=? s)%Z && (s <? Z.of_nat (S n))%Z) eqn:E2; try lia; ring. Qed.
Lemma dotu_bigsum (u v : vec) : length u = length v ->
  dotu R u v = bigsum (length u) (fun i => nth i u 0r *r nth i v 0r).
Proof. revert v; induction u as [|a u IH]; intros [|b v] H; simpl in H; try discriminate; auto.
  cbn [length dotu]. rewrite (bigsum_shift (length u)). cbn [nth]. rewrite IH by lia. reflexivity. Qed.

Lemma xz_nil k : xz [] k = 0r.
Proof. unfold xz. destruct (k <? 0)%Z; auto. destruct (Z.to_nat k); auto. Qed.
Lemma xz_cons a v k : xz (a :: v) k = if (k =? 0)%Z then a else xz v (k - 1).
Proof. unfold xz. destruct (Z.ltb_spec k 0), (Z.eqb_spec k 0), (Z.ltb_spec (k - 1) 0); try lia; auto;
  try (subst k; reflexivity).
  replace (Z.to_nat k) with (S (Z.to_nat (k - 1))) by lia. reflexivity. Qed.
Lemma xz_nat (v : vec) j : xz v (Z.of_nat j) = nth j v 0r.
Proof. unfold xz. replace (Z.of_nat j <? 0)%Z with false by lia. rewrite Nat2Z.id; auto. Qed.
Lemma xz_lincomb a b (x y : vec) k : length x = length y ->
  xz (lincomb R a b x y) k = a *r xz x k +r b *r xz y k.
Proof. intros H; unfold xz. destruct (k <? 0)%Z; [ring | apply nth_lincomb; auto]. Qed.

(* commutativity of the convolution sum:
   sum_{m<|v|} v_m u[s-m] = sum_{j<|u|} v[s-j] u_j    (zero extension) *)
Lemma conv_comm (v u : vec) (s : Z) :
  bigsum (length v) (fun m => nth m v 0r *r xz u (s - Z.of_nat m)) =
  bigsum (length u) (fun j => xz v (s - Z.of_nat j) *r nth j u 0r).
Proof. revert s; induction v as [|a v IH]; intros s.
  - simpl. symmetry; apply bigsum_zero. intros; rewrite xz_nil; ring.
  - cbn [length]. rewrite bigsum_shift. cbn [nth].
    rewrite (bigsum_ext (length v) _ (fun m => nth m v 0r *r xz u (s - 1 - Z.of_nat m)))
      by (intros; f_equal; f_equal; lia).
    rewrite IH.
    rewrite (bigsum_ext (length u) (fun j => xz (a :: v) (s - Z.of_nat j) *r nth j u 0r)
       (fun j => (if (s =? Z.of_nat j)%Z then a *r nth j u 0r else 0r) +r xz v (s - 1 - Z.of_nat j) *r nth j u 0r)).
    2:{ intros j _. rewrite xz_cons. destruct (Z.eqb_spec (s - Z.of_nat j) 0), (Z.eqb_spec s (Z.of_nat j)); try lia.
        - replace (s - 1 - Z.of_nat j)%Z with (-1)%Z by lia. unfold xz at 1. simpl. ring.
        - replace (s - Z.of_nat j - 1)%Z with (s - 1 - Z.of_nat j)%Z by lia. ring. }
    rewrite bigsum_add, bigsum_delta. f_equal.
    replace (s - Z.of_nat 0)%Z with s by lia. unfold xz.
    destruct (Z.ltb_spec s 0), (Z.leb_spec 0 s), (Z.ltb_spec s (Z.of_nat (length u))); try lia; cbn [andb]; try ring.
    rewrite nth_overflow by lia. ring. Qed.

(* ---------------- scipy.signal.convolve semantics ---------------- *)
(* mode='full': z_k = sum_m v_m u_{k-m}, k = 0 .. |u|+|v|-2 *)
Definition conv_full (u v : vec) : vec :=
  map (fun k => bigsum (length v) (fun m => nth m v 0r *r xz u (Z.of_nat k - Z.of_nat m)))
      (seq 0 (length u + length v - 1)).
(* mode='same': the window of |u| samples of the full output starting at
   (|full| - |u|) // 2 = (|v| - 1) // 2   (scipy.signal._centered) *)
Definition conv_same (u v : vec) : vec :=
  firstn (length u) (skipn ((length v - 1) / 2) (conv_full u v)).

(* _Convolve1Dshort.__init__: self.offset = 2*(nh//2 - offset), minus 1 if nh is
   even; the filter is padded by max(.,0) zeros on the left, -min(.,0) on the right *)
Definition pad_off (nh offset : nat) : Z :=
  (2 * (Z.of_nat (nh / 2) - Z.of_nat offset) - (if (nh mod 2 =? 0)%nat then 1 else 0))%Z.
Definition hpad (h : vec) (offset : nat) : vec :=
  let o := pad_off (length h) offset in
  zeros R (Z.to_nat (Z.max o 0)) ++ h ++ zeros R (Z.to_nat (- Z.min o 0)).
Definition conv_same_model (h : vec) (offset : nat) (x : vec) : vec := conv_same x (hpad h offset).

Lemma conv_full_length u v : length (conv_full u v) = length u + length v - 1.
Proof. unfold conv_full; rewrite map_length, seq_length; auto. Qed.
Lemma conv_same_length u v : 0 < length v -> length (conv_same u v) = length u.
Proof. intros H; unfold conv_same. rewrite firstn_length, skipn_length, conv_full_length.
  pose proof (Nat.div_le_upper_bound (length v - 1) 2 (length v - 1) ltac:(lia) ltac:(lia)). lia. Qed.
Lemma nth_conv_same u v i : i < length u -> 0 < length v ->
  nth i (conv_same u v) 0r =
  bigsum (length v) (fun m => nth m v 0r *r xz u (Z.of_nat i + Z.of_nat ((length v - 1) / 2) - Z.of_nat m)).
Proof. intros Hi Hv. unfold conv_same. rewrite nth_firstn' by auto. rewrite nth_skipn'.
  pose proof (Nat.div_le_upper_bound (length v - 1) 2 (length v - 1) ltac:(lia) ltac:(lia)) as Hc.
  unfold conv_full. rewrite nth_map' with (d' := 0) by (rewrite seq_length; lia).
  rewrite seq_nth by lia. apply bigsum_ext. intros m _. f_equal. f_equal. lia. Qed.
(* Toeplitz form of mode='same': entry (i, j) = v[i + c - j] *)
Lemma conv_same_toeplitz u v i : i < length u -> 0 < length v ->
  nth i (conv_same u v) 0r =
  bigsum (length u) (fun j => xz v (Z.of_nat i + Z.of_nat ((length v - 1) / 2) - Z.of_nat j) *r nth j u 0r).
Proof. intros; rewrite nth_conv_same by auto. apply conv_comm. Qed.

Lemma bigsum_pad pl pr (h : vec) (f : nat -> R) :
  bigsum (length (zeros R pl ++ h ++ zeros R pr)) (fun m => nth m (zeros R pl ++ h ++ zeros R pr) 0r *r f m) =
  bigsum (length h) (fun j => nth j h 0r *r f (pl + j)).
Proof. rewrite !app_length, !zeros_length. rewrite !bigsum_split.
  rewrite (bigsum_zero pl), (bigsum_zero pr).
  - rewrite (bigsum_ext (length h) _ (fun j => nth j h 0r *r f (pl + j))); [ring|].
    intros k Hk. rewrite app_nth2 by (rewrite zeros_length; lia). rewrite zeros_length.
    replace (pl + k - pl) with k by lia. rewrite app_nth1 by auto. reflexivity.
  - intros k Hk. rewrite app_nth2 by (rewrite zeros_length; lia). rewrite zeros_length.
    rewrite app_nth2 by lia. rewrite nth_zeros. ring.
  - intros k Hk. rewrite app_nth1 by (rewrite zeros_length; lia). rewrite nth_zeros. ring. Qed.

Lemma centre_offset nh offset : offset < nh ->
  let o := pad_off nh offset in
  let pl := Z.to_nat (Z.max o 0) in let pr := Z.to_nat (- Z.min o 0) in
  (Z.of_nat ((pl + nh + pr - 1) / 2) - Z.of_nat pl = Z.of_nat offset)%Z /\ (pl + nh + pr) mod 2 = 1.
Proof. intros H o pl pr. unfold pad_off in o.
  pose proof (Nat.div_mod_eq nh 2) as D. pose proof (Nat.mod_upper_bound nh 2 ltac:(lia)) as B.
  set (c := nh / 2) in *. set (r := nh mod 2) in *.
  assert (E : exists k, pl + nh + pr - 1 = 2 * k /\ (Z.of_nat k - Z.of_nat pl = Z.of_nat offset)%Z).
  { subst pl pr o. destruct (Nat.eqb_spec r 0).
    - destruct (Z_lt_le_dec (2 * (Z.of_nat c - Z.of_nat offset) - 1) 0).
      + exists offset. lia.
      + exists (2 * c - offset - 1). lia.
    - destruct (Z_lt_le_dec (2 * (Z.of_nat c - Z.of_nat offset)) 0).
      + exists offset. lia.
      + exists (2 * c - offset). lia. }
  destruct E as [k [E1 E2]]. split.
  - rewrite E1. rewrite Nat.mul_comm, Nat.div_mul by lia. exact E2.
  - replace (pl + nh + pr) with (1 + k * 2) by lia. rewrite Nat.mod_add by lia. reflexivity. Qed.
Lemma hpad_length h offset :
  length (hpad h offset) = Z.to_nat (Z.max (pad_off (length h) offset) 0) + length h + Z.to_nat (- Z.min (pad_off (length h) offset) 0).
Proof. unfold hpad. rewrite !app_length, !zeros_length. lia. Qed.
Lemma hpad_odd h offset : offset < length h -> length (hpad h offset) mod 2 = 1.
Proof. intros H. rewrite hpad_length. apply (centre_offset (length h) offset H). Qed.

(* the padding rule centres tap [offset]: for EVERY filter length (odd or
   even), every 0 <= offset < nh and every signal length *)
Theorem conv_meets_spec h offset x i : offset < length h -> i < length x ->
  nth i (conv_same_model h offset x) 0r = conv_spec h offset i x.
Proof. intros Ho Hi. unfold conv_same_model.
  assert (Hl : 0 < length (hpad h offset)) by (rewrite hpad_length; lia).
  rewrite nth_conv_same by auto.
  destruct (centre_offset (length h) offset Ho) as [E _]. cbv zeta in E.
  rewrite <- hpad_length in E. revert E. unfold hpad. cbv zeta.
  set (pl := Z.to_nat (Z.max (pad_off (length h) offset) 0)).
  set (pr := Z.to_nat (- Z.min (pad_off (length h) offset) 0)).
  set (c := (length (zeros R pl ++ h ++ zeros R pr) - 1) / 2). intros E.
  rewrite (bigsum_pad pl pr h (fun m => xz x (Z.of_nat i + Z.of_nat c - Z.of_nat m))).
  unfold conv_spec. apply bigsum_ext. intros j _. f_equal. f_equal. lia. Qed.

Theorem conv_model_length h offset x : offset < length h -> length (conv_same_model h offset x) = length x.
Proof. intros; unfold conv_same_model. apply conv_same_length. rewrite hpad_length; lia. Qed.
Theorem conv_linear h offset : offset < length h -> Linear R (conv_same_model h offset).
Proof. intros Ho. apply linear_of_entries with (len := fun n => n) (spec := conv_spec h offset).
  - intros; apply conv_model_length; auto.
  - intros; apply conv_meets_spec; auto.
  - intros i a b x y H. unfold conv_spec. rewrite <- !bigsum_scale, <- bigsum_add.
    apply bigsum_ext. intros j _. rewrite xz_lincomb by auto. ring. Qed.
(* Smoothing1D = Convolve1D with the constant filter 1/nsmooth centred at (nsmooth-1)/2:
   y_i = inv * sum_{l=-(ns-1)/2}^{(ns-1)/2} x_{i+l} *)
Definition smooth_model (ns : nat) (inv : R) (x : vec) : vec := conv_same_model (repeat inv ns) ((ns - 1) / 2) x.
Definition smooth_spec (ns : nat) (inv : R) (i : nat) (x : vec) : R :=
  inv *r bigsum ns (fun j => xz x (Z.of_nat i - Z.of_nat j + Z.of_nat ((ns - 1) / 2))).
Theorem smooth_meets_spec ns inv x i : 0 < ns -> i < length x ->
  nth i (smooth_model ns inv x) 0r = smooth_spec ns inv i x.
Proof. intros Hn Hi. unfold smooth_model.
  pose proof (Nat.div_le_upper_bound (ns - 1) 2 (ns - 1) ltac:(lia) ltac:(lia)).
  rewrite conv_meets_spec by (rewrite ?repeat_length; auto; lia).
  unfold conv_spec, smooth_spec. rewrite repeat_length, <- bigsum_scale. apply bigsum_ext.
  intros j Hj. f_equal. rewrite nth_indep with (d' := inv) by (rewrite repeat_length; auto). apply nth_repeat. Qed.
End Conv.

(* ------------------------------------------------------------------ *)
(* adjoint = correlation with the flipped, conjugated (padded) kernel   *)
(* ------------------------------------------------------------------ *)
Section ConvStar.
Variable S : StarRing.
Add Ring RrConvS : (rth S).
Notation vec := (list S).
Notation "0s" := (r0 S).

Lemma nth_vconj i (u : vec) : nth i (vconj S u) 0s = conj S (nth i u 0s).
Proof. unfold vconj. rewrite <- (conj_zero S) at 1. apply map_nth. Qed.
Lemma conj_bigsum n f : conj S (bigsum S n f) = bigsum S n (fun k => conj S (f k)).
Proof. induction n as [|n IH]; simpl; [apply conj_zero | rewrite conj_add, IH; auto]. Qed.

(* two maps whose entries are given by A and by conj(A)^T are adjoint *)
Lemma adjoint_of_entries (f g : vec -> vec) (A : nat -> nat -> S) n m x y :
  length x = n -> length y = m -> length (f x) = m -> length (g y) = n ->
  (forall i, i < m -> nth i (f x) 0s = bigsum S n (fun j => rmul S (A i j) (nth j x 0s))) ->
  (forall j, j < n -> nth j (g y) 0s = bigsum S m (fun i => rmul S (conj S (A i j)) (nth i y 0s))) ->
  dot S (f x) y = dot S x (g y).
Proof. intros Hx Hy Hf Hg Ef Eg. unfold dot.
  rewrite !dotu_bigsum by (rewrite vconj_length; congruence). rewrite !vconj_length, Hf, Hx.
  rewrite (bigsum_ext S m _ (fun i => bigsum S n (fun j => rmul S (rmul S (conj S (A i j)) (conj S (nth j x 0s))) (nth i y 0s)))).
  2:{ intros i Hi. rewrite nth_vconj, Ef by auto. rewrite conj_bigsum.
      rewrite (Ring_theory.Rmul_comm (rth S)), <- bigsum_scale. apply bigsum_ext. intros j _. rewrite conj_mul. ring. }
  rewrite bigsum_exchange. apply bigsum_ext. intros j Hj.
  rewrite nth_vconj, Eg by auto. rewrite <- bigsum_scale. apply bigsum_ext. intros i _. ring. Qed.

Lemma xz_vconj (v : vec) k : xz S (vconj S v) k = conj S (xz S v k).
Proof. unfold xz. destruct (k <? 0)%Z; [symmetry; apply conj_zero | apply nth_vconj]. Qed.
Lemma xz_rev (v : vec) k : xz S (rev v) k = xz S v (Z.of_nat (length v) - 1 - k).
Proof. unfold xz. destruct (Z.ltb_spec k 0), (Z.ltb_spec (Z.of_nat (length v) - 1 - k) 0); auto.
  - rewrite nth_overflow by lia; auto.
  - rewrite nth_overflow by (rewrite rev_length; lia); auto.
  - rewrite rev_nth by lia. f_equal. lia. Qed.

(* mode='same' convolution with ANY odd-length kernel v and mode='same'
   convolution with conj(flip(v)) are adjoint, for every signal length *)
Theorem conv_same_adjoint (v x y : vec) : length v mod 2 = 1 -> length x = length y ->
  dot S (conv_same S x v) y = dot S x (conv_same S y (vconj S (rev v))).
Proof. intros Hv H.
  assert (Lv : 0 < length v) by (destruct v; simpl in *; [discriminate | lia]).
  assert (Lv' : length (vconj S (rev v)) = length v) by (rewrite vconj_length, rev_length; auto).
  set (c := (length v - 1) / 2).
  assert (Hc : length v = 2 * c + 1).
  { unfold c. pose proof (Nat.div_mod_eq (length v) 2). pose proof (Nat.div_mod_eq (length v - 1) 2).
    pose proof (Nat.mod_upper_bound (length v - 1) 2 ltac:(lia)). lia. }
  apply adjoint_of_entries with (f := fun x => conv_same S x v) (g := fun y => conv_same S y (vconj S (rev v)))
    (A := fun i j => xz S v (Z.of_nat i + Z.of_nat c - Z.of_nat j)) (n := length x) (m := length y); auto.
  - rewrite conv_same_length; auto.
  - rewrite conv_same_length; auto. lia.
  - intros i Hi. apply conv_same_toeplitz; auto. lia.
  - intros j Hj. rewrite conv_same_toeplitz by lia. rewrite Lv'. fold c.
    rewrite <- H. apply bigsum_ext. intros i _. f_equal.
    rewrite xz_vconj, xz_rev. f_equal. f_equal. lia. Qed.

(* _Convolve1Dshort._rmatvec: convolve(x, hstar, 'same'), hstar = conj(flip(padded h)) *)
Definition conv_adj_model (h : vec) (offset : nat) (y : vec) : vec :=
  conv_same S y (vconj S (rev (hpad S h offset))).
Theorem conv_adjoint h offset x y : offset < length h -> length x = length y ->
  dot S (conv_same_model S h offset x) y = dot S x (conv_adj_model h offset y).
Proof. intros Ho H. unfold conv_same_model, conv_adj_model. apply conv_same_adjoint; auto. apply hpad_odd; auto. Qed.
(* documented adjoint (correlation): x_j = sum_i conj(h_{i-j+offset}) y_i *)
Theorem conv_adj_meets_spec h offset y j : offset < length h -> j < length y ->
  nth j (conv_adj_model h offset y) 0s =
  bigsum S (length y) (fun i => rmul S (conj S (xz S h (Z.of_nat i - Z.of_nat j + Z.of_nat offset))) (nth i y 0s)).
Proof. intros Ho Hj. unfold conv_adj_model.
  assert (Lh : length (vconj S (rev (hpad S h offset))) = length (hpad S h offset)) by (rewrite vconj_length, rev_length; auto).
  assert (Hl : 0 < length (hpad S h offset)) by (rewrite hpad_length; lia).
  rewrite conv_same_toeplitz by lia. rewrite Lh.
  destruct (centre_offset (length h) offset Ho) as [E Hodd]. cbv zeta in E, Hodd.
  rewrite <- hpad_length in E, Hodd.
  set (c := (length (hpad S h offset) - 1) / 2) in *.
  assert (Hc : length (hpad S h offset) = 2 * c + 1).
  { unfold c. pose proof (Nat.div_mod_eq (length (hpad S h offset)) 2). pose proof (Nat.div_mod_eq (length (hpad S h offset) - 1) 2).
    pose proof (Nat.mod_upper_bound (length (hpad S h offset) - 1) 2 ltac:(lia)). lia. }
  apply bigsum_ext. intros i _. f_equal. rewrite xz_vconj, xz_rev. f_equal.
  (* xz (hpad h) (L-1-(j+c-i)) = xz h (i - j + offset) *)
  set (k := (Z.of_nat (length (hpad S h offset)) - 1 - (Z.of_nat j + Z.of_nat c - Z.of_nat i))%Z).
  assert (Ek : (k - Z.of_nat (Z.to_nat (Z.max (pad_off (length h) offset) 0)) = Z.of_nat i - Z.of_nat j + Z.of_nat offset)%Z) by (unfold k; lia).
  rewrite <- Ek. unfold hpad. cbv zeta.
  set (pl := Z.to_nat (Z.max (pad_off (length h) offset) 0)).
  set (pr := Z.to_nat (- Z.min (pad_off (length h) offset) 0)).
  unfold xz. destruct (Z.ltb_spec k 0), (Z.ltb_spec (k - Z.of_nat pl) 0); try lia; auto.
  - rewrite app_nth1 by (rewrite zeros_length; lia). apply nth_zeros.
  - rewrite app_nth2 by (rewrite zeros_length; lia). rewrite zeros_length.
    destruct (Nat.ltb_spec (Z.to_nat k - pl) (length h)).
    + rewrite app_nth1 by auto. f_equal. lia.
    + rewrite app_nth2 by auto. rewrite nth_zeros. rewrite nth_overflow by lia. auto. Qed.
End ConvStar.
