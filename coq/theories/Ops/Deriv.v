(* Deriv.v — FirstDerivative / SecondDerivative (pylops/basicoperators/
   firstderivative.py, secondderivative.py): code-shaped models of every
   _matvec_* / _rmatvec_* (same slices, same edge statements, same order),
   the documented stencil as an index-wise specification, and for all sizes:
   adjointness, linearity, model = specification. *)
From Coq Require Import ZArith Lia ZifyBool.
From PV Require Export Slice.

Inductive dkind := Forward | Centered | Backward.

Section Deriv.
Variable F : FieldS.
Add Ring RrD : (rth F).
Notation vec := (list F).
Notation vadd := (vadd F). Notation vsub := (vsub F). Notation vscale := (vscale F).
Notation vneg := (vneg F). Notation zeros := (zeros F). Notation dotu := (dotu F).
Notation sl := (sl F). Notation smp := (smp F). Notation iset := (iset F). Notation iadd := (iadd F).
Notation iset_at := (iset_at F). Notation iadd_at := (iadd_at F).
Local Open Scope R_scope.

Definition two : F := 1 + 1.
Definition three : F := 1 + 1 + 1.
Definition twelve : F := three * (two * two).
Definition half : F := 1 / two.                      (* the literal 0.5 *)
Definition vdivc (c : F) (u : vec) : vec := map (fun a => a / c) u.     (* u / c *)

Lemma div_def (a b : F) : a / b = a * rinv F b.
Proof. apply (Fdiv_def (fth F)). Qed.
Lemma vdivc_vscale c u : vdivc c u = vscale (rinv F c) u.
Proof. unfold vdivc, Vec.vscale. apply map_ext; intros; rewrite div_def; ring. Qed.
Lemma vdivc_length c u : length (vdivc c u) = length u.
Proof. apply map_length. Qed.

(* ================= FirstDerivative: code-shaped ================= *)
(* _matvec_forward *)
Definition fd_mv_forward (s : F) (x : vec) : vec :=
  let n := length x in
  let y := zeros n in
  (* y[..., :-1] = (x[..., 1:] - x[..., :-1]) / sampling *)
  let y := iset n E (M 1) (vdivc s (vsub (sl (P 1) E x) (sl E (M 1) x))) y in
  y.
(* _rmatvec_forward *)
Definition fd_rmv_forward (s : F) (x : vec) : vec :=
  let n := length x in
  let y := zeros n in
  let y := iadd n E (M 1) (vneg (sl E (M 1) x)) y in          (* y[..., :-1] -= x[..., :-1] *)
  let y := iadd n (P 1) E (sl E (M 1) x) y in                 (* y[..., 1:] += x[..., :-1] *)
  vdivc s y.
(* _matvec_centered3 *)
Definition fd_mv_c3 (edge : bool) (s : F) (x : vec) : vec :=
  let n := length x in
  let y := zeros n in
  (* y[..., 1:-1] = 0.5 * (x[..., 2:] - x[..., :-2]) *)
  let y := iset n (P 1) (M 1) (vscale half (vsub (sl (P 2) E x) (sl E (M 2) x))) y in
  let y := if edge then
      let y := iset_at n (P 0) (vsub (smp (P 1) x) (smp (P 0) x)) y in       (* y[0] = x[1] - x[0] *)
      let y := iset_at n (M 1) (vsub (smp (M 1) x) (smp (M 2) x)) y in       (* y[-1] = x[-1] - x[-2] *)
      y else y in
  vdivc s y.
(* _rmatvec_centered3 *)
Definition fd_rmv_c3 (edge : bool) (s : F) (x : vec) : vec :=
  let n := length x in
  let y := zeros n in
  let y := iadd n E (M 2) (vscale (- half) (sl (P 1) (M 1) x)) y in     (* y[:-2] -= 0.5 * x[1:-1] *)
  let y := iadd n (P 2) E (vscale half (sl (P 1) (M 1) x)) y in         (* y[2:] += 0.5 * x[1:-1] *)
  let y := if edge then
      let y := iadd_at n (P 0) (vneg (smp (P 0) x)) y in                  (* y[0] -= x[0] *)
      let y := iadd_at n (P 1) (smp (P 0) x) y in                         (* y[1] += x[0] *)
      let y := iadd_at n (M 2) (vneg (smp (M 1) x)) y in                  (* y[-2] -= x[-1] *)
      let y := iadd_at n (M 1) (smp (M 1) x) y in                         (* y[-1] += x[-1] *)
      y else y in
  vdivc s y.
(* _matvec_centered5 *)
Definition fd_mv_c5 (edge : bool) (s : F) (x : vec) : vec :=
  let n := length x in
  let y := zeros n in
  (* y[2:-2] = x[:-4]/12 - 2*x[1:-3]/3 + 2*x[3:-1]/3 - x[4:]/12 *)
  let y := iset n (P 2) (M 2)
     (vsub (vadd (vsub (vdivc twelve (sl E (M 4) x))
                       (vdivc three (vscale two (sl (P 1) (M 3) x))))
                 (vdivc three (vscale two (sl (P 3) (M 1) x))))
           (vdivc twelve (sl (P 4) E x))) y in
  let y := if edge then
      let y := iset_at n (P 0) (vsub (smp (P 1) x) (smp (P 0) x)) y in                    (* y[0] = x[1] - x[0] *)
      let y := iset_at n (P 1) (vscale half (vsub (smp (P 2) x) (smp (P 0) x))) y in      (* y[1] = 0.5*(x[2]-x[0]) *)
      let y := iset_at n (M 2) (vscale half (vsub (smp (M 1) x) (smp (M 3) x))) y in      (* y[-2] = 0.5*(x[-1]-x[-3]) *)
      let y := iset_at n (M 1) (vsub (smp (M 1) x) (smp (M 2) x)) y in                    (* y[-1] = x[-1] - x[-2] *)
      y else y in
  vdivc s y.
(* _rmatvec_centered5 *)
Definition fd_rmv_c5 (edge : bool) (s : F) (x : vec) : vec :=
  let n := length x in
  let y := zeros n in
  let y := iadd n E (M 4) (vdivc twelve (sl (P 2) (M 2) x)) y in                           (* y[:-4] += x[2:-2]/12 *)
  let y := iadd n (P 1) (M 3) (vdivc three (vscale (- two) (sl (P 2) (M 2) x))) y in       (* y[1:-3] -= 2*x[2:-2]/3 *)
  let y := iadd n (P 3) (M 1) (vdivc three (vscale two (sl (P 2) (M 2) x))) y in           (* y[3:-1] += 2*x[2:-2]/3 *)
  let y := iadd n (P 4) E (vdivc twelve (vneg (sl (P 2) (M 2) x))) y in                    (* y[4:] -= x[2:-2]/12 *)
  let y := if edge then
      let y := iadd_at n (P 0) (vneg (vadd (smp (P 0) x) (vscale half (smp (P 1) x)))) y in (* y[0] -= x[0] + 0.5*x[1] *)
      let y := iadd_at n (P 1) (smp (P 0) x) y in                                           (* y[1] += x[0] *)
      let y := iadd_at n (P 2) (vscale half (smp (P 1) x)) y in                             (* y[2] += 0.5*x[1] *)
      let y := iadd_at n (M 3) (vscale (- half) (smp (M 2) x)) y in                         (* y[-3] -= 0.5*x[-2] *)
      let y := iadd_at n (M 2) (vneg (smp (M 1) x)) y in                                    (* y[-2] -= x[-1] *)
      let y := iadd_at n (M 1) (vadd (vscale half (smp (M 2) x)) (smp (M 1) x)) y in        (* y[-1] += 0.5*x[-2] + x[-1] *)
      y else y in
  vdivc s y.
(* _matvec_backward *)
Definition fd_mv_backward (s : F) (x : vec) : vec :=
  let n := length x in
  let y := zeros n in
  (* y[..., 1:] = (x[..., 1:] - x[..., :-1]) / sampling *)
  let y := iset n (P 1) E (vdivc s (vsub (sl (P 1) E x) (sl E (M 1) x))) y in
  y.
(* _rmatvec_backward *)
Definition fd_rmv_backward (s : F) (x : vec) : vec :=
  let n := length x in
  let y := zeros n in
  let y := iadd n E (M 1) (vneg (sl (P 1) E x)) y in          (* y[..., :-1] -= x[..., 1:] *)
  let y := iadd n (P 1) E (sl (P 1) E x) y in                 (* y[..., 1:] += x[..., 1:] *)
  vdivc s y.

(* _register_multiplications: dispatch on kind / order (order is 3 or 5) *)
Definition fd_fwd (k : dkind) (order5 edge : bool) (s : F) (x : vec) : vec :=
  match k with
  | Forward => fd_mv_forward s x
  | Centered => if order5 then fd_mv_c5 edge s x else fd_mv_c3 edge s x
  | Backward => fd_mv_backward s x
  end.
Definition fd_adj (k : dkind) (order5 edge : bool) (s : F) (x : vec) : vec :=
  match k with
  | Forward => fd_rmv_forward s x
  | Centered => if order5 then fd_rmv_c5 edge s x else fd_rmv_c3 edge s x
  | Backward => fd_rmv_backward s x
  end.
(* smallest size on which the code neither raises (IndexError on a missing
   edge sample) nor aliases two edge rows *)
Definition fd_minsize (k : dkind) (order5 edge : bool) : nat :=
  match k with Centered => if edge then (if order5 then 4 else 2) else 0 | _ => 0 end.

(* ================= FirstDerivative: documented stencils ================= *)
Notation nt x i := (nth i x 0).
(* kind=forward:  y[i] = (x[i+1] - x[i]) / dx ; backward: y[i] = (x[i] - x[i-1]) / dx ;
   centered, order 3: y[i] = (0.5 x[i+1] - 0.5 x[i-1]) / dx ;
   order 5 (finite-difference coefficient table): (x[i-2]/12 - 2x[i-1]/3 + 2x[i+1]/3 - x[i+2]/12) / dx ;
   rows on which the stencil does not fit are ignored (zero) unless edge=True,
   which uses the reduced-order derivative there: one-sided at the first and
   last sample, 3-point centred at the second and last-but-one (order 5). *)
Definition st_fwd s (x : vec) i := ((nt x (i+1)) - (nt x (i))) / s.
Definition st_bwd s (x : vec) i := ((nt x (i)) - (nt x (i-1))) / s.
Definition st_c3 s (x : vec) i := (half * (nt x (i+1)) - half * (nt x (i-1))) / s.
Definition st_c5 s (x : vec) i :=
  ((nt x (i-2)) / twelve - two * (nt x (i-1)) / three + two * (nt x (i+1)) / three - (nt x (i+2)) / twelve) / s.
Definition fd_spec (k : dkind) (order5 edge : bool) (s : F) (n i : nat) (x : vec) : F :=
  match k with
  | Forward => if i + 1 <? n then st_fwd s x i else 0
  | Backward => if 1 <=? i then st_bwd s x i else 0
  | Centered =>
    if order5 then
      if (2 <=? i) && (i + 2 <? n) then st_c5 s x i
      else if edge then
        (if i =? 0 then st_fwd s x i else if i =? n - 1 then st_bwd s x i else st_c3 s x i)
      else 0
    else
      if (1 <=? i) && (i + 1 <? n) then st_c3 s x i
      else if edge then (if i =? 0 then st_fwd s x i else st_bwd s x i) else 0
  end.

End Deriv.

(* ================= proofs ================= *)
Ltac unf := unfold Slice.sl, Slice.smp, Slice.iset, Slice.iadd, Slice.iset_at, Slice.iadd_at; cbn zeta;
  rewrite ?vdivc_vscale.
Ltac push n := repeat (match goal with
 | |- context [Dot.dotu _ (Vec.vscale _ _ _) _] => rewrite dotu_vscale_l
 | |- context [Dot.dotu _ _ (Vec.vscale _ _ _)] => rewrite dotu_vscale_r
 | |- context [Dot.dotu _ (Vec.vneg _ _) _] => rewrite dotu_vneg_l
 | |- context [Dot.dotu _ _ (Vec.vneg _ _)] => rewrite dotu_vneg_r
 | |- context [Dot.dotu _ (Vec.zeros _ _) _] => rewrite dotu_zeros_l
 | |- context [Dot.dotu _ _ (Vec.zeros _ _)] => rewrite dotu_zeros_r
 | |- context [Dot.dotu _ (Vec.vadd _ ?u ?v) ?w] => first [ rewrite (dotu_vadd_l' _ n u v w) by lf | rewrite (dotu_vadd_l _ u v w) by len ]
 | |- context [Dot.dotu _ ?w (Vec.vadd _ ?u ?v)] => first [ rewrite (dotu_vadd_r' _ n w u v) by lf | rewrite (dotu_vadd_r _ w u v) by len ]
 | |- context [Dot.dotu _ (Vec.vsub _ ?u ?v) ?w] => rewrite (dotu_vsub_l _ u v w) by len
 | |- context [Dot.dotu _ ?w (Vec.vsub _ ?u ?v)] => rewrite (dotu_vsub_r _ w u v) by len
 | |- context [Dot.dotu _ (Slice.embed _ _ ?a ?v) ?w] => rewrite (dotu_embed_l _ n a v w) by lf
 | |- context [Dot.dotu _ ?w (Slice.embed _ _ ?a ?v)] => rewrite (dotu_embed_r _ n a v w) by lf
 end).
Ltac unify_slices := repeat match goal with
 | |- context [Slice.slice _ ?a ?b ?x] => match goal with |- context [Slice.slice _ ?a2 ?b2 x] =>
     tryif (constr_eq a a2; constr_eq b b2) then fail
     else (replace (Slice.slice _ a b x) with (Slice.slice _ a2 b2 x) by (f_equal; lia)) end end.
Ltac nths n := repeat (first [ rewrite (nth_vadd' _ n) by lf | rewrite nth_vadd by len | rewrite nth_vsub by len
  | rewrite nth_put by lf | rewrite nth_embed | rewrite nth_zeros | rewrite nth_vscale | rewrite nth_vneg | rewrite nth_slice ]).
Ltac decide_ifs := repeat (match goal with |- context [if ?b then _ else _] =>
    first [ replace b with false by (symmetry; len) | replace b with true by (symmetry; len) ] end; cbv iota).
Ltac zero_range n := let i := fresh "i" in let H1 := fresh in let H2 := fresh in
  intros i H1 H2; revert H1 H2; lens; cbn [rstart rstop rsamp]; intros H1 H2;
  repeat (first [ rewrite (nth_vadd' _ n) by lf | rewrite nth_put by lf | rewrite nth_embed | rewrite nth_zeros ]);
  decide_ifs;
  repeat match goal with |- context [nth ?k ?v _] => rewrite (@nth_overflow _ v k) by len end;
  try ring.
Ltac put2add n := rewrite (put_as_add' _ n); [ | lf | lf | zero_range n ].
Ltac adj_finish n := push n; lens; unify_slices; ring.
(* name the common length n, with n = S (S ... m)) exposed so that all index arithmetic computes *)
Ltac setn x y H n Hx Hy := cbn [rstart rstop rsamp]; rewrite <- ?H; remember (length x) as n eqn:Hx; symmetry in Hx;
  assert (Hy : length y = n) by lia.

(* sizes below the stencil width: the vectors are explicit *)
Ltac small x y H := destruct x as [|xa0 [|xa1 [|xa2 [|xa3 xt]]]]; cbn [length] in *; try discriminate; try lia;
  destruct y as [|ya0 [|ya1 [|ya2 [|ya3 yt]]]]; cbn [length] in *; try discriminate; try lia; cbn; try ring.

Section DerivAdj.
Variable F : FieldS.
Add Ring RrD2 : (rth F).
Notation vec := (list F).
Notation dotu := (dotu F).
Local Open Scope R_scope.
Lemma fd_forward_adjoint s x y : length x = length y ->
  dotu (fd_mv_forward F s x) y = dotu x (fd_rmv_forward F s y).
Proof. intros H. unfold fd_mv_forward, fd_rmv_forward. unf. setn x y H n Hx Hy.
  destruct n as [|m]; [small x y H|]. cbn [Nat.min Nat.sub Nat.add].
  rewrite put_zeros by len. adj_finish (S m). Qed.
Lemma fd_backward_adjoint s x y : length x = length y ->
  dotu (fd_mv_backward F s x) y = dotu x (fd_rmv_backward F s y).
Proof. intros H. unfold fd_mv_backward, fd_rmv_backward. unf. setn x y H n Hx Hy.
  destruct n as [|m]; [small x y H|]. cbn [Nat.min Nat.sub Nat.add].
  rewrite put_zeros by len. adj_finish (S m). Qed.
Lemma fd_c3_adjoint (edge : bool) s x y : length x = length y -> ((if edge then 2 else 0) <= length x)%nat ->
  dotu (fd_mv_c3 F edge s x) y = dotu x (fd_rmv_c3 F edge s y).
Proof. intros H Hn. unfold fd_mv_c3, fd_rmv_c3. unf. setn x y H n Hx Hy.
  destruct n as [|[|m]]; [destruct edge; [lia|small x y H] .. |]. cbn [Nat.min Nat.sub Nat.add].
  rewrite put_zeros by len. destruct edge.
  - do 2 put2add (S (S m)). adj_finish (S (S m)).
  - adj_finish (S (S m)).
Qed.
Lemma fd_c5_adjoint (edge : bool) s x y : length x = length y -> ((if edge then 4 else 0) <= length x)%nat ->
  dotu (fd_mv_c5 F edge s x) y = dotu x (fd_rmv_c5 F edge s y).
Proof. intros H Hn. unfold fd_mv_c5, fd_rmv_c5. unf. setn x y H n Hx Hy.
  destruct n as [|[|[|[|m]]]]; [destruct edge; [lia|small x y H] .. |]. cbn [Nat.min Nat.sub Nat.add].
  rewrite put_zeros by len. destruct edge.
  - do 4 put2add (S (S (S (S m)))). adj_finish (S (S (S (S m)))).
  - adj_finish (S (S (S (S m)))).
Qed.
End DerivAdj.
