(* ConvND.v — Convolve2D / ConvolveND (signalprocessing/convolvend.py) on a 2-D
   C-order array, over a commutative ring.
   Code: every axis of the filter is zero-padded from its [offset] exactly as in
   Convolve1D (2*(nh/2 - offset), minus 1 if nh is even; left if positive, right
   if negative), then  scipy.signal.convolve(x, h, mode='same')  (forward) and
   scipy.signal.correlate(x, h, mode='same')  (adjoint).
   [conv2_model] mirrors this; [conv2_spec] is the documented sum
       y[i,j] = sum_{p,q} h[p,q] x[i-p+o1, j-q+o2]   (zero outside). *)
From Coq Require Import ZArith Lia ZifyBool.
From PV Require Import Dict Vec Dot IndexOps Conv InterpOps.

Section Conv2.
Variable R : CRing.
Add Ring RrConv2 : (rth R).
Notation vec := (list R).
Notation mat := (list (list R)).
Notation "0r" := (r0 R).
Notation "a *r b" := (rmul R a b) (at level 40, left associativity).
Notation "a +r b" := (radd R a b) (at level 50, left associativity).
Notation bigsum := (bigsum R).
Notation xz := (xz R).

(* zero ("default") extension of any list to integer indices *)
Definition xzg {A} (d : A) (l : list A) (k : Z) : A := if (k <? 0)%Z then d else nth (Z.to_nat k) l d.
Lemma xzg_nil {A} (d : A) k : xzg d [] k = d.
Proof. unfold xzg. destruct (k <? 0)%Z; auto. destruct (Z.to_nat k); auto. Qed.
Lemma xzg_cons {A} (d a : A) l k : xzg d (a :: l) k = if (k =? 0)%Z then a else xzg d l (k - 1).
Proof. unfold xzg. destruct (Z.ltb_spec k 0), (Z.eqb_spec k 0), (Z.ltb_spec (k - 1) 0); try lia; auto;
  try (subst k; reflexivity).
  replace (Z.to_nat k) with (S (Z.to_nat (k - 1))) by lia. reflexivity. Qed.
Lemma xzg_rev {A} (d : A) l k : xzg d (rev l) k = xzg d l (Z.of_nat (length l) - 1 - k).
Proof. unfold xzg. destruct (Z.ltb_spec k 0), (Z.ltb_spec (Z.of_nat (length l) - 1 - k) 0); auto.
  - rewrite nth_overflow by lia; auto.
  - rewrite nth_overflow by (rewrite rev_length; lia); auto.
  - rewrite rev_nth by lia. f_equal. lia. Qed.

(* commutativity of a convolution sum whose "product" F only has to vanish on
   the default elements: sum_p F a_p b[s-p] = sum_i F a[s-i] b_i *)
Section GenComm.
Variables (A B : Type) (dA : A) (dB : B) (F : A -> B -> R).
Hypothesis FdA : forall b, F dA b = 0r.
Hypothesis FdB : forall a, F a dB = 0r.
Lemma gen_conv_comm (a : list A) (b : list B) (s : Z) :
  bigsum (length a) (fun p => F (nth p a dA) (xzg dB b (s - Z.of_nat p))) =
  bigsum (length b) (fun i => F (xzg dA a (s - Z.of_nat i)) (nth i b dB)).
Proof. revert s; induction a as [|a0 a IH]; intros s.
  - simpl. symmetry; apply bigsum_zero. intros; rewrite xzg_nil; auto.
  - cbn [length]. rewrite bigsum_shift. cbn [nth].
    rewrite (bigsum_ext R (length a) _ (fun m => F (nth m a dA) (xzg dB b (s - 1 - Z.of_nat m))))
      by (intros; f_equal; f_equal; lia).
    rewrite IH.
    rewrite (bigsum_ext R (length b) (fun i => F (xzg dA (a0 :: a) (s - Z.of_nat i)) (nth i b dB))
       (fun i => (if (s =? Z.of_nat i)%Z then F a0 (nth i b dB) else 0r) +r F (xzg dA a (s - 1 - Z.of_nat i)) (nth i b dB))).
    2:{ intros i _. rewrite xzg_cons. destruct (Z.eqb_spec (s - Z.of_nat i) 0), (Z.eqb_spec s (Z.of_nat i)); try lia.
        - replace (s - 1 - Z.of_nat i)%Z with (-1)%Z by lia. unfold xzg at 1. simpl. rewrite FdA. ring.
        - replace (s - Z.of_nat i - 1)%Z with (s - 1 - Z.of_nat i)%Z by lia. ring. }
    rewrite bigsum_add, bigsum_delta. f_equal.
    replace (s - Z.of_nat 0)%Z with s by lia. unfold xzg.
    destruct (Z.ltb_spec s 0), (Z.leb_spec 0 s), (Z.ltb_spec s (Z.of_nat (length b))); try lia; cbn [andb]; auto.
    rewrite nth_overflow by lia. auto. Qed.
End GenComm.

(* sum over l1 ++ l2 ++ l3 of a term that vanishes on the elements of l1 and l3 *)
Lemma bigsum_app3 {A} (l1 l2 l3 : list A) (d : A) (F : A -> nat -> R) :
  (forall a p, In a l1 -> F a p = 0r) -> (forall a p, In a l3 -> F a p = 0r) ->
  bigsum (length (l1 ++ l2 ++ l3)) (fun p => F (nth p (l1 ++ l2 ++ l3) d) p) =
  bigsum (length l2) (fun p => F (nth p l2 d) (length l1 + p)).
Proof. intros H1 H3. rewrite !app_length. rewrite !bigsum_split.
  rewrite (bigsum_zero R (length l1)), (bigsum_zero R (length l3)).
  - rewrite (bigsum_ext R (length l2) _ (fun p => F (nth p l2 d) (length l1 + p))); [ring|].
    intros k Hk. rewrite app_nth2 by lia. replace (length l1 + k - length l1) with k by lia.
    rewrite app_nth1 by auto. reflexivity.
  - intros k Hk. apply H3. rewrite app_nth2 by lia. rewrite app_nth2 by lia. apply nth_In. lia.
  - intros k Hk. apply H1. rewrite app_nth1 by lia. apply nth_In. lia. Qed.

(* ---------------- 2-D arrays in C order ---------------- *)
Definition row (n2 : nat) (x : vec) (i : nat) : vec := firstn n2 (skipn (i * n2) x).
Definition chunk (n1 n2 : nat) (x : vec) : mat := map (row n2 x) (seq 0 n1).
(* x[a, b] with zero extension *)
Definition x2z (n1 n2 : nat) (x : vec) (a b : Z) : R :=
  if ((0 <=? a) && (a <? Z.of_nat n1) && (0 <=? b) && (b <? Z.of_nat n2))%Z
  then nth (Z.to_nat a * n2 + Z.to_nat b) x 0r else 0r.
Lemma nth_row n2 x i j : j < n2 -> nth j (row n2 x i) 0r = nth (i * n2 + j) x 0r.
Proof. intros H; unfold row. rewrite nth_firstn' by auto. apply nth_skipn'. Qed.
Lemma row_length n1 n2 x i : length x = n1 * n2 -> i < n1 -> length (row n2 x i) = n2.
Proof. intros H Hi; unfold row. rewrite firstn_length, skipn_length. nia. Qed.
Lemma chunk_length n1 n2 x : length (chunk n1 n2 x) = n1.
Proof. unfold chunk; rewrite map_length, seq_length; auto. Qed.
Lemma nth_chunk n1 n2 x i : i < n1 -> nth i (chunk n1 n2 x) [] = row n2 x i.
Proof. intros H; unfold chunk. rewrite nth_map' with (d' := 0) by (rewrite seq_length; auto).
  rewrite seq_nth by auto. reflexivity. Qed.
Lemma x2z_chunk n1 n2 x a b : xz (xzg [] (chunk n1 n2 x) a) b = x2z n1 n2 x a b.
Proof. unfold xzg, x2z. destruct (Z.ltb_spec a 0).
  - rewrite xz_nil. replace ((0 <=? a)%Z) with false by lia. reflexivity.
  - replace ((0 <=? a)%Z) with true by lia. destruct (Z.ltb_spec a (Z.of_nat n1)); cbn [andb].
    + rewrite nth_chunk by lia. unfold Conv.xz. destruct (Z.ltb_spec b 0).
      * replace ((0 <=? b)%Z) with false by lia. reflexivity.
      * replace ((0 <=? b)%Z) with true by lia. destruct (Z.ltb_spec b (Z.of_nat n2)); cbn [andb].
        -- apply nth_row. lia.
        -- apply nth_overflow. unfold row. rewrite firstn_length. lia.
    + rewrite nth_overflow by (rewrite chunk_length; lia). apply xz_nil. Qed.

(* ---------------- scipy N-d convolution, 2-D instance ---------------- *)
(* sum_q hrow_q xrow[s2 - q] *)
Definition rowdot (s2 : Z) (hrow xrow : vec) : R :=
  bigsum (length hrow) (fun q => nth q hrow 0r *r xz xrow (s2 - Z.of_nat q)).
(* mode='full' at (s1, s2): sum_{p,q} H[p,q] X[s1-p, s2-q] *)
Definition conv2_at (H X : mat) (s1 s2 : Z) : R :=
  bigsum (length H) (fun p => rowdot s2 (nth p H []) (xzg [] X (s1 - Z.of_nat p))).
(* mode='same': window of the input's shape starting at ((K1-1)//2, (K2-1)//2) *)
Definition conv2_same (n1 n2 : nat) (x : vec) (Hp : mat) : vec :=
  let c1 := (length Hp - 1) / 2 in let c2 := (length (hd [] Hp) - 1) / 2 in
  map (fun r => conv2_at Hp (chunk n1 n2 x) (Z.of_nat (r / n2) + Z.of_nat c1) (Z.of_nat (r mod n2) + Z.of_nat c2))
      (seq 0 (n1 * n2)).
(* ConvolveND.__init__: per-axis padding of the filter from the offsets *)
Definition padl (nh o : nat) : nat := Z.to_nat (Z.max (pad_off nh o) 0).
Definition padr (nh o : nat) : nat := Z.to_nat (- Z.min (pad_off nh o) 0).
Definition hpad2 (H : mat) (k2 o1 o2 : nat) : mat :=
  let K2 := padl k2 o2 + k2 + padr k2 o2 in
  repeat (zeros R K2) (padl (length H) o1) ++ map (fun r => hpad R r o2) H ++ repeat (zeros R K2) (padr (length H) o1).
Definition conv2_model (H : mat) (k2 o1 o2 n1 n2 : nat) (x : vec) : vec := conv2_same n1 n2 x (hpad2 H k2 o1 o2).
(* documentation: y[i,j] = sum_{p,q} h[p,q] x[i-p+o1, j-q+o2], zero outside *)
Definition conv2_spec (H : mat) (k2 o1 o2 n1 n2 : nat) (i j : nat) (x : vec) : R :=
  bigsum (length H) (fun p => bigsum k2 (fun q =>
    nth q (nth p H []) 0r *r x2z n1 n2 x (Z.of_nat i - Z.of_nat p + Z.of_nat o1) (Z.of_nat j - Z.of_nat q + Z.of_nat o2))).

Definition wfm (k2 : nat) (H : mat) : Prop := Forall (fun r => length r = k2) H.

Lemma conv2_same_length n1 n2 x Hp : length (conv2_same n1 n2 x Hp) = n1 * n2.
Proof. unfold conv2_same. rewrite map_length, seq_length; auto. Qed.
Lemma nth_conv2_same n1 n2 x Hp i j : i < n1 -> j < n2 ->
  nth (i * n2 + j) (conv2_same n1 n2 x Hp) 0r =
  conv2_at Hp (chunk n1 n2 x) (Z.of_nat i + Z.of_nat ((length Hp - 1) / 2)) (Z.of_nat j + Z.of_nat ((length (hd [] Hp) - 1) / 2)).
Proof. intros Hi Hj. unfold conv2_same. cbv zeta.
  assert (B : i * n2 + j < n1 * n2) by nia.
  rewrite nth_map' with (d' := 0) by (rewrite seq_length; auto). rewrite seq_nth by auto.
  destruct (divmod_flat n2 j i Hj) as [E1 E2]. simpl. rewrite E1, E2. reflexivity. Qed.

Lemma rowdot_zeros s2 K xrow : rowdot s2 (zeros R K) xrow = 0r.
Proof. unfold rowdot. apply bigsum_zero. intros; rewrite nth_zeros. ring. Qed.
Lemma hpad2_length H k2 o1 o2 : length (hpad2 H k2 o1 o2) = padl (length H) o1 + length H + padr (length H) o1.
Proof. unfold hpad2. cbv zeta. rewrite !app_length, !repeat_length, map_length. lia. Qed.
Lemma hpad_length' (r : vec) o : length (hpad R r o) = padl (length r) o + length r + padr (length r) o.
Proof. apply hpad_length. Qed.
Lemma hpad2_wf H k2 o1 o2 : wfm k2 H -> wfm (padl k2 o2 + k2 + padr k2 o2) (hpad2 H k2 o1 o2).
Proof. intros W. unfold hpad2, wfm. cbv zeta. rewrite !Forall_app. repeat split.
  - apply Forall_forall. intros r Hr. apply repeat_spec in Hr. subst. apply zeros_length.
  - apply Forall_forall. intros r Hr. apply in_map_iff in Hr. destruct Hr as [r0 [E Hr0]]. subst.
    rewrite hpad_length'. assert (L : length r0 = k2) by (unfold wfm in W; rewrite Forall_forall in W; auto). rewrite L. reflexivity.
  - apply Forall_forall. intros r Hr. apply repeat_spec in Hr. subst. apply zeros_length. Qed.
Lemma hd_length_wf k (M : mat) : wfm k M -> 0 < length M -> length (hd [] M) = k.
Proof. intros W H. destruct M; simpl in *; [lia|]. inversion W; auto. Qed.

(* the per-axis padding rule centres tap (o1, o2): every filter shape (odd or
   even sizes), every offset inside the filter, every array shape *)
Theorem conv2_meets_spec H k2 o1 o2 n1 n2 x i j :
  wfm k2 H -> o1 < length H -> o2 < k2 -> i < n1 -> j < n2 ->
  nth (i * n2 + j) (conv2_model H k2 o1 o2 n1 n2 x) 0r = conv2_spec H k2 o1 o2 n1 n2 i j x.
Proof. intros W Ho1 Ho2 Hi Hj. unfold conv2_model. rewrite nth_conv2_same by auto.
  pose proof (hpad2_wf H k2 o1 o2 W) as W2.
  rewrite (hd_length_wf _ _ W2) by (rewrite hpad2_length; lia).
  rewrite hpad2_length.
  destruct (centre_offset (length H) o1 Ho1) as [E1 _]. destruct (centre_offset k2 o2 Ho2) as [E2 _].
  cbv zeta in E1, E2. fold (padl (length H) o1) (padr (length H) o1) in E1. fold (padl k2 o2) (padr k2 o2) in E2.
  set (c1 := (padl (length H) o1 + length H + padr (length H) o1 - 1) / 2) in *.
  set (c2 := (padl k2 o2 + k2 + padr k2 o2 - 1) / 2) in *.
  unfold conv2_at, hpad2. cbv zeta.
  set (X := chunk n1 n2 x). set (s2 := (Z.of_nat j + Z.of_nat c2)%Z). set (s1 := (Z.of_nat i + Z.of_nat c1)%Z).
  rewrite (bigsum_app3 _ _ _ [] (fun hr p => rowdot s2 hr (xzg [] X (s1 - Z.of_nat p)))).
  2:{ intros a p Ha. apply repeat_spec in Ha. subst. apply rowdot_zeros. }
  2:{ intros a p Ha. apply repeat_spec in Ha. subst. apply rowdot_zeros. }
  rewrite map_length, repeat_length. unfold conv2_spec. apply bigsum_ext. intros p Hp.
  rewrite nth_map' with (d' := []) by auto.
  assert (Lr : length (nth p H []) = k2).
  { unfold wfm in W; rewrite Forall_forall in W. apply W. apply nth_In; auto. }
  unfold rowdot, hpad. cbv zeta. rewrite Lr. fold (padl k2 o2) (padr k2 o2).
  rewrite (bigsum_pad R (padl k2 o2) (padr k2 o2) (nth p H [])
     (fun m => xz (xzg [] X (s1 - Z.of_nat (padl (length H) o1 + p))) (s2 - Z.of_nat m))).
  rewrite Lr. apply bigsum_ext. intros q Hq. f_equal. unfold X. rewrite x2z_chunk. f_equal; lia. Qed.

Theorem conv2_model_length H k2 o1 o2 n1 n2 x : length (conv2_model H k2 o1 o2 n1 n2 x) = n1 * n2.
Proof. apply conv2_same_length. Qed.

(* Toeplitz (matrix) form of the full 2-D convolution sum on a flat C-order array *)
Lemma rowdot_nil_l s2 b : rowdot s2 [] b = 0r.
Proof. reflexivity. Qed.
Lemma rowdot_nil_r s2 a : rowdot s2 a [] = 0r.
Proof. unfold rowdot. apply bigsum_zero. intros; rewrite xz_nil. ring. Qed.
Lemma conv2_at_toeplitz Hp n1 n2 x s1 s2 : length x = n1 * n2 ->
  conv2_at Hp (chunk n1 n2 x) s1 s2 =
  bigsum (n1 * n2) (fun r => xz (xzg [] Hp (s1 - Z.of_nat (r / n2))) (s2 - Z.of_nat (r mod n2)) *r nth r x 0r).
Proof. intros Hx. unfold conv2_at.
  rewrite (gen_conv_comm vec vec [] [] (rowdot s2) (rowdot_nil_l s2) (rowdot_nil_r s2) Hp (chunk n1 n2 x) s1).
  rewrite chunk_length, bigsum_prod. apply bigsum_ext. intros i Hi.
  rewrite nth_chunk by auto. unfold rowdot. rewrite conv_comm. rewrite (row_length n1) by auto.
  apply bigsum_ext. intros j Hj. destruct (divmod_flat n2 j i Hj) as [E1 E2]. rewrite E1, E2.
  rewrite nth_row by auto. reflexivity. Qed.
Lemma xzg_map {A B} (g : A -> B) d l k : xzg (g d) (map g l) k = g (xzg d l k).
Proof. unfold xzg. destruct (k <? 0)%Z; auto. apply map_nth. Qed.
Lemma xzg_wf K (M : mat) k : wfm K M -> xzg [] M k = [] \/ length (xzg [] M k) = K.
Proof. intros W. unfold xzg. destruct (k <? 0)%Z; auto.
  destruct (Nat.ltb_spec (Z.to_nat k) (length M)).
  - right. unfold wfm in W; rewrite Forall_forall in W. apply W. apply nth_In; auto.
  - left. apply nth_overflow; auto. Qed.

(* ---------------- separable kernels ---------------- *)
(* h = a (x) b (outer product): the 2-D operator is the 1-D model of Conv.v
   applied along the rows (filter b, offset o2) followed by the 1-D model along
   each column (filter a, offset o1) *)
Definition outer (a b : vec) : mat := map (fun ap => vscale R ap b) a.
Lemma outer_wf a b : wfm (length b) (outer a b).
Proof. unfold wfm, outer. apply Forall_forall. intros r Hr. apply in_map_iff in Hr.
  destruct Hr as [ap [E _]]. subst. apply vscale_length. Qed.
Definition rows_then_col (a b : vec) (o1 o2 n1 n2 : nat) (x : vec) (i j : nat) : R :=
  nth i (conv_same_model R a o1 (map (fun i' => nth j (conv_same_model R b o2 (row n2 x i')) 0r) (seq 0 n1))) 0r.
Theorem conv2_separable a b o1 o2 n1 n2 x i j :
  o1 < length a -> o2 < length b -> i < n1 -> j < n2 -> length x = n1 * n2 ->
  nth (i * n2 + j) (conv2_model (outer a b) (length b) o1 o2 n1 n2 x) 0r = rows_then_col a b o1 o2 n1 n2 x i j.
Proof. intros Ho1 Ho2 Hi Hj Hx.
  assert (La : length (outer a b) = length a) by (unfold outer; apply map_length).
  rewrite conv2_meets_spec by (auto using outer_wf; rewrite ?La; auto).
  unfold rows_then_col. set (col := map (fun i' => nth j (conv_same_model R b o2 (row n2 x i')) 0r) (seq 0 n1)).
  assert (Lc : length col = n1) by (unfold col; rewrite map_length, seq_length; auto).
  rewrite conv_meets_spec by (auto; lia). unfold conv2_spec, conv_spec. rewrite La.
  apply bigsum_ext. intros p Hp.
  set (k := (Z.of_nat i - Z.of_nat p + Z.of_nat o1)%Z).
  unfold outer. rewrite nth_map' with (d' := 0r) by auto.
  rewrite (bigsum_ext R (length b) _ (fun q => nth p a 0r *r (nth q b 0r *r x2z n1 n2 x k (Z.of_nat j - Z.of_nat q + Z.of_nat o2))))
    by (intros q _; rewrite nth_vscale; ring).
  rewrite bigsum_scale. f_equal.
  destruct (Z.ltb_spec k 0) as [Hk|Hk]; [|destruct (Z.ltb_spec k (Z.of_nat n1)) as [Hk2|Hk2]].
  - unfold Conv.xz at 1. replace (k <? 0)%Z with true by lia.
    apply bigsum_zero. intros q _. unfold x2z. replace (0 <=? k)%Z with false by lia. cbn [andb]. ring.
  - unfold Conv.xz at 1. replace (k <? 0)%Z with false by lia.
    unfold col. rewrite nth_map' with (d' := 0) by (rewrite seq_length; lia). rewrite seq_nth by lia. simpl (0 + Z.to_nat k).
    rewrite conv_meets_spec by (auto; rewrite (row_length n1); auto; lia).
    unfold conv_spec. apply bigsum_ext. intros q _. f_equal.
    rewrite <- x2z_chunk. unfold xzg. replace (k <? 0)%Z with false by lia. rewrite nth_chunk by lia. reflexivity.
  - unfold Conv.xz at 1. replace (k <? 0)%Z with false by lia. rewrite nth_overflow by lia.
    apply bigsum_zero. intros q _. unfold x2z. replace (k <? Z.of_nat n1)%Z with false by lia.
    rewrite andb_false_r. cbn [andb]. ring. Qed.
End Conv2.

(* ------------------------------------------------------------------ *)
(* adjoint: correlate(x, h, 'same') = convolution with conj(flip(h)) on both axes *)
(* ------------------------------------------------------------------ *)
Section Conv2Star.
Variable S : StarRing.
Add Ring RrConv2S : (rth S).
Notation vec := (list S).
Notation mat := (list (list S)).
Notation "0s" := (r0 S).

Definition rev2c (Hp : mat) : mat := map (fun r => vconj S (rev r)) (rev Hp).
Lemma rev2c_length Hp : length (rev2c Hp) = length Hp.
Proof. unfold rev2c; rewrite map_length, rev_length; auto. Qed.
Lemma rev2c_wf K Hp : wfm S K Hp -> wfm S K (rev2c Hp).
Proof. unfold wfm, rev2c. rewrite !Forall_forall. intros W r Hr. apply in_map_iff in Hr.
  destruct Hr as [r0 [E Hr0]]. subst. rewrite vconj_length, rev_length. apply W. apply in_rev; auto. Qed.

(* 'same' convolution with ANY kernel of odd shape K1 x K2 and 'same'
   convolution with its flipped conjugate are adjoint, for every array shape *)
Theorem conv2_same_adjoint Hp K2 n1 n2 (x y : vec) :
  wfm S K2 Hp -> length Hp mod 2 = 1 -> K2 mod 2 = 1 -> length x = n1 * n2 -> length y = n1 * n2 ->
  dot S (conv2_same S n1 n2 x Hp) y = dot S x (conv2_same S n1 n2 y (rev2c Hp)).
Proof. intros W O1 O2 Hx Hy.
  assert (L1 : 0 < length Hp) by (destruct Hp; simpl in *; [discriminate | lia]).
  set (c1 := (length Hp - 1) / 2). set (c2 := (K2 - 1) / 2).
  assert (Hc1 : length Hp = 2 * c1 + 1).
  { unfold c1. pose proof (Nat.div_mod_eq (length Hp) 2). pose proof (Nat.div_mod_eq (length Hp - 1) 2).
    pose proof (Nat.mod_upper_bound (length Hp - 1) 2 ltac:(lia)). lia. }
  assert (Hc2 : K2 = 2 * c2 + 1).
  { unfold c2. pose proof (Nat.div_mod_eq K2 2). pose proof (Nat.div_mod_eq (K2 - 1) 2).
    pose proof (Nat.mod_upper_bound (K2 - 1) 2 ltac:(lia)). lia. }
  assert (Hd : length (hd [] Hp) = K2) by (apply hd_length_wf; auto).
  assert (Hd' : length (hd [] (rev2c Hp)) = K2) by (apply hd_length_wf; [apply rev2c_wf; auto | rewrite rev2c_length; auto]).
  apply adjoint_of_entries with (f := fun x => conv2_same S n1 n2 x Hp) (g := fun y => conv2_same S n1 n2 y (rev2c Hp))
    (A := fun r r' => xz S (xzg [] Hp (Z.of_nat (r / n2) + Z.of_nat c1 - Z.of_nat (r' / n2)))
                         (Z.of_nat (r mod n2) + Z.of_nat c2 - Z.of_nat (r' mod n2)))
    (n := n1 * n2) (m := n1 * n2); auto; try apply conv2_same_length.
  - intros r Hr. unfold conv2_same. cbv zeta. rewrite nth_map' with (d' := 0) by (rewrite seq_length; auto).
    rewrite seq_nth by auto. rewrite Hd. fold c1 c2. simpl (0 + r). apply conv2_at_toeplitz; auto.
  - intros r' Hr'. unfold conv2_same. cbv zeta. rewrite nth_map' with (d' := 0) by (rewrite seq_length; auto).
    rewrite seq_nth by auto. rewrite Hd', rev2c_length. fold c1 c2. simpl (0 + r').
    rewrite conv2_at_toeplitz by auto. apply bigsum_ext. intros r Hr. f_equal.
    unfold rev2c. change (@nil S) with ((fun r0 : list S => vconj S (rev r0)) []) at 1.
    rewrite xzg_map, xzg_rev.
    replace (Z.of_nat (length Hp) - 1 - (Z.of_nat (r' / n2) + Z.of_nat c1 - Z.of_nat (r / n2)))%Z
      with (Z.of_nat (r / n2) + Z.of_nat c1 - Z.of_nat (r' / n2))%Z by lia.
    set (rw := xzg [] Hp (Z.of_nat (r / n2) + Z.of_nat c1 - Z.of_nat (r' / n2))).
    rewrite xz_vconj, xz_rev. f_equal.
    destruct (xzg_wf S K2 Hp (Z.of_nat (r / n2) + Z.of_nat c1 - Z.of_nat (r' / n2)) W) as [E|E]; fold rw in E.
    + rewrite E. rewrite !xz_nil. reflexivity.
    + rewrite E. f_equal. lia. Qed.

(* ConvolveND._rmatvec: correlate(x, padded h, mode='same') *)
Definition conv2_adj_model (H : mat) (k2 o1 o2 n1 n2 : nat) (y : vec) : vec :=
  conv2_same S n1 n2 y (rev2c (hpad2 S H k2 o1 o2)).
Theorem conv2_adjoint H k2 o1 o2 n1 n2 (x y : vec) :
  wfm S k2 H -> o1 < length H -> o2 < k2 -> length x = n1 * n2 -> length y = n1 * n2 ->
  dot S (conv2_model S H k2 o1 o2 n1 n2 x) y = dot S x (conv2_adj_model H k2 o1 o2 n1 n2 y).
Proof. intros W Ho1 Ho2 Hx Hy. unfold conv2_model, conv2_adj_model.
  apply conv2_same_adjoint with (K2 := padl k2 o2 + k2 + padr k2 o2); auto.
  - apply hpad2_wf; auto.
  - rewrite hpad2_length. apply (centre_offset (length H) o1 Ho1).
  - apply (centre_offset k2 o2 Ho2). Qed.
End Conv2Star.
