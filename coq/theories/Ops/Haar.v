(* Haar.v — the Haar discrete wavelet transform as
   pylops.signalprocessing.DWT(wavelet='haar') computes it (dwt.py: Pad to
   max(2^ceil(log2 n), 2^level), pywt.wavedecn(mode='periodization') +
   coeffs_to_array; adjoint: array_to_coeffs + waverecn, then Pad^H = crop).
   One level on an even-length signal (pywt, haar filters):
       a_i = (x_{2i} + x_{2i+1}) c,   d_i = (x_{2i} - x_{2i+1}) c,   c = 1/sqrt 2
   multi-level: recurse on the approximation; layout [a_L, d_L, ..., d_1].
   c is a Section variable with the laws  c*c*(1+1) = 1  and  conj c = c
   (premises, no axioms).  Theorems for ALL lengths 2^L * m and levels L:
   inverse o forward = id, forward o inverse = id, adjoint = inverse, isometry;
   with pylops' pad / crop: Op^H Op = id for every n and L, Op Op^H is an
   idempotent (the identity iff no padding was needed).
   Exact executable instance: the field Q(sqrt 2) as pairs over Qc. *)
From PV Require Export Dot.
Local Open Scope R_scope.

Section Haar.
Variable K : StarRing.
Add Ring Rhaar : (rth K).
Notation vec := (list K).
Notation cj := (conj K).
Variable c : K.
Hypothesis c_sq : c * c * (1 + 1) = 1.
Hypothesis c_real : cj c = c.

(* ---- one level ---- *)
Fixpoint happ (x : vec) : vec :=
  match x with x0 :: x1 :: t => (x0 + x1) * c :: happ t | _ => [] end.
Fixpoint hdet (x : vec) : vec :=
  match x with x0 :: x1 :: t => (x0 - x1) * c :: hdet t | _ => [] end.
Fixpoint hunstep (a d : vec) : vec :=
  match a, d with a0 :: a', d0 :: d' => (a0 + d0) * c :: (a0 - d0) * c :: hunstep a' d' | _, _ => [] end.

Lemma happ_length k x : length x = (2 * k)%nat -> length (happ x) = k.
Proof. revert x; induction k as [|k IH]; intros [|x0 [|x1 t]] H; simpl in *; try lia. rewrite IH; auto; lia. Qed.
Lemma hdet_length k x : length x = (2 * k)%nat -> length (hdet x) = k.
Proof. revert x; induction k as [|k IH]; intros [|x0 [|x1 t]] H; simpl in *; try lia. rewrite IH; auto; lia. Qed.
Lemma hunstep_length a d : length a = length d -> length (hunstep a d) = (2 * length a)%nat.
Proof. revert d; induction a as [|a0 a IH]; intros [|d0 d] H; simpl in *; try lia. rewrite IH by lia. lia. Qed.

Lemma half_sum (u v : K) : ((u + v) * c + (u - v) * c) * c = u.
Proof. replace (((u + v) * c + (u - v) * c) * c) with (u * (c * c * (1 + 1))) by ring. rewrite c_sq; ring. Qed.
Lemma half_diff (u v : K) : ((u + v) * c - (u - v) * c) * c = v.
Proof. replace (((u + v) * c - (u - v) * c) * c) with (v * (c * c * (1 + 1))) by ring. rewrite c_sq; ring. Qed.

Lemma hunstep_hstep k x : length x = (2 * k)%nat -> hunstep (happ x) (hdet x) = x.
Proof. revert x; induction k as [|k IH]; intros [|x0 [|x1 t]] H; simpl in *; try lia; auto.
  rewrite half_sum, half_diff, IH; auto; lia. Qed.
Lemma happ_hunstep a d : length a = length d -> happ (hunstep a d) = a.
Proof. revert d; induction a as [|a0 a IH]; intros [|d0 d] H; simpl in *; try lia; auto.
  rewrite half_sum, IH; auto. Qed.
Lemma hdet_hunstep a d : length a = length d -> hdet (hunstep a d) = d.
Proof. revert d; induction a as [|a0 a IH]; intros [|d0 d] H; simpl in *; try lia; auto.
  rewrite half_diff, IH; auto. Qed.

(* one-level adjoint identity: <(a,d)(x), (a',d')> = <x, unstep(a',d')> *)
Lemma dot_cons (u v : K) (us vs : vec) : dot K (u :: us) (v :: vs) = cj u * v + dot K us vs.
Proof. reflexivity. Qed.
Lemma dot_hstep k x a' d' : length x = (2 * k)%nat -> length a' = k -> length d' = k ->
  dot K (happ x) a' + dot K (hdet x) d' = dot K x (hunstep a' d').
Proof. revert x a' d'; induction k as [|k IH]; intros [|x0 [|x1 t]] [|a0 a'] [|d0 d'] H Ha Hd; simpl in *; try lia.
  - unfold dot; simpl; ring.
  - rewrite !dot_cons. rewrite <- (IH t a' d') by lia.
    rewrite !conj_mul, conj_add, c_real.
    replace (cj (x0 - x1)) with (cj x0 - cj x1) by (replace (x0 - x1) with (x0 + - x1) by ring; rewrite conj_add, conj_opp; ring).
    ring. Qed.

(* ---- multi-level: [a_L, d_L, ..., d_1] ---- *)
Fixpoint hfwd (L : nat) (x : vec) : vec :=
  match L with O => x | S L' => hfwd L' (happ x) ++ hdet x end.
Fixpoint hinv (L : nat) (y : vec) : vec :=
  match L with O => y | S L' => let h := (length y / 2)%nat in hunstep (hinv L' (firstn h y)) (skipn h y) end.

Lemma pow2_S L m : (2 ^ S L * m = 2 * (2 ^ L * m))%nat.
Proof. simpl; lia. Qed.
Lemma hfwd_length L : forall m x, length x = (2 ^ L * m)%nat -> length (hfwd L x) = (2 ^ L * m)%nat.
Proof. induction L as [|L IH]; intros m x H; auto.
  rewrite pow2_S in *. cbn [hfwd]. rewrite app_length, (IH m), (hdet_length (2 ^ L * m)); auto; try lia.
  apply happ_length; auto. Qed.
Lemma half_len (y : vec) k : length y = (2 * k)%nat -> (length y / 2 = k)%nat.
Proof. intros H. rewrite H, Nat.mul_comm. apply Nat.div_mul; lia. Qed.
Lemma hinv_length L : forall m y, length y = (2 ^ L * m)%nat -> length (hinv L y) = (2 ^ L * m)%nat.
Proof. induction L as [|L IH]; intros m y H; auto.
  rewrite pow2_S in *. cbn [hinv]. rewrite (half_len y _ H).
  assert (H1 : length (firstn (2 ^ L * m) y) = (2 ^ L * m)%nat) by (rewrite firstn_length; lia).
  assert (H2 : length (skipn (2 ^ L * m) y) = (2 ^ L * m)%nat) by (rewrite skipn_length; lia).
  rewrite hunstep_length; rewrite (IH m) by auto; lia. Qed.

(* INVERSE: waverec (wavedec x) = x for every length 2^L * m *)
Theorem hinv_hfwd L : forall m x, length x = (2 ^ L * m)%nat -> hinv L (hfwd L x) = x.
Proof. induction L as [|L IH]; intros m x H; auto.
  rewrite pow2_S in H. cbn [hfwd hinv].
  assert (Ha : length (hfwd L (happ x)) = (2 ^ L * m)%nat) by (apply hfwd_length, happ_length; auto).
  assert (Hd : length (hdet x) = (2 ^ L * m)%nat) by (apply hdet_length; auto).
  rewrite (half_len _ (2 ^ L * m)) by (rewrite app_length; lia).
  rewrite <- Ha at 1 2. rewrite firstn_app, skipn_app, Nat.sub_diag, firstn_all, skipn_all. simpl.
  rewrite app_nil_r. rewrite (IH m) by (apply happ_length; auto).
  apply (hunstep_hstep (2 ^ L * m)); auto. Qed.
(* ... and wavedec (waverec y) = y: the transform is a bijection on these lengths *)
Theorem hfwd_hinv L : forall m y, length y = (2 ^ L * m)%nat -> hfwd L (hinv L y) = y.
Proof. induction L as [|L IH]; intros m y H; auto.
  rewrite pow2_S in H. cbn [hfwd hinv]. rewrite (half_len y _ H).
  assert (H1 : length (firstn (2 ^ L * m) y) = (2 ^ L * m)%nat) by (rewrite firstn_length; lia).
  assert (H2 : length (skipn (2 ^ L * m) y) = (2 ^ L * m)%nat) by (rewrite skipn_length; lia).
  assert (Hl : length (hinv L (firstn (2 ^ L * m) y)) = length (skipn (2 ^ L * m) y)) by (rewrite (hinv_length L m); auto).
  rewrite happ_hunstep, hdet_hunstep by auto. rewrite (IH m) by auto. apply firstn_skipn. Qed.

(* ADJOINT = INVERSE *)
Theorem hfwd_adjoint L : forall m x y, length x = (2 ^ L * m)%nat -> length y = (2 ^ L * m)%nat ->
  dot K (hfwd L x) y = dot K x (hinv L y).
Proof. induction L as [|L IH]; intros m x y Hx Hy; auto.
  rewrite pow2_S in *. cbn [hfwd hinv]. rewrite (half_len y _ Hy).
  assert (Ha : length (hfwd L (happ x)) = (2 ^ L * m)%nat) by (apply hfwd_length, happ_length; auto).
  assert (H1 : length (firstn (2 ^ L * m) y) = (2 ^ L * m)%nat) by (rewrite firstn_length; lia).
  assert (H2 : length (skipn (2 ^ L * m) y) = (2 ^ L * m)%nat) by (rewrite skipn_length; lia).
  rewrite <- (firstn_skipn (2 ^ L * m) y) at 1. rewrite dot_app by lia.
  rewrite (IH m) by (auto; apply happ_length; auto).
  apply (dot_hstep (2 ^ L * m)); auto. apply hinv_length; auto. Qed.
(* ISOMETRY *)
Theorem hfwd_isometry L m x x' : length x = (2 ^ L * m)%nat -> length x' = (2 ^ L * m)%nat ->
  dot K (hfwd L x) (hfwd L x') = dot K x x'.
Proof. intros H H'. rewrite (hfwd_adjoint L m) by (auto; apply hfwd_length; auto).
  rewrite (hinv_hfwd L m); auto. Qed.

(* the same adjoint identity for the BILINEAR pairing (no conjugation, no hypothesis on c): the
   form used by the along-axis lifting of Ops/Axis.v *)
Lemma dotu_hstep k x a' d' : length x = (2 * k)%nat -> length a' = k -> length d' = k ->
  dotu K (happ x) a' + dotu K (hdet x) d' = dotu K x (hunstep a' d').
Proof. revert x a' d'; induction k as [|k IH]; intros [|x0 [|x1 t]] [|a0 a'] [|d0 d'] H Ha Hd; simpl in *; try lia.
  - ring.
  - rewrite <- (IH t a' d') by lia. ring. Qed.
Theorem hfwd_adjoint_u L : forall m x y, length x = (2 ^ L * m)%nat -> length y = (2 ^ L * m)%nat ->
  dotu K (hfwd L x) y = dotu K x (hinv L y).
Proof. induction L as [|L IH]; intros m x y Hx Hy; auto.
  rewrite pow2_S in *. cbn [hfwd hinv]. rewrite (half_len y _ Hy).
  assert (Ha : length (hfwd L (happ x)) = (2 ^ L * m)%nat) by (apply hfwd_length, happ_length; auto).
  assert (H1 : length (firstn (2 ^ L * m) y) = (2 ^ L * m)%nat) by (rewrite firstn_length; lia).
  assert (H2 : length (skipn (2 ^ L * m) y) = (2 ^ L * m)%nat) by (rewrite skipn_length; lia).
  rewrite <- (firstn_skipn (2 ^ L * m) y) at 1. rewrite dotu_app by lia.
  rewrite (IH m) by (auto; apply happ_length; auto).
  apply (dotu_hstep (2 ^ L * m)); auto. apply hinv_length; auto. Qed.

(* ---- the pylops operator: Pad, transform; adjoint: inverse transform, crop ---- *)
(* max(2 ** ceil(log(n, 2)), 2 ** level); Nat.log2_up is the exact ceil(log2 n) *)
Definition padlen (n L : nat) : nat := Nat.max (2 ^ Nat.log2_up n) (2 ^ L).
Definition dwt_fwd (L : nat) (x : vec) : vec := hfwd L (x ++ zeros K (padlen (length x) L - length x)).
Definition dwt_adj (L n : nat) (y : vec) : vec := firstn n (hinv L y).

Lemma padlen_form n L : exists m, padlen n L = (2 ^ L * m)%nat.
Proof. unfold padlen. destruct (Nat.le_ge_cases L (Nat.log2_up n)) as [H|H].
  - exists (2 ^ (Nat.log2_up n - L))%nat. rewrite <- Nat.pow_add_r. replace (L + (Nat.log2_up n - L))%nat with (Nat.log2_up n) by lia.
    apply Nat.max_l. apply Nat.pow_le_mono_r; lia.
  - exists 1%nat. rewrite Nat.mul_1_r. apply Nat.max_r. apply Nat.pow_le_mono_r; lia. Qed.
Lemma padlen_ge n L : (n <= padlen n L)%nat.
Proof. unfold padlen. apply Nat.le_trans with (2 ^ Nat.log2_up n)%nat; [|apply Nat.le_max_l].
  destruct n as [|[|n]]; [lia | simpl; lia |].
  assert (H0 : 1 < S (S n)) by lia. pose proof (Nat.log2_up_spec (S (S n)) H0) as H. lia. Qed.
Lemma padded_length L (x : vec) : length (x ++ zeros K (padlen (length x) L - length x)) = padlen (length x) L.
Proof. rewrite app_length, zeros_length. pose proof (padlen_ge (length x) L). lia. Qed.
Lemma dwt_fwd_length L x : length (dwt_fwd L x) = padlen (length x) L.
Proof. unfold dwt_fwd. destruct (padlen_form (length x) L) as [m Hm].
  rewrite (hfwd_length L m) by (rewrite padded_length; auto). auto. Qed.

(* Op^H Op = id for EVERY n and level (the property's clause) *)
Theorem dwt_adj_fwd L x : dwt_adj L (length x) (dwt_fwd L x) = x.
Proof. unfold dwt_adj, dwt_fwd. destruct (padlen_form (length x) L) as [m Hm].
  rewrite (hinv_hfwd L m) by (rewrite padded_length; auto).
  rewrite firstn_app, Nat.sub_diag, firstn_all. simpl. apply app_nil_r. Qed.
(* adjoint pair *)
Theorem dwt_adjoint L x y : length y = padlen (length x) L ->
  dot K (dwt_fwd L x) y = dot K x (dwt_adj L (length x) y).
Proof. intros Hy. unfold dwt_adj, dwt_fwd. destruct (padlen_form (length x) L) as [m Hm].
  rewrite (hfwd_adjoint L m) by (rewrite ?padded_length; lia).
  assert (Hl : length (hinv L y) = padlen (length x) L) by (rewrite (hinv_length L m); lia).
  pose proof (padlen_ge (length x) L) as G.
  rewrite <- (firstn_skipn (length x) (hinv L y)) at 1.
  rewrite dot_app by (rewrite firstn_length; lia). rewrite dot_zeros_l. ring. Qed.
Theorem dwt_adjoint_u L x y : length y = padlen (length x) L ->
  dotu K (dwt_fwd L x) y = dotu K x (dwt_adj L (length x) y).
Proof. intros Hy. unfold dwt_adj, dwt_fwd. destruct (padlen_form (length x) L) as [m Hm].
  rewrite (hfwd_adjoint_u L m) by (rewrite ?padded_length; lia).
  assert (Hl : length (hinv L y) = padlen (length x) L) by (rewrite (hinv_length L m); lia).
  pose proof (padlen_ge (length x) L) as G.
  rewrite <- (firstn_skipn (length x) (hinv L y)) at 1.
  rewrite dotu_app by (rewrite firstn_length; lia). rewrite dotu_zeros_l. ring. Qed.
Lemma dwt_adj_length L n y : length y = padlen n L -> length (dwt_adj L n y) = n.
Proof. intros Hy. destruct (padlen_form n L) as [m Hm]. unfold dwt_adj.
  rewrite firstn_length, (hinv_length L m) by lia. pose proof (padlen_ge n L). lia. Qed.
(* isometry of the operator *)
Theorem dwt_isometry L x x' : length x = length x' -> dot K (dwt_fwd L x) (dwt_fwd L x') = dot K x x'.
Proof. intros H. rewrite dwt_adjoint by (rewrite dwt_fwd_length; f_equal; auto).
  rewrite H, dwt_adj_fwd; auto. Qed.
(* Op Op^H is an idempotent: a projector onto the range of Op ... *)
Theorem dwt_fwd_adj_idempotent L n y : length y = padlen n L ->
  dwt_fwd L (dwt_adj L n (dwt_fwd L (dwt_adj L n y))) = dwt_fwd L (dwt_adj L n y).
Proof. intros Hy. destruct (padlen_form n L) as [m Hm].
  assert (Hn : length (dwt_adj L n y) = n).
  { unfold dwt_adj. rewrite firstn_length, (hinv_length L m) by lia. pose proof (padlen_ge n L). lia. }
  rewrite <- Hn at 1. rewrite dwt_adj_fwd; auto. Qed.
(* ... and the identity exactly when no padding was needed (n = 2^k >= 2^L) *)
Theorem dwt_fwd_adj_nopad L n y : padlen n L = n -> length y = n -> dwt_fwd L (dwt_adj L n y) = y.
Proof. intros Hp Hy. destruct (padlen_form n L) as [m Hm]. rewrite Hp in Hm.
  assert (Hi : length (hinv L y) = n) by (rewrite (hinv_length L m); lia).
  unfold dwt_adj, dwt_fwd.
  replace (firstn n (hinv L y)) with (hinv L y) by (rewrite <- Hi at 1; symmetry; apply firstn_all).
  rewrite Hi, Hp, Nat.sub_diag. simpl.
  rewrite app_nil_r. apply (hfwd_hinv L m); lia. Qed.
End Haar.

(* ------------------------------------------------------------------ *)
(* exact executable instance: Q(sqrt 2) = { a + b sqrt 2 : a, b in Qc }  *)
From Coq Require Import QArith Qcanon.
Local Open Scope Qc_scope.
Definition Q2 := (Qc * Qc)%type.
Definition q2_0 : Q2 := (0, 0).
Definition q2_1 : Q2 := (1, 0).
Definition q2add (a b : Q2) : Q2 := (fst a + fst b, snd a + snd b).
Definition q2mul (a b : Q2) : Q2 := (fst a * fst b + (1 + 1) * (snd a * snd b), fst a * snd b + snd a * fst b).
Definition q2opp (a : Q2) : Q2 := (- fst a, - snd a).
Definition q2sub (a b : Q2) : Q2 := (fst a - fst b, snd a - snd b).
Lemma Q2rt : ring_theory q2_0 q2_1 q2add q2mul q2sub q2opp eq.
Proof. constructor; intros; repeat match goal with x : Q2 |- _ => destruct x end;
  unfold q2add, q2mul, q2sub, q2opp, q2_0, q2_1; simpl; f_equal; ring. Qed.
Definition Q2R : CRing := {| car := Q2; rth := Q2rt |}.
Definition Q2S : StarRing.
Proof. refine {| sring := Q2R; conj := fun x => x |}; intros; reflexivity. Defined.
(* 1/sqrt 2 = (1/2) sqrt 2 *)
Definition q2c : Q2 := (0, Q2Qc (1 # 2)).
(* (a + b sqrt 2) / 2 with integer a, b *)
Definition q2h (a b : Z) : Q2 := (Q2Qc (a # 2), Q2Qc (b # 2)).
Definition q2eqb (a b : Q2) : bool := (Qc_eq_bool (fst a) (fst b) && Qc_eq_bool (snd a) (snd b))%bool.
Lemma q2eqb_eq a b : q2eqb a b = true -> a = b.
Proof. destruct a, b; unfold q2eqb; simpl; intros H. apply andb_prop in H; destruct H as [H1 H2].
  apply Qc_eq_bool_correct in H1, H2. subst; auto. Qed.
Fixpoint q2veqb (u v : list Q2) : bool :=
  match u, v with [] , [] => true | a :: u', b :: v' => (q2eqb a b && q2veqb u' v')%bool | _, _ => false end.
Lemma q2c_sq : rmul Q2S (rmul Q2S q2c q2c) (radd Q2S (r1 Q2S) (r1 Q2S)) = r1 Q2S.
Proof. apply q2eqb_eq. vm_compute. reflexivity. Qed.
Lemma q2c_real : conj Q2S q2c = q2c.
Proof. reflexivity. Qed.
