(* MDCOp.v — pylops/waveeqprocessing/mdd.py `_MDC`:
       MDCop = F1op^H * I1op^H * Frop * Iop * Fop
   Fop  = FFT(dims=(nt,nr,nv), axis=0, real=True, ifftshift_before=twosided)   (norm 'ortho', nfft = nt)
   F1op = FFT(dims=(nt,ns,nv), axis=0, real=True, ifftshift_before=False)
   Iop / I1op = Identity(N = nfmax*., M = nfft*.) (keep the first nfmax frequency slices; adjoint zero-pads)
   Frop = Fredholm1(scal*G) with scal = dr*dt*sqrt(nt) (prescaled=False) or G itself (prescaled=True),
          wrapped in .conj() when conj=True (= Fredholm1 with the conjugated kernel, lemma fr_conj_kernel).
   The 1-D transforms are the real-input engine models rfwd_np / radj_np of Ops/DFTEngines.v (sqrt(2) on the
   middle bins, C2R completion); a (nt, nr, nv) array is handled as its nt x (nr*nv) row matrix (rows = time
   samples = C-order chunks of the flat vector), the transform acts on the columns.
   Theorems, for ALL sizes: the chain's adjoint is the chain of the adjoints in reverse order
   (dotu (MDC x) z = dotu x (MDC^H z) for real x, z), and the usematmul / saveGt variants are equal maps.
   The root of unity w, sqrt 2 and 1/sqrt nt are parameters with their laws as hypotheses; the adjoint
   theorem needs NO law on w (only s2*s2 = 2, s2 and sq real, nt <> 0, 2 <> 0).  No axioms. *)
From Coq Require Import Lia.
From PV Require Import Dict Vec Dot Mat MatT MatAlg Axis DFT DFTEngines Fredholm.
Local Open Scope R_scope.

(* ------------------------------------------------------------------ generic chain *)
Section Chain.
Variable F : FieldS.
Add Field FMdc : (fth F).
Notation vec := (list F).
Notation mat := (list (list F)).
Notation ten := (list (list (list F))).
Notation tr := (transpose F).
Notation cj := (conj F).
Notation half := (1 / (1 + 1)).
Notation re2 := (re2 F).
Notation mdotc := (mdotc F).
Notation mdot := (mdot F).
Notation colsL := (colsL F).
Hypothesis two_nz : (1 + 1 : F) <> 0.

Lemma re2_zero : re2 0 = 0.
Proof. unfold DFTEngines.re2. rewrite conj_zero. ring. Qed.
Lemma re2_plus a b : re2 (a + b) = re2 a + re2 b.
Proof. unfold DFTEngines.re2. rewrite conj_add. ring. Qed.
Lemma re2_conj a : re2 (cj a) = re2 a.
Proof. unfold DFTEngines.re2. rewrite conj_invol. ring. Qed.
Lemma mdot_comm (A B : mat) : mdot A B = mdot B A.
Proof. revert B; induction A as [|a A IH]; intros [|b B]; simpl; auto. rewrite IH, dotu_comm; auto. Qed.
Lemma mdotc_conj_sym (A B : mat) : cj (mdotc A B) = mdotc B A.
Proof. revert B; induction A as [|a A IH]; intros [|b B]; try apply conj_zero.
  rewrite !mdotc_cons, conj_add, dot_conj_sym, IH; auto. Qed.
Lemma real_rows (X : mat) : mconj F X = X -> Forall (fun r => vconj F r = r) X.
Proof. induction X as [|r X IH]; intros H; constructor; simpl in H; injection H; auto. Qed.
Lemma real_transpose c (X : mat) : mconj F X = X -> mconj F (tr c X) = tr c X.
Proof. intros H. rewrite (MatT.mconj_transpose F c X), H; auto. Qed.
Lemma real_chunks m k (x : vec) : vconj F x = x -> mconj F (chunks F m k x) = chunks F m k x.
Proof. revert x; induction k as [|k IH]; intros x H; simpl; auto. f_equal.
  - unfold vconj. rewrite <- firstn_map. fold (vconj F x). rewrite H; auto.
  - apply IH. unfold vconj. rewrite <- skipn_map. fold (vconj F x). rewrite H; auto. Qed.
Lemma dotu_real_dot (x y : vec) : vconj F x = x -> dotu F x y = dot F x y.
Proof. intros H. unfold dot. rewrite H; auto. Qed.

(* a real-to-complex 1-D map f with its "C2R" adjoint g: Re <f x, y> = <x, g y> for REAL x *)
Definition MixedAdj (n k : nat) (f g : vec -> vec) : Prop :=
  forall x y, vconj F x = x -> length x = n -> length y = k -> half * re2 (dot F (f x) y) = dotu F x (g y).
Definition Len (n k : nat) (f : vec -> vec) : Prop := forall x, length x = n -> length (f x) = k.

Lemma mixed_map_adj n k f g (A B : mat) : MixedAdj n k f g -> length A = length B ->
  Forall (fun r => vconj F r = r) A -> wfM F n A -> wfM F k B ->
  half * re2 (mdotc (map f A) B) = mdot A (map g B).
Proof. intros H L RA WA; revert B L RA; induction WA as [|a A Ha WA IH]; intros [|b B] L RA WB; try (simpl in L; discriminate L).
  - change (half * re2 0 = 0). rewrite re2_zero. field. exact two_nz.
  - inversion WB; inversion RA; subst. cbn [map Axis.mdot]. rewrite mdotc_cons, re2_plus.
    replace (half * (re2 (dot F (f a) b) + re2 (mdotc (map f A) B)))
      with (half * re2 (dot F (f a) b) + half * re2 (mdotc (map f A) B)) by (field; exact two_nz).
    rewrite H, IH by (auto; simpl in L; lia). reflexivity. Qed.
(* lifted to the columns of a REAL n x c matrix X against a complex k x c matrix Y *)
Lemma cols_mixed_adjoint n k c f g (X Y : mat) : MixedAdj n k f g -> Len n k f -> Len k n g ->
  mconj F X = X -> wfM F c X -> length X = n -> wfM F c Y -> length Y = k ->
  half * re2 (mdotc (colsL f c k X) Y) = mdot X (colsL g c n Y).
Proof. intros H Lf Lg RX WX LX WY LY. unfold DFTEngines.colsL.
  assert (W1 : wfM F n (tr c X)) by (rewrite <- LX; apply wfM_transpose; auto).
  assert (W2 : wfM F k (tr c Y)) by (rewrite <- LY; apply wfM_transpose; auto).
  assert (L1 : length (tr c X) = c) by (apply MatT.transpose_length; auto).
  assert (L2 : length (tr c Y) = c) by (apply MatT.transpose_length; auto).
  assert (W3 : wfM F k (map f (tr c X))) by (eapply Axis.wfM_map; eauto).
  assert (W4 : wfM F n (map g (tr c Y))) by (eapply Axis.wfM_map; eauto).
  rewrite <- (MatT.transpose_involutive F c Y WY) at 1. rewrite LY.
  rewrite mdotc_transpose by (rewrite ?map_length; auto; lia).
  rewrite (mixed_map_adj n k f g) by (auto; try lia; apply real_rows, real_transpose; auto).
  rewrite <- (MatT.transpose_involutive F c X WX) at 2. rewrite LX.
  rewrite mdot_transpose by (rewrite ?map_length; auto; lia). reflexivity. Qed.

(* Identity(N < M): keep the first rows / zero-pad *)
Definition padrows (k c : nat) (Z : mat) : mat := Z ++ repeat (zeros F c) (k - length Z).
Lemma mdotc_nil_r (A : mat) : mdotc A [] = 0.
Proof. destruct A; reflexivity. Qed.
Lemma mdotc_zero_rows c m (A : mat) : mdotc A (repeat (zeros F c) m) = 0.
Proof. revert A; induction m as [|m IH]; intros [|a A]; try reflexivity.
  cbn [repeat]. rewrite mdotc_cons, IH, dot_zeros_r. ring. Qed.
Lemma mdotc_app (A1 A2 B1 B2 : mat) : length A1 = length B1 -> mdotc (A1 ++ A2) (B1 ++ B2) = mdotc A1 B1 + mdotc A2 B2.
Proof. revert B1; induction A1 as [|a A1 IH]; intros [|b B1] L; try (simpl in L; discriminate L).
  - cbn [app]. replace (mdotc [] []) with (r0 F) by reflexivity. ring.
  - cbn [app]. rewrite !mdotc_cons, IH by (simpl in L; lia). ring. Qed.
Lemma trunc_pad_adjoint k c m (W Z : mat) : length W = k -> length Z = m -> (m <= k)%nat ->
  mdotc W (padrows k c Z) = mdotc (firstn m W) Z.
Proof. intros LW LZ L. unfold padrows. rewrite <- (firstn_skipn m W) at 1.
  rewrite mdotc_app by (rewrite firstn_length; lia). rewrite mdotc_zero_rows. ring. Qed.
Lemma padrows_wf k c (Z : mat) : wfM F c Z -> wfM F c (padrows k c Z).
Proof. intros W. unfold padrows, wfM. apply Forall_app. split; auto. apply Forall_forall. intros r Hr.
  apply repeat_spec in Hr; subst. apply zeros_length. Qed.
Lemma padrows_length k c (Z : mat) : (length Z <= k)%nat -> length (padrows k c Z) = k.
Proof. intros. unfold padrows. rewrite app_length, repeat_length. lia. Qed.
Lemma firstn_wf c m (A : mat) : wfM F c A -> wfM F c (firstn m A).
Proof. apply DFTEngines.wfM_firstn. Qed.

Variables (N K P Q nfmax : nat).
Variables (fi gi fo go : vec -> vec).       (* Fop / Fop^H and F1op / F1op^H on one time fibre *)
Variables (m mH : mat -> mat).              (* Frop / Frop^H on the (nfmax x P) / (nfmax x Q) row matrices *)
Hypothesis Hi : MixedAdj N K fi gi.
Hypothesis Ho : MixedAdj N K fo go.
Hypothesis Lfi : Len N K fi. Hypothesis Lgi : Len K N gi.
Hypothesis Lfo : Len N K fo. Hypothesis Lgo : Len K N go.
Hypothesis Hm : forall A B, wfM F P A -> length A = nfmax -> wfM F Q B -> length B = nfmax ->
  mdotc (m A) B = mdotc A (mH B).
Hypothesis Wm : forall A, wfM F P A -> length A = nfmax -> wfM F Q (m A) /\ length (m A) = nfmax.
Hypothesis WmH : forall B, wfM F Q B -> length B = nfmax -> wfM F P (mH B) /\ length (mH B) = nfmax.
Hypothesis nf_le : (nfmax <= K)%nat.

Definition chain_fwd (x : vec) : vec :=
  concat (colsL go Q N (padrows K Q (m (firstn nfmax (colsL fi P K (chunks F P N x)))))).
Definition chain_adj (z : vec) : vec :=
  concat (colsL gi P N (padrows K P (mH (firstn nfmax (colsL fo Q K (chunks F Q N z)))))).

Theorem chain_adjoint x z : vconj F x = x -> vconj F z = z -> length x = (N * P)%nat -> length z = (N * Q)%nat ->
  dotu F (chain_fwd x) z = dotu F x (chain_adj z).
Proof. intros Rx Rz Lx Lz. unfold chain_fwd, chain_adj.
  set (X := chunks F P N x). set (Zt := chunks F Q N z).
  assert (WX : wfM F P X) by (apply chunks_wf; lia). assert (LX : length X = N) by apply chunks_length.
  assert (WZ : wfM F Q Zt) by (apply chunks_wf; lia). assert (LZ : length Zt = N) by apply chunks_length.
  assert (RX : mconj F X = X) by (apply real_chunks; auto).
  assert (RZ : mconj F Zt = Zt) by (apply real_chunks; auto).
  destruct (wfM_colsL F fi P K X WX) as [WY LY]; [intros; apply Lfi; lia|].
  destruct (wfM_colsL F fo Q K Zt WZ) as [WW LW]; [intros; apply Lfo; lia|].
  set (Yh := colsL fi P K X) in *. set (W := colsL fo Q K Zt) in *.
  assert (WYc : wfM F P (firstn nfmax Yh)) by (apply firstn_wf; auto).
  assert (LYc : length (firstn nfmax Yh) = nfmax) by (rewrite firstn_length; lia).
  assert (WWc : wfM F Q (firstn nfmax W)) by (apply firstn_wf; auto).
  assert (LWc : length (firstn nfmax W) = nfmax) by (rewrite firstn_length; lia).
  destruct (Wm _ WYc LYc) as [WZ1 LZ1]. destruct (WmH _ WWc LWc) as [WV LV].
  set (Z1 := m (firstn nfmax Yh)) in *. set (V := mH (firstn nfmax W)) in *.
  assert (WZp : wfM F Q (padrows K Q Z1)) by (apply padrows_wf; auto).
  assert (LZp : length (padrows K Q Z1) = K) by (apply padrows_length; lia).
  assert (WVp : wfM F P (padrows K P V)) by (apply padrows_wf; auto).
  assert (LVp : length (padrows K P V) = K) by (apply padrows_length; lia).
  destruct (wfM_colsL F go Q N (padrows K Q Z1) WZp) as [WO LO]; [intros; apply Lgo; lia|].
  destruct (wfM_colsL F gi P N (padrows K P V) WVp) as [WI LI]; [intros; apply Lgi; lia|].
  (* left: flat pairing -> rows *)
  rewrite <- (concat_chunks F Q N z) at 1 by lia. fold Zt.
  rewrite (dotu_concat F Q) by (auto; lia).
  rewrite mdot_comm, <- (cols_mixed_adjoint N K Q fo go Zt _ Ho Lfo Lgo RZ WZ LZ WZp LZp). fold W.
  rewrite (trunc_pad_adjoint K Q nfmax W Z1) by (auto; lia).
  rewrite <- re2_conj, mdotc_conj_sym. unfold Z1. rewrite Hm by auto. fold V.
  rewrite <- (trunc_pad_adjoint K P nfmax Yh V) by (auto; lia).
  unfold Yh. rewrite (cols_mixed_adjoint N K P fi gi X _ Hi Lfi Lgi RX WX LX WVp LVp).
  rewrite <- (dotu_concat F P) by (auto; lia). unfold X. rewrite (concat_chunks F P N x) by lia. reflexivity. Qed.
End Chain.

(* ------------------------------------------------------------------ the 1-D real FFT pair is a mixed adjoint pair *)
Section RFFT1.
Variable F : FieldS.
Add Field FMdc2 : (fth F).
Notation vec := (list F).
Notation cj := (conj F).
Notation half := (1 / (1 + 1)).
Variable w : F.
Variable N : nat.
Variables s2 sq : F.
Hypothesis s2_sq : s2 * s2 = 1 + 1.
Hypothesis s2_real : cj s2 = s2.
Hypothesis two_nz : (1 + 1 : F) <> 0.
Hypothesis N_nz : of_nat F N <> 0.
Hypothesis sq_real : cj sq = sq.
Notation K := (N / 2 + 1)%nat.

(* FFT(..., real=True, ifftshift_before=tw) with the default norm='ortho', nfft = nt = N *)
Definition cfgF (tw : bool) : fcfg := {| c_norm := Ortho; c_n := N; c_sb := tw; c_sa := false |}.
Definition F1d (tw : bool) : vec -> vec := rfwd_np F w N s2 sq (cfgF tw).
Definition F1dH (tw : bool) : vec -> vec := radj_np F w N s2 sq (cfgF tw).

Lemma F1d_eq tw x : length x = N ->
  F1d tw x = vscale F sq (rfwd F w N s2 (if tw then ifftshift F x else x)).
Proof. intros L. unfold F1d. rewrite rfwd_np_nf. unfold fscale, rcore_fwd, cfgF; simpl.
  rewrite firstn_all2; auto. destruct tw; rewrite ?(ifftshift_length F); lia. Qed.
Lemma radj_length n y : length (radj F w N s2 n y) = n.
Proof. unfold radj, lib_c2r. apply tab_length. Qed.
Lemma fit_id n (z : vec) : length z = n -> fit F n z = z.
Proof. intros L. unfold fit. rewrite firstn_all2 by lia. rewrite L, Nat.sub_diag. simpl. apply app_nil_r. Qed.
Lemma F1dH_eq tw y : F1dH tw y = vscale F sq (if tw then fftshift F (radj F w N s2 N y) else radj F w N s2 N y).
Proof. unfold F1dH. rewrite radj_np_nf by auto. unfold fscale, rcore_adj, cfgF; simpl.
  rewrite fit_id by apply radj_length. reflexivity. Qed.
Lemma F1d_len tw : Len F N K (F1d tw).
Proof. intros x L. rewrite F1d_eq by auto. rewrite vscale_length. unfold rfwd. apply tab_length. Qed.
Lemma F1dH_len tw : Len F K N (F1dH tw).
Proof. intros y L. rewrite F1dH_eq, vscale_length. destruct tw; rewrite ?(fftshift_length F); apply radj_length. Qed.
Lemma real_nth (x : vec) j : vconj F x = x -> cj (nth j x 0) = nth j x 0.
Proof. intros H. rewrite <- H at 2. unfold vconj. rewrite <- (conj_zero F) at 2. symmetry. apply map_nth. Qed.
Lemma half_re2_scale a b : cj a = a -> half * re2 F (a * b) = a * (half * re2 F b).
Proof. intros H. unfold re2. rewrite conj_mul, H. field. exact two_nz. Qed.

Theorem rfft1_mixed_adjoint tw : MixedAdj F N K (F1d tw) (F1dH tw).
Proof. intros x y Rx Lx Ly. rewrite F1d_eq, F1dH_eq by auto.
  rewrite dot_vscale_l, sq_real, half_re2_scale by auto. rewrite dotu_vscale_r. f_equal.
  set (x1 := if tw then ifftshift F x else x).
  assert (R1 : vconj F x1 = x1) by (unfold x1; destruct tw; auto using vconj_ifftshift).
  assert (L1 : length x1 = N) by (unfold x1; destruct tw; rewrite ?(ifftshift_length F); auto).
  rewrite (rfft_adjoint F w N s2 s2_sq s2_real two_nz x1 y) by (auto; intros; apply real_nth; auto).
  rewrite L1. unfold x1. destruct tw; auto.
  rewrite (dotu_real_dot F _ _ R1). unfold x1.
  rewrite (ifftshift_adjoint F) by (rewrite radj_length; auto).
  symmetry. apply dotu_real_dot; auto. Qed.
End RFFT1.

(* ------------------------------------------------------------------ MDC *)
Section MDC.
Variable F : FieldS.
Add Field FMdc3 : (fth F).
Notation vec := (list F).
Notation mat := (list (list F)).
Notation ten := (list (list (list F))).
Notation cj := (conj F).
Variable w : F.
Variable N : nat.                       (* nt = nfft *)
Variables s2 sq : F.
Hypothesis s2_sq : s2 * s2 = 1 + 1.
Hypothesis s2_real : cj s2 = s2.
Hypothesis two_nz : (1 + 1 : F) <> 0.
Hypothesis N_nz : of_nat F N <> 0.
Hypothesis sq_real : cj sq = sq.
Notation K := (N / 2 + 1)%nat.
Variables (ns nr nv nfmax : nat).
Notation P := (nr * nv)%nat.
Notation Q := (ns * nv)%nat.

(* kernel actually given to Fredholm1: scaling unless prescaled, conjugated when conj=True *)
Definition tscaleG (a : F) (G : ten) : ten := map (map (vscale F a)) G.
Definition tconj (G : ten) : ten := map (mconj F) G.
Definition kernel (scal : F) (prescaled conjflag : bool) (G : ten) : ten :=
  let G1 := if prescaled then G else tscaleG scal G in if conjflag then tconj G1 else G1.

(* Fredholm1 on the row matrix (one row = one frequency slice, flattened) *)
Definition unrows (r c : nat) (Y : mat) : ten := map (chunks F c r) Y.
Definition rows (T : ten) : mat := map (@concat F) T.
Definition fr_rows (fr : ten -> ten) (r c : nat) (Y : mat) : mat := rows (fr (unrows r c Y)).

(* the four (usematmul, saveGt) variants of the operator *)
Definition frF (usematmul : bool) (G : ten) : ten -> ten :=
  if usematmul then fr_fwd_matmul F nv G else fr_fwd_loop F ns nv G.
Definition frH (usematmul saveGt : bool) (G : ten) : ten -> ten :=
  match usematmul, saveGt with
  | true, true => fr_adj_saved_matmul F nr nv G | true, false => fr_adj_fly_matmul F nr nv G
  | false, true => fr_adj_saved_loop F nr nv G | false, false => fr_adj_fly_loop F nr nv G end.

Definition mdc_fwd (tw um : bool) (Gk : ten) : vec -> vec :=
  chain_fwd F N K P Q nfmax (F1d F w N s2 sq tw) (F1dH F w N s2 sq false) (fr_rows (frF um Gk) nr nv).
Definition mdc_adj (tw um sg : bool) (Gk : ten) : vec -> vec :=
  chain_adj F N K P Q nfmax (F1dH F w N s2 sq tw) (F1d F w N s2 sq false) (fr_rows (frH um sg Gk) ns nv).

(* shape bookkeeping *)
Lemma unrows_wfT r c (Y : mat) : wfM F (r * c) Y -> wfT F r c (unrows r c Y).
Proof. intros W. unfold unrows, wfT. apply Forall_map. eapply Forall_impl; [|exact W]. intros y Hy. simpl in *. split.
  - apply chunks_length.
  - apply chunks_wf. lia. Qed.
Lemma rows_unrows r c (Y : mat) : wfM F (r * c) Y -> rows (unrows r c Y) = Y.
Proof. intros W. unfold rows, unrows. rewrite map_map. rewrite <- (map_id Y) at 2. apply map_ext_in. intros y Hy.
  apply concat_chunks. rewrite (proj1 (Forall_forall _ _) W y Hy). lia. Qed.
Lemma rows_wf r c (T : ten) : wfT F r c T -> wfM F (r * c) (rows T).
Proof. intros W. unfold rows, wfM. apply Forall_map. eapply Forall_impl; [|exact W]. intros M [L WM]. simpl.
  apply wf_concat_length; auto. Qed.
Lemma mdotc_rows r c (A B : ten) : length A = length B -> wfT F r c A -> wfT F r c B ->
  mdotc F (rows A) (rows B) = tdot F A B.
Proof. intros L WA; revert B L; induction WA as [|a A [La Wa] WA IH]; intros [|b B] L WB; simpl in *; try discriminate; auto.
  inversion WB as [|? ? [Lb Wb] WB']; subst. unfold rows in *. cbn [map]. rewrite mdotc_cons, IH by (auto; lia).
  rewrite (mdotc_flat F c) by (auto; lia). reflexivity. Qed.
Lemma map2_mm_wfT nx ny nz (G X : ten) : length X = length G -> wfT F nx ny G -> wfT F ny nz X ->
  wfT F nx nz (fr_fwd_matmul F nz G X) /\ length (fr_fwd_matmul F nz G X) = length G.
Proof. intros L WG; revert X L; induction WG as [|g G [Lg Wg] WG IH]; intros [|x X] L WX; simpl in *; try discriminate.
  - split; [constructor | reflexivity].
  - inversion WX as [|? ? [Lx Wx] WX']; subst. destruct (IH X) as [W1 L1]; auto. unfold fr_fwd_matmul in *. cbn [map2]. split.
    + constructor; auto. split; [apply mm_length | apply mm_wf; auto].
    + simpl. rewrite L1; auto. Qed.
Lemma ctr_wfT nx ny (G : ten) : wfT F nx ny G -> wfT F ny nx (map (ctranspose F ny) G).
Proof. intros W. unfold wfT in *. apply Forall_map. eapply Forall_impl; [|exact W]. intros g [L Wg]. simpl. split.
  - apply ctranspose_length; auto.
  - rewrite <- L. apply wfM_ctranspose; auto. Qed.

(* ADJOINT PAIR, all sizes, every flag combination of the matmul/saved path *)
Theorem mdc_adjoint tw (Gk : ten) x z : wfT F ns nr Gk -> length Gk = nfmax -> (nfmax <= K)%nat ->
  vconj F x = x -> vconj F z = z -> length x = (N * P)%nat -> length z = (N * Q)%nat ->
  dotu F (mdc_fwd tw true Gk x) z = dotu F x (mdc_adj tw true true Gk z).
Proof. intros WG LG Lnf Rx Rz Lx Lz. unfold mdc_fwd, mdc_adj, frF, frH.
  apply (chain_adjoint F two_nz N K P Q nfmax); auto.
  - apply (rfft1_mixed_adjoint F w N s2 sq s2_sq s2_real two_nz N_nz sq_real).
  - apply (rfft1_mixed_adjoint F w N s2 sq s2_sq s2_real two_nz N_nz sq_real).
  - apply F1d_len; auto. - apply F1dH_len; auto. - apply F1d_len; auto. - apply F1dH_len; auto.
  - intros A B WA LA WB LB. unfold fr_rows.
    assert (TA := unrows_wfT nr nv A WA). assert (TB := unrows_wfT ns nv B WB).
    assert (LuA : length (unrows nr nv A) = length Gk) by (unfold unrows; rewrite map_length; lia).
    assert (LuB : length (unrows ns nv B) = length Gk) by (unfold unrows; rewrite map_length; lia).
    destruct (map2_mm_wfT ns nr nv Gk _ LuA WG TA) as [W1 L1].
    destruct (map2_mm_wfT nr ns nv (map (ctranspose F nr) Gk) (unrows ns nv B)) as [W2 L2];
      [rewrite map_length; auto | apply ctr_wfT; auto | auto |].
    rewrite <- (rows_unrows ns nv B WB) at 1. rewrite (mdotc_rows ns nv) by (auto; lia).
    rewrite (fredholm_adjoint F ns nr nv) by auto.
    rewrite <- (rows_unrows nr nv A WA) at 2. symmetry. apply (mdotc_rows nr nv); auto.
    rewrite fr_adj_is_fwd, L2, map_length. lia.
  - intros A WA LA. unfold fr_rows.
    assert (LuA : length (unrows nr nv A) = length Gk) by (unfold unrows; rewrite map_length; lia).
    destruct (map2_mm_wfT ns nr nv Gk _ LuA WG (unrows_wfT nr nv A WA)) as [W1 L1]. split.
    + apply rows_wf; auto. + unfold rows. rewrite map_length, L1; auto.
  - intros B WB LB. unfold fr_rows.
    destruct (map2_mm_wfT nr ns nv (map (ctranspose F nr) Gk) (unrows ns nv B)) as [W2 L2];
      [unfold unrows; rewrite !map_length; lia | apply ctr_wfT; auto | apply unrows_wfT; auto |]. split.
    + apply rows_wf; auto. + unfold rows. rewrite map_length, fr_adj_is_fwd, L2, map_length; auto. Qed.

(* usematmul / saveGt variants are EQUAL maps *)
Theorem mdc_fwd_variants tw (Gk : ten) x : length Gk = nfmax -> (nfmax <= K)%nat -> length x = (N * P)%nat ->
  mdc_fwd tw false Gk x = mdc_fwd tw true Gk x.
Proof. intros LG Lnf Lx. unfold mdc_fwd, chain_fwd, fr_rows, frF. do 4 f_equal.
  apply fr_fwd_paths_equal. unfold unrows. rewrite map_length, firstn_length.
  destruct (wfM_colsL F (F1d F w N s2 sq tw) P K (chunks F P N x)) as [_ L]; [apply chunks_wf; lia | |rewrite L; lia].
  intros y Hy. apply F1d_len; auto. rewrite Hy. apply chunks_length. Qed.
Theorem mdc_adj_variants tw um sg (Gk : ten) z : wfT F ns nr Gk -> length Gk = nfmax -> (nfmax <= K)%nat -> length z = (N * Q)%nat ->
  mdc_adj tw um sg Gk z = mdc_adj tw true true Gk z.
Proof. intros WG LG Lnf Lz. unfold mdc_adj, chain_adj, fr_rows. do 4 f_equal.
  set (Wc := firstn nfmax (colsL F (F1d F w N s2 sq false) Q K (chunks F Q N z))).
  destruct (wfM_colsL F (F1d F w N s2 sq false) Q K (chunks F Q N z)) as [WW LW]; [apply chunks_wf; lia | |].
  { intros y Hy. apply F1d_len; auto. rewrite Hy. apply chunks_length. }
  assert (WWc : wfM F Q Wc) by (apply firstn_wf; auto).
  assert (LWc : length (unrows ns nv Wc) = length Gk) by (unfold unrows, Wc; rewrite map_length, firstn_length; lia).
  destruct (fr_adj_paths_equal F ns nr nv Gk (unrows ns nv Wc) LWc WG (unrows_wfT ns nv Wc WWc)) as [E1 [E2 E3]].
  unfold frH. destruct um, sg; auto. Qed.

(* conj=True: Frop.conj() = conj . Frop . conj is Fredholm1 with the conjugated kernel *)
Lemma mconj_mm p (A B : mat) : wfM F p B -> mconj F (mm F p A B) = mm F p (mconj F A) (mconj F B).
Proof. intros W. unfold mm. rewrite (mconj_map F), (map_mconj F). apply map_ext. intros a. apply vconj_mvT; auto. Qed.
Theorem fr_conj_kernel ny (G X : ten) : wfT F ny nv X ->
  tconj (fr_fwd_matmul F nv G (tconj X)) = fr_fwd_matmul F nv (tconj G) X.
Proof. intros WX; revert G; induction WX as [|x X [Lx Wx] WX IH]; intros [|g G]; simpl; auto.
  unfold fr_fwd_matmul, tconj in *. cbn [map map2]. rewrite mconj_mm by (apply wfM_mconj; auto).
  rewrite mconj_invol. f_equal. apply IH. Qed.
End MDC.
