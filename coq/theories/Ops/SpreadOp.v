(* SpreadOp.v — pylops.Spread (basicoperators/spread.py, _spread_numba.py):
   code-shaped models of the numpy engine (_matvec_numpy / _rmatvec_numpy:
   loops `for it: for ix0:`, NaN mask, buffered fancy-index `+=`, adjoint
   ASSIGNS np.sum(...)) and of the numba kernels (_matvec_numba_* /
   _rmatvec_numba_*: loops `for ix0: for it: for i, indexfloat in
   enumerate(indices)`, scalar `+=`), with and without linear interpolation.

   The index map is a FUNCTION  T ix0 it ix : option nat  (None = NaN) and the
   interpolation weights a function  D ix0 it ix : R ; the look-up-table
   variant instantiates them with [tabT tbl] / [tabD dtbl] (table[ix0, it, ix]),
   the on-the-fly variant with [fhT fh] / [fhD fh] (fh(ix0, it)[ix]) — so all
   four kernels and both numpy paths are covered by one pair of models per
   engine.  2-D arrays are lists of rows; `x.reshape(dims)` of a flat input
   is the C-order VIEW [flat_get nt0 u i j = u[i*nt0 + j]], `.ravel()` of
   the result is [concat].

   Out-of-range indices (not claimed): numpy raises IndexError, numba
   reads/writes out of bounds.  The model drops such writes; through
   [flat_get] an out-of-range READ aliases into the next row like the numba
   kernel does.  The adjoint-pair theorem therefore carries the
   well-formedness hypothesis [wf_tab] (entries < nt, or < nt-1 with
   interpolation: the documented contract of the class); engine equality,
   linearity and the formula theorems hold for EVERY table.

   Theorems (all sizes, every T and D):
     spread_numpy_fwd_spec, spread_numba_fwd_spec   model = scatter formula
     spread_numpy_adj_spec, spread_numba_adj_spec   model = gather formula
     spread_engines_fwd, spread_engines_adj         numpy model = numba model
     spread_fwd_entry(_nointerp/_interp)            documented entry formulas
     spread_adjoint_pair (numpy, numba)             dotu (A u) v = dotu u (A' v)
     spread_matvec_linear, spread_rmatvec_linear    linearity
     wf_tabb_sound                                  boolean wf checker is sound
     spread_adjoint_pair_dot                        <A u, v> = <u, A' v> over a star ring, real weights *)
From PV Require Export Mat.
Local Open Scope R_scope.

Section SpreadOp.
Variable R : CRing.
Add Ring RrSp : (rth R).
Notation vec := (list R).
Notation arr := (list (list R)).

(* ------------------------------------------------------------------ sums *)
Fixpoint sumf {A} (l : list A) (f : A -> R) : R :=
  match l with [] => 0 | a :: l' => f a + sumf l' f end.

Lemma sumf_ext {A} (l : list A) f g : (forall a, In a l -> f a = g a) -> sumf l f = sumf l g.
Proof. induction l as [|a l IH]; intros H; simpl; auto. rewrite H by (left; auto). rewrite IH; auto. intros; apply H; right; auto. Qed.
Lemma sumf_zero {A} (l : list A) : sumf l (fun _ => 0) = 0.
Proof. induction l; simpl; auto. rewrite IHl; ring. Qed.
Lemma sumf_add {A} (l : list A) f g : sumf l (fun a => f a + g a) = sumf l f + sumf l g.
Proof. induction l; simpl; [ring | rewrite IHl; ring]. Qed.
Lemma sumf_mul_l {A} c (l : list A) f : sumf l (fun a => c * f a) = c * sumf l f.
Proof. induction l; simpl; [ring | rewrite IHl; ring]. Qed.
Lemma sumf_mul_r {A} c (l : list A) f : sumf l (fun a => f a * c) = sumf l f * c.
Proof. induction l; simpl; [ring | rewrite IHl; ring]. Qed.
Lemma sumf_swap {A B} (la : list A) (lb : list B) (F : A -> B -> R) :
  sumf la (fun a => sumf lb (fun b => F a b)) = sumf lb (fun b => sumf la (fun a => F a b)).
Proof. induction la as [|a la IH]; simpl.
  - symmetry; apply sumf_zero.
  - rewrite IH, <- sumf_add; auto. Qed.
Lemma sumf_swap4 {A B C E} (la : list A) (lb : list B) (lc : list C) (le : list E) (F : A -> B -> C -> E -> R) :
  sumf la (fun a => sumf lb (fun b => sumf lc (fun c => sumf le (fun e => F a b c e)))) =
  sumf lc (fun c => sumf le (fun e => sumf la (fun a => sumf lb (fun b => F a b c e)))).
Proof.
  transitivity (sumf la (fun a => sumf lc (fun c => sumf lb (fun b => sumf le (fun e => F a b c e))))).
  { apply sumf_ext; intros a _. apply (sumf_swap lb lc (fun b c => sumf le (fun e => F a b c e))). }
  rewrite (sumf_swap la lc (fun a c => sumf lb (fun b => sumf le (fun e => F a b c e)))).
  apply sumf_ext; intros c _.
  transitivity (sumf la (fun a => sumf le (fun e => sumf lb (fun b => F a b c e)))).
  { apply sumf_ext; intros a _. apply (sumf_swap lb le (fun b e => F a b c e)). }
  apply (sumf_swap la le (fun a e => sumf lb (fun b => F a b c e))).
Qed.
Lemma sumf_filter {A} (p : A -> bool) (l : list A) f :
  sumf (filter p l) f = sumf l (fun a => if p a then f a else 0).
Proof. induction l as [|a l IH]; simpl; auto. destruct (p a); simpl; rewrite IH; ring. Qed.
Lemma sumf_if_const {A} (c : bool) (l : list A) f :
  sumf l (fun a => if c then f a else 0) = if c then sumf l f else 0.
Proof. destruct c; auto. apply sumf_zero. Qed.
Lemma sumf_delta_gen s n k (g : nat -> R) :
  sumf (seq s n) (fun i => if Nat.eqb i k then g i else 0) =
  if (Nat.leb s k && Nat.ltb k (s + n))%bool then g k else 0.
Proof. revert s; induction n as [|n IH]; intros s; cbn [seq sumf].
  - destruct (Nat.leb_spec s k); cbn [andb]; auto. destruct (Nat.ltb_spec k (s + 0)); auto; lia.
  - rewrite IH. replace (S s + n)%nat with (s + S n)%nat by lia.
    destruct (Nat.eqb_spec s k) as [->|N].
    + rewrite Nat.leb_refl. cbn [andb]. destruct (Nat.leb_spec (S k) k); try lia. cbn [andb].
      destruct (Nat.ltb_spec k (k + S n)); try lia. ring.
    + destruct (Nat.leb_spec (S s) k), (Nat.leb_spec s k); try lia; cbn [andb]; try ring;
      destruct (Nat.ltb k (s + S n)); ring. Qed.
Lemma sumf_delta n k (g : nat -> R) : k < n ->
  sumf (seq 0 n) (fun i => if Nat.eqb i k then g i else 0) = g k.
Proof. intros H. rewrite sumf_delta_gen. simpl. destruct (Nat.ltb_spec k n); auto; lia. Qed.
Lemma sumf_delta_out n k (g : nat -> R) : (n <= k)%nat ->
  sumf (seq 0 n) (fun i => if Nat.eqb i k then g i else 0) = 0.
Proof. intros H. rewrite sumf_delta_gen. simpl. destruct (Nat.ltb_spec k n); auto; lia. Qed.
Lemma dotu_map {A} (l : list A) (f g : A -> R) : dotu R (map f l) (map g l) = sumf l (fun a => f a * g a).
Proof. induction l; simpl; auto. rewrite IHl; auto. Qed.

(* ------------------------------------------------------------- 2-D arrays *)
Definition get (a : arr) (i j : nat) : R := nth j (nth i a []) 0.
Fixpoint upd {A} (l : list A) (k : nat) (f : A -> A) : list A :=
  match l, k with
  | [], _ => []
  | a :: l', O => f a :: l'
  | a :: l', S k' => a :: upd l' k' f
  end.
(* y[i, j] += v   and   y[i, j] = v   (no effect when (i, j) is outside y) *)
Definition add_at (i j : nat) (v : R) (a : arr) : arr := upd a i (fun r => upd r j (fun c => c + v)).
Definition set_at (i j : nat) (v : R) (a : arr) : arr := upd a i (fun r => upd r j (fun _ => v)).
Definition tab (n m : nat) (f : nat -> nat -> R) : arr :=
  map (fun i => map (fun j => f i j) (seq 0 m)) (seq 0 n).
Definition zeros2 (n m : nat) : arr := repeat (zeros R m) n.      (* np.zeros((n, m)) *)
Definition wf2 (n m : nat) (a : arr) : Prop := length a = n /\ Forall (fun r => length r = m) a.
(* C-order view of a flat vector as an (_, m) array, and back *)
Definition flat_get (m : nat) (u : vec) (i j : nat) : R := nth (i * m + j) u 0.

Lemma map_const_seq {A} (c : A) s n : map (fun _ => c) (seq s n) = repeat c n.
Proof. revert s; induction n; intros; simpl; auto. rewrite IHn; auto. Qed.
Lemma zeros2_tab n m : zeros2 n m = tab n m (fun _ _ => 0).
Proof. unfold zeros2, tab, zeros. rewrite (map_const_seq (A:=R)). rewrite map_const_seq; auto. Qed.

Lemma upd_map_seq {A} (g : nat -> A) (h : A -> A) s n k :
  upd (map g (seq s n)) k h = map (fun i => if Nat.eqb i (s + k) then h (g i) else g i) (seq s n).
Proof. revert s k; induction n as [|n IH]; intros s k; simpl; auto. destruct k as [|k].
  - rewrite Nat.add_0_r, Nat.eqb_refl. f_equal. apply map_ext_in; intros i Hi. apply in_seq in Hi.
    destruct (Nat.eqb_spec i s); auto; lia.
  - destruct (Nat.eqb_spec s (s + S k)); try lia. f_equal. rewrite IH. apply map_ext; intros i.
    replace (S s + k)%nat with (s + S k)%nat by lia. auto. Qed.
Lemma upd2_tab n m f i j (h : R -> R) :
  upd (tab n m f) i (fun r => upd r j h) =
  tab n m (fun i' j' => if (Nat.eqb i' i && Nat.eqb j' j)%bool then h (f i' j') else f i' j').
Proof. unfold tab. rewrite upd_map_seq. apply map_ext; intros i'. simpl.
  destruct (Nat.eqb i' i); simpl; auto. rewrite upd_map_seq. apply map_ext; intros j'. simpl. auto. Qed.
Lemma add_at_tab n m f i j v :
  add_at i j v (tab n m f) = tab n m (fun i' j' => if (Nat.eqb i' i && Nat.eqb j' j)%bool then f i' j' + v else f i' j').
Proof. apply upd2_tab. Qed.
Lemma set_at_tab n m f i j v :
  set_at i j v (tab n m f) = tab n m (fun i' j' => if (Nat.eqb i' i && Nat.eqb j' j)%bool then v else f i' j').
Proof. apply upd2_tab. Qed.
Lemma tab_ext n m f g : (forall i j, i < n -> j < m -> f i j = g i j) -> tab n m f = tab n m g.
Proof. intros H; unfold tab. apply map_ext_in; intros i Hi. apply map_ext_in; intros j Hj.
  apply in_seq in Hi; apply in_seq in Hj. apply H; lia. Qed.
Lemma nth_map_seq {A} (g : nat -> A) s n k d : k < n -> nth k (map g (seq s n)) d = g (s + k)%nat.
Proof. intros H. rewrite (nth_indep _ d (g 0%nat)) by (rewrite map_length, seq_length; auto).
  rewrite map_nth, seq_nth; auto. Qed.
Lemma get_tab n m f i j : i < n -> j < m -> get (tab n m f) i j = f i j.
Proof. intros Hi Hj. unfold get, tab. rewrite nth_map_seq by auto. rewrite nth_map_seq by auto. auto. Qed.
Lemma tab_length n m f : length (tab n m f) = n.
Proof. unfold tab; rewrite map_length, seq_length; auto. Qed.
Lemma tab_wf2 n m f : wf2 n m (tab n m f).
Proof. split; [apply tab_length|]. unfold tab. apply Forall_forall; intros r Hr. apply in_map_iff in Hr.
  destruct Hr as [i [<- _]]. rewrite map_length, seq_length; auto. Qed.
Lemma tab_get n m a : wf2 n m a -> tab n m (get a) = a.
Proof. intros [L F]. apply nth_ext with (d := []) (d' := []).
  - rewrite tab_length; auto.
  - rewrite tab_length. intros i Hi. unfold tab. rewrite nth_map_seq by auto. simpl.
    assert (Hr : length (nth i a []) = m).
    { eapply Forall_forall in F; [exact F|]. apply nth_In; lia. }
    apply nth_ext with (d := 0) (d' := 0).
    + rewrite map_length, seq_length; auto.
    + rewrite map_length, seq_length. intros j Hj. rewrite nth_map_seq by auto. reflexivity. Qed.
Lemma concat_rows_length {A} (l : list A) m (g : A -> nat -> R) :
  length (concat (map (fun i => map (g i) (seq 0 m)) l)) = (length l * m)%nat.
Proof. induction l; simpl; auto. rewrite app_length, map_length, seq_length, IHl; auto. Qed.
Lemma concat_tab_length n m f : length (concat (tab n m f)) = (n * m)%nat.
Proof. unfold tab. rewrite concat_rows_length, seq_length; auto. Qed.
(* ------------------------------------------ state transformers on tab n m *)
(* [adds n m F h]: on every (n x m) array F adds h entrywise. *)
Definition adds (n m : nat) (F : arr -> arr) (h : nat -> nat -> R) : Prop :=
  forall f, F (tab n m f) = tab n m (fun i j => f i j + h i j).

Lemma adds_id n m : adds n m (fun y => y) (fun _ _ => 0).
Proof. intros f. apply tab_ext; intros; ring. Qed.
Lemma adds_add_at n m i j v :
  adds n m (add_at i j v) (fun i' j' => if (Nat.eqb i' i && Nat.eqb j' j)%bool then v else 0).
Proof. intros f. rewrite add_at_tab. apply tab_ext; intros i' j' _ _.
  destruct (Nat.eqb i' i && Nat.eqb j' j)%bool; ring. Qed.
Lemma adds_comp n m F G h1 h2 : adds n m F h1 -> adds n m G h2 ->
  adds n m (fun y => G (F y)) (fun i j => h1 i j + h2 i j).
Proof. intros HF HG f. rewrite HF, HG. apply tab_ext; intros; ring. Qed.
Lemma adds_ext n m F h h' : (forall i j, i < n -> j < m -> h i j = h' i j) -> adds n m F h -> adds n m F h'.
Proof. intros E H f. rewrite H. apply tab_ext; intros. rewrite E; auto. Qed.
Lemma adds_fold {A} n m (l : list A) (F : A -> arr -> arr) (h : A -> nat -> nat -> R) :
  (forall a, In a l -> adds n m (F a) (h a)) ->
  adds n m (fun y => fold_left (fun y a => F a y) l y) (fun i j => sumf l (fun a => h a i j)).
Proof. induction l as [|a l IH]; intros H f; simpl.
  - apply tab_ext; intros; ring.
  - rewrite (H a) by (left; auto). rewrite IH by (intros; apply H; right; auto).
    apply tab_ext; intros; ring. Qed.

(* numpy  y[rows, colf(rows)] += valf(rows)  with index ARRAYS: buffered —
   all right-hand sides are read from the old y, then all are stored. *)
Definition fancy_iadd (y : arr) (rows : list nat) (colf : nat -> nat) (valf : nat -> R) : arr :=
  let tmp := map (fun ix => get y ix (colf ix) + valf ix) rows in
  fold_left (fun y p => set_at (fst p) (colf (fst p)) (snd p) y) (combine rows tmp) y.

Lemma fancy_aux n m colf valf f : forall rows g, NoDup rows ->
  (forall ix j, In ix rows -> g ix j = f ix j) ->
  fold_left (fun y p => set_at (fst p) (colf (fst p)) (snd p) y)
    (combine rows (map (fun ix => get (tab n m f) ix (colf ix) + valf ix) rows)) (tab n m g)
  = tab n m (fun i j => g i j + sumf rows (fun ix => if (Nat.eqb i ix && Nat.eqb j (colf ix))%bool then valf ix else 0)).
Proof.
  induction rows as [|ix rows IH]; intros g ND Hg; simpl.
  - apply tab_ext; intros; ring.
  - inversion ND; subst. rewrite set_at_tab. rewrite IH; auto.
    + apply tab_ext; intros i j Hi Hj.
      destruct (Nat.eqb_spec i ix) as [->|]; destruct (Nat.eqb_spec j (colf ix)) as [->|]; cbn [andb]; try ring.
      rewrite get_tab by auto. rewrite Hg by (left; auto). ring.
    + intros ix' j Hin. destruct (Nat.eqb_spec ix' ix) as [->|]; [contradiction|]. cbn [andb]. apply Hg; right; auto.
Qed.
Lemma fancy_iadd_adds n m rows colf valf : NoDup rows ->
  adds n m (fun y => fancy_iadd y rows colf valf)
    (fun i j => sumf rows (fun ix => if (Nat.eqb i ix && Nat.eqb j (colf ix))%bool then valf ix else 0)).
Proof. intros ND f. unfold fancy_iadd. apply fancy_aux; auto. Qed.

(* ===================================================================== *)
(* The operator.  dims = (nx0, nt0), dimsd = (nx, nt).                     *)
Variables (nx0 nt0 nx nt : nat) (interp : bool).
Variable T : nat -> nat -> nat -> option nat.       (* table[ix0, it, ix], None = NaN *)
Variable D : nat -> nat -> nat -> R.                (* dtable[ix0, it, ix] *)

Definition isSome {A} (o : option A) : bool := match o with Some _ => true | None => false end.
(* mask = np.argwhere(~np.isnan(indices));  indices[mask].astype(int) *)
Definition mask (ix0 it : nat) : list nat := filter (fun ix => isSome (T ix0 it ix)) (seq 0 nx).
Definition idx (ix0 it ix : nat) : nat := match T ix0 it ix with Some k => k | None => O end.

(* ---- numpy engine: Spread._matvec_numpy; xg is the reshaped input view *)
Definition numpy_fwd_body (xg : nat -> nat -> R) (y : arr) (it ix0 : nat) : arr :=
  let m := mask ix0 it in
  match m with
  | [] => y                                                   (* if mask.size > 0: *)
  | _ => if interp
         then let y1 := fancy_iadd y m (idx ix0 it) (fun ix => (1 - D ix0 it ix) * xg ix0 it) in
              fancy_iadd y1 m (fun ix => S (idx ix0 it ix)) (fun ix => D ix0 it ix * xg ix0 it)
         else fancy_iadd y m (idx ix0 it) (fun _ => xg ix0 it)
  end.
Definition spread_numpy_fwd (xg : nat -> nat -> R) : arr :=
  fold_left (fun y it => fold_left (fun y ix0 => numpy_fwd_body xg y it ix0) (seq 0 nx0) y)
            (seq 0 nt0) (zeros2 nx nt).

(* ---- numpy engine: Spread._rmatvec_numpy; yg is the reshaped data view.
   y[ix0, it] = np.sum(x[mask, indices]) : an ASSIGNMENT of a masked sum. *)
Definition numpy_adj_val (yg : nat -> nat -> R) (ix0 it : nat) : R :=
  let m := mask ix0 it in
  if interp
  then sumf m (fun ix => yg ix (idx ix0 it ix) * (1 - D ix0 it ix))
       + sumf m (fun ix => yg ix (S (idx ix0 it ix)) * D ix0 it ix)
  else sumf m (fun ix => yg ix (idx ix0 it ix)).
Definition numpy_adj_body (yg : nat -> nat -> R) (x : arr) (it ix0 : nat) : arr :=
  match mask ix0 it with
  | [] => x
  | _ => set_at ix0 it (numpy_adj_val yg ix0 it) x
  end.
Definition spread_numpy_adj (yg : nat -> nat -> R) : arr :=
  fold_left (fun x it => fold_left (fun x ix0 => numpy_adj_body yg x it ix0) (seq 0 nx0) x)
            (seq 0 nt0) (zeros2 nx0 nt0).

(* ---- numba kernels: _matvec_numba_table / _matvec_numba_onthefly *)
Definition numba_fwd_body (xg : nat -> nat -> R) (ix0 it : nat) (y : arr) (i : nat) : arr :=
  match T ix0 it i with
  | None => y                                                  (* if not math.isnan(indexfloat): *)
  | Some index =>
      if interp
      then add_at i (S index) (D ix0 it i * xg ix0 it) (add_at i index ((1 - D ix0 it i) * xg ix0 it) y)
      else add_at i index (xg ix0 it) y
  end.
Definition spread_numba_fwd (xg : nat -> nat -> R) : arr :=
  fold_left (fun y ix0 => fold_left (fun y it => fold_left (numba_fwd_body xg ix0 it) (seq 0 nx) y)
                                    (seq 0 nt0) y)
            (seq 0 nx0) (zeros2 nx nt).

(* ---- numba kernels: _rmatvec_numba_table / _rmatvec_numba_onthefly
   (prange over ix0: every iteration writes only row ix0 — C06) *)
Definition numba_adj_body (yg : nat -> nat -> R) (ix0 it : nat) (x : arr) (i : nat) : arr :=
  match T ix0 it i with
  | None => x
  | Some index =>
      if interp
      then add_at ix0 it (yg i index * (1 - D ix0 it i) + yg i (S index) * D ix0 it i) x
      else add_at ix0 it (yg i index) x
  end.
Definition spread_numba_adj (yg : nat -> nat -> R) : arr :=
  fold_left (fun x ix0 => fold_left (fun x it => fold_left (numba_adj_body yg ix0 it) (seq 0 nx) x)
                                    (seq 0 nt0) x)
            (seq 0 nx0) (zeros2 nx0 nt0).

(* ---- documented formulas.  coef ix0 it ix j = weight with which model
   sample (ix0, it) enters data sample (ix, j). *)
Definition coef (ix0 it ix j : nat) : R :=
  match T ix0 it ix with
  | None => 0
  | Some k => if interp
              then (if Nat.eqb j k then 1 - D ix0 it ix else 0) + (if Nat.eqb j (S k) then D ix0 it ix else 0)
              else (if Nat.eqb j k then 1 else 0)
  end.
Definition scatter_spec (xg : nat -> nat -> R) : arr :=
  tab nx nt (fun ix j => sumf (seq 0 nx0) (fun ix0 => sumf (seq 0 nt0) (fun it => coef ix0 it ix j * xg ix0 it))).
(* m(x0, t0) = sum_x d(x, f(x0, x, t0))  (with the two-point weights) *)
Definition gterm (yg : nat -> nat -> R) (ix0 it ix : nat) : R :=
  match T ix0 it ix with
  | None => 0
  | Some k => if interp then yg ix k * (1 - D ix0 it ix) + yg ix (S k) * D ix0 it ix else yg ix k
  end.
Definition gather_spec (yg : nat -> nat -> R) : arr :=
  tab nx0 nt0 (fun ix0 it => sumf (seq 0 nx) (fun ix => gterm yg ix0 it ix)).

(* ------------------------------------------------------- forward = spec *)
Lemma mask_NoDup ix0 it : NoDup (mask ix0 it).
Proof. apply NoDup_filter, seq_NoDup. Qed.
Lemma fancy_mask_adds ix0 it colf valf :
  adds nx nt (fun y => fancy_iadd y (mask ix0 it) colf valf)
    (fun i j => match T ix0 it i with Some _ => if Nat.eqb j (colf i) then valf i else 0 | None => 0 end).
Proof.
  eapply adds_ext; [| apply fancy_iadd_adds, mask_NoDup].
  intros i j Hi Hj. cbv beta. unfold mask. rewrite sumf_filter.
  rewrite (sumf_ext _ _ (fun ix => if Nat.eqb ix i then
       (if isSome (T ix0 it ix) then if Nat.eqb j (colf ix) then valf ix else 0 else 0) else 0)).
  - rewrite sumf_delta by auto. destruct (T ix0 it i); auto.
  - intros ix _. rewrite (Nat.eqb_sym i ix). destruct (Nat.eqb ix i); cbn [andb]; auto.
    destruct (isSome (T ix0 it ix)); auto.
Qed.
Lemma numpy_fwd_body_adds xg it ix0 :
  adds nx nt (fun y => numpy_fwd_body xg y it ix0) (fun i j => coef ix0 it i j * xg ix0 it).
Proof.
  assert (E : forall y, numpy_fwd_body xg y it ix0 =
     if interp
     then fancy_iadd (fancy_iadd y (mask ix0 it) (idx ix0 it) (fun ix => (1 - D ix0 it ix) * xg ix0 it))
            (mask ix0 it) (fun ix => S (idx ix0 it ix)) (fun ix => D ix0 it ix * xg ix0 it)
     else fancy_iadd y (mask ix0 it) (idx ix0 it) (fun _ => xg ix0 it)).
  { intros y. unfold numpy_fwd_body. destruct (mask ix0 it); auto. destruct interp; reflexivity. }
  intros f. rewrite E. revert f. change (adds nx nt (fun y => if interp
     then fancy_iadd (fancy_iadd y (mask ix0 it) (idx ix0 it) (fun ix => (1 - D ix0 it ix) * xg ix0 it))
            (mask ix0 it) (fun ix => S (idx ix0 it ix)) (fun ix => D ix0 it ix * xg ix0 it)
     else fancy_iadd y (mask ix0 it) (idx ix0 it) (fun _ => xg ix0 it)) (fun i j => coef ix0 it i j * xg ix0 it)).
  unfold coef, idx. destruct interp.
  - eapply adds_ext; [| apply (adds_comp nx nt _ _ _ _ (fancy_mask_adds ix0 it _ _) (fancy_mask_adds ix0 it _ _))].
    intros i j _ _. cbv beta. destruct (T ix0 it i) as [k|]; [|ring].
    destruct (Nat.eqb j k); destruct (Nat.eqb j (S k)); ring.
  - eapply adds_ext; [| apply fancy_mask_adds].
    intros i j _ _. cbv beta. destruct (T ix0 it i) as [k|]; [|ring]. destruct (Nat.eqb j k); ring.
Qed.
Theorem spread_numpy_fwd_spec xg : spread_numpy_fwd xg = scatter_spec xg.
Proof.
  unfold spread_numpy_fwd, scatter_spec. rewrite zeros2_tab.
  rewrite (adds_fold nx nt (seq 0 nt0)
             (fun it y => fold_left (fun y ix0 => numpy_fwd_body xg y it ix0) (seq 0 nx0) y)
             (fun it i j => sumf (seq 0 nx0) (fun ix0 => coef ix0 it i j * xg ix0 it))).
  - apply tab_ext; intros i j _ _. rewrite sumf_swap. ring.
  - intros it _. apply (adds_fold nx nt (seq 0 nx0) (fun ix0 y => numpy_fwd_body xg y it ix0)
                          (fun ix0 i j => coef ix0 it i j * xg ix0 it)).
    intros ix0 _. apply numpy_fwd_body_adds.
Qed.

Lemma numba_fwd_body_adds xg ix0 it i :
  adds nx nt (fun y => numba_fwd_body xg ix0 it y i)
    (fun i' j' => if Nat.eqb i' i then coef ix0 it i j' * xg ix0 it else 0).
Proof.
  unfold numba_fwd_body, coef. destruct (T ix0 it i) as [k|].
  - destruct interp.
    + eapply adds_ext; [| apply (adds_comp nx nt _ _ _ _ (adds_add_at nx nt i k _) (adds_add_at nx nt i (S k) _))].
      intros i' j' _ _. cbv beta. destruct (Nat.eqb i' i); cbn [andb]; [|ring].
      destruct (Nat.eqb j' k); destruct (Nat.eqb j' (S k)); ring.
    + eapply adds_ext; [| apply adds_add_at].
      intros i' j' _ _. cbv beta. destruct (Nat.eqb i' i); cbn [andb]; [|ring]. destruct (Nat.eqb j' k); ring.
  - eapply adds_ext; [| apply adds_id]. intros i' j' _ _. cbv beta. destruct (Nat.eqb i' i); ring.
Qed.
Theorem spread_numba_fwd_spec xg : spread_numba_fwd xg = scatter_spec xg.
Proof.
  unfold spread_numba_fwd, scatter_spec. rewrite zeros2_tab.
  rewrite (adds_fold nx nt (seq 0 nx0)
             (fun ix0 y => fold_left (fun y it => fold_left (numba_fwd_body xg ix0 it) (seq 0 nx) y) (seq 0 nt0) y)
             (fun ix0 i j => sumf (seq 0 nt0) (fun it => coef ix0 it i j * xg ix0 it))).
  - apply tab_ext; intros; ring.
  - intros ix0 _.
    apply (adds_fold nx nt (seq 0 nt0) (fun it y => fold_left (numba_fwd_body xg ix0 it) (seq 0 nx) y)
             (fun it i j => coef ix0 it i j * xg ix0 it)).
    intros it _.
    eapply adds_ext; [| apply (adds_fold nx nt (seq 0 nx) (fun i y => numba_fwd_body xg ix0 it y i)
             (fun i i' j' => if Nat.eqb i' i then coef ix0 it i j' * xg ix0 it else 0))].
    + intros i' j' Hi _. cbv beta.
      rewrite (sumf_ext _ _ (fun i => if Nat.eqb i i' then coef ix0 it i j' * xg ix0 it else 0)).
      * apply sumf_delta; auto.
      * intros i _. rewrite (Nat.eqb_sym i' i); auto.
    + intros i _. apply numba_fwd_body_adds.
Qed.
(* engine equivalence, forward: every table, weights, sizes and inputs *)
Theorem spread_engines_fwd xg : spread_numpy_fwd xg = spread_numba_fwd xg.
Proof. rewrite spread_numpy_fwd_spec, spread_numba_fwd_spec; auto. Qed.
(* ------------------------------------------------------- adjoint = spec *)
Lemma numpy_adj_val_gather yg ix0 it :
  numpy_adj_val yg ix0 it = sumf (seq 0 nx) (fun ix => gterm yg ix0 it ix).
Proof.
  unfold numpy_adj_val, mask, gterm, idx. destruct interp.
  - rewrite !sumf_filter, <- sumf_add. apply sumf_ext; intros ix _.
    destruct (T ix0 it ix); cbn [isSome]; ring.
  - rewrite sumf_filter. apply sumf_ext; intros ix _. destruct (T ix0 it ix); cbn [isSome]; ring.
Qed.
Lemma numpy_adj_val_empty yg ix0 it : mask ix0 it = [] -> numpy_adj_val yg ix0 it = 0.
Proof. intros E. unfold numpy_adj_val. rewrite E. destruct interp; simpl; ring. Qed.

(* [marks F S]: on a partially filled result (entries already visited hold
   their final value gv, the others 0), F fills the entries selected by S. *)
Definition marks (gv : nat -> nat -> R) (F : arr -> arr) (S : nat -> nat -> bool) : Prop :=
  forall V : nat -> nat -> bool,
    F (tab nx0 nt0 (fun i j => if V i j then gv i j else 0)) =
    tab nx0 nt0 (fun i j => if (V i j || S i j)%bool then gv i j else 0).
Lemma marks_fold {A} gv (l : list A) (F : A -> arr -> arr) (S : A -> nat -> nat -> bool) :
  (forall a, In a l -> marks gv (F a) (S a)) ->
  marks gv (fun x => fold_left (fun x a => F a x) l x) (fun i j => existsb (fun a => S a i j) l).
Proof. induction l as [|a l IH]; intros H V; simpl.
  - apply tab_ext; intros. rewrite Bool.orb_false_r; auto.
  - rewrite (H a) by (left; auto). rewrite IH by (intros; apply H; right; auto).
    apply tab_ext; intros. rewrite Bool.orb_assoc; auto. Qed.
Lemma numpy_adj_body_marks yg it ix0 :
  marks (fun i j => numpy_adj_val yg i j) (fun x => numpy_adj_body yg x it ix0)
        (fun i j => (Nat.eqb i ix0 && Nat.eqb j it)%bool).
Proof.
  intros V. unfold numpy_adj_body. destruct (mask ix0 it) eqn:E.
  - apply tab_ext; intros i j _ _.
    destruct (Nat.eqb_spec i ix0) as [->|]; destruct (Nat.eqb_spec j it) as [->|]; cbn [andb];
      rewrite ?Bool.orb_false_r; auto.
    rewrite Bool.orb_true_r. rewrite (numpy_adj_val_empty yg ix0 it E). destruct (V ix0 it); auto.
  - rewrite set_at_tab. apply tab_ext; intros i j _ _.
    destruct (Nat.eqb_spec i ix0) as [->|]; destruct (Nat.eqb_spec j it) as [->|]; cbn [andb];
      rewrite ?Bool.orb_false_r, ?Bool.orb_true_r; auto.
Qed.
Lemma existsb_eqb_seq n k : k < n -> existsb (fun a => Nat.eqb k a) (seq 0 n) = true.
Proof. intros H. apply existsb_exists. exists k; split; [apply in_seq; lia | apply Nat.eqb_refl]. Qed.
Theorem spread_numpy_adj_spec yg : spread_numpy_adj yg = gather_spec yg.
Proof.
  unfold spread_numpy_adj, gather_spec. rewrite zeros2_tab.
  pose (gv := fun i j => numpy_adj_val yg i j).
  assert (M : marks gv
     (fun x => fold_left (fun x it => fold_left (fun x ix0 => numpy_adj_body yg x it ix0) (seq 0 nx0) x) (seq 0 nt0) x)
     (fun i j => existsb (fun it => existsb (fun ix0 => (Nat.eqb i ix0 && Nat.eqb j it)%bool) (seq 0 nx0)) (seq 0 nt0))).
  { apply (marks_fold gv (seq 0 nt0)
             (fun it x => fold_left (fun x ix0 => numpy_adj_body yg x it ix0) (seq 0 nx0) x)
             (fun it i j => existsb (fun ix0 => (Nat.eqb i ix0 && Nat.eqb j it)%bool) (seq 0 nx0))).
    intros it _.
    apply (marks_fold gv (seq 0 nx0) (fun ix0 x => numpy_adj_body yg x it ix0)
             (fun ix0 i j => (Nat.eqb i ix0 && Nat.eqb j it)%bool)).
    intros ix0 _. apply numpy_adj_body_marks. }
  specialize (M (fun _ _ => false)). cbv beta in M.
  etransitivity; [exact M|]. apply tab_ext; intros i j Hi Hj. cbn [orb].
  replace (existsb (fun it => existsb (fun ix0 => (Nat.eqb i ix0 && Nat.eqb j it)%bool) (seq 0 nx0)) (seq 0 nt0)) with true.
  - unfold gv. apply numpy_adj_val_gather.
  - symmetry. apply existsb_exists. exists j; split; [apply in_seq; lia|].
    apply existsb_exists. exists i; split; [apply in_seq; lia|]. rewrite !Nat.eqb_refl; auto.
Qed.

Lemma numba_adj_body_adds yg ix0 it i :
  adds nx0 nt0 (fun x => numba_adj_body yg ix0 it x i)
    (fun a b => if (Nat.eqb a ix0 && Nat.eqb b it)%bool then gterm yg ix0 it i else 0).
Proof.
  unfold numba_adj_body, gterm. destruct (T ix0 it i) as [k|].
  - destruct interp; apply adds_add_at.
  - eapply adds_ext; [| apply adds_id]. intros a b _ _. cbv beta. destruct (Nat.eqb a ix0 && Nat.eqb b it)%bool; auto.
Qed.
Theorem spread_numba_adj_spec yg : spread_numba_adj yg = gather_spec yg.
Proof.
  unfold spread_numba_adj, gather_spec. rewrite zeros2_tab.
  rewrite (adds_fold nx0 nt0 (seq 0 nx0)
             (fun ix0 x => fold_left (fun x it => fold_left (numba_adj_body yg ix0 it) (seq 0 nx) x) (seq 0 nt0) x)
             (fun ix0 a b => if Nat.eqb a ix0 then sumf (seq 0 nx) (fun i => gterm yg ix0 b i) else 0)).
  - apply tab_ext; intros a b Ha Hb.
    rewrite (sumf_ext _ _ (fun ix0 => if Nat.eqb ix0 a then sumf (seq 0 nx) (fun i => gterm yg ix0 b i) else 0)).
    + rewrite sumf_delta by auto. ring.
    + intros ix0 _. rewrite (Nat.eqb_sym a ix0); auto.
  - intros ix0 _.
    eapply adds_ext; [| apply (adds_fold nx0 nt0 (seq 0 nt0)
             (fun it x => fold_left (numba_adj_body yg ix0 it) (seq 0 nx) x)
             (fun it a b => if (Nat.eqb a ix0 && Nat.eqb b it)%bool then sumf (seq 0 nx) (fun i => gterm yg ix0 it i) else 0))].
    + intros a b Ha Hb. cbv beta.
      rewrite (sumf_ext _ _ (fun it => if Nat.eqb it b then
                 (if Nat.eqb a ix0 then sumf (seq 0 nx) (fun i => gterm yg ix0 it i) else 0) else 0)).
      * rewrite sumf_delta by auto. auto.
      * intros it _. rewrite (Nat.eqb_sym b it). destruct (Nat.eqb a ix0); destruct (Nat.eqb it b); auto.
    + intros it _.
      eapply adds_ext; [| apply (adds_fold nx0 nt0 (seq 0 nx) (fun i x => numba_adj_body yg ix0 it x i)
             (fun i a b => if (Nat.eqb a ix0 && Nat.eqb b it)%bool then gterm yg ix0 it i else 0))].
      * intros a b _ _. cbv beta. apply sumf_if_const.
      * intros i _. apply numba_adj_body_adds.
Qed.
(* engine equivalence, adjoint *)
Theorem spread_engines_adj yg : spread_numpy_adj yg = spread_numba_adj yg.
Proof. rewrite spread_numpy_adj_spec, spread_numba_adj_spec; auto. Qed.

(* ---------------------------------------------------- documented entries *)
Theorem spread_fwd_entry xg ix j : ix < nx -> j < nt ->
  get (spread_numpy_fwd xg) ix j =
  sumf (seq 0 nx0) (fun ix0 => sumf (seq 0 nt0) (fun it => coef ix0 it ix j * xg ix0 it)).
Proof. intros. rewrite spread_numpy_fwd_spec. unfold scatter_spec. rewrite get_tab; auto. Qed.
Theorem spread_adj_entry yg ix0 it : ix0 < nx0 -> it < nt0 ->
  get (spread_numpy_adj yg) ix0 it = sumf (seq 0 nx) (fun ix => gterm yg ix0 it ix).
Proof. intros. rewrite spread_numpy_adj_spec. unfold gather_spec. rewrite get_tab; auto. Qed.
Theorem spread_fwd_shape xg : wf2 nx nt (spread_numpy_fwd xg).
Proof. rewrite spread_numpy_fwd_spec. apply tab_wf2. Qed.
Theorem spread_adj_shape yg : wf2 nx0 nt0 (spread_numpy_adj yg).
Proof. rewrite spread_numpy_adj_spec. apply tab_wf2. Qed.

(* (d) the documented formulas, entry by entry:
   data[ix, table[ix0, it0, ix]] += model[ix0, it0]                              *)
Theorem spread_fwd_entry_nointerp xg ix j : interp = false -> ix < nx -> j < nt ->
  get (spread_numpy_fwd xg) ix j =
  sumf (seq 0 nx0) (fun ix0 => sumf (seq 0 nt0) (fun it =>
    match T ix0 it ix with Some k => if Nat.eqb j k then xg ix0 it else 0 | None => 0 end)).
Proof. intros E Hi Hj. rewrite spread_fwd_entry by auto. apply sumf_ext; intros ix0 _. apply sumf_ext; intros it _.
  unfold coef. rewrite E. destruct (T ix0 it ix) as [k|]; [|ring]. destruct (Nat.eqb j k); ring. Qed.
(* data[ix, table]     += (1 - dtable) * model ;  data[ix, table + 1] += dtable * model *)
Theorem spread_fwd_entry_interp xg ix j : interp = true -> ix < nx -> j < nt ->
  get (spread_numpy_fwd xg) ix j =
  sumf (seq 0 nx0) (fun ix0 => sumf (seq 0 nt0) (fun it =>
    match T ix0 it ix with
    | Some k => (if Nat.eqb j k then (1 - D ix0 it ix) * xg ix0 it else 0)
                + (if Nat.eqb j (S k) then D ix0 it ix * xg ix0 it else 0)
    | None => 0 end)).
Proof. intros E Hi Hj. rewrite spread_fwd_entry by auto. apply sumf_ext; intros ix0 _. apply sumf_ext; intros it _.
  unfold coef. rewrite E. destruct (T ix0 it ix) as [k|]; [|ring].
  destruct (Nat.eqb j k); destruct (Nat.eqb j (S k)); ring. Qed.

(* ---------------------------------------------------- well-formed tables *)
Definition wf_tab : Prop := forall ix0 it ix k, ix0 < nx0 -> it < nt0 -> ix < nx ->
  T ix0 it ix = Some k -> (if interp then S k else k) < nt.
Definition wf_tabb : bool :=
  forallb (fun ix0 => forallb (fun it => forallb (fun ix =>
     match T ix0 it ix with None => true | Some k => Nat.ltb (if interp then S k else k) nt end)
     (seq 0 nx)) (seq 0 nt0)) (seq 0 nx0).
Lemma wf_tabb_sound : wf_tabb = true -> wf_tab.
Proof.
  unfold wf_tabb, wf_tab. intros H ix0 it ix k H0 H1 H2 E.
  rewrite forallb_forall in H. specialize (H ix0). rewrite forallb_forall in H.
  specialize (H ltac:(apply in_seq; lia) it). rewrite forallb_forall in H.
  specialize (H ltac:(apply in_seq; lia) ix ltac:(apply in_seq; lia)). rewrite E in H.
  apply Nat.ltb_lt in H; auto.
Qed.
(* gathering = contracting the data with coef, when nothing is out of range *)
Lemma gterm_coef yg ix0 it ix : wf_tab -> ix0 < nx0 -> it < nt0 -> ix < nx ->
  sumf (seq 0 nt) (fun j => coef ix0 it ix j * yg ix j) = gterm yg ix0 it ix.
Proof.
  intros W H0 H1 H2. unfold coef, gterm. specialize (W ix0 it ix). destruct (T ix0 it ix) as [k|].
  - specialize (W k H0 H1 H2 eq_refl). destruct interp.
    + rewrite (sumf_ext _ _ (fun j => (if Nat.eqb j k then (1 - D ix0 it ix) * yg ix j else 0) +
                                       (if Nat.eqb j (S k) then D ix0 it ix * yg ix j else 0))).
      * rewrite sumf_add, !sumf_delta by lia. ring.
      * intros j _. destruct (Nat.eqb j k); destruct (Nat.eqb j (S k)); ring.
    + rewrite (sumf_ext _ _ (fun j => if Nat.eqb j k then yg ix j else 0)).
      * apply sumf_delta; auto.
      * intros j _. destruct (Nat.eqb j k); ring.
  - rewrite (sumf_ext _ _ (fun _ => 0)); [apply sumf_zero | intros; ring].
Qed.

(* ------------------------------------------------- flat (ravelled) views *)
Lemma dotu_concat_tab n m f g :
  dotu R (concat (tab n m f)) (concat (tab n m g)) =
  sumf (seq 0 n) (fun i => sumf (seq 0 m) (fun j => f i j * g i j)).
Proof. unfold tab. induction (seq 0 n) as [|i l IH]; simpl; auto.
  rewrite dotu_app by (rewrite !map_length; auto). rewrite IH, dotu_map; auto. Qed.
Lemma map_nth_firstn (u : vec) m : (m <= length u)%nat -> map (fun j => nth j u 0) (seq 0 m) = firstn m u.
Proof. revert u; induction m as [|m IH]; intros u H; auto. destruct u as [|a u]; simpl in H; [lia|].
  cbn [seq map firstn nth]. f_equal. rewrite <- seq_shift, map_map. cbn [nth]. apply IH; lia. Qed.
Lemma nth_skipn (u : vec) m k : nth k (skipn m u) 0 = nth (m + k) u 0.
Proof. revert u; induction m as [|m IH]; intros u; auto. destruct u; simpl; [destruct k; auto | apply IH]. Qed.
Lemma tab_shift n m f : tab (S n) m f = map (fun j => f O j) (seq 0 m) :: tab n m (fun i j => f (S i) j).
Proof. unfold tab. cbn [seq map]. f_equal. rewrite <- seq_shift, map_map; auto. Qed.
Lemma concat_tab_flat n m (u : vec) : length u = (n * m)%nat -> concat (tab n m (flat_get m u)) = u.
Proof.
  revert u; induction n as [|n IH]; intros u H.
  - destruct u; simpl in *; auto; discriminate.
  - rewrite tab_shift. cbn [concat]. transitivity (firstn m u ++ skipn m u); [|apply firstn_skipn]. f_equal.
    + unfold flat_get. cbn [Nat.mul Nat.add]. apply map_nth_firstn. simpl in H; lia.
    + rewrite <- (IH (skipn m u)) by (rewrite skipn_length; simpl in H; lia).
      f_equal. apply tab_ext; intros i j _ _. unfold flat_get. rewrite nth_skipn. f_equal. simpl; lia.
Qed.
Lemma dotu_concat_tab_flat_r n m f (v : vec) : length v = (n * m)%nat ->
  dotu R (concat (tab n m f)) v = sumf (seq 0 n) (fun i => sumf (seq 0 m) (fun j => f i j * flat_get m v i j)).
Proof. intros H. rewrite <- dotu_concat_tab. rewrite concat_tab_flat; auto. Qed.
Lemma dotu_concat_tab_flat_l n m f (u : vec) : length u = (n * m)%nat ->
  dotu R u (concat (tab n m f)) = sumf (seq 0 n) (fun i => sumf (seq 0 m) (fun j => flat_get m u i j * f i j)).
Proof. intros H. rewrite <- dotu_concat_tab. rewrite concat_tab_flat; auto. Qed.

(* Spread._matvec / _rmatvec on flat vectors: reshape view, kernel, ravel *)
Definition spread_matvec_numpy (u : vec) : vec := concat (spread_numpy_fwd (flat_get nt0 u)).
Definition spread_rmatvec_numpy (v : vec) : vec := concat (spread_numpy_adj (flat_get nt v)).
Definition spread_matvec_numba (u : vec) : vec := concat (spread_numba_fwd (flat_get nt0 u)).
Definition spread_rmatvec_numba (v : vec) : vec := concat (spread_numba_adj (flat_get nt v)).

Theorem spread_matvec_engines u : spread_matvec_numpy u = spread_matvec_numba u.
Proof. unfold spread_matvec_numpy, spread_matvec_numba. rewrite spread_engines_fwd; auto. Qed.
Theorem spread_rmatvec_engines v : spread_rmatvec_numpy v = spread_rmatvec_numba v.
Proof. unfold spread_rmatvec_numpy, spread_rmatvec_numba. rewrite spread_engines_adj; auto. Qed.
Lemma spread_matvec_length u : length (spread_matvec_numpy u) = (nx * nt)%nat.
Proof. unfold spread_matvec_numpy. rewrite spread_numpy_fwd_spec. apply concat_tab_length. Qed.
Lemma spread_rmatvec_length v : length (spread_rmatvec_numpy v) = (nx0 * nt0)%nat.
Proof. unfold spread_rmatvec_numpy. rewrite spread_numpy_adj_spec. apply concat_tab_length. Qed.

(* (a) the adjoint pair *)
Theorem spread_adjoint_pair_numpy u v : wf_tab -> length u = (nx0 * nt0)%nat -> length v = (nx * nt)%nat ->
  dotu R (spread_matvec_numpy u) v = dotu R u (spread_rmatvec_numpy v).
Proof.
  intros W Hu Hv. unfold spread_matvec_numpy, spread_rmatvec_numpy.
  rewrite spread_numpy_fwd_spec, spread_numpy_adj_spec. unfold scatter_spec, gather_spec.
  rewrite dotu_concat_tab_flat_r by auto. rewrite dotu_concat_tab_flat_l by auto.
  set (X := flat_get nt0 u). set (Y := flat_get nt v).
  transitivity (sumf (seq 0 nx) (fun ix => sumf (seq 0 nt) (fun j => sumf (seq 0 nx0) (fun ix0 =>
                  sumf (seq 0 nt0) (fun it => coef ix0 it ix j * X ix0 it * Y ix j))))).
  { apply sumf_ext; intros ix _. apply sumf_ext; intros j _. rewrite <- sumf_mul_r.
    apply sumf_ext; intros ix0 _. rewrite <- sumf_mul_r. auto. }
  rewrite (sumf_swap4 (seq 0 nx) (seq 0 nt) (seq 0 nx0) (seq 0 nt0)
             (fun ix j ix0 it => coef ix0 it ix j * X ix0 it * Y ix j)).
  apply sumf_ext; intros ix0 H0. apply sumf_ext; intros it H1. apply in_seq in H0; apply in_seq in H1.
  rewrite <- sumf_mul_l. apply sumf_ext; intros ix H2. apply in_seq in H2.
  rewrite <- (gterm_coef Y ix0 it ix W) by lia. rewrite <- sumf_mul_l. apply sumf_ext; intros j _. ring.
Qed.
Theorem spread_adjoint_pair_numba u v : wf_tab -> length u = (nx0 * nt0)%nat -> length v = (nx * nt)%nat ->
  dotu R (spread_matvec_numba u) v = dotu R u (spread_rmatvec_numba v).
Proof. intros. rewrite <- spread_matvec_engines, <- spread_rmatvec_engines. apply spread_adjoint_pair_numpy; auto. Qed.

(* (c) linearity *)
Lemma map_lin {A} (l : list A) a b (f g : A -> R) :
  map (fun x => a * f x + b * g x) l = vadd R (vscale R a (map f l)) (vscale R b (map g l)).
Proof. induction l; simpl; auto. unfold vadd, vscale in *; simpl. rewrite IHl; auto. Qed.
Lemma concat_tab_lin n m a b f g :
  concat (tab n m (fun i j => a * f i j + b * g i j)) =
  vadd R (vscale R a (concat (tab n m f))) (vscale R b (concat (tab n m g))).
Proof. unfold tab. induction (seq 0 n) as [|i l IH]; simpl; auto.
  rewrite IH, !vscale_app, vadd_app by (rewrite !vscale_length, !map_length; auto).
  f_equal. apply map_lin. Qed.
Lemma nth_vadd (u w : vec) k : length u = length w -> nth k (vadd R u w) 0 = nth k u 0 + nth k w 0.
Proof. revert w k; induction u as [|a u IH]; intros [|b w] k H; simpl in *; try discriminate.
  - destruct k; ring.
  - destruct k; auto. apply IH; lia. Qed.
Lemma nth_vscale a (u : vec) k : nth k (vscale R a u) 0 = a * nth k u 0.
Proof. revert k; induction u as [|b u IH]; intros k; simpl.
  - destruct k; ring.
  - destruct k; auto. Qed.
Lemma flat_get_lin m a b u w i j : length u = length w ->
  flat_get m (vadd R (vscale R a u) (vscale R b w)) i j = a * flat_get m u i j + b * flat_get m w i j.
Proof. intros H. unfold flat_get. rewrite nth_vadd, !nth_vscale by (rewrite !vscale_length; auto). auto. Qed.
Theorem spread_matvec_linear a b u w : length u = length w ->
  spread_matvec_numpy (vadd R (vscale R a u) (vscale R b w)) =
  vadd R (vscale R a (spread_matvec_numpy u)) (vscale R b (spread_matvec_numpy w)).
Proof.
  intros H. unfold spread_matvec_numpy. rewrite !spread_numpy_fwd_spec. unfold scatter_spec.
  rewrite <- concat_tab_lin. f_equal. apply tab_ext; intros ix j _ _.
  rewrite <- !sumf_mul_l, <- sumf_add. apply sumf_ext; intros ix0 _.
  rewrite <- !sumf_mul_l, <- sumf_add. apply sumf_ext; intros it _.
  rewrite flat_get_lin by auto. ring.
Qed.
Theorem spread_rmatvec_linear a b v w : length v = length w ->
  spread_rmatvec_numpy (vadd R (vscale R a v) (vscale R b w)) =
  vadd R (vscale R a (spread_rmatvec_numpy v)) (vscale R b (spread_rmatvec_numpy w)).
Proof.
  intros H. unfold spread_rmatvec_numpy. rewrite !spread_numpy_adj_spec. unfold gather_spec.
  rewrite <- concat_tab_lin. f_equal. apply tab_ext; intros ix0 it _ _.
  rewrite <- !sumf_mul_l, <- sumf_add. apply sumf_ext; intros ix _.
  unfold gterm. destruct (T ix0 it ix); [|ring]. destruct interp; rewrite !flat_get_lin by auto; ring.
Qed.
End SpreadOp.

(* ------------------------------------------------ table / fh instantiation *)
Section Tables.
Variable R : CRing.
(* table[ix0, it, ix] (None = NaN) and dtable[ix0, it, ix] *)
Definition tabT (tbl : list (list (list (option nat)))) (ix0 it ix : nat) : option nat :=
  nth ix (nth it (nth ix0 tbl []) []) None.
Definition tabD (dtbl : list (list (list R))) (ix0 it ix : nat) : R :=
  nth ix (nth it (nth ix0 dtbl []) []) (r0 R).
(* fh(ix0, it) -> (indices, dindices) *)
Definition fhT (fh : nat -> nat -> list (option nat) * list R) (ix0 it ix : nat) : option nat :=
  nth ix (fst (fh ix0 it)) None.
Definition fhD (fh : nat -> nat -> list (option nat) * list R) (ix0 it ix : nat) : R :=
  nth ix (snd (fh ix0 it)) (r0 R).
End Tables.

(* ------------------------------------------- sesquilinear form (complex data) *)
Section SpreadStar.
Variable K : StarRing.
Add Ring RrSpS : (rth K).
Variables (nx0 nt0 nx nt : nat) (interp : bool).
Variable T : nat -> nat -> nat -> option nat.
Variable D : nat -> nat -> nat -> K.
Hypothesis Dreal : forall a b c, conj K (D a b c) = D a b c.      (* dtable is a real array *)

Lemma conj_sumf {A} (l : list A) (f : A -> K) : conj K (sumf K l f) = sumf K l (fun a => conj K (f a)).
Proof. induction l; simpl; [apply conj_zero | rewrite conj_add, IHl; auto]. Qed.
Lemma vconj_concat_tab n m (f : nat -> nat -> K) :
  vconj K (concat (tab K n m f)) = concat (tab K n m (fun i j => conj K (f i j))).
Proof. unfold tab, vconj. rewrite concat_map, !map_map. f_equal. apply map_ext; intros i. rewrite map_map; auto. Qed.
Lemma flat_get_vconj m (u : list K) i j : flat_get K m (vconj K u) i j = conj K (flat_get K m u i j).
Proof. unfold flat_get, vconj. rewrite <- (conj_zero K) at 1. apply map_nth. Qed.
Lemma conj_coef ix0 it ix j : conj K (coef K interp T D ix0 it ix j) = coef K interp T D ix0 it ix j.
Proof.
  unfold coef. destruct (T ix0 it ix) as [k|]; [|apply conj_zero]. destruct interp.
  - rewrite conj_add. f_equal.
    + destruct (Nat.eqb j k); [|apply conj_zero].
      replace (1 - D ix0 it ix) with (1 + - D ix0 it ix) by ring. rewrite conj_add, conj_opp, conj_one, Dreal; auto.
    + destruct (Nat.eqb j (S k)); [apply Dreal | apply conj_zero].
  - destruct (Nat.eqb j k); [apply conj_one | apply conj_zero].
Qed.
Lemma vconj_spread_matvec u :
  vconj K (spread_matvec_numpy K nx0 nt0 nx nt interp T D u) = spread_matvec_numpy K nx0 nt0 nx nt interp T D (vconj K u).
Proof.
  unfold spread_matvec_numpy. rewrite !spread_numpy_fwd_spec. unfold scatter_spec. rewrite vconj_concat_tab.
  f_equal. apply tab_ext; intros ix j _ _. rewrite conj_sumf. apply sumf_ext; intros ix0 _.
  rewrite conj_sumf. apply sumf_ext; intros it _. rewrite conj_mul, conj_coef, flat_get_vconj; auto.
Qed.
(* <A u, v> = <u, A' v> with the conjugate-linear inner product: the adjoint
   (not only the transpose) of the forward operator is the gather. *)
Theorem spread_adjoint_pair_dot u v : wf_tab nx0 nt0 nx nt interp T ->
  length u = (nx0 * nt0)%nat -> length v = (nx * nt)%nat ->
  dot K (spread_matvec_numpy K nx0 nt0 nx nt interp T D u) v =
  dot K u (spread_rmatvec_numpy K nx0 nt0 nx nt interp T D v).
Proof. intros W Hu Hv. unfold dot. rewrite vconj_spread_matvec.
  apply spread_adjoint_pair_numpy; auto. rewrite vconj_length; auto. Qed.
End SpreadStar.
