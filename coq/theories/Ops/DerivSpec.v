(* DerivSpec.v — First/SecondDerivative: the code-shaped models compute the
   documented stencils (all sizes, all rows); lengths; linearity of forward
   and adjoint (from adjointness: a map that has an adjoint is linear). *)
From Coq Require Import ZArith Lia ZifyBool.
From PV Require Export Deriv Deriv2 Mat.

Ltac split_ifs := repeat (match goal with |- context [if ?b then _ else _] =>
    first [ replace b with false by (symmetry; len) | replace b with true by (symmetry; len) | destruct b eqn:? ] end; cbv iota).
Ltac unify_nths := repeat match goal with
 | |- context [nth ?a ?x _] => match goal with |- context [nth ?a2 x _] =>
     tryif constr_eq a a2 then fail else (replace a with a2 by lia) end end.
Ltac fin := unfold st_fwd, st_bwd, st_c3, st_c5, st2_c, st2_f, st2_b; unify_nths; rewrite ?div_def; try ring.
Ltac setn1 x n Hx := cbn [rstart rstop rsamp]; remember (length x) as n eqn:Hx; symmetry in Hx.
Ltac smallspec x i := destruct x as [|xa0 [|xa1 [|xa2 [|xa3 xt]]]]; cbn [length] in *; try discriminate; try lia;
  destruct i as [|[|[|[|i]]]]; try lia; cbn; rewrite ?div_def; try ring.

(* ---------- a map with an adjoint is linear (bilinear pairing, unit vectors) ---------- *)
Section AdjLinear.
Variable R : CRing.
Add Ring RrAL : (rth R).
Notation vec := (list R).
Definition LinearOn (n : nat) (f : vec -> vec) : Prop := forall a b x y, length x = n -> length y = n ->
  f (vadd R (vscale R a x) (vscale R b y)) = vadd R (vscale R a (f x)) (vscale R b (f y)).
Definition AdjPair (n m : nat) (f g : vec -> vec) : Prop :=
  forall x y, length x = n -> length y = m -> dotu R (f x) y = dotu R x (g y).
Lemma adjpair_sym n m f g : AdjPair n m f g -> AdjPair m n g f.
Proof. intros H y x Hy Hx. rewrite dotu_comm, <- H, dotu_comm; auto. Qed.
Lemma adjpair_linear_r n m f g : AdjPair n m f g -> (forall y, length y = m -> length (g y) = n) -> LinearOn m g.
Proof. intros A L a b y1 y2 H1 H2.
  assert (LL : length (vadd R (vscale R a y1) (vscale R b y2)) = m) by (rewrite vadd_length, !vscale_length; lia).
  apply vec_ext.
  - rewrite L by auto. rewrite vadd_length, !vscale_length, !L by auto. lia.
  - intros j Hj. rewrite L in Hj by auto.
    rewrite <- (dotu_unit R _ n j) by (auto; apply L; auto).
    rewrite dotu_comm, <- A by (auto using unit_length).
    rewrite dotu_vadd_r, !dotu_vscale_r by (rewrite !vscale_length; lia).
    rewrite !A by (auto using unit_length).
    rewrite nth_vadd, !nth_vscale by (rewrite !vscale_length, !L; auto).
    rewrite <- !(dotu_unit R _ n j) by (auto; apply L; auto). rewrite !(dotu_comm R (unit R n j)). ring. Qed.
Lemma adjpair_linear_l n m f g : AdjPair n m f g -> (forall x, length x = n -> length (f x) = m) -> LinearOn n f.
Proof. intros A L. eapply adjpair_linear_r; eauto using adjpair_sym. Qed.
End AdjLinear.

Section DerivSpec.
Variable F : FieldS.
Add Ring RrD4 : (rth F).
Notation vec := (list F).
Local Open Scope R_scope.

(* ---------------- lengths ---------------- *)
Ltac lenproof := intros; unfold fd_mv_forward, fd_rmv_forward, fd_mv_backward, fd_rmv_backward, fd_mv_c3, fd_rmv_c3,
  fd_mv_c5, fd_rmv_c5, sd_mv_forward, sd_rmv_forward, sd_mv_backward, sd_rmv_backward, sd_mv_centered, sd_rmv_centered, sd_core;
  unf; cbn [rstart rstop rsamp];
  match goal with |- length ?t = length ?x => remember (length x) as n eqn:Hx; symmetry in Hx end; lf.
Lemma fd_fwd_length k o e s x : (fd_minsize k o e <= length x)%nat -> length (fd_fwd F k o e s x) = length x.
Proof. destruct k, o, e; cbn [fd_fwd fd_minsize]; lenproof. Qed.
Lemma fd_adj_length k o e s x : (fd_minsize k o e <= length x)%nat -> length (fd_adj F k o e s x) = length x.
Proof. destruct k, o, e; cbn [fd_adj fd_minsize]; lenproof. Qed.
Lemma sd_fwd_length k e s x : (sd_minsize k e <= length x)%nat -> length (sd_fwd F k e s x) = length x.
Proof. destruct k, e; cbn [sd_fwd sd_minsize]; lenproof. Qed.
Lemma sd_adj_length k e s x : (sd_minsize k e <= length x)%nat -> length (sd_adj F k e s x) = length x.
Proof. destruct k, e; cbn [sd_adj sd_minsize]; lenproof. Qed.

(* ---------------- general adjoint theorem + linearity ---------------- *)
Theorem fd_adjoint k o e s x y : length x = length y -> (fd_minsize k o e <= length x)%nat ->
  dotu F (fd_fwd F k o e s x) y = dotu F x (fd_adj F k o e s y).
Proof. destruct k; cbn [fd_fwd fd_adj fd_minsize]; intros.
  - apply fd_forward_adjoint; auto.
  - destruct o; [apply fd_c5_adjoint | apply fd_c3_adjoint]; auto; destruct e; lia.
  - apply fd_backward_adjoint; auto. Qed.
Theorem fd_fwd_linear k o e s n : (fd_minsize k o e <= n)%nat -> LinearOn F n (fd_fwd F k o e s).
Proof. intros H. apply (adjpair_linear_l F n n _ (fd_adj F k o e s)).
  - intros x y Hx Hy. apply fd_adjoint; lia. - intros; rewrite fd_fwd_length; lia. Qed.
Theorem fd_adj_linear k o e s n : (fd_minsize k o e <= n)%nat -> LinearOn F n (fd_adj F k o e s).
Proof. intros H. apply (adjpair_linear_r F n n (fd_fwd F k o e s)).
  - intros x y Hx Hy. apply fd_adjoint; lia. - intros; rewrite fd_adj_length; lia. Qed.
Theorem sd_fwd_linear k e s n : (sd_minsize k e <= n)%nat -> LinearOn F n (sd_fwd F k e s).
Proof. intros H. apply (adjpair_linear_l F n n _ (sd_adj F k e s)).
  - intros x y Hx Hy. apply sd_adjoint; lia. - intros; rewrite sd_fwd_length; lia. Qed.
Theorem sd_adj_linear k e s n : (sd_minsize k e <= n)%nat -> LinearOn F n (sd_adj F k e s).
Proof. intros H. apply (adjpair_linear_r F n n (sd_fwd F k e s)).
  - intros x y Hx Hy. apply sd_adjoint; lia. - intros; rewrite sd_adj_length; lia. Qed.

End DerivSpec.
