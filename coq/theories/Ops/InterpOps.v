(* InterpOps.v — Interp (nearest / linear) and Bilinear (signalprocessing/
   interp.py, bilinear.py) over a commutative ring; at the end Transpose of a
   2-D array (basicoperators/transpose.py), placed here because its adjoint
   proof uses the finite-sum lemmas of Conv.v.  Positions enter as the
   pairs (floor index, weight) the code computes; the specification is the
   documented formula y_i = (1-w_i) x_{l_i} + w_i x_{l_i+1}. *)
From Coq Require Import ZArith Lia ZifyBool FinFun.
From PV Require Import Dict Vec Dot IndexOps Conv.

Section Interp.
Variable R : CRing.
Add Ring RrInterp : (rth R).
Notation vec := (list R).
Notation "0r" := (r0 R).
Notation "1r" := (r1 R).
Notation "a *r b" := (rmul R a b) (at level 40, left associativity).
Notation "a +r b" := (radd R a b) (at level 50, left associativity).
Notation "a -r b" := (rsub R a b) (at level 50, left associativity).

(* nearest: Restriction at round(iava) *)
Definition interp_nearest_fwd (idx : list nat) (x : vec) : vec := restr_fwd R idx x.
Definition interp_nearest_adj (n : nat) (idx : list nat) (y : vec) : vec := restr_adj R n idx y.

(* linear: Diagonal(1-w) Restriction(l) + Diagonal(w) Restriction(l+1) *)
Definition interp_fwd (ls : list nat) (ws : vec) (x : vec) : vec :=
  vadd R (vmul R (map (fun w => 1r -r w) ws) (restr_fwd R ls x))
         (vmul R ws (restr_fwd R (map S ls) x)).
(* the code's adjoint: sum of the adjoints of the two products; each
   Restriction adjoint accumulates (np.add.at, fix 1a499ab) *)
Definition interp_adj (n : nat) (ls : list nat) (ws : vec) (y : vec) : vec :=
  vadd R (restr_adj R n ls (vmul R (map (fun w => 1r -r w) ws) y))
         (restr_adj R n (map S ls) (vmul R ws y)).
(* Legacy (assigning Restriction adjoints, before 1a499ab) *)
Definition interp_adj_legacy (n : nat) (ls : list nat) (ws : vec) (y : vec) : vec :=
  vadd R (restr_adj_legacy R n ls (vmul R (map (fun w => 1r -r w) ws) y))
         (restr_adj_legacy R n (map S ls) (vmul R ws y)).
Definition interp_spec (ls : list nat) (ws : vec) (i : nat) (x : vec) : R :=
  (1r -r nth i ws 0r) *r nth (nth i ls (length x)) x 0r +r nth i ws 0r *r nth (S (nth i ls (length x))) x 0r.

(* bilinear on a dims = (n1, n2) array stored in C order: positions are
   ((t, wt), (l, wl)) = floor index and weight along axis 0 and axis 1 *)
Definition at2 (n2 : nat) (x : vec) (i j : nat) : R := if j <? n2 then nth (i * n2 + j) x 0r else 0r.
Definition bilin_spec (n2 : nat) (ts ls : list nat) (wts wls : vec) (i : nat) (x : vec) : R :=
  let t := nth i ts 0 in let l := nth i ls 0 in
  let wt := nth i wts 0r in let wl := nth i wls 0r in
  at2 n2 x t l *r (1r -r wt) *r (1r -r wl) +r at2 n2 x t (S l) *r (1r -r wt) *r wl
  +r at2 n2 x (S t) l *r wt *r (1r -r wl) +r at2 n2 x (S t) (S l) *r wt *r wl.
Definition bilin_fwd (n2 : nat) (ts ls : list nat) (wts wls : vec) (x : vec) : vec :=
  map (fun i => bilin_spec n2 ts ls wts wls i x) (seq 0 (length ts)).

(* ---------------- weighted gather / weighted scatter-add ---------------- *)
Definition wg (w : vec) (idx : list nat) (x : vec) : vec := vmul R w (restr_fwd R idx x).
Definition wsc (n : nat) (w : vec) (idx : list nat) (y : vec) : vec := scatter_add R n idx (vmul R w y).
Lemma dotu_vmul_l (w u y : vec) : dotu R (vmul R w u) y = dotu R u (vmul R w y).
Proof. unfold vmul. revert u y; induction w as [|a w IH]; intros u y.
  - simpl. rewrite dotu_nil_r; auto.
  - destruct u as [|b u]; [reflexivity|]. destruct y as [|c y]; [reflexivity|].
    simpl. rewrite IH. ring. Qed.
Lemma wg_length w idx x : length w = length idx -> length (wg w idx x) = length idx.
Proof. intros H; unfold wg. rewrite vmul_length, restr_fwd_length. lia. Qed.
Lemma wsc_length n w idx y : length (wsc n w idx y) = n.
Proof. apply scatter_add_length. Qed.
Theorem wg_adjoint w idx x y : length w = length idx -> length y = length idx ->
  dotu R (wg w idx x) y = dotu R x (wsc (length x) w idx y).
Proof. intros Hw Hy. unfold wg, wsc. rewrite dotu_vmul_l. apply restr_scatter_add_adjoint.
  rewrite vmul_length; lia. Qed.
Lemma nth_wg w idx x i : i < length idx ->
  nth i (wg w idx x) 0r = nth i w 0r *r nth (nth i idx (length x)) x 0r.
Proof. intros H. unfold wg. rewrite nth_vmul, restr_meets_spec by auto. reflexivity. Qed.

(* ---------------- Interp, kind='linear' ---------------- *)
Lemma interp_fwd_wg ls ws x :
  interp_fwd ls ws x = vadd R (wg (map (fun w => 1r -r w) ws) ls x) (wg ws (map S ls) x).
Proof. reflexivity. Qed.
Lemma interp_fwd_length ls ws x : length ws = length ls -> length (interp_fwd ls ws x) = length ls.
Proof. intros H. rewrite interp_fwd_wg, vadd_length, !wg_length; rewrite ?map_length; auto. lia. Qed.
Theorem interp_meets_spec ls ws x i : length ws = length ls -> i < length ls ->
  nth i (interp_fwd ls ws x) 0r = interp_spec ls ws i x.
Proof. intros Hw Hi. rewrite interp_fwd_wg.
  rewrite nth_vadd by (rewrite !wg_length; rewrite ?map_length; auto).
  rewrite !nth_wg by (rewrite ?map_length; auto). unfold interp_spec.
  rewrite (nth_map' (fun w => 1r -r w) ws i 0r 0r) by lia.
  rewrite (nth_map' S ls i (length x) (length x)) by lia. reflexivity. Qed.
(* forward and the coded adjoint are transposes for EVERY position list
   (two positions in the same cell [l, l+1) included) *)
Theorem interp_adjoint ls ws x y : length ws = length ls -> length y = length ls ->
  dotu R (interp_fwd ls ws x) y = dotu R x (interp_adj (length x) ls ws y).
Proof. intros Hw Hy. rewrite interp_fwd_wg. unfold interp_adj, restr_adj.
  rewrite dotu_vadd_l by (rewrite !wg_length; rewrite ?map_length; auto).
  rewrite dotu_vadd_r by (rewrite !scatter_add_length; auto).
  rewrite !wg_adjoint by (rewrite ?map_length; auto). reflexivity. Qed.
(* Legacy: the assigning adjoint agreed with it only for distinct floor indices *)
Lemma interp_adj_legacy_eq n ls ws y : NoDup ls -> interp_adj_legacy n ls ws y = interp_adj n ls ws y.
Proof. intros H. unfold interp_adj, interp_adj_legacy. rewrite !restr_adj_legacy_scatter_add; auto.
  apply FinFun.Injective_map_NoDup; auto. intros a b E; inversion E; auto. Qed.
Theorem interp_linear ls ws : length ws = length ls -> Linear R (interp_fwd ls ws).
Proof. intros Hw. apply linear_of_entries with (len := fun _ => length ls) (spec := interp_spec ls ws).
  - intros; apply interp_fwd_length; auto.
  - intros; apply interp_meets_spec; auto.
  - intros i a b x y H. unfold interp_spec. rewrite lincomb_length by auto. rewrite <- H.
    rewrite !nth_lincomb by auto. ring. Qed.

(* ---------------- Bilinear ---------------- *)
(* _matvec as coded: four fancy-indexed gathers x[t, l] on the C-order flat
   array, weighted; _rmatvec: four np.add.at (accumulating) scatters *)
Definition flat2 (n2 : nat) (ts ls : list nat) : list nat := map2 (fun t l => t * n2 + l) ts ls.
Definition om (w : vec) : vec := map (fun a => 1r -r a) w.
Definition bilin_code_fwd (n2 : nat) (ts ls : list nat) (wts wls : vec) (x : vec) : vec :=
  vadd R (vadd R (vadd R
    (wg (vmul R (om wts) (om wls)) (flat2 n2 ts ls) x)
    (wg (vmul R (om wts) wls) (flat2 n2 ts (map S ls)) x))
    (wg (vmul R wts (om wls)) (flat2 n2 (map S ts) ls) x))
    (wg (vmul R wts wls) (flat2 n2 (map S ts) (map S ls)) x).
Definition bilin_code_adj (n n2 : nat) (ts ls : list nat) (wts wls : vec) (y : vec) : vec :=
  vadd R (vadd R (vadd R
    (wsc n (vmul R (om wts) (om wls)) (flat2 n2 ts ls) y)
    (wsc n (vmul R (om wts) wls) (flat2 n2 ts (map S ls)) y))
    (wsc n (vmul R wts (om wls)) (flat2 n2 (map S ts) ls) y))
    (wsc n (vmul R wts wls) (flat2 n2 (map S ts) (map S ls)) y).
Lemma flat2_length n2 ts ls : length ts = length ls -> length (flat2 n2 ts ls) = length ls.
Proof. intros H; unfold flat2. rewrite map2_length. lia. Qed.
Theorem bilin_adjoint n2 ts ls wts wls x y :
  length ts = length ls -> length wts = length ls -> length wls = length ls -> length y = length ls ->
  dotu R (bilin_code_fwd n2 ts ls wts wls x) y = dotu R x (bilin_code_adj (length x) n2 ts ls wts wls y).
Proof. intros H1 H2 H3 H4. unfold bilin_code_fwd, bilin_code_adj.
  assert (L : forall w1 w2 t l, length w1 = length ls -> length w2 = length ls -> length t = length ls -> length l = length ls ->
     length (wg (vmul R w1 w2) (flat2 n2 t l) x) = length ls).
  { intros. rewrite wg_length; rewrite ?flat2_length, ?vmul_length; lia. }
  assert (A : forall w1 w2 t l, length w1 = length ls -> length w2 = length ls -> length t = length ls -> length l = length ls ->
     dotu R (wg (vmul R w1 w2) (flat2 n2 t l) x) y = dotu R x (wsc (length x) (vmul R w1 w2) (flat2 n2 t l) y)).
  { intros. apply wg_adjoint; rewrite ?flat2_length, ?vmul_length; lia. }
  rewrite !dotu_vadd_l by (rewrite ?vadd_length, ?L; unfold om; rewrite ?map_length; lia).
  rewrite !dotu_vadd_r by (rewrite ?vadd_length, ?wsc_length; lia).
  rewrite !A by (unfold om; rewrite ?map_length; lia). reflexivity. Qed.
End Interp.

(* ------------------------------------------------------------------ *)
(* Transpose (transpose.py), 2-D: x.reshape(n1,n2).transpose(1,0).ravel() *)
(* ------------------------------------------------------------------ *)
Section Transpose2.
Variable R : CRing.
Add Ring RrTr : (rth R).
Notation vec := (list R).
Notation "0r" := (r0 R).

(* C-order: output flat index r = j*n1 + i  reads input flat index i*n2 + j *)
Definition transp2_fwd (n1 n2 : nat) (x : vec) : vec :=
  map (fun r => nth ((r mod n1) * n2 + r / n1) x 0r) (seq 0 (n1 * n2)).
Definition transp2_adj (n1 n2 : nat) (y : vec) : vec := transp2_fwd n2 n1 y.   (* axesd = inverse permutation *)

Lemma transp2_length n1 n2 x : length (transp2_fwd n1 n2 x) = n1 * n2.
Proof. unfold transp2_fwd; rewrite map_length, seq_length; auto. Qed.
Lemma divmod_flat n i j : i < n -> (j * n + i) / n = j /\ (j * n + i) mod n = i.
Proof. intros H. split.
  - symmetry. apply Nat.div_unique with (r := i); lia.
  - symmetry. apply Nat.mod_unique with (q := j); lia. Qed.
(* documentation: y[j, i] = x[i, j] *)
Theorem transp2_meets_spec n1 n2 x i j : i < n1 -> j < n2 ->
  nth (j * n1 + i) (transp2_fwd n1 n2 x) 0r = nth (i * n2 + j) x 0r.
Proof. intros Hi Hj. unfold transp2_fwd.
  assert (B : j * n1 + i < n1 * n2) by nia.
  rewrite nth_map' with (d' := 0) by (rewrite seq_length; auto). rewrite seq_nth by auto.
  destruct (divmod_flat n1 i j Hi) as [E1 E2]. simpl. rewrite E1, E2. reflexivity. Qed.
(* Transpose^H Transpose = I and Transpose Transpose^H = I *)
Theorem transp2_inverse n1 n2 x : length x = n1 * n2 -> transp2_adj n1 n2 (transp2_fwd n1 n2 x) = x.
Proof. intros H. unfold transp2_adj. apply nth_ext with (d := 0r) (d' := 0r).
  - rewrite transp2_length. lia.
  - intros r Hr. rewrite transp2_length in Hr.
    assert (Hn2 : 0 < n2) by (destruct n2; lia).
    pose proof (Nat.div_mod_eq r n2) as D. pose proof (Nat.mod_upper_bound r n2 ltac:(lia)) as B.
    assert (Hq : r / n2 < n1) by (apply Nat.div_lt_upper_bound; lia).
    replace r with ((r / n2) * n2 + r mod n2) at 1 by lia.
    rewrite (transp2_meets_spec n2 n1 (transp2_fwd n1 n2 x) (r mod n2) (r / n2)) by auto.
    rewrite transp2_meets_spec by auto. f_equal. lia. Qed.
Lemma bigsum_prod a b (f : nat -> R) :
  bigsum R (a * b) f = bigsum R a (fun p => bigsum R b (fun q => f (p * b + q))).
Proof. induction a as [|a IH]; simpl; auto.
  rewrite Nat.add_comm, bigsum_split, IH. reflexivity. Qed.
Theorem transp2_adjoint n1 n2 x y : length x = n1 * n2 -> length y = n1 * n2 ->
  dotu R (transp2_fwd n1 n2 x) y = dotu R x (transp2_adj n1 n2 y).
Proof. intros Hx Hy. unfold transp2_adj.
  rewrite !dotu_bigsum by (rewrite ?transp2_length; lia).
  rewrite transp2_length, Hx. rewrite (Nat.mul_comm n1 n2) at 1. rewrite !bigsum_prod.
  rewrite bigsum_exchange. apply bigsum_ext. intros i Hi. apply bigsum_ext. intros j Hj.
  rewrite transp2_meets_spec by auto.
  rewrite (transp2_meets_spec n2 n1 y j i) by auto. reflexivity. Qed.
Theorem transp2_linear n1 n2 : Linear R (transp2_fwd n1 n2).
Proof. apply linear_of_entries with (len := fun _ => n1 * n2)
    (spec := fun r x => nth ((r mod n1) * n2 + r / n1) x 0r).
  - intros; apply transp2_length.
  - intros x r Hr. unfold transp2_fwd. rewrite nth_map' with (d' := 0) by (rewrite seq_length; auto).
    rewrite seq_nth by auto. reflexivity.
  - intros r a b x y H. apply nth_lincomb; auto. Qed.
End Transpose2.
