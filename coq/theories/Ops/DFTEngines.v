(* DFTEngines.v — the three engines of pylops.signalprocessing.FFT modelled
   SEPARATELY, each with its own placement of scaling, padding / truncation
   and shifts as written in fft.py (_FFT_numpy, _FFT_scipy, _FFT_fftw:
   _matvec, _rmatvec, __truediv__).  Library transforms are primitives with
   their documented behaviour:
     np/scipy  fft(x, n=N, norm=None)     = DFT_N of x truncated / zero-padded to N
               fft(..., norm="ortho")     = the same times sqrt(1/N)
               ifft(y, n=N, norm=None)    = (1/N) conj-DFT_N;  "ortho": sqrt(1/N) conj-DFT_N
     pyfftw    FFTW_FORWARD plan          = unnormalised DFT_N of the N-long buffer
               FFTW_BACKWARD plan call    = (1/N) conj-DFT_N (normalise_idft default)
   sq is the real number sqrt(1/N) (np.sqrt(1.0/nfft) in the fftw engine, the
   library's own factor in numpy/scipy): a parameter with sq*sq = 1/N.
   Theorems: the three engines agree (forward, adjoint, '/'); forward/adjoint
   are an adjoint pair; adj (fwd x) = x for 'ortho' and div (fwd x) = x for
   EVERY norm when n <= N, with both shifts. *)
From PV Require Export DFT.
From PV Require Import MatT.
Local Open Scope R_scope.

Inductive fnorm := Ortho | NoneN | OneOverN.
Record fcfg := { c_norm : fnorm; c_n : nat; c_sb : bool; c_sa : bool }.

Section Engines.
Variable F : FieldS.
Add Field Ffe : (fth F).
Notation vec := (list F).
Notation cj := (conj F).
Notation vs := (vscale F).

Variable w : F.
Variable N : nat.
Notation nN := (of_nat F N).
Hypothesis w_unit : w * cj w = 1.
Hypothesis w_orth : forall d, 0 < d -> d < N -> bsum (fun k => rpow w (d * k)) N = 0.
Hypothesis N_nz : nN <> 0.
Variable sq : F.
Hypothesis sq_sq : sq * sq = 1 / nN.
Hypothesis sq_real : cj sq = sq.

Lemma sq_nz : sq <> 0.
Proof. intros E. assert (H : 1 / nN * nN = r1 F) by (field; exact N_nz).
  rewrite <- sq_sq, E in H. apply (F_1_neq_0 (fth F)). rewrite <- H. ring. Qed.
Lemma iN_nz : 1 / nN <> 0.
Proof. intros E. assert (H : 1 / nN * nN = r1 F) by (field; exact N_nz).
  rewrite E in H. apply (F_1_neq_0 (fth F)). rewrite <- H. ring. Qed.

(* ---- helpers ---- *)
Definition vdiv (v : vec) (s : F) : vec := map (fun a => a / s) v.
(* after the inverse transform: np.take(y, range(n)) when N > n, np.pad(y, (0, n-N)) when N < n *)
Definition fit (n : nat) (z : vec) : vec := firstn n z ++ zeros F (n - length z).
Definition is_ortho (nm : fnorm) : bool := match nm with Ortho => true | _ => false end.

Lemma vdiv_vscale v s : s <> 0 -> vdiv v s = vs (1 / s) v.
Proof. intros H; unfold vdiv, vscale; apply map_ext; intros; field; auto. Qed.
Lemma fit_vscale n a z : fit n (vs a z) = vs a (fit n z).
Proof. unfold fit. rewrite vscale_length, vscale_app, vscale_zeros. unfold vscale; rewrite firstn_map; auto. Qed.
Lemma vs_eq a b v : a = b -> vs a v = vs b v.
Proof. intros ->; auto. Qed.
Lemma fit_dft u n y : (n <= N)%nat -> fit n (dft F u N y) = dft F u n y.
Proof. intros L. unfold fit. rewrite dft_length. replace (n - N)%nat with 0%nat by lia.
  simpl. rewrite app_nil_r. apply (trunc_dft F); auto. Qed.

(* ---- library primitives ---- *)
Definition lib_fft (ortho : bool) (x : vec) : vec :=
  let y := dft F w N (firstn N x) in if ortho then vs sq y else y.
Definition lib_ifft (ortho : bool) (y : vec) : vec :=
  let z := dft F (cj w) N y in if ortho then vs sq z else vs (1 / nN) z.
Definition plan_fwd (x : vec) : vec := dft F w N x.
Definition plan_bwd (y : vec) : vec := vs (1 / nN) (dft F (cj w) N y).

(* ---- engine = numpy (fft.py:_FFT_numpy) ---- *)
Definition scale_np (c : fcfg) : F :=
  match c_norm c with NoneN => nN | OneOverN => 1 / nN | Ortho => 1 end.   (* _scale is unset for ortho *)
Definition fwd_numpy (c : fcfg) (x : vec) : vec :=
  let x := if c_sb c then ifftshift F x else x in
  let y := lib_fft (is_ortho (c_norm c)) x in
  let y := match c_norm c with OneOverN => vs (scale_np c) y | _ => y end in
  if c_sa c then fftshift F y else y.
Definition adj_numpy (c : fcfg) (y : vec) : vec :=
  let y := if c_sa c then ifftshift F y else y in
  let z := lib_ifft (is_ortho (c_norm c)) y in
  let z := match c_norm c with NoneN => vs (scale_np c) z | _ => z end in
  let z := fit (c_n c) z in
  if c_sb c then fftshift F z else z.
Definition div_numpy (c : fcfg) (y : vec) : vec :=
  match c_norm c with Ortho => adj_numpy c y | _ => vdiv (adj_numpy c y) (scale_np c) end.

(* ---- engine = scipy (fft.py:_FFT_scipy): same placement, scipy.fft calls ---- *)
Definition scale_sp (c : fcfg) : F :=
  match c_norm c with NoneN => nN | OneOverN => 1 / nN | Ortho => 1 end.
Definition fwd_scipy (c : fcfg) (x : vec) : vec :=
  let x := if c_sb c then ifftshift F x else x in
  let y := lib_fft (is_ortho (c_norm c)) x in
  let y := match c_norm c with OneOverN => vs (scale_sp c) y | _ => y end in
  if c_sa c then fftshift F y else y.
Definition adj_scipy (c : fcfg) (y : vec) : vec :=
  let y := if c_sa c then ifftshift F y else y in
  let z := lib_ifft (is_ortho (c_norm c)) y in
  let z := match c_norm c with NoneN => vs (scale_sp c) z | _ => z end in
  let z := fit (c_n c) z in
  if c_sb c then fftshift F z else z.
Definition div_scipy (c : fcfg) (y : vec) : vec :=
  match c_norm c with Ortho => adj_scipy c y | _ => vdiv (adj_scipy c y) (scale_sp c) end.

(* ---- engine = fftw (fft.py:_FFT_fftw): explicit pad / take, explicit
   sqrt(1/nfft), scaling BEFORE the shift, division by _scale in the adjoint ---- *)
Definition scale_fw (c : fcfg) : F :=
  match c_norm c with Ortho => sq | NoneN => nN | OneOverN => 1 / nN end.
Definition fftw_prep (c : fcfg) (x : vec) : vec :=
  if Nat.ltb (c_n c) N then pad F N x                 (* dopad *)
  else if Nat.ltb N (c_n c) then firstn N x           (* doifftpad: np.take(x, range(nfft)) *)
  else x.
Definition fwd_fftw (c : fcfg) (x : vec) : vec :=
  let x := if c_sb c then ifftshift F x else x in
  let y := plan_fwd (fftw_prep c x) in
  let y := match c_norm c with NoneN => y | _ => vs (scale_fw c) y end in
  if c_sa c then fftshift F y else y.
Definition adj_fftw (c : fcfg) (y : vec) : vec :=
  let y := if c_sa c then ifftshift F y else y in
  let z := plan_bwd y in
  let z := match c_norm c with Ortho => vdiv z (scale_fw c) | NoneN => vs (scale_fw c) z | OneOverN => z end in
  let z := fit (c_n c) z in
  if c_sb c then fftshift F z else z.
Definition div_fftw (c : fcfg) (y : vec) : vec :=
  match c_norm c with Ortho => adj_fftw c y | _ => vdiv (adj_fftw c y) (scale_fw c) end.

(* ---- common normal form: scale * (shift o transform o shift) ---- *)
Definition core_fwd (c : fcfg) (x : vec) : vec :=
  let x := if c_sb c then ifftshift F x else x in
  let y := dft F w N (firstn N x) in
  if c_sa c then fftshift F y else y.
Definition core_adj (c : fcfg) (y : vec) : vec :=
  let y := if c_sa c then ifftshift F y else y in
  let z := fit (c_n c) (dft F (cj w) N y) in
  if c_sb c then fftshift F z else z.
Definition fscale (c : fcfg) : F := match c_norm c with Ortho => sq | NoneN => 1 | OneOverN => 1 / nN end.
Definition dscale (c : fcfg) : F := match c_norm c with Ortho => sq | NoneN => 1 / nN | OneOverN => 1 end.

Ltac push :=
  repeat (rewrite ?(fftshift_vscale F), ?(ifftshift_vscale F), ?fit_vscale, ?(dft_vscale F), ?vscale_vscale,
                  ?(vdiv_vscale _ _ sq_nz), ?(vdiv_vscale _ _ N_nz), ?(vdiv_vscale _ _ iN_nz)).
Lemma one_nz : r1 F <> 0.
Proof. exact (F_1_neq_0 (fth F)). Qed.
Ltac nz := solve [ repeat split; first [ exact sq_nz | exact N_nz | exact iN_nz | exact one_nz ] ].
Ltac fin := first [ reflexivity | symmetry; apply vscale_one | apply vs_eq; field; nz
                  | rewrite <- (vscale_one F) at 1; apply vs_eq; field; nz ].

Lemma sq_inv : 1 / sq * (1 / nN) = sq.
Proof. rewrite <- sq_sq. field. apply sq_nz. Qed.

Lemma fwd_numpy_nf c x : fwd_numpy c x = vs (fscale c) (core_fwd c x).
Proof. destruct c as [nm n sb sa]; unfold fwd_numpy, core_fwd, fscale, scale_np, lib_fft; simpl.
  destruct nm, sb, sa; simpl; push; fin. Qed.
Lemma adj_numpy_nf c y : adj_numpy c y = vs (fscale c) (core_adj c y).
Proof. destruct c as [nm n sb sa]; unfold adj_numpy, core_adj, fscale, scale_np, lib_ifft; simpl.
  destruct nm, sb, sa; simpl; push; fin. Qed.
Lemma div_numpy_nf c y : div_numpy c y = vs (dscale c) (core_adj c y).
Proof. unfold div_numpy. rewrite adj_numpy_nf. destruct c as [nm n sb sa]; unfold dscale, fscale, scale_np; simpl.
  destruct nm; simpl; push; fin. Qed.
Lemma fwd_scipy_nf c x : fwd_scipy c x = vs (fscale c) (core_fwd c x).
Proof. destruct c as [nm n sb sa]; unfold fwd_scipy, core_fwd, fscale, scale_sp, lib_fft; simpl.
  destruct nm, sb, sa; simpl; push; fin. Qed.
Lemma adj_scipy_nf c y : adj_scipy c y = vs (fscale c) (core_adj c y).
Proof. destruct c as [nm n sb sa]; unfold adj_scipy, core_adj, fscale, scale_sp, lib_ifft; simpl.
  destruct nm, sb, sa; simpl; push; fin. Qed.
Lemma div_scipy_nf c y : div_scipy c y = vs (dscale c) (core_adj c y).
Proof. unfold div_scipy. rewrite adj_scipy_nf. destruct c as [nm n sb sa]; unfold dscale, fscale, scale_sp; simpl.
  destruct nm; simpl; push; fin. Qed.

Lemma prep_dft c x : length x = c_n c -> dft F w N (fftw_prep c x) = dft F w N (firstn N x).
Proof. intros H. unfold fftw_prep.
  destruct (Nat.ltb_spec (c_n c) N) as [L|L].
  - rewrite (dft_pad F) by lia. rewrite firstn_all2 by lia. auto.
  - destruct (Nat.ltb_spec N (c_n c)) as [L'|L']; auto. rewrite firstn_all2 by lia; auto. Qed.
Lemma fwd_fftw_nf c x : length x = c_n c -> fwd_fftw c x = vs (fscale c) (core_fwd c x).
Proof. intros H. unfold fwd_fftw, core_fwd, plan_fwd.
  assert (E : forall x', length x' = c_n c -> dft F w N (fftw_prep c x') = dft F w N (firstn N x')) by (intros; apply prep_dft; auto).
  rewrite E by (destruct (c_sb c); rewrite ?(ifftshift_length F); auto).
  destruct c as [nm n sb sa]; unfold fscale, scale_fw; simpl.
  destruct nm, sb, sa; simpl; push; fin. Qed.
Lemma adj_fftw_nf c y : adj_fftw c y = vs (fscale c) (core_adj c y).
Proof. destruct c as [nm n sb sa]; unfold adj_fftw, core_adj, fscale, scale_fw, plan_bwd; simpl.
  destruct nm, sb, sa; simpl; push; try fin; apply vs_eq; apply sq_inv. Qed.
Lemma div_fftw_nf c y : div_fftw c y = vs (dscale c) (core_adj c y).
Proof. unfold div_fftw. rewrite adj_fftw_nf. destruct c as [nm n sb sa]; unfold dscale, fscale, scale_fw; simpl.
  destruct nm; simpl; push; fin. Qed.

(* ---- the engines agree ---- *)
Theorem engines_fwd_agree c x : length x = c_n c ->
  fwd_numpy c x = fwd_scipy c x /\ fwd_scipy c x = fwd_fftw c x.
Proof. intros H. rewrite fwd_numpy_nf, fwd_scipy_nf, fwd_fftw_nf; auto. Qed.
Theorem engines_adj_agree c y : adj_numpy c y = adj_scipy c y /\ adj_scipy c y = adj_fftw c y.
Proof. rewrite adj_numpy_nf, adj_scipy_nf, adj_fftw_nf; auto. Qed.
Theorem engines_div_agree c y : div_numpy c y = div_scipy c y /\ div_scipy c y = div_fftw c y.
Proof. rewrite div_numpy_nf, div_scipy_nf, div_fftw_nf; auto. Qed.

(* ---- core: adjoint pair and inversion, n <= N ---- *)
Lemma opt_ifftshift_length (b : bool) (x : vec) : length (if b then ifftshift F x else x) = length x.
Proof. destruct b; auto using (ifftshift_length F). Qed.
Lemma core_inverse c x : length x = c_n c -> (c_n c <= N)%nat ->
  core_adj c (core_fwd c x) = vs nN x.
Proof. intros H L. unfold core_adj, core_fwd.
  set (x1 := if c_sb c then ifftshift F x else x).
  assert (H1 : length x1 = c_n c) by (unfold x1; rewrite opt_ifftshift_length; auto).
  assert (E : (if c_sa c then ifftshift F (if c_sa c then fftshift F (dft F w N (firstn N x1)) else dft F w N (firstn N x1))
               else (if c_sa c then fftshift F (dft F w N (firstn N x1)) else dft F w N (firstn N x1)))
              = dft F w N x1).
  { rewrite firstn_all2 by lia. destruct (c_sa c); auto. apply (ifftshift_fftshift F). }
  rewrite E. rewrite fit_dft by auto. rewrite <- H1.
  rewrite (dft_inversion F w N w_unit w_orth) by lia.
  unfold x1. destruct (c_sb c); auto. rewrite (fftshift_vscale F), (fftshift_ifftshift F); auto. Qed.
Lemma core_adjoint c x y : length x = c_n c -> (c_n c <= N)%nat -> length y = N ->
  dot F (core_fwd c x) y = dot F x (core_adj c y).
Proof. intros H L Hy. unfold core_adj, core_fwd.
  set (x1 := if c_sb c then ifftshift F x else x).
  assert (H1 : length x1 = c_n c) by (unfold x1; rewrite opt_ifftshift_length; auto).
  set (y1 := if c_sa c then ifftshift F y else y).
  assert (Hy1 : length y1 = N) by (unfold y1; rewrite opt_ifftshift_length; auto).
  rewrite firstn_all2 by lia. rewrite fit_dft by auto.
  assert (A : dot F (if c_sa c then fftshift F (dft F w N x1) else dft F w N x1) y = dot F (dft F w N x1) y1).
  { unfold y1; destruct (c_sa c); auto. apply (fftshift_adjoint F). rewrite dft_length; auto. }
  rewrite A. rewrite (dft_adjoint F) by auto. rewrite H1.
  unfold x1. destruct (c_sb c); auto.
  apply (ifftshift_adjoint F). rewrite dft_length; auto. Qed.

Lemma fscale_real c : cj (fscale c) = fscale c.
Proof. unfold fscale. destruct (c_norm c); auto using conj_one.
  assert (E : cj (1 / nN) * nN = r1 F).
  { replace (cj (1 / nN) * nN) with (cj (1 / nN * nN)) by (rewrite conj_mul, (conj_of_nat F); auto).
    replace (1 / nN * nN) with (r1 F) by (field; exact N_nz). apply conj_one. }
  replace (cj (1 / nN)) with (cj (1 / nN) * nN * (1 / nN)) by (field; exact N_nz).
  rewrite E. field. exact N_nz. Qed.

Section PerEngine.
Variables (fwd : fcfg -> vec -> vec) (adj div : fcfg -> vec -> vec).
Hypothesis fwd_nf : forall c x, length x = c_n c -> fwd c x = vs (fscale c) (core_fwd c x).
Hypothesis adj_nf : forall c y, adj c y = vs (fscale c) (core_adj c y).
Hypothesis div_nf : forall c y, div c y = vs (dscale c) (core_adj c y).

Lemma gen_adjoint c x y : length x = c_n c -> (c_n c <= N)%nat -> length y = N ->
  dot F (fwd c x) y = dot F x (adj c y).
Proof. intros. rewrite fwd_nf, adj_nf, dot_vscale_l, dot_vscale_r, fscale_real, core_adjoint; auto. Qed.
Lemma gen_div c x : length x = c_n c -> (c_n c <= N)%nat -> div c (fwd c x) = x.
Proof. intros H L. rewrite fwd_nf, div_nf by auto.
  assert (E : core_adj c (vs (fscale c) (core_fwd c x)) = vs (fscale c) (core_adj c (core_fwd c x))).
  { unfold core_adj. destruct (c_sa c), (c_sb c); push; auto. }
  rewrite E, core_inverse, !vscale_vscale by auto.
  rewrite <- (vscale_one F x) at 2. apply vs_eq. unfold dscale, fscale.
  destruct (c_norm c); try (field; exact N_nz).
  replace (sq * sq * nN) with (1 / nN * nN) by (rewrite <- sq_sq; ring). field. exact N_nz. Qed.
Lemma gen_unitary c x : c_norm c = Ortho -> length x = c_n c -> (c_n c <= N)%nat -> adj c (fwd c x) = x.
Proof. intros Ho H L. rewrite <- (gen_div c x H L) at 2. rewrite adj_nf, div_nf. unfold dscale, fscale. rewrite Ho. auto. Qed.
End PerEngine.

Theorem numpy_adjoint c x y : length x = c_n c -> (c_n c <= N)%nat -> length y = N ->
  dot F (fwd_numpy c x) y = dot F x (adj_numpy c y).
Proof. apply gen_adjoint; auto using fwd_numpy_nf, adj_numpy_nf. Qed.
Theorem scipy_adjoint c x y : length x = c_n c -> (c_n c <= N)%nat -> length y = N ->
  dot F (fwd_scipy c x) y = dot F x (adj_scipy c y).
Proof. apply gen_adjoint; auto using fwd_scipy_nf, adj_scipy_nf. Qed.
Theorem fftw_adjoint c x y : length x = c_n c -> (c_n c <= N)%nat -> length y = N ->
  dot F (fwd_fftw c x) y = dot F x (adj_fftw c y).
Proof. apply gen_adjoint; auto using fwd_fftw_nf, adj_fftw_nf. Qed.

Theorem numpy_div_inverts c x : length x = c_n c -> (c_n c <= N)%nat -> div_numpy c (fwd_numpy c x) = x.
Proof. apply (gen_div fwd_numpy div_numpy); auto using fwd_numpy_nf, div_numpy_nf. Qed.
Theorem scipy_div_inverts c x : length x = c_n c -> (c_n c <= N)%nat -> div_scipy c (fwd_scipy c x) = x.
Proof. apply (gen_div fwd_scipy div_scipy); auto using fwd_scipy_nf, div_scipy_nf. Qed.
Theorem fftw_div_inverts c x : length x = c_n c -> (c_n c <= N)%nat -> div_fftw c (fwd_fftw c x) = x.
Proof. apply (gen_div fwd_fftw div_fftw); auto using fwd_fftw_nf, div_fftw_nf. Qed.

Theorem numpy_unitary_ortho c x : c_norm c = Ortho -> length x = c_n c -> (c_n c <= N)%nat ->
  adj_numpy c (fwd_numpy c x) = x.
Proof. apply (gen_unitary fwd_numpy adj_numpy div_numpy); auto using fwd_numpy_nf, adj_numpy_nf, div_numpy_nf. Qed.
Theorem scipy_unitary_ortho c x : c_norm c = Ortho -> length x = c_n c -> (c_n c <= N)%nat ->
  adj_scipy c (fwd_scipy c x) = x.
Proof. apply (gen_unitary fwd_scipy adj_scipy div_scipy); auto using fwd_scipy_nf, adj_scipy_nf, div_scipy_nf. Qed.
Theorem fftw_unitary_ortho c x : c_norm c = Ortho -> length x = c_n c -> (c_n c <= N)%nat ->
  adj_fftw c (fwd_fftw c x) = x.
Proof. apply (gen_unitary fwd_fftw adj_fftw div_fftw); auto using fwd_fftw_nf, adj_fftw_nf, div_fftw_nf. Qed.

(* C07(c): every engine's forward IS scale * fftshift? (DFT_N (truncate/pad (ifftshift? x))) *)
Theorem engines_fwd_spec c x : length x = c_n c ->
  fwd_numpy c x = vs (fscale c) (core_fwd c x) /\ fwd_scipy c x = vs (fscale c) (core_fwd c x) /\
  fwd_fftw c x = vs (fscale c) (core_fwd c x).
Proof. intros; repeat split; auto using fwd_numpy_nf, fwd_scipy_nf, fwd_fftw_nf. Qed.
End Engines.

(* ------------------------------------------------------------------ *)
(* statements over the packaged hypotheses (Props/C08.v, C07c.v)       *)
Definition fft_setting (F : FieldS) (w : F) (N : nat) (sq : F) : Prop :=
  principal_root F w N /\ of_nat F N <> 0 /\ sq * sq = 1 / of_nat F N /\ conj F sq = sq.

Section Packaged.
Variable F : FieldS.
Variables (w : F) (N : nat) (sq : F).
Hypothesis H : fft_setting F w N sq.
Let Hu : w * conj F w = 1 := proj1 (proj2 (proj1 H)).
Let Ho := proj2 (proj2 (proj1 H)).
Let Hn : of_nat F N <> 0 := proj1 (proj2 H).
Let Hs : sq * sq = 1 / of_nat F N := proj1 (proj2 (proj2 H)).
Let Hr : conj F sq = sq := proj2 (proj2 (proj2 H)).

Theorem fft_div_inverts_all c x : length x = c_n c -> (c_n c <= N)%nat ->
  div_numpy F w N sq c (fwd_numpy F w N sq c x) = x /\
  div_scipy F w N sq c (fwd_scipy F w N sq c x) = x /\
  div_fftw F w N sq c (fwd_fftw F w N sq c x) = x.
Proof. intros; repeat split; [apply numpy_div_inverts | apply scipy_div_inverts | apply fftw_div_inverts]; auto. Qed.
Theorem fft_unitary_ortho_all c x : c_norm c = Ortho -> length x = c_n c -> (c_n c <= N)%nat ->
  adj_numpy F w N sq c (fwd_numpy F w N sq c x) = x /\
  adj_scipy F w N sq c (fwd_scipy F w N sq c x) = x /\
  adj_fftw F w N sq c (fwd_fftw F w N sq c x) = x.
Proof. intros; repeat split; [apply numpy_unitary_ortho | apply scipy_unitary_ortho | apply fftw_unitary_ortho]; auto. Qed.
Theorem fft_adjoint_all c x y : length x = c_n c -> (c_n c <= N)%nat -> length y = N ->
  dot F (fwd_numpy F w N sq c x) y = dot F x (adj_numpy F w N sq c y) /\
  dot F (fwd_scipy F w N sq c x) y = dot F x (adj_scipy F w N sq c y) /\
  dot F (fwd_fftw F w N sq c x) y = dot F x (adj_fftw F w N sq c y).
Proof. intros; repeat split; [apply numpy_adjoint | apply scipy_adjoint | apply fftw_adjoint]; auto. Qed.
Theorem fft_engines_agree c x y : length x = c_n c ->
  (fwd_numpy F w N sq c x = fwd_scipy F w N sq c x /\ fwd_scipy F w N sq c x = fwd_fftw F w N sq c x) /\
  (adj_numpy F w N sq c y = adj_scipy F w N sq c y /\ adj_scipy F w N sq c y = adj_fftw F w N sq c y) /\
  (div_numpy F w N sq c y = div_scipy F w N sq c y /\ div_scipy F w N sq c y = div_fftw F w N sq c y).
Proof. intros; repeat split; try (apply engines_fwd_agree; auto); try (apply engines_adj_agree; auto);
  apply engines_div_agree; auto. Qed.
End Packaged.

(* ------------------------------------------------------------------ *)
(* real FFT (real=True): half spectrum, sqrt(2) on bins 1..(N-1)/2, adjoint
   w.r.t. the REAL inner product Re<a,b>.  Library primitives:
     rfft(x, n=N)   = first N/2+1 rows of DFT_N
     N * irfft(y,N) = Re y_0 + 2 sum_{1<=k<=(N-1)/2} Re(y_k conj(w)^(j k)) + [N even] Re(y_{N/2} conj(w)^(j N/2))
   (the C2R transform ignores the imaginary parts of the zero and Nyquist
   bins).  s2 is the real number sqrt 2: parameter with s2*s2 = 1+1. *)
Section RealFFT.
Variable F : FieldS.
Add Field Frf : (fth F).
Notation vec := (list F).
Notation cj := (conj F).
Variable w : F.
Variable N : nat.
Variable s2 : F.
Hypothesis s2_sq : s2 * s2 = 1 + 1.
Hypothesis s2_real : cj s2 = s2.
Hypothesis two_nz : (1 + 1 : F) <> 0.
Notation K := (N / 2 + 1)%nat.
Notation half := (1 / (1 + 1)).

Lemma s2_nz : s2 <> 0.
Proof. intros E. apply two_nz. rewrite <- s2_sq, E. ring. Qed.

Definition midb (k : nat) : bool := (Nat.leb 1 k && Nat.ltb k (1 + (N - 1) / 2))%bool.
Definition cfac (k : nat) : F := if midb k then s2 else 1.          (* y[..., 1:1+(nfft-1)//2] *= sqrt(2) *)
Definition mfac (k : nat) : F := if midb k then 1 + 1 else 1.        (* Hermitian completion weight of C2R *)
Definition re2 (a : F) : F := a + cj a.                              (* 2 Re a *)

Definition lib_rfft (x : vec) : vec := dft F w K x.
Definition lib_c2r (n : nat) (y : vec) : vec :=                       (* N * irfft(y, n=N), first n samples *)
  tab (fun j => half * re2 (bsum (fun k => mfac k * (rpow (cj w) (j * k) * nth k y 0)) K)) n.

(* fft.py _matvec / _rmatvec, real=True, norm='none' (an extra real scale factors out) *)
Definition rfwd (x : vec) : vec := tab (fun k => cfac k * nth k (lib_rfft x) 0) K.
Definition radj (n : nat) (y : vec) : vec := lib_c2r n (tab (fun k => nth k y 0 / cfac k) K).

Lemma cfac_real k : cj (cfac k) = cfac k.
Proof. unfold cfac; destruct (midb k); auto using conj_one. Qed.
Lemma cfac_nz k : cfac k <> 0.
Proof. unfold cfac; destruct (midb k); [apply s2_nz | apply (F_1_neq_0 (fth F))]. Qed.
Lemma m_over_c k : mfac k / cfac k = cfac k.
Proof. unfold mfac, cfac. destruct (midb k).
  - rewrite <- s2_sq. field. apply s2_nz.
  - field. apply (F_1_neq_0 (fth F)). Qed.
Lemma re2_add a b : re2 (a + b) = re2 a + re2 b.
Proof. unfold re2; rewrite conj_add; ring. Qed.
Lemma re2_bsum f n : re2 (bsum f n) = bsum (fun k => re2 (f k)) n.
Proof. induction n as [|n IH]; simpl.
  - unfold re2; rewrite conj_zero; ring.
  - rewrite re2_add, IH; auto. Qed.
Lemma re2_real_scale a b : cj a = a -> a * re2 b = re2 (a * b).
Proof. intros H; unfold re2; rewrite conj_mul, H; ring. Qed.

(* ADJOINT identity for the real inner product: for REAL x,
   Re <rfwd x, y> = <x, radj y>   (stated as half * 2Re) *)
Theorem rfft_adjoint x y : (forall j, cj (nth j x 0) = nth j x 0) -> length y = K ->
  half * re2 (dot F (rfwd x) y) = dotu F x (radj (length x) y).
Proof. intros Hx Hy.
  rewrite dot_bsum by (unfold rfwd; rewrite tab_length; auto).
  rewrite dotu_bsum by (unfold radj, lib_c2r; rewrite tab_length; auto).
  unfold rfwd at 2. rewrite tab_length.
  (* left: double sum *)
  rewrite (bsum_ext F _ (fun k => bsum (fun j => nth j x 0 * (cfac k * (rpow (cj w) (j * k) * nth k y 0))) (length x))).
  2:{ intros k Hk. unfold rfwd, lib_rfft. rewrite nth_tab by auto. rewrite (dft_entry F) by auto.
      rewrite conj_mul, cfac_real, conj_bsum, <- bsum_scale, <- bsum_scale_r.
      apply bsum_ext; intros j _. rewrite conj_mul, conj_rpow, Hx. ring. }
  rewrite bsum_swap.
  (* right: pull the real x_j inside *)
  rewrite re2_bsum, <- bsum_scale. apply bsum_ext; intros j Hj.
  unfold radj, lib_c2r. rewrite nth_tab by auto.
  replace (nth j x 0 * (half * re2 (bsum (fun k => mfac k * (rpow (cj w) (j * k) * nth k (tab (fun k0 => nth k0 y 0 / cfac k0) K) 0)) K)))
    with (half * (nth j x 0 * re2 (bsum (fun k => mfac k * (rpow (cj w) (j * k) * nth k (tab (fun k0 => nth k0 y 0 / cfac k0) K) 0)) K))) by ring.
  rewrite (re2_real_scale (nth j x 0)) by apply Hx. f_equal. f_equal.
  rewrite <- bsum_scale. apply bsum_ext; intros k Hk.
  rewrite nth_tab by auto.
  replace (mfac k * (rpow (cj w) (j * k) * (nth k y 0 / cfac k))) with (mfac k / cfac k * (rpow (cj w) (j * k) * nth k y 0))
    by (field; apply cfac_nz).
  rewrite m_over_c. reflexivity. Qed.
End RealFFT.

(* ------------------------------------------------------------------ *)
(* real FFT: Hermitian symmetry and the real-input inversion / isometry *)
Section RealIso.
Variable F : FieldS.
Add Field Fri : (fth F).
Notation vec := (list F).
Notation cj := (conj F).
Variable w : F.
Variable N : nat.
Variable s2 : F.
Hypothesis s2_sq : s2 * s2 = 1 + 1.
Hypothesis s2_real : cj s2 = s2.
Hypothesis two_nz : (1 + 1 : F) <> 0.
Hypothesis w_pow : rpow w N = 1.
Hypothesis w_unit : w * cj w = 1.
Hypothesis w_orth : forall d, 0 < d -> d < N -> bsum (fun k => rpow w (d * k)) N = 0.
Notation K := (N / 2 + 1)%nat.
Notation half := (1 / (1 + 1)).
Notation mf := (mfac F N).
Notation cf := (cfac F N s2).
Notation r2 := (re2 F).

Lemma half_re2_real a : cj a = a -> half * r2 a = a.
Proof. intros H; unfold re2; rewrite H. field. exact two_nz. Qed.
Lemma half_re2_two a : half * r2 ((1 + 1) * a) = a + cj a.
Proof. unfold re2. rewrite conj_mul, conj_add, conj_one. field. exact two_nz. Qed.
Lemma re2_add' a b : r2 (a + b) = r2 a + r2 b.
Proof. unfold re2; rewrite conj_add; ring. Qed.

(* sum of a Hermitian-symmetric sequence from its first N/2+1 terms, as C2R does *)
Section Herm.
Variable T : nat -> F.
Hypothesis T0 : cj (T 0%nat) = T 0%nat.
Hypothesis Ts : forall k, 0 < k -> k < N -> cj (T k) = T (N - k)%nat.

Lemma mf0 : mf 0%nat = 1.
Proof. reflexivity. Qed.
Lemma herm_odd M : N = (2 * M + 1)%nat ->
  half * r2 (bsum (fun k => mf k * T k) K) = bsum T N.
Proof. intros HN.
  assert (HK : (N / 2 = M)%nat) by (subst N; symmetry; apply (Nat.div_unique _ 2 M 1); lia).
  assert (HM : ((N - 1) / 2 = M)%nat) by (subst N; replace (2 * M + 1 - 1)%nat with (M * 2)%nat by lia; apply Nat.div_mul; lia).
  replace K with (S M) by lia. rewrite bsum_shift, mf0.
  rewrite (bsum_ext F (fun k => mf (S k) * T (S k)) (fun k => (1 + 1) * T (S k))).
  2:{ intros k Hk. unfold mfac, midb. rewrite HM.
      replace (Nat.ltb (S k) (1 + M)) with true by (symmetry; apply Nat.ltb_lt; lia). reflexivity. }
  rewrite bsum_scale, re2_add'.
  replace (half * (r2 (1 * T 0%nat) + r2 ((1 + 1) * bsum (fun k => T (S k)) M)))
    with (half * r2 (T 0%nat) + half * r2 ((1 + 1) * bsum (fun k => T (S k)) M)) by (replace (1 * T 0%nat) with (T 0%nat) by ring; ring).
  rewrite half_re2_real by exact T0. rewrite half_re2_two.
  replace (bsum T N) with (bsum T (S (M + M))) by (f_equal; lia).
  rewrite bsum_shift, bsum_split. rewrite (bsum_rev F (fun k => T (S (M + k))) M).
  rewrite conj_bsum.
  rewrite (bsum_ext F (fun k => T (S (M + (M - 1 - k)))) (fun k => cj (T (S k)))).
  2:{ intros k Hk. rewrite Ts by lia. f_equal. lia. }
  ring. Qed.
Lemma herm_even M : N = (2 * M + 2)%nat ->
  half * r2 (bsum (fun k => mf k * T k) K) = bsum T N.
Proof. intros HN.
  assert (HK : (N / 2 = S M)%nat) by (subst N; replace (2 * M + 2)%nat with (S M * 2)%nat by lia; apply Nat.div_mul; lia).
  assert (HM : ((N - 1) / 2 = M)%nat) by (subst N; symmetry; apply (Nat.div_unique _ 2 M 1); lia).
  replace K with (S (S M)) by lia. rewrite bsum_shift, mf0.
  simpl bsum at 1.
  rewrite (bsum_ext F (fun k => mf (S k) * T (S k)) (fun k => (1 + 1) * T (S k))).
  2:{ intros k Hk. unfold mfac, midb. rewrite HM.
      replace (Nat.ltb (S k) (1 + M)) with true by (symmetry; apply Nat.ltb_lt; lia). reflexivity. }
  assert (Em : mf (S M) = 1).
  { unfold mfac, midb. rewrite HM. replace (Nat.ltb (S M) (1 + M)) with false by (symmetry; apply Nat.ltb_ge; lia).
    rewrite Bool.andb_false_r. reflexivity. }
  rewrite Em, bsum_scale.
  assert (Tm : cj (T (S M)) = T (S M)) by (rewrite Ts by lia; f_equal; lia).
  replace (1 * T 0%nat) with (T 0%nat) by ring. replace (1 * T (S M)) with (T (S M)) by ring.
  rewrite !re2_add'.
  replace (half * (r2 (T 0%nat) + (r2 ((1 + 1) * bsum (fun k => T (S k)) M) + r2 (T (S M)))))
    with (half * r2 (T 0%nat) + half * r2 ((1 + 1) * bsum (fun k => T (S k)) M) + half * r2 (T (S M))) by ring.
  rewrite (half_re2_real (T 0%nat)) by exact T0. rewrite (half_re2_real (T (S M))) by exact Tm. rewrite half_re2_two.
  replace (bsum T N) with (bsum T (S (M + S M))) by (f_equal; lia).
  rewrite bsum_shift, bsum_split. rewrite (bsum_shift F (fun k => T (S (M + k)))).
  rewrite (bsum_rev F (fun k => T (S (M + S k))) M).
  rewrite conj_bsum.
  rewrite (bsum_ext F (fun k => T (S (M + S (M - 1 - k)))) (fun k => cj (T (S k)))).
  2:{ intros k Hk. rewrite Ts by lia. f_equal. lia. }
  replace (M + 0)%nat with M by lia. ring. Qed.
Lemma herm_sum : 0 < N -> half * r2 (bsum (fun k => mf k * T k) K) = bsum T N.
Proof. intros HN. destruct (Nat.Even_or_Odd N) as [[M E]|[M E]].
  - destruct M as [|M]; [lia|]. apply (herm_even M). lia.
  - apply (herm_odd M). lia. Qed.
End Herm.

Lemma cw_pow : rpow (cj w) N = 1.
Proof. rewrite <- conj_rpow, w_pow. apply conj_one. Qed.
Lemma rpow_neg (u v : F) i k : u * v = 1 -> rpow u N = 1 -> (k <= N)%nat ->
  rpow u (i * (N - k)) = rpow v (i * k).
Proof. intros Huv Hu Hk.
  assert (E : rpow u (i * k) * rpow v (i * k) = 1) by (rewrite <- rpow_mul_base, Huv; apply rpow_one).
  replace (rpow u (i * (N - k))) with (rpow u (i * (N - k)) * (rpow u (i * k) * rpow v (i * k))) by (rewrite E; ring).
  replace (rpow u (i * (N - k)) * (rpow u (i * k) * rpow v (i * k)))
    with (rpow u (i * (N - k) + i * k) * rpow v (i * k)) by (rewrite rpow_add; ring).
  replace (i * (N - k) + i * k)%nat with (N * i)%nat by nia.
  rewrite rpow_mul, Hu, rpow_one. ring. Qed.

Section RealInput.
Variable x : vec.
Hypothesis x_real : vconj F x = x.
Lemma x_real_nth j : cj (nth j x 0) = nth j x 0.
Proof. pose proof (map_nth cj x 0 j) as H. rewrite conj_zero in H. fold (vconj F x) in H. rewrite x_real in H. auto. Qed.
Definition Xk (k : nat) : F := bsum (fun i => rpow w (i * k) * nth i x 0) (length x).
(* Hermitian symmetry of the spectrum of a real vector *)
Lemma Xk_conj k : cj (Xk k) = bsum (fun i => rpow (cj w) (i * k) * nth i x 0) (length x).
Proof. unfold Xk. rewrite conj_bsum. apply bsum_ext; intros i _. rewrite conj_mul, conj_rpow, x_real_nth; auto. Qed.
Lemma Xk_herm k : (k <= N)%nat -> cj (Xk k) = Xk (N - k).
Proof. intros Hk. rewrite Xk_conj. unfold Xk. apply bsum_ext; intros i _.
  rewrite (rpow_neg w (cj w) i k w_unit w_pow Hk); auto. Qed.
Definition Tjk (j k : nat) : F := rpow (cj w) (j * k) * Xk k.
Lemma Tjk_0 j : cj (Tjk j 0) = Tjk j 0.
Proof. unfold Tjk. rewrite conj_mul, Nat.mul_0_r. simpl rpow. rewrite conj_one.
  rewrite (Xk_herm 0) by lia. rewrite Nat.sub_0_r. f_equal.
  unfold Xk. apply bsum_ext; intros i _.
  rewrite Nat.mul_0_r. replace (rpow w (i * N)) with (r1 F); [reflexivity|].
  rewrite (Nat.mul_comm i N), rpow_mul, w_pow, rpow_one; auto. Qed.
Lemma Tjk_sym j k : 0 < k -> k < N -> cj (Tjk j k) = Tjk j (N - k).
Proof. intros H1 H2. unfold Tjk. rewrite conj_mul, conj_rpow, conj_invol, Xk_herm by lia. f_equal.
  symmetry. apply rpow_neg; [rewrite <- w_unit; ring | apply cw_pow | lia]. Qed.

(* INVERSION for real input with zero padding: N * irfft(slice/sqrt2 (slice*sqrt2 (rfft x))) = N . x *)
Theorem rfft_inversion : (length x <= N)%nat -> 0 < N ->
  radj F w N s2 (length x) (rfwd F w N s2 x) = vscale F (of_nat F N) x.
Proof. intros L HN. rewrite <- (tab_nth F x) at 3. rewrite vscale_tab.
  unfold radj, lib_c2r. apply tab_ext; intros j Hj.
  rewrite (bsum_ext F _ (fun k => mf k * Tjk j k)).
  2:{ intros k Hk. rewrite nth_tab by auto. unfold rfwd. rewrite nth_tab by auto. unfold lib_rfft.
      rewrite (dft_entry F) by auto. fold (Xk k). unfold Tjk. f_equal. f_equal. field. apply (cfac_nz F N s2 s2_sq two_nz). }
  rewrite (herm_sum (Tjk j) (Tjk_0 j) (Tjk_sym j) HN).
  pose proof (dft_inversion F w N w_unit w_orth x L) as E.
  apply (f_equal (fun v => nth j v 0)) in E. rewrite nth_vscale in E. rewrite <- E.
  rewrite (dft_entry F) by auto. rewrite dft_length. apply bsum_ext; intros k Hk.
  rewrite (dft_entry F) by auto. unfold Tjk, Xk. rewrite (Nat.mul_comm k j). reflexivity. Qed.
End RealInput.
End RealIso.

(* ------------------------------------------------------------------ *)
(* real=True branch of _FFT_numpy / _FFT_scipy with norms and shifts     *)
Section RealEngine.
Variable F : FieldS.
Add Field Fre : (fth F).
Notation vec := (list F).
Notation cj := (conj F).
Notation vs := (vscale F).
Variable w : F.
Variable N : nat.
Variable s2 sq : F.
Notation nN := (of_nat F N).
Hypothesis s2_sq : s2 * s2 = 1 + 1.
Hypothesis two_nz : (1 + 1 : F) <> 0.
Hypothesis w_pow : rpow w N = 1.
Hypothesis w_unit : w * cj w = 1.
Hypothesis w_orth : forall d, 0 < d -> d < N -> bsum (fun k => rpow w (d * k)) N = 0.
Hypothesis N_nz : nN <> 0.
Hypothesis sq_sq : sq * sq = 1 / nN.
Hypothesis sq_real : cj sq = sq.
Notation K := (N / 2 + 1)%nat.
Notation cf := (cfac F N s2).

Definition sl_mul (y : vec) : vec := tab (fun k => cf k * nth k y 0) K.      (* y[..., 1:1+(nfft-1)//2] *= sqrt(2) *)
Definition sl_div (y : vec) : vec := tab (fun k => nth k y 0 / cf k) K.      (* x[..., 1:1+(nfft-1)//2] /= sqrt(2) *)
Definition lib_rfft_n (ortho : bool) (x : vec) : vec :=
  let y := dft F w K (firstn N x) in if ortho then vs sq y else y.
Definition lib_irfft_n (ortho : bool) (y : vec) : vec :=
  let z := lib_c2r F w N N y in if ortho then vs sq z else vs (1 / nN) z.
Definition rfwd_np (c : fcfg) (x : vec) : vec :=
  let x := if c_sb c then ifftshift F x else x in
  let y := sl_mul (lib_rfft_n (is_ortho (c_norm c)) x) in
  let y := match c_norm c with OneOverN => vs (scale_np F N c) y | _ => y end in
  if c_sa c then fftshift F y else y.
Definition radj_np (c : fcfg) (y : vec) : vec :=
  let y := if c_sa c then ifftshift F y else y in
  let z := lib_irfft_n (is_ortho (c_norm c)) (sl_div y) in
  let z := match c_norm c with NoneN => vs (scale_np F N c) z | _ => z end in
  let z := fit F (c_n c) z in
  if c_sb c then fftshift F z else z.
Definition rdiv_np (c : fcfg) (y : vec) : vec :=
  match c_norm c with Ortho => radj_np c y | _ => vdiv F (radj_np c y) (scale_np F N c) end.

Definition rcore_fwd (c : fcfg) (x : vec) : vec :=
  let x := if c_sb c then ifftshift F x else x in
  let y := rfwd F w N s2 (firstn N x) in
  if c_sa c then fftshift F y else y.
Definition rcore_adj (c : fcfg) (y : vec) : vec :=
  let y := if c_sa c then ifftshift F y else y in
  let z := fit F (c_n c) (radj F w N s2 N y) in
  if c_sb c then fftshift F z else z.

Lemma sl_mul_vscale a y : sl_mul (vs a y) = vs a (sl_mul y).
Proof. unfold sl_mul. rewrite vscale_tab. apply tab_ext; intros k _. rewrite nth_vscale. ring. Qed.
Lemma sl_div_vscale a y : sl_div (vs a y) = vs a (sl_div y).
Proof. unfold sl_div. rewrite vscale_tab. apply tab_ext; intros k _. rewrite nth_vscale. field.
  apply (cfac_nz F N s2 s2_sq two_nz). Qed.
Lemma c2r_vscale a n y : cj a = a -> lib_c2r F w N n (vs a y) = vs a (lib_c2r F w N n y).
Proof. intros Ha. unfold lib_c2r. rewrite vscale_tab. apply tab_ext; intros j _.
  rewrite (bsum_ext F _ (fun k => a * (mfac F N k * (rpow (cj w) (j * k) * nth k y 0)))) by (intros; rewrite nth_vscale; ring).
  rewrite bsum_scale. unfold re2. rewrite conj_mul, Ha. ring. Qed.
Lemma radj_vscale a n y : cj a = a -> radj F w N s2 n (vs a y) = vs a (radj F w N s2 n y).
Proof. intros Ha. unfold radj. fold (sl_div (vs a y)). fold (sl_div y). rewrite sl_div_vscale. apply c2r_vscale; auto. Qed.
Lemma rfwd_as_sl x : rfwd F w N s2 x = sl_mul (dft F w K x).
Proof. reflexivity. Qed.
Lemma radj_as_sl n y : radj F w N s2 n y = lib_c2r F w N n (sl_div y).
Proof. reflexivity. Qed.
Lemma iN_real : cj (1 / nN) = 1 / nN.
Proof. assert (E : cj (1 / nN) * nN = r1 F).
  { replace (cj (1 / nN) * nN) with (cj (1 / nN * nN)) by (rewrite conj_mul, (conj_of_nat F); auto).
    replace (1 / nN * nN) with (r1 F) by (field; exact N_nz). apply conj_one. }
  replace (cj (1 / nN)) with (cj (1 / nN) * nN * (1 / nN)) by (field; exact N_nz).
  rewrite E. field. exact N_nz. Qed.
Lemma fscale_re c : cj (fscale F N sq c) = fscale F N sq c.
Proof. unfold fscale. destruct (c_norm c); auto using conj_one, iN_real. Qed.

Lemma sqn : sq <> 0. Proof. exact (sq_nz F N N_nz sq sq_sq). Qed.
Lemma iNn : 1 / nN <> 0. Proof. exact (iN_nz F N N_nz). Qed.
Lemma onen : r1 F <> 0. Proof. exact (F_1_neq_0 (fth F)). Qed.
Ltac rnz := solve [ repeat split; first [ exact sqn | exact N_nz | exact iNn | exact onen ] ].

Lemma rfwd_np_nf c x : rfwd_np c x = vs (fscale F N sq c) (rcore_fwd c x).
Proof. destruct c as [nm n sb sa]; unfold rfwd_np, rcore_fwd, fscale, scale_np, lib_rfft_n; simpl.
  rewrite !rfwd_as_sl.
  destruct nm, sb, sa; simpl; rewrite ?sl_mul_vscale, ?(fftshift_vscale F), ?vscale_vscale;
  first [ reflexivity | symmetry; apply vscale_one ]. Qed.
Lemma radj_np_nf c y : radj_np c y = vs (fscale F N sq c) (rcore_adj c y).
Proof. destruct c as [nm n sb sa]; unfold radj_np, rcore_adj, fscale, scale_np, lib_irfft_n; simpl.
  rewrite !radj_as_sl.
  destruct nm, sb, sa; simpl; rewrite ?(fit_vscale F), ?(fftshift_vscale F), ?vscale_vscale;
  first [ reflexivity | rewrite <- (vscale_one F) at 1; apply f_equal2; auto; field; rnz
        | apply f_equal2; auto; field; rnz ]. Qed.
Lemma rdiv_np_nf c y : rdiv_np c y = vs (dscale F N sq c) (rcore_adj c y).
Proof. unfold rdiv_np. rewrite radj_np_nf. destruct c as [nm n sb sa]; unfold dscale, fscale, scale_np; simpl.
  destruct nm; simpl; auto.
  - rewrite (vdiv_vscale F _ _ N_nz), vscale_vscale. apply f_equal2; auto. field; rnz.
  - rewrite (vdiv_vscale F _ _ iNn), vscale_vscale. apply f_equal2; auto. field; rnz. Qed.

Lemma vconj_rotl k (x : vec) : vconj F (rotl F k x) = rotl F k (vconj F x).
Proof. unfold vconj, rotl. rewrite map_app, firstn_map, skipn_map; auto. Qed.
Lemma vconj_ifftshift (x : vec) : vconj F x = x -> vconj F (ifftshift F x) = ifftshift F x.
Proof. intros H. unfold ifftshift. rewrite vconj_rotl, H; auto. Qed.

Lemma rcore_inverse c x : vconj F x = x -> length x = c_n c -> (c_n c <= N)%nat -> 0 < N ->
  rcore_adj c (rcore_fwd c x) = vs nN x.
Proof. intros Hr H L HN. unfold rcore_adj, rcore_fwd.
  set (x1 := if c_sb c then ifftshift F x else x).
  assert (H1 : length x1 = c_n c) by (unfold x1; destruct (c_sb c); rewrite ?(ifftshift_length F); auto).
  assert (R1 : vconj F x1 = x1) by (unfold x1; destruct (c_sb c); auto using vconj_ifftshift).
  assert (E : (if c_sa c then ifftshift F (if c_sa c then fftshift F (rfwd F w N s2 (firstn N x1)) else rfwd F w N s2 (firstn N x1))
               else (if c_sa c then fftshift F (rfwd F w N s2 (firstn N x1)) else rfwd F w N s2 (firstn N x1)))
              = rfwd F w N s2 x1).
  { rewrite firstn_all2 by lia. destruct (c_sa c); auto. apply (ifftshift_fftshift F). }
  rewrite E.
  assert (Ef : fit F (c_n c) (radj F w N s2 N (rfwd F w N s2 x1)) = radj F w N s2 (c_n c) (rfwd F w N s2 x1)).
  { unfold fit, radj, lib_c2r. rewrite tab_length. replace (c_n c - N)%nat with 0%nat by lia. simpl.
    rewrite app_nil_r. apply firstn_tab; auto. }
  rewrite Ef, <- H1.
  rewrite (rfft_inversion F w N s2 s2_sq two_nz w_pow w_unit w_orth x1 R1) by lia.
  unfold x1. destruct (c_sb c); auto. rewrite (fftshift_vscale F), (fftshift_ifftshift F); auto. Qed.

Lemma rcore_adj_vscale a c y : cj a = a -> rcore_adj c (vs a y) = vs a (rcore_adj c y).
Proof. intros Ha. unfold rcore_adj.
  destruct (c_sa c), (c_sb c); rewrite ?(ifftshift_vscale F), ?radj_vscale, ?(fit_vscale F), ?(fftshift_vscale F); auto. Qed.

(* '/' inverts for every norm; the adjoint inverts for ortho: REAL input, n <= nfft, both shifts *)
Theorem rfft_np_div_inverts c x : vconj F x = x -> length x = c_n c -> (c_n c <= N)%nat -> 0 < N ->
  rdiv_np c (rfwd_np c x) = x.
Proof. intros Hr H L HN. rewrite rfwd_np_nf, rdiv_np_nf, rcore_adj_vscale by apply fscale_re.
  rewrite rcore_inverse, !vscale_vscale by auto.
  rewrite <- (vscale_one F x) at 2. apply f_equal2; auto. unfold dscale, fscale.
  destruct (c_norm c); try (field; exact N_nz).
  replace (sq * sq * nN) with (1 / nN * nN) by (rewrite <- sq_sq; ring). field. exact N_nz. Qed.
Theorem rfft_np_unitary_ortho c x : c_norm c = Ortho -> vconj F x = x -> length x = c_n c -> (c_n c <= N)%nat -> 0 < N ->
  radj_np c (rfwd_np c x) = x.
Proof. intros Ho Hr H L HN. rewrite <- (rfft_np_div_inverts c x Hr H L HN) at 2.
  rewrite radj_np_nf, rdiv_np_nf. unfold dscale, fscale. rewrite Ho. auto. Qed.
End RealEngine.

(* ------------------------------------------------------------------ *)
(* 2-D: lifting a 1-D map along the rows / the columns of a matrix     *)
Section Lift2D.
Variable R : CRing.
Add Ring Rl2 : (rth R).
Notation vec := (list R).
Notation mat := (list (list R)).
Notation tr := (transpose R).

Definition rowsL (f : vec -> vec) (X : mat) : mat := map f X.                  (* along the LAST axis *)
Definition colsL (f : vec -> vec) (c m : nat) (X : mat) : mat :=               (* along the FIRST axis: c columns, fibres -> length m *)
  tr m (map f (tr c X)).
Definition msc (s : R) (X : mat) : mat := map (vscale R s) X.

Lemma wfM_map (f : vec -> vec) n m (X : mat) :
  (forall x, length x = n -> length (f x) = m) -> wfM R n X -> wfM R m (map f X).
Proof. intros H W. unfold wfM in *. apply Forall_map. eapply Forall_impl; [|exact W]. intros x Hx; simpl; auto. Qed.
Lemma wfM_firstn n k (X : mat) : wfM R n X -> wfM R n (firstn k X).
Proof. unfold wfM; intros W; revert k; induction W; intros [|k]; simpl; constructor; auto. Qed.
Lemma map2_cons_map (g : vec -> vec) (h : R -> R) (r : vec) (T : mat) :
  (forall a t, g (a :: t) = h a :: g t) ->
  map g (map2 cons r T) = map2 cons (map h r) (map g T).
Proof. intros H. revert T; induction r as [|a r IH]; intros [|t T]; simpl; auto. rewrite H, IH; auto. Qed.

(* transpose vs cropping / scaling *)
Lemma map_firstn_nils k m : map (firstn k) (repeat (@nil R) m) = repeat [] m.
Proof. induction m; simpl; auto. rewrite IHm. destruct k; auto. Qed.
Lemma map_firstn0 (T : mat) : map (firstn 0) T = repeat [] (length T).
Proof. induction T; simpl; auto. f_equal; auto. Qed.
Lemma map_firstn_S k (r : vec) (T : mat) : map (firstn (S k)) (map2 cons r T) = map2 cons r (map (firstn k) T).
Proof. revert T; induction r as [|a r IH]; intros [|t T]; simpl; auto. f_equal; auto. Qed.
Lemma tr_firstn m k (L : mat) : wfM R m L -> tr m (firstn k L) = map (firstn k) (tr m L).
Proof. revert k; induction L as [|r L IH]; intros k W.
  - rewrite firstn_nil. simpl. rewrite map_firstn_nils; auto.
  - destruct k as [|k].
    + simpl firstn. simpl tr at 1. rewrite map_firstn0, transpose_length; auto.
    + inversion W; subst.
      change (firstn (S k) (r :: L)) with (r :: firstn k L).
      change (tr (length r) (r :: firstn k L)) with (map2 cons r (tr (length r) (firstn k L))).
      change (tr (length r) (r :: L)) with (map2 cons r (tr (length r) L)).
      rewrite IH by auto. rewrite map_firstn_S; auto. Qed.
Lemma tr_crop_rows c k (X : mat) : wfM R c X -> (k <= c)%nat -> tr k (map (firstn k) X) = firstn k (tr c X).
Proof. intros W L.
  assert (W' := wfM_transpose R c X W).
  rewrite <- (transpose_involutive R c X W) at 1.
  rewrite <- tr_firstn by auto.
  assert (Wk : wfM R (length X) (firstn k (tr c X))) by (apply wfM_firstn; auto).
  pose proof (transpose_involutive R _ _ Wk) as E.
  rewrite firstn_length, (transpose_length R c X W), Nat.min_l in E by auto. exact E. Qed.

Lemma map2_cons_vscale s (r : vec) (T : mat) :
  map (vscale R s) (map2 cons r T) = map2 cons (vscale R s r) (map (vscale R s) T).
Proof. revert T; induction r as [|a r IH]; intros [|t T]; simpl; auto. f_equal; auto. Qed.
Lemma msc_nils s m : msc s (repeat [] m) = repeat [] m.
Proof. induction m; simpl; auto. unfold msc in *; rewrite IHm; auto. Qed.
Lemma tr_msc s c (M : mat) : tr c (msc s M) = msc s (tr c M).
Proof. induction M as [|r M IH].
  - simpl. rewrite msc_nils; auto.
  - change (tr c (msc s (r :: M))) with (map2 cons (vscale R s r) (tr c (msc s M))).
    change (tr c (r :: M)) with (map2 cons r (tr c M)).
    rewrite IH. unfold msc. rewrite map2_cons_vscale; auto. Qed.
Lemma msc_msc a b X : msc a (msc b X) = msc (a * b) X.
Proof. unfold msc. rewrite map_map. apply map_ext; intros; apply vscale_vscale. Qed.
Lemma msc_one X : msc 1 X = X.
Proof. unfold msc. rewrite <- (map_id X) at 2. apply map_ext; intros; apply vscale_one. Qed.
Lemma msc_firstn s k X : firstn k (msc s X) = msc s (firstn k X).
Proof. unfold msc. apply firstn_map. Qed.
Lemma msc_crop1 s k X : map (firstn k) (msc s X) = msc s (map (firstn k) X).
Proof. unfold msc. rewrite !map_map. apply map_ext; intros. unfold vscale. apply firstn_map. Qed.
Lemma rowsL_msc f s X : (forall a x, f (vscale R a x) = vscale R a (f x)) -> rowsL f (msc s X) = msc s (rowsL f X).
Proof. intros H. unfold rowsL, msc. rewrite !map_map. apply map_ext; intros; apply H. Qed.
Lemma colsL_msc f c m s X : (forall a x, f (vscale R a x) = vscale R a (f x)) ->
  colsL f c m (msc s X) = msc s (colsL f c m X).
Proof. intros H. unfold colsL. rewrite tr_msc. fold (rowsL f (msc s (tr c X))). rewrite rowsL_msc by auto.
  apply tr_msc. Qed.

Lemma wfM_colsL f c m X : wfM R c X -> (forall x, length x = length X -> length (f x) = m) ->
  wfM R c (colsL f c m X) /\ length (colsL f c m X) = m.
Proof. intros W Hf. unfold colsL.
  assert (W1 : wfM R (length X) (tr c X)) by (apply wfM_transpose; auto).
  assert (W2 : wfM R m (map f (tr c X))) by (eapply wfM_map; eauto).
  split.
  - pose proof (wfM_transpose R m _ W2) as W3. rewrite map_length, (transpose_length R c X W) in W3. exact W3.
  - apply transpose_length; auto. Qed.
(* crop along the rows commutes with a map along the columns *)
Lemma colsL_crop1 f c m k X : wfM R c X -> (k <= c)%nat -> (forall x, length x = length X -> length (f x) = m) ->
  map (firstn k) (colsL f c m X) = colsL f k m (map (firstn k) X).
Proof. intros W L Hf. unfold colsL. rewrite (tr_crop_rows c k X W L).
  rewrite <- firstn_map. rewrite tr_firstn; auto.
  eapply wfM_map; [|apply wfM_transpose; auto]. auto. Qed.
Lemma colsL_compose f g c m m' X : wfM R c X -> (forall x, length x = length X -> length (f x) = m) ->
  colsL g c m' (colsL f c m X) = colsL (fun x => g (f x)) c m' X.
Proof. intros W Hf. unfold colsL.
  assert (W2 : wfM R m (map f (tr c X))) by (eapply wfM_map; [|apply wfM_transpose; auto]; auto).
  pose proof (transpose_involutive R m _ W2) as E. rewrite map_length, (transpose_length R c X W) in E.
  rewrite E, map_map. auto. Qed.
Lemma colsL_crop0 f c m k X : wfM R c X -> (k <= m)%nat -> (forall x, length x = length X -> length (f x) = m) ->
  firstn k (colsL f c m X) = colsL (fun x => firstn k (f x)) c k X.
Proof. intros W L Hf. unfold colsL.
  assert (W2 : wfM R m (map f (tr c X))) by (eapply wfM_map; [|apply wfM_transpose; auto]; auto).
  rewrite <- (tr_crop_rows m k _ W2 L). rewrite map_map. auto. Qed.
Lemma colsL_scalar (h : vec -> vec) s c X : wfM R c X -> (forall x, length x = length X -> h x = vscale R s x) ->
  colsL h c (length X) X = msc s X.
Proof. intros W Hh. unfold colsL.
  assert (W1 : wfM R (length X) (tr c X)) by (apply wfM_transpose; auto).
  rewrite (map_ext_in h (vscale R s)).
  2:{ intros x Hx. apply Hh. apply (proj1 (Forall_forall _ _) W1); auto. }
  fold (msc s (tr c X)). rewrite tr_msc. rewrite transpose_involutive; auto. Qed.

(* rotation of the outer list (shift along the first axis) *)
Definition rotlA {A} (k : nat) (l : list A) : list A := skipn k l ++ firstn k l.
Lemma rotlA_length {A} k (l : list A) : length (rotlA k l) = length l.
Proof. unfold rotlA. rewrite app_length, skipn_length, firstn_length. lia. Qed.
Lemma rotlA_inverse {A} k (l : list A) : (k <= length l)%nat -> rotlA (length l - k) (rotlA k l) = l.
Proof. intros L. unfold rotlA.
  assert (E : length (skipn k l) = (length l - k)%nat) by apply skipn_length.
  rewrite skipn_app, firstn_app, E, Nat.sub_diag. simpl.
  rewrite <- E at 1. rewrite skipn_all. rewrite <- E at 1. rewrite firstn_all. simpl.
  rewrite app_nil_r. apply firstn_skipn. Qed.
Definition fftshift0 {A} (l : list A) : list A := rotlA (length l - length l / 2) l.
Definition ifftshift0 {A} (l : list A) : list A := rotlA (length l / 2) l.
Lemma fftshift0_ifftshift0 {A} (l : list A) : fftshift0 (ifftshift0 l) = l.
Proof. unfold fftshift0, ifftshift0. rewrite rotlA_length. apply rotlA_inverse. apply Nat.div_le_upper_bound; lia. Qed.
Lemma ifftshift0_fftshift0 {A} (l : list A) : ifftshift0 (fftshift0 l) = l.
Proof. unfold fftshift0, ifftshift0. rewrite rotlA_length.
  assert (L : (length l / 2 <= length l)%nat) by (apply Nat.div_le_upper_bound; lia).
  replace (length l / 2)%nat with (length l - (length l - length l / 2))%nat at 1 by lia.
  apply rotlA_inverse. lia. Qed.
Lemma rotlA_map {A B} (f : A -> B) k l : rotlA k (map f l) = map f (rotlA k l).
Proof. unfold rotlA. rewrite map_app, firstn_map, skipn_map; auto. Qed.
Lemma wfM_rotlA n k (X : mat) : wfM R n X -> wfM R n (rotlA k X).
Proof. unfold wfM, rotlA; intros W. apply Forall_app; split.
  - rewrite <- (firstn_skipn k X) in W. apply Forall_app in W; tauto.
  - apply wfM_firstn; auto. Qed.
End Lift2D.

(* ------------------------------------------------------------------ *)
(* FFT2D (fft2d.py; the FFTND classes of fftnd.py place everything identically)
   on a 2-D array, axes = (0, 1), complex-linear branch.  X : n0 rows x n1
   columns.  Library primitives (documented behaviour):
     fft2(x, s=(N0,N1))  = DFT along both axes of x truncated / zero padded to N0 x N1
                           (norm="ortho": times sqrt(1/(N0 N1)))
     ifft2(y, s=(N0,N1)) = (1/(N0 N1)) conj-DFT along both axes (ortho: sqrt(1/(N0 N1)))
   The 2-D transform is modelled as "axis 0 then axis 1" forward and "axis 1
   then axis 0" backward (the library result is the documented double sum). *)
Record cfg2 := { d_norm : fnorm; d_n0 : nat; d_n1 : nat; d_sb0 : bool; d_sb1 : bool; d_sa0 : bool; d_sa1 : bool }.

Section FFT2D.
Variable F : FieldS.
Add Field Ff2 : (fth F).
Notation vec := (list F).
Notation mat := (list (list F)).
Notation cj := (conj F).
Variables w0 w1 : F.
Variables N0 N1 : nat.
Notation nN0 := (of_nat F N0).
Notation nN1 := (of_nat F N1).
Notation nP := (of_nat F (N0 * N1)).          (* np.prod(self.nffts) *)
Hypothesis w0_unit : w0 * cj w0 = 1.
Hypothesis w0_orth : forall d, 0 < d -> d < N0 -> bsum (fun k => rpow w0 (d * k)) N0 = 0.
Hypothesis w1_unit : w1 * cj w1 = 1.
Hypothesis w1_orth : forall d, 0 < d -> d < N1 -> bsum (fun k => rpow w1 (d * k)) N1 = 0.
Hypothesis P_nz : nP <> 0.
Variable sqP : F.
Hypothesis sqP_sq : sqP * sqP = 1 / nP.
Notation ms := (msc F).

Definition shB (c : cfg2) (X : mat) : mat :=
  let X := if d_sb0 c then ifftshift0 X else X in if d_sb1 c then map (ifftshift F) X else X.
Definition shBi (c : cfg2) (Z : mat) : mat :=
  let Z := if d_sb1 c then map (fftshift F) Z else Z in if d_sb0 c then fftshift0 Z else Z.
Definition shA (c : cfg2) (Y : mat) : mat :=
  let Y := if d_sa0 c then fftshift0 Y else Y in if d_sa1 c then map (fftshift F) Y else Y.
Definition shAi (c : cfg2) (Y : mat) : mat :=
  let Y := if d_sa1 c then map (ifftshift F) Y else Y in if d_sa0 c then ifftshift0 Y else Y.
Definition f0 (x : vec) : vec := dft F w0 N0 (firstn N0 x).
Definition f1 (x : vec) : vec := dft F w1 N1 (firstn N1 x).
Definition T2 (c : cfg2) (X : mat) : mat := rowsL F f1 (colsL F f0 (d_n1 c) N0 X).
Definition I2 (Y : mat) : mat := colsL F (dft F (cj w0) N0) N1 N0 (rowsL F (dft F (cj w1) N1) Y).
Definition crop2 (c : cfg2) (Z : mat) : mat := map (firstn (d_n1 c)) (firstn (d_n0 c) Z).   (* np.take axis 0, then axis 1 *)
Definition core_fwd2 (c : cfg2) (X : mat) : mat := shA c (T2 c (shB c X)).
Definition core_adj2 (c : cfg2) (Y : mat) : mat := shBi c (crop2 c (I2 (shAi c Y))).

Definition scale2 (c : cfg2) : F := match d_norm c with NoneN => nP | OneOverN => 1 / nP | Ortho => 1 end.
Definition mdiv (X : mat) (s : F) : mat := map (fun r => vdiv F r s) X.
(* ---- engine = numpy (_FFT2D_numpy) ---- *)
Definition fwd2_numpy (c : cfg2) (X : mat) : mat :=
  let X := shB c X in
  let Y := if is_ortho (d_norm c) then ms sqP (T2 c X) else T2 c X in
  let Y := match d_norm c with OneOverN => ms (scale2 c) Y | _ => Y end in
  shA c Y.
Definition adj2_numpy (c : cfg2) (Y : mat) : mat :=
  let Y := shAi c Y in
  let Z := if is_ortho (d_norm c) then ms sqP (I2 Y) else ms (1 / nP) (I2 Y) in
  let Z := match d_norm c with NoneN => ms (scale2 c) Z | _ => Z end in
  shBi c (crop2 c Z).
Definition div2_numpy (c : cfg2) (Y : mat) : mat :=
  match d_norm c with Ortho => adj2_numpy c Y | _ => mdiv (adj2_numpy c Y) (scale2 c) end.
(* ---- engine = scipy (_FFT2D_scipy, after the scaling fix: same placement, scipy.fft calls) ---- *)
Definition fwd2_scipy (c : cfg2) (X : mat) : mat :=
  let X := shB c X in
  let Y := if is_ortho (d_norm c) then ms sqP (T2 c X) else T2 c X in
  let Y := match d_norm c with OneOverN => ms (scale2 c) Y | _ => Y end in
  shA c Y.
Definition adj2_scipy (c : cfg2) (Y : mat) : mat :=
  let Y := shAi c Y in
  let Z := if is_ortho (d_norm c) then ms sqP (I2 Y) else ms (1 / nP) (I2 Y) in
  let Z := match d_norm c with NoneN => ms (scale2 c) Z | _ => Z end in
  shBi c (crop2 c Z).
Definition div2_scipy (c : cfg2) (Y : mat) : mat :=
  match d_norm c with Ortho => adj2_scipy c Y | _ => mdiv (adj2_scipy c Y) (scale2 c) end.

Definition fscale2 (c : cfg2) : F := match d_norm c with Ortho => sqP | NoneN => 1 | OneOverN => 1 / nP end.
Definition dscale2 (c : cfg2) : F := match d_norm c with Ortho => sqP | NoneN => 1 / nP | OneOverN => 1 end.

Lemma iP_nz : 1 / nP <> 0.
Proof. intros E. assert (H : 1 / nP * nP = r1 F) by (field; exact P_nz).
  rewrite E in H. apply (F_1_neq_0 (fth F)). rewrite <- H. ring. Qed.
Lemma mdiv_ms X s : s <> 0 -> mdiv X s = ms (1 / s) X.
Proof. intros H. unfold mdiv, msc. apply map_ext; intros. apply vdiv_vscale; auto. Qed.
Lemma ms_eq a b X : a = b -> ms a X = ms b X.
Proof. intros ->; auto. Qed.

(* linearity of the structural pieces *)
Lemma map_shift_ms (g : vec -> vec) s X : (forall a x, g (vscale F a x) = vscale F a (g x)) -> map g (ms s X) = ms s (map g X).
Proof. intros H. apply (rowsL_msc F g s X H). Qed.
Lemma fftshift0_ms s (Y : mat) : fftshift0 (ms s Y) = ms s (fftshift0 Y).
Proof. unfold fftshift0, msc. rewrite map_length, rotlA_map; auto. Qed.
Lemma ifftshift0_ms s (Y : mat) : ifftshift0 (ms s Y) = ms s (ifftshift0 Y).
Proof. unfold ifftshift0, msc. rewrite map_length, rotlA_map; auto. Qed.
Lemma mapf_ms s (Y : mat) : map (fftshift F) (ms s Y) = ms s (map (fftshift F) Y).
Proof. apply map_shift_ms. apply (fftshift_vscale F). Qed.
Lemma mapi_ms s (Y : mat) : map (ifftshift F) (ms s Y) = ms s (map (ifftshift F) Y).
Proof. apply map_shift_ms. apply (ifftshift_vscale F). Qed.
Lemma shA_ms c s Y : shA c (ms s Y) = ms s (shA c Y).
Proof. unfold shA. destruct (d_sa0 c), (d_sa1 c); rewrite ?fftshift0_ms, ?mapf_ms; auto. Qed.
Lemma shAi_ms c s Y : shAi c (ms s Y) = ms s (shAi c Y).
Proof. unfold shAi. destruct (d_sa0 c), (d_sa1 c); rewrite ?mapi_ms, ?ifftshift0_ms; auto. Qed.
Lemma shBi_ms c s Y : shBi c (ms s Y) = ms s (shBi c Y).
Proof. unfold shBi. destruct (d_sb0 c), (d_sb1 c); rewrite ?mapf_ms, ?fftshift0_ms; auto. Qed.
Lemma crop2_ms c s Z : crop2 c (ms s Z) = ms s (crop2 c Z).
Proof. unfold crop2. rewrite msc_firstn, msc_crop1; auto. Qed.
Lemma I2_ms s Y : I2 (ms s Y) = ms s (I2 Y).
Proof. unfold I2. rewrite rowsL_msc by (intros; apply (dft_vscale F)). apply colsL_msc. intros; apply (dft_vscale F). Qed.
Lemma core_adj2_ms c s Y : core_adj2 c (ms s Y) = ms s (core_adj2 c Y).
Proof. unfold core_adj2. rewrite shAi_ms, I2_ms, crop2_ms, shBi_ms; auto. Qed.

(* normal forms *)
Lemma fwd2_numpy_nf c X : fwd2_numpy c X = ms (fscale2 c) (core_fwd2 c X).
Proof. unfold fwd2_numpy, core_fwd2, fscale2, scale2. destruct (d_norm c); simpl;
  rewrite ?shA_ms, ?msc_one; auto. Qed.
Lemma adj2_numpy_nf c Y : adj2_numpy c Y = ms (fscale2 c) (core_adj2 c Y).
Proof. unfold adj2_numpy, core_adj2, fscale2, scale2. destruct (d_norm c); simpl;
  rewrite ?msc_msc, ?crop2_ms, ?shBi_ms; auto.
  apply ms_eq. field. exact P_nz. Qed.
Lemma div2_numpy_nf c Y : div2_numpy c Y = ms (dscale2 c) (core_adj2 c Y).
Proof. unfold div2_numpy. rewrite adj2_numpy_nf. unfold dscale2, fscale2, scale2. destruct (d_norm c); auto.
  - rewrite (mdiv_ms _ _ P_nz), msc_msc. apply ms_eq. field. exact P_nz.
  - rewrite (mdiv_ms _ _ iP_nz), msc_msc. apply ms_eq. field. split; [exact P_nz | exact (F_1_neq_0 (fth F))]. Qed.
Lemma fwd2_scipy_nf c X : fwd2_scipy c X = ms (fscale2 c) (core_fwd2 c X).
Proof. exact (fwd2_numpy_nf c X). Qed.
Lemma adj2_scipy_nf c Y : adj2_scipy c Y = ms (fscale2 c) (core_adj2 c Y).
Proof. exact (adj2_numpy_nf c Y). Qed.
Lemma div2_scipy_nf c Y : div2_scipy c Y = ms (dscale2 c) (core_adj2 c Y).
Proof. exact (div2_numpy_nf c Y). Qed.
Theorem fft2_engines_agree c X Y :
  fwd2_numpy c X = fwd2_scipy c X /\ adj2_numpy c Y = adj2_scipy c Y /\ div2_numpy c Y = div2_scipy c Y.
Proof. rewrite fwd2_numpy_nf, fwd2_scipy_nf, adj2_numpy_nf, adj2_scipy_nf, div2_numpy_nf, div2_scipy_nf; auto. Qed.

(* shapes and shift inverses *)
Lemma shB_shape c X : wfM F (d_n1 c) X -> wfM F (d_n1 c) (shB c X) /\ length (shB c X) = length X.
Proof. intros W. unfold shB, ifftshift0.
  assert (W1 : wfM F (d_n1 c) (if d_sb0 c then rotlA (length X / 2) X else X)) by (destruct (d_sb0 c); auto using wfM_rotlA).
  assert (L1 : length (if d_sb0 c then rotlA (length X / 2) X else X) = length X) by (destruct (d_sb0 c); auto using rotlA_length).
  destruct (d_sb1 c); [|auto]. split; [|rewrite map_length; auto].
  eapply wfM_map; [|exact W1]. intros; rewrite (ifftshift_length F); auto. Qed.
Lemma shAi_shA c Y : shAi c (shA c Y) = Y.
Proof. unfold shAi, shA.
  assert (E : forall Z : mat, map (ifftshift F) (map (fftshift F) Z) = Z).
  { intros Z. rewrite map_map. rewrite <- (map_id Z) at 2. apply map_ext; intros; apply (ifftshift_fftshift F). }
  destruct (d_sa1 c); rewrite ?E; destruct (d_sa0 c); auto using ifftshift0_fftshift0. Qed.
Lemma shBi_shB c X : shBi c (shB c X) = X.
Proof. unfold shBi, shB.
  assert (E : forall Z : mat, map (fftshift F) (map (ifftshift F) Z) = Z).
  { intros Z. rewrite map_map. rewrite <- (map_id Z) at 2. apply map_ext; intros; apply (fftshift_ifftshift F). }
  destruct (d_sb1 c); rewrite ?E; destruct (d_sb0 c); auto using fftshift0_ifftshift0. Qed.

Lemma f0_length x : length (f0 x) = N0.
Proof. unfold f0; apply dft_length. Qed.
Lemma f1_length x : length (f1 x) = N1.
Proof. unfold f1; apply dft_length. Qed.
Lemma inv0 x : (length x <= N0)%nat -> firstn (length x) (dft F (cj w0) N0 (f0 x)) = vscale F nN0 x.
Proof. intros L. unfold f0. rewrite (@firstn_all2 _ N0 x) by auto.
  change (firstn (length x) (dft F (cj w0) N0 (dft F w0 N0 x))) with (trunc F (length x) (dft F (cj w0) N0 (dft F w0 N0 x))).
  rewrite (trunc_dft F) by auto. apply (dft_inversion F w0 N0 w0_unit w0_orth); auto. Qed.
Lemma inv1 x : (length x <= N1)%nat -> firstn (length x) (dft F (cj w1) N1 (f1 x)) = vscale F nN1 x.
Proof. intros L. unfold f1. rewrite (@firstn_all2 _ N1 x) by auto.
  change (firstn (length x) (dft F (cj w1) N1 (dft F w1 N1 x))) with (trunc F (length x) (dft F (cj w1) N1 (dft F w1 N1 x))).
  rewrite (trunc_dft F) by auto. apply (dft_inversion F w1 N1 w1_unit w1_orth); auto. Qed.

(* the heart: crop (ifft2-core (fft2-core X)) = (N0 N1) . X, using that an operation along
   the rows commutes with cropping the columns *)
Lemma crop_I_T c X : wfM F (d_n1 c) X -> length X = d_n0 c -> (d_n0 c <= N0)%nat -> (d_n1 c <= N1)%nat ->
  crop2 c (I2 (T2 c X)) = ms nP X.
Proof. intros W Hl L0 L1. unfold crop2, I2, T2.
  destruct (wfM_colsL F f0 (d_n1 c) N0 X W (fun x _ => f0_length x)) as [WY LY].
  set (Y := colsL F f0 (d_n1 c) N0 X) in *.
  unfold rowsL. rewrite map_map. set (h1 := fun y => dft F (cj w1) N1 (f1 y)).
  assert (Wh : wfM F N1 (map h1 Y)) by (eapply wfM_map; [|exact WY]; intros; unfold h1; apply dft_length).
  rewrite <- firstn_map.
  rewrite (colsL_crop1 F (dft F (cj w0) N0) N1 N0 (d_n1 c) (map h1 Y) Wh L1) by (intros; apply dft_length).
  assert (E1 : map (firstn (d_n1 c)) (map h1 Y) = ms nN1 Y).
  { rewrite map_map. unfold msc. apply map_ext_in. intros y Hy.
    assert (Ly : length y = d_n1 c) by (apply (proj1 (Forall_forall _ _) WY); auto).
    unfold h1. rewrite <- Ly. apply inv1. lia. }
  rewrite E1. rewrite colsL_msc by (intros; apply (dft_vscale F)). rewrite msc_firstn.
  unfold Y. rewrite (colsL_compose F f0 (dft F (cj w0) N0) (d_n1 c) N0 N0 X W) by (intros; apply f0_length).
  rewrite (colsL_crop0 F _ (d_n1 c) N0 (d_n0 c) X W L0) by (intros; apply dft_length).
  pose proof (colsL_scalar F (fun x => firstn (d_n0 c) (dft F (cj w0) N0 (f0 x))) nN0 (d_n1 c) X W) as E2.
  rewrite Hl in E2. rewrite E2.
  2:{ intros x Hx. rewrite <- Hx. apply inv0. lia. }
  rewrite msc_msc. apply ms_eq. rewrite of_nat_mul. ring. Qed.

Lemma core2_inverse c X : wfM F (d_n1 c) X -> length X = d_n0 c -> (d_n0 c <= N0)%nat -> (d_n1 c <= N1)%nat ->
  core_adj2 c (core_fwd2 c X) = ms nP X.
Proof. intros W Hl L0 L1. unfold core_adj2, core_fwd2. rewrite shAi_shA.
  destruct (shB_shape c X W) as [W1 Hl1].
  rewrite crop_I_T by (auto; lia). rewrite shBi_ms, shBi_shB; auto. Qed.

(* '/' inverts for every norm; the adjoint inverts for ortho; both shifts on both axes; nffts >= dims *)
Theorem fft2_div_inverts c X : wfM F (d_n1 c) X -> length X = d_n0 c -> (d_n0 c <= N0)%nat -> (d_n1 c <= N1)%nat ->
  div2_numpy c (fwd2_numpy c X) = X /\ div2_scipy c (fwd2_scipy c X) = X.
Proof. intros W Hl L0 L1.
  assert (E : ms (dscale2 c) (core_adj2 c (ms (fscale2 c) (core_fwd2 c X))) = X).
  { rewrite core_adj2_ms, core2_inverse, !msc_msc by auto.
    rewrite <- (msc_one F X) at 2. apply ms_eq. unfold dscale2, fscale2.
    destruct (d_norm c); try (field; exact P_nz).
    replace (sqP * sqP * nP) with (1 / nP * nP) by (rewrite <- sqP_sq; ring). field. exact P_nz. }
  rewrite fwd2_numpy_nf, div2_numpy_nf, fwd2_scipy_nf, div2_scipy_nf; auto. Qed.
Theorem fft2_unitary_ortho c X : d_norm c = Ortho -> wfM F (d_n1 c) X -> length X = d_n0 c ->
  (d_n0 c <= N0)%nat -> (d_n1 c <= N1)%nat ->
  adj2_numpy c (fwd2_numpy c X) = X /\ adj2_scipy c (fwd2_scipy c X) = X.
Proof. intros Ho W Hl L0 L1. destruct (fft2_div_inverts c X W Hl L0 L1) as [E1 E2].
  unfold div2_numpy in E1. unfold div2_scipy in E2. rewrite Ho in E1, E2. auto. Qed.
End FFT2D.

(* a leading batch axis (3-D array, axes = (1, 2)): apply the 2-D operator to every slab *)
Theorem fft2_batch_div_inverts (F : FieldS) (w0 w1 : F) (N0 N1 : nat) :
  w0 * conj F w0 = 1 -> (forall d, 0 < d -> d < N0 -> bsum (fun k => rpow w0 (d * k)) N0 = 0) ->
  w1 * conj F w1 = 1 -> (forall d, 0 < d -> d < N1 -> bsum (fun k => rpow w1 (d * k)) N1 = 0) ->
  of_nat F (N0 * N1) <> 0 -> forall sqP : F, sqP * sqP = 1 / of_nat F (N0 * N1) ->
  forall (c : cfg2) (Xs : list (list (list F))),
    Forall (fun X => wfM F (d_n1 c) X /\ length X = d_n0 c) Xs -> (d_n0 c <= N0)%nat -> (d_n1 c <= N1)%nat ->
    map (div2_numpy F w0 w1 N0 N1 sqP c) (map (fwd2_numpy F w0 w1 N0 N1 sqP c) Xs) = Xs /\
    map (div2_scipy F w0 w1 N0 N1 sqP c) (map (fwd2_scipy F w0 w1 N0 N1 sqP c) Xs) = Xs.
Proof. intros H1 H2 H3 H4 H5 sqP H6 c Xs HX L0 L1. rewrite !map_map.
  split; rewrite <- (map_id Xs) at 2; apply map_ext_in; intros X HIn;
  destruct (proj1 (Forall_forall _ _) HX X HIn) as [W Hl];
  apply (fft2_div_inverts F w0 w1 N0 N1 H1 H2 H3 H4 H5 sqP H6 c X W Hl L0 L1). Qed.

(* ------------------------------------------------------------------ *)
(* exact instances: Gaussian rationals, N = 1, 2, 4, w = 1, -1, -i     *)
From Coq Require Import QArith Qcanon.
From PV Require Import GaussQc GaussField.
Definition geqb (a b : G) : bool := (Qc_eq_bool (fst a) (fst b) && Qc_eq_bool (snd a) (snd b))%bool.
Lemma geqb_eq a b : geqb a b = true -> a = b.
Proof. destruct a, b; unfold geqb; simpl; intros H. apply andb_prop in H; destruct H as [H1 H2].
  apply Qc_eq_bool_correct in H1, H2. subst; auto. Qed.
Fixpoint gveqb (u v : list G) : bool :=
  match u, v with [], [] => true | a :: u', b :: v' => (geqb a b && gveqb u' v')%bool | _, _ => false end.
Lemma gveqb_eq u v : gveqb u v = true -> u = v.
Proof. revert v; induction u as [|a u IH]; intros [|b v] H; simpl in H; try discriminate; auto.
  apply andb_prop in H; destruct H as [H1 H2]. apply geqb_eq in H1; apply IH in H2; subst; auto. Qed.
Definition gi (a b : Z) : G := (Q2Qc (a # 1), Q2Qc (b # 1)).
Definition w1 : G := gi 1 0.
Definition w2 : G := gi (-1) 0.
Definition w4 : G := gi 0 (-1).        (* e^{-2 pi i / 4} = -i *)
Definition half : G := (Q2Qc (1 # 2), Q2Qc 0).

Lemma root1 : principal_root GF w1 1.
Proof. repeat split; try (apply geqb_eq; vm_compute; reflexivity). intros d H1 H2; lia. Qed.
Lemma root2 : principal_root GF w2 2.
Proof. repeat split; try (apply geqb_eq; vm_compute; reflexivity). intros d H1 H2.
  assert (d = 1%nat) by lia; subst. apply geqb_eq; vm_compute; reflexivity. Qed.
Lemma root4 : principal_root GF w4 4.
Proof. repeat split; try (apply geqb_eq; vm_compute; reflexivity). intros d H1 H2.
  assert (E : d = 1%nat \/ d = 2%nat \/ d = 3%nat) by lia.
  destruct E as [->|[->| ->]]; apply geqb_eq; vm_compute; reflexivity. Qed.
Lemma setting1 : fft_setting GF w1 1 w1.
Proof. split; [exact root1|]. repeat split; try (apply geqb_eq; vm_compute; reflexivity).
  intros E; apply (f_equal (fun a => geqb a g0)) in E; vm_compute in E; discriminate. Qed.
Lemma setting4 : fft_setting GF w4 4 half.
Proof. split; [exact root4|]. repeat split; try (apply geqb_eq; vm_compute; reflexivity).
  intros E; apply (f_equal (fun a => geqb a g0)) in E; vm_compute in E; discriminate. Qed.
