(* DFTEngines.v — the three engines of pylops.signalprocessing.FFT modelled
   SEPARATELY, each with its own placement of scaling, padding / truncation
   and shifts as written in fft.py (_FFT_numpy, _FFT_scipy, _FFT_fftw:
   _matvec, _rmatvec, __truediv__).  Library transforms are primitives with
   their documented behaviour:
     np/scipy  fft(x, n=N, norm=None)     = DFT_N of x truncated / zero-padded to N
               fft(..., norm="ortho")     = the same times sqrt(1/N)
               ifft(y, n=N, norm=None)    = (1/N) conj-DFT_N;  "ortho": sqrt(1/N) conj-DFT_N
     pyfftw    FFTW_FORWARD plan          = unnormalised DFT_N of the N-long buffer
               FFTW_BACKWARD plan call    = (1/N) conj-DFT_N (normalise_idft default)
   sq is the real number sqrt(1/N) (np.sqrt(1.0/nfft) in the fftw engine, the
   library's own factor in numpy/scipy): a parameter with sq*sq = 1/N.
   Theorems: the three engines agree (forward, adjoint, '/'); forward/adjoint
   are an adjoint pair; adj (fwd x) = x for 'ortho' and div (fwd x) = x for
   EVERY norm when n <= N, with both shifts. *)
From PV Require Export DFT.
Local Open Scope R_scope.

Inductive fnorm := Ortho | NoneN | OneOverN.
Record fcfg := { c_norm : fnorm; c_n : nat; c_sb : bool; c_sa : bool }.

Section Engines.
Variable F : FieldS.
Add Field Ffe : (fth F).
Notation vec := (list F).
Notation cj := (conj F).
Notation vs := (vscale F).

Variable w : F.
Variable N : nat.
Notation nN := (of_nat F N).
Hypothesis w_unit : w * cj w = 1.
Hypothesis w_orth : forall d, 0 < d -> d < N -> bsum (fun k => rpow w (d * k)) N = 0.
Hypothesis N_nz : nN <> 0.
Variable sq : F.
Hypothesis sq_sq : sq * sq = 1 / nN.
Hypothesis sq_real : cj sq = sq.

Lemma sq_nz : sq <> 0.
Proof. intros E. assert (H : 1 / nN * nN = r1 F) by (field; exact N_nz).
  rewrite <- sq_sq, E in H. apply (F_1_neq_0 (fth F)). rewrite <- H. ring. Qed.
Lemma iN_nz : 1 / nN <> 0.
Proof. intros E. assert (H : 1 / nN * nN = r1 F) by (field; exact N_nz).
  rewrite E in H. apply (F_1_neq_0 (fth F)). rewrite <- H. ring. Qed.

(* ---- helpers ---- *)
Definition vdiv (v : vec) (s : F) : vec := map (fun a => a / s) v.
(* after the inverse transform: np.take(y, range(n)) when N > n, np.pad(y, (0, n-N)) when N < n *)
Definition fit (n : nat) (z : vec) : vec := firstn n z ++ zeros F (n - length z).
Definition is_ortho (nm : fnorm) : bool := match nm with Ortho => true | _ => false end.

Lemma vdiv_vscale v s : s <> 0 -> vdiv v s = vs (1 / s) v.
Proof. intros H; unfold vdiv, vscale; apply map_ext; intros; field; auto. Qed.
Lemma fit_vscale n a z : fit n (vs a z) = vs a (fit n z).
Proof. unfold fit. rewrite vscale_length, vscale_app, vscale_zeros. unfold vscale; rewrite firstn_map; auto. Qed.
Lemma vs_eq a b v : a = b -> vs a v = vs b v.
Proof. intros ->; auto. Qed.
Lemma fit_dft u n y : (n <= N)%nat -> fit n (dft F u N y) = dft F u n y.
Proof. intros L. unfold fit. rewrite dft_length. replace (n - N)%nat with 0%nat by lia.
  simpl. rewrite app_nil_r. apply (trunc_dft F); auto. Qed.

(* ---- library primitives ---- *)
Definition lib_fft (ortho : bool) (x : vec) : vec :=
  let y := dft F w N (firstn N x) in if ortho then vs sq y else y.
Definition lib_ifft (ortho : bool) (y : vec) : vec :=
  let z := dft F (cj w) N y in if ortho then vs sq z else vs (1 / nN) z.
Definition plan_fwd (x : vec) : vec := dft F w N x.
Definition plan_bwd (y : vec) : vec := vs (1 / nN) (dft F (cj w) N y).

(* ---- engine = numpy (fft.py:_FFT_numpy) ---- *)
Definition scale_np (c : fcfg) : F :=
  match c_norm c with NoneN => nN | OneOverN => 1 / nN | Ortho => 1 end.   (* _scale is unset for ortho *)
Definition fwd_numpy (c : fcfg) (x : vec) : vec :=
  let x := if c_sb c then ifftshift F x else x in
  let y := lib_fft (is_ortho (c_norm c)) x in
  let y := match c_norm c with OneOverN => vs (scale_np c) y | _ => y end in
  if c_sa c then fftshift F y else y.
Definition adj_numpy (c : fcfg) (y : vec) : vec :=
  let y := if c_sa c then ifftshift F y else y in
  let z := lib_ifft (is_ortho (c_norm c)) y in
  let z := match c_norm c with NoneN => vs (scale_np c) z | _ => z end in
  let z := fit (c_n c) z in
  if c_sb c then fftshift F z else z.
Definition div_numpy (c : fcfg) (y : vec) : vec :=
  match c_norm c with Ortho => adj_numpy c y | _ => vdiv (adj_numpy c y) (scale_np c) end.

(* ---- engine = scipy (fft.py:_FFT_scipy): same placement, scipy.fft calls ---- *)
Definition scale_sp (c : fcfg) : F :=
  match c_norm c with NoneN => nN | OneOverN => 1 / nN | Ortho => 1 end.
Definition fwd_scipy (c : fcfg) (x : vec) : vec :=
  let x := if c_sb c then ifftshift F x else x in
  let y := lib_fft (is_ortho (c_norm c)) x in
  let y := match c_norm c with OneOverN => vs (scale_sp c) y | _ => y end in
  if c_sa c then fftshift F y else y.
Definition adj_scipy (c : fcfg) (y : vec) : vec :=
  let y := if c_sa c then ifftshift F y else y in
  let z := lib_ifft (is_ortho (c_norm c)) y in
  let z := match c_norm c with NoneN => vs (scale_sp c) z | _ => z end in
  let z := fit (c_n c) z in
  if c_sb c then fftshift F z else z.
Definition div_scipy (c : fcfg) (y : vec) : vec :=
  match c_norm c with Ortho => adj_scipy c y | _ => vdiv (adj_scipy c y) (scale_sp c) end.

(* ---- engine = fftw (fft.py:_FFT_fftw): explicit pad / take, explicit
   sqrt(1/nfft), scaling BEFORE the shift, division by _scale in the adjoint ---- *)
Definition scale_fw (c : fcfg) : F :=
  match c_norm c with Ortho => sq | NoneN => nN | OneOverN => 1 / nN end.
Definition fftw_prep (c : fcfg) (x : vec) : vec :=
  if Nat.ltb (c_n c) N then pad F N x                 (* dopad *)
  else if Nat.ltb N (c_n c) then firstn N x           (* doifftpad: np.take(x, range(nfft)) *)
  else x.
Definition fwd_fftw (c : fcfg) (x : vec) : vec :=
  let x := if c_sb c then ifftshift F x else x in
  let y := plan_fwd (fftw_prep c x) in
  let y := match c_norm c with NoneN => y | _ => vs (scale_fw c) y end in
  if c_sa c then fftshift F y else y.
Definition adj_fftw (c : fcfg) (y : vec) : vec :=
  let y := if c_sa c then ifftshift F y else y in
  let z := plan_bwd y in
  let z := match c_norm c with Ortho => vdiv z (scale_fw c) | NoneN => vs (scale_fw c) z | OneOverN => z end in
  let z := fit (c_n c) z in
  if c_sb c then fftshift F z else z.
Definition div_fftw (c : fcfg) (y : vec) : vec :=
  match c_norm c with Ortho => adj_fftw c y | _ => vdiv (adj_fftw c y) (scale_fw c) end.

(* ---- common normal form: scale * (shift o transform o shift) ---- *)
Definition core_fwd (c : fcfg) (x : vec) : vec :=
  let x := if c_sb c then ifftshift F x else x in
  let y := dft F w N (firstn N x) in
  if c_sa c then fftshift F y else y.
Definition core_adj (c : fcfg) (y : vec) : vec :=
  let y := if c_sa c then ifftshift F y else y in
  let z := fit (c_n c) (dft F (cj w) N y) in
  if c_sb c then fftshift F z else z.
Definition fscale (c : fcfg) : F := match c_norm c with Ortho => sq | NoneN => 1 | OneOverN => 1 / nN end.
Definition dscale (c : fcfg) : F := match c_norm c with Ortho => sq | NoneN => 1 / nN | OneOverN => 1 end.

Ltac push :=
  repeat (rewrite ?(fftshift_vscale F), ?(ifftshift_vscale F), ?fit_vscale, ?(dft_vscale F), ?vscale_vscale,
                  ?(vdiv_vscale _ _ sq_nz), ?(vdiv_vscale _ _ N_nz), ?(vdiv_vscale _ _ iN_nz)).
Lemma one_nz : r1 F <> 0.
Proof. exact (F_1_neq_0 (fth F)). Qed.
Ltac nz := solve [ repeat split; first [ exact sq_nz | exact N_nz | exact iN_nz | exact one_nz ] ].
Ltac fin := first [ reflexivity | symmetry; apply vscale_one | apply vs_eq; field; nz
                  | rewrite <- (vscale_one F) at 1; apply vs_eq; field; nz ].

Lemma sq_inv : 1 / sq * (1 / nN) = sq.
Proof. rewrite <- sq_sq. field. apply sq_nz. Qed.

Lemma fwd_numpy_nf c x : fwd_numpy c x = vs (fscale c) (core_fwd c x).
Proof. destruct c as [nm n sb sa]; unfold fwd_numpy, core_fwd, fscale, scale_np, lib_fft; simpl.
  destruct nm, sb, sa; simpl; push; fin. Qed.
Lemma adj_numpy_nf c y : adj_numpy c y = vs (fscale c) (core_adj c y).
Proof. destruct c as [nm n sb sa]; unfold adj_numpy, core_adj, fscale, scale_np, lib_ifft; simpl.
  destruct nm, sb, sa; simpl; push; fin. Qed.
Lemma div_numpy_nf c y : div_numpy c y = vs (dscale c) (core_adj c y).
Proof. unfold div_numpy. rewrite adj_numpy_nf. destruct c as [nm n sb sa]; unfold dscale, fscale, scale_np; simpl.
  destruct nm; simpl; push; fin. Qed.
Lemma fwd_scipy_nf c x : fwd_scipy c x = vs (fscale c) (core_fwd c x).
Proof. destruct c as [nm n sb sa]; unfold fwd_scipy, core_fwd, fscale, scale_sp, lib_fft; simpl.
  destruct nm, sb, sa; simpl; push; fin. Qed.
Lemma adj_scipy_nf c y : adj_scipy c y = vs (fscale c) (core_adj c y).
Proof. destruct c as [nm n sb sa]; unfold adj_scipy, core_adj, fscale, scale_sp, lib_ifft; simpl.
  destruct nm, sb, sa; simpl; push; fin. Qed.
Lemma div_scipy_nf c y : div_scipy c y = vs (dscale c) (core_adj c y).
Proof. unfold div_scipy. rewrite adj_scipy_nf. destruct c as [nm n sb sa]; unfold dscale, fscale, scale_sp; simpl.
  destruct nm; simpl; push; fin. Qed.

Lemma prep_dft c x : length x = c_n c -> dft F w N (fftw_prep c x) = dft F w N (firstn N x).
Proof. intros H. unfold fftw_prep.
  destruct (Nat.ltb_spec (c_n c) N) as [L|L].
  - rewrite (dft_pad F) by lia. rewrite firstn_all2 by lia. auto.
  - destruct (Nat.ltb_spec N (c_n c)) as [L'|L']; auto. rewrite firstn_all2 by lia; auto. Qed.
Lemma fwd_fftw_nf c x : length x = c_n c -> fwd_fftw c x = vs (fscale c) (core_fwd c x).
Proof. intros H. unfold fwd_fftw, core_fwd, plan_fwd.
  assert (E : forall x', length x' = c_n c -> dft F w N (fftw_prep c x') = dft F w N (firstn N x')) by (intros; apply prep_dft; auto).
  rewrite E by (destruct (c_sb c); rewrite ?(ifftshift_length F); auto).
  destruct c as [nm n sb sa]; unfold fscale, scale_fw; simpl.
  destruct nm, sb, sa; simpl; push; fin. Qed.
Lemma adj_fftw_nf c y : adj_fftw c y = vs (fscale c) (core_adj c y).
Proof. destruct c as [nm n sb sa]; unfold adj_fftw, core_adj, fscale, scale_fw, plan_bwd; simpl.
  destruct nm, sb, sa; simpl; push; try fin; apply vs_eq; apply sq_inv. Qed.
Lemma div_fftw_nf c y : div_fftw c y = vs (dscale c) (core_adj c y).
Proof. unfold div_fftw. rewrite adj_fftw_nf. destruct c as [nm n sb sa]; unfold dscale, fscale, scale_fw; simpl.
  destruct nm; simpl; push; fin. Qed.

(* ---- the engines agree ---- *)
Theorem engines_fwd_agree c x : length x = c_n c ->
  fwd_numpy c x = fwd_scipy c x /\ fwd_scipy c x = fwd_fftw c x.
Proof. intros H. rewrite fwd_numpy_nf, fwd_scipy_nf, fwd_fftw_nf; auto. Qed.
Theorem engines_adj_agree c y : adj_numpy c y = adj_scipy c y /\ adj_scipy c y = adj_fftw c y.
Proof. rewrite adj_numpy_nf, adj_scipy_nf, adj_fftw_nf; auto. Qed.
Theorem engines_div_agree c y : div_numpy c y = div_scipy c y /\ div_scipy c y = div_fftw c y.
Proof. rewrite div_numpy_nf, div_scipy_nf, div_fftw_nf; auto. Qed.

(* ---- core: adjoint pair and inversion, n <= N ---- *)
Lemma opt_ifftshift_length (b : bool) (x : vec) : length (if b then ifftshift F x else x) = length x.
Proof. destruct b; auto using (ifftshift_length F). Qed.
Lemma core_inverse c x : length x = c_n c -> (c_n c <= N)%nat ->
  core_adj c (core_fwd c x) = vs nN x.
Proof. intros H L. unfold core_adj, core_fwd.
  set (x1 := if c_sb c then ifftshift F x else x).
  assert (H1 : length x1 = c_n c) by (unfold x1; rewrite opt_ifftshift_length; auto).
  assert (E : (if c_sa c then ifftshift F (if c_sa c then fftshift F (dft F w N (firstn N x1)) else dft F w N (firstn N x1))
               else (if c_sa c then fftshift F (dft F w N (firstn N x1)) else dft F w N (firstn N x1)))
              = dft F w N x1).
  { rewrite firstn_all2 by lia. destruct (c_sa c); auto. apply (ifftshift_fftshift F). }
  rewrite E. rewrite fit_dft by auto. rewrite <- H1.
  rewrite (dft_inversion F w N w_unit w_orth) by lia.
  unfold x1. destruct (c_sb c); auto. rewrite (fftshift_vscale F), (fftshift_ifftshift F); auto. Qed.
Lemma core_adjoint c x y : length x = c_n c -> (c_n c <= N)%nat -> length y = N ->
  dot F (core_fwd c x) y = dot F x (core_adj c y).
Proof. intros H L Hy. unfold core_adj, core_fwd.
  set (x1 := if c_sb c then ifftshift F x else x).
  assert (H1 : length x1 = c_n c) by (unfold x1; rewrite opt_ifftshift_length; auto).
  set (y1 := if c_sa c then ifftshift F y else y).
  assert (Hy1 : length y1 = N) by (unfold y1; rewrite opt_ifftshift_length; auto).
  rewrite firstn_all2 by lia. rewrite fit_dft by auto.
  assert (A : dot F (if c_sa c then fftshift F (dft F w N x1) else dft F w N x1) y = dot F (dft F w N x1) y1).
  { unfold y1; destruct (c_sa c); auto. apply (fftshift_adjoint F). rewrite dft_length; auto. }
  rewrite A. rewrite (dft_adjoint F) by auto. rewrite H1.
  unfold x1. destruct (c_sb c); auto.
  apply (ifftshift_adjoint F). rewrite dft_length; auto. Qed.

Lemma fscale_real c : cj (fscale c) = fscale c.
Proof. unfold fscale. destruct (c_norm c); auto using conj_one.
  assert (E : cj (1 / nN) * nN = r1 F).
  { replace (cj (1 / nN) * nN) with (cj (1 / nN * nN)) by (rewrite conj_mul, (conj_of_nat F); auto).
    replace (1 / nN * nN) with (r1 F) by (field; exact N_nz). apply conj_one. }
  replace (cj (1 / nN)) with (cj (1 / nN) * nN * (1 / nN)) by (field; exact N_nz).
  rewrite E. field. exact N_nz. Qed.

Section PerEngine.
Variables (fwd : fcfg -> vec -> vec) (adj div : fcfg -> vec -> vec).
Hypothesis fwd_nf : forall c x, length x = c_n c -> fwd c x = vs (fscale c) (core_fwd c x).
Hypothesis adj_nf : forall c y, adj c y = vs (fscale c) (core_adj c y).
Hypothesis div_nf : forall c y, div c y = vs (dscale c) (core_adj c y).

Lemma gen_adjoint c x y : length x = c_n c -> (c_n c <= N)%nat -> length y = N ->
  dot F (fwd c x) y = dot F x (adj c y).
Proof. intros. rewrite fwd_nf, adj_nf, dot_vscale_l, dot_vscale_r, fscale_real, core_adjoint; auto. Qed.
Lemma gen_div c x : length x = c_n c -> (c_n c <= N)%nat -> div c (fwd c x) = x.
Proof. intros H L. rewrite fwd_nf, div_nf by auto.
  assert (E : core_adj c (vs (fscale c) (core_fwd c x)) = vs (fscale c) (core_adj c (core_fwd c x))).
  { unfold core_adj. destruct (c_sa c), (c_sb c); push; auto. }
  rewrite E, core_inverse, !vscale_vscale by auto.
  rewrite <- (vscale_one F x) at 2. apply vs_eq. unfold dscale, fscale.
  destruct (c_norm c); try (field; exact N_nz).
  replace (sq * sq * nN) with (1 / nN * nN) by (rewrite <- sq_sq; ring). field. exact N_nz. Qed.
Lemma gen_unitary c x : c_norm c = Ortho -> length x = c_n c -> (c_n c <= N)%nat -> adj c (fwd c x) = x.
Proof. intros Ho H L. rewrite <- (gen_div c x H L) at 2. rewrite adj_nf, div_nf. unfold dscale, fscale. rewrite Ho. auto. Qed.
End PerEngine.

Theorem numpy_adjoint c x y : length x = c_n c -> (c_n c <= N)%nat -> length y = N ->
  dot F (fwd_numpy c x) y = dot F x (adj_numpy c y).
Proof. apply gen_adjoint; auto using fwd_numpy_nf, adj_numpy_nf. Qed.
Theorem scipy_adjoint c x y : length x = c_n c -> (c_n c <= N)%nat -> length y = N ->
  dot F (fwd_scipy c x) y = dot F x (adj_scipy c y).
Proof. apply gen_adjoint; auto using fwd_scipy_nf, adj_scipy_nf. Qed.
Theorem fftw_adjoint c x y : length x = c_n c -> (c_n c <= N)%nat -> length y = N ->
  dot F (fwd_fftw c x) y = dot F x (adj_fftw c y).
Proof. apply gen_adjoint; auto using fwd_fftw_nf, adj_fftw_nf. Qed.

Theorem numpy_div_inverts c x : length x = c_n c -> (c_n c <= N)%nat -> div_numpy c (fwd_numpy c x) = x.
Proof. apply (gen_div fwd_numpy div_numpy); auto using fwd_numpy_nf, div_numpy_nf. Qed.
Theorem scipy_div_inverts c x : length x = c_n c -> (c_n c <= N)%nat -> div_scipy c (fwd_scipy c x) = x.
Proof. apply (gen_div fwd_scipy div_scipy); auto using fwd_scipy_nf, div_scipy_nf. Qed.
Theorem fftw_div_inverts c x : length x = c_n c -> (c_n c <= N)%nat -> div_fftw c (fwd_fftw c x) = x.
Proof. apply (gen_div fwd_fftw div_fftw); auto using fwd_fftw_nf, div_fftw_nf. Qed.

Theorem numpy_unitary_ortho c x : c_norm c = Ortho -> length x = c_n c -> (c_n c <= N)%nat ->
  adj_numpy c (fwd_numpy c x) = x.
Proof. apply (gen_unitary fwd_numpy adj_numpy div_numpy); auto using fwd_numpy_nf, adj_numpy_nf, div_numpy_nf. Qed.
Theorem scipy_unitary_ortho c x : c_norm c = Ortho -> length x = c_n c -> (c_n c <= N)%nat ->
  adj_scipy c (fwd_scipy c x) = x.
Proof. apply (gen_unitary fwd_scipy adj_scipy div_scipy); auto using fwd_scipy_nf, adj_scipy_nf, div_scipy_nf. Qed.
Theorem fftw_unitary_ortho c x : c_norm c = Ortho -> length x = c_n c -> (c_n c <= N)%nat ->
  adj_fftw c (fwd_fftw c x) = x.
Proof. apply (gen_unitary fwd_fftw adj_fftw div_fftw); auto using fwd_fftw_nf, adj_fftw_nf, div_fftw_nf. Qed.

(* C07(c): every engine's forward IS scale * fftshift? (DFT_N (truncate/pad (ifftshift? x))) *)
Theorem engines_fwd_spec c x : length x = c_n c ->
  fwd_numpy c x = vs (fscale c) (core_fwd c x) /\ fwd_scipy c x = vs (fscale c) (core_fwd c x) /\
  fwd_fftw c x = vs (fscale c) (core_fwd c x).
Proof. intros; repeat split; auto using fwd_numpy_nf, fwd_scipy_nf, fwd_fftw_nf. Qed.
End Engines.

(* ------------------------------------------------------------------ *)
(* statements over the packaged hypotheses (Props/C08.v, C07c.v)       *)
Definition fft_setting (F : FieldS) (w : F) (N : nat) (sq : F) : Prop :=
  principal_root F w N /\ of_nat F N <> 0 /\ sq * sq = 1 / of_nat F N /\ conj F sq = sq.

Section Packaged.
Variable F : FieldS.
Variables (w : F) (N : nat) (sq : F).
Hypothesis H : fft_setting F w N sq.
Let Hu : w * conj F w = 1 := proj1 (proj2 (proj1 H)).
Let Ho := proj2 (proj2 (proj1 H)).
Let Hn : of_nat F N <> 0 := proj1 (proj2 H).
Let Hs : sq * sq = 1 / of_nat F N := proj1 (proj2 (proj2 H)).
Let Hr : conj F sq = sq := proj2 (proj2 (proj2 H)).

Theorem fft_div_inverts_all c x : length x = c_n c -> (c_n c <= N)%nat ->
  div_numpy F w N sq c (fwd_numpy F w N sq c x) = x /\
  div_scipy F w N sq c (fwd_scipy F w N sq c x) = x /\
  div_fftw F w N sq c (fwd_fftw F w N sq c x) = x.
Proof. intros; repeat split; [apply numpy_div_inverts | apply scipy_div_inverts | apply fftw_div_inverts]; auto. Qed.
Theorem fft_unitary_ortho_all c x : c_norm c = Ortho -> length x = c_n c -> (c_n c <= N)%nat ->
  adj_numpy F w N sq c (fwd_numpy F w N sq c x) = x /\
  adj_scipy F w N sq c (fwd_scipy F w N sq c x) = x /\
  adj_fftw F w N sq c (fwd_fftw F w N sq c x) = x.
Proof. intros; repeat split; [apply numpy_unitary_ortho | apply scipy_unitary_ortho | apply fftw_unitary_ortho]; auto. Qed.
Theorem fft_adjoint_all c x y : length x = c_n c -> (c_n c <= N)%nat -> length y = N ->
  dot F (fwd_numpy F w N sq c x) y = dot F x (adj_numpy F w N sq c y) /\
  dot F (fwd_scipy F w N sq c x) y = dot F x (adj_scipy F w N sq c y) /\
  dot F (fwd_fftw F w N sq c x) y = dot F x (adj_fftw F w N sq c y).
Proof. intros; repeat split; [apply numpy_adjoint | apply scipy_adjoint | apply fftw_adjoint]; auto. Qed.
Theorem fft_engines_agree c x y : length x = c_n c ->
  (fwd_numpy F w N sq c x = fwd_scipy F w N sq c x /\ fwd_scipy F w N sq c x = fwd_fftw F w N sq c x) /\
  (adj_numpy F w N sq c y = adj_scipy F w N sq c y /\ adj_scipy F w N sq c y = adj_fftw F w N sq c y) /\
  (div_numpy F w N sq c y = div_scipy F w N sq c y /\ div_scipy F w N sq c y = div_fftw F w N sq c y).
Proof. intros; repeat split; try (apply engines_fwd_agree; auto); try (apply engines_adj_agree; auto);
  apply engines_div_agree; auto. Qed.
End Packaged.

(* ------------------------------------------------------------------ *)
(* real FFT (real=True): half spectrum, sqrt(2) on bins 1..(N-1)/2, adjoint
   w.r.t. the REAL inner product Re<a,b>.  Library primitives:
     rfft(x, n=N)   = first N/2+1 rows of DFT_N
     N * irfft(y,N) = Re y_0 + 2 sum_{1<=k<=(N-1)/2} Re(y_k conj(w)^(j k)) + [N even] Re(y_{N/2} conj(w)^(j N/2))
   (the C2R transform ignores the imaginary parts of the zero and Nyquist
   bins).  s2 is the real number sqrt 2: parameter with s2*s2 = 1+1. *)
Section RealFFT.
Variable F : FieldS.
Add Field Frf : (fth F).
Notation vec := (list F).
Notation cj := (conj F).
Variable w : F.
Variable N : nat.
Variable s2 : F.
Hypothesis s2_sq : s2 * s2 = 1 + 1.
Hypothesis s2_real : cj s2 = s2.
Hypothesis two_nz : (1 + 1 : F) <> 0.
Notation K := (N / 2 + 1)%nat.
Notation half := (1 / (1 + 1)).

Lemma s2_nz : s2 <> 0.
Proof. intros E. apply two_nz. rewrite <- s2_sq, E. ring. Qed.

Definition midb (k : nat) : bool := (Nat.leb 1 k && Nat.ltb k (1 + (N - 1) / 2))%bool.
Definition cfac (k : nat) : F := if midb k then s2 else 1.          (* y[..., 1:1+(nfft-1)//2] *= sqrt(2) *)
Definition mfac (k : nat) : F := if midb k then 1 + 1 else 1.        (* Hermitian completion weight of C2R *)
Definition re2 (a : F) : F := a + cj a.                              (* 2 Re a *)

Definition lib_rfft (x : vec) : vec := dft F w K x.
Definition lib_c2r (n : nat) (y : vec) : vec :=                       (* N * irfft(y, n=N), first n samples *)
  tab (fun j => half * re2 (bsum (fun k => mfac k * (rpow (cj w) (j * k) * nth k y 0)) K)) n.

(* fft.py _matvec / _rmatvec, real=True, norm='none' (an extra real scale factors out) *)
Definition rfwd (x : vec) : vec := tab (fun k => cfac k * nth k (lib_rfft x) 0) K.
Definition radj (n : nat) (y : vec) : vec := lib_c2r n (tab (fun k => nth k y 0 / cfac k) K).

Lemma cfac_real k : cj (cfac k) = cfac k.
Proof. unfold cfac; destruct (midb k); auto using conj_one. Qed.
Lemma cfac_nz k : cfac k <> 0.
Proof. unfold cfac; destruct (midb k); [apply s2_nz | apply (F_1_neq_0 (fth F))]. Qed.
Lemma m_over_c k : mfac k / cfac k = cfac k.
Proof. unfold mfac, cfac. destruct (midb k).
  - rewrite <- s2_sq. field. apply s2_nz.
  - field. apply (F_1_neq_0 (fth F)). Qed.
Lemma re2_add a b : re2 (a + b) = re2 a + re2 b.
Proof. unfold re2; rewrite conj_add; ring. Qed.
Lemma re2_bsum f n : re2 (bsum f n) = bsum (fun k => re2 (f k)) n.
Proof. induction n as [|n IH]; simpl.
  - unfold re2; rewrite conj_zero; ring.
  - rewrite re2_add, IH; auto. Qed.
Lemma re2_real_scale a b : cj a = a -> a * re2 b = re2 (a * b).
Proof. intros H; unfold re2; rewrite conj_mul, H; ring. Qed.

(* ADJOINT identity for the real inner product: for REAL x,
   Re <rfwd x, y> = <x, radj y>   (stated as half * 2Re) *)
Theorem rfft_adjoint x y : (forall j, cj (nth j x 0) = nth j x 0) -> length y = K ->
  half * re2 (dot F (rfwd x) y) = dotu F x (radj (length x) y).
Proof. intros Hx Hy.
  rewrite dot_bsum by (unfold rfwd; rewrite tab_length; auto).
  rewrite dotu_bsum by (unfold radj, lib_c2r; rewrite tab_length; auto).
  unfold rfwd at 2. rewrite tab_length.
  (* left: double sum *)
  rewrite (bsum_ext F _ (fun k => bsum (fun j => nth j x 0 * (cfac k * (rpow (cj w) (j * k) * nth k y 0))) (length x))).
  2:{ intros k Hk. unfold rfwd, lib_rfft. rewrite nth_tab by auto. rewrite (dft_entry F) by auto.
      rewrite conj_mul, cfac_real, conj_bsum, <- bsum_scale, <- bsum_scale_r.
      apply bsum_ext; intros j _. rewrite conj_mul, conj_rpow, Hx. ring. }
  rewrite bsum_swap.
  (* right: pull the real x_j inside *)
  rewrite re2_bsum, <- bsum_scale. apply bsum_ext; intros j Hj.
  unfold radj, lib_c2r. rewrite nth_tab by auto.
  replace (nth j x 0 * (half * re2 (bsum (fun k => mfac k * (rpow (cj w) (j * k) * nth k (tab (fun k0 => nth k0 y 0 / cfac k0) K) 0)) K)))
    with (half * (nth j x 0 * re2 (bsum (fun k => mfac k * (rpow (cj w) (j * k) * nth k (tab (fun k0 => nth k0 y 0 / cfac k0) K) 0)) K))) by ring.
  rewrite (re2_real_scale (nth j x 0)) by apply Hx. f_equal. f_equal.
  rewrite <- bsum_scale. apply bsum_ext; intros k Hk.
  rewrite nth_tab by auto.
  replace (mfac k * (rpow (cj w) (j * k) * (nth k y 0 / cfac k))) with (mfac k / cfac k * (rpow (cj w) (j * k) * nth k y 0))
    by (field; apply cfac_nz).
  rewrite m_over_c. reflexivity. Qed.
End RealFFT.

(* ------------------------------------------------------------------ *)
(* exact instances: Gaussian rationals, N = 1, 2, 4, w = 1, -1, -i     *)
From Coq Require Import QArith Qcanon.
From PV Require Import GaussQc GaussField.
Definition geqb (a b : G) : bool := (Qc_eq_bool (fst a) (fst b) && Qc_eq_bool (snd a) (snd b))%bool.
Lemma geqb_eq a b : geqb a b = true -> a = b.
Proof. destruct a, b; unfold geqb; simpl; intros H. apply andb_prop in H; destruct H as [H1 H2].
  apply Qc_eq_bool_correct in H1, H2. subst; auto. Qed.
Fixpoint gveqb (u v : list G) : bool :=
  match u, v with [], [] => true | a :: u', b :: v' => (geqb a b && gveqb u' v')%bool | _, _ => false end.
Lemma gveqb_eq u v : gveqb u v = true -> u = v.
Proof. revert v; induction u as [|a u IH]; intros [|b v] H; simpl in H; try discriminate; auto.
  apply andb_prop in H; destruct H as [H1 H2]. apply geqb_eq in H1; apply IH in H2; subst; auto. Qed.
Definition gi (a b : Z) : G := (Q2Qc (a # 1), Q2Qc (b # 1)).
Definition w1 : G := gi 1 0.
Definition w2 : G := gi (-1) 0.
Definition w4 : G := gi 0 (-1).        (* e^{-2 pi i / 4} = -i *)
Definition half : G := (Q2Qc (1 # 2), Q2Qc 0).

Lemma root1 : principal_root GF w1 1.
Proof. repeat split; try (apply geqb_eq; vm_compute; reflexivity). intros d H1 H2; lia. Qed.
Lemma root2 : principal_root GF w2 2.
Proof. repeat split; try (apply geqb_eq; vm_compute; reflexivity). intros d H1 H2.
  assert (d = 1%nat) by lia; subst. apply geqb_eq; vm_compute; reflexivity. Qed.
Lemma root4 : principal_root GF w4 4.
Proof. repeat split; try (apply geqb_eq; vm_compute; reflexivity). intros d H1 H2.
  assert (E : d = 1%nat \/ d = 2%nat \/ d = 3%nat) by lia.
  destruct E as [->|[->| ->]]; apply geqb_eq; vm_compute; reflexivity. Qed.
Lemma setting1 : fft_setting GF w1 1 w1.
Proof. split; [exact root1|]. repeat split; try (apply geqb_eq; vm_compute; reflexivity).
  intros E; apply (f_equal (fun a => geqb a g0)) in E; vm_compute in E; discriminate. Qed.
Lemma setting4 : fft_setting GF w4 4 half.
Proof. split; [exact root4|]. repeat split; try (apply geqb_eq; vm_compute; reflexivity).
  intros E; apply (f_equal (fun a => geqb a g0)) in E; vm_compute in E; discriminate. Qed.
