(* Haar2D.v — the Haar DWT of Ops/Haar.v lifted (1) along an arbitrary axis of a
   C-ordered N-d array (pylops.signalprocessing.DWT(dims, axis)) through the
   along-axis machinery of Ops/Axis.v, and (2) to the 2-D transform
   pylops.signalprocessing.DWT2D(wavelet='haar') = pywt.wavedec2 +
   coeffs_to_array: at EACH level one step along both axes of the current
   approximation block, layout [[aa, ad], [da, dd]] nested in the top-left
   corner.  Inner products are the bilinear [dotu] (the operators are real). *)
From PV Require Export Haar Axis.
From PV Require Import MatT.

(* ------------------------------------------------------------------ *)
(* generic: a left inverse lifts along an axis                          *)
Section AxisInverse.
Variable R : CRing.
Notation vec := (list R).
Lemma along_axis_gen_inverse outer n n' inner (f g : vec -> vec) x :
  (forall a, length a = n -> length (f a) = n') -> (forall b, length b = n' -> length (g b) = n) ->
  (forall a, length a = n -> g (f a) = a) -> length x = outer * n * inner ->
  along_axis_gen R outer n' n inner g (along_axis_gen R outer n n' inner f x) = x.
Proof. intros Hf Hg Hgf Hx.
  assert (Ly : length (along_axis_gen R outer n n' inner f x) = outer * n' * inner) by (apply along_axis_gen_length; auto).
  apply (nth_ext _ _ (r0 R) (r0 R)).
  - rewrite (along_axis_gen_length R outer n' n) by auto. lia.
  - intros i Hi. rewrite (along_axis_gen_length R outer n' n) in Hi by auto.
    destruct (index_decomp outer n inner i Hi) as (o & j & k & Ho & Hj & Hk & ->).
    rewrite (nth_along_axis_gen R outer n' n) by auto.
    assert (E : fibre R n' inner o k (along_axis_gen R outer n n' inner f x) = f (fibre R n inner o k x)).
    { apply (nth_ext _ _ (r0 R) (r0 R)).
      - rewrite fibre_length, Hf by apply fibre_length. reflexivity.
      - intros j' Hj'. rewrite fibre_length in Hj'. rewrite nth_fibre by auto.
        apply nth_along_axis_gen; auto. }
    rewrite E, Hgf by apply fibre_length. apply nth_fibre; auto. Qed.
End AxisInverse.

(* ------------------------------------------------------------------ *)
(* (1) DWT(dims, axis, wavelet='haar', level=L): outer x n x inner       *)
Section HaarAxis.
Variable K : StarRing.
Notation vec := (list K).
Variable c : K.
Hypothesis c_sq : (c * c * (1 + 1) = 1)%R.
Variables outer n inner L : nat.
Notation P := (padlen n L).
Definition haar_axis_fwd (x : vec) : vec := along_axis_gen K outer n P inner (dwt_fwd K c L) x.
Definition haar_axis_adj (y : vec) : vec := along_axis_gen K outer P n inner (dwt_adj K c L n) y.

Lemma dwt_fwd_len a : length a = n -> length (dwt_fwd K c L a) = P.
Proof. intros H. rewrite dwt_fwd_length, H. reflexivity. Qed.
Lemma dwt_adj_len b : length b = P -> length (dwt_adj K c L n b) = n.
Proof. apply dwt_adj_length. Qed.
Lemma haar_fibre_adjpair : AdjPair K n P (dwt_fwd K c L) (dwt_adj K c L n).
Proof. intros x y Hx Hy. rewrite <- Hx. apply dwt_adjoint_u. rewrite Hx; auto. Qed.

Theorem haar_axis_length x : length x = outer * n * inner -> length (haar_axis_fwd x) = outer * P * inner.
Proof. intros H. apply along_axis_gen_length; auto using dwt_fwd_len. Qed.
(* Op^H Op = id for every outer, n, inner, level *)
Theorem haar_axis_adj_fwd x : length x = outer * n * inner -> haar_axis_adj (haar_axis_fwd x) = x.
Proof. intros H. apply along_axis_gen_inverse; auto using dwt_fwd_len, dwt_adj_len.
  intros a Ha. rewrite <- Ha. apply dwt_adj_fwd; auto. Qed.
(* adjoint pair *)
Theorem haar_axis_adjoint : AdjPair K (outer * n * inner) (outer * P * inner) haar_axis_fwd haar_axis_adj.
Proof. apply along_axis_gen_adjoint; auto using haar_fibre_adjpair, dwt_fwd_len, dwt_adj_len. Qed.
(* isometry *)
Theorem haar_axis_isometry x x' : length x = outer * n * inner -> length x' = outer * n * inner ->
  dotu K (haar_axis_fwd x) (haar_axis_fwd x') = dotu K x x'.
Proof. intros H H'. rewrite haar_axis_adjoint by (auto; apply haar_axis_length; auto).
  rewrite haar_axis_adj_fwd; auto. Qed.
End HaarAxis.

(* ------------------------------------------------------------------ *)
(* (2) DWT2D(wavelet='haar', level=L) on an r x cc array (list of rows)  *)
Section Haar2.
Variable K : StarRing.
Notation vec := (list K).
Notation mat := (list (list K)).
Variable c : K.

Definition ncols (X : mat) : nat := match X with [] => 0 | r :: _ => length r end.
(* one step along axis 0: pairs of ROWS *)
Fixpoint cappA (X : mat) : mat :=
  match X with r0 :: r1 :: t => vscale K c (vadd K r0 r1) :: cappA t | _ => [] end.
Fixpoint cdetA (X : mat) : mat :=
  match X with r0 :: r1 :: t => vscale K c (vsub K r0 r1) :: cdetA t | _ => [] end.
Fixpoint cunstep (A D : mat) : mat :=
  match A, D with a :: A', d :: D' => vscale K c (vadd K a d) :: vscale K c (vsub K a d) :: cunstep A' D' | _, _ => [] end.
(* pywt.dwt2 + coeffs_to_array: [[aa, ad], [da, dd]]  (first letter: axis 0, second: axis 1) *)
Definition step2 (X : mat) : mat :=
  let RA := map (happ K c) X in let RD := map (hdet K c) X in
  map2 (@app K) (cappA RA) (cappA RD) ++ map2 (@app K) (cdetA RA) (cdetA RD).
Definition unstep2 (Y : mat) : mat :=
  let h := length Y / 2 in let w := ncols Y / 2 in
  map (fun r => hunstep K c (firstn w r) (skipn w r)) (cunstep (firstn h Y) (skipn h Y)).
(* multi-level: recurse on the top-left (approximation) block *)
Fixpoint hfwd2 (L : nat) (X : mat) : mat :=
  match L with
  | O => X
  | S L' => let Y := step2 X in let h := length Y / 2 in let w := ncols Y / 2 in
            let top := firstn h Y in
            map2 (@app K) (hfwd2 L' (map (firstn w) top)) (map (skipn w) top) ++ skipn h Y
  end.
Fixpoint hinv2 (L : nat) (Y : mat) : mat :=
  match L with
  | O => Y
  | S L' => let h := length Y / 2 in let w := ncols Y / 2 in
            let top := firstn h Y in
            unstep2 (map2 (@app K) (hinv2 L' (map (firstn w) top)) (map (skipn w) top) ++ skipn h Y)
  end.
(* pylops: Pad both axes to padlen, transform; adjoint: inverse transform, crop *)
Definition pad2 (P0 P1 : nat) (X : mat) : mat :=
  map (fun r => r ++ zeros K (P1 - length r)) X ++ repeat (zeros K P1) (P0 - length X).
Definition dwt2_fwd (L r cc : nat) (X : mat) : mat := hfwd2 L (pad2 (padlen r L) (padlen cc L) X).
Definition dwt2_adj (L r cc : nat) (Y : mat) : mat := map (firstn cc) (firstn r (hinv2 L Y)).

(* ---- level 1, all (even) sizes ---- *)
Hypothesis c_sq : (c * c * (1 + 1) = 1)%R.
Add Ring Rh2 : (rth K).
Definition w1 (x : vec) : vec := happ K c x ++ hdet K c x.            (* = hfwd 1 *)
Lemma w1_is_hfwd1 x : w1 x = hfwd K c 1 x.
Proof. reflexivity. Qed.

Lemma map2_app_gen {A B C} (f : A -> B -> C) u1 u2 v1 v2 : length u1 = length v1 ->
  map2 f (u1 ++ u2) (v1 ++ v2) = map2 f u1 v1 ++ map2 f u2 v2.
Proof. revert v1; induction u1 as [|a u1 IH]; intros [|b v1] H; simpl in *; try discriminate; auto. rewrite IH; auto. Qed.
Lemma vhalf_sum (u v : vec) : length u = length v ->
  vscale K c (vadd K (vscale K c (vadd K u v)) (vscale K c (vsub K u v))) = u.
Proof. revert v; induction u as [|a u IH]; intros [|b v] H; simpl in *; try discriminate; auto.
  unfold vscale, vadd, vsub in *; simpl. f_equal; [|apply IH; lia].
  replace (c * (c * (a + b) + c * (a - b)))%R with (a * (c * c * (1 + 1)))%R by ring. rewrite c_sq; ring. Qed.
Lemma vhalf_diff (u v : vec) : length u = length v ->
  vscale K c (vsub K (vscale K c (vadd K u v)) (vscale K c (vsub K u v))) = v.
Proof. revert v; induction u as [|a u IH]; intros [|b v] H; simpl in *; try discriminate; auto.
  unfold vscale, vadd, vsub in *; simpl. f_equal; [|apply IH; lia].
  replace (c * (c * (a + b) - c * (a - b)))%R with (b * (c * c * (1 + 1)))%R by ring. rewrite c_sq; ring. Qed.

Lemma capp_length k (Z : mat) : length Z = 2 * k -> length (cappA Z) = k /\ length (cdetA Z) = k.
Proof. revert Z; induction k as [|k IH]; intros [|r0 [|r1 t]] H; simpl in *; try lia; auto.
  destruct (IH t) as [E1 E2]; [lia|]. rewrite E1, E2; auto. Qed.
Lemma cunstep_cstep w k (Z : mat) : wfM K w Z -> length Z = 2 * k -> cunstep (cappA Z) (cdetA Z) = Z.
Proof. revert Z; induction k as [|k IH]; intros [|r0 [|r1 t]] W H; simpl in *; try lia; auto.
  inversion W as [|? ? H0 W1]; subst. inversion W1 as [|? ? H1 W2]; subst.
  rewrite vhalf_sum, vhalf_diff, IH by (auto; lia). reflexivity. Qed.
(* the step along axis 0 acts on whole rows: [aa | ad] rows are the approximation of the rows [ra | rd] *)
Lemma capp_app wa n : forall (A B : mat), length A <= n -> wfM K wa A -> length A = length B ->
  map2 (@app K) (cappA A) (cappA B) = cappA (map2 (@app K) A B) /\
  map2 (@app K) (cdetA A) (cdetA B) = cdetA (map2 (@app K) A B).
Proof. induction n as [|n IH]; intros A B Hn W HL.
  - destruct A, B; simpl in *; try lia; auto.
  - destruct A as [|a0 [|a1 A]], B as [|b0 [|b1 B]]; simpl in *; try lia; auto.
    inversion W as [|? ? H0 W1]; subst. inversion W1 as [|? ? H1 W2]; subst.
    destruct (IH A B) as [E1 E2]; [lia | auto | lia |].
    rewrite E1, E2. unfold vadd, vsub. rewrite !map2_app_gen by lia. rewrite !vscale_app. auto. Qed.
Lemma map2_app_map {A} (f g : A -> vec) (X : list A) : map2 (@app K) (map f X) (map g X) = map (fun x => f x ++ g x) X.
Proof. induction X; simpl; auto. rewrite IHX; auto. Qed.

(* the 2-D step is the tensor product of the two 1-D one-level transforms: first every ROW is
   transformed by w1 = hfwd 1, then the one-level step is taken along axis 0 on whole rows *)
Theorem step2_rows_then_cols w (X : mat) : wfM K w X ->
  step2 X = cappA (map w1 X) ++ cdetA (map w1 X).
Proof. intros W. unfold step2.
  assert (WA : wfM K (length (happ K c (zeros K w))) (map (happ K c) X)).
  { unfold wfM in *. apply Forall_map. eapply Forall_impl; [|exact W]. intros x Hx. simpl.
    clear -Hx. revert x Hx. assert (G : forall n (x y : vec), length x = n -> length y = n -> length (happ K c x) = length (happ K c y)).
    { induction n as [n IH] using lt_wf_ind. intros [|x0 [|x1 x]] [|y0 [|y1 y]] Hx Hy; simpl in *; try lia; auto.
      f_equal. apply (IH (length x)); lia. }
    intros x Hx. apply (G w); auto. apply zeros_length. }
  destruct (capp_app (length (happ K c (zeros K w))) (length (map (happ K c) X)) (map (happ K c) X) (map (hdet K c) X)) as [E1 E2];
    [lia | exact WA | rewrite !map_length; auto |].
  rewrite E1, E2, map2_app_map. reflexivity. Qed.

Lemma w1_length k x : length x = 2 * k -> length (w1 x) = 2 * k.
Proof. intros H. unfold w1. rewrite app_length, (happ_length K c k), (hdet_length K c k); auto; lia. Qed.
Lemma unw1 k x : length x = 2 * k -> hunstep K c (firstn k (w1 x)) (skipn k (w1 x)) = x.
Proof. intros H. unfold w1.
  assert (Ha : length (happ K c x) = k) by (apply happ_length; auto).
  rewrite <- Ha at 1 2. rewrite firstn_app, skipn_app, Nat.sub_diag, firstn_all, skipn_all. simpl.
  rewrite app_nil_r. apply (hunstep_hstep K c c_sq k); auto. Qed.

(* INVERSE, level 1, every 2k x 2j array *)
Theorem unstep2_step2 k j (X : mat) : wfM K (2 * j) X -> length X = 2 * k -> unstep2 (step2 X) = X.
Proof. intros W HL. rewrite (step2_rows_then_cols (2 * j) X W).
  set (Z := map w1 X).
  assert (WZ : wfM K (2 * j) Z).
  { unfold Z, wfM in *. apply Forall_map. eapply Forall_impl; [|exact W]. intros x Hx; simpl. apply w1_length; auto. }
  assert (LZ : length Z = 2 * k) by (unfold Z; rewrite map_length; auto).
  destruct (capp_length k Z LZ) as [La Ld].
  unfold unstep2. rewrite app_length, La, Ld.
  assert (E2 : (k + k) / 2 = k) by (replace (k + k) with (k * 2) by lia; apply Nat.div_mul; lia). rewrite E2.
  rewrite <- La at 1 2. rewrite firstn_app, skipn_app, Nat.sub_diag, firstn_all, skipn_all, firstn_O, skipn_O, app_nil_r.
  change ([] ++ cdetA Z) with (cdetA Z).
  rewrite (cunstep_cstep (2 * j) k Z WZ LZ).
  destruct X as [|x0 X']; [reflexivity|].
  assert (Hn : ncols (cappA Z ++ cdetA Z) = 2 * j).
  { unfold Z. destruct X' as [|x1 X'']; [simpl in HL; lia|]. simpl.
    rewrite vscale_length, vadd_length. inversion W as [|? ? H0 W1]; subst. inversion W1 as [|? ? H1 W2]; subst.
    rewrite !(w1_length j) by auto. lia. }
  assert (Hn2 : ncols (cappA Z ++ cdetA Z) / 2 = j) by (rewrite Hn, Nat.mul_comm; apply Nat.div_mul; lia). rewrite Hn2.
  unfold Z. rewrite map_map. rewrite <- (map_id (x0 :: X')) at 2. apply map_ext_in. intros x Hx.
  apply unw1. apply (proj1 (Forall_forall _ _) W); auto. Qed.

Lemma reassemble w (T : mat) : map2 (@app K) (map (firstn w) T) (map (skipn w) T) = T.
Proof. induction T as [|r T IH]; simpl; auto. rewrite IH, firstn_skipn; auto. Qed.
Lemma hfwd2_1 X : hfwd2 1 X = step2 X.
Proof. cbn [hfwd2]. rewrite reassemble, firstn_skipn. reflexivity. Qed.
Lemma hinv2_1 Y : hinv2 1 Y = unstep2 Y.
Proof. cbn [hinv2]. rewrite reassemble, firstn_skipn. reflexivity. Qed.
Theorem hinv2_hfwd2_level1 k j (X : mat) : wfM K (2 * j) X -> length X = 2 * k -> hinv2 1 (hfwd2 1 X) = X.
Proof. intros W H. rewrite hfwd2_1, hinv2_1. apply (unstep2_step2 k j); auto. Qed.

(* with pylops' padding of both axes and the crop: Op^H Op = id at level 1 for EVERY r x cc array *)
Lemma pad2_shape P0 P1 (X : mat) cc : wfM K cc X -> cc <= P1 -> length X <= P0 ->
  wfM K P1 (pad2 P0 P1 X) /\ length (pad2 P0 P1 X) = P0.
Proof. intros W H1 H0. unfold pad2. split.
  - unfold wfM in *. apply Forall_app; split.
    + apply Forall_map. eapply Forall_impl; [|exact W]. intros x Hx; simpl in *. rewrite app_length, zeros_length. lia.
    + apply Forall_forall. intros x Hx. apply repeat_spec in Hx. subst. apply zeros_length.
  - rewrite app_length, map_length, repeat_length. lia. Qed.
Lemma crop_pad2 P0 P1 (X : mat) cc : wfM K cc X ->
  map (firstn cc) (firstn (length X) (pad2 P0 P1 X)) = X.
Proof. intros W. unfold pad2.
  rewrite <- (map_length (fun r => r ++ zeros K (P1 - length r)) X) at 1.
  rewrite firstn_app, Nat.sub_diag, firstn_all, firstn_O, app_nil_r, map_map.
  rewrite <- (map_id X) at 2. apply map_ext_in. intros x Hx.
  assert (Lx : length x = cc) by (apply (proj1 (Forall_forall _ _) W); auto).
  rewrite <- Lx. rewrite firstn_app, Nat.sub_diag, firstn_all, firstn_O. apply app_nil_r. Qed.
Theorem dwt2_adj_fwd_level1 (X : mat) cc : wfM K cc X ->
  dwt2_adj 1 (length X) cc (dwt2_fwd 1 (length X) cc X) = X.
Proof. intros W. unfold dwt2_adj, dwt2_fwd.
  destruct (padlen_form (length X) 1) as [m0 H0]. destruct (padlen_form cc 1) as [m1 H1].
  destruct (pad2_shape (padlen (length X) 1) (padlen cc 1) X cc W (padlen_ge cc 1) (padlen_ge (length X) 1)) as [WP LP].
  assert (E0 : padlen (length X) 1 = 2 * m0) by (rewrite H0; simpl; lia).
  assert (E1 : padlen cc 1 = 2 * m1) by (rewrite H1; simpl; lia).
  rewrite (hinv2_hfwd2_level1 m0 m1); [ | rewrite <- E1; exact WP | rewrite LP; exact E0 ].
  apply crop_pad2; auto. Qed.
End Haar2.
