(* Fredholm.v — pylops/signalprocessing/fredholm1.py: the batched frequency-slice product
       d[k] = G[k] m[k],   G : (nsl, nx, ny),  m : (nsl, ny, nz),  d : (nsl, nx, nz)
   over ANY ring with conjugation.  A 3-d array is a list of row-major slices (its C-order
   flattening is concat (map concat .)).  Code paths, each a separate Gallina function:
     forward   usematmul=True : np.matmul(G, x)                      fr_fwd_matmul
               usematmul=False: for isl: y[isl] = np.dot(G[isl], x[isl])   fr_fwd_loop
     adjoint   saveGt=True  (GT = G.transpose(0,2,1).conj() stored): matmul / loop of dot
               saveGt=False: (x^H G)^H on the fly: matmul / loop of dot
   Theorems (all sizes): the two forward paths are equal, the four adjoint paths are equal,
   forward/adjoint are an adjoint pair for the Frobenius inner product of the arrays (= dot of
   the flattened vectors), forward is additive and homogeneous.  No axioms. *)
From Coq Require Import Lia.
From PV Require Import Dict Vec Dot Mat MatT MatAlg Axis.
Local Open Scope R_scope.

Section Fredholm.
Variable CS : StarRing.
Add Ring RFr : (rth CS).
Notation vec := (list CS).
Notation mat := (list (list CS)).
Notation ten := (list (list (list CS))).
Notation tr := (transpose CS).
Notation ctr := (ctranspose CS).

(* ------------------------------------------------------------------ generic list facts *)
Fixpoint upd_nth {A} (k : nat) (a : A) (l : list A) : list A :=
  match l, k with [], _ => [] | _ :: t, O => a :: t | h :: t, S k' => h :: upd_nth k' a t end.
(* for isl in range(k): y[isl] = f(isl) *)
Fixpoint loop_set {A} (f : nat -> A) (k : nat) (Y : list A) : list A :=
  match k with O => Y | S k' => upd_nth k' (f k') (loop_set f k' Y) end.
Lemma upd_nth_app {A} (l1 : list A) a b l2 : upd_nth (length l1) a (l1 ++ b :: l2) = l1 ++ a :: l2.
Proof. induction l1; simpl; auto. f_equal; auto. Qed.
Lemma skipn_cons_nth {A} k (Y : list A) d : k < length Y -> skipn k Y = nth k Y d :: skipn (S k) Y.
Proof. revert Y; induction k as [|k IH]; intros [|y Y] H; simpl in *; try lia; auto. apply IH; lia. Qed.
Lemma loop_set_prefix {A} (f : nat -> A) k Y : (k <= length Y)%nat -> loop_set f k Y = map f (seq 0 k) ++ skipn k Y.
Proof. induction k as [|k IH]; intros L; [reflexivity|]. cbn [loop_set]. rewrite IH by lia.
  destruct Y as [|y0 Y0] eqn:EY; [simpl in L; lia|]. rewrite <- EY in *.
  rewrite (skipn_cons_nth k Y y0) by lia.
  replace k with (length (map f (seq 0 k))) at 1 by (rewrite map_length, seq_length; auto).
  rewrite upd_nth_app. rewrite seq_S, map_app, <- app_assoc. reflexivity. Qed.
Lemma loop_set_all {A} (f : nat -> A) (Y : list A) : loop_set f (length Y) Y = map f (seq 0 (length Y)).
Proof. rewrite loop_set_prefix by lia. rewrite skipn_all, app_nil_r; auto. Qed.
Lemma map2_tab {A B C} (h : A -> B -> C) (da : A) (db : B) (u : list A) (v : list B) : length u = length v ->
  map (fun k => h (nth k u da) (nth k v db)) (seq 0 (length u)) = map2 h u v.
Proof. revert v; induction u as [|a u IH]; intros [|b v] L; simpl in *; try discriminate; auto.
  f_equal. rewrite <- seq_shift, map_map. apply IH; lia. Qed.

(* ------------------------------------------------------------------ one slice *)
(* apply f to every column of a row-major matrix with c columns; the result has m rows *)
Definition colsF (f : vec -> vec) (c m : nat) (X : mat) : mat := tr m (map f (tr c X)).

Lemma map2_cons_map {A} (g : A -> CS) (G : A -> vec) (l : list A) :
  map2 cons (map g l) (map G l) = map (fun a => g a :: G a) l.
Proof. induction l; simpl; auto. f_equal; auto. Qed.
Lemma map_nil_repeat {A} (l : list A) : map (fun _ => @nil CS) l = repeat [] (length l).
Proof. induction l; simpl; auto. f_equal; auto. Qed.
(* transpose of a tabulated matrix *)
Lemma tr_outer {A B} (h : A -> B -> CS) (la : list A) (lb : list B) :
  tr (length la) (map (fun b => map (fun a => h a b) la) lb) = map (fun a => map (fun b => h a b) lb) la.
Proof. induction lb as [|b lb IH]; simpl.
  - symmetry; apply map_nil_repeat.
  - rewrite IH. apply map2_cons_map. Qed.
(* np.matmul(G, X) computes, column by column, G x_c *)
Lemma mm_as_cols nz (G X : mat) : wfM CS nz X -> wfM CS (length X) G ->
  mm CS nz G X = colsF (mv CS G) nz (length G) X.
Proof. intros WX WG. unfold mm, colsF.
  rewrite (map_ext_in (mvT CS nz X) (fun g => map (fun x => dotu CS g x) (tr nz X))).
  2:{ intros g Hg. rewrite (mvT_as_mv CS nz X g WX) by (apply (proj1 (Forall_forall _ _) WG); auto).
      unfold mv. apply map_ext; intros; apply dotu_comm. }
  unfold mv. symmetry. apply (tr_outer (fun g x => dotu CS g x) G (tr nz X)). Qed.

(* the three per-slice adjoint computations of the code *)
Definition sl_adj_saved (ny nz : nat) (G Y : mat) : mat := mm CS nz (ctr ny G) Y.                 (* GT[isl] @ x[isl] *)
Definition sl_adj_fly (ny nz : nat) (G Y : mat) : mat := ctr ny (mm CS ny (ctr nz Y) G).          (* (x[isl]^H @ G[isl])^H *)

Lemma mconj_map (f : vec -> vec) (M : mat) : mconj CS (map f M) = map (fun r => vconj CS (f r)) M.
Proof. unfold mconj; apply map_map. Qed.
Lemma map_mconj (f : vec -> vec) (M : mat) : map f (mconj CS M) = map (fun r => f (vconj CS r)) M.
Proof. unfold mconj; apply map_map. Qed.
Lemma sl_adj_fly_cols ny nz (G Y : mat) : wfM CS ny G -> wfM CS nz Y -> length Y = length G ->
  sl_adj_fly ny nz G Y = colsF (mv CS (ctr ny G)) nz ny Y.
Proof. intros WG WY L. unfold sl_adj_fly, colsF, mm.
  assert (E : forall n (M : mat), ctr n M = tr n (mconj CS M)) by reflexivity.
  rewrite (E ny (map (mvT CS ny G) (ctr nz Y))), (E nz Y).
  rewrite mconj_map. rewrite <- (MatT.mconj_transpose CS nz Y), map_mconj. f_equal.
  apply map_ext_in. intros y Hy.
  rewrite (vconj_mvT CS ny G _ WG), vconj_invol. fold (mvH CS ny G y).
  apply mvH_as_mv; auto. rewrite <- L.
  apply (proj1 (Forall_forall _ _) (wfM_transpose CS nz Y WY)); auto. Qed.
Lemma sl_adj_saved_cols ny nz (G Y : mat) : wfM CS ny G -> wfM CS nz Y -> length Y = length G ->
  sl_adj_saved ny nz G Y = colsF (mv CS (ctr ny G)) nz ny Y.
Proof. intros WG WY L. unfold sl_adj_saved. rewrite mm_as_cols; auto.
  - rewrite (ctranspose_length CS ny G WG); auto.
  - rewrite L. apply wfM_ctranspose; auto. Qed.
(* (x^H G)^H = G^H x : saveGt=False computes the same slice as saveGt=True *)
Theorem sl_adj_fly_eq_saved ny nz (G Y : mat) : wfM CS ny G -> wfM CS nz Y -> length Y = length G ->
  sl_adj_fly ny nz G Y = sl_adj_saved ny nz G Y.
Proof. intros. rewrite sl_adj_fly_cols, sl_adj_saved_cols; auto. Qed.

(* ------------------------------------------------------------------ Frobenius pairing of matrices *)
Definition mdotc (A B : mat) : CS := mdot CS (mconj CS A) B.      (* sum_rows <a_i, b_i> *)
Lemma mdotc_cons a A b B : mdotc (a :: A) (b :: B) = dot CS a b + mdotc A B.
Proof. reflexivity. Qed.
Lemma mdotc_flat m (A B : mat) : length A = length B -> wfM CS m A -> wfM CS m B ->
  dot CS (concat A) (concat B) = mdotc A B.
Proof. intros L WA; revert B L; induction WA as [|a A Ha WA IH]; intros [|b B] L WB; simpl in *; try discriminate; auto.
  inversion WB; subst. rewrite dot_app by lia. rewrite mdotc_cons, IH by (auto; lia). reflexivity. Qed.
Lemma mdotc_transpose n (A B : mat) : length A = length B -> wfM CS n A -> wfM CS n B ->
  mdotc (tr n A) (tr n B) = mdotc A B.
Proof. intros L WA WB. unfold mdotc. rewrite (MatT.mconj_transpose CS n A).
  apply mdot_transpose; auto using wfM_mconj. rewrite mconj_length; auto. Qed.
Lemma mdotc_map_adj n n' (f g : vec -> vec) (A B : mat) :
  (forall x y, length x = n -> length y = n' -> dot CS (f x) y = dot CS x (g y)) ->
  length A = length B -> wfM CS n A -> wfM CS n' B -> mdotc (map f A) B = mdotc A (map g B).
Proof. intros H L WA; revert B L; induction WA as [|a A Ha WA IH]; intros [|b B] L WB; simpl in *; try discriminate; auto.
  inversion WB; subst. rewrite !mdotc_cons, H, IH by (auto; lia). reflexivity. Qed.
(* adjoint pairs lift to columns *)
Lemma colsF_adjoint n n' c (f g : vec -> vec) (X Y : mat) :
  (forall x y, length x = n -> length y = n' -> dot CS (f x) y = dot CS x (g y)) ->
  (forall x, length x = n -> length (f x) = n') -> (forall y, length y = n' -> length (g y) = n) ->
  wfM CS c X -> length X = n -> wfM CS c Y -> length Y = n' ->
  mdotc (colsF f c n' X) Y = mdotc X (colsF g c n Y).
Proof. intros H Lf Lg WX LX WY LY. unfold colsF.
  assert (W1 : wfM CS n (tr c X)) by (rewrite <- LX; apply wfM_transpose; auto).
  assert (W2 : wfM CS n' (tr c Y)) by (rewrite <- LY; apply wfM_transpose; auto).
  assert (L1 : length (tr c X) = c) by (apply transpose_length; auto).
  assert (L2 : length (tr c Y) = c) by (apply transpose_length; auto).
  assert (W3 : wfM CS n' (map f (tr c X))) by (eapply Axis.wfM_map; eauto).
  assert (W4 : wfM CS n (map g (tr c Y))) by (eapply Axis.wfM_map; eauto).
  rewrite <- (transpose_involutive CS c Y WY) at 1. rewrite LY.
  rewrite mdotc_transpose by (rewrite ?map_length; auto; lia).
  rewrite (mdotc_map_adj n n' f g) by (auto; lia).
  rewrite <- (transpose_involutive CS c X WX) at 2. rewrite LX.
  rewrite mdotc_transpose by (rewrite ?map_length; auto; lia). reflexivity. Qed.

(* one slice: <G X, Y> = <X, G^H Y> *)
Theorem slice_adjoint nx ny nz (G X Y : mat) : wfM CS ny G -> length G = nx ->
  wfM CS nz X -> length X = ny -> wfM CS nz Y -> length Y = nx ->
  mdotc (mm CS nz G X) Y = mdotc X (sl_adj_saved ny nz G Y).
Proof. intros WG LG WX LX WY LY.
  rewrite mm_as_cols by (auto; rewrite LX; auto). rewrite sl_adj_saved_cols by (auto; lia). rewrite LG.
  apply (colsF_adjoint ny nx nz); auto.
  - intros x y Hx Hy. rewrite (dot_mv_mvH CS ny G x y) by (auto; lia). f_equal. apply mvH_as_mv; auto; lia.
  - intros; rewrite mv_length; auto.
  - intros; rewrite mv_length. apply ctranspose_length; auto. Qed.

(* ------------------------------------------------------------------ the six code paths on 3-d arrays *)
Definition zmat (r c : nat) : mat := repeat (zeros CS c) r.
Definition fr_fwd_matmul (nz : nat) (G X : ten) : ten := map2 (mm CS nz) G X.
Definition fr_fwd_loop (nx nz : nat) (G X : ten) : ten :=
  loop_set (fun k => mm CS nz (nth k G []) (nth k X [])) (length G) (repeat (zmat nx nz) (length G)).
Definition fr_adj_saved_matmul (ny nz : nat) (G Y : ten) : ten := map2 (mm CS nz) (map (ctr ny) G) Y.
Definition fr_adj_saved_loop (ny nz : nat) (G Y : ten) : ten :=
  let GT := map (ctr ny) G in
  loop_set (fun k => mm CS nz (nth k GT []) (nth k Y [])) (length G) (repeat (zmat ny nz) (length G)).
Definition fr_adj_fly_matmul (ny nz : nat) (G Y : ten) : ten := map2 (sl_adj_fly ny nz) G Y.
Definition fr_adj_fly_loop (ny nz : nat) (G Y : ten) : ten :=
  loop_set (fun k => sl_adj_fly ny nz (nth k G []) (nth k Y [])) (length G) (repeat (zmat ny nz) (length G)).

(* shapes: T has nsl slices, each r x c *)
Definition wfT (r c : nat) (T : ten) : Prop := Forall (fun M => length M = r /\ wfM CS c M) T.

Theorem fr_fwd_paths_equal nx nz (G X : ten) : length X = length G ->
  fr_fwd_loop nx nz G X = fr_fwd_matmul nz G X.
Proof. intros L. unfold fr_fwd_loop, fr_fwd_matmul.
  rewrite <- (repeat_length (zmat nx nz) (length G)) at 1. rewrite loop_set_all, repeat_length.
  apply map2_tab; auto. Qed.
Lemma map2_ext_in2 {A B C} (h h' : A -> B -> C) (P : A -> Prop) (Q : B -> Prop) u v :
  Forall P u -> Forall Q v -> (forall a b, P a -> Q b -> h a b = h' a b) -> map2 h u v = map2 h' u v.
Proof. intros Hu; revert v; induction Hu; intros v Hv H0; destruct Hv; simpl; auto. rewrite H0, IHHu; auto. Qed.
Lemma map2_map_l {A A' B C} (h : A' -> B -> C) (g : A -> A') u v : map2 h (map g u) v = map2 (fun a b => h (g a) b) u v.
Proof. revert v; induction u; intros [|b v]; simpl; auto. f_equal; auto. Qed.
Theorem fr_adj_paths_equal nx ny nz (G Y : ten) : length Y = length G -> wfT nx ny G -> wfT nx nz Y ->
  fr_adj_saved_loop ny nz G Y = fr_adj_saved_matmul ny nz G Y /\
  fr_adj_fly_matmul ny nz G Y = fr_adj_saved_matmul ny nz G Y /\
  fr_adj_fly_loop ny nz G Y = fr_adj_saved_matmul ny nz G Y.
Proof. intros L WG WY.
  assert (E : fr_adj_fly_matmul ny nz G Y = fr_adj_saved_matmul ny nz G Y).
  { unfold fr_adj_fly_matmul, fr_adj_saved_matmul. rewrite map2_map_l.
    apply (map2_ext_in2 _ _ _ _ G Y WG WY). intros g y [Lg Wg] [Ly Wy].
    apply sl_adj_fly_eq_saved; auto; lia. }
  repeat split; auto.
  - unfold fr_adj_saved_loop, fr_adj_saved_matmul.
    rewrite <- (repeat_length (zmat ny nz) (length G)) at 1. rewrite loop_set_all, repeat_length.
    rewrite <- (map_length (ctr ny) G). apply map2_tab. rewrite map_length; auto.
  - rewrite <- E. unfold fr_adj_fly_loop, fr_adj_fly_matmul.
    rewrite <- (repeat_length (zmat ny nz) (length G)) at 1. rewrite loop_set_all, repeat_length.
    apply map2_tab; auto. Qed.

(* Frobenius pairing of 3-d arrays = dot of the C-order flattenings *)
Fixpoint tdot (A B : ten) : CS :=
  match A, B with a :: A', b :: B' => mdotc a b + tdot A' B' | _, _ => 0 end.
Definition flat3 (T : ten) : vec := concat (map (@concat CS) T).
Lemma wf_concat_length r c (M : mat) : length M = r -> wfM CS c M -> length (concat M) = (r * c)%nat.
Proof. intros L W. rewrite (Axis.concat_wf_length CS c M W). lia. Qed.
Theorem tdot_flat r c (A B : ten) : length A = length B -> wfT r c A -> wfT r c B ->
  dot CS (flat3 A) (flat3 B) = tdot A B.
Proof. intros L WA; revert B L; induction WA as [|a A [La Wa] WA IH]; intros [|b B] L WB; simpl in *; try discriminate; auto.
  inversion WB as [|? ? [Lb Wb] WB']; subst. unfold flat3 in *. cbn [map concat].
  rewrite dot_app by (rewrite (wf_concat_length (length a) c a), (wf_concat_length (length a) c b); auto).
  rewrite IH by (auto; lia). rewrite (mdotc_flat c) by (auto; lia). reflexivity. Qed.

(* ADJOINT PAIR, all sizes: <Fredholm1 X, Y> = <X, Fredholm1^H Y> *)
Theorem fredholm_adjoint nx ny nz (G X Y : ten) : length X = length G -> length Y = length G ->
  wfT nx ny G -> wfT ny nz X -> wfT nx nz Y ->
  tdot (fr_fwd_matmul nz G X) Y = tdot X (fr_adj_saved_matmul ny nz G Y).
Proof. intros LX LY WG; revert X Y LX LY; induction WG as [|g G [Lg Wg] WG IH]; intros [|x X] [|y Y] LX LY WX WY;
  simpl in *; try discriminate; auto.
  inversion WX as [|? ? [Lx Wx] WX']; inversion WY as [|? ? [Ly Wy] WY']; subst.
  unfold fr_fwd_matmul, fr_adj_saved_matmul in *. cbn [map map2 tdot].
  rewrite (slice_adjoint (length g) (length x) nz g x y) by auto.
  rewrite IH by (auto; lia). reflexivity. Qed.

(* the adjoint is a batched product too (with the conjugate-transposed kernel), hence every
   statement about the forward applies to it *)
Lemma fr_adj_is_fwd ny nz (G Y : ten) : fr_adj_saved_matmul ny nz G Y = fr_fwd_matmul nz (map (ctr ny) G) Y.
Proof. reflexivity. Qed.

(* LINEARITY (row form: np.matmul is additive and homogeneous in its second argument) *)
Definition tadd (A B : ten) : ten := map2 (madd CS) A B.
Definition tscale (a : CS) (A : ten) : ten := map (mscale CS a) A.
Lemma mvT_madd n (A B : mat) g : wfM CS n A -> wfM CS n B -> length A = length B ->
  mvT CS n (madd CS A B) g = vadd CS (mvT CS n A g) (mvT CS n B g).
Proof. intros WA; revert B g; induction WA as [|a A Ha WA IH]; intros [|b B] [|t g] WB L; simpl in *; try discriminate;
  try (symmetry; rewrite <- (zeros_length CS n) at 1; apply vadd_zeros_l).
  inversion WB; subst. unfold madd in *. rewrite IH by (auto; lia). fold (vadd CS a b).
  rewrite vscale_vadd. apply vadd_swap4. Qed.
Lemma mvT_mscale n a (A : mat) g : mvT CS n (mscale CS a A) g = vscale CS a (mvT CS n A g).
Proof. revert g; induction A as [|r A IH]; intros [|t g]; simpl; try (symmetry; apply vscale_zeros).
  unfold mscale in *. rewrite IH, vscale_vadd, !vscale_vscale. f_equal. f_equal. ring. Qed.
Lemma mm_madd n (G A B : mat) : wfM CS n A -> wfM CS n B -> length A = length B ->
  mm CS n G (madd CS A B) = madd CS (mm CS n G A) (mm CS n G B).
Proof. intros WA WB L. unfold mm, madd. induction G as [|g G IH]; simpl; auto. f_equal; auto. apply mvT_madd; auto. Qed.
Lemma mm_mscale n a (G A : mat) : mm CS n G (mscale CS a A) = mscale CS a (mm CS n G A).
Proof. unfold mm, mscale. rewrite map_map. apply map_ext. intros; apply mvT_mscale. Qed.
Theorem fredholm_additive ny nz (G X X' : ten) : length X = length X' -> wfT ny nz X -> wfT ny nz X' ->
  fr_fwd_matmul nz G (tadd X X') = tadd (fr_fwd_matmul nz G X) (fr_fwd_matmul nz G X').
Proof. intros L WX; revert G X' L; induction WX as [|x X [Lx Wx] WX IH]; intros [|g G] [|x' X'] L WX'; simpl in *; try discriminate; auto.
  inversion WX' as [|? ? [Lx' Wx'] WX'']; subst. unfold fr_fwd_matmul, tadd in *. cbn [map2].
  rewrite mm_madd by (auto; lia). f_equal. apply IH; auto; lia. Qed.
Theorem fredholm_homogeneous nz a (G X : ten) :
  fr_fwd_matmul nz G (tscale a X) = tscale a (fr_fwd_matmul nz G X).
Proof. unfold fr_fwd_matmul, tscale. revert X; induction G as [|g G IH]; intros [|x X]; simpl; auto.
  rewrite mm_mscale, IH; auto. Qed.
End Fredholm.
