(* DerivND.v — 2-D Laplacian as the code composes it (laplacian.py:_calc_l2op:
   weighted sum over the axes of SecondDerivative with `kind` and `edge`
   forwarded to EVERY axis) against the documented one; the pre-5e5f222
   composition (kind reached axes[0] only) is kept as [lap2_legacy] with a
   witness that it differs, i.e. the statement is not vacuous. Witnesses over
   Qc. A 2-D C-ordered array is a list of rows. *)
From Coq Require Import QArith Qcanon ZArith List.
From Coq Require Import Lia.
From PV Require Import Dict Vec Dot Mat QcInst Slice Deriv Deriv2 DerivSpec DerivStencil.
Import ListNotations.
Open Scope nat_scope.

Section Lap2.
Variable F : FieldS.
Notation vec := (list F).
Notation arr := (list (list F)).
(* apply a 1-D map along axis 1 (rows) / axis 0 (columns) of an n0 x n1 array *)
Definition along1 (f : vec -> vec) (X : arr) : arr := map f X.
Definition along0 (n0 n1 : nat) (f : vec -> vec) (X : arr) : arr := transpose F n0 (map f (transpose F n1 X)).
Definition aadd (X Y : arr) : arr := map2 (vadd F) X Y.
Definition ascale (c : F) (X : arr) : arr := map (vscale F c) X.
(* Laplacian(dims=(n0,n1), axes=(0,1), weights=(w0,w1), sampling=(s0,s1), edge, kind):
   l2op = w0 * SecondDerivative(axis 0, kind, edge, s0) + w1 * SecondDerivative(axis 1, kind, edge, s1) *)
Definition lap2_coded (k : dkind) (e : bool) (w0 w1 s0 s1 : F) (n0 n1 : nat) (X : arr) : arr :=
  aadd (ascale w0 (along0 n0 n1 (sd_fwd F k e s0) X)) (ascale w1 (along1 (sd_fwd F k e s1) X)).
(* documented: the same documented stencil (kind, edge) along every axis *)
Definition sd_specv (k : dkind) (e : bool) (s : F) (x : vec) : vec :=
  map (fun i => sd_spec F k e s (length x) i x) (seq 0 (length x)).
Definition lap2_doc (k : dkind) (e : bool) (w0 w1 s0 s1 : F) (n0 n1 : nat) (X : arr) : arr :=
  aadd (ascale w0 (along0 n0 n1 (sd_specv k e s0) X)) (ascale w1 (along1 (sd_specv k e s1) X)).
(* before the fix: kind was dropped on axes[1:] *)
Definition lap2_legacy (k : dkind) (e : bool) (w0 w1 s0 s1 : F) (n0 n1 : nat) (X : arr) : arr :=
  aadd (ascale w0 (along0 n0 n1 (sd_fwd F k e s0) X)) (ascale w1 (along1 (sd_fwd F Centered e s1) X)).

Lemma sd_fwd_specv k e s x : sd_minsize k e <= length x -> sd_fwd F k e s x = sd_specv k e s x.
Proof. intros H. apply (nth_ext _ _ (r0 F) (r0 F)).
  - unfold sd_specv. rewrite map_length, seq_length. apply sd_fwd_length; auto.
  - intros i Hi. rewrite sd_fwd_length in Hi by auto. rewrite sd_meets_spec by auto.
    unfold sd_specv. rewrite (nth_indep _ _ (sd_spec F k e s (length x) 0 x)) by (rewrite map_length, seq_length; auto).
    rewrite (map_nth (fun i => sd_spec F k e s (length x) i x)). rewrite seq_nth by auto. reflexivity. Qed.
Lemma map_ext_len (f g : vec -> vec) n (X : arr) : Forall (fun r => length r = n) X ->
  (forall x, length x = n -> f x = g x) -> map f X = map g X.
Proof. intros W H. apply map_ext_in. intros r Hr. apply H. eapply Forall_forall in W; eauto. Qed.
Lemma Forall_map2_cons m (r : vec) (T : arr) : Forall (fun c => length c = m) T ->
  Forall (fun c => length c = S m) (map2 cons r T).
Proof. intros H. revert r. induction H as [|c T Hc W IH]; intros [|a r]; simpl; constructor; simpl; auto. Qed.
Lemma transpose_rows n (X : arr) : Forall (fun c => length c = length X) (transpose F n X).
Proof. induction X as [|r X IH]; simpl.
  - apply Forall_forall. intros c Hc. apply repeat_spec in Hc. subst; reflexivity.
  - apply Forall_map2_cons; auto. Qed.
(* the composition as coded computes the documented Laplacian for every kind, edge, weights,
   samplings and every n0 x n1 array whose sides are large enough for the stencil *)
Theorem lap2_meets_doc k e w0 w1 s0 s1 n0 n1 (X : arr) :
  length X = n0 -> Forall (fun r => length r = n1) X -> sd_minsize k e <= n0 -> sd_minsize k e <= n1 ->
  lap2_coded k e w0 w1 s0 s1 n0 n1 X = lap2_doc k e w0 w1 s0 s1 n0 n1 X.
Proof. intros L W H0 H1. unfold lap2_coded, lap2_doc, along0, along1. f_equal; f_equal.
  - f_equal. apply (map_ext_len _ _ n0).
    + rewrite <- L. apply transpose_rows.
    + intros x Hx. apply sd_fwd_specv; lia.
  - apply (map_ext_len _ _ n1); auto. intros x Hx. apply sd_fwd_specv; lia. Qed.
End Lap2.

Definition q1 : Qc := Q2Qc 1.
Definition X33 : list (list Qc) := [[q1; Q2Qc 0; Q2Qc 0]; [Q2Qc 0; Q2Qc 0; Q2Qc 0]; [Q2Qc 0; Q2Qc 0; Q2Qc 0]].
(* legacy witness: Laplacian((3,3), kind='forward') on e_0: documented value at [0,0] is 2, the
   pre-fix composition gave 1 — so lap2_meets_doc would be false of the old code *)
Lemma lap2_legacy_differs :
  map (map this) (lap2_legacy QcF Forward false q1 q1 q1 q1 3 3 X33) <> map (map this) (lap2_doc QcF Forward false q1 q1 q1 q1 3 3 X33).
Proof. vm_compute. discriminate. Qed.
Lemma lap2_example : map (map this) (lap2_coded QcF Forward false q1 q1 q1 q1 3 3 X33) = [[2#1; 0#1; 0#1]; [0#1; 0#1; 0#1]; [0#1; 0#1; 0#1]]%Q.
Proof. vm_compute. reflexivity. Qed.

(* FirstDerivative(3, kind='centered', order=5, edge=True): rows 1 and -2 alias; the forward sets
   (last write wins) while the adjoint accumulates twice — not an adjoint pair at n = 3 *)
Definition e3 (j : nat) : list Qc := unit QcR 3 j.
Lemma fd_c5_edge_n3_not_adjoint :
  this (dotu QcR (fd_fwd QcF Centered true true q1 (e3 0)) (e3 1)) <> this (dotu QcR (e3 0) (fd_adj QcF Centered true true q1 (e3 1))).
Proof. vm_compute. discriminate. Qed.
Lemma fd_c5_edge_n3_refuted : exists x y : list Qc, length x = 3%nat /\ length y = 3%nat /\
  dotu QcR (fd_fwd QcF Centered true true q1 x) y <> dotu QcR x (fd_adj QcF Centered true true q1 y).
Proof. exists (e3 0), (e3 1). repeat split; try reflexivity. intro H. apply fd_c5_edge_n3_not_adjoint. rewrite H. reflexivity. Qed.

(* non-vacuity: the quadratic samples 0 1 4 9 16 through the 5-point operator with edges *)
Definition xsq : list Qc := map (fun k => Q2Qc (Z.of_nat (k * k) # 1)) (seq 0 5).
Lemma fd_example : map this (fd_fwd QcF Centered true true q1 xsq) = [1#1; 2#1; 4#1; 6#1; 7#1]%Q.
Proof. vm_compute. reflexivity. Qed.
Lemma sd_example : map this (sd_fwd QcF Centered true q1 xsq) = [2#1; 2#1; 2#1; 2#1; 2#1]%Q.
Proof. vm_compute. reflexivity. Qed.
