(* Seismic.v — C20: explicit (dense) and matrix-free seismic modelling paths.

   Mirrors (read from /repo):
   * pylops/utils/signalprocessing.py: convmtx  (Toeplitz of col_1 = h ++ zeros(n+nh-2),
     row_1 = h[0] :: zeros(n-1); rows [offset, offset+nh+n-1) kept), nonstationary_convmtx;
   * pylops/avo/poststack.py: dense D (centered: diag(.5,k=1) - diag(.5,k=-1), rows 0 and -1
     zeroed; forward: diag(1,k=1) - diag(1,k=0), row -1 zeroed), C = convmtx(w,nt0,nh//2)[:nt0],
     M = C @ D; matrix-free  Convolve1D(offset=nh//2, axis=0) * FirstDerivative(axis=0,
     sampling=1, kind, edge=False);
   * pylops/signalprocessing/convolve1d.py (_Convolve1Dshort): 'same' convolution; for
     offset = nh//2 an even filter is zero padded by one sample at the end, so that for odd
     AND even nh:  y_i = sum_k h_k x_{i + offset - k}  (x zero outside [0,n));
   * pylops/basicoperators/firstderivative.py (_matvec_centered3 edge=False, _matvec_forward);
   * pylops/avo/prestack.py: M = bdiag(C)^ntheta @ (Gbig @ bdiag(D)^npars), Gbig = vstack_theta
     hstack_k diag(G_k[theta]); matrix-free Convolve1D * AVOLinearModelling * FirstDerivative on
     the time-major layout (nt0, npars|ntheta, spat).
   Everything is over an arbitrary commutative ring; [half] is any ring element (0.5 in the
   execution), the AVO tables are arbitrary ring data.  No axioms. *)
From Coq Require Import ZArith Lia ZifyBool.
From PV Require Import Dict Vec Dot Mat.
Local Open Scope R_scope.

Section Seismic.
Variable R : CRing.
Add Ring Rseis : (rth R).
Notation vec := (list R).
Notation mat := (list (list R)).

(* ------------------------------------------------------------------ finite sums *)
Fixpoint bsum (n : nat) (f : nat -> R) : R :=
  match n with O => 0 | S m => bsum m f + f m end.

Lemma bsum_ext n f g : (forall i, i < n -> f i = g i) -> bsum n f = bsum n g.
Proof. induction n as [|n IH]; intros H; simpl; auto. rewrite IH, H by (intros; auto with arith); auto. Qed.
Lemma bsum_zero n f : (forall i, i < n -> f i = 0) -> bsum n f = 0.
Proof. induction n as [|n IH]; intros H; simpl; auto. rewrite IH, H by (intros; auto with arith). ring. Qed.
Lemma bsum_first n f : bsum (S n) f = f O + bsum n (fun i => f (S i)).
Proof. induction n as [|n IH]; [simpl; ring|]. change (bsum (S (S n)) f) with (bsum (S n) f + f (S n)).
  rewrite IH. simpl. ring. Qed.
Lemma bsum_add n f g : bsum n (fun i => f i + g i) = bsum n f + bsum n g.
Proof. induction n as [|n IH]; simpl; [ring | rewrite IH; ring]. Qed.
Lemma bsum_sub n f g : bsum n (fun i => f i - g i) = bsum n f - bsum n g.
Proof. induction n as [|n IH]; simpl; [ring | rewrite IH; ring]. Qed.
Lemma bsum_scale a n f : bsum n (fun i => a * f i) = a * bsum n f.
Proof. induction n as [|n IH]; simpl; [ring | rewrite IH; ring]. Qed.
Lemma bsum_scale_r a n f : bsum n (fun i => f i * a) = bsum n f * a.
Proof. induction n as [|n IH]; simpl; [ring | rewrite IH; ring]. Qed.
Lemma bsum_support n m f : (m <= n)%nat -> (forall i, (m <= i)%nat -> i < n -> f i = 0) -> bsum n f = bsum m f.
Proof. induction n as [|n IH]; intros L H.
  - replace m with O by lia; auto.
  - destruct (Nat.eq_dec m (S n)) as [->|N]; auto.
    simpl. rewrite H by lia. rewrite IH by (auto; lia). ring. Qed.
Lemma bsum_rev n f : bsum n f = bsum n (fun i => f (n - 1 - i)%nat).
Proof. induction n as [|n IH]; auto. rewrite (bsum_first n (fun i => f (S n - 1 - i)%nat)).
  simpl bsum at 1. rewrite IH. replace (S n - 1 - 0)%nat with n by lia.
  rewrite (bsum_ext n (fun i => f (S n - 1 - S i)%nat) (fun i => f (n - 1 - i)%nat)).
  - ring.
  - intros; f_equal; lia. Qed.
Lemma bsum_delta n k g : k < n -> bsum n (fun j => if Nat.eqb j k then g j else 0) = g k.
Proof. induction n as [|n IH]; intros L; [lia|]. simpl. destruct (Nat.eqb_spec n k) as [->|N].
  - rewrite bsum_zero; [ring|]. intros i Hi. destruct (Nat.eqb_spec i k); auto; lia.
  - rewrite IH by lia. ring. Qed.
Lemma bsum_exchange n m (f : nat -> nat -> R) :
  bsum n (fun i => bsum m (fun j => f i j)) = bsum m (fun j => bsum n (fun i => f i j)).
Proof. induction n as [|n IH]; simpl.
  - symmetry; apply bsum_zero; auto.
  - rewrite IH, <- bsum_add; auto. Qed.

(* ------------------------------------------------------------------ list helpers *)
Lemma nth_firstn' {A} k (l : list A) i d : i < k -> nth i (firstn k l) d = nth i l d.
Proof. revert i l; induction k as [|k IH]; intros i l H; [lia|]. destruct l as [|a l]; auto.
  destruct i; simpl; auto. apply IH; lia. Qed.
Lemma nth_skipn' {A} k (l : list A) i d : nth i (skipn k l) d = nth (k + i) l d.
Proof. revert l; induction k as [|k IH]; intros l; auto. destruct l as [|a l]; simpl; auto. destruct i; auto. Qed.
Lemma Forall_firstn' {A} (P : A -> Prop) k l : Forall P l -> Forall P (firstn k l).
Proof. revert l; induction k as [|k IH]; intros l H; simpl; auto. destruct H; constructor; auto. Qed.
Lemma Forall_skipn' {A} (P : A -> Prop) k l : Forall P l -> Forall P (skipn k l).
Proof. revert l; induction k as [|k IH]; intros l H; simpl; auto. destruct H; auto. Qed.
Lemma nth_map' {A B} (F : A -> B) l i d d' : i < length l -> nth i (map F l) d = F (nth i l d').
Proof. intros. rewrite nth_indep with (d' := F d') by (rewrite map_length; auto). apply map_nth. Qed.
Lemma nth_mapseq {A} (F : nat -> A) k n i d : i < n -> nth i (map F (seq k n)) d = F (k + i)%nat.
Proof. intros H. rewrite nth_indep with (d' := F O) by (rewrite map_length, seq_length; auto).
  rewrite map_nth, seq_nth; auto. Qed.
Lemma nth_zeros n k : nth k (zeros R n) 0 = 0.
Proof. unfold zeros. revert k; induction n as [|n IH]; intros [|k]; simpl; auto. Qed.
Lemma nth_app_zeros (h : vec) m k : nth k (h ++ zeros R m) 0 = nth k h 0.
Proof. destruct (lt_dec k (length h)) as [L|L].
  - apply app_nth1; auto.
  - rewrite app_nth2, nth_zeros by lia. symmetry; apply nth_overflow; lia. Qed.
Lemma row_mapseq (r : vec) : r = map (fun j => nth j r 0) (seq 0 (length r)).
Proof. induction r as [|a r IH]; auto. simpl. f_equal. rewrite <- seq_shift, map_map. exact IH. Qed.
Lemma vec_ext (u v : vec) : length u = length v -> (forall i, i < length u -> nth i u 0 = nth i v 0) -> u = v.
Proof. intros; eapply nth_ext; eauto. Qed.

(* ------------------------------------------------------------------ matrices from entry functions *)
Definition mkmat (m n : nat) (f : nat -> nat -> R) : mat :=
  map (fun i => map (fun j => f i j) (seq 0 n)) (seq 0 m).
Definition ent (M : mat) (i j : nat) : R := nth j (nth i M []) 0.

Lemma mkmat_length m n f : length (mkmat m n f) = m.
Proof. unfold mkmat; rewrite map_length, seq_length; auto. Qed.
Lemma mkmat_wf m n f : wfM R n (mkmat m n f).
Proof. unfold wfM, mkmat. apply Forall_forall. intros r Hr. apply in_map_iff in Hr. destruct Hr as [i [<- _]].
  rewrite map_length, seq_length; auto. Qed.
Lemma ent_mkmat m n f i j : i < m -> j < n -> ent (mkmat m n f) i j = f i j.
Proof. intros Hi Hj. unfold ent, mkmat. rewrite (nth_mapseq _ 0 m i []) by auto.
  rewrite (nth_mapseq _ 0 n j 0) by auto. auto. Qed.

Lemma dotu_mapseq (f : nat -> R) k n x :
  dotu R (map f (seq k n)) x = bsum n (fun j => f (k + j)%nat * nth j x 0).
Proof. revert k x; induction n as [|n IH]; intros k x; [reflexivity|].
  destruct x as [|a x].
  - rewrite dotu_nil_r. symmetry; apply bsum_zero. intros [|i] _; simpl; ring.
  - rewrite bsum_first. cbn [seq map dotu nth]. rewrite IH. replace (k + 0)%nat with k by lia.
    f_equal. apply bsum_ext; intros i _. replace (S k + i)%nat with (k + S i)%nat by lia. auto. Qed.
Lemma dotu_bsum (r x : vec) : dotu R r x = bsum (length r) (fun j => nth j r 0 * nth j x 0).
Proof. rewrite (row_mapseq r) at 1. rewrite dotu_mapseq. apply bsum_ext; intros; auto. Qed.
Lemma wf_row n (M : mat) i : wfM R n M -> i < length M -> length (nth i M []) = n.
Proof. intros W L. unfold wfM in W. rewrite Forall_forall in W. apply W. apply nth_In; auto. Qed.
(* every wf matrix acts by its entries *)
Lemma mv_ent n (M : mat) x i : wfM R n M -> i < length M ->
  nth i (mv R M x) 0 = bsum n (fun j => ent M i j * nth j x 0).
Proof. intros W L. unfold mv. rewrite (nth_map' (fun r => dotu R r x) M i 0 []) by auto.
  rewrite dotu_bsum, (wf_row n M i W L). reflexivity. Qed.
Lemma mv_mkmat m n f x : mv R (mkmat m n f) x = map (fun i => bsum n (fun j => f i j * nth j x 0)) (seq 0 m).
Proof. unfold mv, mkmat. rewrite map_map. apply map_ext. intros i. rewrite dotu_mapseq. apply bsum_ext; auto. Qed.

(* matrix product as coded by numpy.dot: row i of A B = sum_k A[i,k] * row_k(B) *)
Definition mm (n : nat) (A B : mat) : mat := map (fun ra => mvT R n B ra) A.
Lemma mm_length n A B : length (mm n A B) = length A.
Proof. apply map_length. Qed.
Lemma mm_wf n A B : wfM R n B -> wfM R n (mm n A B).
Proof. intros W. unfold wfM, mm. apply Forall_forall. intros r Hr. apply in_map_iff in Hr.
  destruct Hr as [ra [<- _]]. apply mvT_length; auto. Qed.
(* (A B) x = A (B x) *)
Theorem mv_mm n A B x : wfM R n B -> wfM R (length B) A -> length x = n ->
  mv R (mm n A B) x = mv R A (mv R B x).
Proof. intros WB WA Hx. unfold mm, mv at 1 2. rewrite map_map. apply map_ext_in. intros ra Hra.
  rewrite dotu_comm. rewrite <- (dotu_mv_mvT R n B x ra); auto.
  - apply dotu_comm.
  - unfold wfM in WA. rewrite Forall_forall in WA. auto. Qed.

(* ------------------------------------------------------------------ convmtx as coded *)
(* scipy.linalg.toeplitz(c, r): T[i,j] = c[i-j] (i >= j), r[j-i] (i < j) *)
Definition toeplitz (c r : vec) : mat :=
  mkmat (length c) (length r) (fun i j => if Nat.leb j i then nth (i - j) c 0 else nth (j - i) r 0).
Definition convmtx_model (h : vec) (n offset : nat) : mat :=
  let nh := length h in
  let col1 := h ++ zeros R (n + nh - 2) in
  let row1 := hd 0 h :: zeros R (n - 1) in
  firstn (nh + n - 1) (skipn offset (toeplitz col1 row1)).
(* h_{s-j}, zero outside the filter *)
Definition tap (h : vec) (s j : nat) : R := if Nat.leb j s then nth (s - j) h 0 else 0.

Lemma toeplitz_length c r : length (toeplitz c r) = length c.
Proof. apply mkmat_length. Qed.
Lemma convmtx_wf h n off : (1 <= n)%nat -> wfM R n (convmtx_model h n off).
Proof. intros Hn. unfold convmtx_model. apply Forall_firstn', Forall_skipn'.
  eapply Forall_impl; [| apply mkmat_wf]. intros r Hr. cbv beta in Hr. rewrite Hr. simpl. rewrite zeros_length. lia. Qed.
Lemma convmtx_length h n off : (1 <= length h)%nat -> (1 <= n)%nat -> off < length h ->
  length (convmtx_model h n off) = (length h + n - 1)%nat.
Proof. intros Hh Hn Ho. unfold convmtx_model. rewrite firstn_length, skipn_length, toeplitz_length, app_length, zeros_length. lia. Qed.
(* which slice of the full Toeplitz matrix convmtx keeps: C[i,j] = h[i+offset-j] *)
Theorem convmtx_entry h n off i j : (1 <= length h)%nat -> off < length h -> i < length h + n - 1 -> j < n ->
  ent (convmtx_model h n off) i j = tap h (i + off) j.
Proof. intros Hh Ho Hi Hj. unfold ent, convmtx_model.
  rewrite nth_firstn' by auto. rewrite nth_skipn'. fold (ent (toeplitz (h ++ zeros R (n + length h - 2)) (hd 0 h :: zeros R (n - 1))) (off + i) j).
  unfold toeplitz. rewrite ent_mkmat.
  - unfold tap. replace (off + i)%nat with (i + off)%nat by lia. destruct (Nat.leb_spec j (i + off)).
    + apply nth_app_zeros.
    + destruct (j - (i + off))%nat as [|p] eqn:E; [lia|]. simpl. apply nth_zeros.
  - rewrite app_length, zeros_length. lia.
  - simpl. rewrite zeros_length. lia. Qed.

(* the [:nt0] rows used by poststack.py / prestack.py *)
Definition Cmat (w : vec) (nt0 : nat) : mat := firstn nt0 (convmtx_model w nt0 (length w / 2)).
Lemma half_lt n : (1 <= n)%nat -> (n / 2 < n)%nat.
Proof. intros. apply Nat.div_lt; lia. Qed.
Lemma Cmat_length w nt0 : (1 <= length w)%nat -> (1 <= nt0)%nat -> length (Cmat w nt0) = nt0.
Proof. intros Hw Hn. unfold Cmat. rewrite firstn_length, convmtx_length by (auto using half_lt). lia. Qed.
Lemma Cmat_wf w nt0 : (1 <= nt0)%nat -> wfM R nt0 (Cmat w nt0).
Proof. intros; apply Forall_firstn', convmtx_wf; auto. Qed.
Lemma Cmat_entry w nt0 i j : (1 <= length w)%nat -> i < nt0 -> j < nt0 ->
  ent (Cmat w nt0) i j = tap w (i + length w / 2) j.
Proof. intros Hw Hi Hj. unfold ent, Cmat. rewrite nth_firstn' by auto.
  apply convmtx_entry; auto using half_lt. lia. Qed.

(* ------------------------------------------------------------------ Convolve1D forward ('same', centre = offset) *)
Definition conv_same (h : vec) (off : nat) (x : vec) : vec :=
  map (fun i => bsum (length h) (fun k => nth k h 0 * (if Nat.leb k (i + off) then nth (i + off - k) x 0 else 0)))
      (seq 0 (length x)).
Lemma conv_same_length h off x : length (conv_same h off x) = length x.
Proof. unfold conv_same; rewrite map_length, seq_length; auto. Qed.

(* KEY LEMMA: a Toeplitz row times a vector is the convolution sum *)
Lemma toeplitz_conv h (x : vec) s :
  bsum (length x) (fun j => tap h s j * nth j x 0) =
  bsum (length h) (fun k => nth k h 0 * (if Nat.leb k s then nth (s - k) x 0 else 0)).
Proof.
  set (W := fun k => nth k h 0). set (X := fun j => nth j x 0).
  assert (HW : forall k, (length h <= k)%nat -> W k = 0) by (intros; apply nth_overflow; auto).
  assert (HX : forall k, (length x <= k)%nat -> X k = 0) by (intros; apply nth_overflow; auto).
  transitivity (bsum (S s) (fun j => W (s - j)%nat * X j)).
  - set (f := fun j => tap h s j * nth j x 0).
    rewrite <- (bsum_support (Nat.max (length x) (S s)) (length x) f) by
      (try lia; intros i Hi _; unfold f; fold (X i); rewrite HX by auto; ring).
    rewrite (bsum_support (Nat.max (length x) (S s)) (S s) f).
    + apply bsum_ext; intros i Hi. unfold f, tap. destruct (Nat.leb_spec i s); [reflexivity | lia].
    + lia.
    + intros i Hi _. unfold f, tap. destruct (Nat.leb_spec i s); [lia | ring].
  - symmetry.
    set (g := fun k => nth k h 0 * (if Nat.leb k s then nth (s - k) x 0 else 0)).
    rewrite <- (bsum_support (Nat.max (length h) (S s)) (length h) g) by
      (try lia; intros i Hi _; unfold g; fold (W i); rewrite HW by auto; ring).
    rewrite (bsum_support (Nat.max (length h) (S s)) (S s) g).
    + rewrite (bsum_rev (S s) (fun j => W (s - j)%nat * X j)).
      apply bsum_ext; intros i Hi. unfold g. destruct (Nat.leb_spec i s); [|lia].
      replace (s - (S s - 1 - i))%nat with i by lia. replace (S s - 1 - i)%nat with (s - i)%nat by lia. reflexivity.
    + lia.
    + intros i Hi _. unfold g. destruct (Nat.leb_spec i s); [lia | ring]. Qed.

(* convmtx(w, n, nh//2)[:n] @ z  =  Convolve1D(h=w, offset=nh//2) z, every length (odd and even) *)
Theorem Cmat_mv_conv w z : (1 <= length w)%nat -> (1 <= length z)%nat ->
  mv R (Cmat w (length z)) z = conv_same w (length w / 2) z.
Proof. intros Hw Hz. apply vec_ext.
  - rewrite mv_length, Cmat_length, conv_same_length; auto.
  - rewrite mv_length, Cmat_length by auto. intros i Hi.
    rewrite (mv_ent (length z)) by (auto using Cmat_wf; rewrite Cmat_length; auto).
    unfold conv_same. rewrite (nth_mapseq _ 0 (length z) i 0) by auto. simpl.
    rewrite <- toeplitz_conv. apply bsum_ext; intros j Hj. rewrite Cmat_entry; auto. Qed.

(* ------------------------------------------------------------------ first derivative: dense D as coded, and the stencil *)
Variable half : R.   (* 0.5 in the code *)
Inductive dkind := Centered | Forward.

Definition diag_up (n : nat) (v : R) : mat := mkmat n n (fun i j => if Nat.eqb j (i + 1) then v else 0). (* np.diag(v*ones(n-1), k=1)  *)
Definition diag_lo (n : nat) (v : R) : mat := mkmat n n (fun i j => if Nat.eqb i (j + 1) then v else 0). (* np.diag(v*ones(n-1), k=-1) *)
Definition diag_0 (n : nat) (v : R) : mat := mkmat n n (fun i j => if Nat.eqb i j then v else 0).        (* np.diag(v*ones(n), k=0)    *)
Definition msub (A B : mat) : mat := map2 (vsub R) A B.
Fixpoint zero_row_from (i k : nat) (M : mat) : mat :=
  match M with [] => [] | r :: M' => (if Nat.eqb i k then zeros R (length r) else r) :: zero_row_from (S i) k M' end.
Definition zero_row (k : nat) (M : mat) : mat := zero_row_from 0 k M.    (* D[k] = 0 *)
Definition D_coded (kd : dkind) (n : nat) : mat :=
  match kd with
  | Centered => zero_row (n - 1) (zero_row 0 (msub (diag_up n half) (diag_lo n half)))
  | Forward => zero_row (n - 1) (msub (diag_up n 1) (diag_0 n 1))
  end.
Definition dD (kd : dkind) (n i j : nat) : R :=
  match kd with
  | Centered => if Nat.eqb i (n - 1) then 0 else if Nat.eqb i 0 then 0 else
                (if Nat.eqb j (i + 1) then half else 0) - (if Nat.eqb i (j + 1) then half else 0)
  | Forward => if Nat.eqb i (n - 1) then 0 else (if Nat.eqb j (i + 1) then 1 else 0) - (if Nat.eqb i j then 1 else 0)
  end.

Lemma map2_mapseq {A B C} (f : A -> B -> C) (g : nat -> A) (h : nat -> B) k n :
  map2 f (map g (seq k n)) (map h (seq k n)) = map (fun i => f (g i) (h i)) (seq k n).
Proof. revert k; induction n as [|n IH]; intros k; simpl; auto. rewrite IH; auto. Qed.
Lemma msub_mkmat m n f g : msub (mkmat m n f) (mkmat m n g) = mkmat m n (fun i j => f i j - g i j).
Proof. unfold msub, mkmat. rewrite map2_mapseq. apply map_ext. intros i. unfold vsub. apply map2_mapseq. Qed.
Lemma zeros_mapseq n : zeros R n = map (fun _ => 0) (seq 0 n).
Proof. unfold zeros. generalize 0%nat. induction n as [|n IH]; intros k; simpl; auto. rewrite <- IH; auto. Qed.
Lemma zero_row_from_mapseq (F : nat -> vec) s k m :
  zero_row_from s k (map F (seq s m)) = map (fun i => if Nat.eqb i k then zeros R (length (F i)) else F i) (seq s m).
Proof. revert s; induction m as [|m IH]; intros s; simpl; auto. rewrite IH; auto. Qed.
Lemma zero_row_mkmat k m n f : zero_row k (mkmat m n f) = mkmat m n (fun i j => if Nat.eqb i k then 0 else f i j).
Proof. unfold zero_row, mkmat. rewrite zero_row_from_mapseq. apply map_ext. intros i.
  rewrite map_length, seq_length. destruct (Nat.eqb i k); auto. apply zeros_mapseq. Qed.
(* the matrix assembled by the code has the closed-form entries dD *)
Theorem D_coded_mkmat kd n : D_coded kd n = mkmat n n (dD kd n).
Proof. destruct kd; unfold D_coded, diag_up, diag_lo, diag_0; rewrite msub_mkmat, !zero_row_mkmat; reflexivity. Qed.
Lemma D_coded_length kd n : length (D_coded kd n) = n.
Proof. rewrite D_coded_mkmat; apply mkmat_length. Qed.
Lemma D_coded_wf kd n : wfM R n (D_coded kd n).
Proof. rewrite D_coded_mkmat; apply mkmat_wf. Qed.

(* FirstDerivative(axis=0, sampling=1, edge=False) forward stencils *)
Definition dstencil (kd : dkind) (x : vec) (i : nat) : R :=
  let n := length x in
  match kd with
  | Centered => if (Nat.leb 1 i && Nat.ltb (i + 1) n)%bool then half * (nth (i + 1) x 0 - nth (i - 1) x 0) else 0
  | Forward => if Nat.ltb (i + 1) n then nth (i + 1) x 0 - nth i x 0 else 0
  end.
Definition deriv (kd : dkind) (x : vec) : vec := map (dstencil kd x) (seq 0 (length x)).
Lemma deriv_length kd x : length (deriv kd x) = length x.
Proof. unfold deriv; rewrite map_length, seq_length; auto. Qed.

Theorem D_mv_deriv kd x : mv R (D_coded kd (length x)) x = deriv kd x.
Proof. rewrite D_coded_mkmat, mv_mkmat. unfold deriv. apply map_ext_in. intros i Hi.
  apply in_seq in Hi. set (n := length x) in *. destruct kd; unfold dD, dstencil; fold n.
  - destruct (Nat.eqb_spec i (n - 1)) as [E|E].
    { replace (Nat.ltb (i + 1) n) with false by (symmetry; apply Nat.ltb_ge; lia). rewrite andb_false_r.
      apply bsum_zero; intros; ring. }
    destruct (Nat.eqb_spec i 0) as [E0|E0].
    { subst i. simpl. apply bsum_zero; intros; ring. }
    replace (Nat.leb 1 i) with true by (symmetry; apply Nat.leb_le; lia).
    replace (Nat.ltb (i + 1) n) with true by (symmetry; apply Nat.ltb_lt; lia). simpl.
    rewrite (bsum_ext n _ (fun j => (if Nat.eqb j (i + 1) then half * nth j x 0 else 0)
                                   - (if Nat.eqb j (i - 1) then half * nth j x 0 else 0))).
    + rewrite bsum_sub, !bsum_delta by lia. ring.
    + intros j Hj. destruct (Nat.eqb_spec j (i + 1)), (Nat.eqb_spec i (j + 1)), (Nat.eqb_spec j (i - 1)); try lia; ring.
  - destruct (Nat.eqb_spec i (n - 1)) as [E|E].
    { replace (Nat.ltb (i + 1) n) with false by (symmetry; apply Nat.ltb_ge; lia). apply bsum_zero; intros; ring. }
    replace (Nat.ltb (i + 1) n) with true by (symmetry; apply Nat.ltb_lt; lia).
    rewrite (bsum_ext n _ (fun j => (if Nat.eqb j (i + 1) then nth j x 0 else 0)
                                   - (if Nat.eqb j i then nth j x 0 else 0))).
    + rewrite bsum_sub, !bsum_delta by lia. ring.
    + intros j Hj. destruct (Nat.eqb_spec j (i + 1)), (Nat.eqb_spec i j), (Nat.eqb_spec j i); try lia; ring. Qed.

(* ------------------------------------------------------------------ POST-STACK *)
Definition post_explicit (w : vec) (nt0 : nat) (kd : dkind) : mat := mm nt0 (Cmat w nt0) (D_coded kd nt0).
Definition post_lop (w : vec) (kd : dkind) (x : vec) : vec := conv_same w (length w / 2) (deriv kd x).

(* every wavelet (any length >= 1, odd or even, any taps), every nt0 >= 1, both kinds, every model x *)
Theorem poststack_explicit_eq_lop w kd x : (1 <= length w)%nat -> (1 <= length x)%nat ->
  mv R (post_explicit w (length x) kd) x = post_lop w kd x.
Proof. intros Hw Hx. unfold post_explicit, post_lop.
  rewrite mv_mm; auto using D_coded_wf.
  - rewrite D_mv_deriv. rewrite <- (deriv_length kd x) at 1. apply Cmat_mv_conv; auto. rewrite deriv_length; auto.
  - rewrite D_coded_length. apply Cmat_wf; auto. Qed.

(* Convolve1D as DISPATCHED by the code: a filter longer than the model goes to _Convolve1Dlong, whose
   forward pads the model at the end by 2(nh//2 - n//2) (+1 for even n) samples and returns
   scipy.signal.convolve(h, xpad, 'same'), i.e. the same index formula but evaluated for i < nh:
   the output has the size of the FILTER (dimsd = h.shape). *)
Definition conv1d_coded (h : vec) (off : nat) (x : vec) : vec :=
  map (fun i => bsum (length h) (fun k => nth k h 0 * (if Nat.leb k (i + off) then nth (i + off - k) x 0 else 0)))
      (seq 0 (if Nat.leb (length h) (length x) then length x else length h)).
Definition post_lop_coded (w : vec) (kd : dkind) (x : vec) : vec := conv1d_coded w (length w / 2) (deriv kd x).
Lemma conv1d_coded_short h off x : (length h <= length x)%nat -> conv1d_coded h off x = conv_same h off x.
Proof. intros H. unfold conv1d_coded, conv_same. replace (Nat.leb (length h) (length x)) with true; auto.
  symmetry; apply Nat.leb_le; auto. Qed.
(* the faithful statement: equality holds when the wavelet is not longer than the model ... *)
Theorem poststack_coded_eq_partial w kd x : (1 <= length w)%nat -> (length w <= length x)%nat ->
  mv R (post_explicit w (length x) kd) x = post_lop_coded w kd x.
Proof. intros Hw Hx. unfold post_lop_coded. rewrite conv1d_coded_short by (rewrite deriv_length; auto).
  apply poststack_explicit_eq_lop; auto; lia. Qed.
(* ... and fails (already by size) when it is longer *)
Theorem poststack_long_wavelet_size w kd x : length x < length w -> (1 <= length x)%nat ->
  length (post_lop_coded w kd x) = length w /\ length (mv R (post_explicit w (length x) kd) x) = length x.
Proof. intros H Hx. split.
  - unfold post_lop_coded, conv1d_coded. rewrite map_length, seq_length, deriv_length.
    replace (Nat.leb (length w) (length x)) with false; auto. symmetry; apply Nat.leb_gt; auto.
  - unfold post_explicit. rewrite mv_length, mm_length, Cmat_length; auto; lia. Qed.

(* non-stationary wavelets: both paths use the SAME dense C (nonstationary_convmtx); for every wf C *)
Theorem poststack_nonstat_eq (C : mat) kd x : wfM R (length x) C ->
  mv R (mm (length x) C (D_coded kd (length x))) x = mv R C (deriv kd x).
Proof. intros W. rewrite mv_mm; auto using D_coded_wf.
  - rewrite D_mv_deriv; auto.
  - rewrite D_coded_length; auto. Qed.
(* entry formula of nonstationary_convmtx(H, n, hc, pad=(n,n)) (column j uses wavelet j); formula-level
   model, tied to the code by the correspondence only *)
Definition nsconvmtx_model (H : mat) (n hc : nat) : mat := mkmat n n (fun i j => tap (nth j H []) (i + hc) j).

(* ------------------------------------------------------------------ N-d application along axis 0 (C order, ncol trailing columns) *)
Definition getcol (ncol n0 c : nat) (x : vec) : vec := map (fun t => nth (t * ncol + c) x 0) (seq 0 n0).
Definition along0 (ncol nin nout : nat) (f : vec -> vec) (x : vec) : vec :=
  let cols := map (fun c => f (getcol ncol nin c x)) (seq 0 ncol) in
  map (fun idx => nth (idx / ncol) (nth (idx mod ncol) cols []) 0) (seq 0 (nout * ncol)).
Lemma getcol_length ncol n0 c x : length (getcol ncol n0 c x) = n0.
Proof. unfold getcol; rewrite map_length, seq_length; auto. Qed.
Lemma along0_ext ncol nin nout f g x : (forall z, length z = nin -> f z = g z) ->
  along0 ncol nin nout f x = along0 ncol nin nout g x.
Proof. intros H. unfold along0.
  replace (map (fun c => g (getcol ncol nin c x)) (seq 0 ncol)) with (map (fun c => f (getcol ncol nin c x)) (seq 0 ncol)); auto.
  apply map_ext. intros c. apply H, getcol_length. Qed.
(* MatrixMult(M, otherdims=spatdims) vs the chain on dims (nt0,)+spatdims: any number of columns *)
Theorem poststack_spat_eq w kd ncol nt0 x : (1 <= length w)%nat -> (1 <= nt0)%nat ->
  along0 ncol nt0 nt0 (mv R (post_explicit w nt0 kd)) x = along0 ncol nt0 nt0 (post_lop w kd) x.
Proof. intros Hw Hn. apply along0_ext. intros z Hz. subst nt0. apply poststack_explicit_eq_lop; auto. Qed.
Theorem poststack_nonstat_spat_eq (C : mat) kd ncol nt0 x : wfM R nt0 C ->
  along0 ncol nt0 nt0 (mv R (mm nt0 C (D_coded kd nt0))) x = along0 ncol nt0 nt0 (fun z => mv R C (deriv kd z)) x.
Proof. intros W. apply along0_ext. intros z Hz. subst nt0. apply poststack_nonstat_eq; auto. Qed.

(* ------------------------------------------------------------------ PRE-STACK *)
(* G: the npars coefficient tables, each ntheta x nt0 (what akirichards/fatti/ps return): arbitrary data *)
Definition Gf (G : list mat) (k th t : nat) : R := ent (nth k G []) th t.

(* scipy.linalg.block_diag of square n x n blocks *)
Fixpoint bdiag (n : nat) (Ms : list mat) : mat :=
  match Ms with
  | [] => []
  | M :: Ms' => map (fun r => r ++ zeros R (n * length Ms')) M ++ map (fun r => zeros R n ++ r) (bdiag n Ms')
  end.
(* vstack_theta ( hstack_k diag(G_k[theta]) ) *)
Definition Gbig (n : nat) (G : list mat) (ntheta : nat) : mat :=
  concat (map (fun th => map (fun t =>
            concat (map (fun Gk => map (fun j => if Nat.eqb j t then ent Gk th t else 0) (seq 0 n)) G))
          (seq 0 n)) (seq 0 ntheta)).
(* M = dot(C, dot(G, D)) *)
Definition pre_explicit (w : vec) (n : nat) (kd : dkind) (G : list mat) (ntheta : nat) : mat :=
  let npar := length G in
  mm (npar * n) (bdiag n (repeat (Cmat w n) ntheta))
     (mm (npar * n) (Gbig n G ntheta) (bdiag n (repeat (D_coded kd n) npar))).

(* block-diagonal matrices act blockwise *)
Lemma mv_app (A B : mat) x : mv R (A ++ B) x = mv R A x ++ mv R B x.
Proof. apply map_app. Qed.
Lemma mv_bdiag_cons n M Ms (x xs : vec) : wfM R n M -> length x = n ->
  mv R (bdiag n (M :: Ms)) (x ++ xs) = mv R M x ++ mv R (bdiag n Ms) xs.
Proof. intros W Hx. cbn [bdiag]. rewrite mv_app. f_equal; unfold mv; rewrite map_map.
  - apply map_ext_in. intros r Hr. unfold wfM in W. rewrite Forall_forall in W.
    rewrite dotu_app by (rewrite W; auto). rewrite dotu_zeros_l. ring.
  - apply map_ext. intros r. rewrite dotu_app by (rewrite zeros_length; auto). rewrite dotu_zeros_l. ring. Qed.
Theorem mv_bdiag_repeat n M k (xs : list vec) : wfM R n M -> length xs = k -> Forall (fun x => length x = n) xs ->
  mv R (bdiag n (repeat M k)) (concat xs) = concat (map (mv R M) xs).
Proof. intros W. revert xs; induction k as [|k IH]; intros [|x xs] L F; simpl in L; try discriminate; auto.
  inversion F; subst. cbn [repeat concat map]. rewrite mv_bdiag_cons by auto. f_equal. apply IH; auto. Qed.

(* ---- the flat explicit pre-stack matrix acts, on the parameter-major model, as the per-angle chain *)
Lemma mv_concat (Ms : list mat) x : mv R (concat Ms) x = concat (map (fun M => mv R M x) Ms).
Proof. unfold mv. rewrite concat_map. reflexivity. Qed.
Lemma bdiag_length n Ms : Forall (fun M => length M = n) Ms -> length (bdiag n Ms) = (n * length Ms)%nat.
Proof. induction 1 as [|M Ms HM _ IH]; simpl; [lia|]. rewrite app_length, !map_length, IH, HM. lia. Qed.
Lemma bdiag_wf n Ms : Forall (wfM R n) Ms -> wfM R (n * length Ms) (bdiag n Ms).
Proof. induction 1 as [|M Ms HM _ IH]; simpl; [constructor|]. unfold wfM in *. apply Forall_app. split; apply Forall_forall.
  - intros r Hr. apply in_map_iff in Hr. destruct Hr as [r0 [<- Hr0]]. rewrite Forall_forall in HM.
    rewrite app_length, zeros_length, (HM r0 Hr0). lia.
  - intros r Hr. apply in_map_iff in Hr. destruct Hr as [r0 [<- Hr0]]. rewrite Forall_forall in IH.
    rewrite app_length, zeros_length, (IH r0 Hr0). lia. Qed.
Definition drow (n t : nat) (v : R) : vec := map (fun j => if Nat.eqb j t then v else 0) (seq 0 n).
Lemma drow_length n t v : length (drow n t v) = n.
Proof. unfold drow; rewrite map_length, seq_length; auto. Qed.
Lemma dotu_drow n t v z : t < n -> dotu R (drow n t v) z = v * nth t z 0.
Proof. intros Ht. unfold drow. rewrite dotu_mapseq.
  rewrite (bsum_ext n _ (fun j => if Nat.eqb j t then v * nth j z 0 else 0)).
  - apply bsum_delta; auto.
  - intros j _. simpl. destruct (Nat.eqb j t); ring. Qed.
Lemma dotu_concat_rows n (rs zs : list vec) : Forall (fun r => length r = n) rs -> Forall (fun z => length z = n) zs ->
  length rs = length zs -> dotu R (concat rs) (concat zs) = vsum R (map2 (dotu R) rs zs).
Proof. intros Hr; revert zs; induction Hr as [|r rs Hr0 _ IH]; intros [|z zs] Hz L; simpl in L; try discriminate; auto.
  inversion Hz; subst. cbn [concat map2 vsum]. rewrite dotu_app by lia. rewrite IH; auto. Qed.
Definition Grow (n : nat) (G : list mat) (th t : nat) : vec := concat (map (fun Gk => drow n t (ent Gk th t)) G).
Lemma Gbig_eq n G ntheta : Gbig n G ntheta = concat (map (fun th => map (fun t => Grow n G th t) (seq 0 n)) (seq 0 ntheta)).
Proof. reflexivity. Qed.
Lemma Grow_length n G th t : length (Grow n G th t) = (length G * n)%nat.
Proof. unfold Grow. induction G as [|Gk G IH]; simpl; auto. rewrite app_length, drow_length, IH. lia. Qed.
Lemma concat_map_length {A B} (F : A -> list B) n l : (forall a, length (F a) = n) -> length (concat (map F l)) = (length l * n)%nat.
Proof. intros H. induction l as [|a l IH]; simpl; auto. rewrite app_length, H, IH. lia. Qed.
Lemma Gbig_length n G ntheta : length (Gbig n G ntheta) = (ntheta * n)%nat.
Proof. rewrite Gbig_eq. rewrite (concat_map_length _ n) by (intros; rewrite map_length, seq_length; auto).
  rewrite seq_length; auto. Qed.
Lemma Gbig_wf n G ntheta : wfM R (length G * n) (Gbig n G ntheta).
Proof. rewrite Gbig_eq. unfold wfM. apply Forall_concat. apply Forall_forall. intros M HM.
  apply in_map_iff in HM. destruct HM as [th [<- _]]. apply Forall_forall. intros r Hr.
  apply in_map_iff in Hr. destruct Hr as [t [<- _]]. apply Grow_length. Qed.
(* sum_k G_k[th][t] * z_k[t] *)
Definition avo_row (G : list mat) (th : nat) (zs : list vec) (t : nat) : R :=
  vsum R (map2 (fun Gk z => ent Gk th t * nth t z 0) G zs).
Lemma dotu_Grow n G th t zs : t < n -> Forall (fun z => length z = n) zs -> length G = length zs ->
  dotu R (Grow n G th t) (concat zs) = avo_row G th zs t.
Proof. intros Ht Hz L. unfold Grow, avo_row. rewrite (dotu_concat_rows n); auto.
  - f_equal. clear Hz. revert zs L; induction G as [|Gk G IH]; intros [|z zs] L; simpl in L; try discriminate; auto.
    cbn [map map2]. rewrite dotu_drow by auto. f_equal. apply IH; lia.
  - apply Forall_forall. intros r Hr. apply in_map_iff in Hr. destruct Hr as [Gk [<- _]]. apply drow_length.
  - rewrite map_length; auto. Qed.
Lemma mv_Gbig n G ntheta zs : Forall (fun z => length z = n) zs -> length G = length zs ->
  mv R (Gbig n G ntheta) (concat zs) = concat (map (fun th => map (avo_row G th zs) (seq 0 n)) (seq 0 ntheta)).
Proof. intros Hz L. rewrite Gbig_eq, mv_concat, map_map. f_equal. apply map_ext. intros th.
  unfold mv. rewrite map_map. apply map_ext_in. intros t Ht. apply in_seq in Ht. apply dotu_Grow; auto; lia. Qed.

(* EXPLICIT PRE-STACK OPERATOR = per-angle  Convolve1D( sum_k G_k[theta] . FirstDerivative(m_k) ), for every
   wavelet, kind, table set, number of angles/parameters; ms = the npar model traces (parameter-major) *)
Theorem prestack_explicit_blockwise w n kd G ntheta (ms : list vec) : (1 <= length w)%nat -> (1 <= n)%nat ->
  length ms = length G -> Forall (fun m => length m = n) ms ->
  mv R (pre_explicit w n kd G ntheta) (concat ms) =
  concat (map (fun th => conv_same w (length w / 2) (map (avo_row G th (map (deriv kd) ms)) (seq 0 n))) (seq 0 ntheta)).
Proof. intros Hw Hn L F. unfold pre_explicit.
  assert (LD : length (bdiag n (repeat (D_coded kd n) (length G))) = (length G * n)%nat).
  { rewrite bdiag_length, repeat_length by (apply Forall_forall; intros M HM; apply repeat_spec in HM; subst; apply D_coded_length). lia. }
  assert (WD : wfM R (length G * n) (bdiag n (repeat (D_coded kd n) (length G)))).
  { replace (length G * n)%nat with (n * length (repeat (D_coded kd n) (length G)))%nat by (rewrite repeat_length; lia).
    apply bdiag_wf. apply Forall_forall; intros M HM; apply repeat_spec in HM; subst; apply D_coded_wf. }
  assert (Lc : length (concat ms) = (length G * n)%nat).
  { rewrite <- L. clear L. induction F as [|m ms Hm _ IH]; simpl; auto. rewrite app_length, IH, Hm. lia. }
  rewrite mv_mm; auto.
  - rewrite mv_mm; auto.
    + rewrite mv_bdiag_repeat by (auto using D_coded_wf).
      rewrite (map_ext_in (mv R (D_coded kd n)) (deriv kd)).
      * rewrite mv_Gbig.
        -- rewrite mv_bdiag_repeat.
           ++ rewrite map_map. f_equal. apply map_ext. intros th.
              set (r := map (avo_row G th (map (deriv kd) ms)) (seq 0 n)).
              assert (Hr : length r = n) by (unfold r; rewrite map_length, seq_length; auto).
              rewrite <- Hr at 1. apply Cmat_mv_conv; auto; lia.
           ++ apply Cmat_wf; auto.
           ++ rewrite map_length, seq_length; auto.
           ++ apply Forall_forall. intros r Hr. apply in_map_iff in Hr. destruct Hr as [th [<- _]].
              rewrite map_length, seq_length; auto.
        -- apply Forall_forall. intros z Hz. apply in_map_iff in Hz. destruct Hz as [m [<- Hm]].
           rewrite deriv_length. rewrite Forall_forall in F; auto.
        -- rewrite map_length; auto.
      * intros m Hm. rewrite Forall_forall in F. rewrite <- (F m Hm). apply D_mv_deriv.
    + rewrite LD. apply Gbig_wf.
  - apply mm_wf; auto.
  - rewrite mm_length, Gbig_length.
    replace (ntheta * n)%nat with (n * length (repeat (Cmat w n) ntheta))%nat by (rewrite repeat_length; lia).
    apply bdiag_wf. apply Forall_forall; intros M HM; apply repeat_spec in HM; subst; apply Cmat_wf; auto. Qed.

(* AVOLinearModelling forward on the flat time-major layout (n, npar, ns) -> (n, ntheta, ns):
   r[t,th,s] = sum_k G_k[th][t] * x[t,k,s] *)
Definition avo_flat (G : list mat) (n ntheta ns : nat) (x : vec) : vec :=
  let npar := length G in
  map (fun idx => let t := (idx / (ntheta * ns))%nat in let th := ((idx / ns) mod ntheta)%nat in let s := (idx mod ns)%nat in
        bsum npar (fun k => Gf G k th t * nth ((t * npar + k) * ns + s) x 0)) (seq 0 (n * ntheta * ns)).
(* Convolve1D(axis=0) * AVOLinearModelling * FirstDerivative(axis=0) *)
Definition pre_lop (w : vec) (kd : dkind) (G : list mat) (n ntheta ns : nat) (x : vec) : vec :=
  along0 (ntheta * ns) n n (conv_same w (length w / 2))
    (avo_flat G n ntheta ns (along0 (length G * ns) n n (deriv kd) x)).
(* MatrixMult(M, otherdims=spatdims) on the parameter-major layout (npar*n, ns) -> (ntheta*n, ns) *)
Definition pre_explicit_apply (w : vec) (kd : dkind) (G : list mat) (n ntheta ns : nat) (x : vec) : vec :=
  along0 ns (length G * n) (ntheta * n) (mv R (pre_explicit w n kd G ntheta)) x.

(* the documented rearrangement: flat index (t,k,s) of the time-major layout (n, np, ns) |-> flat index
   (k,t,s) of the parameter-major layout (np, n, ns) *)
Definition perm_tm2pm (n np ns i : nat) : nat :=
  let t := (i / (np * ns))%nat in let k := ((i / ns) mod np)%nat in let s := (i mod ns)%nat in ((k * n + t) * ns + s)%nat.
Definition permute (p : nat -> nat) (N : nat) (x : vec) : vec := map (fun i => nth (p i) x 0) (seq 0 N).

Lemma idx3_decode n np ns t k s : t < n -> k < np -> s < ns ->
  (((t * np + k) * ns + s) / (np * ns) = t /\ (((t * np + k) * ns + s) / ns) mod np = k /\ ((t * np + k) * ns + s) mod ns = s)%nat.
Proof. intros Ht Hk Hs.
  assert (E1 : (((t * np + k) * ns + s) / ns = t * np + k)%nat) by (symmetry; apply Nat.div_unique with (r := s); lia).
  repeat split.
  - symmetry; apply Nat.div_unique with (r := (k * ns + s)%nat); nia.
  - rewrite E1. symmetry; apply Nat.mod_unique with (q := t); lia.
  - symmetry; apply Nat.mod_unique with (q := (t * np + k)%nat); lia. Qed.
Lemma perm_on_idx n np ns t k s : t < n -> k < np -> s < ns ->
  perm_tm2pm n np ns ((t * np + k) * ns + s) = ((k * n + t) * ns + s)%nat.
Proof. intros Ht Hk Hs. unfold perm_tm2pm. destruct (idx3_decode n np ns t k s Ht Hk Hs) as [-> [-> ->]]. reflexivity. Qed.
Lemma idx3_encode n np ns i : i < n * np * ns ->
  exists t k s, t < n /\ k < np /\ s < ns /\ i = ((t * np + k) * ns + s)%nat.
Proof. intros Hi. assert (Hns : ns <> O) by nia. assert (Hnp : np <> O) by nia.
  exists (i / ns / np)%nat, ((i / ns) mod np)%nat, (i mod ns)%nat. repeat split.
  - apply Nat.div_lt_upper_bound; auto. apply Nat.div_lt_upper_bound; auto. nia.
  - apply Nat.mod_upper_bound; auto.
  - apply Nat.mod_upper_bound; auto.
  - rewrite (Nat.div_mod_eq i ns) at 1. rewrite (Nat.div_mod_eq (i / ns) np) at 1. nia. Qed.
(* the rearrangement is a bijection of [0, n*np*ns): its inverse is the same map with n and np swapped *)
Theorem perm_bijection n np ns i : i < n * np * ns ->
  perm_tm2pm n np ns i < np * n * ns /\ perm_tm2pm np n ns (perm_tm2pm n np ns i) = i.
Proof. intros Hi. destruct (idx3_encode n np ns i Hi) as [t [k [s [Ht [Hk [Hs ->]]]]]].
  rewrite perm_on_idx by auto. split; [nia|]. apply perm_on_idx; auto. Qed.

(* entrywise agreement of the two index formulas (function level, spatial columns handled by along0):
   explicit entry  E[(th,t),(k,t')] = sum_s C[t,s] G_k[th][s] D[s,t']   vs   the chain applied to m *)
Definition pre_entry (w : vec) (kd : dkind) (G : list mat) (n th t k t' : nat) : R :=
  bsum n (fun s => tap w (t + length w / 2) s * (Gf G k th s * dD kd n s t')).
Definition pre_chain_fn (w : vec) (kd : dkind) (G : list mat) (n : nat) (m : nat -> nat -> R) (t th : nat) : R :=
  bsum n (fun s => tap w (t + length w / 2) s *
     bsum (length G) (fun k => Gf G k th s * bsum n (fun t' => dD kd n s t' * m t' k))).
Theorem prestack_entry_agree w kd G n m t th :
  pre_chain_fn w kd G n m t th =
  bsum (length G) (fun k => bsum n (fun t' => pre_entry w kd G n th t k t' * m t' k)).
Proof. unfold pre_chain_fn, pre_entry.
  rewrite (bsum_ext n _ (fun s => bsum (length G) (fun k => bsum n (fun t' =>
      tap w (t + length w / 2) s * (Gf G k th s * dD kd n s t') * m t' k)))).
  - rewrite bsum_exchange. apply bsum_ext; intros k _. rewrite bsum_exchange. apply bsum_ext; intros t' _.
    rewrite <- bsum_scale_r. reflexivity.
  - intros s _. rewrite <- bsum_scale. apply bsum_ext; intros k _.
    rewrite <- !bsum_scale. apply bsum_ext; intros t' _. ring. Qed.

End Seismic.
