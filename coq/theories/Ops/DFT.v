(* DFT.v — the discrete Fourier transform over a ring with conjugation and an
   ABSTRACT principal root of unity.  The root [w], the transform length [N]
   and the three laws (w^N = 1, w * conj w = 1, sum_{k<N} w^(d k) = 0 for
   0 < d < N) are Section variables / hypotheses: after the Section closes they
   are ordinary premises of every theorem (no axioms).
   Contents: finite sums, powers, [dft] (rectangular: output length m, input
   length = length x, i.e. "zero-pad the input to m, transform"), linearity,
   ADJOINT (no hypothesis on w at all), INVERSION / UNITARITY (principal root),
   zero padding = embed then transform, truncation, fftshift / ifftshift as
   rotations (adjoint pairs and inverses), twiddle-table form used by the
   correspondence. *)
From PV Require Export Mat.
Local Open Scope R_scope.

(* ------------------------------------------------------------------ *)
Section BigSum.
Variable R : CRing.
Add Ring Rbs : (rth R).

Fixpoint bsum (f : nat -> R) (n : nat) : R :=
  match n with O => 0 | S n' => bsum f n' + f n' end.
Fixpoint rpow (a : R) (k : nat) : R :=
  match k with O => 1 | S k' => a * rpow a k' end.
Fixpoint of_nat (n : nat) : R :=
  match n with O => 0 | S n' => of_nat n' + 1 end.
Definition tab (f : nat -> R) (n : nat) : list R := map f (seq 0 n).

Lemma bsum_ext f g n : (forall k, k < n -> f k = g k) -> bsum f n = bsum g n.
Proof. induction n as [|n IH]; intros H; simpl; auto. rewrite IH, H; auto. Qed.
Lemma bsum_zero n : bsum (fun _ => 0) n = 0.
Proof. induction n as [|n IH]; simpl; auto. rewrite IH; ring. Qed.
Lemma bsum_add f g n : bsum (fun k => f k + g k) n = bsum f n + bsum g n.
Proof. induction n as [|n IH]; simpl; [ring | rewrite IH; ring]. Qed.
Lemma bsum_scale a f n : bsum (fun k => a * f k) n = a * bsum f n.
Proof. induction n as [|n IH]; simpl; [ring | rewrite IH; ring]. Qed.
Lemma bsum_scale_r a f n : bsum (fun k => f k * a) n = bsum f n * a.
Proof. induction n as [|n IH]; simpl; [ring | rewrite IH; ring]. Qed.
Lemma bsum_swap (f : nat -> nat -> R) n m :
  bsum (fun i => bsum (fun j => f i j) m) n = bsum (fun j => bsum (fun i => f i j) n) m.
Proof. induction n as [|n IH]; simpl.
  - rewrite bsum_zero; auto.
  - rewrite IH, <- bsum_add; auto. Qed.
Lemma bsum_shift f n : bsum f (S n) = f 0%nat + bsum (fun k => f (S k)) n.
Proof. induction n as [|n IH]; simpl; [ring|]. simpl in IH. rewrite IH. ring. Qed.
Lemma bsum_one n : bsum (fun _ => 1) n = of_nat n.
Proof. induction n as [|n IH]; simpl; auto. rewrite IH; auto. Qed.
Lemma bsum_delta (a : nat -> R) j n : j < n ->
  bsum (fun k => if Nat.eqb k j then a k else 0) n = a j.
Proof. induction n as [|n IH]; intros H; [lia|]. simpl.
  destruct (Nat.eqb_spec n j) as [->|N].
  - rewrite (bsum_ext _ (fun _ => 0)), bsum_zero; [ring|].
    intros k Hk. destruct (Nat.eqb_spec k j); [lia | auto].
  - rewrite IH by lia. ring. Qed.
(* summands beyond n vanish: the sum can be cut at n *)
Lemma bsum_trunc f n m : (n <= m)%nat -> (forall k, (n <= k)%nat -> k < m -> f k = 0) ->
  bsum f m = bsum f n.
Proof. intros L H. induction m as [|m IH].
  - replace n with 0%nat by lia; auto.
  - destruct (Nat.eq_dec n (S m)) as [->|N]; auto.
    simpl. rewrite IH, H by (try lia; intros; apply H; lia). ring. Qed.

Lemma bsum_split f a b : bsum f (a + b) = bsum f a + bsum (fun k => f (a + k)%nat) b.
Proof. induction b as [|b IH]; simpl.
  - rewrite Nat.add_0_r; ring.
  - replace (a + S b)%nat with (S (a + b)) by lia. simpl. rewrite IH. ring. Qed.
Lemma bsum_rev f n : bsum f n = bsum (fun k => f (n - 1 - k)%nat) n.
Proof. induction n as [|n IH]; auto.
  rewrite (bsum_shift (fun k => f (S n - 1 - k)%nat)). simpl bsum at 1.
  replace (S n - 1 - 0)%nat with n by lia. rewrite IH.
  rewrite (bsum_ext (fun k => f (S n - 1 - S k)%nat) (fun k => f (n - 1 - k)%nat)) by (intros; f_equal; lia).
  ring. Qed.
Lemma rpow_add a j k : rpow a (j + k) = rpow a j * rpow a k.
Proof. induction j as [|j IH]; simpl; [ring | rewrite IH; ring]. Qed.
Lemma rpow_one k : rpow 1 k = 1.
Proof. induction k as [|k IH]; simpl; [auto | rewrite IH; ring]. Qed.
Lemma rpow_mul_base a b k : rpow (a * b) k = rpow a k * rpow b k.
Proof. induction k as [|k IH]; simpl; [ring | rewrite IH; ring]. Qed.
Lemma rpow_mul a j k : rpow a (j * k) = rpow (rpow a j) k.
Proof. induction k as [|k IH].
  - rewrite Nat.mul_0_r; auto.
  - replace (j * S k)%nat with (j + j * k)%nat by lia. rewrite rpow_add, IH. simpl; auto. Qed.
Lemma of_nat_add n m : of_nat (n + m) = of_nat n + of_nat m.
Proof. induction n as [|n IH]; simpl; [ring | rewrite IH; ring]. Qed.
Lemma of_nat_mul n m : of_nat (n * m) = of_nat n * of_nat m.
Proof. induction n as [|n IH]; simpl; [ring | rewrite of_nat_add, IH; ring]. Qed.

Lemma tab_length f n : length (tab f n) = n.
Proof. unfold tab; rewrite map_length, seq_length; auto. Qed.
Lemma nth_tab f n k d : k < n -> nth k (tab f n) d = f k.
Proof. intros H; unfold tab. rewrite (nth_indep _ d (f 0%nat)) by (rewrite map_length, seq_length; auto).
  rewrite map_nth, seq_nth; auto. Qed.
Lemma tab_ext f g n : (forall k, k < n -> f k = g k) -> tab f n = tab g n.
Proof. intros H; unfold tab; apply map_ext_in; intros k Hk; apply in_seq in Hk; apply H; lia. Qed.
Lemma tab_nth (x : list R) : tab (fun k => nth k x 0) (length x) = x.
Proof. apply (nth_ext _ _ 0 0); [apply tab_length|]. intros k Hk; rewrite tab_length in Hk.
  apply nth_tab; auto. Qed.
Lemma firstn_tab f n m : (n <= m)%nat -> firstn n (tab f m) = tab f n.
Proof. intros L. unfold tab. rewrite firstn_map. f_equal.
  replace m with (n + (m - n))%nat by lia. rewrite seq_app.
  rewrite firstn_app, seq_length, Nat.sub_diag. simpl. rewrite app_nil_r.
  rewrite <- (seq_length n 0) at 1. apply firstn_all. Qed.
Lemma vscale_tab a f n : vscale R a (tab f n) = tab (fun k => a * f k) n.
Proof. unfold vscale, tab; rewrite map_map; auto. Qed.
Lemma vadd_tab f g n : vadd R (tab f n) (tab g n) = tab (fun k => f k + g k) n.
Proof. unfold tab. generalize 0%nat. induction n as [|n IH]; intros s; simpl; auto.
  unfold vadd in *; simpl; rewrite IH; auto. Qed.
Lemma nth_vscale a (x : list R) k : nth k (vscale R a x) 0 = a * nth k x 0.
Proof. unfold vscale. replace 0 with (a * 0) at 1 by ring. apply map_nth. Qed.
Lemma nth_vadd (x y : list R) k : length x = length y ->
  nth k (vadd R x y) 0 = nth k x 0 + nth k y 0.
Proof. revert y k; induction x as [|a x IH]; intros [|b y] k H; simpl in *; try discriminate.
  - destruct k; ring.
  - destruct k; auto. unfold vadd in *; apply IH; lia. Qed.

Lemma dotu_bsum (u v : list R) : length u = length v ->
  dotu R u v = bsum (fun k => nth k u 0 * nth k v 0) (length u).
Proof. revert v; induction u as [|a u IH]; intros [|b v] H; try discriminate; auto.
  cbn [length]. rewrite bsum_shift. cbn [dotu nth]. rewrite IH by (simpl in H; lia). auto. Qed.
End BigSum.
Arguments bsum {R} f n.
Arguments rpow {R} a k.
Arguments tab {R} f n.

(* ------------------------------------------------------------------ *)
Section DFT.
Variable S : StarRing.
Add Ring Rdft : (rth S).
Notation vec := (list S).
Notation cj := (conj S).

Lemma conj_rpow a k : cj (rpow a k) = rpow (cj a) k.
Proof. induction k as [|k IH]; simpl; [apply conj_one | rewrite conj_mul, IH; auto]. Qed.
Lemma conj_bsum f n : cj (bsum f n) = bsum (fun k => cj (f k)) n.
Proof. induction n as [|n IH]; simpl; [apply conj_zero | rewrite conj_add, IH; auto]. Qed.
Lemma conj_of_nat n : cj (of_nat S n) = of_nat S n.
Proof. induction n as [|n IH]; simpl; [apply conj_zero | rewrite conj_add, IH, conj_one; auto]. Qed.
Lemma dot_bsum (u v : vec) : length u = length v ->
  dot S u v = bsum (fun k => cj (nth k u 0) * nth k v 0) (length u).
Proof. revert v; induction u as [|a u IH]; intros [|b v] H; try discriminate; auto.
  cbn [length]. rewrite bsum_shift. cbn [nth]. rewrite <- IH by (simpl in H; lia).
  unfold dot; simpl; auto. Qed.

(* dft w m x : output length m, entry k = sum_{j < length x} w^(j k) x_j.
   With length x <= m this is "zero-pad x to m, then the m-point transform"
   (lemma dft_pad); numpy/scipy's fft(x, n=m) and the explicit np.pad of the
   fftw engine. The adjoint direction is the SAME function with conj w and
   the roles of the two lengths exchanged (the matrix w^(j k) is symmetric). *)
Definition dft (w : S) (m : nat) (x : vec) : vec :=
  tab (fun k => bsum (fun j => rpow w (j * k) * nth j x 0) (length x)) m.
Definition pad (m : nat) (x : vec) : vec := x ++ zeros S (m - length x).
Definition trunc (n : nat) (y : vec) : vec := firstn n y.

Lemma dft_length w m x : length (dft w m x) = m.
Proof. apply tab_length. Qed.
Lemma pad_length m x : (length x <= m)%nat -> length (pad m x) = m.
Proof. intros; unfold pad; rewrite app_length, zeros_length; lia. Qed.

(* ---- linearity ---- *)
Lemma dft_vscale w m a x : dft w m (vscale S a x) = vscale S a (dft w m x).
Proof. unfold dft. rewrite vscale_tab, vscale_length. apply tab_ext; intros k _.
  rewrite <- bsum_scale. apply bsum_ext; intros j _. rewrite nth_vscale. ring. Qed.
Lemma dft_vadd w m x y : length x = length y ->
  dft w m (vadd S x y) = vadd S (dft w m x) (dft w m y).
Proof. intros H. unfold dft. rewrite vadd_tab, vadd_length, <- H, Nat.min_id.
  apply tab_ext; intros k _. rewrite <- bsum_add. apply bsum_ext; intros j _.
  rewrite nth_vadd by auto. ring. Qed.
Theorem dft_linear w m a b x y : length x = length y ->
  dft w m (vadd S (vscale S a x) (vscale S b y)) =
  vadd S (vscale S a (dft w m x)) (vscale S b (dft w m y)).
Proof. intros H. rewrite dft_vadd, !dft_vscale; auto. rewrite !vscale_length; auto. Qed.

(* ---- ADJOINT: holds for EVERY w, every pair of lengths ---- *)
Theorem dft_adjoint w m x y : length y = m ->
  dot S (dft w m x) y = dot S x (dft (cj w) (length x) y).
Proof. intros Hy.
  rewrite dot_bsum by (rewrite dft_length; auto).
  rewrite dot_bsum by (rewrite dft_length; auto).
  rewrite dft_length.
  rewrite (bsum_ext S _ (fun k => bsum (fun j => cj (nth j x 0) * (rpow (cj w) (k * j) * nth k y 0)) (length x))).
  2:{ intros k Hk. unfold dft. rewrite nth_tab by auto. rewrite conj_bsum, <- bsum_scale_r.
      apply bsum_ext; intros j _. rewrite conj_mul, conj_rpow, (Nat.mul_comm j k). ring. }
  rewrite bsum_swap. apply bsum_ext; intros j Hj.
  unfold dft. rewrite nth_tab by auto. rewrite Hy, <- bsum_scale. auto. Qed.

(* ---- zero padding is embed-then-transform; explicit pad = implicit ---- *)
Lemma nth_pad m x j : nth j (pad m x) 0 = nth j x 0.
Proof. unfold pad. destruct (Nat.lt_ge_cases j (length x)).
  - apply app_nth1; auto.
  - rewrite app_nth2 by auto. rewrite (nth_overflow x) by auto.
    unfold zeros. destruct (Nat.lt_ge_cases (j - length x) (m - length x)).
    + apply nth_repeat.
    + apply nth_overflow; rewrite repeat_length; auto. Qed.
Theorem dft_pad w m m' x : (length x <= m')%nat -> dft w m (pad m' x) = dft w m x.
Proof. intros L. unfold dft. rewrite pad_length by auto. apply tab_ext; intros k _.
  rewrite (bsum_trunc S _ (length x) m') by (auto; intros j H1 H2; rewrite nth_pad, nth_overflow by auto; ring).
  apply bsum_ext; intros; rewrite nth_pad; auto. Qed.
(* adjoint of "pad then m-point transform" = "m-point conj transform then truncate" *)
Theorem trunc_dft w n m y : (n <= m)%nat -> trunc n (dft w m y) = dft w n y.
Proof. intros; unfold trunc, dft; apply firstn_tab; auto. Qed.
Theorem dft_pad_adjoint w m x y : (length x <= m)%nat -> length y = m ->
  dot S (dft w m (pad m x)) y = dot S x (trunc (length x) (dft (cj w) m y)).
Proof. intros L Hy. rewrite dft_pad, trunc_dft by auto. apply dft_adjoint; auto. Qed.

(* ---- principal root: inversion ---- *)
Lemma rpow_mod_gen (w : S) N a : rpow w N = 1 -> rpow w a = rpow w (a mod N).
Proof. intros Hw. destruct (Nat.eq_dec N 0) as [E|E]; [rewrite E; reflexivity|].
  rewrite (Nat.div_mod a N) at 1 by lia. rewrite rpow_add, rpow_mul, Hw, rpow_one. ring. Qed.
Section Root.
Variable w : S.
Variable N : nat.
Hypothesis w_pow : rpow w N = 1.
Hypothesis w_unit : w * cj w = 1.
Hypothesis w_orth : forall d, 0 < d -> d < N -> bsum (fun k => rpow w (d * k)) N = 0.

Lemma cw_unit : cj w * w = 1.
Proof. rewrite <- w_unit; ring. Qed.
Lemma rpow_mod a : rpow w a = rpow w (a mod N).
Proof. apply rpow_mod_gen; exact w_pow. Qed.
(* orthogonality for EVERY offset not divisible by N *)
Lemma w_orth_any d : d mod N <> 0%nat -> bsum (fun k => rpow w (d * k)) N = 0.
Proof. intros H. destruct (Nat.eq_dec N 0) as [E|E]; [rewrite E; reflexivity|].
  rewrite <- (w_orth (d mod N)); [|lia|apply Nat.mod_upper_bound; auto].
  apply bsum_ext; intros k _.
  rewrite rpow_mod, (rpow_mod (d mod N * k)). f_equal.
  rewrite Nat.mul_mod_idemp_l; auto. Qed.
Lemma w_diag d : d mod N = 0%nat -> bsum (fun k => rpow w (d * k)) N = of_nat S N.
Proof. intros H. destruct (Nat.eq_dec N 0) as [E|E]; [rewrite E; reflexivity|].
  rewrite <- bsum_one. apply bsum_ext; intros k _.
  rewrite rpow_mod, <- Nat.mul_mod_idemp_l, H by auto. simpl. rewrite Nat.mod_0_l by auto. auto. Qed.

(* the kernel sum_k w^(j k) conj(w)^(j' k) *)
Lemma dft_kernel j j' : j < N -> j' < N ->
  bsum (fun k => rpow w (j * k) * rpow (cj w) (j' * k)) N = if Nat.eqb j j' then of_nat S N else 0.
Proof. intros Hj Hj'. destruct (Nat.eqb_spec j j') as [->|NE].
  - rewrite <- bsum_one. apply bsum_ext; intros k _.
    rewrite <- rpow_mul_base, w_unit, rpow_one; auto.
  - destruct (Nat.lt_ge_cases j' j) as [L|L].
    + rewrite <- (w_orth (j - j')) by lia. apply bsum_ext; intros k _.
      replace (j * k)%nat with ((j - j') * k + j' * k)%nat by nia.
      rewrite rpow_add. replace (rpow w ((j - j') * k) * rpow w (j' * k) * rpow (cj w) (j' * k))
        with (rpow w ((j - j') * k) * (rpow w (j' * k) * rpow (cj w) (j' * k))) by ring.
      rewrite <- rpow_mul_base, w_unit, rpow_one. ring.
    + assert (E : bsum (fun k => rpow (cj w) ((j' - j) * k)) N = 0).
      { rewrite <- (conj_zero S), <- (w_orth (j' - j)) by lia. rewrite conj_bsum.
        apply bsum_ext; intros; rewrite conj_rpow; auto. }
      rewrite <- E. apply bsum_ext; intros k _.
      replace (j' * k)%nat with ((j' - j) * k + j * k)%nat by nia.
      rewrite rpow_add. replace (rpow w (j * k) * (rpow (cj w) ((j' - j) * k) * rpow (cj w) (j * k)))
        with (rpow (cj w) ((j' - j) * k) * (rpow w (j * k) * rpow (cj w) (j * k))) by ring.
      rewrite <- rpow_mul_base, w_unit, rpow_one. ring. Qed.

(* INVERSION with zero padding: for length x <= N,
   truncate (conj-transform_N (transform_N (pad x))) = N . x *)
Theorem dft_inversion x : (length x <= N)%nat ->
  dft (cj w) (length x) (dft w N x) = vscale S (of_nat S N) x.
Proof. intros L. rewrite <- (tab_nth S x) at 3. rewrite vscale_tab. unfold dft at 1.
  rewrite dft_length. apply tab_ext; intros j' Hj'.
  rewrite (bsum_ext S _ (fun k => bsum (fun j => nth j x 0 * (rpow w (j * k) * rpow (cj w) (j' * k))) (length x))).
  2:{ intros k Hk. unfold dft. rewrite nth_tab by auto. rewrite (Nat.mul_comm k j'), <- bsum_scale.
      apply bsum_ext; intros; ring. }
  rewrite bsum_swap.
  rewrite (bsum_ext S _ (fun j => if Nat.eqb j j' then of_nat S N * nth j x 0 else 0)).
  2:{ intros j Hj. rewrite bsum_scale, dft_kernel by lia. destruct (Nat.eqb j j'); ring. }
  apply bsum_delta; auto. Qed.
Corollary dft_inversion_pad x : (length x <= N)%nat ->
  trunc (length x) (dft (cj w) N (dft w N (pad N x))) = vscale S (of_nat S N) x.
Proof. intros L. rewrite trunc_dft, dft_pad by auto. apply dft_inversion; auto. Qed.

(* scaled forms: forward scale a, backward scale b with a*b*N = 1 gives the
   identity. norm='ortho' is a = b = s with s*s*N = 1 (UNITARITY: the adjoint
   is the inverse); '/' for norm='none' is a = 1, b = 1/N; for '1/n' a = 1/N,
   b = 1. *)
Theorem dft_scaled_inverse a b x : (length x <= N)%nat -> a * b * of_nat S N = 1 ->
  vscale S b (dft (cj w) (length x) (vscale S a (dft w N x))) = x.
Proof. intros L H. rewrite dft_vscale, dft_inversion, !vscale_vscale by auto.
  replace (b * a * of_nat S N) with (r1 S) by (rewrite <- H; ring). apply vscale_one. Qed.
Theorem dft_unitary_ortho s x : (length x <= N)%nat -> s * s * of_nat S N = 1 ->
  vscale S s (dft (cj w) (length x) (vscale S s (dft w N x))) = x.
Proof. intros; apply dft_scaled_inverse; auto. Qed.
(* and the scaled pair really is an adjoint pair when the scale is real *)
Theorem dft_scaled_adjoint s x y : cj s = s -> length y = N ->
  dot S (vscale S s (dft w N x)) y = dot S x (vscale S s (dft (cj w) (length x) y)).
Proof. intros Hs Hy. rewrite dot_vscale_l, dot_vscale_r, Hs, dft_adjoint; auto. Qed.
End Root.

(* ---- twiddle-table form (what the correspondence executes): the table
   holds w^0 .. w^(N-1) and the exponent is reduced mod N ---- *)
Definition dft_tab (t : vec) (N m : nat) (x : vec) : vec :=
  tab (fun k => bsum (fun j => nth ((j * k) mod N) t 0 * nth j x 0) (length x)) m.
Theorem dft_tab_correct w N m x : 0 < N -> rpow w N = 1 ->
  dft_tab (tab (rpow w) N) N m x = dft w m x.
Proof. intros HN Hw. unfold dft_tab, dft. apply tab_ext; intros k _. apply bsum_ext; intros j _.
  rewrite nth_tab by (apply Nat.mod_upper_bound; lia). rewrite <- (rpow_mod_gen w N _ Hw). reflexivity. Qed.

(* ---- shifts: rotations ---- *)
(* rotl k x : out[i] = x[(i+k) mod n].  np.roll(x, s) = rotl (n - s mod n).
   fftshift x = np.roll(x, n/2) = rotl (n - n/2); ifftshift x = np.roll(x, -(n/2)) = rotl (n/2). *)
Definition rotl (k : nat) (x : vec) : vec := skipn k x ++ firstn k x.
Definition fftshift (x : vec) : vec := rotl (length x - length x / 2) x.
Definition ifftshift (x : vec) : vec := rotl (length x / 2) x.

Lemma rotl_length k x : length (rotl k x) = length x.
Proof. unfold rotl. rewrite app_length, skipn_length, firstn_length. lia. Qed.
Lemma rotl_inverse k x : (k <= length x)%nat -> rotl (length x - k) (rotl k x) = x.
Proof. intros L. unfold rotl.
  assert (E : length (skipn k x) = (length x - k)%nat) by apply skipn_length.
  rewrite skipn_app, firstn_app, E, Nat.sub_diag. simpl.
  rewrite <- E at 1. rewrite skipn_all. rewrite <- E at 1. rewrite firstn_all. simpl.
  rewrite app_nil_r. apply firstn_skipn. Qed.
Lemma rotl_dot k x y : length x = length y -> dot S (rotl k x) (rotl k y) = dot S x y.
Proof. intros H. unfold rotl. rewrite dot_app by (rewrite !skipn_length; lia).
  rewrite <- (firstn_skipn k x) at 3. rewrite <- (firstn_skipn k y) at 3.
  rewrite dot_app by (rewrite !firstn_length; lia). ring. Qed.
Theorem fftshift_ifftshift x : fftshift (ifftshift x) = x.
Proof. unfold fftshift, ifftshift. rewrite rotl_length. apply rotl_inverse.
  apply Nat.div_le_upper_bound; lia. Qed.
Theorem ifftshift_fftshift x : ifftshift (fftshift x) = x.
Proof. unfold fftshift, ifftshift. rewrite rotl_length.
  assert (L : (length x / 2 <= length x)%nat) by (apply Nat.div_le_upper_bound; lia).
  replace (length x / 2)%nat with (length x - (length x - length x / 2))%nat at 1 by lia.
  apply rotl_inverse. lia. Qed.
(* adjoint pairs: the adjoint of fftshift is ifftshift and vice versa *)
Theorem fftshift_adjoint x y : length x = length y ->
  dot S (fftshift x) y = dot S x (ifftshift y).
Proof. intros H. rewrite <- (fftshift_ifftshift y) at 1. unfold fftshift at 1 2.
  rewrite (rotl_length _ y) || unfold ifftshift; rewrite ?rotl_length.
  rewrite <- H. apply rotl_dot. unfold ifftshift; rewrite rotl_length; auto. Qed.
Theorem ifftshift_adjoint x y : length x = length y ->
  dot S (ifftshift x) y = dot S x (fftshift y).
Proof. intros H. rewrite <- (ifftshift_fftshift y) at 1. unfold ifftshift at 1 2.
  unfold fftshift; rewrite ?rotl_length.
  rewrite <- H. apply rotl_dot. rewrite rotl_length; auto. Qed.
Lemma rotl_vscale a k x : rotl k (vscale S a x) = vscale S a (rotl k x).
Proof. unfold rotl, vscale. rewrite map_app, firstn_map, skipn_map; auto. Qed.
Lemma fftshift_vscale a x : fftshift (vscale S a x) = vscale S a (fftshift x).
Proof. unfold fftshift. rewrite vscale_length. apply rotl_vscale. Qed.
Lemma ifftshift_vscale a x : ifftshift (vscale S a x) = vscale S a (ifftshift x).
Proof. unfold ifftshift. rewrite vscale_length. apply rotl_vscale. Qed.
Lemma fftshift_length x : length (fftshift x) = length x.
Proof. apply rotl_length. Qed.
Lemma ifftshift_length x : length (ifftshift x) = length x.
Proof. apply rotl_length. Qed.
End DFT.

(* ---- entry-wise (documented-matrix) view, used by C07(c) ---- *)
Section Entries.
Variable S : StarRing.
Add Ring Rent : (rth S).
Notation vec := (list S).
(* row k of the transform: sum_j w^(j k) x_j *)
Theorem dft_entry (w : S) m (x : vec) k : k < m ->
  nth k (dft S w m x) 0 = bsum (fun j => rpow w (j * k) * nth j x 0) (length x).
Proof. intros H; unfold dft; rewrite nth_tab by auto; reflexivity. Qed.
Lemma nth_skipn_ {A} (l : list A) k i d : nth i (skipn k l) d = nth (k + i) l d.
Proof. revert l; induction k as [|k IH]; intros [|a l]; simpl; auto. destruct i; auto. Qed.
Lemma nth_firstn_ {A} (l : list A) k i d : i < k -> nth i (firstn k l) d = nth i l d.
Proof. revert l i; induction k as [|k IH]; intros [|a l] i H; simpl; auto; try lia. destruct i; auto. apply IH; lia. Qed.
(* rotation as an index map: out[i] = x[(i + k) mod n] *)
Theorem nth_rotl k (x : vec) i : (k <= length x)%nat -> i < length x ->
  nth i (rotl S k x) 0 = nth ((i + k) mod length x) x 0.
Proof. intros Hk Hi. unfold rotl. destruct (Nat.lt_ge_cases i (length x - k)) as [L|L].
  - rewrite app_nth1 by (rewrite skipn_length; auto). rewrite nth_skipn_.
    rewrite Nat.mod_small by lia. f_equal; lia.
  - rewrite app_nth2 by (rewrite skipn_length; auto). rewrite skipn_length.
    rewrite nth_firstn_ by lia.
    replace (i + k)%nat with ((i - (length x - k)) + 1 * length x)%nat by lia.
    rewrite Nat.mod_add by lia. rewrite Nat.mod_small by lia. auto. Qed.
(* fftshift / ifftshift as index maps (np.fft.fftshift: out[i] = x[(i + n - n/2) mod n]) *)
Theorem nth_fftshift (x : vec) i : i < length x ->
  nth i (fftshift S x) 0 = nth ((i + (length x - length x / 2)) mod length x) x 0.
Proof. intros; unfold fftshift; apply nth_rotl; auto; lia. Qed.
Theorem nth_ifftshift (x : vec) i : i < length x ->
  nth i (ifftshift S x) 0 = nth ((i + length x / 2) mod length x) x 0.
Proof. intros; unfold ifftshift; apply nth_rotl; auto. apply Nat.div_le_upper_bound; lia. Qed.
(* truncation: only the first N samples enter *)
Theorem dft_truncated_entry (w : S) N (x : vec) k : k < N ->
  nth k (dft S w N (firstn N x)) 0 = bsum (fun j => rpow w (j * k) * nth j x 0) (Nat.min N (length x)).
Proof. intros H. rewrite dft_entry by auto. rewrite firstn_length. apply bsum_ext; intros j Hj.
  rewrite nth_firstn_ by lia. auto. Qed.
End Entries.

(* the three laws packaged (used by Props/) *)
Definition principal_root (S : StarRing) (w : S) (N : nat) : Prop :=
  rpow w N = 1 /\ w * conj S w = 1 /\
  forall d, 0 < d -> d < N -> bsum (fun k => rpow w (d * k)) N = 0.
