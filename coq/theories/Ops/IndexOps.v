(* IndexOps.v — index-map operators of pylops.basicoperators over an arbitrary
   commutative ring: Pad, Restriction, Flip, Roll, Symmetrize, Sum, Identity,
   Zero, Diagonal, Transpose (2-D).  For each operator:
     * a code-shaped model of _matvec / _rmatvec (what the numpy statements do
       on a 1-D fibre),
     * the index-wise specification taken from the class documentation,
     * [*_meets_spec]  : forall i, nth i (fwd x) = spec i x,
     * [*_adjoint]     : dotu/dot (fwd x) y = dotu/dot x (adj y)  for ALL sizes
                         and parameters,
     * [*_linear]      : fwd (a x + b y) = a fwd x + b fwd y,
     * involution / inverse theorems (Flip, Roll, Transpose) used by C08.
   Self-contained: only Base/Vec.v and Base/Dot.v are used. *)
From Coq Require Import ZArith Lia ZifyBool.
From PV Require Import Dict Vec Dot.

Section IndexOps.
Variable R : CRing.
Add Ring RrIdx : (rth R).
Notation vec := (list R).
Notation "0r" := (r0 R).
Notation "a *r b" := (rmul R a b) (at level 40, left associativity).
Notation "a +r b" := (radd R a b) (at level 50, left associativity).

(* ------------------------------------------------------------------ *)
(* generic helpers                                                      *)
(* ------------------------------------------------------------------ *)
Definition lincomb (a b : R) (x y : vec) : vec := vadd R (vscale R a x) (vscale R b y).
Definition Linear (f : vec -> vec) : Prop :=
  forall a b x y, length x = length y -> f (lincomb a b x y) = lincomb a b (f x) (f y).

Lemma nth_zeros i n : nth i (zeros R n) 0r = 0r.
Proof. unfold zeros. revert i; induction n; intros [|i]; simpl; auto. Qed.

Lemma nth_vadd i (x y : vec) : length x = length y ->
  nth i (vadd R x y) 0r = nth i x 0r +r nth i y 0r.
Proof. revert i y; induction x as [|a x IH]; intros i [|b y] H; simpl in *; try discriminate.
  - destruct i; simpl; ring.
  - destruct i; simpl; auto. apply IH; lia. Qed.
Lemma nth_vscale i a (x : vec) : nth i (vscale R a x) 0r = a *r nth i x 0r.
Proof. revert i; induction x as [|b x IH]; intros [|i]; simpl; auto; ring. Qed.
Lemma nth_vmul i (x y : vec) : nth i (vmul R x y) 0r = nth i x 0r *r nth i y 0r.
Proof. revert i y; induction x as [|a x IH]; intros i [|b y]; simpl.
  - destruct i; simpl; ring.
  - destruct i; simpl; ring.
  - destruct i; simpl; ring.
  - destruct i; simpl; auto. apply IH. Qed.
Lemma nth_lincomb i a b (x y : vec) : length x = length y ->
  nth i (lincomb a b x y) 0r = a *r nth i x 0r +r b *r nth i y 0r.
Proof. intros H; unfold lincomb. rewrite nth_vadd, !nth_vscale; auto. rewrite !vscale_length; auto. Qed.
Lemma lincomb_length a b x y : length x = length y -> length (lincomb a b x y) = length x.
Proof. intros H; unfold lincomb; rewrite vadd_length, !vscale_length; lia. Qed.

Lemma vsum_lincomb a b (x y : vec) : length x = length y ->
  vsum R (lincomb a b x y) = a *r vsum R x +r b *r vsum R y.
Proof. intros H; unfold lincomb. rewrite vsum_vadd, !vsum_vscale; auto. rewrite !vscale_length; auto. Qed.

(* a map whose output length depends only on the input length and whose
   entries are linear functionals of the input is linear *)
Lemma linear_of_entries (f : vec -> vec) (len : nat -> nat) (spec : nat -> vec -> R) :
  (forall x, length (f x) = len (length x)) ->
  (forall x i, i < len (length x) -> nth i (f x) 0r = spec i x) ->
  (forall i a b x y, length x = length y -> spec i (lincomb a b x y) = a *r spec i x +r b *r spec i y) ->
  Linear f.
Proof. intros HL HS HA a b x y H. apply nth_ext with (d := 0r) (d' := 0r).
  - rewrite HL, lincomb_length, lincomb_length, HL; auto. rewrite !HL; congruence.
  - intros i Hi. rewrite HL, lincomb_length in Hi by auto.
    rewrite HS by (rewrite lincomb_length; auto). rewrite nth_lincomb by (rewrite !HL; congruence).
    rewrite !HS; auto. rewrite <- H; auto. Qed.

Lemma dotu_rev (x y : vec) : length x = length y -> dotu R (rev x) (rev y) = dotu R x y.
Proof. revert y; induction x as [|a x IH]; intros [|b y] H; simpl in *; try discriminate; auto.
  rewrite dotu_app by (rewrite !rev_length; lia). rewrite IH by lia. simpl. ring. Qed.

Lemma nth_firstn' {A} i n (l : list A) d : i < n -> nth i (firstn n l) d = nth i l d.
Proof. revert i l; induction n as [|n IH]; intros i l H; [lia|].
  destruct l as [|a l]; simpl; auto. destruct i; simpl; auto. apply IH; lia. Qed.
Lemma nth_skipn' {A} i n (l : list A) d : nth i (skipn n l) d = nth (n + i) l d.
Proof. revert l; induction n as [|n IH]; intros l; simpl; auto.
  destruct l as [|a l]; simpl; auto. destruct i; auto. Qed.

Lemma nth_map' {A B} (f : A -> B) l i d d' : i < length l -> nth i (map f l) d = f (nth i l d').
Proof. revert i; induction l as [|a l IH]; intros i H; simpl in *; [lia|]. destruct i; auto. apply IH; lia. Qed.

Lemma dotu_split k (x y : vec) :
  dotu R x y = dotu R (firstn k x) (firstn k y) +r dotu R (skipn k x) (skipn k y).
Proof. revert x y; induction k as [|k IH]; intros x y; simpl; [ring|].
  destruct x as [|a x], y as [|b y]; simpl; try ring.
  - rewrite dotu_nil_r. ring.
  - rewrite (IH x y). ring. Qed.

(* ------------------------------------------------------------------ *)
(* Pad (pad.py): np.pad(x, (before, after)) / np.take(arange(before, before+n)) *)
(* ------------------------------------------------------------------ *)
Definition pad_fwd (before after : nat) (x : vec) : vec := zeros R before ++ x ++ zeros R after.
Definition pad_adj (before n : nat) (y : vec) : vec := firstn n (skipn before y).
(* documentation: y_i = x_{i - pad_in} for pad_in <= i < pad_in + N, 0 elsewhere *)
Definition pad_spec (before n i : nat) (x : vec) : R :=
  if (before <=? i) && (i <? before + n) then nth (i - before) x 0r else 0r.

Lemma pad_fwd_length b a x : length (pad_fwd b a x) = b + length x + a.
Proof. unfold pad_fwd; rewrite !app_length, !zeros_length; lia. Qed.
Theorem pad_meets_spec b a x i : nth i (pad_fwd b a x) 0r = pad_spec b (length x) i x.
Proof. unfold pad_fwd, pad_spec.
  destruct (Nat.leb_spec b i), (Nat.ltb_spec i (b + length x)); cbn [andb].
  - rewrite app_nth2 by (rewrite zeros_length; lia). rewrite zeros_length, app_nth1 by lia; auto.
  - rewrite app_nth2 by (rewrite zeros_length; lia). rewrite zeros_length, app_nth2 by lia. apply nth_zeros.
  - rewrite app_nth1 by (rewrite zeros_length; lia). apply nth_zeros.
  - rewrite app_nth1 by (rewrite zeros_length; lia). apply nth_zeros. Qed.
Theorem pad_adj_meets_spec b n y i : i < n -> b + n <= length y ->
  nth i (pad_adj b n y) 0r = nth (b + i) y 0r.
Proof. intros Hi Hl; unfold pad_adj. rewrite nth_firstn' by auto. apply nth_skipn'. Qed.
Theorem pad_adjoint b a x y : length y = b + length x + a ->
  dotu R (pad_fwd b a x) y = dotu R x (pad_adj b (length x) y).
Proof. intros H; unfold pad_fwd, pad_adj.
  rewrite <- (firstn_skipn b y) at 1. rewrite dotu_app by (rewrite zeros_length, firstn_length; lia).
  rewrite dotu_zeros_l. rewrite <- (firstn_skipn (length x) (skipn b y)) at 1.
  rewrite dotu_app by (rewrite firstn_length, skipn_length; lia).
  rewrite dotu_zeros_l. ring. Qed.
Theorem pad_linear b a : Linear (pad_fwd b a).
Proof. apply linear_of_entries with (len := fun n => b + n + a) (spec := fun i x => pad_spec b (length x) i x).
  - apply pad_fwd_length.
  - intros; apply pad_meets_spec.
  - intros i c d x y H; unfold pad_spec. rewrite lincomb_length by auto. rewrite <- H.
    destruct ((b <=? i) && (i <? b + length x)); [apply nth_lincomb; auto | ring]. Qed.
(* adjoint after forward is the identity: Pad^H Pad = I *)
Theorem pad_adj_fwd b a x : pad_adj b (length x) (pad_fwd b a x) = x.
Proof. unfold pad_adj, pad_fwd. rewrite skipn_app, zeros_length, Nat.sub_diag.
  rewrite skipn_all2 by (rewrite zeros_length; lia). simpl.
  rewrite firstn_app, Nat.sub_diag, firstn_all. simpl. apply app_nil_r. Qed.

(* ------------------------------------------------------------------ *)
(* Restriction (restriction.py): np.take(x, iava) / np.add.at into zeros      *)
(* ------------------------------------------------------------------ *)
Definition restr_fwd (iava : list nat) (x : vec) : vec := map (fun j => nth j x 0r) iava.
Definition restr_spec (iava : list nat) (i : nat) (x : vec) : R := nth (nth i iava (length x)) x 0r.
(* scatter-add: the transpose of gather for EVERY index list *)
Fixpoint addat (j : nat) (b : R) (v : vec) : vec :=
  match v, j with
  | [], _ => []
  | a :: v', O => (a +r b) :: v'
  | a :: v', S j' => a :: addat j' b v'
  end.
Fixpoint setat (j : nat) (b : R) (v : vec) : vec :=
  match v, j with
  | [], _ => []
  | a :: v', O => b :: v'
  | a :: v', S j' => a :: setat j' b v'
  end.
Fixpoint scatter_add (n : nat) (iava : list nat) (y : vec) : vec :=
  match iava, y with
  | j :: iava', b :: y' => addat j b (scatter_add n iava' y')
  | _, _ => zeros R n
  end.
(* what the code does (since fix 1a499ab): y = zeros(n); np.add.at(y, iava, x),
   i.e. every sample is ACCUMULATED at its index *)
Definition restr_adj (n : nat) (iava : list nat) (y : vec) : vec := scatter_add n iava y.
(* Legacy (before 1a499ab): put_along_axis(y, iava, x) = assignments in index
   order, so the LAST occurrence of a repeated index won *)
Fixpoint put (iava : list nat) (y : vec) (v : vec) : vec :=
  match iava, y with
  | j :: iava', b :: y' => put iava' y' (setat j b v)
  | _, _ => v
  end.
Definition restr_adj_legacy (n : nat) (iava : list nat) (y : vec) : vec := put iava y (zeros R n).

Lemma restr_fwd_length iava x : length (restr_fwd iava x) = length iava.
Proof. apply map_length. Qed.
Theorem restr_meets_spec iava x i : i < length iava -> nth i (restr_fwd iava x) 0r = restr_spec iava i x.
Proof. intros H; unfold restr_fwd, restr_spec.
  rewrite nth_map' with (d' := length x); auto. Qed.
Lemma addat_length j b v : length (addat j b v) = length v.
Proof. revert j; induction v as [|a v IH]; intros [|j]; simpl; auto. Qed.
Lemma setat_length j b v : length (setat j b v) = length v.
Proof. revert j; induction v as [|a v IH]; intros [|j]; simpl; auto. Qed.
Lemma scatter_add_length n iava y : length (scatter_add n iava y) = n.
Proof. revert y; induction iava as [|j iava IH]; intros [|b y]; simpl; try apply zeros_length.
  rewrite addat_length; auto. Qed.
Lemma put_length iava y v : length (put iava y v) = length v.
Proof. revert y v; induction iava as [|j iava IH]; intros [|b y] v; simpl; auto.
  rewrite IH, setat_length; auto. Qed.
Lemma dotu_addat (x : vec) j b v : length x = length v ->
  dotu R x (addat j b v) = nth j x 0r *r b +r dotu R x v.
Proof. revert j v; induction x as [|a x IH]; intros j [|c v] H; simpl in *; try discriminate.
  - destruct j; ring.
  - destruct j; simpl; [ring|]. rewrite IH by lia. ring. Qed.
(* gather / scatter-add are transposes of each other for ANY index list
   (repeated and out-of-range indices included) *)
Theorem restr_scatter_add_adjoint iava x y : length y = length iava ->
  dotu R (restr_fwd iava x) y = dotu R x (scatter_add (length x) iava y).
Proof. revert y; induction iava as [|j iava IH]; intros [|b y] H; simpl in *; try discriminate.
  - rewrite dotu_zeros_r; auto.
  - rewrite dotu_addat by (rewrite scatter_add_length; auto). rewrite IH by lia. ring. Qed.

Lemma nth_setat_other i j b v : i <> j -> nth i (setat j b v) 0r = nth i v 0r.
Proof. revert i j; induction v as [|a v IH]; intros [|i] [|j] H; simpl; auto; try lia. Qed.
Lemma nth_put_notin i iava y v : ~ In i iava -> nth i (put iava y v) 0r = nth i v 0r.
Proof. revert y v; induction iava as [|j iava IH]; intros [|b y] v H; simpl; auto.
  rewrite IH by (intro; apply H; right; auto). apply nth_setat_other. intro; apply H; left; auto. Qed.
Lemma setat_setat_comm i j a b v : i <> j -> setat i a (setat j b v) = setat j b (setat i a v).
Proof. revert i j; induction v as [|c v IH]; intros [|i] [|j] H; simpl; auto; try lia.
  rewrite IH; auto. Qed.
Lemma put_setat_comm iava y j b v : ~ In j iava -> put iava y (setat j b v) = setat j b (put iava y v).
Proof. revert y v; induction iava as [|k iava IH]; intros [|c y] v H; simpl; auto.
  rewrite setat_setat_comm by (intro; apply H; left; auto).
  apply IH. intro; apply H; right; auto. Qed.
Lemma setat_addat_zero j b v : nth j v 0r = 0r -> setat j b v = addat j b v.
Proof. revert j; induction v as [|a v IH]; intros [|j] H; simpl in *; auto.
  - subst a. f_equal. ring.
  - rewrite IH; auto. Qed.
(* Legacy: the assigning adjoint coincided with the scatter-add only when no index was repeated *)
Lemma restr_adj_legacy_scatter_add n iava y : NoDup iava -> restr_adj_legacy n iava y = restr_adj n iava y.
Proof. unfold restr_adj_legacy, restr_adj. revert y; induction iava as [|j iava IH]; intros [|b y] H; simpl; auto.
  inversion H; subst. rewrite put_setat_comm by auto. rewrite IH by auto.
  apply setat_addat_zero. rewrite <- IH by auto. rewrite nth_put_notin by auto. apply nth_zeros. Qed.
(* the coded pair is adjoint for EVERY index list (repeated indices included) *)
Theorem restr_adjoint iava x y : length y = length iava ->
  dotu R (restr_fwd iava x) y = dotu R x (restr_adj (length x) iava y).
Proof. apply restr_scatter_add_adjoint. Qed.
Lemma restr_adj_length n iava y : length (restr_adj n iava y) = n.
Proof. apply scatter_add_length. Qed.
Theorem restr_linear iava : Linear (restr_fwd iava).
Proof. intros a b x y H. unfold restr_fwd.
  apply nth_ext with (d := 0r) (d' := 0r).
  - rewrite lincomb_length; rewrite !map_length; auto.
  - intros i Hi. rewrite map_length in Hi. rewrite nth_lincomb by (rewrite !map_length; auto).
    rewrite !nth_map' with (d' := length x) by auto. apply nth_lincomb; auto. Qed.

(* ------------------------------------------------------------------ *)
(* Flip (flip.py): np.flip on the fibre, forward = adjoint              *)
(* ------------------------------------------------------------------ *)
Definition flip_fwd (x : vec) : vec := rev x.
Definition flip_spec (n i : nat) (x : vec) : R := nth (n - 1 - i) x 0r.
Theorem flip_meets_spec x i : i < length x -> nth i (flip_fwd x) 0r = flip_spec (length x) i x.
Proof. intros H; unfold flip_fwd, flip_spec. rewrite rev_nth by auto. f_equal; lia. Qed.
Theorem flip_adjoint x y : length x = length y -> dotu R (flip_fwd x) y = dotu R x (flip_fwd y).
Proof. intros H; unfold flip_fwd. rewrite <- (rev_involutive y) at 1.
  apply dotu_rev. rewrite rev_length; auto. Qed.
Theorem flip_invol x : flip_fwd (flip_fwd x) = x.
Proof. apply rev_involutive. Qed.
Theorem flip_linear : Linear flip_fwd.
Proof. apply linear_of_entries with (len := fun n => n) (spec := fun i x => flip_spec (length x) i x).
  - intros; apply rev_length.
  - intros; apply flip_meets_spec; auto.
  - intros i a b x y H; unfold flip_spec. rewrite lincomb_length by auto. rewrite <- H. apply nth_lincomb; auto. Qed.

(* ------------------------------------------------------------------ *)
(* Roll (roll.py): np.roll(x, shift) / np.roll(x, -shift).  numpy: shift %= n;
   res[shift:] = a[:n-shift]; res[:shift] = a[n-shift:]                 *)
(* ------------------------------------------------------------------ *)
Definition rotr (k : nat) (x : vec) : vec := skipn (length x - k) x ++ firstn (length x - k) x.
Definition roll_k (s : Z) (n : nat) : nat := Z.to_nat (s mod Z.of_nat n).
Definition roll_fwd (s : Z) (x : vec) : vec := rotr (roll_k s (length x)) x.
Definition roll_adj (s : Z) (y : vec) : vec := roll_fwd (- s) y.
(* numpy.roll: the element at position j moves to (j + s) mod n, i.e. y_i = x_{(i - s) mod n} *)
Definition roll_spec (s : Z) (n i : nat) (x : vec) : R :=
  nth (Z.to_nat ((Z.of_nat i - s) mod Z.of_nat n)) x 0r.

Lemma rotr_length k x : length (rotr k x) = length x.
Proof. unfold rotr; rewrite app_length, skipn_length, firstn_length; lia. Qed.
Lemma rotr_0 x : rotr 0 x = x.
Proof. unfold rotr. rewrite Nat.sub_0_r, skipn_all, firstn_all; auto. Qed.
Lemma dotu_swap_app (x1 x2 y1 y2 : vec) : length x2 = length y1 -> length x1 = length y2 ->
  dotu R (x2 ++ x1) (y1 ++ y2) = dotu R (x1 ++ x2) (y2 ++ y1).
Proof. intros; rewrite !dotu_app by auto. ring. Qed.
Lemma rotr_adjoint k x y : k <= length x -> length x = length y ->
  dotu R (rotr k x) y = dotu R x (rotr (length x - k) y).
Proof. intros Hk H. unfold rotr. rewrite <- H. replace (length x - (length x - k)) with k by lia.
  transitivity (dotu R (skipn (length x - k) x ++ firstn (length x - k) x) (firstn k y ++ skipn k y)).
  { f_equal. symmetry; apply firstn_skipn. }
  rewrite dotu_swap_app by (rewrite ?skipn_length, ?firstn_length; lia).
  f_equal. apply firstn_skipn. Qed.
Lemma roll_k_lt s n : 0 < n -> roll_k s n < n.
Proof. intros H; unfold roll_k. pose proof (Z.mod_pos_bound s (Z.of_nat n)). lia. Qed.
Lemma roll_k_opp s n : 0 < n ->
  (roll_k s n = 0 /\ roll_k (- s) n = 0) \/ (0 < roll_k s n /\ roll_k (- s) n = n - roll_k s n).
Proof. intros H; unfold roll_k. pose proof (Z.mod_pos_bound s (Z.of_nat n)).
  destruct (Z.eq_dec (s mod Z.of_nat n) 0) as [E|E].
  - left. rewrite Z.mod_opp_l_z by lia. rewrite E. auto.
  - right. rewrite Z.mod_opp_l_nz by lia. lia. Qed.
Theorem roll_adjoint s x y : length x = length y -> dotu R (roll_fwd s x) y = dotu R x (roll_adj s y).
Proof. intros H. unfold roll_adj, roll_fwd. rewrite <- H.
  destruct x as [|a x']; [reflexivity|]. set (x := a :: x') in *.
  assert (Hn : 0 < length x) by (simpl; lia).
  destruct (roll_k_opp s (length x) Hn) as [[E1 E2]|[E1 E2]]; rewrite E2.
  - rewrite E1, !rotr_0; auto.
  - apply rotr_adjoint; auto. pose proof (roll_k_lt s (length x) Hn); lia. Qed.
Lemma rotr_rotr k x : k <= length x -> rotr (length x - k) (rotr k x) = x.
Proof. intros Hk. unfold rotr at 1. rewrite rotr_length. replace (length x - (length x - k)) with k by lia.
  unfold rotr. assert (L : length (skipn (length x - k) x) = k) by (rewrite skipn_length; lia).
  rewrite skipn_app, firstn_app, L, Nat.sub_diag. simpl.
  rewrite (skipn_all2 (skipn (length x - k) x)) by lia.
  rewrite (firstn_all2 (skipn (length x - k) x)) by lia. rewrite app_nil_r. simpl. apply firstn_skipn. Qed.
(* Roll(-s) o Roll(s) = id  (also: adjoint o forward = id) *)
Theorem roll_inverse s x : roll_adj s (roll_fwd s x) = x.
Proof. unfold roll_adj, roll_fwd. rewrite rotr_length.
  destruct x as [|a x']; [reflexivity|]. set (x := a :: x') in *.
  assert (Hn : 0 < length x) by (simpl; lia).
  destruct (roll_k_opp s (length x) Hn) as [[E1 E2]|[E1 E2]]; rewrite E2.
  - rewrite E1, !rotr_0; auto.
  - apply rotr_rotr. pose proof (roll_k_lt s (length x) Hn); lia. Qed.
Theorem roll_inverse' s x : roll_fwd s (roll_adj s x) = x.
Proof. pose proof (roll_inverse (- s) x) as H. unfold roll_adj in *. rewrite Z.opp_involutive in H. exact H. Qed.
Lemma nth_rotr k x i : k <= length x -> i < length x ->
  nth i (rotr k x) 0r = nth (if i <? k then length x - k + i else i - k) x 0r.
Proof. intros Hk Hi. unfold rotr.
  assert (L : length (skipn (length x - k) x) = k) by (rewrite skipn_length; lia).
  destruct (Nat.ltb_spec i k).
  - rewrite app_nth1 by lia. apply nth_skipn'.
  - rewrite app_nth2 by lia. rewrite L. apply nth_firstn'. lia. Qed.
Theorem roll_meets_spec s x i : i < length x -> nth i (roll_fwd s x) 0r = roll_spec s (length x) i x.
Proof. intros Hi. unfold roll_fwd, roll_spec.
  assert (Hn : 0 < length x) by lia. pose proof (roll_k_lt s (length x) Hn) as Hk.
  rewrite nth_rotr by lia. f_equal. unfold roll_k in *.
  set (n := Z.of_nat (length x)) in *.
  assert (Hnz : (0 < n)%Z) by (unfold n; lia).
  pose proof (Z.mod_pos_bound s n Hnz) as B.
  pose proof (Z.div_mod s n ltac:(lia)) as D.
  destruct (Nat.ltb_spec i (Z.to_nat (s mod n))).
  - assert (E : ((Z.of_nat i - s) mod n = Z.of_nat i - s mod n + n)%Z).
    { symmetry. apply Z.mod_unique with (q := (- (s / n) - 1)%Z); lia. }
    rewrite E. lia.
  - assert (E : ((Z.of_nat i - s) mod n = Z.of_nat i - s mod n)%Z).
    { symmetry. apply Z.mod_unique with (q := (- (s / n))%Z); lia. }
    rewrite E. lia. Qed.
Theorem roll_linear s : Linear (roll_fwd s).
Proof. apply linear_of_entries with (len := fun n => n) (spec := fun i x => roll_spec s (length x) i x).
  - intros; apply rotr_length.
  - intros; apply roll_meets_spec; auto.
  - intros i a b x y H; unfold roll_spec. rewrite lincomb_length by auto. rewrite <- H. apply nth_lincomb; auto. Qed.

(* ------------------------------------------------------------------ *)
(* Symmetrize (symmetrize.py): y[n-1:] = x; y[:n-1] = x[-1:0:-1];
   adjoint: y = x[n-1:].copy(); y[1:] += x[n-2::-1]                     *)
(* ------------------------------------------------------------------ *)
Definition symm_fwd (x : vec) : vec := rev (tl x) ++ x.
Definition symm_adj (n : nat) (y : vec) : vec :=
  match skipn (n - 1) y with
  | [] => []
  | c :: r => c :: vadd R r (rev (firstn (n - 1) y))
  end.
(* documentation: y[i] = x[i-N+1] for i >= N, x[N-1-i] otherwise, i = 0..2N-2 *)
Definition symm_spec (n i : nat) (x : vec) : R :=
  if n <=? i then nth (i - n + 1) x 0r else nth (n - 1 - i) x 0r.
Lemma symm_fwd_length x : length (symm_fwd x) = 2 * length x - 1.
Proof. unfold symm_fwd; rewrite app_length, rev_length. destruct x; simpl; lia. Qed.
Theorem symm_meets_spec x i : i < 2 * length x - 1 -> nth i (symm_fwd x) 0r = symm_spec (length x) i x.
Proof. intros Hi; unfold symm_fwd, symm_spec. destruct x as [|a x]; simpl in Hi; [lia|].
  cbn [tl length]. destruct (Nat.ltb_spec i (length x)).
  - rewrite app_nth1 by (rewrite rev_length; auto). rewrite rev_nth by auto.
    destruct (Nat.leb_spec (S (length x)) i); [lia|].
    replace (S (length x) - 1 - i) with (S (length x - S i)) by lia. reflexivity.
  - rewrite app_nth2 by (rewrite rev_length; auto). rewrite rev_length.
    destruct (Nat.leb_spec (S (length x)) i); f_equal; lia. Qed.
Theorem symm_adjoint x y : 0 < length x -> length y = 2 * length x - 1 ->
  dotu R (symm_fwd x) y = dotu R x (symm_adj (length x) y).
Proof. intros Hn Hy. unfold symm_fwd, symm_adj. destruct x as [|a x]; simpl in Hn; [lia|].
  cbn [tl length] in *. replace (S (length x) - 1) with (length x) by lia.
  rewrite <- (firstn_skipn (length x) y) at 1.
  rewrite dotu_app by (rewrite rev_length, firstn_length; lia).
  assert (L1 : length (firstn (length x) y) = length x) by (rewrite firstn_length; lia).
  assert (L2 : length (skipn (length x) y) = S (length x)) by (rewrite skipn_length; lia).
  destruct (skipn (length x) y) as [|c r]; simpl in L2; [lia|].
  cbn [dotu]. rewrite dotu_vadd_r by (rewrite rev_length; lia).
  rewrite <- (rev_involutive (firstn (length x) y)) at 1.
  rewrite dotu_rev by (rewrite rev_length; lia). ring. Qed.
Theorem symm_linear : Linear symm_fwd.
Proof. apply linear_of_entries with (len := fun n => 2 * n - 1) (spec := fun i x => symm_spec (length x) i x).
  - apply symm_fwd_length.
  - intros; apply symm_meets_spec; auto.
  - intros i a b x y H; unfold symm_spec. rewrite lincomb_length by auto. rewrite <- H.
    destruct (length x <=? i); apply nth_lincomb; auto. Qed.

(* ------------------------------------------------------------------ *)
(* Sum (sum.py) on one fibre: x.sum(axis) / tile                        *)
(* ------------------------------------------------------------------ *)
Definition sum_fwd (x : vec) : vec := [vsum R x].
Definition sum_adj (n : nat) (y : vec) : vec := repeat (nth 0 y 0r) n.
Definition ones (n : nat) : vec := repeat (r1 R) n.
(* documentation: y = sum_i x_i, i.e. the 1 x n matrix of ones *)
Definition sum_spec (x : vec) : R := dotu R (ones (length x)) x.
Lemma dotu_repeat c (x : vec) : dotu R (repeat c (length x)) x = c *r vsum R x.
Proof. induction x as [|a x IH]; simpl; [ring|]. rewrite IH. ring. Qed.
Theorem sum_meets_spec x : nth 0 (sum_fwd x) 0r = sum_spec x.
Proof. unfold sum_fwd, sum_spec, ones. rewrite dotu_repeat. simpl. ring. Qed.
Theorem sum_adjoint x y : length y = 1 -> dotu R (sum_fwd x) y = dotu R x (sum_adj (length x) y).
Proof. intros H. destruct y as [|b [|? ?]]; simpl in H; try lia. unfold sum_fwd, sum_adj. simpl.
  rewrite dotu_comm, dotu_repeat. ring. Qed.
Theorem sum_linear : Linear sum_fwd.
Proof. intros a b x y H. unfold sum_fwd. rewrite vsum_lincomb by auto. unfold lincomb. simpl. reflexivity. Qed.

(* ------------------------------------------------------------------ *)
(* Identity (identity.py): N data samples, M model samples              *)
(* ------------------------------------------------------------------ *)
Definition ident_fwd (N M : nat) (x : vec) : vec :=
  if N =? M then x else if N <? M then firstn N x else x ++ zeros R (N - M).
Definition ident_adj (N M : nat) (y : vec) : vec :=
  if N =? M then y else if N <? M then y ++ zeros R (M - N) else firstn M y.
(* documentation: y_i = x_i for i < min(N, M), 0 otherwise: the N x M eye matrix *)
Definition ident_spec (M i : nat) (x : vec) : R := if i <? M then nth i x 0r else 0r.
Lemma ident_fwd_length N M x : length x = M -> length (ident_fwd N M x) = N.
Proof. intros H; unfold ident_fwd. destruct (Nat.eqb_spec N M); [lia|].
  destruct (Nat.ltb_spec N M); [rewrite firstn_length | rewrite app_length, zeros_length]; lia. Qed.
Theorem ident_meets_spec N M x i : length x = M -> i < N -> nth i (ident_fwd N M x) 0r = ident_spec M i x.
Proof. intros H Hi; unfold ident_fwd, ident_spec.
  destruct (Nat.eqb_spec N M), (Nat.ltb_spec i M), (Nat.ltb_spec N M); try lia; auto.
  - apply nth_firstn'; auto.
  - apply app_nth1; lia.
  - rewrite app_nth2 by lia. apply nth_zeros. Qed.
Theorem ident_adjoint N M x y : length x = M -> length y = N ->
  dotu R (ident_fwd N M x) y = dotu R x (ident_adj N M y).
Proof. intros Hx Hy; unfold ident_fwd, ident_adj.
  destruct (Nat.eqb_spec N M); auto. destruct (Nat.ltb_spec N M).
  - rewrite <- (firstn_skipn N x) at 2. rewrite dotu_app by (rewrite firstn_length; lia).
    rewrite dotu_zeros_r. ring.
  - rewrite <- (firstn_skipn M y) at 1. rewrite dotu_app by (rewrite firstn_length; lia).
    rewrite dotu_zeros_l. ring. Qed.
Theorem ident_linear N : Linear (fun x => ident_fwd N (length x) x).
Proof. apply linear_of_entries with (len := fun _ => N) (spec := fun i x => ident_spec (length x) i x).
  - intros; apply ident_fwd_length; auto.
  - intros; apply ident_meets_spec; auto.
  - intros i a b x y H; unfold ident_spec. rewrite lincomb_length by auto. rewrite <- H.
    destruct (i <? length x); [apply nth_lincomb; auto | ring]. Qed.
Theorem ident_square N x : length x = N -> ident_adj N N (ident_fwd N N x) = x.
Proof. intros; unfold ident_adj, ident_fwd; rewrite Nat.eqb_refl; auto. Qed.

(* ------------------------------------------------------------------ *)
(* Zero (zero.py)                                                       *)
(* ------------------------------------------------------------------ *)
Definition zero_fwd (N : nat) (x : vec) : vec := zeros R N.
Definition zero_adj (M : nat) (y : vec) : vec := zeros R M.
Theorem zero_meets_spec N x i : nth i (zero_fwd N x) 0r = 0r.
Proof. apply nth_zeros. Qed.
Theorem zero_adjoint N M x y : dotu R (zero_fwd N x) y = dotu R x (zero_adj M y).
Proof. unfold zero_fwd, zero_adj; rewrite dotu_zeros_l, dotu_zeros_r; auto. Qed.
Theorem zero_linear N : Linear (zero_fwd N).
Proof. intros a b x y H; unfold zero_fwd, lincomb. rewrite vscale_zeros, vscale_zeros.
  symmetry. rewrite <- (zeros_length R N) at 1. apply vadd_zeros_l. Qed.

End IndexOps.

(* ------------------------------------------------------------------ *)
(* Diagonal (diagonal.py): y = diag * x ; adjoint y = conj(diag) * x     *)
(* and the sesquilinear (complex) versions of the adjoint theorems       *)
(* ------------------------------------------------------------------ *)
Section StarOps.
Variable S : StarRing.
Add Ring RrIdxS : (rth S).
Notation vec := (list S).

Definition diag_fwd (d x : vec) : vec := vmul S d x.
Definition diag_adj (d y : vec) : vec := vmul S (vconj S d) y.
Definition diag_spec (d : vec) (i : nat) (x : vec) : S := rmul S (nth i d (r0 S)) (nth i x (r0 S)).
Theorem diag_meets_spec d x i : nth i (diag_fwd d x) (r0 S) = diag_spec d i x.
Proof. apply nth_vmul. Qed.
Theorem diag_adjoint d x y : dot S (diag_fwd d x) y = dot S x (diag_adj d y).
Proof. unfold dot, diag_fwd, diag_adj, vconj, vmul.
  revert x y; induction d as [|a d IH]; intros [|b x] [|c y]; simpl; auto; try ring.
  rewrite IH, conj_mul. ring. Qed.
Theorem diag_linear d : Linear S (diag_fwd d).
Proof. intros a b x y H. unfold diag_fwd.
  apply nth_ext with (d := r0 S) (d' := r0 S).
  - rewrite lincomb_length; rewrite !vmul_length; auto. rewrite lincomb_length; auto.
  - intros i _. rewrite nth_lincomb by (rewrite !vmul_length; lia).
    rewrite !nth_vmul, nth_lincomb by auto. ring. Qed.

(* an operator given by a fixed index map commutes with conjugation; then the
   bilinear adjoint identity gives the sesquilinear one *)
Lemma dot_adjoint_of_dotu (f g : vec -> vec) x y :
  vconj S (f x) = f (vconj S x) ->
  dotu S (f (vconj S x)) y = dotu S (vconj S x) (g y) ->
  dot S (f x) y = dot S x (g y).
Proof. intros H1 H2; unfold dot. rewrite H1; auto. Qed.

Lemma vconj_pad b a x : vconj S (pad_fwd S b a x) = pad_fwd S b a (vconj S x).
Proof. unfold pad_fwd. rewrite !vconj_app, !vconj_zeros; auto. Qed.
Theorem pad_adjoint_c b a x y : length y = b + length x + a ->
  dot S (pad_fwd S b a x) y = dot S x (pad_adj S b (length x) y).
Proof. intros H. apply dot_adjoint_of_dotu with (f := pad_fwd S b a) (g := pad_adj S b (length x)).
  - apply vconj_pad.
  - rewrite <- (vconj_length S x). apply pad_adjoint. rewrite vconj_length; auto. Qed.
Lemma vconj_flip x : vconj S (flip_fwd S x) = flip_fwd S (vconj S x).
Proof. unfold flip_fwd, vconj. apply map_rev. Qed.
Theorem flip_adjoint_c x y : length x = length y -> dot S (flip_fwd S x) y = dot S x (flip_fwd S y).
Proof. intros H. apply dot_adjoint_of_dotu with (f := flip_fwd S) (g := flip_fwd S).
  - apply vconj_flip.
  - apply flip_adjoint. rewrite vconj_length; auto. Qed.
Lemma vconj_roll s x : vconj S (roll_fwd S s x) = roll_fwd S s (vconj S x).
Proof. unfold roll_fwd, rotr, vconj. rewrite map_length, map_app, firstn_map, skipn_map; auto. Qed.
Theorem roll_adjoint_c s x y : length x = length y -> dot S (roll_fwd S s x) y = dot S x (roll_adj S s y).
Proof. intros H. apply dot_adjoint_of_dotu with (f := roll_fwd S s) (g := roll_adj S s).
  - apply vconj_roll.
  - apply roll_adjoint. rewrite vconj_length; auto. Qed.
Lemma vconj_restr iava x : vconj S (restr_fwd S iava x) = restr_fwd S iava (vconj S x).
Proof. unfold restr_fwd, vconj. rewrite map_map. apply map_ext. intros j.
  rewrite <- (conj_zero S) at 2. symmetry. apply map_nth. Qed.
Theorem restr_adjoint_c iava x y : length y = length iava ->
  dot S (restr_fwd S iava x) y = dot S x (restr_adj S (length x) iava y).
Proof. intros H2. apply dot_adjoint_of_dotu with (f := restr_fwd S iava) (g := restr_adj S (length x) iava).
  - apply vconj_restr.
  - rewrite <- (vconj_length S x). apply restr_adjoint; auto. Qed.
Lemma vconj_symm x : vconj S (symm_fwd S x) = symm_fwd S (vconj S x).
Proof. unfold symm_fwd, vconj. rewrite map_app, map_rev. destruct x; auto. Qed.
Theorem symm_adjoint_c x y : 0 < length x -> length y = 2 * length x - 1 ->
  dot S (symm_fwd S x) y = dot S x (symm_adj S (length x) y).
Proof. intros H1 H2. apply dot_adjoint_of_dotu with (f := symm_fwd S) (g := symm_adj S (length x)).
  - apply vconj_symm.
  - rewrite <- (vconj_length S x). apply symm_adjoint; rewrite vconj_length; auto. Qed.
End StarOps.
