(* PSD.v — exact decision of positive semidefiniteness of a symmetric matrix
   over an ordered field by symmetric Gaussian elimination (LDL^T without
   pivoting: pivot > 0 -> Schur complement; pivot = 0 -> its row must vanish;
   pivot < 0 -> not PSD), and its soundness:  psd M = true -> d^T M d >= 0
   for every d.  Used to certify the step-size premise
   alpha ||A d||^2 <= ||d||^2  (I - alpha A^T A is PSD) of ista_descent for
   each concrete problem of the correspondence. *)
From PV Require Export OrdLemmas.
Local Open Scope R_scope.
Set Warnings "-notation-overridden".

Section PSD.
Variable F : OrdField.
Add Ring Fr3 : (rth F).
Add Field Ff3 : (fth F).
Notation K := (car F).
Notation vec := (list K).
Notation mat := (list (list K)).
Local Notation "a <= b" := (rle F a b) : R_scope.

Definition eqb (a b : K) : bool := rleb F a b && rleb F b a.
Fixpoint veqb (u v : vec) : bool :=
  match u, v with [], [] => true | a :: u', b :: v' => eqb a b && veqb u' v' | _, _ => false end.
Definition schur (p : K) (b : vec) (M' : mat) : mat :=
  map2 (fun bi row => map2 (fun bj mij => mij - bi * bj / p) b row) b M'.

(* [fuel] = dimension *)
Fixpoint psd (fuel : nat) (M : mat) : bool :=
  match fuel, M with
  | O, [] => true
  | S f, (p :: b) :: rest =>
      let c := map (fun r => hd 0 r) rest in
      let M' := map (@tl K) rest in
      Nat.eqb (length b) f && Nat.eqb (length rest) f && forallb (fun r => Nat.eqb (length r) (S f)) rest &&
      veqb b c &&
      (if rleb F p 0 then (rleb F 0 p && forallb (eqb0 F) b && psd f M')
       else psd f (schur p b M'))
  | _, _ => false
  end.

Definition quad (M : mat) (d : vec) : K := dotu F d (mv F M d).

Lemma eqb_spec a b : eqb a b = true <-> a = b.
Proof. unfold eqb. rewrite andb_true_iff, !rleb_spec. split.
  - intros [H1 H2]; apply (rle_antisym F); auto. - intros ->; split; apply rle_refl. Qed.
Lemma veqb_spec u v : veqb u v = true -> u = v.
Proof. revert v; induction u as [|a u IH]; intros [|b v] H; simpl in *; try discriminate; auto.
  apply andb_prop in H as [H1 H2]. apply eqb_spec in H1. subst. f_equal; auto. Qed.
Lemma zeros_dot b d : forallb (eqb0 F) b = true -> dotu F b d = 0.
Proof. revert d; induction b as [|a b IH]; intros [|c d] H; simpl in *; auto.
  apply andb_prop in H as [H1 H2]. apply eqb0_spec in H1. subst. rewrite IH by auto. ring. Qed.
Lemma map_map2 {A B C D} (g : C -> D) (h : A -> B -> C) u v : map g (map2 h u v) = map2 (fun a b => g (h a b)) u v.
Proof. revert v; induction u as [|a u IH]; intros [|b v]; simpl; auto. rewrite IH; auto. Qed.

Lemma rowsplit f (rest : mat) d0 d' : Forall (fun r => length r = S f) rest ->
  map (fun r => dotu F r (d0 :: d')) rest =
  map2 (fun ci mi => ci * d0 + mi) (map (hd 0) rest) (mv F (map (@tl K) rest) d').
Proof. induction 1 as [|r rest Hr _ IH]; simpl; auto. rewrite IH. f_equal.
  destruct r as [|c r]; simpl in *; [discriminate | reflexivity]. Qed.
Lemma dot_affine d0 (dd c w : vec) : length c = length w ->
  dotu F dd (map2 (fun ci mi => ci * d0 + mi) c w) = d0 * dotu F dd c + dotu F dd w.
Proof. revert c w; induction dd as [|x dd IH]; intros [|a c] [|b w] H; simpl in *; try discriminate; try ring.
  rewrite IH by lia. ring. Qed.

Lemma quad_cons f p b rest d0 d' : Forall (fun r => length r = S f) rest ->
  quad ((p :: b) :: rest) (d0 :: d') =
  p * d0 * d0 + d0 * dotu F b d' + d0 * dotu F d' (map (hd 0) rest) + quad (map (@tl K) rest) d'.
Proof. intros W. unfold quad, mv. cbn [map dotu]. rewrite (rowsplit f) by auto.
  rewrite dot_affine by (unfold mv; rewrite !map_length; auto). unfold mv. ring. Qed.

Lemma row_schur p bi (b row d : vec) : p <> 0 -> length b = length row ->
  dotu F (map2 (fun bj mij => mij - bi * bj / p) b row) d = dotu F row d - bi * dotu F b d / p.
Proof. intros Np. revert row d; induction b as [|x b IH]; intros [|m row] [|c d] H; simpl in *; try discriminate; try (field; auto).
  rewrite IH by lia. field; auto. Qed.
Lemma schur_dot p (b d : vec) : p <> 0 -> forall (b1 : vec) (M1 : mat) (dd : vec), length b1 = length M1 ->
  Forall (fun row => length row = length b) M1 ->
  dotu F dd (map2 (fun bi row => dotu F (map2 (fun bj mij => mij - bi * bj / p) b row) d) b1 M1)
  = dotu F dd (mv F M1 d) - dotu F b d * dotu F dd b1 / p.
Proof. intros Np. induction b1 as [|x b1 IH]; intros [|row M1] [|c dd] H W; simpl in *; try discriminate; try (field; auto).
  inversion W; subst. rewrite IH by (auto; lia). rewrite row_schur by auto. field; auto. Qed.
Lemma schur_quad p (b : vec) (M' : mat) d : p <> 0 -> length b = length M' ->
  Forall (fun row => length row = length b) M' ->
  quad (schur p b M') d = quad M' d - dotu F b d * dotu F b d / p.
Proof. intros Np H W. unfold quad, schur. unfold mv at 1. rewrite map_map2.
  rewrite (schur_dot p b d Np b M' d H W). rewrite (dotu_comm F d b). reflexivity. Qed.

Theorem psd_sound : forall n (M : mat), psd n M = true -> forall d, length d = n -> 0 <= quad M d.
Proof. induction n as [|f IH]; intros M H d Hd.
  - destruct M; [|discriminate]. destruct d; [|discriminate]. unfold quad; simpl. apply rle_refl.
  - destruct M as [|[|p b] rest]; try discriminate. cbn [psd] in H.
    apply andb_prop in H as [H H5]. apply andb_prop in H as [H H4]. apply andb_prop in H as [H H3]. apply andb_prop in H as [H1 H2].
    apply Nat.eqb_eq in H1, H2. apply veqb_spec in H4.
    assert (W : Forall (fun r => length r = S f) rest).
    { apply Forall_forall. intros r Hr. rewrite forallb_forall in H3. apply Nat.eqb_eq, H3; auto. }
    destruct d as [|d0 d']; [discriminate|]. injection Hd as Hd.
    rewrite (quad_cons f) by auto. replace (map (hd 0) rest) with b by exact H4. rewrite (dotu_comm F d' b).
    set (s := dotu F b d'). set (M' := map (@tl K) rest) in *.
    destruct (leb_cases F p 0) as [[E Hp]|[E [Hp Np]]]; rewrite E in H5.
    + apply andb_prop in H5 as [H5 H7]. apply andb_prop in H5 as [H5 H6]. apply rleb_spec in H5.
      assert (p = 0) by (apply (rle_antisym F); auto). subst p.
      unfold s. rewrite (zeros_dot b d' H6).
      replace (0 * d0 * d0 + d0 * 0 + d0 * 0 + quad M' d') with (quad M' d') by ring. apply IH; auto.
    + assert (WM : Forall (fun row => length row = length b) M').
      { unfold M'. apply Forall_map. eapply Forall_impl; [|exact W]. intros r Hr. destruct r; simpl in *; [discriminate|lia]. }
      assert (LM : length b = length M') by (unfold M'; rewrite map_length; lia).
      pose proof (IH _ H5 d' Hd) as Q. rewrite (schur_quad p b M' d' Np LM WM) in Q. fold s in Q.
      replace (p * d0 * d0 + d0 * s + d0 * s + quad M' d')
        with (p * ((d0 + s / p) * (d0 + s / p)) + (quad M' d' - s * s / p)) by (field; auto).
      apply nn_add; auto. apply nn_mul; auto. apply sq_nn.
Qed.

(* ---- the matrix I - alpha A^T A, built row of A by row of A, and its quadratic form ---- *)
Definition outer (r : vec) : mat := map (fun ri => vscale F ri r) r.
Definition msubs (alpha : K) (M G : mat) : mat :=
  map2 (fun r1 r2 => map2 (fun a b => a - alpha * b) r1 r2) M G.
Definition idm (n : nat) : mat := map (fun i => unit F n i) (seq 0 n).
Fixpoint stepmat (n : nat) (alpha : K) (A : mat) : mat :=
  match A with [] => idm n | r :: A' => msubs alpha (stepmat n alpha A') (outer r) end.
Definition sq (n : nat) (M : mat) : Prop := length M = n /\ Forall (fun r => length r = n) M.

Lemma row_sub alpha (r1 r2 d : vec) : length r1 = length r2 ->
  dotu F (map2 (fun a b => a - alpha * b) r1 r2) d = dotu F r1 d - alpha * dotu F r2 d.
Proof. revert r2 d; induction r1 as [|a r1 IH]; intros [|b r2] [|c d] H; simpl in *; try discriminate; try ring.
  rewrite IH by lia. ring. Qed.
Lemma quad_msubs n alpha M G d : sq n M -> sq n G -> quad (msubs alpha M G) d = quad M d - alpha * quad G d.
Proof. intros [LM WM] [LG WG]. unfold quad, msubs, mv. rewrite map_map2.
  assert (L : length M = length G) by lia. clear LM LG.
  generalize d at 1 3 5. revert G L WG. induction M as [|r1 M IH]; intros [|r2 G] L WG dd; simpl in *; try discriminate.
  - destruct dd; simpl; ring.
  - inversion WM; inversion WG; subst. destruct dd as [|x dd]; simpl; [ring|].
    rewrite IH by (auto; lia). rewrite row_sub by lia. ring. Qed.
Lemma sq_msubs n alpha M G : sq n M -> sq n G -> sq n (msubs alpha M G).
Proof. intros [LM WM] [LG WG]. unfold msubs. split. rewrite map2_length; lia.
  assert (L : length M = length G) by lia. clear LM LG. revert G L WG.
  induction M as [|r1 M IH]; intros [|r2 G] L WG; simpl in *; try discriminate; constructor.
  - inversion WM; inversion WG; subst. rewrite map2_length. lia.
  - inversion WM; inversion WG; subst. apply IH; auto. Qed.
Lemma sq_outer n r : length r = n -> sq n (outer r).
Proof. intros H. unfold outer. split. rewrite map_length; auto.
  apply Forall_map. apply Forall_forall. intros x _. rewrite vscale_length; auto. Qed.
Lemma quad_outer r d : quad (outer r) d = dotu F r d * dotu F r d.
Proof. unfold quad, outer, mv. rewrite map_map.
  assert (E : map (fun x => dotu F (vscale F x r) d) r = vscale F (dotu F r d) r).
  { unfold vscale at 2. apply map_ext. intros a. rewrite dotu_vscale_l. ring. }
  rewrite E, dotu_vscale_r, (dotu_comm F d r). ring. Qed.
Lemma sq_idm n : sq n (idm n).
Proof. unfold idm. split. rewrite map_length, seq_length; auto.
  apply Forall_map. apply Forall_forall. intros x _. apply unit_length. Qed.
Lemma map_nth_seq (d : vec) k : map (fun i => nth (i - k) d 0) (seq k (length d)) = d.
Proof. revert k; induction d as [|a d IH]; intros k; simpl; auto. f_equal.
  - replace (k - k)%nat with 0%nat by lia. reflexivity.
  - rewrite <- (IH (S k)) at 2. apply map_ext_in. intros i Hi. apply in_seq in Hi.
    replace (i - k)%nat with (S (i - S k)) by lia. reflexivity. Qed.
Lemma mv_idm n d : length d = n -> mv F (idm n) d = d.
Proof. intros H. unfold mv, idm. rewrite map_map. subst n. etransitivity; [|apply (map_nth_seq d 0)].
  apply map_ext_in. intros i Hi. apply in_seq in Hi. rewrite dotu_comm, dotu_unit by lia.
  replace (i - 0)%nat with i by lia. reflexivity. Qed.
Lemma sq_stepmat n alpha A : wfM F n A -> sq n (stepmat n alpha A).
Proof. induction 1; simpl. apply sq_idm. apply sq_msubs; auto. apply sq_outer; auto. Qed.
Theorem stepmat_quad n alpha A d : wfM F n A -> length d = n ->
  quad (stepmat n alpha A) d = nrm2 F d - alpha * nrm2 F (mv F A d).
Proof. intros W Hd. induction W as [|r A Hr W IH]; simpl.
  - unfold quad. rewrite mv_idm by auto. unfold nrm2; simpl. ring.
  - rewrite (quad_msubs n) by (auto using sq_stepmat, sq_outer). rewrite IH, quad_outer.
    unfold nrm2; simpl. ring. Qed.

(* the step-size premise of ista_descent from the executable certificate *)
Theorem premise_of_psd n alpha A : wfM F n A -> psd n (stepmat n alpha A) = true ->
  forall d, length d = n -> alpha * nrm2 F (mv F A d) <= nrm2 F d.
Proof. intros W H d Hd. pose proof (psd_sound n _ H d Hd) as Q. rewrite stepmat_quad in Q by auto.
  apply le_sub; auto. Qed.
End PSD.
