(* Thresh.v — the thresholding functions of pylops/optimization/cls_sparsity.py
   on a totally ordered field (real case), exactly as coded:

     _softthreshold(x, thresh) = np.maximum(np.abs(x) - thresh, 0.0) * np.sign(x)
     _softthreshold (complex)  = np.maximum(np.abs(x) - thresh, 0.0) * np.exp(1j*np.angle(x))
     _hardthreshold(x, thresh) : x1[np.abs(x) <= np.sqrt(2*thresh)] = 0
     _halfthreshold(x, thresh) : ...; x1[np.abs(x) <= (54**(1/3)/4) * thresh**(2/3)] = 0

   and the proofs that soft / hard are the proximal maps of t|.| and t|.|_0
   (standard convention  prox_{t f}(u) = argmin_z (z-u)^2/2 + t f(z)). *)
From PV Require Export OrdLemmas.
Local Open Scope R_scope.
Set Warnings "-notation-overridden".

Section Thresh.
Variable F : OrdField.
Add Ring Fr1 : (rth F).
Add Field Ff1 : (fth F).
Notation K := (car F).
Local Notation "a <= b" := (rle F a b) : R_scope.
Local Notation rabs := (rabs F).
Local Notation rsgn := (rsgn F).
Local Notation rmax := (rmax F).
Local Notation two := (two F).
Local Notation half := (half F).
Local Notation rlt := (rlt F).
Ltac rng := unfold OrdLemmas.two; ring.

(* ------------------------------------------------------------------ soft *)
Definition soft (u t : K) : K := rmax (rabs u - t) 0 * rsgn u.

Lemma soft_small u t : rabs u <= t -> soft u t = 0.
Proof. intros H. unfold soft. rewrite rmax_r. ring.
  apply le_sub. replace (0 - (rabs u - t)) with (t - rabs u) by ring. apply sub_le; auto. Qed.
Lemma soft_pos u t : 0 <= t -> t <= u -> soft u t = u - t.
Proof. intros Ht H. assert (Hu : 0 <= u) by (eapply rle_trans; eauto).
  unfold soft. rewrite (rabs_pos F u Hu). rewrite rmax_l by (apply sub_le; auto).
  destruct (trichotomy F u) as [L|[E|L]].
  - exfalso; eapply lt_asym; eauto.
  - subst. assert (t = 0) by (apply (rle_antisym F); auto). subst. ring.
  - rewrite rsgn_pos by auto. ring. Qed.
Lemma soft_neg u t : 0 <= t -> u <= - t -> soft u t = u + t.
Proof. intros Ht H. assert (Hu : u <= 0). { eapply rle_trans; eauto. apply opp_le; auto. }
  unfold soft. rewrite (rabs_neg F u Hu).
  rewrite rmax_l by (replace (- u - t) with (- t - u) by ring; apply sub_le; auto).
  destruct (trichotomy F u) as [L|[E|L]].
  - rewrite rsgn_neg by auto. ring.
  - subst. assert (E : - t = 0). { apply (rle_antisym F); auto. apply opp_le; auto. }
    replace t with (- - t) by ring. rewrite E. ring.
  - exfalso; eapply lt_asym; eauto. Qed.
Lemma soft_trich u t : 0 <= t -> rabs u <= t \/ (t <= u /\ u <> t) \/ (u <= - t /\ u <> - t).
Proof. intros Ht. destruct (leb_cases F u t) as [[_ H1]|[_ [H1 N1]]].
  - destruct (leb_cases F (- t) u) as [[_ H2]|[_ [H2 N2]]].
    + left. apply abs_le_iff; split; auto. apply le_sub. replace (t - - u) with (u - - t) by ring. apply sub_le; auto.
    + right; right; split; auto.
  - right; left; split; auto. Qed.

(* doubled form:  (s-u)^2 + 2t|s| <= (z-u)^2 + 2t|z|  for every z *)
Theorem soft_is_prox2 u t : 0 <= t -> forall z,
  (soft u t - u) * (soft u t - u) + two * t * rabs (soft u t) <= (z - u) * (z - u) + two * t * rabs z.
Proof. intros Ht z. destruct (soft_trich u t Ht) as [H|[[H N]|[H N]]].
  - rewrite soft_small by auto. rewrite rabs_0. apply le_sub.
    replace ((z - u) * (z - u) + two * t * rabs z - ((0 - u) * (0 - u) + two * t * 0))
      with (z * z + two * ((t - rabs u) * rabs z) + two * (rabs u * rabs z - u * z)) by rng.
    apply nn_add; [apply nn_add|]. apply sq_nn.
    apply nn_mul; [apply two_nn|apply nn_mul; [apply sub_le; auto|apply rabs_nn]].
    apply nn_mul; [apply two_nn|apply sub_le, mul_le_abs].
  - rewrite soft_pos by auto. rewrite (rabs_pos F (u - t)) by (apply sub_le; auto). apply le_sub.
    replace ((z - u) * (z - u) + two * t * rabs z - ((u - t - u) * (u - t - u) + two * t * (u - t)))
      with ((z - u + t) * (z - u + t) + two * (t * (rabs z - z))) by rng.
    apply nn_add. apply sq_nn. apply nn_mul; [apply two_nn|apply nn_mul; auto]. apply sub_le, rabs_ge.
  - rewrite soft_neg by auto.
    rewrite (rabs_neg F (u + t)) by (apply le_sub; replace (0 - (u + t)) with (- t - u) by ring; apply sub_le; auto).
    apply le_sub.
    replace ((z - u) * (z - u) + two * t * rabs z - ((u + t - u) * (u + t - u) + two * t * - (u + t)))
      with ((z - u - t) * (z - u - t) + two * (t * (rabs z - - z))) by rng.
    apply nn_add. apply sq_nn. apply nn_mul; [apply two_nn|apply nn_mul; auto]. apply sub_le, rabs_ge_opp.
Qed.

(* the documented form: soft u t minimises (z-u)^2/2 + t|z| *)
Theorem soft_is_prox u t : 0 <= t -> forall z,
  (soft u t - u) * (soft u t - u) * half + t * rabs (soft u t) <= (z - u) * (z - u) * half + t * rabs z.
Proof. intros Ht z. pose proof (soft_is_prox2 u t Ht z) as H.
  apply (mul_le_l F half) in H; [|apply half_nn].
  pose proof (two_half F) as E.
  set (s := soft u t) in *.
  replace ((s - u) * (s - u) * half + t * rabs s) with (half * ((s - u) * (s - u) + two * t * rabs s)).
  replace ((z - u) * (z - u) * half + t * rabs z) with (half * ((z - u) * (z - u) + two * t * rabs z)).
  exact H.
  - transitivity ((z - u) * (z - u) * half + (two * half) * (t * rabs z)); [ring | rewrite E; ring].
  - transitivity ((s - u) * (s - u) * half + (two * half) * (t * rabs s)); [ring | rewrite E; ring].
Qed.

(* fixed points of  x |-> soft (x + d) t : the subdifferential inclusion d in t*sign(x) *)
Lemma soft_fix x d t : 0 <= t ->
  (soft (x + d) t = x <-> (x = 0 -> rabs d <= t) /\ (x <> 0 -> d = t * rsgn x)).
Proof. intros Ht. split.
  - intros E. destruct (soft_trich (x + d) t Ht) as [H|[[H N]|[H N]]].
    + rewrite soft_small in E by auto. subst x. split; [|tauto]. intros _.
      replace d with (0 + d) by ring; auto.
    + rewrite soft_pos in E by auto. assert (Ed : d = t) by (transitivity (x + d - t + t - x); [ring | rewrite E; ring]).
      subst d. split.
      * intros ->. exfalso. apply N; ring.
      * intros Nx. rewrite rsgn_pos. ring. split; [|auto].
        apply le_sub. replace (x - 0) with (x + t - t) by ring. apply sub_le; auto.
    + rewrite soft_neg in E by auto. assert (Ed : d = - t) by (transitivity (x + d + t - t - x); [ring | rewrite E; ring]).
      subst d. split.
      * intros ->. exfalso. apply N; ring.
      * intros Nx. rewrite rsgn_neg. ring. split; [|auto].
        apply le_sub. replace (0 - x) with (- t - (x + - t)) by ring. apply sub_le; auto.
  - intros [H0 H1]. destruct (trichotomy F x) as [L|[E|L]].
    + assert (Nx : x <> 0) by (destruct L; auto). rewrite (H1 Nx), rsgn_neg by auto.
      rewrite soft_neg; auto. ring. apply le_sub. replace (- t - (x + t * - (1))) with (0 - x) by ring.
      apply sub_le, lt_le; auto.
    + subst x. rewrite soft_small. auto. replace (0 + d) with d by ring; auto.
    + assert (Nx : x <> 0) by (destruct L; auto). rewrite (H1 Nx), rsgn_pos by auto.
      rewrite soft_pos; auto. ring. apply le_sub. replace (x + t * 1 - t) with (x - 0) by ring.
      apply sub_le, lt_le; auto.
Qed.

(* ------------------------------------------------------------------ hard *)
(* |x| <= sqrt(2*thresh)  is decided as  |x|^2 <= 2*thresh  (equivalent for
   thresh >= 0; for thresh < 0 numpy's sqrt gives nan and nothing is zeroed,
   and |x|^2 <= 2*thresh is never true either). *)
Definition hard (u t : K) : K := if rleb F (rabs u * rabs u) (two * t) then 0 else u.
(* the L0 "norm" of a scalar *)
Definition nz (z : K) : K := if eqb0 F z then 0 else 1.

Lemma nz_0 : nz 0 = 0.
Proof. unfold nz. replace (eqb0 F 0) with true; auto. symmetry; apply eqb0_spec; auto. Qed.
Lemma nz_ne z : z <> 0 -> nz z = 1.
Proof. intros N. unfold nz. destruct (eqb0 F z) eqn:E; auto. apply eqb0_spec in E; tauto. Qed.

Theorem hard_is_prox_l0_2 u t : 0 <= t -> forall z,
  (hard u t - u) * (hard u t - u) + two * t * nz (hard u t) <= (z - u) * (z - u) + two * t * nz z.
Proof. intros Ht z. unfold hard. rewrite rabs_sq.
  assert (T : 0 <= two * t) by (apply nn_mul; auto; apply two_nn).
  destruct (leb_cases F (u * u) (two * t)) as [[-> H]|[-> [H N]]].
  - rewrite nz_0. destruct (eqb0 F z) eqn:Ez.
    + apply eqb0_spec in Ez; subst z. rewrite nz_0. apply rle_refl.
    + rewrite nz_ne by (intros ->; assert (eqb0 F 0 = true) by (apply eqb0_spec; auto); congruence).
      apply le_sub. replace ((z - u) * (z - u) + two * t * 1 - ((0 - u) * (0 - u) + two * t * 0))
        with ((z - u) * (z - u) + (two * t - u * u)) by ring.
      apply nn_add. apply sq_nn. apply sub_le; auto.
  - assert (Nu : u <> 0). { intros ->. apply N. apply (rle_antisym F); auto. replace (0 * 0 : K) with (0 : K) by ring; auto. }
    rewrite (nz_ne u Nu). destruct (eqb0 F z) eqn:Ez.
    + apply eqb0_spec in Ez; subst z. rewrite nz_0. apply le_sub.
      replace ((0 - u) * (0 - u) + two * t * 0 - ((u - u) * (u - u) + two * t * 1)) with (u * u - two * t) by ring.
      apply sub_le; auto.
    + rewrite nz_ne by (intros ->; assert (eqb0 F 0 = true) by (apply eqb0_spec; auto); congruence).
      apply le_sub. replace ((z - u) * (z - u) + two * t * 1 - ((u - u) * (u - u) + two * t * 1)) with ((z - u) * (z - u)) by ring.
      apply sq_nn.
Qed.

Theorem hard_is_prox_l0 u t : 0 <= t -> forall z,
  (hard u t - u) * (hard u t - u) * half + t * nz (hard u t) <= (z - u) * (z - u) * half + t * nz z.
Proof. intros Ht z. pose proof (hard_is_prox_l0_2 u t Ht z) as H.
  apply (mul_le_l F half) in H; [|apply half_nn].
  pose proof (two_half F) as E.
  set (s := hard u t) in *.
  replace ((s - u) * (s - u) * half + t * nz s) with (half * ((s - u) * (s - u) + two * t * nz s)).
  replace ((z - u) * (z - u) * half + t * nz z) with (half * ((z - u) * (z - u) + two * t * nz z)).
  exact H.
  - transitivity ((z - u) * (z - u) * half + (two * half) * (t * nz z)); [ring | rewrite E; ring].
  - transitivity ((s - u) * (s - u) * half + (two * half) * (t * nz s)); [ring | rewrite E; ring].
Qed.

(* ------------------------------------------------------- complex soft *)
(* x = re + i im with modulus m supplied:  m >= 0, m*m = re^2 + im^2.
   np.exp(1j*np.angle(x)) = x/|x| for x <> 0 and 1 for x = 0. *)
Definition soft_c (re im m t : K) : K * K :=
  let k := rmax (m - t) 0 in
  if eqb0 F m then (k, (0 : K)) else (rdiv F (k * re) m, rdiv F (k * im) m).

Lemma sq_sum0 (a b : K) : a * a + b * b = 0 -> a = 0.
Proof. intros E. assert (H : a * a = 0).
  { apply (rle_antisym F). 2: apply sq_nn. rewrite <- E. apply le_sub.
    replace (a * a + b * b - a * a) with (b * b) by ring. apply sq_nn. }
  destruct (eqb0 F a) eqn:Ea. apply eqb0_spec; auto.
  assert (N : a <> 0) by (intros ->; assert (eqb0 F 0 = true) by (apply eqb0_spec; auto); congruence).
  replace a with (a * a * rinv F a) by (field; auto). rewrite H. ring. Qed.

Lemma cauchy2 zr zi mz re im m : 0 <= mz -> 0 <= m -> mz * mz = zr * zr + zi * zi -> m * m = re * re + im * im ->
  zr * re + zi * im <= mz * m.
Proof. intros Hz Hm Ez Em. apply sq_le_le. apply nn_mul; auto. apply le_sub.
  replace (mz * m * (mz * m)) with ((mz * mz) * (m * m)) by ring. rewrite Ez, Em.
  replace ((zr * zr + zi * zi) * (re * re + im * im) - (zr * re + zi * im) * (zr * re + zi * im))
    with ((zr * im - zi * re) * (zr * im - zi * re)) by ring. apply sq_nn. Qed.

(* only the modulus is shrunk: the result is (k/m) * x with k = max(m - t, 0) = its modulus *)
Theorem soft_c_shrinks_modulus re im m t : 0 <= m -> m * m = re * re + im * im ->
  let s := soft_c re im m t in let k := rmax (m - t) 0 in
  0 <= k /\ fst s * fst s + snd s * snd s = k * k /\ fst s * m = k * re /\ snd s * m = k * im.
Proof. intros Hm Em s k. subst s. unfold soft_c. fold k.
  assert (Hk : 0 <= k). { unfold k, OrdLemmas.rmax. destruct (leb_cases F (m - t) 0) as [[-> H]|[-> [H _]]]; auto. apply rle_refl. }
  split; auto. destruct (eqb0 F m) eqn:E0.
  - apply eqb0_spec in E0. subst m. cbn [fst snd].
    assert (re = 0) by (apply (sq_sum0 re im); etransitivity; [symmetry; exact Em | ring]).
    assert (im = 0) by (apply (sq_sum0 im re); etransitivity; [|etransitivity; [symmetry; exact Em | ring]]; ring). subst. repeat split; ring.
  - assert (N : m <> 0) by (intros ->; assert (eqb0 F 0 = true) by (apply eqb0_spec; auto); congruence).
    cbn [fst snd]. repeat split; try (field; auto).
    transitivity (k * k * (re * re + im * im) * rinv F (m * m)). field; auto.
    rewrite <- Em. field; auto. Qed.

Theorem soft_c_is_prox re im m t : 0 <= t -> 0 <= m -> m * m = re * re + im * im ->
  forall zr zi mz, 0 <= mz -> mz * mz = zr * zr + zi * zi ->
  let s := soft_c re im m t in
  (fst s - re) * (fst s - re) + (snd s - im) * (snd s - im) + two * t * rmax (m - t) 0
  <= (zr - re) * (zr - re) + (zi - im) * (zi - im) + two * t * mz.
Proof. intros Ht Hm Em zr zi mz Hz Ez s. subst s.
  pose proof (cauchy2 zr zi mz re im m Hz Hm Ez Em) as CS.
  destruct (leb_cases F (m - t) 0) as [[_ H]|[_ [H N]]].
  - (* m <= t : result 0 *)
    assert (E : soft_c re im m t = (0, 0)).
    { unfold soft_c. rewrite rmax_r by auto. destruct (eqb0 F m) eqn:E0; auto.
      assert (Nm : m <> 0) by (intros ->; assert (eqb0 F 0 = true) by (apply eqb0_spec; auto); congruence).
      f_equal; field; auto. }
    rewrite E, rmax_r by auto. cbn [fst snd].
    assert (NN : 0 <= mz * mz + two * ((t - m) * mz) + two * (mz * m - (zr * re + zi * im))).
    { apply nn_add; [apply nn_add|]. apply sq_nn.
      apply nn_mul; [apply two_nn|apply nn_mul; auto]. replace (t - m) with (0 - (m - t)) by ring. apply sub_le; auto.
      apply nn_mul; [apply two_nn|apply sub_le; auto]. }
    apply le_sub.
    replace ((zr - re) * (zr - re) + (zi - im) * (zi - im) + two * t * mz - ((0 - re) * (0 - re) + (0 - im) * (0 - im) + two * t * 0))
      with (mz * mz + two * ((t - m) * mz) + two * (mz * m - (zr * re + zi * im))); auto.
    rewrite Ez. rng.
  - (* m > t : result ((m-t)/m) x *)
    assert (Nm : m <> 0).
    { intros ->. apply N. apply (rle_antisym F); auto. apply le_sub. replace (0 - (0 - t)) with t by ring; auto. }
    assert (E0 : eqb0 F m = false). { destruct (eqb0 F m) eqn:E0; auto. apply eqb0_spec in E0; tauto. }
    unfold soft_c. rewrite E0, rmax_l by auto. cbn [fst snd].
    set (c := rdiv F (m - t) m). assert (Hc : c * m = m - t) by (unfold c; field; auto).
    replace (rdiv F ((m - t) * re) m) with (c * re) by (unfold c; field; auto).
    replace (rdiv F ((m - t) * im) m) with (c * im) by (unfold c; field; auto).
    assert (E : (c * re - re) * (c * re - re) + (c * im - im) * (c * im - im) = t * t).
    { transitivity ((c - 1) * (c - 1) * (re * re + im * im)); [ring|]. rewrite <- Em.
      transitivity ((c * m - m) * (c * m - m)); [ring|]. rewrite Hc. ring. }
    rewrite E.
    assert (NN : 0 <= (mz - m + t) * (mz - m + t) + two * (mz * m - (zr * re + zi * im))).
    { apply nn_add. apply sq_nn. apply nn_mul; [apply two_nn|apply sub_le; auto]. }
    replace ((mz - m + t) * (mz - m + t) + two * (mz * m - (zr * re + zi * im)))
      with (mz * mz + m * m + t * t + two * (mz * t) - two * (m * t) - two * (zr * re + zi * im)) in NN by rng.
    rewrite Em, Ez in NN. apply le_sub.
    match goal with |- 0 <= ?g => replace g with
      (zr * zr + zi * zi + (re * re + im * im) + t * t + two * (mz * t) - two * (m * t) - two * (zr * re + zi * im)) by rng end.
    exact NN.
Qed.

(* ------------------------------------------------------------------ half *)
(* Only the zeroing rule of _halfthreshold is modelled; the closed form
   (2/3) x (1 + cos(2pi/3 - (2/3) arccos(...))) is NOT (no arccos/cos on an
   ordered field).  [c] stands for (54^(1/3)/4) * thresh^(2/3), i.e. the
   non-negative number with 32 c^3 = 27 thresh^2; [v] is the unmodelled
   trigonometric value. *)
Definition half_thr (u c v : K) : K := if rleb F (rabs u) c then 0 else v.

Lemma cube_mono a b : 0 <= a -> a <= b -> a * a * a <= b * b * b.
Proof. intros Ha H. assert (Hb : 0 <= b) by (eapply rle_trans; eauto). apply le_sub.
  replace (b * b * b - a * a * a) with ((b - a) * (a * a + a * b + b * b)) by ring.
  apply nn_mul. apply sub_le; auto. apply nn_add; [apply nn_add|]. apply sq_nn. apply nn_mul; auto. apply sq_nn. Qed.

(* what IS decided about the half threshold: entries are zeroed exactly when
   32|u|^3 <= 27 thresh^2 (and kept when 27 thresh^2 <= 32|u|^3, up to the tie).
   NOT decided: that the kept value is the minimiser of the L_{1/2} prox problem. *)
Theorem half_partial u t c v k32 k27 : 0 <= c -> 0 <= k32 -> k32 * (c * c * c) = k27 * (t * t) ->
  (rabs u <= c -> half_thr u c v = 0 /\ k32 * (rabs u * rabs u * rabs u) <= k27 * (t * t)) /\
  (~ rabs u <= c -> half_thr u c v = v /\ k27 * (t * t) <= k32 * (rabs u * rabs u * rabs u)).
Proof. intros Hc Hk E. split; intros H.
  - split. unfold half_thr. apply rleb_spec in H. rewrite H; auto.
    rewrite <- E. apply mul_le_l; auto. apply cube_mono; auto. apply rabs_nn.
  - split. unfold half_thr. destruct (rleb F (rabs u) c) eqn:B; auto. apply rleb_spec in B; tauto.
    rewrite <- E. apply mul_le_l; auto. apply cube_mono; auto. destruct (rle_total F (rabs u) c); tauto. Qed.
End Thresh.
