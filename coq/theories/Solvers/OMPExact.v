(* OMPExact.v — exact recovery by OMP for dictionaries with orthonormal columns
   (model of Solvers/OMP.v, real case over any ordered field).

   Setting: A has n columns, <col_i, col_j> = delta_ij (the Gram matrix A^T A
   is the identity), y = A xs, xs has support S (a duplicate-free list of the
   indices < n with xs_j <> 0), k = |S|.  The inner solver is the oracle of
   OMP.v (any solution of the restricted normal equations).  The selection is
   quantified over EVERY index of maximal score (relation [is_argmax]): ties
   between equal moduli may be broken arbitrarily.  With orthonormal columns
   the score |c_j| / norms_j equals |c_j| (the norm oracle returns 1 on
   vectors of squared norm 1); no square root is needed because the real
   modulus [rabs] is available in an ordered field.

   Results (for all sizes n, all k, all histories):
   * [omp_orthonormal_corr]     correlation formula: c_j = xs_j on j not yet
                                selected, 0 on selected j;  returned
                                coefficients equal xs on the selected columns;
                                residual = A (xs restricted to S \ cols)
   * [omp_orthonormal_step]     every admissible selection is in S, is NEW,
                                and has maximal |xs_j| among the remaining
   * [omp_orthonormal_invariant] cols is a duplicate-free sublist of S and
                                |cols| = iiter along every run
   * [omp_orthonormal_exact]    iiter <= k always; after k steps x = xs and the
                                residual is the zero vector
   * [omp_orthonormal_terminates] with sigma = 0 and niter_outer >= k a run
                                that has stopped has made exactly k steps and
                                returns xs *)
From PV Require Export OMP.
From Coq Require Import List Arith Lia Bool.
Import ListNotations.
Local Open Scope R_scope.

Section Aux.
Variable F : OrdField.
Add Ring RrEx0 : (rth F).
Add Field FfEx0 : (fth F).
Notation vec := (list F).
Notation mat := (list (list F)).

Lemma dec0 (a : F) : a = 0 \/ a <> 0.
Proof. destruct (rleb F a 0) eqn:E1; destruct (rleb F 0 a) eqn:E2.
  - left. apply rle_antisym; apply rleb_spec; auto.
  - right. intros ->. assert (rleb F 0 0 = true) by (apply rleb_spec, rle_refl). congruence.
  - right. intros ->. assert (rleb F 0 0 = true) by (apply rleb_spec, rle_refl). congruence.
  - right. intros ->. assert (rleb F 0 0 = true) by (apply rleb_spec, rle_refl). congruence.
Qed.
Lemma rabs_zero : rabs F 0 = 0.
Proof. unfold rabs. assert (H : rleb F 0 0 = true) by (apply rleb_spec, rle_refl). rewrite H; auto. Qed.
Lemma rabs_le0 (a : F) : rle F (rabs F a) 0 -> a = 0.
Proof. unfold rabs. destruct (rleb F 0 a) eqn:E; intros H.
  - apply rle_antisym; auto. apply rleb_spec; auto.
  - exfalso. assert (H1 : rle F 0 a).
    { pose proof (rle_add F (- a) 0 a H) as H1. replace (- a + a) with (r0 F) in H1 by ring.
      replace (0 + a) with a in H1 by ring. exact H1. }
    apply rleb_spec in H1. congruence.
Qed.
Lemma div_one (a : F) : a / 1 = a.
Proof. field. apply (F_1_neq_0 (fth F)). Qed.
Lemma sq_zero (a : F) : a * a = 0 -> a = 0.
Proof. intros H. destruct (dec0 a) as [E|E]; auto.
  replace a with ((a * a) / a) by (field; auto). rewrite H. field; auto. Qed.

Lemma map_nth_seq (r : vec) : map (fun j => nth j r 0) (seq 0 (length r)) = r.
Proof. induction r as [|a r IH]; simpl; auto. f_equal.
  rewrite <- seq_shift, map_map. exact IH. Qed.
Lemma cols_mat_all n (A : mat) : wfM F n A -> cols_mat A (seq 0 n) = A.
Proof. intros W. unfold cols_mat. rewrite <- (map_id A) at 2. apply map_ext_in. intros r Hr.
  assert (length r = n) by (eapply Forall_forall in W; eauto). subst n. apply map_nth_seq. Qed.

(* <c, A[:,cs] d> = sum_k d_k <c, col cs_k> *)
Lemma dotu_mv_cols (A : mat) (c : vec) cs d : length c = length A ->
  dotu F c (mv F (cols_mat A cs) d) = dotu F (map (fun j => dotu F c (col F j A)) cs) d.
Proof. intros Hc. revert d. induction cs as [|j cs IH]; intros d.
  - rewrite mv_cols_nil. simpl. apply dotu_zeros_r.
  - destruct d as [|a d]; [rewrite mv_cols_dnil; simpl; apply dotu_zeros_r|].
    rewrite mv_cols_cons, dotu_vadd_r, dotu_vscale_r, IH.
    + simpl. ring.
    + rewrite vscale_length, col_length, mv_length. unfold cols_mat; rewrite map_length; auto.
Qed.

Lemma nth_vsub (u v : vec) j : length u = length v -> nth j (vsub F u v) 0 = nth j u 0 - nth j v 0.
Proof. revert v j; induction u as [|a u IH]; intros [|b v] [|j] H; simpl in *; try discriminate; try ring.
  apply IH; lia. Qed.
Lemma all_zero_zeros (v : vec) : (forall j, j < length v -> nth j v 0 = 0) -> v = zeros F (length v).
Proof. induction v as [|a v IH]; intros H; simpl; auto. unfold zeros in *; simpl. f_equal.
  - apply (H 0%nat); simpl; lia.
  - apply IH. intros j Hj. apply (H (S j)); simpl; lia. Qed.
Lemma sqn_zeros m : sqn (zeros F m) = 0.
Proof. unfold sqn. apply dotu_zeros_l. Qed.
Lemma sqn_zero_dot (u : vec) : sqn u = 0 -> forall c, dotu F c u = 0.
Proof. unfold sqn. induction u as [|a u IH]; intros H c; [destruct c; reflexivity|].
  simpl in H.
  assert (Ha : rle F 0 (a * a)) by apply omp_sq_nonneg.
  assert (Hu : rle F 0 (dotu F u u)) by apply (sqn_nonneg F u).
  assert (E1 : a * a = 0).
  { apply rle_antisym; auto. rewrite <- H.
    pose proof (rle_add F 0 (dotu F u u) (a * a) Hu) as H1.
    replace (0 + a * a) with (a * a) in H1 by ring.
    replace (dotu F u u + a * a) with (a * a + dotu F u u) in H1 by ring. exact H1. }
  assert (E2 : dotu F u u = 0) by (rewrite E1 in H; rewrite <- H; ring).
  apply sq_zero in E1. subst a. destruct c as [|x c]; simpl; auto. rewrite IH by auto. ring.
Qed.
End Aux.

(* ------------------------------------------------------------------ *)
Section Exact.
Variable F : OrdField.
Add Ring RrEx : (rth F).
Notation vec := (list F).
Notation mat := (list (list F)).

Variable nrm : vec -> F.
Variable n : nat.
Variable A : mat.
Variable xs : vec.                     (* the sparse vector to recover *)
Variable normalize : bool.
Variable niter_outer : nat.
Variable sigma : F.
Variable inner : list nat -> vec.
Variable S : list nat.                 (* support of xs *)

Notation y := (mv F A xs).
Notation stepo := (step_omp F nrm A y inner).
Notation traceo := (trace F nrm n A y normalize niter_outer sigma stepo).
Notation fin := (finalize F n).

Hypothesis Hwf : wfM F n A.
Hypothesis Hxs : length xs = n.
Hypothesis Horth : forall i j, i < n -> j < n ->
  dotu F (col F i A) (col F j A) = if Nat.eqb i j then 1 else 0.
Hypothesis HS : forall j, In j S <-> j < n /\ nth j xs 0 <> 0.
Hypothesis HSnd : NoDup S.
Hypothesis inner_length : forall cs, length (inner cs) = length cs.
Hypothesis inner_normal : forall cs, NoDup cs -> Forall (fun j => j < n) cs ->
  forall j, In j cs -> dotu F (col F j A) (vsub F y (mv F (cols_mat A cs) (inner cs))) = 0.
(* the only facts used about numpy.linalg.norm *)
Hypothesis nrm_zero : forall u, sqn u = 0 -> nrm u = 0.
Hypothesis nrm_one : forall u, sqn u = 1 -> nrm u = 1.
Hypothesis sigma_nonneg : rle F 0 sigma.

Lemma Hy : length y = length A.
Proof. apply mv_length. Qed.

(* <col_i, A x> = x_i *)
Lemma corr_mv i (x : vec) : i < n -> length x = n -> dotu F (col F i A) (mv F A x) = nth i x 0.
Proof. intros Hi Hx. rewrite <- (cols_mat_all F n A Hwf) at 2.
  rewrite dotu_mv_cols by apply col_length.
  rewrite (map_ext_in _ (fun j => if Nat.eqb j i then 1 else 0)).
  - change (map (fun j => if Nat.eqb j i then 1 else 0) (seq 0 n)) with (unit F n i).
    rewrite dotu_comm. apply dotu_unit; auto.
  - intros j Hj. apply in_seq in Hj. rewrite Horth by lia. rewrite Nat.eqb_sym. reflexivity.
Qed.

Lemma fin_length s : length (fin s) = n.
Proof. unfold finalize, scatter. rewrite scat_length. apply zeros_length. Qed.


(* ---- the oracle hypotheses are satisfiable for EVERY orthonormal dictionary:
   x_cols = (<col_j, y>)_{j in cols} solves the restricted normal equations ---- *)
Definition ortho_inner (cs : list nat) : vec := map (fun j => dotu F (col F j A) y) cs.
Lemma delta_sum_out j cs (c : nat -> F) : j < n -> Forall (fun k => k < n) cs -> ~ In j cs ->
  dotu F (map (fun k => dotu F (col F j A) (col F k A)) cs) (map c cs) = 0.
Proof. intros Hj Hf. induction cs as [|k cs IH]; intros Hn; simpl; auto.
  pose proof (Forall_inv Hf) as Hk. pose proof (Forall_inv_tail Hf) as Hf'. rewrite Horth by auto.
  destruct (Nat.eqb_spec j k) as [->|N]; [exfalso; apply Hn; left; auto|].
  rewrite IH by (auto; intros I; apply Hn; right; auto). ring. Qed.
Lemma delta_sum_in j cs (c : nat -> F) : j < n -> Forall (fun k => k < n) cs -> NoDup cs -> In j cs ->
  dotu F (map (fun k => dotu F (col F j A) (col F k A)) cs) (map c cs) = c j.
Proof. intros Hj Hf. induction cs as [|k cs IH]; intros Hn Hin; simpl; [destruct Hin|].
  pose proof (Forall_inv Hf) as Hk. pose proof (Forall_inv_tail Hf) as Hf'.
  apply NoDup_cons_iff in Hn. destruct Hn as [Hnk Hn']. rewrite Horth by auto.
  destruct (Nat.eqb_spec j k) as [->|N].
  - rewrite delta_sum_out by auto. ring.
  - destruct Hin as [E|Hin]; [congruence|]. rewrite IH by auto. ring. Qed.
Lemma ortho_inner_length cs : length (ortho_inner cs) = length cs.
Proof. apply map_length. Qed.
Lemma ortho_inner_normal cs : NoDup cs -> Forall (fun j => j < n) cs -> forall j, In j cs ->
  dotu F (col F j A) (vsub F y (mv F (cols_mat A cs) (ortho_inner cs))) = 0.
Proof. intros Hn Hf j Hj.
  assert (Hjn : j < n) by (eapply Forall_forall in Hf; eauto).
  rewrite dotu_vsub_r by (rewrite !mv_length; unfold cols_mat; rewrite map_length; auto).
  rewrite dotu_mv_cols by apply col_length. unfold ortho_inner.
  rewrite (delta_sum_in j cs (fun k => dotu F (col F k A) y)) by auto. ring. Qed.

(* ---- consequences of the local invariant of OMP.v ---- *)
Lemma res_formula s : Inv F n A y s -> res F s = mv F A (vsub F xs (fin s)).
Proof. intros HI. rewrite (Inv_res_resid F n A y Hwf s HI). unfold resid.
  rewrite mv_vsub; auto. rewrite fin_length; auto. Qed.
Lemma cres_formula s j : Inv F n A y s -> j < n -> cres F A s j = nth j xs 0 - nth j (fin s) 0.
Proof. intros HI Hj. unfold cres. rewrite res_formula by auto.
  rewrite corr_mv; auto.
  - apply nth_vsub. rewrite fin_length; auto.
  - rewrite vsub_length, fin_length, Hxs. lia. Qed.
Lemma fin_off s j : ~ In j (cols F s) -> nth j (fin s) 0 = 0.
Proof. intros H. unfold finalize, scatter. rewrite nth_scat_notin by auto. apply nth_zeros. Qed.
Lemma cres_on s j : Inv F n A y s -> In j (cols F s) -> cres F A s j = 0.
Proof. intros (_ & _ & _ & _ & Ho & _) Hj. apply Ho; auto. Qed.
Lemma cols_lt s j : Inv F n A y s -> In j (cols F s) -> j < n.
Proof. intros (_ & Hf & _) Hj. eapply Forall_forall in Hf; eauto. Qed.

(* correlation formula, coefficients on the selected columns, residual *)
Theorem omp_orthonormal_corr s : Inv F n A y s ->
  (forall j, j < n -> cres F A s j = if in_dec Nat.eq_dec j (cols F s) then 0 else nth j xs 0) /\
  (forall j, j < n -> nth j (fin s) 0 = if in_dec Nat.eq_dec j (cols F s) then nth j xs 0 else 0) /\
  res F s = mv F A (vsub F xs (fin s)).
Proof. intros HI. split; [|split].
  - intros j Hj. destruct (in_dec Nat.eq_dec j (cols F s)) as [I|I].
    + apply cres_on; auto.
    + rewrite cres_formula, fin_off by auto. ring.
  - intros j Hj. destruct (in_dec Nat.eq_dec j (cols F s)) as [I|I].
    + pose proof (cres_on s j HI I) as H. rewrite cres_formula in H by auto.
      replace (nth j (fin s) 0) with (nth j xs 0 - (nth j xs 0 - nth j (fin s) 0)) by ring. rewrite H. ring.
    + apply fin_off; auto.
  - apply res_formula; auto.
Qed.

Lemma score_abs s j : j < n -> score F nrm n A normalize s j = rabs F (cres F A s j).
Proof. intros Hj. unfold score. destruct normalize; auto.
  assert (E : nth j (norms F nrm n A) 0 = 1).
  { unfold norms. rewrite (nth_map_dflt _ _ j 0 0%nat) by (rewrite seq_length; auto).
    rewrite seq_nth by auto. simpl. rewrite (mv_unit F n A j Hwf Hj).
    apply nrm_one. unfold sqn. rewrite Horth by auto. rewrite Nat.eqb_refl. reflexivity. }
  rewrite E. apply div_one. Qed.

(* the state-level invariant carried along runs *)
Definition J (s : state F) : Prop :=
  Inv F n A y s /\ nth (iiter F s) (cost F s) 0 = nrm (res F s) /\
  incl (cols F s) S /\ length (cols F s) = iiter F s.

(* one step: every admissible choice is a NEW column of the support, of
   maximal modulus among the columns not yet selected *)
Theorem omp_orthonormal_step s i : J s -> guard F niter_outer sigma s ->
  is_argmax F nrm n A normalize s i ->
  In i S /\ ~ In i (cols F s) /\
  (forall j, j < n -> ~ In j (cols F s) -> rle F (rabs F (nth j xs 0)) (rabs F (nth i xs 0))).
Proof. intros (HI & Hc & Hin & Hl) [_ Hg] [Hi Hmax].
  assert (Hne : cres F A s i <> 0).
  { intros E0.
    assert (Hall : forall j, j < n -> cres F A s j = 0).
    { intros j Hj. apply rabs_le0. specialize (Hmax j Hj).
      rewrite !score_abs in Hmax by auto. rewrite E0, rabs_zero in Hmax. exact Hmax. }
    assert (Hz : vsub F xs (fin s) = zeros F n).
    { assert (L : length (vsub F xs (fin s)) = n) by (rewrite vsub_length, fin_length, Hxs; lia).
      rewrite <- L at 2. apply all_zero_zeros. intros j Hj. rewrite L in Hj.
      rewrite nth_vsub by (rewrite fin_length; auto). rewrite <- cres_formula by auto. auto. }
    assert (Hr : sqn (res F s) = 0) by (rewrite res_formula, Hz, mv_zeros by auto; apply sqn_zeros).
    rewrite Hc, (nrm_zero _ Hr) in Hg.
    apply rleb_spec in sigma_nonneg. congruence. }
  assert (Hnew : ~ In i (cols F s)) by (intros I; apply Hne, cres_on; auto).
  assert (Ei : cres F A s i = nth i xs 0) by (rewrite cres_formula, fin_off by auto; ring).
  split; [|split; auto].
  - apply HS. split; auto. rewrite <- Ei; auto.
  - intros j Hj Hjn. specialize (Hmax j Hj). rewrite !score_abs in Hmax by auto.
    rewrite Ei in Hmax. rewrite cres_formula, fin_off in Hmax by auto.
    replace (nth j xs 0 - 0) with (nth j xs 0) in Hmax by ring. exact Hmax.
Qed.

Lemma J_setup : J (setup F nrm y).
Proof. split; [apply Inv_setup, Hy|]. cbn. split; auto. split; auto. intros j []. Qed.

Lemma J_step s i : J s -> guard F niter_outer sigma s -> is_argmax F nrm n A normalize s i -> J (stepo s i).
Proof. intros HJ Hg Ha. destruct (omp_orthonormal_step s i HJ Hg Ha) as (HiS & Hnew & _).
  destruct HJ as (HI & Hc & Hin & Hl).
  assert (HI' : Inv F n A y (stepo s i)) by (apply Inv_step; auto using Hy; apply Ha).
  split; auto.
  assert (Em : mem i (cols F s) = false).
  { unfold mem. destruct (existsb (Nat.eqb i) (cols F s)) eqn:E; auto.
    apply existsb_exists in E. destruct E as (j & Hj & Ej). apply Nat.eqb_eq in Ej. subst j. tauto. }
  unfold step_omp; cbn [cols cost iiter res]. rewrite Em. split; [|split].
  - destruct HI as (_ & _ & _ & _ & _ & Hlc). rewrite app_nth2 by lia.
    rewrite Hlc, Nat.sub_diag. reflexivity.
  - intros j Hj. apply in_app_or in Hj. destruct Hj as [Hj|[<-|[]]]; auto.
  - rewrite app_length, Hl. simpl. lia.
Qed.

Theorem omp_orthonormal_invariant tr : traceo tr -> Forall J tr.
Proof. induction 1 as [|s tr i Ht IH Hg Ha].
  - constructor; auto using J_setup.
  - constructor; auto. inversion IH; subst. apply J_step; auto. Qed.

(* along a run: every admissible selection is a new column of the support *)
Theorem omp_orthonormal_select s tr i : traceo (s :: tr) -> guard F niter_outer sigma s ->
  is_argmax F nrm n A normalize s i ->
  In i S /\ ~ In i (cols F s) /\
  (forall j, j < n -> ~ In j (cols F s) -> rle F (rabs F (nth j xs 0)) (rabs F (nth i xs 0))).
Proof. intros Ht. pose proof (Forall_inv (omp_orthonormal_invariant _ Ht)) as HJ.
  apply omp_orthonormal_step; auto. Qed.

Lemma xs_off_S j : j < n -> ~ In j S -> nth j xs 0 = 0.
Proof. intros Hj Hn. destruct (dec0 F (nth j xs 0)) as [E|E]; auto. exfalso. apply Hn, HS. auto. Qed.

Lemma covered_exact s : J s -> incl S (cols F s) -> fin s = xs /\ res F s = zeros F (length A).
Proof. intros (HI & _ & Hin & _) Hcov.
  assert (E : fin s = xs).
  { apply (nth_ext _ _ 0 0); [rewrite fin_length; auto|]. intros j Hj. rewrite fin_length in Hj.
    destruct (omp_orthonormal_corr s HI) as (_ & Hf & _). rewrite Hf by auto.
    destruct (in_dec Nat.eq_dec j (cols F s)) as [I|I]; auto.
    symmetry. apply xs_off_S; auto. }
  split; auto. rewrite res_formula, E by auto. rewrite vsub_self, mv_zeros. reflexivity.
Qed.

(* never more than k = |S| steps; after k steps the vector is recovered exactly *)
Theorem omp_orthonormal_exact s tr : traceo (s :: tr) ->
  iiter F s = length tr /\ (iiter F s <= length S)%nat /\
  (iiter F s = length S -> fin s = xs /\ res F s = zeros F (length A)).
Proof. intros Ht. pose proof (omp_orthonormal_invariant _ Ht) as HJ. inversion HJ as [|? ? HJs _]; subst.
  assert (Hnd : NoDup (cols F s)) by apply HJs.
  destruct HJs as (HI & Hc & Hin & Hl).
  split; [|split].
  - destruct (omp_cost_truthful F nrm n A y normalize niter_outer sigma inner Hwf Hy inner_length inner_normal s tr Ht); auto.
  - rewrite <- Hl. apply NoDup_incl_length; auto.
  - intros E. apply covered_exact; [exact (Logic.conj HI (Logic.conj Hc (Logic.conj Hin Hl)))|].
    apply NoDup_length_incl; auto. lia.
Qed.

(* a run that has stopped (sigma = 0, enough outer iterations) made exactly k steps *)
Hypothesis nrm_def : forall u, rle F (nrm u) 0 -> sqn u = 0.
Theorem omp_orthonormal_terminates s tr : sigma = 0 -> (length S <= niter_outer)%nat ->
  traceo (s :: tr) -> ~ guard F niter_outer sigma s ->
  iiter F s = length S /\ length tr = length S /\ fin s = xs /\ res F s = zeros F (length A).
Proof. intros Hs0 Hk Ht Hng.
  destruct (omp_orthonormal_exact s tr Ht) as (E1 & E2 & E3).
  pose proof (omp_orthonormal_invariant _ Ht) as HJ. inversion HJ as [|? ? HJs _]; subst.
  assert (Hnd : NoDup (cols F s)) by apply HJs.
  assert (Ek : iiter F s = length S).
  { destruct (Nat.eq_dec (iiter F s) (length S)) as [E|E]; auto. exfalso.
    destruct HJs as (HI & Hc & Hin & Hl).
    assert (Hr : sqn (res F s) = 0).
    { apply nrm_def. apply rleb_spec. rewrite <- Hc.
      destruct (rleb F (nth (iiter F s) (cost F s) 0) 0) eqn:Eg; auto.
      exfalso. apply Hng. split; [lia | first [rewrite Hs0; assumption | assumption]]. }
    assert (Hcov : incl S (cols F s)).
    { intros j Hj. destruct (in_dec Nat.eq_dec j (cols F s)) as [I|I]; auto. exfalso.
      apply HS in Hj. destruct Hj as [Hj Hnz]. apply Hnz.
      replace (nth j xs 0) with (cres F A s j) by (rewrite cres_formula, fin_off by auto; ring).
      unfold cres. apply sqn_zero_dot; auto. }
    assert ((length S <= length (cols F s))%nat) by (apply NoDup_incl_length; auto). lia. }
  split; auto. split; [lia|]. apply E3; auto.
Qed.
End Exact.
