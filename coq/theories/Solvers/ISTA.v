(* ISTA.v — model of pylops.optimization.cls_sparsity.ISTA / FISTA (soft
   thresholding, SOp = None, decay = 1), real case, on a totally ordered field:

     setup:  thresh = eps * alpha * 0.5
     step :  res = y - Op x ; grad = alpha * Op^H res ; x <- soft (x + grad) thresh
     FISTA:  x' = soft (z + alpha Op^H (y - Op z)) thresh ; z' = x' + ((told-1)/t) (x' - x)

   and the theorems: monotone descent of  F x = ||y - A x||^2 + eps ||x||_1
   from ANY x when  alpha ||A d||^2 <= ||d||^2  (i.e. alpha <= 1/lambda_max),
   fixed points = KKT points, KKT points are global minimisers, two KKT
   points have the same objective value. *)
From PV Require Export Thresh.
Local Open Scope R_scope.
Set Warnings "-notation-overridden".

Section ISTA.
Variable F : OrdField.
Add Ring Fr2 : (rth F).
Add Field Ff2 : (fth F).
Notation K := (car F).
Notation vec := (list K).
Notation mat := (list (list K)).
Local Notation "a <= b" := (rle F a b) : R_scope.
Local Notation rabs := (rabs F).
Local Notation rsgn := (rsgn F).
Local Notation two := (two F).
Local Notation half := (half F).
Local Notation rlt := (rlt F).
Local Notation nrm2 := (nrm2 F).
Local Notation l1 := (l1 F).
Local Notation vadd := (vadd F).
Local Notation vsub := (vsub F).
Local Notation vscale := (vscale F).
Local Notation mv := (mv F).
Local Notation mvT := (mvT F).
Local Notation dotu := (dotu F).
Local Notation soft := (soft F).
Ltac rng := unfold OrdLemmas.two; ring.

Variable n : nat.           (* number of columns of A = length of the model vector *)

Definition grad (A : mat) (y x : vec) : vec := mvT n A (vsub y (mv A x)).
Definition thresh (eps alpha : K) : K := eps * alpha * half.
Definition step (A : mat) (y : vec) (alpha eps : K) (x : vec) : vec :=
  map (fun u => soft u (thresh eps alpha)) (vadd x (vscale alpha (grad A y x))).
Definition obj (A : mat) (y : vec) (eps : K) (x : vec) : K :=
  nrm2 (vsub y (mv A x)) + eps * l1 x.
(* iterates x_1 .. x_k (what the callback sees) *)
Fixpoint ista_run (k : nat) (A : mat) (y : vec) (alpha eps : K) (x : vec) : list vec :=
  match k with O => [] | S k' => let x' := step A y alpha eps x in x' :: ista_run k' A y alpha eps x' end.
(* FISTA: momentum coefficients beta_k = (t_k - 1)/t_{k+1} supplied as a list *)
Definition fista_step (A : mat) (y : vec) (alpha eps beta : K) (xz : vec * vec) : vec * vec :=
  let x' := step A y alpha eps (snd xz) in (x', vadd x' (vscale beta (vsub x' (fst xz)))).
Fixpoint fista_run (betas : list K) (A : mat) (y : vec) (alpha eps : K) (xz : vec * vec) : list vec :=
  match betas with [] => [] | b :: bs => let xz' := fista_step A y alpha eps b xz in fst xz' :: fista_run bs A y alpha eps xz' end.

(* ---- vector identities ---- *)
Lemma vadd_vsub_cancel (x p : vec) : length x = length p -> vadd x (vsub p x) = p.
Proof. revert p; induction x as [|a x IH]; intros [|b p] H; simpl in *; try discriminate; auto.
  unfold Vec.vadd, Vec.vsub in *; simpl. rewrite IH by lia. f_equal; ring. Qed.
Lemma vsub_vadd_r (p x w : vec) : vsub p (vadd x w) = vsub (vsub p x) w.
Proof. revert x w; induction p as [|a p IH]; intros [|b x] [|c w]; simpl; auto.
  unfold Vec.vadd, Vec.vsub in *; simpl. rewrite IH. f_equal; ring. Qed.
Lemma nrm2_shift (x w : vec) : length x = length w -> nrm2 (vsub x (vadd x w)) = nrm2 w.
Proof. unfold OrdLemmas.nrm2. revert w; induction x as [|a x IH]; intros [|b w] H; simpl in *; try discriminate; auto.
  unfold Vec.vadd, Vec.vsub in *; simpl. rewrite IH by lia. ring. Qed.
Lemma vsub_length' (a b : vec) : length a = length b -> length (vsub a b) = length a.
Proof. intros H. rewrite vsub_length. lia. Qed.

(* prox optimality summed over the components *)
Lemma prox_sum t (u z : vec) : 0 <= t -> length z = length u ->
  nrm2 (vsub (map (fun a => soft a t) u) u) + two * t * l1 (map (fun a => soft a t) u)
  <= nrm2 (vsub z u) + two * t * l1 z.
Proof. intros Ht. unfold OrdLemmas.nrm2, OrdLemmas.l1. revert z; induction u as [|a u IH]; intros [|b z] H; simpl in *; try discriminate.
  - apply rle_refl.
  - specialize (IH z ltac:(lia)). pose proof (soft_is_prox2 F a t Ht b) as P.
    unfold Vec.vsub in *; simpl.
    set (S2 := Dot.dotu F (map2 (rsub F) z u) (map2 (rsub F) z u)) in IH |- *. set (S1 := Dot.dotu F _ _) in IH |- *.
    set (L2 := Vec.vsum F (map rabs z)) in IH |- *. set (L1 := Vec.vsum F _) in IH |- *.
    replace ((soft a t - a) * (soft a t - a) + S1 + two * t * (rabs (soft a t) + L1))
      with (((soft a t - a) * (soft a t - a) + two * t * rabs (soft a t)) + (S1 + two * t * L1)) by ring.
    replace ((b - a) * (b - a) + S2 + two * t * (rabs b + L2))
      with (((b - a) * (b - a) + two * t * rabs b) + (S2 + two * t * L2)) by ring.
    apply le_add_mono; auto.
Qed.

Section Problem.
Variables (A : mat) (y : vec).
Hypothesis WA : wfM F n A.
Hypothesis Ly : length y = length A.

Lemma grad_length x : length (grad A y x) = n.
Proof. unfold grad. apply mvT_length; auto. Qed.
Lemma step_length alpha eps x : length x = n -> length (step A y alpha eps x) = n.
Proof. intros H. unfold step. rewrite map_length, vadd_length, vscale_length, grad_length. lia. Qed.
Lemma res_length x : length (vsub y (mv A x)) = length A.
Proof. rewrite vsub_length, mv_length. lia. Qed.

(* ||y - A(x + d)||^2 = ||r||^2 - 2 <d, A^T r> + ||A d||^2 *)
Lemma quad_expand x p : length x = n -> length p = n ->
  nrm2 (vsub y (mv A p)) =
  nrm2 (vsub y (mv A x)) - two * dotu (vsub p x) (grad A y x) + nrm2 (mv A (vsub p x)).
Proof. intros Hx Hp. set (d := vsub p x). assert (Hd : length d = n) by (unfold d; rewrite vsub_length; lia).
  assert (E : p = vadd x d) by (unfold d; symmetry; apply vadd_vsub_cancel; lia).
  rewrite E at 1. rewrite mv_vadd by lia. rewrite vsub_vadd_r.
  rewrite nrm2_vsub by (rewrite res_length, mv_length; auto).
  rewrite (dotu_comm F (vsub y (mv A x))). unfold grad.
  rewrite (dotu_mv_mvT F n A d) by (auto; rewrite res_length; auto). reflexivity. Qed.

(* ------------------------------------------------------------ descent *)
Theorem ista_descent alpha eps x :
  length x = n -> 0 <= eps -> rlt 0 alpha ->
  (forall d, length d = n -> alpha * nrm2 (mv A d) <= nrm2 d) ->
  obj A y eps (step A y alpha eps x) <= obj A y eps x.
Proof. intros Hx He Ha Hmaj.
  set (g := grad A y x). set (p := step A y alpha eps x). set (d := vsub p x).
  assert (Hg : length g = n) by apply grad_length.
  assert (Hp : length p = n) by (apply step_length; auto).
  assert (Hd : length d = n) by (unfold d; rewrite vsub_length; lia).
  set (t := thresh eps alpha).
  assert (Ht : 0 <= t). { unfold t, thresh. apply nn_mul. apply nn_mul; auto. apply lt_le; auto. apply half_nn. }
  assert (Et : two * t = eps * alpha).
  { unfold t, thresh. transitivity (eps * alpha * (two * half)); [ring | rewrite two_half; ring]. }
  set (w := vscale alpha g). set (u := vadd x w).
  assert (Hw : length w = n) by (unfold w; rewrite vscale_length; auto).
  assert (Hu : length u = n) by (unfold u; rewrite vadd_length; lia).
  (* prox optimality against z := x *)
  pose proof (prox_sum t u x Ht ltac:(lia)) as P. fold (step A y alpha eps x) in P.
  change (map (fun a => soft a t) u) with p in P.
  assert (E3 : nrm2 (vsub p u) = nrm2 d - two * (alpha * dotu d g) + alpha * alpha * nrm2 g).
  { unfold u. rewrite vsub_vadd_r. fold d. rewrite nrm2_vsub by lia. unfold w.
    rewrite dotu_vscale_r, nrm2_vscale. ring. }
  assert (E4 : nrm2 (vsub x u) = alpha * alpha * nrm2 g).
  { unfold u. rewrite nrm2_shift by lia. unfold w. apply nrm2_vscale. }
  rewrite E3, E4 in P.
  pose proof (Hmaj d Hd) as M.
  unfold obj. fold p. rewrite (quad_expand x p Hx Hp). fold d g.
  apply (mul_cancel_le F alpha); auto.
  set (R2 := nrm2 (vsub y (mv A x))) in *. set (GD := dotu d g) in *. set (AD := nrm2 (mv A d)) in *.
  set (DD := nrm2 d) in *. set (GG := nrm2 g) in *. set (Lp := l1 p) in *. set (Lx := l1 x) in *.
  replace (two * t * Lp) with (eps * alpha * Lp) in P by (rewrite <- Et; ring).
  replace (two * t * Lx) with (eps * alpha * Lx) in P by (rewrite <- Et; ring).
  apply le_sub.
  replace (alpha * (R2 + eps * Lx) - alpha * (R2 - two * GD + AD + eps * Lp))
    with ((DD - alpha * AD) +
          (alpha * alpha * GG + eps * alpha * Lx - (DD - two * (alpha * GD) + alpha * alpha * GG + eps * alpha * Lp))) by ring.
  apply nn_add; apply sub_le; auto.
Qed.

(* descent along the whole run, from any starting point *)
Corollary ista_run_monotone alpha eps : 0 <= eps -> rlt 0 alpha ->
  (forall d, length d = n -> alpha * nrm2 (mv A d) <= nrm2 d) ->
  forall k x, length x = n ->
  forall xk, In xk (ista_run k A y alpha eps x) -> obj A y eps xk <= obj A y eps x.
Proof. intros He Ha Hmaj. induction k as [|k IH]; intros x Hx xk; simpl. tauto.
  intros [<-|H]. apply ista_descent; auto.
  apply (rle_trans F _ (obj A y eps (step A y alpha eps x))).
  - apply (IH (step A y alpha eps x)); auto. apply step_length; auto.
  - apply ista_descent; auto. Qed.

(* ------------------------------------------------------------ KKT *)
Definition kkt_at (eps xi gi : K) : Prop :=
  (xi = 0 -> rabs gi <= eps * half) /\ (xi <> 0 -> gi = eps * half * rsgn xi).
Definition kkt (eps : K) (x : vec) : Prop := Forall2 (kkt_at eps) x (grad A y x).

Lemma rabs_mul_nn a b : 0 <= a -> rabs (a * b) = a * rabs b.
Proof. intros Ha. destruct (rle_total F 0 b) as [H|H].
  - rewrite !rabs_pos; auto. apply nn_mul; auto.
  - rewrite !rabs_neg; auto. ring. apply le_sub. replace (0 - a * b) with (a * (0 - b)) by ring.
    apply nn_mul; auto. apply sub_le; auto. Qed.

Lemma fix_comp alpha eps xi gi : 0 <= eps -> rlt 0 alpha ->
  (soft (xi + alpha * gi) (thresh eps alpha) = xi <-> kkt_at eps xi gi).
Proof. intros He [Ha Na]. assert (Na' : alpha <> 0) by (intros E; apply Na; auto).
  assert (Ht : 0 <= thresh eps alpha). { unfold thresh. apply nn_mul. apply nn_mul; auto. apply half_nn. }
  rewrite soft_fix by auto. unfold kkt_at, thresh. rewrite rabs_mul_nn by auto.
  split; intros [H0 H1]; split; intros H.
  - specialize (H0 H). apply (mul_cancel_le F alpha). split; auto.
    replace (alpha * (eps * half)) with (eps * alpha * half) by ring; auto.
  - specialize (H1 H). transitivity (rinv F alpha * (alpha * gi)). field; auto. rewrite H1. field; auto.
  - specialize (H0 H). replace (eps * alpha * half) with (alpha * (eps * half)) by ring. apply mul_le_l; auto.
  - rewrite (H1 H). ring.
Qed.

Lemma fix_list alpha eps (x g : vec) : 0 <= eps -> rlt 0 alpha -> length x = length g ->
  (map (fun u => soft u (thresh eps alpha)) (vadd x (vscale alpha g)) = x <-> Forall2 (kkt_at eps) x g).
Proof. intros He Ha. revert g; induction x as [|a x IH]; intros [|b g] H; simpl in *; try discriminate.
  - split; auto.
  - unfold Vec.vadd, Vec.vscale in *; simpl. split.
    + intros E. injection E as E1 E2. constructor. apply fix_comp in E1; auto. apply IH; auto.
    + intros E. inversion E; subst. f_equal. apply fix_comp; auto. apply IH; auto.
Qed.

Theorem ista_fixed_point_kkt alpha eps x : length x = n -> 0 <= eps -> rlt 0 alpha ->
  (step A y alpha eps x = x <-> kkt eps x).
Proof. intros Hx He Ha. unfold step, kkt. apply fix_list; auto. rewrite grad_length; auto. Qed.

(* per-component subgradient inequality, summed *)
Lemma kkt_sum eps (x g z : vec) : 0 <= eps -> Forall2 (kkt_at eps) x g -> length z = length x ->
  0 <= eps * (l1 z - l1 x) - two * dotu (vsub z x) g.
Proof. intros He H. unfold OrdLemmas.l1. revert z; induction H as [|a b x g Hab H IH]; intros [|c z] Hz; simpl in *; try discriminate.
  - replace (eps * (0 - 0) - two * 0) with (r0 F) by ring. apply rle_refl.
  - specialize (IH z ltac:(lia)). unfold Vec.vsub in *; simpl.
    set (D := Dot.dotu F _ _) in IH |- *. set (Lz := Vec.vsum F (map rabs z)) in IH |- *. set (Lx := Vec.vsum F (map rabs x)) in IH |- *.
    set (e2 := eps * half). assert (He2 : 0 <= e2) by (apply nn_mul; auto; apply half_nn).
    assert (Ee : eps = two * e2). { unfold e2. transitivity (eps * (two * half)); [rewrite two_half; ring | ring]. }
    replace (eps * (rabs c + Lz - (rabs a + Lx)) - two * ((c - a) * b + D))
      with ((eps * (rabs c - rabs a) - two * ((c - a) * b)) + (eps * (Lz - Lx) - two * D)) by ring.
    apply nn_add; auto. destruct Hab as [H0 H1]. fold e2 in H0, H1.
    destruct (trichotomy F a) as [L|[E|L]].
    + assert (Na : a <> 0) by (destruct L; auto). rewrite (H1 Na), rsgn_neg by auto.
      rewrite (rabs_neg F a) by (apply lt_le; auto). rewrite Ee.
      replace (two * e2 * (rabs c - - a) - two * ((c - a) * (e2 * - (1)))) with (two * (e2 * (rabs c - - c))) by ring.
      apply nn_mul; [apply two_nn|apply nn_mul; auto]. apply sub_le, rabs_ge_opp.
    + subst a. specialize (H0 eq_refl). rewrite rabs_0. rewrite Ee.
      replace (two * e2 * (rabs c - 0) - two * ((c - 0) * b))
        with (two * ((e2 - rabs b) * rabs c + (rabs c * rabs b - c * b))) by ring.
      apply nn_mul; [apply two_nn|]. apply nn_add. apply nn_mul. apply sub_le; auto. apply rabs_nn.
      apply sub_le, mul_le_abs.
    + assert (Na : a <> 0) by (destruct L as [_ N]; intros E; apply N; auto). rewrite (H1 Na), rsgn_pos by auto.
      rewrite (rabs_pos F a) by (apply lt_le; auto). rewrite Ee.
      replace (two * e2 * (rabs c - a) - two * ((c - a) * (e2 * 1))) with (two * (e2 * (rabs c - c))) by ring.
      apply nn_mul; [apply two_nn|apply nn_mul; auto]. apply sub_le, rabs_ge.
Qed.

(* a KKT point minimises the objective over ALL vectors (no step-size needed) *)
Theorem kkt_global_min eps x : length x = n -> 0 <= eps -> kkt eps x ->
  forall z, length z = n -> obj A y eps x <= obj A y eps z.
Proof. intros Hx He Hk z Hz. unfold obj. rewrite (quad_expand x z Hx Hz).
  pose proof (kkt_sum eps x (grad A y x) z He Hk ltac:(lia)) as S.
  pose proof (nrm2_nn F (mv A (vsub z x))) as Q.
  set (R2 := nrm2 (vsub y (mv A x))) in *. set (GD := dotu (vsub z x) (grad A y x)) in *.
  set (AD := nrm2 (mv A (vsub z x))) in *.
  apply le_sub.
  replace (R2 - two * GD + AD + eps * l1 z - (R2 + eps * l1 x)) with (AD + (eps * (l1 z - l1 x) - two * GD)) by ring.
  apply nn_add; auto.
Qed.

(* hence any two KKT points (e.g. the limits of ISTA and of FISTA) have the same objective value *)
Theorem kkt_same_objective eps x x' : length x = n -> length x' = n -> 0 <= eps ->
  kkt eps x -> kkt eps x' -> obj A y eps x = obj A y eps x'.
Proof. intros. apply (rle_antisym F); apply kkt_global_min; auto. Qed.

(* FISTA: the new x is an ISTA step taken from the extrapolated point z, and a
   stationary pair (x, x) is exactly a KKT point *)
Lemma fista_step_fst alpha eps beta xz : fst (fista_step A y alpha eps beta xz) = step A y alpha eps (snd xz).
Proof. reflexivity. Qed.
Lemma vadd_vscale_self (x : vec) beta : vadd x (vscale beta (vsub x x)) = x.
Proof. induction x as [|a x IH]; simpl; auto. unfold Vec.vadd, Vec.vscale, Vec.vsub in *; simpl. rewrite IH. f_equal; ring. Qed.
Theorem fista_stationary_kkt alpha eps beta x : length x = n -> 0 <= eps -> rlt 0 alpha ->
  (fista_step A y alpha eps beta (x, x) = (x, x) <-> kkt eps x).
Proof. intros Hx He Ha. rewrite <- (ista_fixed_point_kkt alpha eps x Hx He Ha). unfold fista_step; cbn [fst snd]. split.
  - intros E. injection E as E1 _. exact E1.
  - intros E. rewrite E. f_equal. apply vadd_vscale_self. Qed.
End Problem.
End ISTA.
