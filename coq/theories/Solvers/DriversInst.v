(* DriversInst.v — concrete instances of the generic machine of Drivers.v over
   the exact rationals: CG (persistent: all state on self), ISTA (stopping
   quantity xupdate is a local of run), FISTA (the extrapolated point z AND
   xupdate are locals of run, the momentum t is a field of self).
   Transcribed from cls_basic.CG.setup/step/run and
   cls_sparsity.ISTA/FISTA.setup/step/run (real dtype, threshkind="soft",
   decay = ones, SOp = None, monitorres = False, alpha given). *)
From Coq Require Import QArith Qcanon Qround List Arith Lia Bool.
From PV Require Import Dict Vec Dot Mat QcInst Drivers.
Import ListNotations.
Local Open Scope Qc_scope.

Notation vec := (list Qc).
Notation mat := (list (list Qc)).
Definition vadd' := vadd QcR. Definition vsub' := vsub QcR. Definition vscale' := vscale QcR.
Definition dot' := dotu QcR.
Definition Qcabs1 (a : Qc) : Qc := if Qcleb 0 a then a else - a.
Definition half : Qc := Q2Qc (1 # 2).
Definition Qcltb (a b : Qc) : bool := negb (Qcleb b a).

(* ------------------------------------------------------------------ CG *)
Record cgP := { cx : vec; cr : vec; cc : vec; ckold : Qc; ci : nat; ccost2 : list Qc (* cost[i]^2 = kold_i *) }.

Section CG.
  Variables (A : mat) (tol : Qc).
  (* setup(y, x0): x = x0.copy(); r = y - Op x; c = r.copy(); kold = |r.r| *)
  Definition cg_setup (y x0 : vec) : cgP :=
    let r := vsub' y (mv QcR A x0) in
    {| cx := x0; cr := r; cc := r; ckold := Qcabs1 (dot' r r); ci := 0; ccost2 := [Qcabs1 (dot' r r)] |}.
  Definition cg_step (pl : cgP * Datatypes.unit) : cgP * Datatypes.unit :=
    let p := fst pl in
    let Opc := mv QcR A (cc p) in
    let cOpc := Qcabs1 (dot' (cc p) Opc) in
    let a := ckold p / cOpc in
    let x := vadd' (cx p) (vscale' a (cc p)) in
    let r := vsub' (cr p) (vscale' a Opc) in
    let k := Qcabs1 (dot' r r) in
    let b := k / ckold p in
    ({| cx := x; cr := r; cc := vadd' r (vscale' b (cc p)); ckold := k; ci := S (ci p); ccost2 := ccost2 p ++ [k] |}, tt).
  (* while self.iiter < niter and self.kold > self.tol *)
  Definition cg_solver : solver cgP Datatypes.unit.
  Proof.
    refine {| step := cg_step; iiter := ci; ok := fun pl => Qcltb tol (ckold (fst pl)); linit := fun _ => tt |}.
    intros [p []]. reflexivity.
  Defined.
End CG.

(* ---------------------------------------------------------------- ISTA *)
Definition soft (th : Qc) (a : Qc) : Qc :=
  let m := Qcabs1 a - th in
  let m' := if Qcleb 0 m then m else 0 in
  if Qcleb 0 a then (if Qcleb a 0 then 0 else m') else - m'.
Definition norm1 (v : vec) : Qc := fold_right (fun a s => Qcabs1 a + s) 0 v.

Record isP := { ix : vec; it : Qc; ii : nat; icost : list Qc }.

Section ISTA.
  Variables (A : mat) (ncols : nat) (y : vec) (alpha eps tol : Qc) (sq : Qc -> Qc).
  Definition thresh : Qc := eps * alpha * half.
  Definition is_setup (x0 : vec) : isP := {| ix := x0; it := 1; ii := 0; icost := [] |}.

  (* ISTA: locals = xupdate^2 (None = inf) *)
  Definition ista_step (pl : isP * option Qc) : isP * option Qc :=
    let p := fst pl in
    let res := vsub' y (mv QcR A (ix p)) in
    let grad := vscale' alpha (mvT QcR ncols A res) in
    let x := map (soft thresh) (vadd' (ix p) grad) in
    let d := vsub' x (ix p) in
    ({| ix := x; it := it p; ii := S (ii p); icost := icost p ++ [half * dot' res res + eps * norm1 x] |},
     Some (dot' d d)).
  (* xupdate > tol, with xupdate = inf at the entry of run *)
  Definition upd_ok (u : option Qc) : bool := match u with None => true | Some u2 => Qcltb (tol * tol) u2 end.
  Definition ista_solver : solver isP (option Qc).
  Proof.
    refine {| step := ista_step; iiter := ii; ok := fun pl => upd_ok (snd pl); linit := fun _ => None |}.
    intros [p l]. reflexivity.
  Defined.

  Lemma ista_step_blind p l l' : step ista_solver (p, l) = step ista_solver (p, l').
  Proof. reflexivity. Qed.
  Lemma ista_ok_fresh p : ok ista_solver (enter ista_solver p) = true.
  Proof. reflexivity. Qed.

  (* instalments of ISTA agree with one run iff the earlier instalment was
     ended by its budget (xupdate is re-set to inf by every call of run) *)
  Theorem ista_run_split j n p : (j <= n)%nat -> ok ista_solver (runL ista_solver j (enter ista_solver p)) = true ->
    run ista_solver n (run ista_solver j p) = run ista_solver n p.
  Proof. apply run_split_local; [exact ista_step_blind|exact ista_ok_fresh]. Qed.

  (* FISTA: locals = (z, xupdate^2); t lives on self *)
  Definition fista_step (pl : isP * (vec * option Qc)) : isP * (vec * option Qc) :=
    let p := fst pl in let z := fst (snd pl) in
    let resz := vsub' y (mv QcR A z) in
    let grad := vscale' alpha (mvT QcR ncols A resz) in
    let x := map (soft thresh) (vadd' z grad) in
    let told := it p in
    let t' := (1 + sq (1 + Q2Qc 4 * told * told)) / Q2Qc 2 in
    let d := vsub' x (ix p) in
    let z' := vadd' x (vscale' ((told - 1) / t') d) in
    let r := vsub' y (mv QcR A x) in
    ({| ix := x; it := t'; ii := S (ii p); icost := icost p ++ [half * dot' r r + eps * norm1 x] |},
     (z', Some (dot' d d))).
  Definition fista_solver : solver isP (vec * option Qc).
  Proof.
    refine {| step := fista_step; iiter := ii; ok := fun pl => upd_ok (snd (snd pl)); linit := fun p => (ix p, None) |}.
    intros [p l]. reflexivity.
  Defined.
End ISTA.

(* Newton square root on Qc, rounded to 2^-64 at every iteration (execution
   only: used as the value of the parameter sq in witnesses and in the
   correspondence; accurate to ~1e-18 for arguments in [1, 1e6]) *)
Definition rnd (a : Qc) : Qc := Q2Qc (Qfloor (this a * (18446744073709551616 # 1)) # 18446744073709551616).
Fixpoint newton (k : nat) (a g : Qc) : Qc :=
  match k with O => g | S k' => newton k' a (rnd ((g + a / g) / Q2Qc 2)) end.
Definition nsqrt (a : Qc) : Qc := if Qcleb a 0 then 0 else newton 12 a ((a + 1) / Q2Qc 2).

(* ---- witnesses.  States are compared through the underlying reduced
   fractions (Qc carries a canonicity proof that vm_compute does not normalise). *)
Definition qv (v : vec) : list Q := map this v.
Definition obs_cg (p : cgP) := (qv (cx p), qv (cr p), qv (cc p), this (ckold p), ci p, qv (ccost2 p)).
Definition obs_is (p : isP) := (qv (ix p), this (it p), ii p, qv (icost p)).
Definition A2 : mat := [[Q2Qc 2; Q2Qc 1]; [Q2Qc 1; Q2Qc 3]].
Definition y2 : vec := [Q2Qc 3; Q2Qc 5].
Definition x02 : vec := [0; 0].

(* CG is a persistent solver: the generic run_split applies; concrete check *)
Example cg_split_example :
  let S0 := cg_solver A2 (Q2Qc (1 # 1000)) in let p := cg_setup A2 y2 x02 in
  obs_cg (run S0 2 (run S0 1 p)) = obs_cg (run S0 2 p) /\ ci (run S0 2 p) = 2%nat /\ qv (cx (run S0 2 p)) = [4 # 5; 7 # 5]%Q.
Proof. vm_compute. repeat split; reflexivity. Qed.

(* FISTA: one run of 3 iterations differs from 2 + 1 *)
Definition fS := fista_solver A2 2 y2 (Q2Qc (1 # 8)) (Q2Qc (1 # 10)) 0 nsqrt.
Definition fp0 := is_setup x02.
Theorem fista_run_split_refuted_witness :
  qv (ix (run fS (2 + 1) (run fS 2 fp0))) <> qv (ix (run fS (2 + 1) fp0)) /\
  ii (run fS (2 + 1) (run fS 2 fp0)) = ii (run fS (2 + 1) fp0).
Proof. split; [vm_compute; discriminate|vm_compute; reflexivity]. Qed.

(* ... while a split after the first iteration is harmless (t_0 = 1) *)
Example fista_split_at_one_ok : obs_is (run fS 3 (run fS 1 fp0)) = obs_is (run fS 3 fp0).
Proof. vm_compute. reflexivity. Qed.

(* ISTA: hypotheses of ista_run_split are satisfiable (budget-ended first
   instalment), and the conclusion fails after a tolerance stop *)
Definition iS (tol : Qc) := ista_solver A2 2 y2 (Q2Qc (1 # 8)) (Q2Qc (1 # 10)) tol.
Example ista_split_example :
  ok (iS 0) (runL (iS 0) 2 (enter (iS 0) fp0)) = true /\ obs_is (run (iS 0) 4 (run (iS 0) 2 fp0)) = obs_is (run (iS 0) 4 fp0) /\
  ii (run (iS 0) 4 fp0) = 4%nat.
Proof. vm_compute. repeat split; reflexivity. Qed.
Theorem ista_resume_after_tol_stop_refuted :
  let S0 := iS (Q2Qc 10) in
  ii (run S0 4 fp0) = 1%nat /\ ii (run S0 4 (run S0 3 fp0)) = 2%nat.
Proof. vm_compute. split; reflexivity. Qed.

(* the statement "run (j+k) after run j = run (j+k)" is false of FISTA *)
Theorem fista_run_split_refuted :
  exists (A : mat) (ncols : nat) (y x0 : vec) (alpha eps tol : Qc) (sq : Qc -> Qc) (j k : nat),
    let S0 := fista_solver A ncols y alpha eps tol sq in
    qv (ix (run S0 (j + k) (run S0 j (is_setup x0)))) <> qv (ix (run S0 (j + k) (is_setup x0))).
Proof.
  exists A2, 2%nat, y2, x02, (Q2Qc (1 # 8)), (Q2Qc (1 # 10)), 0, nsqrt, 2%nat, 1%nat.
  exact (proj1 fista_run_split_refuted_witness).
Qed.
