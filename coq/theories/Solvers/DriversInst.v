(* DriversInst.v — concrete instances of the generic machine of Drivers.v over
   the exact rationals: CG (persistent: all state on self), ISTA (stopping
   quantity xupdate is a local of run), FISTA (since 4fbea6d: step stores the extrapolated
   point in self.z and run restarts from self.z when iiter > 0; only
   xupdate is re-created, as inf, at every call of run).
   Transcribed from cls_basic.CG.setup/step/run and
   cls_sparsity.ISTA/FISTA.setup/step/run (real dtype, threshkind="soft",
   decay = ones, SOp = None, monitorres = False, alpha given). *)
From Coq Require Import QArith Qcanon Qround List Arith Lia Bool.
From PV Require Import Dict Vec Dot Mat QcInst Drivers.
Import ListNotations.
Local Open Scope Qc_scope.

Notation vec := (list Qc).
Notation mat := (list (list Qc)).
Definition vadd' := vadd QcR. Definition vsub' := vsub QcR. Definition vscale' := vscale QcR.
Definition dot' := dotu QcR.
Definition Qcabs1 (a : Qc) : Qc := if Qcleb 0 a then a else - a.
Definition half : Qc := Q2Qc (1 # 2).
Definition Qcltb (a b : Qc) : bool := negb (Qcleb b a).

(* ------------------------------------------------------------------ CG *)
Record cgP := { cx : vec; cr : vec; cc : vec; ckold : Qc; ci : nat; ccost2 : list Qc (* cost[i]^2 = kold_i *) }.

Section CG.
  Variables (A : mat) (tol : Qc).
  (* setup(y, x0): x = x0.copy(); r = y - Op x; c = r.copy(); kold = |r.r| *)
  Definition cg_setup (y x0 : vec) : cgP :=
    let r := vsub' y (mv QcR A x0) in
    {| cx := x0; cr := r; cc := r; ckold := Qcabs1 (dot' r r); ci := 0; ccost2 := [Qcabs1 (dot' r r)] |}.
  Definition cg_step (pl : cgP * Datatypes.unit) : cgP * Datatypes.unit :=
    let p := fst pl in
    let Opc := mv QcR A (cc p) in
    let cOpc := Qcabs1 (dot' (cc p) Opc) in
    let a := ckold p / cOpc in
    let x := vadd' (cx p) (vscale' a (cc p)) in
    let r := vsub' (cr p) (vscale' a Opc) in
    let k := Qcabs1 (dot' r r) in
    let b := k / ckold p in
    ({| cx := x; cr := r; cc := vadd' r (vscale' b (cc p)); ckold := k; ci := S (ci p); ccost2 := ccost2 p ++ [k] |}, tt).
  (* while self.iiter < niter and self.kold > self.tol *)
  Definition cg_solver : solver cgP Datatypes.unit.
  Proof.
    refine {| step := cg_step; iiter := ci; ok := fun pl => Qcltb tol (ckold (fst pl)); linit := fun _ => tt |}.
    intros [p []]. reflexivity.
  Defined.
End CG.

(* ---------------------------------------------------------------- ISTA *)
Definition soft (th : Qc) (a : Qc) : Qc :=
  let m := Qcabs1 a - th in
  let m' := if Qcleb 0 m then m else 0 in
  if Qcleb 0 a then (if Qcleb a 0 then 0 else m') else - m'.
Definition norm1 (v : vec) : Qc := fold_right (fun a s => Qcabs1 a + s) 0 v.

Record isP := { ix : vec; it : Qc; ii : nat; icost : list Qc }.
Record fP := { px : vec; pt : Qc; pi : nat; pcost : list Qc; pz : option vec }.

Section ISTA.
  Variables (A : mat) (ncols : nat) (y : vec) (alpha eps tol : Qc) (sq : Qc -> Qc).
  Definition thresh : Qc := eps * alpha * half.
  Definition is_setup (x0 : vec) : isP := {| ix := x0; it := 1; ii := 0; icost := [] |}.
  Definition f_setup (x0 : vec) : fP := {| px := x0; pt := 1; pi := 0; pcost := []; pz := None |}.

  (* ISTA: locals = xupdate^2 (None = inf) *)
  Definition ista_step (pl : isP * option Qc) : isP * option Qc :=
    let p := fst pl in
    let res := vsub' y (mv QcR A (ix p)) in
    let grad := vscale' alpha (mvT QcR ncols A res) in
    let x := map (soft thresh) (vadd' (ix p) grad) in
    let d := vsub' x (ix p) in
    ({| ix := x; it := it p; ii := S (ii p); icost := icost p ++ [half * dot' res res + eps * norm1 x] |},
     Some (dot' d d)).
  (* xupdate > tol, with xupdate = inf at the entry of run *)
  Definition upd_ok (u : option Qc) : bool := match u with None => true | Some u2 => Qcltb (tol * tol) u2 end.
  Definition ista_solver : solver isP (option Qc).
  Proof.
    refine {| step := ista_step; iiter := ii; ok := fun pl => upd_ok (snd pl); linit := fun _ => None |}.
    intros [p l]. reflexivity.
  Defined.

  Lemma ista_step_blind p l l' : step ista_solver (p, l) = step ista_solver (p, l').
  Proof. reflexivity. Qed.
  Lemma ista_ok_fresh p : ok ista_solver (enter ista_solver p) = true.
  Proof. reflexivity. Qed.

  (* instalments of ISTA agree with one run iff the earlier instalment was
     ended by its budget (xupdate is re-set to inf by every call of run) *)
  Theorem ista_run_split j n p : (j <= n)%nat -> ok ista_solver (runL ista_solver j (enter ista_solver p)) = true ->
    run ista_solver n (run ista_solver j p) = run ista_solver n p.
  Proof. apply run_split_local; [exact ista_step_blind|exact ista_ok_fresh]. Qed.

  (* LEGACY (before 4fbea6d): FISTA with z a local of run; t lives on self *)
  Definition fista_legacy_step (pl : isP * (vec * option Qc)) : isP * (vec * option Qc) :=
    let p := fst pl in let z := fst (snd pl) in
    let resz := vsub' y (mv QcR A z) in
    let grad := vscale' alpha (mvT QcR ncols A resz) in
    let x := map (soft thresh) (vadd' z grad) in
    let told := it p in
    let t' := (1 + sq (1 + Q2Qc 4 * told * told)) / Q2Qc 2 in
    let d := vsub' x (ix p) in
    let z' := vadd' x (vscale' ((told - 1) / t') d) in
    let r := vsub' y (mv QcR A x) in
    ({| ix := x; it := t'; ii := S (ii p); icost := icost p ++ [half * dot' r r + eps * norm1 x] |},
     (z', Some (dot' d d))).
  Definition fista_legacy_solver : solver isP (vec * option Qc).
  Proof.
    refine {| step := fista_legacy_step; iiter := ii; ok := fun pl => upd_ok (snd (snd pl)); linit := fun p => (ix p, None) |}.
    intros [p l]. reflexivity.
  Defined.
  (* FISTA (current code).  Persistent: x, t, iiter, cost and self.z (None
     until the first step; setup does not touch it, run ignores it at
     iiter = 0).  Locals of run / arguments of step: (z, xupdate^2).
       step(x, z): ... self.t = ...; z = x + ((told-1)/t)(x - xold); ...; self.z = z; return x, z, xupdate
       run:  z = self.z if self.iiter > 0 and self.z is not None else x.copy(); xupdate = inf *)
  Definition fista_step (pl : fP * (vec * option Qc)) : fP * (vec * option Qc) :=
    let p := fst pl in let z := fst (snd pl) in
    let resz := vsub' y (mv QcR A z) in
    let grad := vscale' alpha (mvT QcR ncols A resz) in
    let x := map (soft thresh) (vadd' z grad) in
    let told := pt p in
    let t' := (1 + sq (1 + Q2Qc 4 * told * told)) / Q2Qc 2 in
    let d := vsub' x (px p) in
    let z' := vadd' x (vscale' ((told - 1) / t') d) in
    let r := vsub' y (mv QcR A x) in
    ({| px := x; pt := t'; pi := S (pi p); pcost := pcost p ++ [half * dot' r r + eps * norm1 x]; pz := Some z' |},
     (z', Some (dot' d d))).
  Definition fista_z0 (p : fP) : vec :=
    match pi p, pz p with S _, Some z => z | _, _ => px p end.
  Definition fista_solver : solver fP (vec * option Qc).
  Proof.
    refine {| step := fista_step; iiter := pi; ok := fun pl => upd_ok (snd (snd pl)); linit := fun p => (fista_z0 p, None) |}.
    intros [p l]. reflexivity.
  Defined.

  (* wherever the loop is, the threaded z is what re-entry reads from self *)
  Definition fista_inv (pl : fP * (vec * option Qc)) : Prop := fst (snd pl) = fista_z0 (fst pl).
  Lemma fista_inv_enter p : fista_inv (enter fista_solver p).
  Proof. reflexivity. Qed.
  Lemma fista_inv_step pl : fista_inv pl -> fista_inv (step fista_solver pl).
  Proof. intros _. reflexivity. Qed.
  Lemma fista_resume pl : fista_inv pl -> step fista_solver pl = step fista_solver (enter fista_solver (fst pl)).
  Proof. destruct pl as [p [z u]]. unfold fista_inv. cbn [fst snd]. intros ->. reflexivity. Qed.
  Lemma fista_ok_fresh p : ok fista_solver (enter fista_solver p) = true.
  Proof. reflexivity. Qed.

  (* instalments of FISTA = one run (when the earlier instalment used up its budget) *)
  Theorem fista_run_split j n p : (j <= n)%nat -> ok fista_solver (runL fista_solver j (enter fista_solver p)) = true ->
    run fista_solver n (run fista_solver j p) = run fista_solver n p.
  Proof. apply (run_split_resume fista_solver fista_inv fista_inv_enter fista_inv_step fista_resume fista_ok_fresh). Qed.

  (* all mixed manual driving programs: Step threads (x, z); after Run the caller reads z = solver.z *)
  Theorem fista_prog_then_run N prog p : safeL fista_solver N prog (enter fista_solver p) ->
    run fista_solver N (fst (execL fista_solver prog (enter fista_solver p))) = run fista_solver N p.
  Proof.
    intros H. apply (progL_then_run fista_solver fista_inv fista_inv_enter fista_inv_step fista_resume fista_ok_fresh);
      [apply fista_inv_enter|apply fista_ok_fresh|exact H].
  Qed.
End ISTA.

(* Newton square root on Qc, rounded to 2^-64 at every iteration (execution
   only: used as the value of the parameter sq in witnesses and in the
   correspondence; accurate to ~1e-18 for arguments in [1, 1e6]) *)
Definition rnd (a : Qc) : Qc := Q2Qc (Qfloor (this a * (18446744073709551616 # 1)) # 18446744073709551616).
Fixpoint newton (k : nat) (a g : Qc) : Qc :=
  match k with O => g | S k' => newton k' a (rnd ((g + a / g) / Q2Qc 2)) end.
Definition nsqrt (a : Qc) : Qc := if Qcleb a 0 then 0 else newton 12 a ((a + 1) / Q2Qc 2).

(* ---- witnesses.  States are compared through the underlying reduced
   fractions (Qc carries a canonicity proof that vm_compute does not normalise). *)
Definition qv (v : vec) : list Q := map this v.
Definition obs_cg (p : cgP) := (qv (cx p), qv (cr p), qv (cc p), this (ckold p), ci p, qv (ccost2 p)).
Definition obs_is (p : isP) := (qv (ix p), this (it p), ii p, qv (icost p)).
Definition A2 : mat := [[Q2Qc 2; Q2Qc 1]; [Q2Qc 1; Q2Qc 3]].
Definition y2 : vec := [Q2Qc 3; Q2Qc 5].
Definition x02 : vec := [0; 0].

(* CG is a persistent solver: the generic run_split applies; concrete check *)
Example cg_split_example :
  let S0 := cg_solver A2 (Q2Qc (1 # 1000)) in let p := cg_setup A2 y2 x02 in
  obs_cg (run S0 2 (run S0 1 p)) = obs_cg (run S0 2 p) /\ ci (run S0 2 p) = 2%nat /\ qv (cx (run S0 2 p)) = [4 # 5; 7 # 5]%Q.
Proof. vm_compute. repeat split; reflexivity. Qed.

(* FISTA (current): instalments, and mixed Step / Run driving, equal one run *)
Definition obs_f (p : fP) := (qv (px p), this (pt p), pi p, qv (pcost p)).
Definition fS := fista_solver A2 2 y2 (Q2Qc (1 # 8)) (Q2Qc (1 # 10)) 0 nsqrt.
Definition fp0 := f_setup x02.
Example fista_split_example :
  ok fS (runL fS 2 (enter fS fp0)) = true /\ obs_f (run fS (2 + 1) (run fS 2 fp0)) = obs_f (run fS (2 + 1) fp0) /\
  pi (run fS 3 fp0) = 3%nat /\ qv (px (run fS 3 fp0)) <> qv (px (run fS 2 fp0)).
Proof. vm_compute. repeat split; try reflexivity. discriminate. Qed.
Example fista_mixed_example :
  safeL fS 4 [Step; Step; Run 3; Step] (enter fS fp0) /\
  obs_f (fst (execL fS [Step; Step; Run 3; Step] (enter fS fp0))) = obs_f (run fS 4 fp0).
Proof. vm_compute. repeat split; try reflexivity; repeat constructor. Qed.

(* ISTA: hypotheses of ista_run_split are satisfiable (budget-ended first
   instalment), and the conclusion fails after a tolerance stop *)
Definition ip0 := is_setup x02.
Definition iS (tol : Qc) := ista_solver A2 2 y2 (Q2Qc (1 # 8)) (Q2Qc (1 # 10)) tol.
Example ista_split_example :
  ok (iS 0) (runL (iS 0) 2 (enter (iS 0) ip0)) = true /\ obs_is (run (iS 0) 4 (run (iS 0) 2 ip0)) = obs_is (run (iS 0) 4 ip0) /\
  ii (run (iS 0) 4 ip0) = 4%nat.
Proof. vm_compute. repeat split; reflexivity. Qed.
Theorem ista_resume_after_tol_stop_refuted :
  let S0 := iS (Q2Qc 10) in
  ii (run S0 4 ip0) = 1%nat /\ ii (run S0 4 (run S0 3 ip0)) = 2%nat.
Proof. vm_compute. split; reflexivity. Qed.

(* ------------------------------------------------------------------ *)
(* Legacy: the defect repaired by 4fbea6d, kept as a record.  With z a local
   of run (and t on self) instalments differ from one run. *)
Section Legacy.
  Definition fLS := fista_legacy_solver A2 2 y2 (Q2Qc (1 # 8)) (Q2Qc (1 # 10)) 0 nsqrt.
  Theorem fista_legacy_run_split_refuted :
    qv (ix (run fLS (2 + 1) (run fLS 2 ip0))) <> qv (ix (run fLS (2 + 1) ip0)) /\
    ii (run fLS (2 + 1) (run fLS 2 ip0)) = ii (run fLS (2 + 1) ip0).
  Proof. split; [vm_compute; discriminate|vm_compute; reflexivity]. Qed.
End Legacy.
