(* CGLS.v — model of pylops/optimization/cls_basic.py : class CGLS
   (setup / step / run / finalize / solve), statement by statement
   (tree at a61e68b: setup stores self.damp = damp**2 and uses it in the
   residual r = Op^H s - self.damp * x and in cost1[0]; finalize returns
   r1norm = cost[iiter], r2norm = cost1[iiter]).
   Conventions as in CG.v; the cost lists hold the SQUARES of the entries, so
   the model returns r1norm^2 and r2norm^2.
   [cl_r] is the local variable r of setup/step (kept for the theorems).
   The behaviour of the code before 4c3cad3 / a61e68b is documented in
   Solvers/CGLSFacts.v, Section Legacy. *)
From PV Require Export CG.
Local Open Scope R_scope.

Section VecAlg2.
Variable R : CRing.
Add Ring RrCL0 : (rth R).
Notation vec := (list R).
Lemma vsub_vscale_as_vadd (u v : vec) a : vsub R u (vscale R a v) = vadd R u (vscale R (- a) v).
Proof. revert v; induction u as [|b u IH]; intros [|c v]; simpl; auto.
  unfold vsub, vadd, vscale in *; simpl; rewrite IH; f_equal; ring. Qed.
Lemma vsub_vsub (a b c : vec) : length a = length b -> length b = length c ->
  vsub R (vsub R a b) c = vsub R a (vadd R b c).
Proof. revert b c; induction a as [|x a IH]; intros [|y b] [|z c] H1 H2; simpl in *; try discriminate; auto.
  unfold vsub, vadd in *; simpl; rewrite IH by lia; f_equal; ring. Qed.
Lemma r_update_eq (S Q X C : vec) a d : length S = length Q -> length Q = length X -> length X = length C ->
  vsub R (vsub R S (vscale R a Q)) (vscale R d (vadd R X (vscale R a C))) =
  vsub R (vsub R S (vscale R d X)) (vscale R a (vadd R Q (vscale R d C))).
Proof. revert Q X C; induction S as [|s S IH]; intros [|q Q] [|x X] [|c C] H1 H2 H3; simpl in *; try discriminate; auto.
  unfold vsub, vadd, vscale in *; simpl; rewrite IH by lia; f_equal; ring. Qed.
Lemma n_update_eq (P Q X C : vec) a d : length P = length Q -> length Q = length X -> length X = length C ->
  vadd R (vadd R P (vscale R a Q)) (vscale R d (vadd R X (vscale R a C))) =
  vadd R (vadd R P (vscale R d X)) (vscale R a (vadd R Q (vscale R d C))).
Proof. revert Q X C; induction P as [|s P IH]; intros [|q Q] [|x X] [|c C] H1 H2 H3; simpl in *; try discriminate; auto.
  unfold vsub, vadd, vscale in *; simpl; rewrite IH by lia; f_equal; ring. Qed.
End VecAlg2.

Section MvH.
Variable S : StarRing.
Add Ring RrCL1 : (rth S).
Notation vec := (list S).
Variable n : nat.
Variable A : list (list S).
Hypothesis WA : wfM S n A.
Lemma mvH_length y : length (mvH S n A y) = n.
Proof. apply mvT_length, wfM_mconj, WA. Qed.
Lemma mvH_vsub_vscale s q a : length s = length A -> length q = length A ->
  mvH S n A (vsub S s (vscale S a q)) = vsub S (mvH S n A s) (vscale S a (mvH S n A q)).
Proof. intros Hs Hq. rewrite !vsub_vscale_as_vadd. unfold mvH.
  assert (L : length (mconj S A) = length A) by (unfold mconj; apply map_length).
  rewrite mvT_vadd, mvT_vscale; auto using wfM_mconj; rewrite ?vscale_length; congruence. Qed.
Lemma mvH_vsub s q : length s = length A -> length q = length A ->
  mvH S n A (vsub S s q) = vsub S (mvH S n A s) (mvH S n A q).
Proof. intros Hs Hq. rewrite <- (vscale_one S q) at 1. rewrite mvH_vsub_vscale by auto. rewrite vscale_one; reflexivity. Qed.
Lemma mvH_zeros k : mvH S n A (zeros S k) = zeros S n.
Proof. unfold mvH. generalize (wfM_mconj S n A WA). generalize (mconj S A) as M.
  intros M W; revert k; induction M as [|r M IH]; intros [|k]; simpl; auto.
  inversion W; subst. change (repeat 0 k) with (zeros S k). rewrite IH by auto. rewrite vscale_zero.
  pose proof (vadd_zeros_l S (zeros S (length r))) as E. rewrite zeros_length in E. exact E. Qed.
End MvH.

Section CGLS.
Variable F : FieldS.
Add Ring RrCL : (rth F).
Add Field FfCL : (fth F).
Notation vec := (list F).
Variable absf : F -> F.
Variable gtb : F -> F -> bool.
Variable n : nat.                  (* Op.shape[1] *)
Variable A : list (list F).        (* Op.matvec = mv A, Op.rmatvec = mvH n A *)

Record clst := mkcl { cl_x : vec; cl_s : vec; cl_c : vec; cl_q : vec; cl_r : vec; cl_kold : F;
  cl_damp : F; cl_cost2 : list F; cl_cost1_2 : list F; cl_iiter : nat }.

(* CGLS.setup(y, x0, niter, damp, tol) *)
Definition cgls_setup (y : vec) (x0 : option vec) (damp : F) : clst :=
  let damp2 := damp * damp in                       (* self.damp = damp ** 2 *)
  let x := match x0 with None => zeros F n | Some v => v end in
  let s := match x0 with None => y | Some v => vsub F y (mv F A v) end in
  let r := match x0 with
           | None => mvH F n A s                                   (* r = Op.rmatvec(s) *)
           | Some v => vsub F (mvH F n A s) (vscale F damp2 v)     (* r = Op.rmatvec(s) - self.damp * x *)
           end in
  let q := mv F A r in                              (* c = r.copy(); q = Op.matvec(c) *)
  let kold := absf (dot F r r) in
  let cost0 := dot F s s in                         (* norm(s) ^ 2 *)
  let cost1 := cost0 + damp2 * absf (dot F x x) in  (* cost[0]**2 + self.damp * abs(x.dot(x.conj())) *)
  mkcl x s r q r kold damp2 [cost0] [cost1] 0.

(* CGLS.step *)
Definition cgls_step (st : clst) : clst :=
  let a := cl_kold st / (dot F (cl_q st) (cl_q st) + cl_damp st * dot F (cl_c st) (cl_c st)) in
  let x := vadd F (cl_x st) (vscale F a (cl_c st)) in                 (* x = x + a * c *)
  let s := vsub F (cl_s st) (vscale F a (cl_q st)) in                 (* s = s - a * q *)
  let r := vsub F (mvH F n A s) (vscale F (cl_damp st) x) in          (* r = Op.rmatvec(s) - self.damp * x *)
  let k := absf (dot F r r) in
  let b := k / cl_kold st in
  let c := vadd F r (vscale F b (cl_c st)) in                         (* c = r + b * c *)
  let q := mv F A c in
  let cost := dot F s s in
  let cost1 := cost + cl_damp st * absf (dot F x x) in
  mkcl x s c q r k (cl_damp st) (cl_cost2 st ++ [cost]) (cl_cost1_2 st ++ [cost1]) (S (cl_iiter st)).

(* CGLS.run (same loop as CG.run); x = x + a*c builds a new array, so
   on_step_end is handed the array given to step: inplace = false *)
Definition cgls_run := loop_run F clst cgls_step cl_x cl_kold cl_iiter gtb false.
Definition cgls_iter := loop_iter clst cgls_step.

(* CGLS.finalize: istop = 1 if kold < tol else 2; r1norm = cost[iiter]; r2norm = cost1[iiter].
   The model returns the SQUARES of r1norm and r2norm. *)
Definition cgls_istop (st : clst) (tol : F) : nat := if gtb tol (cl_kold st) then 1%nat else 2%nat.
Definition cgls_r1norm2 (st : clst) : F := nth (cl_iiter st) (cl_cost2 st) 0.
Definition cgls_r2norm2 (st : clst) : F := nth (cl_iiter st) (cl_cost1_2 st) 0.

(* CGLS.solve: returns x, istop, iiter, r1norm^2, r2norm^2, cost(^2) and the observed events *)
Definition cgls_solve (y : vec) (x0 : option vec) (niter : nat) (damp tol : F) :=
  let '(st, log) := cgls_run niter niter tol (cgls_setup y x0 damp) [] in
  (cl_x st, cgls_istop st tol, cl_iiter st, cgls_r1norm2 st, cgls_r2norm2 st, cl_cost2 st, log).

Lemma cl_iiter_step st : cl_iiter (cgls_step st) = S (cl_iiter st).
Proof. reflexivity. Qed.
Lemma cl_iiter_iter k st : cl_iiter (cgls_iter k st) = (k + cl_iiter st)%nat.
Proof. induction k as [|k IH]; simpl; [|rewrite IH]; reflexivity. Qed.
Lemma cl_cost_length_iter k st : length (cl_cost2 st) = S (cl_iiter st) ->
  length (cl_cost2 (cgls_iter k st)) = S (cl_iiter (cgls_iter k st)).
Proof. intros H; induction k as [|k IH]; simpl; auto. rewrite app_length, IH; simpl; lia. Qed.
Lemma cl_cost1_length_iter k st : length (cl_cost1_2 st) = S (cl_iiter st) ->
  length (cl_cost1_2 (cgls_iter k st)) = S (cl_iiter (cgls_iter k st)).
Proof. intros H; induction k as [|k IH]; simpl; auto. rewrite app_length, IH; simpl; lia. Qed.

Theorem cgls_run_exits y x0 damp niter tol :
  let st := fst (cgls_run niter niter tol (cgls_setup y x0 damp) []) in
  Nat.ltb (cl_iiter st) niter && gtb (cl_kold st) tol = false.
Proof. apply (loop_run_exits F clst cgls_step cl_x cl_kold cl_iiter gtb false cl_iiter_step). reflexivity. Qed.

(* C10: |cost| = 1 + iiter, callbacks = iterates in order *)
Theorem cgls_solve_diagnostics y x0 niter damp tol :
  let st0 := cgls_setup y x0 damp in
  let '(x, istop, iiter, r1, r2sq, cost2, log) := cgls_solve y x0 niter damp tol in
  length cost2 = S iiter /\ (iiter <= niter)%nat /\
  x = cl_x (cgls_iter iiter st0) /\ cost2 = cl_cost2 (cgls_iter iiter st0) /\
  r1 = nth iiter (cl_cost2 (cgls_iter iiter st0)) 0 /\ r2sq = nth iiter (cl_cost1_2 (cgls_iter iiter st0)) 0 /\
  callbacks_of log = map (fun i => cl_x (cgls_iter i st0)) (seq 1 iiter) /\
  begins_of log = map (fun i => cl_x (cgls_iter i st0)) (seq 0 iiter) /\
  length (ends_of log) = iiter.
Proof.
  intros st0. unfold cgls_solve. fold st0.
  destruct (loop_solve_spec F clst cgls_step cl_x cl_kold cl_iiter gtb false cl_iiter_step niter tol st0 eq_refl)
    as (j & Hj & H1 & Hi & Hc & Hb & He).
  fold cgls_run in H1, Hc, Hb, He. fold cgls_iter in H1, Hi, Hc, Hb.
  destruct (cgls_run niter niter tol st0 []) as [st log]. simpl in H1, Hc, Hb, He. subst st.
  unfold cgls_r1norm2, cgls_r2norm2. rewrite Hi.
  split; [rewrite <- Hi at 2; apply cl_cost_length_iter; reflexivity|]. repeat split; auto.
Qed.

(* ================= invariants ================= *)
Section Inv.
Hypothesis WA : wfM F n A.
Variable y : vec.
Hypothesis Hy : length y = length A.
Variable damp : F.
Notation d2 := (damp * damp).

(* holds for ALL inputs *)
Definition cl_inv (st : clst) : Prop :=
  length (cl_x st) = n /\ length (cl_s st) = length A /\ length (cl_c st) = n /\ length (cl_r st) = n /\
  cl_damp st = d2 /\
  cl_s st = vsub F y (mv F A (cl_x st)) /\ cl_q st = mv F A (cl_c st).
(* the normal-equation residual *)
Definition cl_rinv (st : clst) : Prop :=
  cl_r st = vsub F (mvH F n A (cl_s st)) (vscale F d2 (cl_x st)).

Definition x0_ok (x0 : option vec) : Prop := forall v, x0 = Some v -> length v = n.

Lemma cgls_setup_inv x0 : x0_ok x0 -> cl_inv (cgls_setup y x0 damp).
Proof.
  intros Hx. unfold cl_inv, cgls_setup. destruct x0 as [v|]; cbn [cl_x cl_s cl_c cl_r cl_q cl_damp].
  - specialize (Hx v eq_refl).
    assert (length (vsub F y (mv F A v)) = length A) by (apply vsub_length_eq; auto; apply mv_length).
    repeat split; auto; apply vsub_length_eq; rewrite ?mvH_length, ?vscale_length; auto.
  - rewrite zeros_length, mv_zeros, mvH_length by auto. repeat split; auto.
    rewrite <- Hy. symmetry; apply vsub_zeros_r.
Qed.
Lemma cgls_setup_rinv x0 : x0_ok x0 -> cl_rinv (cgls_setup y x0 damp).
Proof.
  intros Hx. unfold cl_rinv, cgls_setup. destruct x0 as [v|]; cbn [cl_x cl_s cl_r].
  - reflexivity.
  - rewrite vscale_zeros. rewrite <- (mvH_length F n A WA y) at 3. symmetry; apply vsub_zeros_r.
Qed.
Lemma cgls_step_inv st : cl_inv st -> cl_inv (cgls_step st) /\ cl_rinv (cgls_step st).
Proof.
  intros (Lx & Ls & Lc & Lr & Hd & Hs & Hq). unfold cl_inv, cl_rinv, cgls_step; cbn [cl_x cl_s cl_c cl_r cl_q cl_damp].
  set (a := cl_kold st / _).
  assert (Lq : length (cl_q st) = length A) by (rewrite Hq; apply mv_length).
  assert (L1 : length (vadd F (cl_x st) (vscale F a (cl_c st))) = n)
    by (apply vadd_length_eq; auto; rewrite vscale_length; auto).
  assert (L2 : length (vsub F (cl_s st) (vscale F a (cl_q st))) = length A)
    by (apply vsub_length_eq; auto; rewrite vscale_length; auto).
  assert (L3 : length (vsub F (mvH F n A (vsub F (cl_s st) (vscale F a (cl_q st))))
                        (vscale F (cl_damp st) (vadd F (cl_x st) (vscale F a (cl_c st))))) = n)
    by (apply vsub_length_eq; rewrite ?mvH_length, ?vscale_length; auto).
  split; [|rewrite Hd; reflexivity]. repeat split; auto.
  - apply vadd_length_eq; auto. rewrite vscale_length; auto.
  - rewrite mv_vadd, mv_vscale by (rewrite vscale_length; congruence). rewrite Hs, Hq.
    apply vsub_vsub_vscale; rewrite ?mv_length; auto.
Qed.
Theorem cgls_inv_iter x0 k : x0_ok x0 -> cl_inv (cgls_iter k (cgls_setup y x0 damp)).
Proof. intros H; induction k as [|k IH]; simpl; [apply cgls_setup_inv; auto | apply cgls_step_inv; auto]. Qed.
Theorem cgls_rinv_iter x0 k : x0_ok x0 -> cl_rinv (cgls_iter k (cgls_setup y x0 damp)).
Proof. intros H. destruct k as [|k].
  - apply cgls_setup_rinv; auto.
  - simpl. apply cgls_step_inv, cgls_inv_iter; auto. Qed.

(* C09: s_k = y - A x_k, q_k = A c_k, r_k = A^H s_k - damp^2 x_k *)
Theorem cgls_invariants x0 k : x0_ok x0 ->
  let st := cgls_iter k (cgls_setup y x0 damp) in
  cl_s st = vsub F y (mv F A (cl_x st)) /\ cl_q st = mv F A (cl_c st) /\
  cl_r st = vsub F (mvH F n A (cl_s st)) (vscale F d2 (cl_x st)).
Proof. intros H st. destruct (cgls_inv_iter x0 k H) as (_ & _ & _ & _ & _ & Hs & Hq).
  repeat split; auto. apply cgls_rinv_iter; auto. Qed.

(* ================= C10: cost histories ================= *)
Hypothesis Habs : forall v : vec, absf (dot F v v) = dot F v v.
Definition lsres2 (x : vec) : F := let r := vsub F y (mv F A x) in dot F r r.       (* ||y - A x||^2 *)
Definition lsfun (x : vec) : F := lsres2 x + d2 * dot F x x.                        (* J(x) *)

Lemma cgls_step_cost st : cl_inv st -> cl_cost2 (cgls_step st) = cl_cost2 st ++ [lsres2 (cl_x (cgls_step st))].
Proof. intros H. destruct (cgls_step_inv st H) as ((_ & _ & _ & _ & _ & Hs & _) & _).
  unfold lsres2. rewrite <- Hs. reflexivity. Qed.
Lemma cgls_step_cost1 st : cl_inv st -> cl_cost1_2 (cgls_step st) = cl_cost1_2 st ++ [lsfun (cl_x (cgls_step st))].
Proof. intros H. destruct (cgls_step_inv st H) as ((_ & _ & _ & _ & _ & Hs & _) & _).
  destruct H as (_ & _ & _ & _ & Hd & _).
  unfold lsfun, lsres2. rewrite <- Hs. unfold cgls_step; cbn [cl_cost1_2 cl_s cl_x]. rewrite Habs, Hd. reflexivity. Qed.

Theorem cgls_cost_truthful x0 k : x0_ok x0 ->
  let st0 := cgls_setup y x0 damp in
  cl_cost2 (cgls_iter k st0) = map (fun j => lsres2 (cl_x (cgls_iter j st0))) (seq 0 (S k)).
Proof.
  intros H st0. induction k as [|k IH].
  - destruct (cgls_setup_inv x0 H) as (_ & _ & _ & _ & _ & Hs & _). fold st0 in Hs.
    unfold cgls_iter; cbn [loop_iter seq map]. unfold lsres2. rewrite <- Hs. reflexivity.
  - rewrite seq_S, map_app, <- IH. cbn [map Nat.add].
    change (cgls_iter (S k) st0) with (cgls_step (cgls_iter k st0)).
    apply cgls_step_cost, cgls_inv_iter; auto.
Qed.

(* cost1: the setup entry is whatever setup computed; every later entry is J(x_j) *)
Theorem cgls_cost1_truthful_tail x0 k : x0_ok x0 ->
  let st0 := cgls_setup y x0 damp in
  cl_cost1_2 (cgls_iter k st0) = cl_cost1_2 st0 ++ map (fun j => lsfun (cl_x (cgls_iter j st0))) (seq 1 k).
Proof.
  intros H st0. induction k as [|k IH].
  - unfold cgls_iter; cbn [loop_iter seq map]. rewrite app_nil_r; reflexivity.
  - rewrite seq_S, map_app, app_assoc, <- IH. cbn [map Nat.add].
    change (cgls_iter (S k) st0) with (cgls_step (cgls_iter k st0)).
    apply cgls_step_cost1, cgls_inv_iter; auto.
Qed.
Theorem cgls_cost1_setup_truthful x0 : x0_ok x0 ->
  let st0 := cgls_setup y x0 damp in cl_cost1_2 st0 = [lsfun (cl_x st0)].
Proof.
  intros H st0. destruct (cgls_setup_inv x0 H) as (_ & _ & _ & _ & _ & Hs & _). fold st0 in Hs.
  unfold lsfun, lsres2. rewrite <- Hs. subst st0. unfold cgls_setup; cbn [cl_cost1_2 cl_s cl_x]. rewrite Habs.
  reflexivity.
Qed.

(* r2norm^2 = ||y - A x||^2 + damp^2 ||x||^2 for the returned x: all inputs, all k *)
Theorem cgls_r2norm_truthful x0 k : x0_ok x0 ->
  let st := cgls_iter k (cgls_setup y x0 damp) in cgls_r2norm2 st = lsfun (cl_x st).
Proof.
  intros H st. unfold cgls_r2norm2. subst st.
  replace (cl_iiter (cgls_iter k (cgls_setup y x0 damp))) with k
    by (rewrite cl_iiter_iter; simpl; lia).
  rewrite cgls_cost1_truthful_tail by auto.
  assert (L : length (cl_cost1_2 (cgls_setup y x0 damp)) = 1%nat) by reflexivity.
  destruct k as [|k].
  - rewrite cgls_cost1_setup_truthful by auto. reflexivity.
  - rewrite app_nth2 by (rewrite L; lia). rewrite L.
    replace (S k - 1)%nat with k by lia.
    rewrite (nth_indep _ 0 (lsfun (cl_x (cgls_iter 0 (cgls_setup y x0 damp))))) by (rewrite map_length, seq_length; lia).
    rewrite (map_nth (fun j => lsfun (cl_x (cgls_iter j (cgls_setup y x0 damp))))), seq_nth by lia. reflexivity.
Qed.

(* r1norm^2 = ||y - A x||^2 for the returned x: all inputs, all k *)
Theorem cgls_r1norm_truthful x0 k : x0_ok x0 ->
  let st := cgls_iter k (cgls_setup y x0 damp) in cgls_r1norm2 st = lsres2 (cl_x st).
Proof.
  intros H st. unfold cgls_r1norm2. subst st.
  replace (cl_iiter (cgls_iter k (cgls_setup y x0 damp))) with k by (rewrite cl_iiter_iter; simpl; lia).
  rewrite cgls_cost_truthful by auto.
  rewrite (nth_indep _ 0 (lsres2 (cl_x (cgls_iter 0 (cgls_setup y x0 damp))))) by (rewrite map_length, seq_length; lia).
  rewrite (map_nth (fun j => lsres2 (cl_x (cgls_iter j (cgls_setup y x0 damp))))), seq_nth by lia. reflexivity.
Qed.
End Inv.

End CGLS.

(* ================= CGLS simulates CG on the normal equations ================= *)
Section Sim.
Variable F : FieldS.
Add Ring RrCL2 : (rth F).
Add Field FfCL2 : (fth F).
Notation vec := (list F).
Variable absf : F -> F.
Variable n : nat.
Variable A : list (list F).
Hypothesis WA : wfM F n A.
Variable y : vec.
Hypothesis Hy : length y = length A.
Variable damp : F.
Hypothesis Hdamp : conj F damp = damp.            (* damp is a (real) float *)
Hypothesis Habs : forall v : vec, absf (dot F v v) = dot F v v.
Notation d2 := (damp * damp).

(* x |-> (A^H A + damp^2 I) x   and   A^H y *)
Definition normal_op (v : vec) : vec := vadd F (mvH F n A (mv F A v)) (vscale F d2 v).
Definition normal_rhs : vec := mvH F n A y.

Definition sim (cl : clst F) (cg : cgst F) : Prop :=
  cl_x F cl = cg_x F cg /\ cl_c F cl = cg_c F cg /\ cl_r F cl = cg_r F cg /\
  cl_kold F cl = cg_kold F cg /\ cl_iiter F cl = cg_iiter F cg.

Lemma herm_form (q c : vec) : absf (dot F q q + d2 * dot F c c) = dot F q q + d2 * dot F c c.
Proof.
  assert (E : dot F q q + d2 * dot F c c = dot F (q ++ vscale F damp c) (q ++ vscale F damp c)).
  { rewrite dot_app by reflexivity. rewrite dot_vscale_l, dot_vscale_r, Hdamp. ring. }
  rewrite E. apply Habs.
Qed.

Lemma normal_quad (c : vec) : length c = n ->
  dot F (normal_op c) c = dot F (mv F A c) (mv F A c) + d2 * dot F c c.
Proof.
  intros Lc. unfold normal_op. rewrite dot_vadd_l by (rewrite mvH_length, vscale_length; auto).
  rewrite dot_vscale_l, conj_mul, Hdamp. f_equal.
  rewrite <- (dot_conj_sym F c (mvH F n A (mv F A c))).
  rewrite <- (dot_mv_mvH F n A c (mv F A c)) by (auto; apply mv_length).
  apply dot_conj_sym.
Qed.

Lemma sim_setup x0 : x0_ok F n x0 ->
  sim (cgls_setup F absf n A y x0 damp) (cg_setup F absf normal_op n normal_rhs x0).
Proof.
  intros Hx. unfold sim, cgls_setup, cg_setup. destruct x0 as [v|]; simpl in *.
  - specialize (Hx v eq_refl).
    assert (E : vsub F (mvH F n A (vsub F y (mv F A v))) (vscale F d2 v) = vsub F normal_rhs (normal_op v)).
    { unfold normal_rhs, normal_op. rewrite mvH_vsub by (auto; apply mv_length).
      apply vsub_vsub; rewrite !mvH_length, ?vscale_length; auto. }
    rewrite E. repeat split; auto.
  - repeat split; auto.
Qed.

Lemma sim_step cl cg : cl_inv F n A y damp cl -> cl_rinv F n A damp cl -> sim cl cg ->
  sim (cgls_step F absf n A cl) (cg_step F absf normal_op cg).
Proof.
  intros (Lx & Ls & Lc & Lr & Hd & Hs & Hq) Hr (Ex & Ec & Er & Ek & Ei).
  assert (Lq : length (cl_q F cl) = length A) by (rewrite Hq; apply mv_length).
  assert (Ea : cl_kold F cl / (dot F (cl_q F cl) (cl_q F cl) + cl_damp F cl * dot F (cl_c F cl) (cl_c F cl)) =
               cg_kold F cg / absf (dot F (normal_op (cg_c F cg)) (cg_c F cg))).
  { rewrite <- Ec, <- Ek, normal_quad by auto. rewrite herm_form, <- Hq, Hd. reflexivity. }
  assert (ER : vsub F (mvH F n A (vsub F (cl_s F cl) (vscale F
                 (cl_kold F cl / (dot F (cl_q F cl) (cl_q F cl) + cl_damp F cl * dot F (cl_c F cl) (cl_c F cl))) (cl_q F cl))))
                 (vscale F (cl_damp F cl) (vadd F (cl_x F cl) (vscale F
                 (cl_kold F cl / (dot F (cl_q F cl) (cl_q F cl) + cl_damp F cl * dot F (cl_c F cl) (cl_c F cl))) (cl_c F cl)))) =
               vsub F (cg_r F cg) (vscale F (cg_kold F cg / absf (dot F (normal_op (cg_c F cg)) (cg_c F cg)))
                 (normal_op (cg_c F cg)))).
  { rewrite <- Ea. set (a := cl_kold F cl / _). rewrite <- Er, <- Ec, Hr, Hd. unfold normal_op. rewrite <- Hq.
    rewrite mvH_vsub_vscale by auto.
    apply r_update_eq; rewrite ?mvH_length; auto; congruence. }
  unfold sim, cgls_step, cg_step; cbn [cl_x cl_c cl_r cl_kold cl_iiter cg_x cg_c cg_r cg_kold cg_iiter].
  rewrite ER, <- Ea, Ex, Ec, Ek, Ei. repeat split; auto.
Qed.

(* C09: for all k, CGLS on (A, y, damp, x0) and CG on (A^H A + damp^2 I, A^H y, x0)
   have the same x_k, c_k, r_k, kold_k *)
Theorem cgls_simulates_cg x0 k : x0_ok F n x0 ->
  sim (cgls_iter F absf n A k (cgls_setup F absf n A y x0 damp))
      (cg_iter F absf normal_op k (cg_setup F absf normal_op n normal_rhs x0)).
Proof.
  intros Hx. induction k as [|k IH]; [apply sim_setup; auto|].
  unfold cgls_iter, cg_iter; cbn [loop_iter]; fold (cgls_iter F absf n A) (cg_iter F absf normal_op).
  apply sim_step; auto.
  - apply cgls_inv_iter; auto.
  - apply cgls_rinv_iter; auto.
Qed.

Lemma normal_op_linop : linop F n n normal_op.
Proof.
  repeat split.
  - intros v Hv. unfold normal_op. apply vadd_length_eq; rewrite ?mvH_length, ?vscale_length; auto.
  - intros x c a Lx Lc. unfold normal_op.
    rewrite mv_vadd, mv_vscale by (rewrite vscale_length; congruence).
    assert (E : forall u w, length u = length A -> length w = length A ->
              mvH F n A (vadd F u (vscale F a w)) = vadd F (mvH F n A u) (vscale F a (mvH F n A w))).
    { intros u w Lu Lw. unfold mvH. assert (L : length (mconj F A) = length A) by (unfold mconj; apply map_length).
      rewrite mvT_vadd, mvT_vscale; auto using wfM_mconj; rewrite ?vscale_length; congruence. }
    rewrite E by apply mv_length. apply n_update_eq; rewrite ?mvH_length; auto; congruence.
  - unfold normal_op. rewrite mv_zeros, vscale_zeros, mvH_zeros by auto.
    pose proof (vadd_zeros_l F (zeros F n)) as E. rewrite zeros_length in E. exact E.
Qed.
End Sim.
