(* OMP.v — model of pylops.optimization.cls_sparsity.OMP (setup / step / run /
   finalize) and of linearoperator._ColumnLinearOperator, over an ordered
   field (real case).

   What is modelled as the code does it:
   * state  (cols, x, res, cost, iiter)           [x = coefficients ON cols]
   * setup: res = y, cost = [norm y], iiter = 0   (+ column norms when normalizecols)
   * step:  cres = Op^H res ; score = |cres| (/ norms) ; imax = ANY index of
            maximal score (the code draws one of the maximisers with the
            global numpy RNG: the model is a relation) ; append to cols if new;
            niter_inner = 0  ->  MP update  res -= Op[:,imax]*cres[imax],
                                 x.append(cres[imax]) or x[pos] += cres[imax]
            niter_inner > 0  ->  x = inner(cols) ; res = y - Op[:,cols] x
            iiter += 1 ; cost.append(norm res)
   * run:   while iiter < niter_outer and cost[iiter] > sigma: step
   * finalize: xfin = zeros(n); xfin[cols] = x  (sequential assignment)
   Oracles (Section variables): [nrm] = numpy.linalg.norm (no sqrt in an
   ordered field; only its monotonicity in the squared norm is ever assumed,
   and only for the corollary on [cost] itself); [inner cols] = the vector
   returned by scipy lsqr / pylops cgls on the column-restricted operator,
   assumed to have the right length and to solve the restricted normal
   equations  Op[:,cols]^T (y - Op[:,cols] x) = 0. *)
From PV Require Export Mat.
From Coq Require Import List Arith Lia Bool.
Import ListNotations.
Local Open Scope R_scope.

(* ------------------------------------------------------------------ *)
Section OrdBasics.
Variable F : OrdField.
Add Ring RrOB : (rth F).
Notation vec := (list F).

Lemma omp_le_sub (a b : F) : rle F a b <-> rle F 0 (b - a).
Proof. split; intro H.
  - pose proof (rle_add F a b (- a) H) as H1.
    replace (a + - a) with (r0 F) in H1 by ring. replace (b + - a) with (b - a) in H1 by ring. exact H1.
  - pose proof (rle_add F 0 (b - a) a H) as H1.
    replace (0 + a) with a in H1 by ring. replace (b - a + a) with b in H1 by ring. exact H1.
Qed.
Lemma omp_add_nonneg (a b : F) : rle F 0 a -> rle F 0 b -> rle F 0 (a + b).
Proof. intros Ha Hb. apply (rle_trans F 0 b); auto.
  pose proof (rle_add F 0 a b Ha) as H. replace (0 + b) with b in H by ring. exact H. Qed.
Lemma omp_sq_nonneg (a : F) : rle F 0 (a * a).
Proof. destruct (rle_total F 0 a) as [H|H].
  - apply rle_mul; auto.
  - assert (H1 : rle F 0 (- a)).
    { pose proof (rle_add F a 0 (- a) H) as H1. replace (a + - a) with (r0 F) in H1 by ring.
      replace (0 + - a) with (- a) in H1 by ring. exact H1. }
    replace (a * a) with ((- a) * (- a)) by ring. apply rle_mul; auto.
Qed.

Definition sqn (u : vec) : F := dotu F u u.
Lemma sqn_nonneg u : rle F 0 (sqn u).
Proof. unfold sqn; induction u as [|a u IH]; simpl; [apply rle_refl|].
  apply omp_add_nonneg; auto using omp_sq_nonneg. Qed.

(* ---- list-vector plumbing ---- *)
Lemma vsub_zeros_r (u : vec) : vsub F u (zeros F (length u)) = u.
Proof. unfold vsub, zeros; induction u as [|a u IH]; simpl; auto. rewrite IH; f_equal; ring. Qed.
Lemma vsub_split (u b c : vec) : length u = length b -> length b = length c ->
  vsub F u c = vadd F (vsub F u b) (vsub F b c).
Proof. revert b c; induction u as [|a u IH]; intros [|x b] [|z c] H1 H2; simpl in *; try discriminate; auto.
  unfold vsub, vadd in *; simpl. rewrite (IH b c) by lia. f_equal; ring. Qed.
Lemma sqn_vadd (u v : vec) : length u = length v ->
  sqn (vadd F u v) = sqn u + (dotu F u v + dotu F u v) + sqn v.
Proof. intros H; unfold sqn. rewrite dotu_vadd_l, !dotu_vadd_r by auto.
  rewrite (dotu_comm F v u). ring. Qed.
Lemma sqn_vsub_vscale (u a : vec) (c : F) : length u = length a ->
  sqn (vsub F u (vscale F c a)) = sqn u - (c + c) * dotu F a u + c * c * sqn a.
Proof. unfold sqn. revert a; induction u as [|x u IH]; intros [|z a] H; simpl in *; try discriminate; [ring|].
  unfold vsub, vscale in *; simpl. rewrite IH by lia. ring. Qed.
Lemma mv_vsub (M : list (list F)) (x z : vec) : length x = length z ->
  mv F M (vsub F x z) = vsub F (mv F M x) (mv F M z).
Proof. intros H; induction M as [|r M IH]; simpl; auto.
  unfold vsub in *; simpl. rewrite IH. f_equal. apply dotu_vsub_r; auto. Qed.
Lemma nth_zeros n k : nth k (zeros F n) 0 = 0.
Proof. unfold zeros. revert k; induction n as [|n IH]; intros [|k]; simpl; auto. Qed.
End OrdBasics.
Arguments sqn {F} u.

(* ------------------------------------------------------------------ *)
Section ColumnOp.
(* _ColumnLinearOperator: explicit path  Op.A[:, cols] @ x ; matrix-free path
   y = zeros(n); y[cols] = x; Op._matvec(y).  Also OMP.finalize (same scatter). *)
Variable F : OrdField.
Add Ring RrCO : (rth F).
Notation vec := (list F).
Notation mat := (list (list F)).

Definition cols_mat (A : mat) (cs : list nat) : mat := map (fun r => map (fun j => nth j r 0) cs) A.

Fixpoint upd (v : vec) (j : nat) (a : F) : vec :=          (* v[j] = a *)
  match v, j with
  | [], _ => []
  | _ :: v', O => a :: v'
  | b :: v', S j' => b :: upd v' j' a
  end.
Fixpoint scat (acc : vec) (cs : list nat) (x : vec) : vec :=   (* acc[cs] = x, in order *)
  match cs, x with j :: cs', a :: x' => scat (upd acc j a) cs' x' | _, _ => acc end.
Definition scatter (n : nat) (cs : list nat) (x : vec) : vec := scat (zeros F n) cs x.

Lemma upd_length v j a : length (upd v j a) = length v.
Proof. revert j; induction v as [|b v IH]; intros [|j]; simpl; auto. Qed.
Lemma nth_upd_ne v j k a : j <> k -> nth k (upd v j a) 0 = nth k v 0.
Proof. revert j k; induction v as [|b v IH]; intros [|j] [|k] H; simpl; auto; try congruence. Qed.
Lemma dotu_upd r v j a : length r = length v -> j < length v ->
  dotu F r (upd v j a) = dotu F r v + nth j r 0 * (a - nth j v 0).
Proof. revert r j; induction v as [|b v IH]; intros [|x r] [|j] H L; simpl in *; try discriminate; try lia; try ring.
  rewrite IH by lia. ring. Qed.
Lemma scat_length acc cs x : length (scat acc cs x) = length acc.
Proof. revert acc x; induction cs as [|j cs IH]; intros acc [|a x]; simpl; auto. rewrite IH, upd_length; auto. Qed.
Lemma nth_scat_notin acc cs x k : ~ In k cs -> nth k (scat acc cs x) 0 = nth k acc 0.
Proof. revert acc x; induction cs as [|j cs IH]; intros acc [|a x] H; simpl in *; auto.
  rewrite IH by tauto. apply nth_upd_ne; tauto. Qed.
Lemma dotu_scat r acc cs x : length r = length acc -> NoDup cs ->
  Forall (fun j => j < length acc) cs -> (forall j, In j cs -> nth j acc 0 = 0) ->
  dotu F r (scat acc cs x) = dotu F r acc + dotu F (map (fun j => nth j r 0) cs) x.
Proof. revert acc x; induction cs as [|j cs IH]; intros acc [|a x] Hl Hn Hf Hz; simpl; try ring.
  inversion Hn; subst. inversion Hf; subst.
  rewrite IH; auto.
  - rewrite dotu_upd by auto. rewrite (Hz j) by (left; auto). ring.
  - rewrite upd_length; auto.
  - rewrite upd_length; auto.
  - intros k Hk. rewrite nth_upd_ne; [apply Hz; right; auto|]. intros ->; tauto.
Qed.

(* the two code paths of _ColumnLinearOperator._matvec agree; this is also
   "Op @ finalize(x, cols) = Op[:,cols] @ x" *)
Theorem mv_scatter n (A : mat) cs x : wfM F n A -> NoDup cs -> Forall (fun j => j < n) cs ->
  mv F A (scatter n cs x) = mv F (cols_mat A cs) x.
Proof. intros W Hn Hf. unfold mv, cols_mat. rewrite map_map. apply map_ext_in. intros r Hr.
  assert (length r = n) by (eapply Forall_forall in W; eauto).
  unfold scatter. rewrite dotu_scat; auto.
  - rewrite dotu_zeros_r. ring.
  - rewrite zeros_length; auto.
  - rewrite zeros_length; auto.
  - intros; apply nth_zeros.
Qed.
Theorem scatter_support n cs x k : nth k (scatter n cs x) 0 <> 0 -> In k cs.
Proof. intros H. destruct (in_dec Nat.eq_dec k cs) as [I|I]; auto.
  exfalso; apply H. unfold scatter. rewrite nth_scat_notin by auto. apply nth_zeros. Qed.

Lemma col_length j (A : mat) : length (col F j A) = length A.
Proof. apply map_length. Qed.
Lemma mv_cols_nil (A : mat) d : mv F (cols_mat A []) d = zeros F (length A).
Proof. unfold mv, cols_mat, zeros. induction A as [|r A IH]; simpl; auto. f_equal; auto. Qed.
Lemma mv_cols_dnil (A : mat) cs : mv F (cols_mat A cs) [] = zeros F (length A).
Proof. unfold mv, cols_mat, zeros. induction A as [|r A IH]; simpl; auto. f_equal; auto. apply dotu_nil_r. Qed.
Lemma mv_cols_cons (A : mat) j cs a d :
  mv F (cols_mat A (j :: cs)) (a :: d) = vadd F (vscale F a (col F j A)) (mv F (cols_mat A cs) d).
Proof. unfold mv, cols_mat, col, vscale, vadd.
  induction A as [|r A IH]; simpl; auto. f_equal; [ring | apply IH]. Qed.
Lemma mv_cols_snoc (A : mat) cs i x a : length x = length cs ->
  mv F (cols_mat A (cs ++ [i])) (x ++ [a]) = vadd F (mv F (cols_mat A cs) x) (vscale F a (col F i A)).
Proof. intros H. unfold mv, cols_mat, col, vscale, vadd.
  induction A as [|r A IH]; cbn [map map2]; auto. f_equal; [|apply IH].
  rewrite map_app, dotu_app by (rewrite map_length; auto). simpl. ring. Qed.
Lemma mv_cols_snoc0 (A : mat) cs i x : length x = length cs ->
  mv F (cols_mat A (cs ++ [i])) (x ++ [0]) = mv F (cols_mat A cs) x.
Proof. intros H. unfold mv, cols_mat. rewrite !map_map. apply map_ext. intros r.
  rewrite map_app, dotu_app by (rewrite map_length; auto). simpl. ring. Qed.
Lemma mv_cols_single (A : mat) i c : mv F (cols_mat A [i]) [c] = vscale F c (col F i A).
Proof. unfold mv, cols_mat, col, vscale. rewrite !map_map. apply map_ext. intros; simpl; ring. Qed.

(* residual orthogonal to the selected columns <-> orthogonal to their span *)
Lemma orth_span (A : mat) cs (r : vec) : length r = length A ->
  (forall j, In j cs -> dotu F (col F j A) r = 0) ->
  forall d, dotu F r (mv F (cols_mat A cs) d) = 0.
Proof. intros Hr. induction cs as [|j cs IH]; intros H d.
  - rewrite mv_cols_nil. apply dotu_zeros_r.
  - destruct d as [|a d]; [rewrite mv_cols_dnil; apply dotu_zeros_r|].
    rewrite mv_cols_cons, dotu_vadd_r, dotu_vscale_r.
    + rewrite IH by (intros; apply H; right; auto). rewrite (dotu_comm F r), (H j) by (left; auto). ring.
    + rewrite vscale_length, col_length, mv_length. unfold cols_mat; rewrite map_length; auto.
Qed.

(* least squares: a solution of the normal equations has minimal residual
   over everything supported on the same columns  (ring identity + square) *)
Theorem ls_minimal (B : mat) (y x z : vec) : length y = length B -> length x = length z ->
  (forall d, dotu F (vsub F y (mv F B x)) (mv F B d) = 0) ->
  rle F (sqn (vsub F y (mv F B x))) (sqn (vsub F y (mv F B z))).
Proof. intros Hy Hxz Ho.
  rewrite (vsub_split F y (mv F B x) (mv F B z)) by (rewrite ?mv_length; auto).
  rewrite <- mv_vsub by auto.
  rewrite sqn_vadd by (rewrite vsub_length, !mv_length; lia).
  rewrite Ho. apply omp_le_sub.
  match goal with |- rle F 0 ?e => replace e with (sqn (mv F B (vsub F x z))) by ring end.
  apply sqn_nonneg.
Qed.
End ColumnOp.
Arguments cols_mat {F} A cs.
Arguments scatter {F} n cs x.
Arguments upd {F} v j a.

Lemma NoDup_snoc (l : list nat) i : NoDup l -> ~ In i l -> NoDup (l ++ [i]).
Proof. induction l as [|a l IH]; simpl; intros Hn Hi.
  - repeat constructor; auto.
  - inversion Hn; subst. constructor.
    + rewrite in_app_iff; simpl. intros [H|[H|[]]]; [tauto | subst; tauto].
    + apply IH; tauto.
Qed.

(* ------------------------------------------------------------------ *)
Section OMP.
Variable F : OrdField.
Add Ring RrOMP : (rth F).
Notation vec := (list F).
Notation mat := (list (list F)).

Variable nrm : vec -> F.               (* numpy.linalg.norm (oracle) *)
Variable n : nat.                      (* Op.shape[1] *)
Variable A : mat.                      (* the dictionary, rows *)
Variable y : vec.
Variable normalize : bool.             (* normalizecols *)
Variable niter_outer : nat.
Variable sigma : F.
Variable inner : list nat -> vec.      (* lsqr(Op.apply_columns(cols), y, iter_lim=niter_inner)[0] *)

Record state := { cols : list nat; xc : vec; res : vec; cost : list F; iiter : nat }.

Definition rabs (a : F) : F := if rleb F 0 a then a else - a.
(* self.norms[icol] = norm(Op.matvec(unit_icol)) *)
Definition norms : vec := map (fun j => nrm (mv F A (unit F n j))) (seq 0 n).
Definition setup : state := {| cols := []; xc := []; res := y; cost := [nrm y]; iiter := 0 |}.

(* entry j of Op.rmatvec(res) = <column j, res> *)
Definition cres (s : state) (j : nat) : F := dotu F (col F j A) (res s).
Definition score (s : state) (j : nat) : F :=
  if normalize then rabs (cres s j) / nth j norms 0 else rabs (cres s j).
(* imax may be ANY index whose score equals the maximum *)
Definition is_argmax (s : state) (i : nat) : Prop := i < n /\ forall j, j < n -> rle F (score s j) (score s i).

Definition mem (i : nat) (cs : list nat) : bool := existsb (Nat.eqb i) cs.
Fixpoint index_of (i : nat) (cs : list nat) : option nat :=
  match cs with [] => None | j :: cs' => if Nat.eqb i j then Some O else option_map S (index_of i cs') end.
Definition add_at (x : vec) (k : nat) (c : F) : vec := upd x k (nth k x 0 + c).   (* x[k] += c *)

Definition step_omp (s : state) (i : nat) : state :=
  let cols' := if mem i (cols s) then cols s else cols s ++ [i] in
  let x' := inner cols' in
  let res' := vsub F y (mv F (cols_mat A cols') x') in
  {| cols := cols'; xc := x'; res := res'; cost := cost s ++ [nrm res']; iiter := S (iiter s) |}.

Definition step_mp (s : state) (i : nat) : state :=
  let c := cres s i in
  let res' := vsub F (res s) (mv F (cols_mat A [i]) [c]) in
  let cx := match index_of i (cols s) with
            | None => (cols s ++ [i], xc s ++ [c])
            | Some k => (cols s, add_at (xc s) k c) end in
  {| cols := fst cx; xc := snd cx; res := res'; cost := cost s ++ [nrm res']; iiter := S (iiter s) |}.

(* while self.iiter < self.niter_outer and self.cost[self.iiter] > self.sigma *)
Definition guard (s : state) : Prop := iiter s < niter_outer /\ rleb F (nth (iiter s) (cost s) 0) sigma = false.
Definition finalize (s : state) : vec := scatter n (cols s) (xc s).
Definition resid (x : vec) : vec := vsub F y (mv F A x).

(* histories of run(): newest state first *)
Inductive trace (step : state -> nat -> state) : list state -> Prop :=
| trace_setup : trace step [setup]
| trace_step s tr i : trace step (s :: tr) -> guard s -> is_argmax s i -> trace step (step s i :: s :: tr).
Definition reach step (s : state) : Prop := exists tr, trace step (s :: tr).

(* deterministic replay with the implementation's own choices (used by the
   correspondence): *)
Fixpoint run_with (step : state -> nat -> state) (choices : list nat) (s : state) : list state :=
  match choices with [] => [s] | i :: ch => s :: run_with step ch (step s i) end.

Hypothesis Hwf : wfM F n A.
Hypothesis Hy : length y = length A.

(* ---- facts that hold for ANY state: support ---- *)
Theorem omp_support_any (s : state) k : nth k (finalize s) 0 <> 0 -> In k (cols s).
Proof. apply scatter_support. Qed.

(* ---- matching pursuit: the exact change of the residual ---- *)
Lemma mp_res (s : state) i : res (step_mp s i) = vsub F (res s) (vscale F (cres s i) (col F i A)).
Proof. unfold step_mp; cbn [res]. rewrite mv_cols_single; auto. Qed.
Theorem mp_step_identity (s : state) i : length (res s) = length A ->
  sqn (res (step_mp s i)) = sqn (res s) - cres s i * cres s i * (1 + 1 - sqn (col F i A)).
Proof. intros H. rewrite mp_res, sqn_vsub_vscale by (rewrite col_length; auto). unfold cres. ring. Qed.
Theorem mp_monotone_step (s : state) i : length (res s) = length A ->
  rle F (sqn (col F i A)) (1 + 1) -> rle F (sqn (res (step_mp s i))) (sqn (res s)).
Proof. intros H Hc. apply omp_le_sub. rewrite mp_step_identity by auto.
  match goal with |- rle F 0 ?e => replace e with ((cres s i * cres s i) * (1 + 1 - sqn (col F i A))) by ring end.
  apply rle_mul; [apply omp_sq_nonneg | apply omp_le_sub in Hc; exact Hc]. Qed.

(* ---- OMP ---- *)
Hypothesis inner_length : forall cs, length (inner cs) = length cs.
Hypothesis inner_normal : forall cs, NoDup cs -> Forall (fun j => j < n) cs ->
  forall j, In j cs -> dotu F (col F j A) (vsub F y (mv F (cols_mat A cs) (inner cs))) = 0.

Definition Inv (s : state) : Prop :=
  NoDup (cols s) /\ Forall (fun j => j < n) (cols s) /\ length (xc s) = length (cols s) /\
  res s = vsub F y (mv F (cols_mat A (cols s)) (xc s)) /\
  (forall j, In j (cols s) -> dotu F (col F j A) (res s) = 0) /\
  length (cost s) = S (iiter s).

Lemma mem_false i cs : mem i cs = false -> ~ In i cs.
Proof. unfold mem. intros H I. assert (existsb (Nat.eqb i) cs = true).
  { apply existsb_exists. exists i; split; auto. apply Nat.eqb_refl. } congruence. Qed.

Lemma Inv_setup : Inv setup.
Proof. unfold Inv, setup; cbn [cols xc res cost iiter].
  split; [constructor | split; [constructor | split; [ | split; [ | split ]]]]; auto.
  - rewrite mv_cols_nil, <- Hy, vsub_zeros_r; auto.
  - intros j [].
Qed.
Lemma Inv_res_resid s : Inv s -> res s = resid (finalize s).
Proof. intros (Hn & Hf & _ & Hr & _). unfold resid, finalize. rewrite mv_scatter; auto. Qed.

Lemma newcols_ok s i : Inv s -> i < n ->
  let cols' := if mem i (cols s) then cols s else cols s ++ [i] in
  NoDup cols' /\ Forall (fun j => j < n) cols'.
Proof. intros (Hn & Hf & _) Hi. cbv zeta. destruct (mem i (cols s)) eqn:E; auto.
  apply mem_false in E. split.
  - apply NoDup_snoc; auto.
  - apply Forall_app; split; auto.
Qed.

Lemma Inv_step s i : Inv s -> i < n -> Inv (step_omp s i).
Proof. intros HI Hi. destruct (newcols_ok s i HI Hi) as [Hn' Hf']. cbv zeta in *.
  destruct HI as (Hn & Hf & Hl & Hr & Ho & Hc).
  unfold Inv, step_omp; cbn [cols xc res cost iiter].
  split; [auto | split; [auto | split; [ | split; [ | split ]]]]; auto.
  rewrite app_length, Hc; simpl; lia.
Qed.

(* least squares on a growing column set never increases the residual *)
Lemma omp_step_decreases s i : Inv s -> i < n -> rle F (sqn (res (step_omp s i))) (sqn (res s)).
Proof. intros HI Hi. destruct (newcols_ok s i HI Hi) as [Hn' Hf']. cbv zeta in *.
  destruct HI as (Hn & Hf & Hl & Hr & Ho & Hc).
  unfold step_omp; cbn [res]. set (cs' := if mem i (cols s) then cols s else cols s ++ [i]) in *.
  assert (Hsp : forall d, dotu F (vsub F y (mv F (cols_mat A cs') (inner cs'))) (mv F (cols_mat A cs') d) = 0).
  { apply orth_span.
    - rewrite vsub_length, mv_length. unfold cols_mat; rewrite map_length. lia.
    - intros j Hj. apply inner_normal; auto. }
  assert (HB : length y = length (cols_mat A cs')) by (unfold cols_mat; rewrite map_length; auto).
  rewrite Hr. subst cs'. destruct (mem i (cols s)) eqn:E.
  - apply ls_minimal; auto. rewrite inner_length; auto.
  - rewrite <- (mv_cols_snoc0 F A (cols s) i (xc s)) by auto.
    apply ls_minimal; auto. rewrite inner_length, !app_length, Hl; auto.
Qed.

Lemma trace_Inv tr : trace step_omp tr -> Forall Inv tr.
Proof. induction 1 as [|s tr i Ht IH Hg Ha].
  - constructor; auto using Inv_setup.
  - constructor; auto. inversion IH; subst. apply Inv_step; auto. apply Ha.
Qed.
Lemma reach_Inv s : reach step_omp s -> Inv s.
Proof. intros [tr Ht]. apply trace_Inv in Ht. inversion Ht; auto. Qed.

Theorem omp_support s : reach step_omp s -> forall k, nth k (finalize s) 0 <> 0 -> In k (cols s).
Proof. intros _ k. apply omp_support_any. Qed.

Theorem omp_residual_orthogonal s : reach step_omp s ->
  forall j, In j (cols s) -> dotu F (col F j A) (resid (finalize s)) = 0.
Proof. intros Hs j Hj. apply reach_Inv in Hs. rewrite <- Inv_res_resid by auto.
  destruct Hs as (_ & _ & _ & _ & Ho & _). auto. Qed.

(* the whole cost history is the list of true residual norms of the successive iterates *)
Theorem omp_cost_truthful s tr : trace step_omp (s :: tr) ->
  cost s = rev (map (fun t => nrm (resid (finalize t))) (s :: tr)) /\ iiter s = length tr.
Proof. remember (s :: tr) as l eqn:E. intros Ht. revert s tr E.
  induction Ht as [|s0 tr0 i Ht IH Hg Ha]; intros s tr E; inversion E; subst.
  - cbn. unfold resid, finalize, scatter; cbn. rewrite mv_zeros, <- Hy, vsub_zeros_r; auto.
  - destruct (IH s0 tr0 eq_refl) as [IH1 IH2].
    assert (HI : Inv (step_omp s0 i)).
    { apply trace_Inv in Ht. inversion Ht; subst. apply Inv_step; auto. apply Ha. }
    split; [|cbn; rewrite IH2; auto].
    change (map (fun t => nrm (resid (finalize t))) (step_omp s0 i :: s0 :: tr0))
      with (nrm (resid (finalize (step_omp s0 i))) :: map (fun t => nrm (resid (finalize t))) (s0 :: tr0)).
    cbn [rev]. rewrite <- IH1. rewrite <- Inv_res_resid by auto. reflexivity.
Qed.

(* newest first: squared residuals increase towards the past *)
Fixpoint chain (l : list F) : Prop :=
  match l with a :: (b :: _) as t => rle F a b /\ chain t | _ => True end.

Theorem omp_cost_monotone_sq tr : trace step_omp tr -> chain (map (fun t => sqn (resid (finalize t))) tr).
Proof. induction 1 as [|s tr i Ht IH Hg Ha]; [cbn; auto|].
  pose proof (trace_Inv _ Ht) as HI. inversion HI; subst.
  cbn [map chain]. split; [|exact IH].
  rewrite <- !Inv_res_resid; auto.
  - apply omp_step_decreases; auto. apply Ha.
  - apply Inv_step; auto. apply Ha.
Qed.

(* and the recorded cost list itself is non-increasing as soon as the norm
   oracle is monotone in the squared norm (true of sqrt) *)
Hypothesis nrm_mono : forall u v, rle F (sqn u) (sqn v) -> rle F (nrm u) (nrm v).
Lemma chain_nrm tr : chain (map (fun t : state => sqn (resid (finalize t))) tr) ->
  chain (map (fun t => nrm (resid (finalize t))) tr).
Proof. induction tr as [|a tr IH]; [cbn; auto|]. destruct tr as [|b tr]; [cbn; auto|].
  cbn [map chain] in *. intros [H1 H2]. split; [apply nrm_mono; auto | apply IH; auto]. Qed.
Theorem omp_cost_monotone s tr : trace step_omp (s :: tr) -> chain (rev (cost s)).
Proof. intros Ht. destruct (omp_cost_truthful s tr Ht) as [-> _]. rewrite rev_involutive.
  apply chain_nrm, omp_cost_monotone_sq; auto. Qed.
End OMP.

(* ------------------------------------------------------------------ *)
(* matching pursuit (niter_inner = 0) along whole runs *)
Section MPaux.
Variable F : OrdField.
Add Ring RrMPa : (rth F).
Notation vec := (list F).
Notation mat := (list (list F)).
Lemma vsub_vsub (u v w : vec) : length u = length v -> length v = length w ->
  vsub F (vsub F u v) w = vsub F u (vadd F v w).
Proof. revert v w; induction u as [|a u IH]; intros [|b v] [|c w] H1 H2; simpl in *; try discriminate; auto.
  unfold vsub, vadd in *; simpl. rewrite IH by lia. f_equal; ring. Qed.

Lemma index_of_spec i cs : match index_of i cs with
  | Some k => k < length cs /\ nth k cs 0%nat = i
  | None => ~ In i cs end.
Proof. induction cs as [|j cs IH]; simpl; [tauto|].
  destruct (Nat.eqb_spec i j) as [->|N].
  - split; [lia | auto].
  - destruct (index_of i cs) as [k|]; simpl.
    + destruct IH; split; [lia | auto].
    + intros [H|H]; [congruence | tauto].
Qed.

Lemma nth_map_dflt {X Y} (f : X -> Y) l k d d' : k < length l -> nth k (map f l) d = f (nth k l d').
Proof. revert k; induction l as [|a l IH]; intros [|k] H; simpl in *; try lia; auto. apply IH; lia. Qed.

Lemma mv_cols_add_at (A : mat) cs (x : vec) k c : length x = length cs -> k < length cs ->
  mv F (cols_mat A cs) (add_at F x k c) = vadd F (mv F (cols_mat A cs) x) (vscale F c (col F (nth k cs 0%nat) A)).
Proof. intros Hl Hk. unfold mv, cols_mat, col, vscale, vadd, add_at.
  induction A as [|r A' IH]; cbn [map map2]; auto. f_equal; [|apply IH].
  rewrite dotu_upd by (rewrite ?map_length; lia).
  rewrite (nth_map_dflt (fun j => nth j r 0) cs k 0 0%nat) by lia. ring. Qed.

End MPaux.
Section MP.
Variable F : OrdField.
Add Ring RrMP : (rth F).
Notation vec := (list F).
Notation mat := (list (list F)).
Variable nrm : vec -> F.
Variable n : nat.
Variable A : mat.
Variable y : vec.
Variable normalize : bool.
Variable niter_outer : nat.
Variable sigma : F.
Hypothesis Hwf : wfM F n A.
Hypothesis Hy : length y = length A.

Notation stepmp := (step_mp F nrm A).
Notation tracemp := (trace F nrm n A y normalize niter_outer sigma stepmp).

Definition InvMP (s : state F) : Prop :=
  NoDup (cols F s) /\ Forall (fun j => j < n) (cols F s) /\ length (xc F s) = length (cols F s) /\
  res F s = vsub F y (mv F (cols_mat A (cols F s)) (xc F s)).

Lemma InvMP_setup : InvMP (setup F nrm y).
Proof. unfold InvMP, setup; cbn [cols xc res].
  split; [constructor | split; [constructor | split; [auto|]]].
  rewrite mv_cols_nil, <- Hy, vsub_zeros_r; auto. Qed.

Lemma InvMP_step s i : InvMP s -> i < n -> InvMP (stepmp s i).
Proof. intros (Hn & Hf & Hl & Hr) Hi.
  assert (Hlen : length (mv F (cols_mat A (cols F s)) (xc F s)) = length A)
    by (rewrite mv_length; unfold cols_mat; rewrite map_length; auto).
  unfold InvMP, step_mp; cbn [cols xc res]. rewrite mv_cols_single.
  pose proof (index_of_spec i (cols F s)) as Hix.
  destruct (index_of i (cols F s)) as [k|]; cbn [fst snd].
  - destruct Hix as [Hk Hnth]. split; [auto | split; [auto | split]].
    + unfold add_at. rewrite upd_length; auto.
    + rewrite (mv_cols_add_at F), Hnth by auto. rewrite Hr. apply (vsub_vsub F).
      * lia.
      * rewrite vscale_length, col_length; auto.
  - split; [apply NoDup_snoc; auto | split; [apply Forall_app; split; auto | split]].
    + rewrite !app_length, Hl; auto.
    + rewrite mv_cols_snoc by auto. rewrite Hr. apply (vsub_vsub F).
      * lia.
      * rewrite vscale_length, col_length; auto.
Qed.

Lemma InvMP_res s : InvMP s -> res F s = resid F A y (finalize F n s).
Proof. intros (Hn & Hf & _ & Hr). unfold resid, finalize. rewrite mv_scatter; auto. Qed.

Lemma tracemp_Inv tr : tracemp tr -> Forall InvMP tr.
Proof. induction 1 as [|s tr i Ht IH Hg Ha].
  - constructor; auto using InvMP_setup.
  - constructor; auto. inversion IH; subst. apply InvMP_step; auto. apply Ha. Qed.

(* MP: the cost history is truthful too (in exact arithmetic the incrementally
   updated residual IS y - A x) *)
Theorem mp_cost_truthful s tr : tracemp (s :: tr) ->
  cost F s = rev (map (fun t => nrm (resid F A y (finalize F n t))) (s :: tr)) /\ iiter F s = length tr.
Proof. remember (s :: tr) as l eqn:E. intros Ht. revert s tr E.
  induction Ht as [|s0 tr0 i Ht IH Hg Ha]; intros s tr E; inversion E; subst.
  - cbn. unfold resid, finalize, scatter; cbn. rewrite mv_zeros, <- Hy, vsub_zeros_r; auto.
  - destruct (IH s0 tr0 eq_refl) as [IH1 IH2].
    assert (HI : InvMP (stepmp s0 i)).
    { apply tracemp_Inv in Ht. inversion Ht; subst. apply InvMP_step; auto. apply Ha. }
    split; [|cbn; rewrite IH2; auto].
    change (map (fun t => nrm (resid F A y (finalize F n t))) (stepmp s0 i :: s0 :: tr0))
      with (nrm (resid F A y (finalize F n (stepmp s0 i))) :: map (fun t => nrm (resid F A y (finalize F n t))) (s0 :: tr0)).
    cbn [rev]. rewrite <- IH1. rewrite <- InvMP_res by auto. reflexivity.
Qed.

(* MP monotone under the condition the coded update needs: every column has
   squared norm <= 2 (in particular: unit-norm columns) *)
Theorem mp_monotone tr : (forall j, j < n -> rle F (sqn (col F j A)) (1 + 1)) ->
  tracemp tr -> chain F (map (fun t => sqn (resid F A y (finalize F n t))) tr).
Proof. intros Hc. induction 1 as [|s tr i Ht IH Hg Ha]; [cbn; auto|].
  pose proof (tracemp_Inv _ Ht) as HI. inversion HI as [|? ? HIs HItr]; subst.
  cbn [map chain]. split; [|exact IH].
  rewrite <- !InvMP_res; auto.
  - apply mp_monotone_step.
    + destruct HIs as (_ & _ & _ & Hr). rewrite Hr, vsub_length, mv_length.
      unfold cols_mat; rewrite map_length. lia.
    + apply Hc, Ha.
  - apply InvMP_step; auto. apply Ha.
Qed.
End MP.
