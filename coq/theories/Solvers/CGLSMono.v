(* CGLSMono.v — over an ordered field (conj = id): the functional
   J(x) = ||y - A x||^2 + damp^2 ||x||^2 never increases along the CGLS
   iteration (all inputs, all k); kold = 0 gives the damped normal
   equations; the damped normal equations characterise the minimiser of J. *)
From PV Require Export CGLS.
Local Open Scope R_scope.

Section Ord.
Variable O : OrdField.
Add Ring RrM : (rth O).
Add Field FfM : (fth O).
Notation vec := (list O).

Lemma add_nonneg (a b : O) : 0 <= a -> 0 <= b -> 0 <= a + b.
Proof. intros Ha Hb. apply (rle_trans O 0 b (a + b)); auto.
  pose proof (rle_add O 0 a b Ha) as H. replace (0 + b) with b in H by ring. exact H. Qed.
Lemma sq_nonneg (a : O) : 0 <= a * a.
Proof. destruct (rle_total O 0 a) as [H|H]; [apply rle_mul; auto|].
  assert (H' : 0 <= - a). { pose proof (rle_add O a 0 (- a) H) as E. replace (a + - a) with (r0 O) in E by ring.
    replace (0 + - a) with (- a) in E by ring. exact E. }
  replace (a * a) with ((- a) * (- a)) by ring. apply rle_mul; auto. Qed.
Lemma dot_nonneg (v : vec) : 0 <= dot O v v.
Proof. induction v as [|a v IH]; [apply rle_refl|].
  change (dot O (a :: v) (a :: v)) with (conj O a * a + dot O v v). rewrite conj_real.
  apply add_nonneg; [apply sq_nonneg | exact IH]. Qed.
Lemma dot_sym (u v : vec) : dot O u v = dot O v u.
Proof. rewrite <- (dot_conj_sym O v u). apply conj_real. Qed.

Variable absf : O -> O.
Variable n : nat.
Variable A : list (list O).
Hypothesis WA : wfM O n A.
Variable y : vec.
Hypothesis Hy : length y = length A.
Variable damp : O.
Notation d2 := (damp * damp).
Notation J := (lsfun O A y damp).

(* C10: one step of the model decreases J by a^2 * delta >= 0, provided the state satisfies the
   invariants, the search direction satisfies <c, r> = kold (exact previous line search) and
   delta = ||A c||^2 + damp^2 ||c||^2 <> 0 *)
Theorem cgls_step_descent (st : clst O) :
  cl_inv O n A y damp st -> cl_rinv O n A damp st ->
  dot O (cl_c O st) (cl_r O st) = cl_kold O st ->
  dot O (cl_q O st) (cl_q O st) + d2 * dot O (cl_c O st) (cl_c O st) <> 0 ->
  let a := cl_kold O st / (dot O (cl_q O st) (cl_q O st) + d2 * dot O (cl_c O st) (cl_c O st)) in
  J (cl_x O (cgls_step O absf n A st)) + a * a * (dot O (cl_q O st) (cl_q O st) + d2 * dot O (cl_c O st) (cl_c O st)) = J (cl_x O st)
  /\ J (cl_x O (cgls_step O absf n A st)) <= J (cl_x O st).
Proof.
  intros Hinv Hr Hdir Hdel a.
  destruct (cgls_step_inv O absf n A WA y Hy damp st Hinv) as ((_ & _ & _ & _ & _ & Hs' & _) & _).
  destruct Hinv as (Lx & Ls & Lc & Lr & Hd & Hs & Hq).
  assert (Lq : length (cl_q O st) = length A) by (rewrite Hq; apply mv_length).
  assert (E : J (cl_x O (cgls_step O absf n A st)) +
              a * a * (dot O (cl_q O st) (cl_q O st) + d2 * dot O (cl_c O st) (cl_c O st)) = J (cl_x O st)).
  { unfold lsfun, lsres2. rewrite <- Hs', <- Hs. unfold cgls_step; cbn [cl_s cl_x]. rewrite Hd. fold a.
    rewrite dot_vsub_l, !dot_vsub_r, !dot_vscale_l, !dot_vscale_r by (rewrite ?vscale_length; congruence).
    rewrite dot_vadd_l, !dot_vadd_r, !dot_vscale_l, !dot_vscale_r by (rewrite ?vscale_length; congruence).
    rewrite !conj_real.
    assert (K : dot O (cl_q O st) (cl_s O st) = cl_kold O st + d2 * dot O (cl_c O st) (cl_x O st)).
    { rewrite <- Hdir, Hr. rewrite dot_vsub_r, dot_vscale_r by (rewrite mvH_length, vscale_length; auto).
      rewrite Hq. rewrite (dot_mv_mvH O n A (cl_c O st) (cl_s O st)) by auto. ring. }
    rewrite (dot_sym (cl_s O st) (cl_q O st)), (dot_sym (cl_x O st) (cl_c O st)), K.
    unfold a. field. exact Hdel. }
  split; [exact E|].
  rewrite <- E.
  set (p := a * a * _). assert (Hp : 0 <= p).
  { apply rle_mul; [apply sq_nonneg|]. apply add_nonneg; [apply dot_nonneg|]. apply rle_mul; [apply sq_nonneg | apply dot_nonneg]. }
  pose proof (rle_add O 0 p (J (cl_x O (cgls_step O absf n A st))) Hp) as H.
  replace (0 + J (cl_x O (cgls_step O absf n A st))) with (J (cl_x O (cgls_step O absf n A st))) in H by ring.
  replace (p + J (cl_x O (cgls_step O absf n A st))) with (J (cl_x O (cgls_step O absf n A st)) + p) in H by ring.
  exact H.
Qed.

(* ---------- definiteness in an ordered field ---------- *)
Lemma eq_dec0 (a : O) : a = 0 \/ a <> 0.
Proof. destruct (rleb O a 0) eqn:E1, (rleb O 0 a) eqn:E2.
  - left. apply rle_antisym; apply rleb_spec; auto.
  - right. intros ->. rewrite (proj2 (rleb_spec O 0 0) (rle_refl O 0)) in E2. discriminate.
  - right. intros ->. rewrite (proj2 (rleb_spec O 0 0) (rle_refl O 0)) in E1. discriminate.
  - right. intros ->. rewrite (proj2 (rleb_spec O 0 0) (rle_refl O 0)) in E1. discriminate.
Qed.
Lemma nonneg_sum_zero (a b : O) : 0 <= a -> 0 <= b -> a + b = 0 -> a = 0 /\ b = 0.
Proof. intros Ha Hb E. assert (A0 : a = 0).
  { apply rle_antisym; auto. pose proof (rle_add O 0 b a Hb) as H. replace (0 + a) with a in H by ring.
    replace (b + a) with (r0 O) in H by (rewrite <- E; ring). exact H. }
  split; auto. rewrite A0 in E. rewrite <- E. ring. Qed.
Lemma mul_zero (a b : O) : a * b = 0 -> a = 0 \/ b = 0.
Proof. intros E. destruct (eq_dec0 a) as [Ha|Ha]; [left; auto | right].
  replace b with ((a * b) / a) by (field; auto). rewrite E. field; auto. Qed.
Lemma div0 (d : O) : 0 / d = 0.
Proof. rewrite (Fdiv_def (fth O) 0 d). apply (ARmul_0_l (Rth_ARth (Eqsth O) (Eq_ext _ _ _) (rth O))) || (replace (0 * rinv O d) with (r0 O) by ring; reflexivity). Qed.
Lemma dot_zero (v : vec) : dot O v v = 0 -> v = zeros O (length v).
Proof. induction v as [|a v IH]; intros E; [reflexivity|].
  change (dot O (a :: v) (a :: v)) with (conj O a * a + dot O v v) in E. rewrite conj_real in E.
  destruct (nonneg_sum_zero _ _ (sq_nonneg a) (dot_nonneg v) E) as [E1 E2].
  assert (a = 0) by (destruct (mul_zero _ _ E1); auto). subst a.
  change (zeros O (length (r0 O :: v))) with (r0 O :: zeros O (length v)). f_equal. apply IH. exact E2. Qed.

Hypothesis Habs : forall v : vec, absf (dot O v v) = dot O v v.
Notation setup := (cgls_setup O absf n A y).
Notation iter := (cgls_iter O absf n A).
Notation step := (cgls_step O absf n A).
Notation delta st := (dot O (cl_q O st) (cl_q O st) + d2 * dot O (cl_c O st) (cl_c O st)).

(* <c, r> = kold = <r, r>: the previous line search was exact *)
Definition dir_inv (st : clst O) : Prop :=
  dot O (cl_c O st) (cl_r O st) = cl_kold O st /\ cl_kold O st = dot O (cl_r O st) (cl_r O st).

Lemma setup_dir x0 : dir_inv (setup x0 damp).
Proof. unfold dir_inv, cgls_setup; cbn [cl_c cl_r cl_kold]. rewrite Habs. split; reflexivity. Qed.

(* <c, r> expressed through q and s *)
Lemma dir_identity st : cl_inv O n A y damp st -> cl_rinv O n A damp st ->
  dot O (cl_c O st) (cl_r O st) = dot O (cl_q O st) (cl_s O st) - d2 * dot O (cl_c O st) (cl_x O st).
Proof. intros (Lx & Ls & Lc & Lr & Hd & Hs & Hq) Hr. rewrite Hr.
  rewrite dot_vsub_r, dot_vscale_r by (rewrite mvH_length, vscale_length; auto).
  rewrite Hq. rewrite (dot_mv_mvH O n A (cl_c O st) (cl_s O st)) by auto. reflexivity. Qed.

Lemma degenerate st : cl_inv O n A y damp st -> cl_rinv O n A damp st -> dir_inv st ->
  delta st = 0 -> cl_kold O st = 0.
Proof.
  intros Hinv Hr (Hdir & _) Hdel. rewrite <- Hdir, (dir_identity st Hinv Hr).
  destruct Hinv as (Lx & Ls & Lc & Lr & Hd & Hs & Hq).
  destruct (nonneg_sum_zero _ _ (dot_nonneg (cl_q O st)) (rle_mul O _ _ (sq_nonneg damp) (dot_nonneg (cl_c O st))) Hdel) as [E1 E2].
  rewrite (dot_zero _ E1), dot_zeros_l.
  destruct (mul_zero _ _ E2) as [E|E].
  - rewrite E. ring.
  - rewrite (dot_zero _ E), dot_zeros_l. ring.
Qed.

(* the new normal-equation residual: r' = r - a (A^H q + d2 c) *)
Lemma step_r st : cl_inv O n A y damp st -> cl_rinv O n A damp st ->
  let a := cl_kold O st / delta st in
  cl_r O (step st) = vsub O (cl_r O st) (vscale O a (vadd O (mvH O n A (cl_q O st)) (vscale O d2 (cl_c O st)))).
Proof.
  intros (Lx & Ls & Lc & Lr & Hd & Hs & Hq) Hr a.
  assert (Lq : length (cl_q O st) = length A) by (rewrite Hq; apply mv_length).
  unfold cgls_step; cbn [cl_r]. rewrite Hd. fold a. rewrite Hr.
  rewrite mvH_vsub_vscale by auto. apply r_update_eq; rewrite ?mvH_length; auto; congruence.
Qed.

Lemma step_dir st : cl_inv O n A y damp st -> cl_rinv O n A damp st -> dir_inv st -> dir_inv (step st).
Proof.
  intros Hinv Hr Hd0. pose proof (step_r st Hinv Hr) as Er. cbv zeta in Er.
  pose proof (degenerate st Hinv Hr Hd0) as Hdeg.
  destruct Hd0 as (Hdir & Hk). destruct Hinv as (Lx & Ls & Lc & Lr & Hd & Hs & Hq).
  assert (Lq : length (cl_q O st) = length A) by (rewrite Hq; apply mv_length).
  set (a := cl_kold O st / delta st) in *.
  assert (Lr' : length (cl_r O (step st)) = n).
  { rewrite Er. apply vsub_length_eq; auto. rewrite vscale_length. apply vadd_length_eq; rewrite ?mvH_length, ?vscale_length; auto. }
  assert (Z : dot O (cl_c O st) (cl_r O (step st)) = 0).
  { rewrite Er. rewrite dot_vsub_r, dot_vscale_r, dot_vadd_r, dot_vscale_r
      by (rewrite ?vscale_length, ?mvH_length; auto; rewrite vadd_length, mvH_length, vscale_length by auto; lia).
    rewrite Hdir. rewrite <- (dot_mv_mvH O n A (cl_c O st) (cl_q O st)) by auto. rewrite <- Hq.
    destruct (eq_dec0 (delta st)) as [E|E].
    - rewrite (Hdeg E). rewrite E. ring.
    - unfold a. field. exact E. }
  assert (K : cl_kold O (step st) = dot O (cl_r O (step st)) (cl_r O (step st))).
  { unfold cgls_step at 1; cbn [cl_kold]. rewrite Habs. reflexivity. }
  split; [|exact K].
  rewrite K. unfold cgls_step at 1; cbn [cl_c]. fold (step st).
  set (r' := cl_r O (step st)) in *.
  change (vsub O (mvH O n A (vsub O (cl_s O st) (vscale O (cl_kold O st / (dot O (cl_q O st) (cl_q O st) + cl_damp O st * dot O (cl_c O st) (cl_c O st))) (cl_q O st))))
            (vscale O (cl_damp O st) (vadd O (cl_x O st) (vscale O (cl_kold O st / (dot O (cl_q O st) (cl_q O st) + cl_damp O st * dot O (cl_c O st) (cl_c O st))) (cl_c O st)))))
    with r'.
  rewrite dot_vadd_l, dot_vscale_l, Z by (rewrite vscale_length; congruence). ring.
Qed.

Lemma dir_iter x0 k : x0_ok O n x0 -> dir_inv (iter k (setup x0 damp)).
Proof. intros H. induction k as [|k IH]; [apply setup_dir|].
  change (iter (S k) (setup x0 damp)) with (step (iter k (setup x0 damp))).
  apply step_dir; auto; [apply cgls_inv_iter | apply cgls_rinv_iter]; auto. Qed.

(* C10: the functional never increases from one CGLS iteration to the next — all inputs, all k *)
Theorem cgls_functional_monotone x0 k : x0_ok O n x0 ->
  J (cl_x O (iter (S k) (setup x0 damp))) <= J (cl_x O (iter k (setup x0 damp))).
Proof.
  intros H. change (iter (S k) (setup x0 damp)) with (step (iter k (setup x0 damp))).
  set (st := iter k (setup x0 damp)).
  assert (Hinv : cl_inv O n A y damp st) by (apply cgls_inv_iter; auto).
  assert (Hr : cl_rinv O n A damp st) by (apply cgls_rinv_iter; auto).
  assert (Hd : dir_inv st) by (apply dir_iter; auto).
  destruct (eq_dec0 (delta st)) as [E|E].
  - (* degenerate: kold = 0, the step length is 0 and x does not move *)
    pose proof (degenerate st Hinv Hr Hd E) as K0.
    destruct Hinv as (Lx & Ls & Lc & Lr & Hdm & Hs & Hq).
    replace (cl_x O (step st)) with (cl_x O st); [apply rle_refl|].
    unfold cgls_step; cbn [cl_x]. rewrite K0.
    rewrite div0.
    rewrite vscale_zero, Lc, <- Lx. symmetry; apply vadd_zeros_r.
  - apply (cgls_step_descent st Hinv Hr (proj1 Hd) E).
Qed.

(* C09: a stationary point (kold = 0) satisfies the damped normal equations *)
Theorem cgls_kold_zero_normal_eq x0 k : x0_ok O n x0 ->
  let st := iter k (setup x0 damp) in
  cl_kold O st = 0 ->
  vsub O (mvH O n A (vsub O y (mv O A (cl_x O st)))) (vscale O d2 (cl_x O st)) = zeros O n.
Proof.
  intros H st K0. destruct (dir_iter x0 k H) as (_ & Hk). fold st in Hk.
  destruct (cgls_inv_iter O absf n A WA y Hy damp x0 k H) as (_ & _ & _ & Lr & _ & Hs & _). fold st in Lr, Hs.
  pose proof (cgls_rinv_iter O absf n A WA y Hy damp x0 k H) as Hr. fold st in Hr. unfold cl_rinv in Hr.
  rewrite <- Hs, <- Hr, <- Lr. apply dot_zero. rewrite <- Hk. exact K0.
Qed.

(* C09: a solution of the damped normal equations minimises J *)
Lemma vadd_vsub_cancel (x z : vec) : length x = length z -> vadd O x (vsub O z x) = z.
Proof. revert z; induction x as [|a x IH]; intros [|b z] L; simpl in *; try discriminate; auto.
  unfold vadd, vsub in *; simpl. rewrite IH by lia. f_equal; ring. Qed.
Theorem normal_eq_minimises (x z : vec) : length x = n -> length z = n ->
  vsub O (mvH O n A (vsub O y (mv O A x))) (vscale O d2 x) = zeros O n ->
  J x <= J z.
Proof.
  intros Lx Lz G. set (h := vsub O z x). assert (Lh : length h = n) by (apply vsub_length_eq; auto).
  assert (Ez : z = vadd O x (vscale O 1 h)) by (rewrite vscale_one; symmetry; apply vadd_vsub_cancel; congruence).
  set (s := vsub O y (mv O A x)) in *. assert (Lsn : length s = length A) by (apply vsub_length_eq; auto; apply mv_length).
  assert (E : J z = J x + (dot O (mv O A h) (mv O A h) + d2 * dot O h h)).
  { unfold lsfun, lsres2. fold s. rewrite Ez at 1 2. rewrite mv_vadd, mv_vscale by (rewrite vscale_length; congruence).
    rewrite <- (vsub_vsub_vscale O y (mv O A x) (mv O A h) 1) by (rewrite ?mv_length; auto). fold s.
    rewrite Ez. rewrite !vscale_one.
    rewrite dot_vsub_l, !dot_vsub_r by (rewrite ?mv_length; auto).
    rewrite dot_vadd_l, !dot_vadd_r by congruence.
    assert (Z : dot O (mv O A h) s = d2 * dot O h x).
    { rewrite (dot_mv_mvH O n A h s) by auto.
      assert (Z0 : dot O h (vsub O (mvH O n A s) (vscale O d2 x)) = 0) by (rewrite G; apply dot_zeros_r).
      rewrite dot_vsub_r, dot_vscale_r in Z0 by (rewrite mvH_length, vscale_length; auto).
      replace (dot O h (mvH O n A s)) with ((dot O h (mvH O n A s) - d2 * dot O h x) + d2 * dot O h x) by ring.
      rewrite Z0. ring. }
    rewrite (dot_sym s (mv O A h)), (dot_sym x h), Z. ring. }
  rewrite E. set (p := dot O (mv O A h) (mv O A h) + d2 * dot O h h).
  assert (Hp : 0 <= p) by (apply add_nonneg; [apply dot_nonneg | apply rle_mul; [apply sq_nonneg | apply dot_nonneg]]).
  pose proof (rle_add O 0 p (J x) Hp) as H. replace (0 + J x) with (J x) in H by ring.
  replace (p + J x) with (J x + p) in H by ring. exact H.
Qed.
End Ord.
