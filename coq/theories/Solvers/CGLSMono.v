(* CGLSMono.v — one CGLS step does not increase the functional
   J(x) = ||y - A x||^2 + damp^2 ||x||^2  (ordered field, conj = id). *)
From PV Require Export CGLS.
Local Open Scope R_scope.

Section Ord.
Variable O : OrdField.
Add Ring RrM : (rth O).
Add Field FfM : (fth O).
Notation vec := (list O).

Lemma add_nonneg (a b : O) : 0 <= a -> 0 <= b -> 0 <= a + b.
Proof. intros Ha Hb. apply (rle_trans O 0 b (a + b)); auto.
  pose proof (rle_add O 0 a b Ha) as H. replace (0 + b) with b in H by ring. exact H. Qed.
Lemma sq_nonneg (a : O) : 0 <= a * a.
Proof. destruct (rle_total O 0 a) as [H|H]; [apply rle_mul; auto|].
  assert (H' : 0 <= - a). { pose proof (rle_add O a 0 (- a) H) as E. replace (a + - a) with (r0 O) in E by ring.
    replace (0 + - a) with (- a) in E by ring. exact E. }
  replace (a * a) with ((- a) * (- a)) by ring. apply rle_mul; auto. Qed.
Lemma dot_nonneg (v : vec) : 0 <= dot O v v.
Proof. induction v as [|a v IH]; [apply rle_refl|].
  change (dot O (a :: v) (a :: v)) with (conj O a * a + dot O v v). rewrite conj_real.
  apply add_nonneg; [apply sq_nonneg | exact IH]. Qed.
Lemma dot_sym (u v : vec) : dot O u v = dot O v u.
Proof. rewrite <- (dot_conj_sym O v u). apply conj_real. Qed.

Variable absf : O -> O.
Variable n : nat.
Variable A : list (list O).
Hypothesis WA : wfM O n A.
Variable y : vec.
Hypothesis Hy : length y = length A.
Variable damp : O.
Notation d2 := (damp * damp).
Notation J := (lsfun O A y damp).

(* C10: one step of the model decreases J by a^2 * delta >= 0, provided the state satisfies the
   invariants, the search direction satisfies <c, r> = kold (exact previous line search) and
   delta = ||A c||^2 + damp^2 ||c||^2 <> 0 *)
Theorem cgls_step_descent (st : clst O) :
  cl_inv O n A y damp st -> cl_rinv O n A damp st ->
  dot O (cl_c O st) (cl_r O st) = cl_kold O st ->
  dot O (cl_q O st) (cl_q O st) + d2 * dot O (cl_c O st) (cl_c O st) <> 0 ->
  let a := cl_kold O st / (dot O (cl_q O st) (cl_q O st) + d2 * dot O (cl_c O st) (cl_c O st)) in
  J (cl_x O (cgls_step O absf n A st)) + a * a * (dot O (cl_q O st) (cl_q O st) + d2 * dot O (cl_c O st) (cl_c O st)) = J (cl_x O st)
  /\ J (cl_x O (cgls_step O absf n A st)) <= J (cl_x O st).
Proof.
  intros Hinv Hr Hdir Hdel a.
  destruct (cgls_step_inv O absf n A WA y Hy damp st Hinv) as ((_ & _ & _ & _ & _ & Hs' & _) & _).
  destruct Hinv as (Lx & Ls & Lc & Lr & Hd & Hs & Hq).
  assert (Lq : length (cl_q O st) = length A) by (rewrite Hq; apply mv_length).
  assert (E : J (cl_x O (cgls_step O absf n A st)) +
              a * a * (dot O (cl_q O st) (cl_q O st) + d2 * dot O (cl_c O st) (cl_c O st)) = J (cl_x O st)).
  { unfold lsfun, lsres2. rewrite <- Hs', <- Hs. unfold cgls_step; cbn [cl_s cl_x]. rewrite Hd. fold a.
    rewrite dot_vsub_l, !dot_vsub_r, !dot_vscale_l, !dot_vscale_r by (rewrite ?vscale_length; congruence).
    rewrite dot_vadd_l, !dot_vadd_r, !dot_vscale_l, !dot_vscale_r by (rewrite ?vscale_length; congruence).
    rewrite !conj_real.
    assert (K : dot O (cl_q O st) (cl_s O st) = cl_kold O st + d2 * dot O (cl_c O st) (cl_x O st)).
    { rewrite <- Hdir, Hr. rewrite dot_vsub_r, dot_vscale_r by (rewrite mvH_length, vscale_length; auto).
      rewrite Hq. rewrite (dot_mv_mvH O n A (cl_c O st) (cl_s O st)) by auto. ring. }
    rewrite (dot_sym (cl_s O st) (cl_q O st)), (dot_sym (cl_x O st) (cl_c O st)), K.
    unfold a. field. exact Hdel. }
  split; [exact E|].
  rewrite <- E.
  set (p := a * a * _). assert (Hp : 0 <= p).
  { apply rle_mul; [apply sq_nonneg|]. apply add_nonneg; [apply dot_nonneg|]. apply rle_mul; [apply sq_nonneg | apply dot_nonneg]. }
  pose proof (rle_add O 0 p (J (cl_x O (cgls_step O absf n A st))) Hp) as H.
  replace (0 + J (cl_x O (cgls_step O absf n A st))) with (J (cl_x O (cgls_step O absf n A st))) in H by ring.
  replace (p + J (cl_x O (cgls_step O absf n A st))) with (J (cl_x O (cgls_step O absf n A st)) + p) in H by ring.
  exact H.
Qed.
End Ord.
