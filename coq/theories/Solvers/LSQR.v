(* LSQR.v — model of pylops/optimization/cls_basic.py : class LSQR
   (setup / step), statement by statement, over an ordered field (real data).

   Square roots.  An ordered field has no sqrt, so every norm the code takes
   (numpy.linalg.norm / sqrt) is SUPPLIED to the model as an element m of the
   field, together with the radicand v the model computes itself:
     * [lsqr_setup_full] / [lsqr_step_full] return the new state AND the list
       of pairs (m, v) "m was used as sqrt(v)";
     * theorems assume the supplied roots exact:  m * m = v  and  0 <= m;
     * the correspondence (Corr/CheckLSQR.v) feeds the roots the
       implementation computed and CHECKS  0 <= m  and  |m^2 - v| <= eps (1 + v)
       before trusting the step.
   Order of the supplied roots of one step ([roots] record):
     beta = ||A v - alfa u||, anorm = ||(anorm, alfa, beta, damp)||,
     alfa = ||A^T u - beta v||, rhobar1 = ||(rhobar, damp)||, rho = ||(rhobar1, beta)||,
     xnorm = sqrt(xxnorm + zbar^2), gamma = ||(gambar, theta)||, sqrt(ddnorm),
     rnorm = sqrt(res1 + res2), |r1norm| = sqrt(|r1sq|).
   Not modelled: calc_var / var, the istop tests (they compare 1 + test <= 1
   in floating point; a manual setup/step drive does not consult them), show.
   Ghost field [l_ut]: the vector u~ of the theorems (u~_1 = u_1,
   u~_{k+1} = cs1 sn u~_k - cs u_{k+1}); the code does not compute it. *)
From PV Require Export CGLSMono.
Local Open Scope R_scope.

Section LSQR.
Variable O : OrdField.
Add Ring RrLS : (rth O).
Add Field FfLS : (fth O).
Notation vec := (list O).
Variable n : nat.                    (* Op.shape[1] *)
Variable A : list (list O).          (* Op.matvec = mv A, Op.rmatvec = mvH n A (conj = id) *)
Variable damp : O.

Definition gt0 (a : O) : bool := negb (rleb O a 0).
Definition labs (a : O) : O := if rleb O 0 a then a else - a.

Record lstate := mkl {
  l_x : vec; l_u : vec; l_v : vec; l_w : vec; l_ut : vec;
  l_alfa : O; l_beta : O; l_rhobar : O; l_phibar : O;
  l_anorm : O; l_acond : O; l_ddnorm : O; l_res2 : O; l_xnorm : O; l_xxnorm : O; l_z : O; l_cs2 : O; l_sn2 : O;
  l_rnorm : O; l_r1norm : O; l_r2norm : O; l_arnorm : O; l_bnorm : O;
  l_cost : list O; l_iiter : nat }.

(* LSQR.setup(y, x0, damp, ...): supplied roots sb = ||u||, sa = ||Op^H u|| *)
Definition lsqr_setup_full (y : vec) (x0 : option vec) (sb sa : O) : lstate * list (O * O) :=
  let x := match x0 with None => zeros O n | Some v => v end in
  let u0 := match x0 with None => y | Some v => vsub O y (mv O A v) end in
  let beta := sb in
  let u := if gt0 beta then vscale O (1 / beta) u0 else u0 in
  let v0 := if gt0 beta then mvH O n A u else x in
  let alfa := if gt0 beta then sa else 0 in
  let v := if gt0 beta && gt0 alfa then vscale O (1 / alfa) v0 else v0 in
  (mkl x u v v u alfa beta alfa beta 0 0 0 0 0 0 0 (- (1)) 0 beta beta beta (alfa * beta) beta [beta] 0,
   [(sb, dot O u0 u0); (alfa, if gt0 beta then dot O v0 v0 else 0)]).
Definition lsqr_setup y x0 sb sa := fst (lsqr_setup_full y x0 sb sa).

Record roots := mkr { rt_beta : O; rt_anorm : O; rt_alfa : O; rt_rhobar1 : O; rt_rho : O; rt_xnorm : O;
  rt_gamma : O; rt_sqdd : O; rt_rnorm : O; rt_r1norm : O }.

(* LSQR.step *)
Definition lsqr_step_full (st : lstate) (rt : roots) : lstate * list (O * O) :=
  (* bidiagonalisation *)
  let u0 := vsub O (mv O A (l_v st)) (vscale O (l_alfa st) (l_u st)) in       (* u = Op v - alfa u *)
  let beta := rt_beta rt in                                                     (* beta = norm(u) *)
  let pos := gt0 beta in
  let u := if pos then vscale O (1 / beta) u0 else u0 in
  let anorm := if pos then rt_anorm rt else l_anorm st in                       (* norm([anorm, alfa, beta, damp]) *)
  let v0 := vsub O (mvH O n A u) (vscale O beta (l_v st)) in                    (* v = Op^H u - beta v *)
  let alfa := if pos then rt_alfa rt else l_alfa st in
  let v := if pos then (if gt0 alfa then vscale O (1 / alfa) v0 else v0) else l_v st in
  (* plane rotation eliminating damp *)
  let rhobar1 := rt_rhobar1 rt in                                               (* norm([rhobar, damp]) *)
  let cs1 := l_rhobar st / rhobar1 in
  let sn1 := damp / rhobar1 in
  let psi := sn1 * l_phibar st in
  let phibar1 := cs1 * l_phibar st in
  (* plane rotation eliminating beta *)
  let rho := rt_rho rt in                                                       (* norm([rhobar1, beta]) *)
  let cs := rhobar1 / rho in
  let sn := beta / rho in
  let theta := sn * alfa in
  let rhobar := - cs * alfa in
  let phi := cs * phibar1 in
  let phibar := sn * phibar1 in
  let tau := sn * phi in
  (* update x and w *)
  let t1 := phi / rho in
  let t2 := - theta / rho in
  let dk := vscale O (1 / rho) (l_w st) in                                      (* w / rho *)
  let x := vadd O (l_x st) (vscale O t1 (l_w st)) in
  let w := vadd O v (vscale O t2 (l_w st)) in
  let ddnorm := l_ddnorm st + dot O dk dk in                                    (* ddnorm + norm(dk)**2 *)
  (* estimate of norm(x) *)
  let delta := l_sn2 st * rho in
  let gambar := - l_cs2 st * rho in
  let rhs := phi - delta * l_z st in
  let zbar := rhs / gambar in
  let xnorm := rt_xnorm rt in                                                   (* sqrt(xxnorm + zbar**2) *)
  let gamma := rt_gamma rt in                                                   (* norm([gambar, theta]) *)
  let cs2 := gambar / gamma in
  let sn2 := theta / gamma in
  let z := rhs / gamma in
  let xxnorm := l_xxnorm st + z * z in
  (* norms of residuals *)
  let acond := anorm * rt_sqdd rt in                                            (* anorm * sqrt(ddnorm) *)
  let res1 := phibar * phibar in
  let res2 := l_res2 st + psi * psi in
  let rnorm := rt_rnorm rt in                                                   (* sqrt(res1 + res2) *)
  let arnorm := alfa * labs tau in
  let r1sq := rnorm * rnorm - damp * damp * xxnorm in
  let r1abs := rt_r1norm rt in                                                  (* sqrt(abs(r1sq)) *)
  let r1norm := if gt0 (- r1sq) then - r1abs else r1abs in                      (* if r1sq < 0: r1norm = -r1norm *)
  let ut := vsub O (vscale O (cs1 * sn) (l_ut st)) (vscale O cs u) in           (* ghost *)
  (mkl x u v w ut alfa beta rhobar phibar anorm acond ddnorm res2 xnorm xxnorm z cs2 sn2
       rnorm r1norm rnorm arnorm (l_bnorm st) (l_cost st ++ [r1abs]) (S (l_iiter st)),
   [(beta, dot O u0 u0);
    (anorm, if pos then l_anorm st * l_anorm st + l_alfa st * l_alfa st + beta * beta + damp * damp else anorm * anorm);
    (alfa, if pos then dot O v0 v0 else alfa * alfa);
    (rhobar1, l_rhobar st * l_rhobar st + damp * damp);
    (rho, rhobar1 * rhobar1 + beta * beta);
    (xnorm, l_xxnorm st + zbar * zbar);
    (gamma, gambar * gambar + theta * theta);
    (rt_sqdd rt, ddnorm);
    (rnorm, res1 + res2);
    (r1abs, labs r1sq)]).
Definition lsqr_step st rt := fst (lsqr_step_full st rt).
Definition lsqr_rads st rt := snd (lsqr_step_full st rt).

Fixpoint lsqr_iter (st : lstate) (rts : list roots) : lstate :=
  match rts with [] => st | rt :: t => lsqr_iter (lsqr_step st rt) t end.

Lemma lsqr_cost_length st rts : length (l_cost st) = S (l_iiter st) ->
  length (l_cost (lsqr_iter st rts)) = S (l_iiter (lsqr_iter st rts)).
Proof. revert st; induction rts as [|rt t IH]; intros st H; simpl; auto. apply IH.
  unfold lsqr_step; simpl. rewrite app_length, H; simpl; lia. Qed.
Lemma lsqr_iiter st rts : l_iiter (lsqr_iter st rts) = (length rts + l_iiter st)%nat.
Proof. revert st; induction rts as [|rt t IH]; intros st; simpl; auto. rewrite IH. unfold lsqr_step; simpl; lia. Qed.

(* ---------- facts about exact roots ---------- *)
Definition exact (m v : O) : Prop := m * m = v /\ 0 <= m.
Lemma gt0_neq a : gt0 a = true -> a <> 0.
Proof. unfold gt0. intros H E; subst. rewrite (proj2 (rleb_spec O 0 0) (rle_refl O 0)) in H. discriminate. Qed.
Lemma gt0_false_exact a v : gt0 a = false -> exact a v -> a = 0.
Proof. unfold gt0. intros H [_ P]. apply rle_antisym; auto. apply rleb_spec. destruct (rleb O a 0); auto; discriminate. Qed.

Hypothesis WA : wfM O n A.

(* ---------- the Golub-Kahan relations of one step (any damp) ---------- *)
(* beta' u' = A v - alfa u, |u'| = 1;  alfa' v' = A^T u' - beta' v, |v'| = 1 *)
Theorem lsqr_bidiag_step st rt :
  let u0 := vsub O (mv O A (l_v st)) (vscale O (l_alfa st) (l_u st)) in
  let st' := lsqr_step st rt in
  exact (rt_beta rt) (dot O u0 u0) ->
  l_beta st' = rt_beta rt /\
  vscale O (l_beta st') (l_u st') = u0 /\
  (gt0 (rt_beta rt) = true -> dot O (l_u st') (l_u st') = 1 /\
     let v0 := vsub O (mvH O n A (l_u st')) (vscale O (l_beta st') (l_v st)) in
     exact (rt_alfa rt) (dot O v0 v0) ->
     l_alfa st' = rt_alfa rt /\ vscale O (l_alfa st') (l_v st') = v0 /\
     (gt0 (rt_alfa rt) = true -> dot O (l_v st') (l_v st') = 1)).
Proof.
  intros u0 st' Eb. unfold st', lsqr_step, lsqr_step_full; cbn [fst l_beta l_u l_alfa l_v]. fold u0.
  split; [reflexivity|]. destruct (gt0 (rt_beta rt)) eqn:P.
  - pose proof (gt0_neq _ P) as Nb. split.
    + rewrite vscale_vscale. replace (rt_beta rt * (1 / rt_beta rt)) with (r1 O) by (field; auto). apply vscale_one.
    + intros _. split.
      * rewrite dot_vscale_l, dot_vscale_r, conj_real. destruct Eb as [Eb _]. rewrite <- Eb. field; auto.
      * set (v0 := vsub O (mvH O n A (vscale O (1 / rt_beta rt) u0)) (vscale O (rt_beta rt) (l_v st))). intros Ea.
        split; [reflexivity|]. destruct (gt0 (rt_alfa rt)) eqn:Pa.
        -- pose proof (gt0_neq _ Pa) as Na. split.
           ++ rewrite vscale_vscale. replace (rt_alfa rt * (1 / rt_alfa rt)) with (r1 O) by (field; auto). apply vscale_one.
           ++ intros _. rewrite dot_vscale_l, dot_vscale_r, conj_real. destruct Ea as [Ea _]. rewrite <- Ea. field; auto.
        -- split; [|discriminate]. pose proof (gt0_false_exact _ _ Pa Ea) as Z. rewrite Z.
           destruct Ea as [Ea _]. rewrite Z in Ea. replace (0 * 0) with (r0 O) in Ea by ring.
           rewrite (dot_zero O v0 (eq_sym Ea)). rewrite vscale_zeros. reflexivity.
  - split; [|discriminate]. pose proof (gt0_false_exact _ _ P Eb) as Z. rewrite Z.
    destruct Eb as [Eb _]. rewrite Z in Eb. replace (0 * 0) with (r0 O) in Eb by ring.
    rewrite (dot_zero O u0 (eq_sym Eb)). rewrite vscale_zeros. reflexivity.
Qed.

(* ---------- the estimate rnorm (= r2norm) never increases (any damp) ---------- *)
(* rnorm_k^2 - rnorm_{k+1}^2 = phi_{k+1}^2 >= 0, provided rnorm^2 = phibar^2 + res2 holds (true at setup) *)
Definition rn_inv (st : lstate) : Prop := l_rnorm st * l_rnorm st = l_phibar st * l_phibar st + l_res2 st.
Theorem lsqr_rnorm_step st rt :
  rn_inv st ->
  exact (rt_rhobar1 rt) (l_rhobar st * l_rhobar st + damp * damp) -> rt_rhobar1 rt <> 0 ->
  exact (rt_rho rt) (rt_rhobar1 rt * rt_rhobar1 rt + rt_beta rt * rt_beta rt) -> rt_rho rt <> 0 ->
  let st' := lsqr_step st rt in
  let phi := rt_rhobar1 rt / rt_rho rt * (l_rhobar st / rt_rhobar1 rt * l_phibar st) in
  exact (rt_rnorm rt) (l_phibar st' * l_phibar st' + l_res2 st') ->
  rn_inv st' /\ l_r2norm st' = l_rnorm st' /\
  l_rnorm st' * l_rnorm st' + phi * phi = l_rnorm st * l_rnorm st /\
  l_rnorm st' * l_rnorm st' <= l_rnorm st * l_rnorm st.
Proof.
  intros Hi [E1 _] N1 [E2 _] N2 st' phi [E3 _].
  assert (I' : rn_inv st') by (unfold rn_inv; exact E3).
  assert (Eq : l_rnorm st' * l_rnorm st' + phi * phi = l_rnorm st * l_rnorm st).
  { unfold st', lsqr_step, lsqr_step_full in E3 |- *; cbn [fst l_phibar l_res2 l_rnorm] in E3 |- *.
    rewrite E3, Hi. unfold phi.
    set (rb := l_rhobar st) in *. set (R1 := rt_rhobar1 rt) in *. set (rho := rt_rho rt) in *. set (b := rt_beta rt) in *.
    set (pb := l_phibar st). set (r2 := l_res2 st).
    match goal with |- ?L = ?R =>
      assert (C : L - R = pb * pb * (rb * rb) / (R1 * R1) * ((R1 * R1 + b * b - rho * rho) / (rho * rho)) +
                          pb * pb * ((rb * rb + damp * damp - R1 * R1) / (R1 * R1))) by (field; auto);
      replace L with ((L - R) + R) by ring; rewrite C end.
    rewrite <- E1, <- E2.
    replace (rho * rho - rho * rho) with (r0 O) by ring. replace (R1 * R1 - R1 * R1) with (r0 O) by ring.
    field; auto. }
  split; [exact I'|]. split; [reflexivity|]. split; [exact Eq|].
  rewrite <- Eq. pose proof (rle_add O 0 (phi * phi) (l_rnorm st' * l_rnorm st') (sq_nonneg O phi)) as H.
  replace (0 + l_rnorm st' * l_rnorm st') with (l_rnorm st' * l_rnorm st') in H by ring.
  replace (phi * phi + l_rnorm st' * l_rnorm st') with (l_rnorm st' * l_rnorm st' + phi * phi) in H by ring. exact H.
Qed.
End LSQR.
