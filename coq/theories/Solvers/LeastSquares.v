(* LeastSquares.v — C12: the regularised / normal-equation / preconditioned
   inversions of pylops/optimization/cls_leastsquares.py.

   Part 1  dense matrix algebra needed here (mm, madd, mscale, mident,
           transpose) with the laws  mv (mm A B) = mv A . mv B, etc.
   Part 2  weighted stacked least squares over an ordered field: the
           expansion  J(x+h) = J x + SQ h + 2(<h, N x> - <h, rhs>)  and
           N x = rhs  ->  x minimises J.
   Part 3  the DOCUMENTED problem (J, N, rhs) of NormalEquationsInversion /
           RegularizedInversion, the assemblies AS THE CODE BUILDS THEM
           (Op_normal / y_normal; VStack [Weight Op; eps_i R_i] with stacked
           data), the x0 shift and the change of variables x = P p.
   The inner Krylov solvers (scipy cg/lsqr, pylops cg/cgls) are oracles here
   (pylops' own are property C09). *)
From PV Require Export Mat.
Local Open Scope R_scope.

(* ===================================================================== *)
(* Part 1 — matrix algebra over a commutative ring                        *)
(* ===================================================================== *)
Section LSMat.
Variable R : CRing.
Add Ring RrLS1 : (rth R).
Notation vec := (list R).
Notation mat := (list (list R)).

(* A : l x k, B : k x p  (p = number of columns of B) *)
Definition mm (p : nat) (A B : mat) : mat := map (fun r => mvT R p B r) A.
Definition madd (A B : mat) : mat := map2 (vadd R) A B.
Definition mscale (a : R) (A : mat) : mat := map (vscale R a) A.
Definition mident (n : nat) : mat := map (unit R n) (seq 0 n).
Definition mzero (m n : nat) : mat := repeat (zeros R n) m.
Definition ones (n : nat) : vec := repeat 1 n.
Definition vsumv (n : nat) (vs : list vec) : vec := fold_right (vadd R) (zeros R n) vs.
Definition msum (n : nat) (Ms : list mat) : mat := fold_right madd (mzero n n) Ms.
Definition sq (a : R) : R := a * a.

(* ---- small vector facts ---- *)
Lemma vadd_vsub_cancel a b : length a = length b -> vadd R a (vsub R b a) = b.
Proof. revert b; induction a as [|x a IH]; intros [|y b] H; simpl in *; try discriminate; auto.
  unfold vadd, vsub in *; simpl; rewrite IH by lia; f_equal; ring. Qed.
Lemma vsub_vadd_r c a b : vsub R c (vadd R a b) = vsub R (vsub R c a) b.
Proof. revert a b; induction c as [|z c IH]; intros [|x a] [|y b]; simpl; auto.
  unfold vsub, vadd in *; simpl; rewrite IH; f_equal; ring. Qed.
Lemma vsub_zeros_r v : vsub R v (zeros R (length v)) = v.
Proof. induction v as [|x v IH]; simpl; auto. unfold vsub, zeros in *; simpl; rewrite IH; f_equal; ring. Qed.
Lemma vsub_eq_zeros a b : length a = length b -> vsub R a b = zeros R (length a) -> a = b.
Proof. revert b; induction a as [|x a IH]; intros [|y b] H E; simpl in *; try discriminate; auto.
  unfold vsub, zeros in *; simpl in E; injection E as E1 E2. f_equal; [|apply IH; auto].
  transitivity ((x - y) + y); [ring | rewrite E1; ring]. Qed.
Lemma vmul_ones x : vmul R (ones (length x)) x = x.
Proof. induction x as [|a x IH]; simpl; auto. unfold vmul, ones in *; simpl; rewrite IH; f_equal; ring. Qed.
Lemma dotu_vsub_sym a b : dotu R (vsub R a b) (vsub R a b) = dotu R (vsub R b a) (vsub R b a).
Proof. revert b; induction a as [|x a IH]; intros [|y b]; simpl; auto. unfold vsub in *; rewrite IH; ring. Qed.
Lemma dotu_sq_expand u v : length u = length v ->
  dotu R (vsub R u v) (vsub R u v) = dotu R u u - (1 + 1) * dotu R v u + dotu R v v.
Proof. revert v; induction u as [|x u IH]; intros [|y v] H; simpl in *; try discriminate; [ring|].
  unfold vsub in *; rewrite IH by lia; ring. Qed.
Lemma mv_vsub M x y : length x = length y -> mv R M (vsub R x y) = vsub R (mv R M x) (mv R M y).
Proof. intros H; induction M as [|r M IH]; simpl; auto.
  unfold vsub in *; simpl; rewrite IH. f_equal. apply dotu_vsub_r; auto. Qed.
Lemma vsumv_length n vs : Forall (fun v => length v = n) vs -> length (vsumv n vs) = n.
Proof. induction 1; simpl; [apply zeros_length | rewrite vadd_length; unfold vsumv in *; lia]. Qed.
Lemma vsumv_app n us vs : Forall (fun v => length v = n) us -> Forall (fun v => length v = n) vs ->
  vsumv n (us ++ vs) = vadd R (vsumv n us) (vsumv n vs).
Proof. intros Hu Hv; induction Hu as [|u us Lu Hu IH]; simpl.
  - pose proof (vadd_zeros_l R (vsumv n vs)) as E. rewrite vsumv_length in E by auto. auto.
  - fold (vsumv n (us ++ vs)); fold (vsumv n us). rewrite IH. apply vadd_assoc. Qed.
Lemma vsumv_zeros n {T} (l : list T) : vsumv n (map (fun _ => zeros R n) l) = zeros R n.
Proof. induction l as [|t l IH]; simpl; auto. fold (vsumv n (map (fun _ => zeros R n) l)); rewrite IH.
  pose proof (vadd_zeros_l R (zeros R n)) as E; rewrite zeros_length in E; auto. Qed.
Lemma vadd_zeros_r' n u : length u = n -> vadd R u (zeros R n) = u.
Proof. intros <-; apply vadd_zeros_r. Qed.
Lemma vadd_zeros_l' n u : length u = n -> vadd R (zeros R n) u = u.
Proof. intros <-; apply vadd_zeros_l. Qed.
Lemma fold_left_vadd n {T} (f : T -> vec) l acc : length acc = n -> (forall t, In t l -> length (f t) = n) ->
  fold_left (fun a t => vadd R a (f t)) l acc = vadd R acc (vsumv n (map f l)).
Proof. revert acc; induction l as [|t l IH]; intros acc Ha Hf; simpl.
  - symmetry; apply vadd_zeros_r'; auto.
  - rewrite IH. + fold (vsumv n (map f l)). symmetry; apply vadd_assoc.
    + rewrite vadd_length, Ha, Hf by (left; auto); lia.
    + intros; apply Hf; right; auto. Qed.

(* ---- mvT: more laws ---- *)
Lemma mvT_nil_r n M : mvT R n M [] = zeros R n.
Proof. destruct M; reflexivity. Qed.
Lemma mvT_zeros n M k : wfM R n M -> mvT R n M (zeros R k) = zeros R n.
Proof. revert k; induction M as [|r M IH]; intros [|k] W; simpl; auto.
  pose proof (Forall_inv W) as Hr; pose proof (Forall_inv_tail W) as WM; simpl in Hr.
  fold (zeros R k). rewrite IH by auto. rewrite vscale_zero, Hr. apply vadd_zeros_l'. apply zeros_length. Qed.
Lemma mvT_vsub n M y1 y2 : wfM R n M -> length y1 = length M -> length y2 = length M ->
  mvT R n M (vsub R y1 y2) = vsub R (mvT R n M y1) (mvT R n M y2).
Proof. intros. rewrite !vsub_vadd_neg, !vneg_vscale, mvT_vadd, mvT_vscale; auto. rewrite vscale_length; auto. Qed.
Lemma mvT_app n A B u v : wfM R n A -> wfM R n B -> length u = length A ->
  mvT R n (A ++ B) (u ++ v) = vadd R (mvT R n A u) (mvT R n B v).
Proof. revert u; induction A as [|r A IH]; intros [|b u] WA WB H; simpl in *; try discriminate.
  - symmetry; apply vadd_zeros_l'. apply mvT_length; auto.
  - inversion WA; subst. rewrite IH by (auto; lia). apply vadd_assoc. Qed.

(* ---- mv over ++, mm, madd, mscale, mident, transpose ---- *)
Lemma mv_app A B x : mv R (A ++ B) x = mv R A x ++ mv R B x.
Proof. apply map_app. Qed.
Lemma mm_length p A B : length (mm p A B) = length A.
Proof. apply map_length. Qed.
Lemma wf_mm p A B : wfM R p B -> wfM R p (mm p A B).
Proof. intros W; unfold wfM, mm. apply Forall_map. apply Forall_forall; intros; apply mvT_length; auto. Qed.
Lemma mv_mm p A B x : wfM R p B -> wfM R (length B) A -> length x = p ->
  mv R (mm p A B) x = mv R A (mv R B x).
Proof. intros WB WA Hx. unfold mv at 1 2, mm. rewrite map_map. apply map_ext_in; intros r Hr.
  rewrite dotu_comm. rewrite <- (dotu_mv_mvT R p B x r); auto. apply dotu_comm.
  eapply Forall_forall in WA; eauto. Qed.
Lemma mvT_mm p A B u : wfM R p B -> wfM R (length B) A -> length u = length A ->
  mvT R p (mm p A B) u = mvT R p B (mvT R (length B) A u).
Proof. revert u; induction A as [|r A IH]; intros [|b u] WB WA H; simpl in *; try discriminate.
  - symmetry; apply mvT_zeros; auto.
  - inversion WA; subst. rewrite IH by (auto; lia).
    rewrite mvT_vadd, mvT_vscale; auto. rewrite vscale_length; auto. apply mvT_length; auto. Qed.
Lemma madd_length A B : length (madd A B) = Nat.min (length A) (length B).
Proof. apply map2_length. Qed.
Lemma wf_madd n A B : wfM R n A -> wfM R n B -> wfM R n (madd A B).
Proof. intros WA; revert B; induction WA as [|r A Hr WA IH]; intros [|s B] WB; simpl; try constructor.
  - inversion WB; subst. rewrite vadd_length; lia.
  - inversion WB; subst. apply IH; auto. Qed.
Lemma mv_madd n A B x : wfM R n A -> wfM R n B -> mv R (madd A B) x = vadd R (mv R A x) (mv R B x).
Proof. intros WA; revert B; induction WA as [|r A Hr WA IH]; intros [|s B] WB; simpl; auto.
  inversion WB; subst. unfold madd in *; rewrite IH by auto.
  change (vadd R (dotu R r x :: mv R A x) (dotu R s x :: mv R B x))
    with ((dotu R r x + dotu R s x) :: vadd R (mv R A x) (mv R B x)).
  f_equal. apply dotu_vadd_l; lia. Qed.
Lemma mscale_length a A : length (mscale a A) = length A.
Proof. apply map_length. Qed.
Lemma wf_mscale n a A : wfM R n A -> wfM R n (mscale a A).
Proof. intros W; unfold wfM, mscale; apply Forall_map. eapply Forall_impl; eauto. intros; simpl; rewrite vscale_length; auto. Qed.
Lemma mv_mscale a A x : mv R (mscale a A) x = vscale R a (mv R A x).
Proof. unfold mv, mscale, vscale at 2. rewrite !map_map. apply map_ext; intros; apply dotu_vscale_l. Qed.
Lemma mvT_mscale n a A u : mvT R n (mscale a A) u = vscale R a (mvT R n A u).
Proof. revert u; induction A as [|r A IH]; intros [|b u]; simpl; try (symmetry; apply vscale_zeros).
  rewrite IH, vscale_vadd, !vscale_vscale. do 2 f_equal. ring. Qed.
Lemma mident_length n : length (mident n) = n.
Proof. unfold mident; rewrite map_length, seq_length; auto. Qed.
Lemma wf_mident n : wfM R n (mident n).
Proof. unfold wfM, mident; apply Forall_map, Forall_forall; intros; apply unit_length. Qed.
Lemma map_nth_seq (x : vec) : map (fun j => nth j x 0) (seq 0 (length x)) = x.
Proof. induction x as [|a x IH]; simpl; auto. f_equal. rewrite <- seq_shift, map_map. exact IH. Qed.
Lemma mv_mident n x : length x = n -> mv R (mident n) x = x.
Proof. intros H. unfold mv, mident. rewrite map_map.
  transitivity (map (fun j => nth j x 0) (seq 0 n)); [| rewrite <- H; apply map_nth_seq].
  apply map_ext_in; intros j Hj. apply in_seq in Hj. rewrite dotu_comm. apply dotu_unit; auto; lia. Qed.
Lemma wf_mzero m n : wfM R n (mzero m n).
Proof. unfold wfM, mzero. induction m; simpl; constructor; auto. apply zeros_length. Qed.
Lemma mzero_length m n : length (mzero m n) = m.
Proof. apply repeat_length. Qed.
Lemma mv_mzero m n x : mv R (mzero m n) x = zeros R m.
Proof. unfold mzero, zeros. induction m; simpl; auto. f_equal; auto. apply dotu_zeros_l. Qed.
Lemma wf_msum n Ms : Forall (wfM R n) Ms -> wfM R n (msum n Ms).
Proof. induction 1; simpl; [apply wf_mzero | apply wf_madd; auto]. Qed.
Lemma msum_length n Ms : Forall (fun M => length M = n) Ms -> length (msum n Ms) = n.
Proof. induction 1; simpl; [apply mzero_length | rewrite madd_length; unfold msum in *; lia]. Qed.
Lemma mv_msum n Ms x : Forall (wfM R n) Ms ->
  mv R (msum n Ms) x = vsumv n (map (fun M => mv R M x) Ms).
Proof. induction 1 as [|M Ms WM W IH]; simpl; [apply mv_mzero|].
  fold (msum n Ms). rewrite (mv_madd n) by (auto using wf_msum). rewrite IH. reflexivity. Qed.

Lemma mv_map2_cons r T b y : mv R (map2 cons r T) (b :: y) = vadd R (vscale R b r) (mv R T y).
Proof. revert T; induction r as [|a r IH]; intros [|row T]; simpl; auto.
  unfold vadd, vscale in *; simpl. rewrite IH. f_equal. ring. Qed.
Lemma mv_repeat_nil n y : mv R (repeat [] n) y = zeros R n.
Proof. unfold zeros; induction n; simpl; auto. f_equal; auto. Qed.
Lemma mv_transpose n M y : length y = length M -> mv R (transpose R n M) y = mvT R n M y.
Proof. revert y; induction M as [|r M IH]; intros [|b y] H; simpl in *; try discriminate.
  - apply mv_repeat_nil.
  - rewrite mv_map2_cons, IH by lia. reflexivity. Qed.
Lemma transpose_length n M : wfM R n M -> length (transpose R n M) = n.
Proof. induction 1 as [|r M Hr W IH]; simpl; [apply repeat_length | rewrite map2_length; lia]. Qed.
Lemma wf_map2_cons k r T : wfM R k T -> wfM R (S k) (map2 cons r T).
Proof. intros W; revert r; induction W as [|row T Hrow W IH]; intros [|a r]; simpl; try constructor; simpl; auto. apply IH. Qed.
Lemma wf_transpose n M : wfM R (length M) (transpose R n M).
Proof. induction M as [|r M IH]; simpl.
  - unfold wfM; induction n; simpl; constructor; auto.
  - apply wf_map2_cons; auto. Qed.
End LSMat.

(* ---- conjugate-transposed products (star ring) ---- *)
Section LSStar.
Variable S : StarRing.
Add Ring RrLS2 : (rth S).
Notation vec := (list S).
Notation mat := (list (list S)).

Lemma mconj_length (M : mat) : length (mconj S M) = length M.
Proof. apply map_length. Qed.
Lemma mvH_length n M y : wfM S n M -> length (mvH S n M y) = n.
Proof. intros; apply mvT_length, wfM_mconj; auto. Qed.
Lemma mvH_vadd n M y1 y2 : wfM S n M -> length y1 = length M -> length y2 = length M ->
  mvH S n M (vadd S y1 y2) = vadd S (mvH S n M y1) (mvH S n M y2).
Proof. intros; apply mvT_vadd; auto using wfM_mconj; rewrite mconj_length; auto. Qed.
Lemma mvH_vsub n M y1 y2 : wfM S n M -> length y1 = length M -> length y2 = length M ->
  mvH S n M (vsub S y1 y2) = vsub S (mvH S n M y1) (mvH S n M y2).
Proof. intros; apply mvT_vsub; auto using wfM_mconj; rewrite mconj_length; auto. Qed.
Lemma mvH_vscale n M a y : wfM S n M -> mvH S n M (vscale S a y) = vscale S a (mvH S n M y).
Proof. intros; apply mvT_vscale; auto using wfM_mconj. Qed.
Lemma mvH_zeros n M k : wfM S n M -> mvH S n M (zeros S k) = zeros S n.
Proof. intros; apply mvT_zeros; auto using wfM_mconj. Qed.
Lemma mvH_app n A B u v : wfM S n A -> wfM S n B -> length u = length A ->
  mvH S n (A ++ B) (u ++ v) = vadd S (mvH S n A u) (mvH S n B v).
Proof. intros. unfold mvH, mconj. rewrite map_app. apply mvT_app; try apply wfM_mconj; auto.
  fold (mconj S A). rewrite mconj_length; auto. Qed.
Lemma mvH_mscale n a A u : mvH S n (mscale S a A) u = vscale S (conj S a) (mvH S n A u).
Proof. unfold mvH. replace (mconj S (mscale S a A)) with (mscale S (conj S a) (mconj S A)).
  - apply mvT_mscale.
  - unfold mconj, mscale. rewrite !map_map. apply map_ext; intros; symmetry; apply vconj_vscale. Qed.
Lemma vconj_mvT n B r : vconj S (mvT S n B r) = mvT S n (mconj S B) (vconj S r).
Proof. revert r; induction B as [|b B IH]; intros [|a r]; simpl; try apply vconj_zeros.
  rewrite vconj_vadd, vconj_vscale, IH. reflexivity. Qed.
Lemma mconj_mm p A B : mconj S (mm S p A B) = mm S p (mconj S A) (mconj S B).
Proof. unfold mconj at 1 2, mm. rewrite !map_map. apply map_ext; intros; apply vconj_mvT. Qed.
Lemma mvH_mm p A B u : wfM S p B -> wfM S (length B) A -> length u = length A ->
  mvH S p (mm S p A B) u = mvH S p B (mvH S (length B) A u).
Proof. intros WB WA Hu. unfold mvH. rewrite mconj_mm. rewrite <- (mconj_length B).
  apply mvT_mm; auto using wfM_mconj.
  - rewrite mconj_length. apply wfM_mconj; auto.
  - rewrite mconj_length; auto. Qed.
Lemma mv_ctranspose n M y : length y = length M -> mv S (ctranspose S n M) y = mvH S n M y.
Proof. intros; apply mv_transpose. rewrite mconj_length; auto. Qed.
Lemma ctranspose_length n M : wfM S n M -> length (ctranspose S n M) = n.
Proof. intros; apply transpose_length, wfM_mconj; auto. Qed.
Lemma wf_ctranspose n M : wfM S (length M) (ctranspose S n M).
Proof. unfold ctranspose. rewrite <- (mconj_length M). apply wf_transpose. Qed.
End LSStar.

(* ===================================================================== *)
(* Part 2 — weighted stacked least squares over an ordered field          *)
(* ===================================================================== *)
Section LSQ.
Variable F : OrdField.
Add Ring FrLS : (rth F).
Notation vec := (list F).

Lemma rle_0_add (a b : F) : 0 <= a -> 0 <= b -> 0 <= a + b.
Proof. intros Ha Hb. apply (rle_trans F 0 b (a + b)); auto.
  pose proof (rle_add F 0 a b Ha) as H. replace (0 + b) with b in H by ring. exact H. Qed.
Lemma rle_sq (a : F) : 0 <= a * a.
Proof. destruct (rle_total F 0 a) as [H|H]; [apply rle_mul; auto|].
  pose proof (rle_add F a 0 (- a) H) as H1.
  replace (a + - a) with (r0 F) in H1 by ring. replace (0 + - a) with (- a) in H1 by ring.
  replace (a * a) with ((- a) * (- a)) by ring. apply rle_mul; auto. Qed.
Lemma rle_add_nonneg (a b : F) : 0 <= b -> a <= a + b.
Proof. intros H. pose proof (rle_add F 0 b a H) as H1.
  replace (0 + a) with a in H1 by ring. replace (b + a) with (a + b) in H1 by ring. exact H1. Qed.
Lemma dotu_self_nonneg (v : vec) : 0 <= dotu F v v.
Proof. induction v as [|a v IH]; simpl; [apply rle_refl | apply rle_0_add; auto using rle_sq]. Qed.

(* one block  a * || c - f x ||^2 ; f linear with adjoint g *)
Record block := { b_a : F; b_k : nat; b_f : vec -> vec; b_g : vec -> vec; b_c : vec }.
Definition wfb (n : nat) (b : block) : Prop :=
  length (b_c b) = b_k b /\
  (forall x, length x = n -> length (b_f b x) = b_k b) /\
  (forall u, length u = b_k b -> length (b_g b u) = n) /\
  (forall x h, length x = n -> length h = n -> b_f b (vadd F x h) = vadd F (b_f b x) (b_f b h)) /\
  (forall h u, length h = n -> length u = b_k b -> dotu F (b_f b h) u = dotu F h (b_g b u)).
Definition qres (b : block) (x : vec) : F :=
  dotu F (vsub F (b_c b) (b_f b x)) (vsub F (b_c b) (b_f b x)).
Definition Jb (bs : list block) (x : vec) : F := vsum F (map (fun b => b_a b * qres b x) bs).
Definition SQb (bs : list block) (h : vec) : F :=
  vsum F (map (fun b => b_a b * dotu F (b_f b h) (b_f b h)) bs).
Definition Nb (n : nat) (bs : list block) (x : vec) : vec :=
  vsumv F n (map (fun b => vscale F (b_a b) (b_g b (b_f b x))) bs).
Definition rb (n : nat) (bs : list block) : vec :=
  vsumv F n (map (fun b => vscale F (b_a b) (b_g b (b_c b))) bs).

Lemma q_expand n b x h : wfb n b -> length x = n -> length h = n ->
  qres b (vadd F x h) = qres b x + dotu F (b_f b h) (b_f b h)
     + (1 + 1) * (dotu F h (b_g b (b_f b x)) - dotu F h (b_g b (b_c b))).
Proof. intros (Hc & Hf & Hg & Hadd & Hadj) Hx Hh. unfold qres.
  rewrite Hadd by auto. rewrite vsub_vadd_r.
  rewrite dotu_sq_expand by (rewrite vsub_length, Hc, !Hf by auto; lia).
  rewrite (dotu_vsub_r F (b_f b h)) by (rewrite Hc, Hf; auto).
  rewrite (Hadj h (b_c b)) by auto. rewrite (Hadj h (b_f b x)) by auto. ring. Qed.

Lemma Nb_length n bs x : Forall (wfb n) bs -> length x = n -> length (Nb n bs x) = n.
Proof. intros W Hx. apply vsumv_length. apply Forall_map. eapply Forall_impl; [|exact W].
  intros b (Hc & Hf & Hg & _). simpl. rewrite vscale_length. apply Hg, Hf; auto. Qed.
Lemma rb_length n bs : Forall (wfb n) bs -> length (rb n bs) = n.
Proof. intros W. apply vsumv_length. apply Forall_map. eapply Forall_impl; [|exact W].
  intros b (Hc & Hf & Hg & _). simpl. rewrite vscale_length. apply Hg; auto. Qed.

Lemma Jb_expand n bs x h : Forall (wfb n) bs -> length x = n -> length h = n ->
  Jb bs (vadd F x h) = Jb bs x + SQb bs h + (1 + 1) * (dotu F h (Nb n bs x) - dotu F h (rb n bs)).
Proof. intros W Hx Hh. induction W as [|b bs Wb W IH]; simpl.
  - unfold Jb, SQb, Nb, rb; simpl. rewrite !dotu_zeros_r. ring.
  - unfold Jb, SQb, Nb, rb in *; simpl. rewrite IH. rewrite (q_expand n) by auto.
    destruct Wb as (Hc & Hf & Hg & _).
    rewrite !dotu_vadd_r, !dotu_vscale_r.
    + ring.
    + rewrite vscale_length, Hg by auto. symmetry; apply (rb_length n bs W).
    + rewrite vscale_length, Hg by (apply Hf; auto). symmetry; apply (Nb_length n bs x W Hx). Qed.

Lemma SQb_nonneg bs h : Forall (fun b => 0 <= b_a b) bs -> 0 <= SQb bs h.
Proof. induction 1; simpl; [apply rle_refl|]. apply rle_0_add; auto.
  apply rle_mul; auto using dotu_self_nonneg. Qed.

(* N x = rhs  ->  x minimises the stacked functional *)
Theorem block_normal_eq_minimises n bs x : Forall (wfb n) bs -> Forall (fun b => 0 <= b_a b) bs ->
  length x = n -> Nb n bs x = rb n bs ->
  forall z, length z = n -> Jb bs x <= Jb bs z.
Proof. intros W P Hx E z Hz.
  rewrite <- (vadd_vsub_cancel F x z) by lia.
  rewrite (Jb_expand n) by (auto; rewrite vsub_length; lia). rewrite E.
  replace (Jb bs x + SQb bs (vsub F z x) + (1 + 1) * (dotu F (vsub F z x) (rb n bs) - dotu F (vsub F z x) (rb n bs)))
    with (Jb bs x + SQb bs (vsub F z x)) by ring.
  apply rle_add_nonneg, SQb_nonneg; auto. Qed.
End LSQ.

(* ===================================================================== *)
(* Part 3 — the documented problem and the assemblies built by the code   *)
(* ===================================================================== *)
Section LSProblem.
Variable S : StarRing.
Add Ring RrLS3 : (rth S).
Notation vec := (list S).
Notation mat := (list (list S)).

Record reg := { g_eps : S; g_R : mat; g_d : vec }.          (* epsRs[i], Regs[i], dataregs[i] *)
Record nreg := { h_eps : S; h_N : mat }.                     (* epsNRs[i], NRegs[i] *)
(* p_W is the argument ``Weight`` (None = not given).  For
   NormalEquationsInversion it is W; for RegularizedInversion it is W^{1/2}. *)
Record lsq := { p_m : nat; p_n : nat; p_A : mat; p_y : vec; p_W : option mat;
                p_regs : list reg; p_nregs : list nreg; p_epsI : S }.

(* defaults applied by both setup methods: dataregs=None -> zero vectors,
   epsRs=None -> [1]*len(Regs) *)
Definition build_regs (Rs : list mat) (ds : option (list vec)) (es : option (list S)) : list reg :=
  let ds' := match ds with Some l => l | None => map (fun R => zeros S (length R)) Rs end in
  let es' := match es with Some l => l | None => map (fun _ => 1) Rs end in
  map2 (fun R de => {| g_eps := snd de; g_R := R; g_d := fst de |}) Rs (map2 pair ds' es').

Definition wfreg (n : nat) (t : reg) : Prop := wfM S n (g_R t) /\ length (g_d t) = length (g_R t).
Definition wfnreg (n : nat) (t : nreg) : Prop := wfM S n (h_N t) /\ length (h_N t) = n.
Definition wfP (P : lsq) : Prop :=
  wfM S (p_n P) (p_A P) /\ length (p_A P) = p_m P /\ length (p_y P) = p_m P /\
  match p_W P with Some W => wfM S (p_m P) W /\ length W = p_m P | None => True end /\
  Forall (wfreg (p_n P)) (p_regs P) /\ Forall (wfnreg (p_n P)) (p_nregs P).

(* ---- the DOCUMENTED normal equations (NormalEquationsInversion Notes) ---- *)
Definition Weff (P : lsq) : mat := match p_W P with Some W => W | None => mident S (p_m P) end.
Definition Nmat (P : lsq) : mat :=
  let n := p_n P in
  madd S (mm S n (ctranspose S n (p_A P)) (mm S n (Weff P) (p_A P)))
   (madd S (mscale S (sq S (p_epsI P)) (mident S n))
     (madd S (msum S n (map (fun t => mscale S (sq S (g_eps t)) (mm S n (ctranspose S n (g_R t)) (g_R t))) (p_regs P)))
             (msum S n (map (fun t => mscale S (sq S (h_eps t)) (h_N t)) (p_nregs P))))).
Definition rhs (P : lsq) : vec :=
  let n := p_n P in
  vadd S (mvH S n (p_A P) (mv S (Weff P) (p_y P)))
         (vsumv S n (map (fun t => vscale S (sq S (g_eps t)) (mvH S n (g_R t) (g_d t))) (p_regs P))).
(* the same N as a map *)
Definition Napply (P : lsq) (x : vec) : vec :=
  let n := p_n P in
  vadd S (mvH S n (p_A P) (mv S (Weff P) (mv S (p_A P) x)))
   (vadd S (vscale S (sq S (p_epsI P)) x)
     (vadd S (vsumv S n (map (fun t => vscale S (sq S (g_eps t)) (mvH S n (g_R t) (mv S (g_R t) x))) (p_regs P)))
             (vsumv S n (map (fun t => vscale S (sq S (h_eps t)) (mv S (h_N t) x)) (p_nregs P))))).

Lemma Weff_wf P : wfP P -> wfM S (p_m P) (Weff P) /\ length (Weff P) = p_m P.
Proof. intros (_ & _ & _ & HW & _). unfold Weff. destruct (p_W P); auto. split; [apply wf_mident | apply mident_length]. Qed.

Lemma regterm_wf n (rs : list reg) : Forall (wfreg n) rs ->
  Forall (wfM S n) (map (fun t => mscale S (sq S (g_eps t)) (mm S n (ctranspose S n (g_R t)) (g_R t))) rs).
Proof. intros H. apply Forall_map. eapply Forall_impl; [|exact H]. intros t (W & _); simpl.
  apply wf_mscale, wf_mm; auto. Qed.
Lemma nregterm_wf n (ns : list nreg) : Forall (wfnreg n) ns ->
  Forall (wfM S n) (map (fun t => mscale S (sq S (h_eps t)) (h_N t)) ns).
Proof. intros H. apply Forall_map. eapply Forall_impl; [|exact H]. intros t (W & _); simpl. apply wf_mscale; auto. Qed.

Lemma gram_apply n (R : mat) x : wfM S n R -> length x = n ->
  mv S (mm S n (ctranspose S n R) R) x = mvH S n R (mv S R x).
Proof. intros W Hx. rewrite mv_mm; auto using wf_ctranspose. apply mv_ctranspose. apply mv_length. Qed.

Theorem Nmat_apply P x : wfP P -> length x = p_n P -> mv S (Nmat P) x = Napply P x.
Proof. intros WP Hx. destruct (Weff_wf P WP) as (WW & LW).
  destruct WP as (WA & LA & Ly & _ & WR & WN). unfold Nmat, Napply. cbv zeta.
  set (n := p_n P) in *.
  assert (W1 : wfM S n (mm S n (Weff P) (p_A P))) by (apply wf_mm; auto).
  rewrite (mv_madd S n); [| apply wf_mm; auto | repeat apply wf_madd; auto using wf_mscale, wf_mident, wf_msum, regterm_wf, nregterm_wf ].
  rewrite (mv_madd S n); [| auto using wf_mscale, wf_mident | repeat apply wf_madd; auto using wf_msum, regterm_wf, nregterm_wf ].
  rewrite (mv_madd S n); [| auto using wf_msum, regterm_wf | auto using wf_msum, nregterm_wf ].
  f_equal; [|f_equal; [|f_equal]].
  - rewrite mv_mm; auto.
    + rewrite mv_mm; auto; [| rewrite LA; auto ].
      apply mv_ctranspose. rewrite !mv_length. lia.
    + rewrite mm_length, LW, <- LA. apply wf_ctranspose.
  - rewrite mv_mscale, mv_mident; auto.
  - rewrite mv_msum by auto using regterm_wf. rewrite map_map. f_equal.
    apply map_ext_in; intros t Ht. rewrite mv_mscale. f_equal.
    eapply Forall_forall in WR; eauto. destruct WR as (Wt & _). apply gram_apply; auto.
  - rewrite mv_msum by auto using nregterm_wf. rewrite map_map. f_equal.
    apply map_ext; intros t. apply mv_mscale.
Qed.

Lemma Napply_length P x : wfP P -> length x = p_n P -> length (Napply P x) = p_n P.
Proof. intros WP Hx. unfold Napply; cbv zeta. destruct WP as (WA & LA & Ly & _ & WR & WN).
  rewrite !vadd_length, vscale_length, mvH_length, Hx by auto.
  rewrite !vsumv_length; try lia.
  - apply Forall_map. eapply Forall_impl; [|exact WN]. intros t (W & L); simpl. rewrite vscale_length, mv_length; auto.
  - apply Forall_map. eapply Forall_impl; [|exact WR]. intros t (W & L); simpl. rewrite vscale_length, mvH_length; auto. Qed.

(* ---- NormalEquationsInversion.setup as coded ----
   Op_normal = OpH @ [Weight @] Op ; if epsI != 0: += epsI**2 * Diagonal(ones) ;
   for each reg: += epsR**2 * Reg.H @ Reg ; for each nreg: += epsNR**2 * NReg
   (a left-nested _SumLinearOperator; modelled by its matvec), and
   y_normal = Op.rmatvec([Weight.matvec](y)) ; += epsR**2 * Reg.rmatvec(datareg). *)
Variable nzb : S -> bool.     (* the test  epsI != 0  *)
Hypothesis nzb_sound : forall a, nzb a = false -> a = 0.
Definition op_normal_code (P : lsq) (x : vec) : vec :=
  let n := p_n P in
  let base := match p_W P with
              | Some W => mvH S n (p_A P) (mv S W (mv S (p_A P) x))
              | None => mvH S n (p_A P) (mv S (p_A P) x) end in
  let b1 := if nzb (p_epsI P)
            then vadd S base (vscale S (sq S (p_epsI P)) (vmul S (ones S n) x)) else base in
  let b2 := fold_left (fun acc t => vadd S acc (vscale S (sq S (g_eps t)) (mvH S n (g_R t) (mv S (g_R t) x))))
                      (p_regs P) b1 in
  fold_left (fun acc t => vadd S acc (vscale S (sq S (h_eps t)) (mv S (h_N t) x))) (p_nregs P) b2.
Definition y_normal_code (P : lsq) : vec :=
  let n := p_n P in
  let base := match p_W P with
              | Some W => mvH S n (p_A P) (mv S W (p_y P))
              | None => mvH S n (p_A P) (p_y P) end in
  fold_left (fun acc t => vadd S acc (vscale S (sq S (g_eps t)) (mvH S n (g_R t) (g_d t)))) (p_regs P) base.
(* Op_normal.todense(): column j is Op_normal applied to the j-th unit vector *)
Definition op_normal_dense (P : lsq) : mat :=
  transpose S (p_n P) (map (fun j => op_normal_code P (unit S (p_n P) j)) (seq 0 (p_n P))).

Theorem assembly_normal_correct P x : wfP P -> length x = p_n P ->
  op_normal_code P x = mv S (Nmat P) x /\ y_normal_code P = rhs P.
Proof. intros WP Hx. rewrite Nmat_apply by auto. destruct (Weff_wf P WP) as (WW & LW).
  destruct WP as (WA & LA & Ly & HW & WR & WN).
  unfold op_normal_code, y_normal_code, Napply, rhs, Weff in *. cbv zeta. set (n := p_n P) in *.
  assert (HR : forall t, In t (p_regs P) -> length (vscale S (sq S (g_eps t)) (mvH S n (g_R t) (mv S (g_R t) x))) = n).
  { intros t Ht. eapply Forall_forall in WR; eauto. destruct WR. rewrite vscale_length, mvH_length; auto. }
  assert (HN : forall t, In t (p_nregs P) -> length (vscale S (sq S (h_eps t)) (mv S (h_N t) x)) = n).
  { intros t Ht. eapply Forall_forall in WN; eauto. destruct WN. rewrite vscale_length, mv_length; auto. }
  assert (HD : forall t, In t (p_regs P) -> length (vscale S (sq S (g_eps t)) (mvH S n (g_R t) (g_d t))) = n).
  { intros t Ht. eapply Forall_forall in WR; eauto. destruct WR. rewrite vscale_length, mvH_length; auto. }
  assert (HS : length (vsumv S n (map (fun t => vscale S (sq S (g_eps t)) (mvH S n (g_R t) (mv S (g_R t) x))) (p_regs P))) = n).
  { apply vsumv_length, Forall_map, Forall_forall; auto. }
  split.
  - set (base := match p_W P with Some W => mvH S n (p_A P) (mv S W (mv S (p_A P) x))
                                | None => mvH S n (p_A P) (mv S (p_A P) x) end).
    assert (Eb : base = mvH S n (p_A P) (mv S match p_W P with Some W => W | None => mident S (p_m P) end (mv S (p_A P) x))).
    { unfold base. destruct (p_W P); auto. rewrite mv_mident; auto. rewrite mv_length; auto. }
    assert (Lb : length base = n) by (rewrite Eb; apply mvH_length; auto).
    rewrite <- Eb.
    assert (Lv : length (vscale S (sq S (p_epsI P)) x) = n) by (rewrite vscale_length; auto).
    assert (Em : vmul S (ones S n) x = x) by (subst n; rewrite <- Hx; apply vmul_ones).
    assert (Hcase : (nzb (p_epsI P) = true) \/ (nzb (p_epsI P) = false /\ sq S (p_epsI P) = 0)).
    { destruct (nzb (p_epsI P)) eqn:E; auto. right; split; auto. rewrite (nzb_sound _ E). unfold sq; ring. }
    destruct Hcase as [Hp|(Hp & Hz)]; rewrite Hp.
    + rewrite Em.
      rewrite (fold_left_vadd S n _ (p_regs P)) by (auto; rewrite vadd_length, Lb, Lv; lia).
      rewrite (fold_left_vadd S n _ (p_nregs P)) by (auto; rewrite !vadd_length, Lb, Lv, HS; lia).
      rewrite !vadd_assoc. reflexivity.
    + rewrite (fold_left_vadd S n _ (p_regs P)) by auto.
      rewrite (fold_left_vadd S n _ (p_nregs P)) by (auto; rewrite !vadd_length, Lb, HS; lia).
      rewrite Hz, vscale_zero, Hx. rewrite (vadd_zeros_l' S n).
      * rewrite !vadd_assoc. reflexivity.
      * rewrite vadd_length, HS, vsumv_length; [lia|]. apply Forall_map, Forall_forall; auto.
  - rewrite (fold_left_vadd S n); auto.
    + destruct (p_W P); auto. rewrite mv_mident; auto.
    + destruct (p_W P); apply mvH_length; auto.
Qed.

(* every column of Op_normal.todense() is the column of the documented N *)
Corollary assembly_normal_columns P j : wfP P -> j < p_n P ->
  op_normal_code P (unit S (p_n P) j) = col S j (Nmat P).
Proof. intros WP Hj. destruct (assembly_normal_correct P (unit S (p_n P) j) WP (unit_length S _ _)) as (E & _).
  rewrite E. apply mv_unit; auto.
  destruct (Weff_wf P WP) as (WW & LW). destruct WP as (WA & LA & Ly & _ & WR & WN). unfold Nmat; cbv zeta.
  repeat apply wf_madd; auto using wf_mm, wf_mscale, wf_mident, wf_msum, regterm_wf, nregterm_wf. Qed.

(* ---- RegularizedOperator / RegularizedInversion.setup as coded ----
   RegOp = VStack([ [Weight @] Op ] + [epsR * Reg ...]);   datatot =
   hstack(...hstack([Weight.matvec](y), epsR_1*datareg_1)..., epsR_k*datareg_k).
   VStack of dense blocks is row concatenation. *)
Definition regop_dense (P : lsq) : mat :=
  (match p_W P with Some Wr => mm S (p_n P) Wr (p_A P) | None => p_A P end)
  ++ flat_map (fun t => mscale S (g_eps t) (g_R t)) (p_regs P).
Definition datatot (P : lsq) : vec :=
  (match p_W P with Some Wr => mv S Wr (p_y P) | None => p_y P end)
  ++ flat_map (fun t => vscale S (g_eps t) (g_d t)) (p_regs P).
(* matvec of the VStack operator as the code evaluates it *)
Definition regop_fwd (P : lsq) (x : vec) : vec :=
  (match p_W P with Some Wr => mv S Wr (mv S (p_A P) x) | None => mv S (p_A P) x end)
  ++ flat_map (fun t => vscale S (g_eps t) (mv S (g_R t) x)) (p_regs P).
(* the documented normal-equation problem that RegularizedInversion(Weight =
   Wr) is equivalent to:  W = Wr^H Wr, no epsI, no NRegs *)
Definition normal_of_reg (P : lsq) : lsq :=
  {| p_m := p_m P; p_n := p_n P; p_A := p_A P; p_y := p_y P;
     p_W := option_map (fun Wr => mm S (p_m P) (ctranspose S (p_m P) Wr) Wr) (p_W P);
     p_regs := p_regs P; p_nregs := []; p_epsI := 0 |}.

Lemma mv_flat (rs : list reg) x :
  mv S (flat_map (fun t => mscale S (g_eps t) (g_R t)) rs) x
  = flat_map (fun t => vscale S (g_eps t) (mv S (g_R t) x)) rs.
Proof. induction rs as [|t rs IH]; simpl; auto. rewrite mv_app, mv_mscale, IH; auto. Qed.
Lemma wf_flat n (rs : list reg) : Forall (wfreg n) rs ->
  wfM S n (flat_map (fun t => mscale S (g_eps t) (g_R t)) rs).
Proof. induction 1 as [|t rs (W & _) _ IH]; simpl; [constructor|]. apply Forall_app; split; [apply wf_mscale; auto | exact IH]. Qed.
Lemma stack_adj n (rs : list reg) (w : reg -> vec) : Forall (wfreg n) rs ->
  Forall (fun t => conj S (g_eps t) = g_eps t) rs ->
  (forall t, In t rs -> length (w t) = length (g_R t)) ->
  mvH S n (flat_map (fun t => mscale S (g_eps t) (g_R t)) rs) (flat_map (fun t => vscale S (g_eps t) (w t)) rs)
  = vsumv S n (map (fun t => vscale S (sq S (g_eps t)) (mvH S n (g_R t) (w t))) rs).
Proof. intros W; induction W as [|t rs (Wt & Lt) W IH]; intros Hc Hw; simpl; auto.
  inversion Hc as [|? ? Ht Hc']; subst.
  rewrite mvH_app; auto using wf_mscale, wf_flat.
  - rewrite IH; auto; [| intros; apply Hw; right; auto].
    rewrite mvH_mscale, mvH_vscale, vscale_vscale, Ht by auto. reflexivity.
  - rewrite vscale_length, mscale_length. apply Hw; left; auto. Qed.

Theorem regop_dense_fwd P x : wfP P -> length x = p_n P -> mv S (regop_dense P) x = regop_fwd P x.
Proof. intros (WA & LA & Ly & HW & WR & WN) Hx. unfold regop_dense, regop_fwd.
  rewrite mv_app, mv_flat. f_equal. destruct (p_W P) as [Wr|]; auto.
  destruct HW as (WW & LW). apply mv_mm; auto. rewrite LA; auto. Qed.

Lemma wfP_normal_of_reg P : wfP P -> wfP (normal_of_reg P).
Proof. intros (WA & LA & Ly & HW & WR & WN). unfold wfP, normal_of_reg; simpl. repeat split; auto.
  destruct (p_W P) as [Wr|]; simpl; auto. destruct HW as (WW & LW). split.
  - apply wf_mm; auto.
  - rewrite mm_length. apply ctranspose_length; auto. Qed.

(* (VStack)^H (VStack) = N  and  (VStack)^H datatot = rhs  for real dampings *)
Theorem stack_normal_eq P x : wfP P -> Forall (fun t => conj S (g_eps t) = g_eps t) (p_regs P) ->
  length x = p_n P ->
  mvH S (p_n P) (regop_dense P) (mv S (regop_dense P) x) = mv S (Nmat (normal_of_reg P)) x
  /\ mvH S (p_n P) (regop_dense P) (datatot P) = rhs (normal_of_reg P).
Proof. intros WP Hc Hx. rewrite (Nmat_apply (normal_of_reg P)) by (auto using wfP_normal_of_reg).
  rewrite regop_dense_fwd by auto.
  destruct WP as (WA & LA & Ly & HW & WR & WN).
  unfold regop_dense, regop_fwd, datatot, Napply, rhs, Weff, normal_of_reg; simpl. set (n := p_n P) in *.
  replace (sq S 0) with (r0 S) by (unfold sq; ring). rewrite vscale_zero, Hx.
  assert (HS : forall w, (forall t, In t (p_regs P) -> length (w t) = length (g_R t)) ->
     length (vsumv S n (map (fun t => vscale S (sq S (g_eps t)) (mvH S n (g_R t) (w t))) (p_regs P))) = n).
  { intros w Hw. apply vsumv_length, Forall_map, Forall_forall. intros t Ht.
    eapply Forall_forall in WR; eauto. destruct WR. rewrite vscale_length, mvH_length; auto. }
  assert (Hw1 : forall t, In t (p_regs P) -> length (mv S (g_R t) x) = length (g_R t)) by (intros; apply mv_length).
  assert (Hw2 : forall t, In t (p_regs P) -> length (g_d t) = length (g_R t)).
  { intros t Ht. eapply Forall_forall in WR; eauto. destruct WR; auto. }
  rewrite (vadd_zeros_r' S n) by (apply (HS (fun t => mv S (g_R t) x)); auto).
  rewrite (vadd_zeros_l' S n) by (apply (HS (fun t => mv S (g_R t) x)); auto).
  destruct (p_W P) as [Wr|]; simpl.
  - destruct HW as (WW & LW). split.
    + rewrite mvH_app; auto using wf_mm, wf_flat; [| rewrite mv_length, mm_length; auto].
      rewrite (stack_adj n _ (fun t => mv S (g_R t) x)); auto. f_equal.
      rewrite mvH_mm; auto; [| rewrite LA; auto | rewrite mv_length; auto ].
      rewrite LA. f_equal. symmetry. apply gram_apply; auto. rewrite mv_length; auto.
    + rewrite mvH_app; auto using wf_mm, wf_flat; [| rewrite mv_length, mm_length; auto].
      rewrite (stack_adj n _ g_d); auto. f_equal.
      rewrite mvH_mm; auto; [| rewrite LA; auto | rewrite mv_length; auto ].
      rewrite LA. f_equal. symmetry. apply gram_apply; auto.
  - split.
    + rewrite mvH_app; auto using wf_flat; [| rewrite mv_length; auto].
      rewrite (stack_adj n _ (fun t => mv S (g_R t) x)); auto. f_equal.
      rewrite mv_mident; auto. rewrite mv_length; auto.
    + rewrite mvH_app; auto using wf_flat; [| lia].
      rewrite (stack_adj n _ g_d); auto. f_equal. rewrite mv_mident; auto.
Qed.

(* ---- the x0 shift of the three run() methods ---- *)
(* NormalEquationsInversion.run: y_normal - Op_normal x0 ; solve ; x0 + xinv *)
Theorem x0_shift_normal n (M : mat) b x0 dx : wfM S n M -> length x0 = n -> length dx = n ->
  length b = length M -> mv S M dx = vsub S b (mv S M x0) -> mv S M (vadd S x0 dx) = b.
Proof. intros W H0 Hd Hb E. rewrite mv_vadd by lia. rewrite E. apply vadd_vsub_cancel. rewrite mv_length; auto. Qed.
(* RegularizedInversion.run: datatot - RegOp x0 ; least squares ; x0 + xinv *)
Theorem x0_shift_stack n (M : mat) b x0 dx : wfM S n M -> length x0 = n -> length dx = n ->
  length b = length M ->
  mvH S n M (mv S M dx) = mvH S n M (vsub S b (mv S M x0)) ->
  mvH S n M (mv S M (vadd S x0 dx)) = mvH S n M b.
Proof. intros W H0 Hd Hb E. rewrite mv_vadd by lia. rewrite mvH_vadd, E by (auto; apply mv_length).
  rewrite mvH_vsub by (auto; apply mv_length). apply vadd_vsub_cancel. rewrite !mvH_length; auto. Qed.

Definition injective (n : nat) (M : mat) : Prop :=
  forall h, length h = n -> mv S M h = zeros S (length M) -> h = zeros S n.
Theorem unique_solution n (M : mat) b x x' : injective n M -> length x = n -> length x' = n ->
  mv S M x = b -> mv S M x' = b -> x = x'.
Proof. intros Inj Hx Hx' E E'. apply vsub_eq_zeros; [lia|]. rewrite Hx. apply Inj.
  - rewrite vsub_length; lia.
  - rewrite mv_vsub, E, E' by lia. rewrite vsub_self. rewrite <- E, mv_length. reflexivity. Qed.
(* the returned model does not depend on x0 when N is definite *)
Theorem x0_shift_invariant n (M : mat) b x0 dx x0' dx' : wfM S n M -> injective n M ->
  length x0 = n -> length dx = n -> length x0' = n -> length dx' = n -> length b = length M ->
  mv S M dx = vsub S b (mv S M x0) -> mv S M dx' = vsub S b (mv S M x0') ->
  vadd S x0 dx = vadd S x0' dx'.
Proof. intros W Inj H0 Hd H0' Hd' Hb E E'. apply (unique_solution n M b); auto.
  - rewrite vadd_length; lia.
  - rewrite vadd_length; lia.
  - apply (x0_shift_normal n); auto.
  - apply (x0_shift_normal n); auto. Qed.

(* ---- PreconditionedInversion: POp = Op @ P ; y - Op x0 ; least squares in p ;
   x = x0 + P p.  If P^H is injective (P invertible) x solves the normal
   equations of the ORIGINAL problem. *)
Theorem precond_change_of_variables n (A Pm : mat) y x0 p :
  wfM S n A -> wfM S n Pm -> length Pm = n -> length y = length A -> length x0 = n -> length p = n ->
  (forall v, length v = n -> mvH S n Pm v = zeros S n -> v = zeros S n) ->
  mvH S n (mm S n A Pm) (mv S (mm S n A Pm) p) = mvH S n (mm S n A Pm) (vsub S y (mv S A x0)) ->
  mvH S n A (mv S A (vadd S x0 (mv S Pm p))) = mvH S n A y.
Proof. intros WA WP LP Ly H0 Hp Inj E.
  assert (WA' : wfM S (length Pm) A) by (rewrite LP; auto).
  rewrite !mvH_mm in E by (auto; rewrite ?vsub_length, ?mv_length, ?mm_length; lia).
  rewrite mv_mm in E by auto. rewrite LP in E.
  set (a := mvH S n A (mv S A (mv S Pm p))) in *. set (c := mvH S n A (vsub S y (mv S A x0))) in *.
  assert (La : length a = n) by (apply mvH_length; auto).
  assert (Lc : length c = n) by (apply mvH_length; auto).
  assert (Eac : a = c).
  { apply vsub_eq_zeros; [lia|]. rewrite La. apply Inj; [rewrite vsub_length; lia|].
    rewrite mvH_vsub by (auto; lia). rewrite E, vsub_self, mvH_length; auto. }
  rewrite mv_vadd by (rewrite mv_length; lia). rewrite mvH_vadd by (auto; apply mv_length).
  fold a. rewrite Eac. unfold c. rewrite mvH_vsub by (auto; apply mv_length).
  apply vadd_vsub_cancel. rewrite !mvH_length; auto. Qed.

(* where the formulations coincide the results agree: any solution of the
   normal equations of normal_of_reg P equals any least-squares solution of
   the stacked system of P, when N is definite *)
Theorem three_agree P xn xr : wfP P -> Forall (fun t => conj S (g_eps t) = g_eps t) (p_regs P) ->
  injective (p_n P) (Nmat (normal_of_reg P)) -> length xn = p_n P -> length xr = p_n P ->
  mv S (Nmat (normal_of_reg P)) xn = rhs (normal_of_reg P) ->
  mvH S (p_n P) (regop_dense P) (mv S (regop_dense P) xr) = mvH S (p_n P) (regop_dense P) (datatot P) ->
  xn = xr.
Proof. intros WP Hc Inj Hn Hr En Er. destruct (stack_normal_eq P xr WP Hc Hr) as (E1 & E2).
  rewrite E1, E2 in Er. eapply unique_solution; eauto. Qed.
End LSProblem.

(* ===================================================================== *)
(* Part 4 — N x = rhs  ->  x minimises the DOCUMENTED functional          *)
(* ===================================================================== *)
Section LSMin.
Variable F : OrdField.
Add Ring FrLS2 : (rth F).
Notation vec := (list F).
Notation mat := (list (list F)).

Lemma vconj_real (u : vec) : vconj F u = u.
Proof. unfold vconj. rewrite <- (map_id u) at 2. apply map_ext; intros; apply conj_real. Qed.
Lemma mconj_real (M : mat) : mconj F M = M.
Proof. unfold mconj. rewrite <- (map_id M) at 2. apply map_ext; intros; apply vconj_real. Qed.
Lemma mvH_real n (M : mat) y : mvH F n M y = mvT F n M y.
Proof. unfold mvH; rewrite mconj_real; auto. Qed.

(* J(x) = (y - A x)^T W (y - A x) + sum_i eps_i^2 ||R_i x - d_i||^2
          + sum_i epsN_i^2 x^T N_i x + epsI^2 ||x||^2 *)
Definition Jdoc (P : lsq F) (x : vec) : F :=
  let r := vsub F (p_y F P) (mv F (p_A F P) x) in
  dotu F r (mv F (Weff F P) r)
  + (sq F (p_epsI F P) * dotu F x x
  + (vsum F (map (fun t => sq F (g_eps F t) *
        dotu F (vsub F (mv F (g_R F t) x) (g_d F t)) (vsub F (mv F (g_R F t) x) (g_d F t))) (p_regs F P))
  + vsum F (map (fun t => sq F (h_eps F t) * dotu F x (mv F (h_N F t) x)) (p_nregs F P)))).

(* N = M^T M as maps (positive semi-definiteness through a factorisation) *)
Definition factors (n : nat) (N M : mat) : Prop :=
  wfM F n M /\ forall v, length v = n -> mv F N v = mvT F n M (mv F M v).

Lemma factors_gram n (M : mat) : wfM F n M -> factors n (mm F n (transpose F n M) M) M.
Proof. intros W; split; auto. intros v Hv. rewrite mv_mm; auto using wf_transpose.
  apply mv_transpose. apply mv_length. Qed.

Definition mblock (n : nat) (a : F) (L : mat) (c : vec) : block F :=
  {| b_a := a; b_k := length L; b_f := mv F L; b_g := mvT F n L; b_c := c |}.
Lemma wfb_mblock n a L c : wfM F n L -> length c = length L -> wfb F n (mblock n a L c).
Proof. intros W Hc. unfold wfb, mblock; simpl. repeat split; auto.
  - intros; apply mv_length.
  - intros; apply mvT_length; auto.
  - intros; apply mv_vadd; lia.
  - intros; apply dotu_mv_mvT; auto. Qed.
Definition iblock (n : nat) (a : F) : block F :=
  {| b_a := a; b_k := n; b_f := fun x => x; b_g := fun u => u; b_c := zeros F n |}.
Lemma wfb_iblock n a : wfb F n (iblock n a).
Proof. unfold wfb, iblock; simpl. repeat split; auto. apply zeros_length. Qed.
Definition wblock (P : lsq F) (Wr : mat) : block F :=
  match p_W F P with
  | Some _ => {| b_a := 1; b_k := length Wr;
                 b_f := fun x => mv F Wr (mv F (p_A F P) x);
                 b_g := fun u => mvT F (p_n F P) (p_A F P) (mvT F (p_m F P) Wr u);
                 b_c := mv F Wr (p_y F P) |}
  | None => mblock (p_n F P) 1 (p_A F P) (p_y F P)
  end.
Definition Wfac (P : lsq F) (Wr : mat) : Prop :=
  match p_W F P with Some W => factors (p_m F P) W Wr | None => True end.
Lemma wfb_wblock P Wr : wfP F P -> Wfac P Wr -> wfb F (p_n F P) (wblock P Wr).
Proof. intros (WA & LA & Ly & HW & _) Hf. unfold wblock, Wfac in *. destruct (p_W F P) as [W|].
  - destruct Hf as (WWr & _). unfold wfb; simpl. repeat split.
    + apply mv_length.
    + intros; apply mv_length.
    + intros; apply mvT_length; auto.
    + intros. rewrite mv_vadd by lia. apply mv_vadd. rewrite !mv_length; auto.
    + intros h u Hh Hu. rewrite (dotu_mv_mvT F (p_m F P)); auto; [| rewrite mv_length; auto].
      apply dotu_mv_mvT; auto. rewrite mvT_length; auto.
  - apply wfb_mblock; auto; lia. Qed.

Definition blocks (P : lsq F) (Wr : mat) (NM : list (nreg F * mat)) : list (block F) :=
  wblock P Wr :: iblock (p_n F P) (sq F (p_epsI F P)) ::
  (map (fun t => mblock (p_n F P) (sq F (g_eps F t)) (g_R F t) (g_d F t)) (p_regs F P)
   ++ map (fun tm => mblock (p_n F P) (sq F (h_eps F (fst tm))) (snd tm) (zeros F (length (snd tm)))) NM).
Definition Nfac (P : lsq F) (NM : list (nreg F * mat)) : Prop :=
  map fst NM = p_nregs F P /\ Forall (fun tm => factors (p_n F P) (h_N F (fst tm)) (snd tm)) NM.

Lemma blocks_wf P Wr NM : wfP F P -> Wfac P Wr -> Nfac P NM -> Forall (wfb F (p_n F P)) (blocks P Wr NM).
Proof. intros WP HW (_ & HN). unfold blocks. constructor; [apply wfb_wblock; auto|].
  constructor; [apply wfb_iblock|]. apply Forall_app; split.
  - destruct WP as (_ & _ & _ & _ & WR & _). apply Forall_map. eapply Forall_impl; [|exact WR].
    intros t (W & L); simpl. apply wfb_mblock; auto.
  - apply Forall_map. eapply Forall_impl; [|exact HN]. intros tm (W & _); simpl.
    apply wfb_mblock; auto. apply zeros_length. Qed.
Lemma rle_0_1 : rle F 0 1.
Proof. replace (r1 F) with (r1 F * r1 F) by ring. apply rle_sq. Qed.
Lemma blocks_nonneg P Wr NM : Forall (fun b => rle F 0 (b_a F b)) (blocks P Wr NM).
Proof. unfold blocks. constructor.
  - unfold wblock. destruct (p_W F P); simpl; apply rle_0_1.
  - constructor; [simpl; apply rle_sq|]. apply Forall_app; split; apply Forall_map, Forall_forall; intros; simpl; apply rle_sq. Qed.

Lemma vsum_map_app {T} (f : T -> F) l1 l2 : vsum F (map f (l1 ++ l2)) = vsum F (map f l1) + vsum F (map f l2).
Proof. rewrite map_app; apply vsum_app. Qed.

Lemma q_zero_c n (L : mat) a x : qres F (mblock n a L (zeros F (length L))) x = dotu F (mv F L x) (mv F L x).
Proof. unfold qres, mblock; simpl. rewrite dotu_vsub_sym.
  replace (zeros F (length L)) with (zeros F (length (mv F L x))) by (rewrite mv_length; auto).
  rewrite vsub_zeros_r; auto. Qed.

Theorem Jdoc_blocks P Wr NM x : wfP F P -> Wfac P Wr -> Nfac P NM -> length x = p_n F P ->
  Jdoc P x = Jb F (blocks P Wr NM) x.
Proof. intros WP HW (EN & HN) Hx. destruct WP as (WA & LA & Ly & HWw & WR & WNn).
  unfold Jdoc, Jb, blocks. cbv zeta. cbn [map vsum]. rewrite map_app, map_map, map_map, vsum_app.
  f_equal; [|f_equal; [|f_equal]].
  - unfold wblock, Weff, Wfac in *. destruct (p_W F P) as [W|].
    + destruct HW as (WWr & HWr). unfold qres; simpl.
      rewrite HWr by (rewrite vsub_length, mv_length; lia).
      rewrite <- (dotu_mv_mvT F (p_m F P)); auto; [| rewrite vsub_length, mv_length; lia | apply mv_length].
      rewrite mv_vsub by (rewrite mv_length; lia). ring.
    + unfold qres, mblock; simpl. rewrite mv_mident by (rewrite vsub_length, mv_length; lia). ring.
  - unfold qres, iblock; simpl. rewrite dotu_vsub_sym. rewrite <- Hx. rewrite vsub_zeros_r. reflexivity.
  - f_equal. apply map_ext; intros t. unfold qres, mblock; simpl. f_equal. apply dotu_vsub_sym.
  - rewrite <- EN, map_map. f_equal. apply map_ext_in; intros tm Htm.
    eapply Forall_forall in HN; eauto. destruct HN as (WM & HM). rewrite q_zero_c. simpl. f_equal.
    rewrite HM by auto. symmetry. apply dotu_mv_mvT; auto. apply mv_length. Qed.

Lemma vsumv_cons n (v : vec) vs : vsumv F n (v :: vs) = vadd F v (vsumv F n vs).
Proof. reflexivity. Qed.
Lemma regs_len n (P : lsq F) (g : reg F -> vec) : (forall t, In t (p_regs F P) -> length (g t) = n) ->
  Forall (fun v => length v = n) (map g (p_regs F P)).
Proof. intros H. apply Forall_map, Forall_forall; auto. Qed.

Theorem Nb_blocks P Wr NM x : wfP F P -> Wfac P Wr -> Nfac P NM -> length x = p_n F P ->
  Nb F (p_n F P) (blocks P Wr NM) x = Napply F P x /\ rb F (p_n F P) (blocks P Wr NM) = rhs F P.
Proof. intros WP HW (EN & HN) Hx. destruct WP as (WA & LA & Ly & HWw & WR & WNn).
  unfold Nb, rb, blocks, Napply, rhs. cbv zeta. set (n := p_n F P) in *. cbn [map].
  rewrite !vsumv_cons. rewrite !map_app, !map_map.
  assert (LR : forall (g : reg F -> vec), (forall t, In t (p_regs F P) -> length (g t) = length (g_R F t)) ->
     Forall (fun v => length v = n) (map (fun t => vscale F (sq F (g_eps F t)) (mvT F n (g_R F t) (g t))) (p_regs F P))).
  { intros g Hg. apply Forall_map, Forall_forall. intros t Ht. eapply Forall_forall in WR; eauto.
    destruct WR. rewrite vscale_length, mvT_length; auto. }
  assert (LN : forall (g : nreg F * mat -> vec),
     Forall (fun v => length v = n) (map (fun tm => vscale F (sq F (h_eps F (fst tm))) (mvT F n (snd tm) (g tm))) NM)).
  { intros g. apply Forall_map, Forall_forall. intros tm Htm. eapply Forall_forall in HN; eauto.
    destruct HN. rewrite vscale_length, mvT_length; auto. }
  split.
  - rewrite (vsumv_app F n); [| apply (LR (fun t => mv F (g_R F t) x)); intros; apply mv_length
                              | apply (LN (fun tm => mv F (snd tm) x)) ].
    cbn [b_a b_g b_f iblock mblock].
    apply f_equal2; [| apply f_equal2; [reflexivity | apply f_equal2] ].
    + unfold wblock, Weff, Wfac in *. rewrite mvH_real. destruct (p_W F P) as [W|]; simpl.
      * destruct HW as (WWr & HWr). rewrite vscale_one. rewrite HWr by (rewrite mv_length; auto). reflexivity.
      * rewrite vscale_one, mv_mident; auto. rewrite mv_length; auto.
    + f_equal. apply map_ext; intros t. rewrite mvH_real; auto.
    + rewrite <- EN, map_map. f_equal. apply map_ext_in; intros tm Htm.
      eapply Forall_forall in HN; eauto. destruct HN as (WM & HM). rewrite HM; auto.
  - rewrite (vsumv_app F n); [| apply (LR (g_d F)); intros t Ht; eapply Forall_forall in WR; eauto; destruct WR; auto
                              | apply (LN (fun tm => zeros F (length (snd tm)))) ].
    cbn [b_a b_g b_c iblock mblock].
    assert (Z : map (fun tm : nreg F * mat => vscale F (sq F (h_eps F (fst tm))) (mvT F n (snd tm) (zeros F (length (snd tm))))) NM
                = map (fun _ => zeros F n) NM).
    { apply map_ext_in; intros tm Htm. eapply Forall_forall in HN; eauto. destruct HN as (WM & _).
      rewrite mvT_zeros by auto. apply vscale_zeros. }
    rewrite Z, vsumv_zeros, vscale_zeros.
    rewrite (vadd_zeros_r' F n) by (apply vsumv_length, (LR (g_d F)); intros t Ht; eapply Forall_forall in WR; eauto; destruct WR; auto).
    rewrite (vadd_zeros_l' F n) by (apply vsumv_length, (LR (g_d F)); intros t Ht; eapply Forall_forall in WR; eauto; destruct WR; auto).
    f_equal.
    + unfold wblock, Weff, Wfac in *. rewrite mvH_real. destruct (p_W F P) as [W|]; simpl.
      * destruct HW as (WWr & HWr). rewrite vscale_one. rewrite HWr by auto. reflexivity.
      * rewrite vscale_one, mv_mident; auto.
    + f_equal. apply map_ext; intros t. rewrite mvH_real; auto.
Qed.

(* MAIN: a solution of the documented normal equations minimises the
   documented functional, for every problem of every size, provided the
   weights are positive semi-definite through factorisations
   W = Wr^T Wr, N_i = M_i^T M_i. *)
Theorem normal_eq_minimises P Wr NM x : wfP F P -> Wfac P Wr -> Nfac P NM -> length x = p_n F P ->
  mv F (Nmat F P) x = rhs F P -> forall z, length z = p_n F P -> rle F (Jdoc P x) (Jdoc P z).
Proof. intros WP HW HN Hx E z Hz. rewrite (Jdoc_blocks P Wr NM x), (Jdoc_blocks P Wr NM z) by auto.
  destruct (Nb_blocks P Wr NM x WP HW HN Hx) as (E1 & E2).
  apply (block_normal_eq_minimises F (p_n F P)); auto using blocks_wf, blocks_nonneg.
  rewrite E1, E2, <- Nmat_apply by auto. exact E. Qed.

(* the expansion itself:  J(x+h) - J(x) = SQ(h) + 2 <h, N x - rhs>,  SQ(h) >= 0 *)
Theorem Jdoc_expand P Wr NM x h : wfP F P -> Wfac P Wr -> Nfac P NM -> length x = p_n F P -> length h = p_n F P ->
  Jdoc P (vadd F x h) = Jdoc P x + SQb F (blocks P Wr NM) h
     + (1 + 1) * (dotu F h (mv F (Nmat F P) x) - dotu F h (rhs F P))
  /\ rle F 0 (SQb F (blocks P Wr NM) h).
Proof. intros WP HW HN Hx Hh. split; [| apply SQb_nonneg, blocks_nonneg].
  rewrite (Jdoc_blocks P Wr NM x), (Jdoc_blocks P Wr NM (vadd F x h)) by (auto; rewrite vadd_length; lia).
  destruct (Nb_blocks P Wr NM x WP HW HN Hx) as (E1 & E2).
  rewrite (Jb_expand F (p_n F P)) by (auto using blocks_wf). rewrite E1, E2, Nmat_apply by auto. reflexivity. Qed.
End LSMin.
