(* LSQRRes.v — for damp = 0 the LSQR iterates satisfy, for ALL k,
       y - A x_k = phibar_k * u~_k
   where u~_1 = u_1, u~_{k+1} = cs1 sn u~_k - cs u_{k+1} (ghost field l_ut of
   the model).  Proved by a local induction that needs no orthogonality of the
   Lanczos vectors: the invariant also carries  A w_k = (A v_k - alfa_k u_k) + rhobar_k u~_k.
   Consequence: ||y - A x_k||^2 = phibar_k^2 ||u~_k||^2; that ||u~_k|| = 1 needs the
   mutual orthogonality of u_1..u_{k+1} (not proved: stated as a hypothesis in
   lsqr_phibar_is_residual_norm_partial). *)
From PV Require Export LSQR.
Local Open Scope R_scope.

Section VecComb.
Variable R : CRing.
Add Ring RrLR0 : (rth R).
Notation vec := (list R).
Lemma comb_r (a b : vec) p t be rb p' k cs : length a = length b ->
  p - t * rb = p' * k -> t * be = p' * cs ->
  vsub R (vscale R p a) (vscale R t (vadd R (vscale R be b) (vscale R rb a))) =
  vscale R p' (vsub R (vscale R k a) (vscale R cs b)).
Proof. intros L H1 H2. revert b L; induction a as [|x a IH]; intros [|y b] L; simpl in *; try discriminate; auto.
  unfold vsub, vadd, vscale in *; simpl. rewrite IH by lia. f_equal.
  replace (p * x - t * (be * y + rb * x)) with ((p - t * rb) * x - (t * be) * y) by ring. rewrite H1, H2. ring. Qed.
Lemma comb_w (g a b : vec) t2 be rb al rb' k cs : length g = length a -> length a = length b ->
  t2 * rb = rb' * k -> t2 * be = - al - rb' * cs ->
  vadd R g (vscale R t2 (vadd R (vscale R be b) (vscale R rb a))) =
  vadd R (vsub R g (vscale R al b)) (vscale R rb' (vsub R (vscale R k a) (vscale R cs b))).
Proof. intros L1 L2 H1 H2. revert a b L1 L2; induction g as [|z g IH]; intros [|x a] [|y b] L1 L2; simpl in *; try discriminate; auto.
  unfold vsub, vadd, vscale in *; simpl. rewrite IH by lia. f_equal.
  replace (z + t2 * (be * y + rb * x)) with (z + (t2 * rb) * x + (t2 * be) * y) by ring. rewrite H1, H2. ring. Qed.
Lemma vsub_vadd_cancel (g h : vec) : length g = length h -> vadd R (vsub R g h) h = g.
Proof. revert h; induction g as [|z g IH]; intros [|y h] L; simpl in *; try discriminate; auto.
  unfold vsub, vadd in *; simpl. rewrite IH by lia. f_equal; ring. Qed.
End VecComb.

Section Res.
Variable O : OrdField.
Add Ring RrLR : (rth O).
Add Field FfLR : (fth O).
Notation vec := (list O).
Variable n : nat.
Variable A : list (list O).
Hypothesis WA : wfM O n A.
Variable y : vec.
Hypothesis Hy : length y = length A.
Notation step := (lsqr_step O n A 0).
Notation m := (length A).

Definition res_inv (st : lstate O) : Prop :=
  length (l_x O st) = n /\ length (l_v O st) = n /\ length (l_w O st) = n /\ length (l_u O st) = m /\ length (l_ut O st) = m /\
  vsub O y (mv O A (l_x O st)) = vscale O (l_phibar O st) (l_ut O st) /\
  mv O A (l_w O st) = vadd O (vsub O (mv O A (l_v O st)) (vscale O (l_alfa O st) (l_u O st))) (vscale O (l_rhobar O st) (l_ut O st)).

(* what one step needs: no breakdown, the two rotation norms exact *)
Definition good (st : lstate O) (rt : roots O) : Prop :=
  gt0 O (rt_beta O rt) = true /\
  exact O (rt_rhobar1 O rt) (l_rhobar O st * l_rhobar O st + 0 * 0) /\ rt_rhobar1 O rt <> 0 /\
  exact O (rt_rho O rt) (rt_rhobar1 O rt * rt_rhobar1 O rt + rt_beta O rt * rt_beta O rt) /\ rt_rho O rt <> 0.
Fixpoint all_good (st : lstate O) (rts : list (roots O)) : Prop :=
  match rts with [] => True | rt :: t => good st rt /\ all_good (step st rt) t end.

Lemma res_step st rt : res_inv st -> good st rt -> res_inv (step st rt).
Proof.
  intros (Lx & Lv & Lw & Lu & Lt & Ia & Ib) (Pb & [E1 _] & N1 & [E2 _] & N2).
  pose proof (gt0_neq O _ Pb) as Nb.
  set (u0 := vsub O (mv O A (l_v O st)) (vscale O (l_alfa O st) (l_u O st))) in *.
  assert (Lu0 : length u0 = m) by (apply vsub_length_eq; [apply mv_length | rewrite vscale_length; auto]).
  set (u' := vscale O (1 / rt_beta O rt) u0).
  assert (Lu' : length u' = m) by (unfold u'; rewrite vscale_length; auto).
  assert (GK : u0 = vscale O (rt_beta O rt) u').
  { unfold u'. rewrite vscale_vscale. replace (rt_beta O rt * (1 / rt_beta O rt)) with (r1 O) by (field; auto). symmetry; apply vscale_one. }
  rewrite GK in Ib.
  unfold res_inv, lsqr_step, lsqr_step_full; cbn [fst l_x l_v l_w l_u l_ut l_phibar l_alfa l_rhobar].
  rewrite Pb. fold u0. fold u'.
  set (b := rt_beta O rt) in *. set (R1 := rt_rhobar1 O rt) in *. set (rho := rt_rho O rt) in *.
  set (rb := l_rhobar O st) in *. set (pb := l_phibar O st) in *. set (al' := rt_alfa O rt).
  set (v0 := vsub O (mvH O n A u') (vscale O b (l_v O st))).
  assert (Lv0 : length v0 = n) by (apply vsub_length_eq; [apply mvH_length; auto | rewrite vscale_length; auto]).
  set (v' := if gt0 O al' then vscale O (1 / al') v0 else v0).
  assert (Lv' : length v' = n) by (unfold v'; destruct (gt0 O al'); rewrite ?vscale_length; auto).
  assert (H1 : rb * rb = R1 * R1) by (rewrite E1; ring).
  assert (H2 : rho * rho - R1 * R1 - b * b = 0) by (rewrite E2; ring).
  repeat split.
  - apply vadd_length_eq; auto. rewrite vscale_length; auto.
  - exact Lv'.
  - apply vadd_length_eq; auto. rewrite vscale_length; auto.
  - exact Lu'.
  - apply vsub_length_eq; rewrite vscale_length; auto.
  - (* y - A x' = phibar' u~' *)
    rewrite mv_vadd, mv_vscale by (rewrite vscale_length; congruence).
    rewrite <- vsub_vsub_vscale by (rewrite ?mv_length; auto).
    rewrite Ia, Ib. apply comb_r; [congruence | |].
    + match goal with |- ?L = ?R =>
        assert (C : L - R = pb * ((rho * rho - R1 * R1 - b * b) / (rho * rho)) -
                            pb * (rb * rb - R1 * R1) * (1 / (rho * rho) + b * b / (rho * rho * (R1 * R1)))) by (field; auto);
        replace L with ((L - R) + R) by ring; rewrite C end.
      rewrite H1, H2. field; auto.
    + field; auto.
  - (* A w' = (A v' - alfa' u') + rhobar' u~' *)
    rewrite mv_vadd, mv_vscale by (rewrite vscale_length; congruence).
    rewrite Ib. apply comb_w; [rewrite mv_length; congruence | congruence | |].
    + field; auto.
    + match goal with |- ?L = ?R =>
        assert (C : L - R = al' * ((rho * rho - R1 * R1 - b * b) / (rho * rho))) by (field; auto);
        replace L with ((L - R) + R) by ring; rewrite C end.
      rewrite H2. field; auto.
Qed.

Lemma res_setup x0 sb sa : x0_ok O n x0 -> gt0 O sb = true -> res_inv (lsqr_setup O n A y x0 sb sa).
Proof.
  intros Hx Pb. pose proof (gt0_neq O _ Pb) as Nb.
  unfold res_inv, lsqr_setup, lsqr_setup_full; cbn [fst l_x l_v l_w l_u l_ut l_phibar l_alfa l_rhobar]. rewrite Pb. cbn [andb].
  set (x := match x0 with None => zeros O n | Some v => v end).
  set (u0 := match x0 with None => y | Some v => vsub O y (mv O A v) end).
  assert (Lx : length x = n) by (unfold x; destruct x0 as [v|]; [apply Hx; auto | apply zeros_length]).
  assert (Eu : u0 = vsub O y (mv O A x)).
  { unfold u0, x. destruct x0 as [v|]; auto. rewrite mv_zeros, <- Hy. symmetry; apply vsub_zeros_r. }
  assert (Lu0 : length u0 = m) by (rewrite Eu; apply vsub_length_eq; auto; apply mv_length).
  set (u := vscale O (1 / sb) u0). assert (Lu : length u = m) by (unfold u; rewrite vscale_length; auto).
  set (v0 := mvH O n A u). assert (Lv0 : length v0 = n) by (apply mvH_length; auto).
  set (v := if gt0 O sa then vscale O (1 / sa) v0 else v0).
  assert (Lv : length v = n) by (unfold v; destruct (gt0 O sa); rewrite ?vscale_length; auto).
  repeat split; auto.
  - rewrite <- Eu. unfold u. rewrite vscale_vscale. replace (sb * (1 / sb)) with (r1 O) by (field; auto). symmetry; apply vscale_one.
  - symmetry. apply vsub_vadd_cancel. rewrite mv_length, vscale_length; auto.
Qed.

(* C10: for damp = 0 and ALL k, the true residual of the k-th iterate is phibar_k times the ghost vector u~_k *)
Theorem lsqr_residual_direction x0 sb sa rts : x0_ok O n x0 -> gt0 O sb = true ->
  all_good (lsqr_setup O n A y x0 sb sa) rts ->
  let st := lsqr_iter O n A 0 (lsqr_setup O n A y x0 sb sa) rts in
  vsub O y (mv O A (l_x O st)) = vscale O (l_phibar O st) (l_ut O st).
Proof.
  intros Hx Pb G st. assert (I : res_inv st).
  { subst st. pose proof (res_setup x0 sb sa Hx Pb) as I0. revert I0 G. generalize (lsqr_setup O n A y x0 sb sa) as s0.
    induction rts as [|rt t IH]; intros s0 I0 G; simpl; auto. destruct G as [G1 G2]. apply IH; auto. apply res_step; auto. }
  apply I.
Qed.

(* ... hence ||y - A x_k||^2 = phibar_k^2 (the cost entry squared, r1norm^2 = r2norm^2 for damp = 0) as soon as u~_k is a unit
   vector.  PARTIAL: ||u~_k|| = 1 requires the mutual orthogonality of the Lanczos vectors u_1..u_{k+1}, which is not proved. *)
Theorem lsqr_phibar_is_residual_norm_partial x0 sb sa rts : x0_ok O n x0 -> gt0 O sb = true ->
  all_good (lsqr_setup O n A y x0 sb sa) rts ->
  let st := lsqr_iter O n A 0 (lsqr_setup O n A y x0 sb sa) rts in
  dot O (l_ut O st) (l_ut O st) = 1 ->
  lsres2 O A y (l_x O st) = l_phibar O st * l_phibar O st.
Proof.
  intros Hx Pb G st U. pose proof (lsqr_residual_direction x0 sb sa rts Hx Pb G) as E. cbv zeta in E. fold st in E.
  unfold lsres2; cbv zeta. rewrite E.
  rewrite dot_vscale_l, dot_vscale_r, conj_real, U. ring.
Qed.
End Res.

(* non-vacuity: a concrete run over Qc with EXACT rational norms satisfies [all_good]:
   A = (3, 4)^T, y = e_1: beta_1 = 1, alfa_1 = 3; step 1: beta_2 = 4, rhobar1 = 3, rho = 5 *)
From Coq Require Import QArith Qcanon.
From PV Require Import QcInst Check CGLSFacts.
Definition exA : list (list QcO) := [[qz 3]; [qz 4]].
Definition exy : list QcO := [qz 1; z0].
Definition exrt : roots QcO := mkr QcO (qz 4) (qz 5) z0 (qz 3) (qz 5) z0 (qz 1) z0 z0 z0.
Lemma example_lsqr_good :
  wfM QcO 1 exA /\ length exy = length exA /\ gt0 QcO (qz 1) = true /\
  all_good QcO 1 exA (lsqr_setup QcO 1 exA exy None (qz 1) (qz 3)) [exrt] /\
  l_phibar QcO (lsqr_iter QcO 1 exA z0 (lsqr_setup QcO 1 exA exy None (qz 1) (qz 3)) [exrt]) <> 0%Qc.
Proof.
  split; [repeat constructor|]. split; [reflexivity|]. split; [vm_compute; reflexivity|]. split.
  - simpl. split; [|exact I]. unfold good. split; [vm_compute; reflexivity|].
    split; [split; [apply Qc_eq_bool_correct; vm_compute; reflexivity | apply Qcleb_spec; vm_compute; reflexivity]|].
    split; [apply neqb_neq; vm_compute; reflexivity|].
    split; [split; [apply Qc_eq_bool_correct; vm_compute; reflexivity | apply Qcleb_spec; vm_compute; reflexivity]|].
    apply neqb_neq; vm_compute; reflexivity.
  - apply neqb_neq; vm_compute; reflexivity.
Qed.
