(* CG.v — model of pylops/optimization/cls_basic.py : class CG
   (setup / step / run / finalize / solve), statement by statement.

   Conventions shared with CGLS.v:
   * vectors are lists over a FieldS F (field with conjugation);
   * [Aop] is Op.matvec as a function (instantiated by [mv F M]); theorems
     assume it linear ([linop]);
   * [absf] is numpy.abs applied to the scalars r.dot(r.conj()), c.dot(Opc.conj());
     theorems that need it assume only that it is the identity on Hermitian
     squares [dot v v] (true of |.| on the reals / complex numbers);
   * [gtb a b] is the float comparison a > b of the loop guard;
   * the code stores cost = sqrt(kold); the model stores the SQUARES of the
     cost entries ([cg_cost2]) so that no square root is needed;
   * [cg_x] is not a solver attribute: it is the array handed from setup to
     step to run (kept in the state for convenience). *)
From PV Require Export Mat.
Local Open Scope R_scope.

Section VecAlg.
Variable R : CRing.
Add Ring RrCG0 : (rth R).
Notation vec := (list R).

Lemma vsub_length_eq (u v : vec) n : length u = n -> length v = n -> length (vsub R u v) = n.
Proof. intros; rewrite vsub_length; lia. Qed.
Lemma vadd_length_eq (u v : vec) n : length u = n -> length v = n -> length (vadd R u v) = n.
Proof. intros; rewrite vadd_length; lia. Qed.
Lemma vsub_vsub_vscale (y u v : vec) a : length y = length u -> length u = length v ->
  vsub R (vsub R y u) (vscale R a v) = vsub R y (vadd R u (vscale R a v)).
Proof. revert u v; induction y as [|b y IH]; intros [|c u] [|d v] H1 H2; simpl in *; try discriminate; auto.
  unfold vsub, vadd, vscale in *; simpl. rewrite IH by lia. f_equal; ring. Qed.
Lemma vsub_zeros_r (y : vec) : vsub R y (zeros R (length y)) = y.
Proof. unfold vsub, zeros; induction y as [|a y IH]; simpl; auto. rewrite IH; f_equal; ring. Qed.
Lemma vsub_vadd_distr (a b c d : vec) : length a = length b -> length b = length c -> length c = length d ->
  vsub R (vadd R a b) (vadd R c d) = vadd R (vsub R a c) (vsub R b d).
Proof. revert b c d; induction a as [|x a IH]; intros [|y b] [|z c] [|w d] H1 H2 H3; simpl in *; try discriminate; auto.
  unfold vsub, vadd in *; simpl. rewrite IH by lia. f_equal; ring. Qed.
Lemma vscale_vsub a (u v : vec) : vscale R a (vsub R u v) = vsub R (vscale R a u) (vscale R a v).
Proof. revert v; induction u as [|b u IH]; intros [|c v]; simpl; auto.
  unfold vsub, vscale in *; simpl; rewrite IH; f_equal; ring. Qed.
End VecAlg.

Section LinOp.
Variable R : CRing.
Notation vec := (list R).
(* f maps vectors of length n to vectors of length m, linearly *)
Definition linop (n m : nat) (f : vec -> vec) : Prop :=
  (forall v, length v = n -> length (f v) = m) /\
  (forall x c a, length x = n -> length c = n ->
     f (vadd R x (vscale R a c)) = vadd R (f x) (vscale R a (f c))) /\
  f (zeros R n) = zeros R m.
Lemma mv_linop n (M : list (list R)) : linop n (length M) (mv R M).
Proof. repeat split.
  - intros; apply mv_length.
  - intros; rewrite mv_vadd, mv_vscale; auto. rewrite vscale_length; congruence.
  - apply mv_zeros.
Qed.
End LinOp.

(* ---- the run loop shared by CG and CGLS (the two `run` methods are the
   same code), generic in the state machine ---- *)
Inductive event {F : Type} := EvStepBegin (x : list F) | EvStepEnd (x : list F) | EvCallback (x : list F).
Arguments event F : clear implicits.

Section Loop.
Variable F : FieldS.
Notation vec := (list F).
Variable St : Type.
Variable step : St -> St.
Variable xof : St -> vec.
Variable koldof : St -> F.
Variable iiterof : St -> nat.
Variable gtb : F -> F -> bool.
(* what Solver._registercallbacks hands to on_step_end is args[0], the array
   given TO step: the updated iterate iff step works in place *)
Variable inplace : bool.

Fixpoint loop_run (fuel niter : nat) (tol : F) (st : St) (log : list (event F)) : St * list (event F) :=
  match fuel with
  | O => (st, log)
  | S f =>
    if Nat.ltb (iiterof st) niter && gtb (koldof st) tol then
      let st' := step st in
      loop_run f niter tol st'
        (log ++ [EvStepBegin (xof st); EvStepEnd (xof (if inplace then st' else st)); EvCallback (xof st')])
    else (st, log)
  end.

Fixpoint loop_iter (k : nat) (st : St) : St :=
  match k with O => st | S k' => step (loop_iter k' st) end.
Lemma loop_iter_step k st : loop_iter k (step st) = loop_iter (S k) st.
Proof. induction k as [|k IH]; simpl; auto. rewrite IH; reflexivity. Qed.

Definition callbacks_of (log : list (event F)) : list vec :=
  flat_map (fun e => match e with EvCallback x => [x] | _ => [] end) log.
Definition begins_of (log : list (event F)) : list vec :=
  flat_map (fun e => match e with EvStepBegin x => [x] | _ => [] end) log.
Definition ends_of (log : list (event F)) : list vec :=
  flat_map (fun e => match e with EvStepEnd x => [x] | _ => [] end) log.
Definition loop_events (st : St) (j : nat) : list (event F) :=
  flat_map (fun i => [EvStepBegin (xof (loop_iter i st));
                      EvStepEnd (xof (loop_iter (if inplace then S i else i) st));
                      EvCallback (xof (loop_iter (S i) st))]) (seq 0 j).

Lemma flat_map_seq_shift {A} (g : nat -> list A) j : flat_map (fun i => g (S i)) (seq 0 j) = flat_map g (seq 1 j).
Proof. rewrite <- seq_shift. induction (seq 0 j) as [|a l IH]; simpl; auto. rewrite IH; reflexivity. Qed.

(* run = some number j of steps; the log is exactly the j triples; on exit
   either the fuel is exhausted or the loop guard is false *)
Theorem loop_run_spec fuel niter tol : forall st log,
  exists j, (j <= fuel)%nat /\
    fst (loop_run fuel niter tol st log) = loop_iter j st /\
    snd (loop_run fuel niter tol st log) = log ++ loop_events st j /\
    (forall i, (i < j)%nat -> Nat.ltb (iiterof (loop_iter i st)) niter && gtb (koldof (loop_iter i st)) tol = true) /\
    (j = fuel \/ Nat.ltb (iiterof (loop_iter j st)) niter && gtb (koldof (loop_iter j st)) tol = false).
Proof.
  induction fuel as [|f IH]; intros st log; cbn [loop_run]; cbv zeta.
  - exists 0%nat. split; [lia|]. split; [reflexivity|]. split; [simpl; rewrite app_nil_r; reflexivity|].
    split; [intros; lia | left; reflexivity].
  - destruct (Nat.ltb (iiterof st) niter && gtb (koldof st) tol) eqn:E.
    + destruct (IH (step st) (log ++ [EvStepBegin (xof st); EvStepEnd (xof (if inplace then step st else st)); EvCallback (xof (step st))]))
        as (j & Hj & H1 & H2 & H3 & H4).
      exists (S j). split; [lia|]. split; [rewrite H1; apply loop_iter_step|]. split.
      * rewrite H2, <- app_assoc. f_equal. unfold loop_events. change (seq 0 (S j)) with (0%nat :: seq 1 j).
        cbn [flat_map]. cbn [loop_iter]. rewrite <- flat_map_seq_shift.
        cbn [app]. f_equal. f_equal; [destruct inplace; reflexivity|]. f_equal.
        apply flat_map_ext; intros i. rewrite !loop_iter_step. destruct inplace; rewrite ?loop_iter_step; reflexivity.
      * split.
        -- intros [|i] Hi; [exact E|]. rewrite <- !loop_iter_step. apply H3; lia.
        -- destruct H4 as [->|H4]; [left; auto | right]. rewrite <- !loop_iter_step. exact H4.
    + exists 0%nat. split; [lia|]. split; [reflexivity|]. split; [simpl; rewrite app_nil_r; reflexivity|].
      split; [intros; lia | right; exact E].
Qed.

Lemma events_proj (g1 g2 g3 : nat -> vec) (l : list nat) :
  let ev := flat_map (fun i => [EvStepBegin (g1 i); EvStepEnd (g2 i); EvCallback (g3 i)]) l in
  callbacks_of ev = map g3 l /\ begins_of ev = map g1 l /\ length (ends_of ev) = length l.
Proof. induction l as [|a l (A & B & C)]; simpl; auto. unfold callbacks_of, begins_of, ends_of in *; simpl.
  rewrite A, B, C. auto. Qed.

Hypothesis Hiiter : forall st, iiterof (step st) = S (iiterof st).
Lemma loop_iiter_iter k st : iiterof (loop_iter k st) = (k + iiterof st)%nat.
Proof. induction k as [|k IH]; simpl; [|rewrite Hiiter, IH]; reflexivity. Qed.

Theorem loop_run_exits niter tol st0 : iiterof st0 = 0%nat ->
  let st := fst (loop_run niter niter tol st0 []) in
  Nat.ltb (iiterof st) niter && gtb (koldof st) tol = false.
Proof.
  intros H0 st. destruct (loop_run_spec niter niter tol st0 []) as (j & Hj & H1 & _ & _ & H4).
  subst st. rewrite H1. destruct H4 as [->|H4]; auto.
  rewrite loop_iiter_iter, H0, Nat.add_0_r.
  replace (Nat.ltb niter niter) with false by (symmetry; apply Nat.ltb_ge; lia). reflexivity.
Qed.

Theorem loop_solve_spec niter tol st0 : iiterof st0 = 0%nat ->
  exists j, (j <= niter)%nat /\
    fst (loop_run niter niter tol st0 []) = loop_iter j st0 /\
    iiterof (loop_iter j st0) = j /\
    callbacks_of (snd (loop_run niter niter tol st0 [])) = map (fun i => xof (loop_iter i st0)) (seq 1 j) /\
    begins_of (snd (loop_run niter niter tol st0 [])) = map (fun i => xof (loop_iter i st0)) (seq 0 j) /\
    length (ends_of (snd (loop_run niter niter tol st0 []))) = j.
Proof.
  intros H0. destruct (loop_run_spec niter niter tol st0 []) as (j & Hj & H1 & H2 & _ & _).
  exists j. split; [exact Hj|]. split; [exact H1|]. split; [rewrite loop_iiter_iter, H0; lia|].
  rewrite H2. cbn [app]. unfold loop_events.
  destruct (events_proj (fun i => xof (loop_iter i st0)) (fun i => xof (loop_iter (if inplace then S i else i) st0))
             (fun i => xof (loop_iter (S i) st0)) (seq 0 j)) as (A & B & C).
  rewrite A, B, C, seq_length. repeat split; auto.
  rewrite <- seq_shift, map_map. reflexivity.
Qed.
End Loop.
Arguments callbacks_of {F} log.
Arguments begins_of {F} log.
Arguments ends_of {F} log.

Section CG.
Variable F : FieldS.
Add Ring RrCG : (rth F).
Add Field FfCG : (fth F).
Notation vec := (list F).
Variable absf : F -> F.
Variable gtb : F -> F -> bool.
Variable Aop : vec -> vec.

Record cgst := mkcg { cg_x : vec; cg_r : vec; cg_c : vec; cg_kold : F; cg_cost2 : list F; cg_iiter : nat }.

(* CG.setup(y, x0, niter, tol): n = Op.shape[1] *)
Definition cg_setup (n : nat) (y : vec) (x0 : option vec) : cgst :=
  let x := match x0 with None => zeros F n | Some v => v end in
  let r := match x0 with None => y | Some v => vsub F y (Aop v) end in
  let kold := absf (dot F r r) in          (* abs(r.dot(r.conj())) *)
  mkcg x r r kold [kold] 0.                (* c = r.copy(); cost = [sqrt(kold)]; iiter = 0 *)

(* CG.step *)
Definition cg_step (st : cgst) : cgst :=
  let Opc := Aop (cg_c st) in
  let cOpc := absf (dot F Opc (cg_c st)) in            (* abs(c.dot(Opc.conj())) *)
  let a := cg_kold st / cOpc in
  let x := vadd F (cg_x st) (vscale F a (cg_c st)) in  (* x += a * c *)
  let r := vsub F (cg_r st) (vscale F a Opc) in        (* r -= a * Opc *)
  let k := absf (dot F r r) in
  let b := k / cg_kold st in
  let c := vadd F r (vscale F b (cg_c st)) in          (* c = r + b * c *)
  mkcg x r c k (cg_cost2 st ++ [k]) (S (cg_iiter st)).

(* CG.run: while self.iiter < niter and self.kold > self.tol: x = step(x); callback(x).
   CG.step updates x in place (x += ...), so on_step_end, which is handed
   args[0], sees the updated array: inplace = true. *)
Definition cg_run := loop_run F cgst cg_step cg_x cg_kold cg_iiter gtb true.
Definition cg_iter := loop_iter cgst cg_step.

(* CG.solve = setup; run; finalize (cost list -> array); returns x, iiter, cost *)
Definition cg_solve (n : nat) (y : vec) (x0 : option vec) (niter : nat) (tol : F) :=
  let '(st, log) := cg_run niter niter tol (cg_setup n y x0) [] in
  (cg_x st, cg_iiter st, cg_cost2 st, log).

Lemma cg_iiter_step st : cg_iiter (cg_step st) = S (cg_iiter st).
Proof. reflexivity. Qed.
Lemma cg_cost_length_iter k st : length (cg_cost2 st) = S (cg_iiter st) ->
  length (cg_cost2 (cg_iter k st)) = S (cg_iiter (cg_iter k st)).
Proof. intros H; induction k as [|k IH]; simpl; auto. rewrite app_length, IH; simpl; lia. Qed.

(* fuel = niter is enough: on exit the while-condition is false *)
Theorem cg_run_exits n y x0 niter tol :
  let st := fst (cg_run niter niter tol (cg_setup n y x0) []) in
  Nat.ltb (cg_iiter st) niter && gtb (cg_kold st) tol = false.
Proof. apply (loop_run_exits F cgst cg_step cg_x cg_kold cg_iiter gtb true cg_iiter_step). reflexivity. Qed.

(* C10: |cost| = 1 + iiter; the callback is called iiter times and receives
   exactly the iterates x_1 .. x_iiter in order; on_step_begin sees x_0 .. x_{iiter-1} *)
Theorem cg_solve_diagnostics n y x0 niter tol :
  let st0 := cg_setup n y x0 in
  let '(x, iiter, cost2, log) := cg_solve n y x0 niter tol in
  length cost2 = S iiter /\ (iiter <= niter)%nat /\
  x = cg_x (cg_iter iiter st0) /\ cost2 = cg_cost2 (cg_iter iiter st0) /\
  callbacks_of log = map (fun i => cg_x (cg_iter i st0)) (seq 1 iiter) /\
  begins_of log = map (fun i => cg_x (cg_iter i st0)) (seq 0 iiter) /\
  length (ends_of log) = iiter.
Proof.
  intros st0. unfold cg_solve. fold st0.
  destruct (loop_solve_spec F cgst cg_step cg_x cg_kold cg_iiter gtb true cg_iiter_step niter tol st0 eq_refl)
    as (j & Hj & H1 & Hi & Hc & Hb & He).
  fold cg_run in H1, Hc, Hb, He. fold cg_iter in H1, Hi, Hc, Hb.
  destruct (cg_run niter niter tol st0 []) as [st log]. simpl in H1, Hc, Hb, He. subst st.
  rewrite Hi. split; [rewrite <- Hi at 2; apply cg_cost_length_iter; reflexivity|]. repeat split; auto.
Qed.

(* ---- the residual invariant (C09): r_k = y - A x_k for all k, all inputs ---- *)
Section Inv.
Variable n : nat.
Hypothesis HA : linop F n n Aop.
Variable y : vec.
Hypothesis Hy : length y = n.

Definition cg_inv (st : cgst) : Prop :=
  length (cg_x st) = n /\ length (cg_r st) = n /\ length (cg_c st) = n /\
  cg_r st = vsub F y (Aop (cg_x st)).

Lemma cg_setup_inv x0 : (forall v, x0 = Some v -> length v = n) -> cg_inv (cg_setup n y x0).
Proof.
  destruct HA as (HL & _ & H0). intros Hx. unfold cg_inv, cg_setup; destruct x0 as [v|]; simpl.
  - specialize (Hx v eq_refl). assert (length (vsub F y (Aop v)) = n) by (apply vsub_length_eq; auto).
    repeat split; auto.
  - rewrite zeros_length. repeat split; auto. rewrite H0, <- Hy. symmetry; apply vsub_zeros_r.
Qed.
Lemma cg_step_inv st : cg_inv st -> cg_inv (cg_step st).
Proof.
  destruct HA as (HL & Hlin & _). intros (Lx & Lr & Lc & Hr). unfold cg_inv, cg_step; simpl.
  set (a := cg_kold st / absf (dot F (Aop (cg_c st)) (cg_c st))).
  assert (LA : length (Aop (cg_c st)) = n) by auto.
  assert (L1 : length (vadd F (cg_x st) (vscale F a (cg_c st))) = n)
    by (apply vadd_length_eq; auto; rewrite vscale_length; auto).
  assert (L2 : length (vsub F (cg_r st) (vscale F a (Aop (cg_c st)))) = n)
    by (apply vsub_length_eq; auto; rewrite vscale_length; auto).
  repeat split; auto.
  - apply vadd_length_eq; auto. rewrite vscale_length; auto.
  - rewrite Hlin by auto. rewrite Hr. apply vsub_vsub_vscale; rewrite ?HL by auto; congruence.
Qed.
Theorem cg_inv_iter x0 k : (forall v, x0 = Some v -> length v = n) -> cg_inv (cg_iter k (cg_setup n y x0)).
Proof. intros H; induction k as [|k IH]; simpl; [apply cg_setup_inv; auto | apply cg_step_inv; auto]. Qed.

Theorem cg_residual_inv x0 k : (forall v, x0 = Some v -> length v = n) ->
  let st := cg_iter k (cg_setup n y x0) in cg_r st = vsub F y (Aop (cg_x st)).
Proof. intros H; apply (cg_inv_iter x0 k H). Qed.

(* C10: entry k of cost, squared, is ||y - A x_k||^2 *)
Hypothesis Habs : forall v : vec, absf (dot F v v) = dot F v v.
Definition res2 (x : vec) : F := let r := vsub F y (Aop x) in dot F r r.

Lemma cg_kold_truthful st : cg_inv st -> cg_kold (cg_step st) = res2 (cg_x (cg_step st)).
Proof. intros H. apply cg_step_inv in H. destruct H as (_ & _ & _ & Hr).
  unfold res2. rewrite <- Hr. unfold cg_step; simpl. apply Habs. Qed.

Theorem cg_cost_truthful x0 k : (forall v, x0 = Some v -> length v = n) ->
  let st0 := cg_setup n y x0 in
  cg_cost2 (cg_iter k st0) = map (fun j => res2 (cg_x (cg_iter j st0))) (seq 0 (S k)).
Proof.
  intros H st0. induction k as [|k IH].
  - destruct (cg_setup_inv x0 H) as (_ & _ & _ & Hr). fold st0 in Hr.
    unfold cg_iter; cbn [loop_iter seq map]. unfold res2. rewrite <- Hr. subst st0. unfold cg_setup; cbn [cg_cost2 cg_r].
    rewrite Habs. reflexivity.
  - rewrite seq_S, map_app. unfold cg_iter at 1; cbn [loop_iter]; fold cg_iter. unfold cg_step at 1; cbn [cg_cost2]. rewrite IH. f_equal.
    simpl. f_equal. change (cg_kold (cg_step (cg_iter k st0)) = res2 (cg_x (cg_step (cg_iter k st0)))).
    apply cg_kold_truthful. apply cg_inv_iter; auto.
Qed.
End Inv.
End CG.

